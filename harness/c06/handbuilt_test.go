// Hand-built sparse systems: the scs frontend only ever emits generic gates
// whose unsolved wire sits in the xa or xc position, so compiled circuits never
// exercise every branch of BlueprintGenericSparseR1C.Solve. Systems assembled
// through the constraint API (or restored from bytes written by another
// producer) may put the single unsolved wire of a gate in any position. This
// test builds chains of generic gates directly, with the unknown drawn among
// xa / xb / xc, and checks the returned L, R, O columns against an independent
// math/big evaluation of every gate.
package c06

import (
	"encoding/json"
	"fmt"
	"math/big"
	"strings"
	"testing"

	"verifharness/lib/cseval"
	"verifharness/lib/ev"
	"verifharness/lib/prog"
	"verifharness/lib/zk"

	"github.com/consensys/gnark/constraint"
	cs_bls12381 "github.com/consensys/gnark/constraint/bls12-381"
	cs_bn254 "github.com/consensys/gnark/constraint/bn254"
	cs_bw6761 "github.com/consensys/gnark/constraint/bw6-761"
	"github.com/consensys/gnark/constraint/solver"
	"pgregory.net/rapid"
)

// HBGate is one generic gate qL·xa + qR·xb + qO·xc + qM·xa·xb + qC = 0 whose
// wire at position Pos (0 xa, 1 xb, 2 xc) is a fresh internal wire; the two
// other positions (in position order) take the already known wires K1, K2
// (index modulo the number of wires known when the gate is reached: witness
// wires first, then the wires solved by the previous gates).
type HBGate struct {
	Pos                int    `json:"pos"`
	K1                 int    `json:"k1"`
	K2                 int    `json:"k2"`
	QL, QR, QO, QM, QC string // decimal, reduced modulo the field by run
}

// HBCase fully determines a hand-built system and its witness.
type HBCase struct {
	Field string   `json:"field"`
	NbPub int      `json:"nb_pub"`
	NbSec int      `json:"nb_sec"`
	Wit   []string `json:"wit"` // NbPub+NbSec decimal values
	Gates []HBGate `json:"gates"`
	// Assert: 0 none; 1 append a gate over three known wires (K1, K2, K1+K2)
	// whose constant makes it hold; 2 same but the constant is off by one.
	Assert     int    `json:"assert"`
	AssertGate HBGate `json:"assert_gate"`
	Tasks      int    `json:"tasks"`
}

type hbSystem interface {
	constraint.SparseR1CS[constraint.U64]
	FromInterface(interface{}) constraint.U64
}

func hbNew(field string) hbSystem {
	switch field {
	case "bn254":
		return cs_bn254.NewSparseR1CS(0)
	case "bls12-381":
		return cs_bls12381.NewSparseR1CS(0)
	case "bw6-761":
		return cs_bw6761.NewSparseR1CS(0)
	}
	return nil
}

var hbFields = []string{"bn254", "bls12-381", "bw6-761"}

func hbBig(s string, q *big.Int) *big.Int {
	v, ok := new(big.Int).SetString(s, 10)
	if !ok {
		v = new(big.Int)
	}
	return v.Mod(v, q)
}

// hbCoeffs resolves the five selectors of a gate.
func hbCoeffs(g *HBGate, q *big.Int) (qL, qR, qO, qM, qC *big.Int) {
	return hbBig(g.QL, q), hbBig(g.QR, q), hbBig(g.QO, q), hbBig(g.QM, q), hbBig(g.QC, q)
}

func mulmod(q *big.Int, xs ...*big.Int) *big.Int {
	r := big.NewInt(1)
	for _, x := range xs {
		r.Mul(r, x).Mod(r, q)
	}
	return r
}

func summod(q *big.Int, xs ...*big.Int) *big.Int {
	r := new(big.Int)
	for _, x := range xs {
		r.Add(r, x)
	}
	return r.Mod(r, q)
}

var posName = [3]string{"xa", "xb", "xc"}

func runHandBuilt(c HBCase) ev.Outcome {
	sys := hbNew(c.Field)
	if sys == nil || c.NbPub < 0 || c.NbSec < 0 || c.NbPub+c.NbSec == 0 || len(c.Wit) != c.NbPub+c.NbSec || len(c.Gates) == 0 {
		return ev.Outcome{Discard: true, DiscardWhy: "malformed hand-built case"}
	}
	q := sys.Field()
	bp := sys.AddBlueprint(&constraint.BlueprintGenericSparseR1C[constraint.U64]{})
	for i := 0; i < c.NbPub; i++ {
		sys.AddPublicVariable(fmt.Sprintf("p%d", i))
	}
	for i := 0; i < c.NbSec; i++ {
		sys.AddSecretVariable(fmt.Sprintf("s%d", i))
	}
	nw := c.NbPub + c.NbSec
	coeff := func(v *big.Int) uint32 { return sys.AddCoeff(sys.FromInterface(new(big.Int).Set(v))) }

	// reference values: witness wires, then one per solved gate (nil once undetermined)
	vals := make([]*big.Int, 0, nw+len(c.Gates))
	var pub, sec []*big.Int
	for i, s := range c.Wit {
		v := hbBig(s, q)
		vals = append(vals, v)
		if i < c.NbPub {
			pub = append(pub, v)
		} else {
			sec = append(sec, v)
		}
	}
	determined := true // false as soon as the coefficient of an unknown evaluates to zero
	classSet := map[string]bool{"field:" + c.Field: true}
	nontrivial := false
	type placed struct{ row, pos, wire int }
	var unknowns []placed
	for gi := range c.Gates {
		g := &c.Gates[gi]
		pos := ((g.Pos % 3) + 3) % 3
		known := nw + gi
		k1 := ((g.K1 % known) + known) % known
		k2 := ((g.K2 % known) + known) % known
		fresh := sys.AddInternalVariable()
		if fresh != known {
			return ev.Outcome{Violation: fmt.Sprintf("AddInternalVariable returned wire %d, expected %d", fresh, known)}
		}
		var w [3]int
		w[pos] = fresh
		switch pos { // the two other positions, in position order
		case 0:
			w[1], w[2] = k1, k2
		case 1:
			w[0], w[2] = k1, k2
		default:
			w[0], w[1] = k1, k2
		}
		qL, qR, qO, qM, qC := hbCoeffs(g, q)
		sys.AddSparseR1C(constraint.SparseR1C{
			XA: uint32(w[0]), XB: uint32(w[1]), XC: uint32(w[2]),
			QL: coeff(qL), QR: coeff(qR), QO: coeff(qO), QM: coeff(qM), QC: coeff(qC),
		}, bp)
		unknowns = append(unknowns, placed{row: c.NbPub + gi, pos: pos, wire: fresh})
		classSet["unknown:"+posName[pos]] = true
		if qM.Sign() != 0 {
			classSet["qM!=0"] = true
		}
		if qL.Cmp(qR) != 0 {
			classSet["qL!=qR"] = true
			if pos != 2 {
				nontrivial = true
			}
		}
		if !determined {
			vals = append(vals, nil)
			continue
		}
		var div, rest *big.Int
		switch pos {
		case 0:
			xb, xc := vals[w[1]], vals[w[2]]
			div = summod(q, qL, mulmod(q, qM, xb))
			rest = summod(q, mulmod(q, qR, xb), mulmod(q, qO, xc), qC)
		case 1:
			xa, xc := vals[w[0]], vals[w[2]]
			div = summod(q, qR, mulmod(q, qM, xa))
			rest = summod(q, mulmod(q, qL, xa), mulmod(q, qO, xc), qC)
		default:
			xa, xb := vals[w[0]], vals[w[1]]
			div = new(big.Int).Set(qO)
			rest = summod(q, mulmod(q, qL, xa), mulmod(q, qR, xb), mulmod(q, qM, xa, xb), qC)
		}
		if div.Sign() == 0 {
			determined = false
			vals = append(vals, nil)
			classSet["divisor-zero"] = true
			continue
		}
		x := mulmod(q, rest, new(big.Int).ModInverse(div, q))
		x.Neg(x).Mod(x, q)
		vals = append(vals, x)
	}
	expectOK := true
	if determined && c.Assert != 0 {
		g := &c.AssertGate
		known := nw + len(c.Gates)
		idx := func(k int) int { return ((k % known) + known) % known }
		wa, wb, wc := idx(g.K1), idx(g.K2), idx(g.K1+g.K2)
		qL, qR, qO, qM, _ := hbCoeffs(g, q)
		rest := summod(q, mulmod(q, qL, vals[wa]), mulmod(q, qR, vals[wb]), mulmod(q, qO, vals[wc]), mulmod(q, qM, vals[wa], vals[wb]))
		qC := new(big.Int).Neg(rest)
		if c.Assert == 2 {
			qC.Add(qC, big.NewInt(1))
			expectOK = false
			classSet["assert:violated"] = true
		} else {
			classSet["assert:holds"] = true
		}
		qC.Mod(qC, q)
		sys.AddSparseR1C(constraint.SparseR1C{
			XA: uint32(wa), XB: uint32(wb), XC: uint32(wc),
			QL: coeff(qL), QR: coeff(qR), QO: coeff(qO), QM: coeff(qM), QC: coeff(qC),
		}, bp)
	}

	w, err := zk.WitnessFrom(q, pub, sec)
	if err != nil {
		return ev.Outcome{Discard: true, DiscardWhy: "witness: " + err.Error()}
	}
	wvals := zk.WitnessValues(w)
	ex, err := cseval.Extract(sys)
	if err != nil {
		return ev.Outcome{Violation: "cannot read back the hand-built system: " + err.Error()}
	}
	var opts []solver.Option
	if c.Tasks > 0 {
		opts = append(opts, solver.WithNbTasks(c.Tasks))
	}
	sol, serr := prog.Solve(sys.(prog.System), w, opts...)
	if serr != nil && strings.HasPrefix(serr.Error(), "PANIC") {
		return ev.Outcome{Violation: firstLine(serr.Error())}
	}
	if serr != nil {
		classSet["rejected"] = true
		if determined && expectOK {
			return ev.Outcome{Violation: fmt.Sprintf("Solve failed (%s) although every gate determines its unknown wire and the system is satisfiable", firstLine(serr.Error()))}
		}
	} else {
		classSet["solved"] = true
		d, err := cseval.Decode(sol)
		if err != nil {
			return ev.Outcome{Violation: "cannot decode solution: " + err.Error()}
		}
		rep, err := ex.CheckSparse(wvals, d)
		if err != nil {
			return ev.Outcome{Violation: err.Error()}
		}
		if !rep.OK() {
			return ev.Outcome{Violation: fmt.Sprintf("Solve succeeded but the returned columns violate gates %v, copy classes of wires %v, public rows %v", rep.BadGates, rep.BadCopy, rep.BadPub)}
		}
		if determined {
			if !expectOK {
				return ev.Outcome{Violation: "Solve succeeded although the final assertion gate is violated by the only possible assignment"}
			}
			cols := [3][]*big.Int{d.L, d.R, d.O}
			for _, u := range unknowns {
				if got := cols[u.pos][u.row]; got.Cmp(vals[u.wire]) != 0 {
					return ev.Outcome{Violation: fmt.Sprintf("wire %d (%s of gate %d): Solve returned %s, the gate equation gives %s", u.wire, posName[u.pos], u.row-c.NbPub, got, vals[u.wire])}
				}
			}
		}
	}
	if determined {
		classSet["determined"] = true
	}
	var classes []string
	for _, k := range []string{"field:" + c.Field, "unknown:xa", "unknown:xb", "unknown:xc", "qM!=0", "qL!=qR", "divisor-zero", "determined", "assert:holds", "assert:violated", "solved", "rejected"} {
		if classSet[k] {
			classes = append(classes, k)
		}
	}
	return ev.Outcome{NonTrivial: nontrivial, Classes: classes}
}

func registerHandBuiltReplay() {
	ev.RegisterReplay("handbuilt", func(raw json.RawMessage) string {
		var c HBCase
		if err := json.Unmarshal(raw, &c); err != nil {
			return ""
		}
		return runHandBuilt(c).Violation
	})
}

// genCoeff: {0, 1, -1, 2, small, random field-size}; preferNonZero asks for a
// non-zero value most of the time (the coefficient of the unknown wire).
func genCoeff(t *rapid.T, label string, preferNonZero bool) string {
	k := rapid.IntRange(0, 11).Draw(t, label)
	if preferNonZero && k == 0 && rapid.IntRange(0, 4).Draw(t, label+"-keep0") != 0 {
		k = 1
	}
	switch k {
	case 0:
		return "0"
	case 1:
		return "1"
	case 2:
		return "-1"
	case 3:
		return "2"
	case 4, 5, 6, 7:
		return fmt.Sprint(rapid.IntRange(-40, 40).Draw(t, label+"-small"))
	case 8:
		if preferNonZero {
			return "3"
		}
		return "0"
	default:
		b := rapid.SliceOfN(rapid.Byte(), 8, 48).Draw(t, label+"-bytes")
		return new(big.Int).SetBytes(b).String()
	}
}

func genHBGate(t *rapid.T, pos int) HBGate {
	g := HBGate{Pos: pos,
		K1: rapid.IntRange(0, 9).Draw(t, "k1"),
		K2: rapid.IntRange(0, 9).Draw(t, "k2"),
	}
	g.QL = genCoeff(t, "qL", pos == 0)
	g.QR = genCoeff(t, "qR", pos == 1)
	g.QO = genCoeff(t, "qO", pos == 2)
	if rapid.IntRange(0, 2).Draw(t, "hasQM") == 0 {
		g.QM = genCoeff(t, "qM", true)
	} else {
		g.QM = "0"
	}
	g.QC = genCoeff(t, "qC", false)
	return g
}

func genHBCase() *rapid.Generator[HBCase] {
	return rapid.Custom(func(t *rapid.T) HBCase {
		c := HBCase{
			Field: rapid.SampledFrom(hbFields).Draw(t, "field"),
			NbPub: rapid.IntRange(0, 2).Draw(t, "nbPub"),
			NbSec: rapid.IntRange(1, 2).Draw(t, "nbSec"),
			Tasks: rapid.SampledFrom([]int{0, 1, 3}).Draw(t, "tasks"),
		}
		for i := 0; i < c.NbPub+c.NbSec; i++ {
			c.Wit = append(c.Wit, fmt.Sprint(rapid.IntRange(0, 50).Draw(t, "wit")))
		}
		n := rapid.IntRange(1, 6).Draw(t, "nbGates")
		for i := 0; i < n; i++ {
			c.Gates = append(c.Gates, genHBGate(t, rapid.IntRange(0, 2).Draw(t, "pos")))
		}
		switch rapid.IntRange(0, 5).Draw(t, "assert") {
		case 0, 1:
			c.Assert = 1
		case 2:
			c.Assert = 2
		}
		if c.Assert != 0 {
			c.AssertGate = genHBGate(t, 0)
			c.AssertGate.QC = "0" // computed by run
		}
		return c
	})
}

const ruleHandBuilt = "(c) hand-built sparse systems on bn254 / bls12-381 / bw6-761 assembled through the constraint API: chains of 1-6 generic gates whose single unsolved wire is drawn among xa / xb / xc, selectors from {0, 1, -1, 2, small, random}, optional final assertion gate (holding or off by one). Oracle: math/big solution of every gate equation for its unknown; Solve must succeed iff satisfiable, return exactly these values, and the returned L, R, O must satisfy every gate and copy class (when the coefficient of an unknown evaluates to zero only the validity of a returned solution is checked). Non-trivial: a gate with qL != qR whose unknown is xa or xb."

func TestHandBuiltSparse(t *testing.T) {
	rec := ev.Get(ID)
	rec.SetRule(ruleHandBuilt)
	g := genHBCase()
	rec.Check(t, "handbuilt", ev.N(400, 20000), func(rt *rapid.T) {
		c := g.Draw(rt, "case")
		rec.Begin("handbuilt", c)
		rec.Report(rt, "handbuilt", c, runHandBuilt(c))
	})
}

// C06 — the solver returns only satisfying assignments and fails only on a
// violated constraint. Oracles: validity predicate of lib/cseval on every
// returned solution (independent re-evaluation of every exported row / gate /
// copy class), identical solutions for every task count, a Levels oracle, and
// an independent sequential replay solver for the failure direction.
package c06

import (
	"bytes"
	"encoding/json"
	"fmt"
	"math/big"
	"strings"
	"testing"

	"verifharness/lib/cseval"
	"verifharness/lib/ev"
	"verifharness/lib/prog"
	"verifharness/lib/zk"

	"github.com/consensys/gnark/backend/groth16"
	"github.com/consensys/gnark/backend/plonk"
	"github.com/consensys/gnark/constraint/solver"
	"github.com/consensys/gnark/frontend"
	"github.com/consensys/gnark/logger"
	"github.com/consensys/gnark/std"
	"github.com/consensys/gnark/std/lookup/logderivlookup"
	"github.com/consensys/gnark/std/rangecheck"
	"pgregory.net/rapid"
)

const ID = "C06"

func TestMain(m *testing.M) {
	logger.Disable()
	std.RegisterHints()
	ev.RegisterReplay("solve", func(raw json.RawMessage) string {
		var c Case
		if err := json.Unmarshal(raw, &c); err != nil {
			return ""
		}
		return run(c, ev.Get(ID)).Violation
	})
	registerHandBuiltReplay() // kind "handbuilt" (handbuilt_test.go)
	ev.Main(m)
}

// Case: either a lib/prog program or a "wide" level-parallel circuit.
type Case struct {
	Kind    string        `json:"kind"` // prog | wide
	Prog    *prog.Program `json:"prog,omitempty"`
	Wide    *Wide         `json:"wide,omitempty"`
	Field   string        `json:"field"`
	Builder string        `json:"builder"`
	Tasks   []int         `json:"tasks"`
	BadOut  bool          `json:"bad_out"` // claim a wrong output (non-satisfying witness of the right size)
	Decoded bool          `json:"decoded"` // solve a copy restored from bytes as well
}

// Wide is a circuit with Width independent lanes of Depth levels (so that
// levels hold hundreds of instructions and the solver's worker pool is used),
// optionally with a lookup table and range checks.
type Wide struct {
	Width  int      `json:"width"`
	Depth  int      `json:"depth"`
	Inputs []string `json:"inputs"` // decimal input values
	Flavor int      `json:"flavor"`
	Lookup bool     `json:"lookup"`
	Range  bool     `json:"range"`
}

type wideCircuit struct {
	In  []frontend.Variable
	Out frontend.Variable `gnark:",public"`
	w   *Wide
}

// laneOps is shared by the circuit and the big-integer reference.
type arith interface {
	add(a, b any) any
	mul(a, b any) any
	isZero(a any) any
	sel(c, a, b any) any
	cst(x int64) any
}

func lanes(w *Wide, in []any, ar arith, look func(idx any) any) any {
	var sum any = ar.cst(0)
	n := len(in)
	for i := 0; i < w.Width; i++ {
		v := ar.add(in[i%n], ar.cst(int64(i)))
		for d := 0; d < w.Depth; d++ {
			switch (i + d + w.Flavor) % 4 {
			case 0:
				v = ar.add(ar.mul(v, v), ar.cst(int64(i+1)))
			case 1:
				v = ar.add(ar.mul(v, in[(i+1)%n]), ar.cst(int64(d)))
			case 2:
				z := ar.isZero(ar.add(v, ar.cst(int64(-(i % 3)))))
				v = ar.sel(z, ar.add(v, ar.cst(1)), ar.mul(v, ar.cst(2)))
			case 3:
				v = ar.mul(ar.add(v, in[(i+2)%n]), ar.add(v, ar.cst(3)))
			}
		}
		if look != nil && i%5 == 0 {
			v = ar.add(v, look(ar.cst(int64(i%7))))
		}
		sum = ar.add(sum, v)
	}
	return sum
}

type apiArith struct{ api frontend.API }

func (a apiArith) add(x, y any) any    { return a.api.Add(x, y) }
func (a apiArith) mul(x, y any) any    { return a.api.Mul(x, y) }
func (a apiArith) isZero(x any) any    { return a.api.IsZero(x) }
func (a apiArith) sel(c, x, y any) any { return a.api.Select(c, x, y) }
func (a apiArith) cst(x int64) any     { return x }

type bigArith struct{ q *big.Int }

func (b bigArith) v(x any) *big.Int {
	switch t := x.(type) {
	case *big.Int:
		return t
	case int64:
		return new(big.Int).Mod(big.NewInt(t), b.q)
	}
	panic("bad value")
}
func (b bigArith) add(x, y any) any {
	return new(big.Int).Mod(new(big.Int).Add(b.v(x), b.v(y)), b.q)
}
func (b bigArith) mul(x, y any) any {
	return new(big.Int).Mod(new(big.Int).Mul(b.v(x), b.v(y)), b.q)
}
func (b bigArith) isZero(x any) any {
	if b.v(x).Sign() == 0 {
		return big.NewInt(1)
	}
	return big.NewInt(0)
}
func (b bigArith) sel(c, x, y any) any {
	if b.v(c).Sign() != 0 {
		return b.v(x)
	}
	return b.v(y)
}
func (b bigArith) cst(x int64) any { return new(big.Int).Mod(big.NewInt(x), b.q) }

func (c *wideCircuit) Define(api frontend.API) error {
	in := make([]any, len(c.In))
	for i := range c.In {
		in[i] = c.In[i]
	}
	var look func(any) any
	if c.w.Lookup {
		t := logderivlookup.New(api)
		for k := 0; k < 7; k++ {
			t.Insert(api.Add(c.In[k%len(c.In)], k)) // entries are witness dependent
		}
		look = func(idx any) any { return t.Lookup(idx)[0] }
	}
	out := lanes(c.w, in, apiArith{api}, look)
	if c.w.Range {
		rc := rangecheck.New(api)
		for k := 0; k < 3; k++ {
			// inputs are small by construction (< 2^16)
			rc.Check(c.In[k%len(c.In)], 16+k)
		}
	}
	api.AssertIsEqual(c.Out, out)
	return nil
}

func wideRef(w *Wide, q *big.Int) (*big.Int, []*big.Int) {
	ar := bigArith{q}
	var vals []*big.Int
	in := make([]any, len(w.Inputs))
	for i, s := range w.Inputs {
		v, _ := new(big.Int).SetString(s, 10)
		v.Mod(v, q)
		vals = append(vals, v)
		in[i] = v
	}
	var look func(any) any
	if w.Lookup {
		look = func(idx any) any {
			k := int(ar.v(idx).Int64())
			return ar.add(in[k%len(in)], ar.cst(int64(k)))
		}
	}
	return ar.v(lanes(w, in, ar, look)), vals
}

func firstLine(s string) string {
	if i := strings.Index(s, "\n"); i >= 0 {
		s = s[:i]
	}
	if len(s) > 200 {
		s = s[:200]
	}
	return s
}

func run(c Case, rec *ev.Recorder) ev.Outcome {
	f := prog.FieldByName(c.Field)
	q := f.Q
	var circuit, assignment frontend.Circuit
	var expectOK bool
	var why string
	classes := []string{"kind:" + c.Kind, "field:" + c.Field, "builder:" + c.Builder}
	switch c.Kind {
	case "prog":
		interp := prog.Eval(c.Prog, q)
		if interp.Excluded != "" {
			return ev.Outcome{Discard: true, DiscardWhy: interp.Excluded}
		}
		lenient := prog.EvalLenient(c.Prog, q)
		outs := make([]*big.Int, len(c.Prog.Out))
		for i, s := range c.Prog.Out {
			outs[i] = new(big.Int).Set(lenient.Slots[s])
		}
		expectOK = interp.OK
		why = interp.Why
		if c.BadOut && len(outs) > 0 {
			outs[0].Add(outs[0], big.NewInt(1)).Mod(outs[0], q)
			expectOK, why = false, "wrong claimed output"
		}
		circuit, assignment = prog.NewCircuit(c.Prog), prog.Assignment(c.Prog, q, outs)
	case "wide":
		out, vals := wideRef(c.Wide, q)
		expectOK = true
		if c.BadOut {
			out = new(big.Int).Add(out, big.NewInt(1))
			out.Mod(out, q)
			expectOK, why = false, "wrong claimed output"
		}
		wc := &wideCircuit{In: make([]frontend.Variable, len(vals)), w: c.Wide}
		wa := &wideCircuit{In: make([]frontend.Variable, len(vals)), Out: out, w: c.Wide}
		for i := range vals {
			wa.In[i] = vals[i]
		}
		circuit, assignment = wc, wa
	}
	sys, err := prog.Compile(f, c.Builder, circuit, frontend.IgnoreUnconstrainedInputs())
	if err != nil {
		if strings.HasPrefix(err.Error(), "PANIC") {
			return ev.Outcome{Violation: err.Error()}
		}
		return ev.Outcome{Discard: true, DiscardWhy: "compile-time rejection (C04 covers this)"}
	}
	w, err := prog.Witness(f, assignment)
	if err != nil {
		return ev.Outcome{Violation: "NewWitness: " + err.Error()}
	}
	wvals := zk.WitnessValues(w)
	pg, err := cseval.DecodeProgram(sys)
	if err != nil {
		return ev.Outcome{Violation: "cannot decode the instruction list: " + err.Error()}
	}
	if err := pg.CheckLevels(); err != nil {
		return ev.Outcome{Violation: "Levels: " + err.Error()}
	}
	maxLevel := 0
	for _, l := range pg.Levels {
		if len(l) > maxLevel {
			maxLevel = len(l)
		}
	}
	systems := []prog.System{sys}
	if c.Decoded && !f.Small {
		var dec prog.System
		if c.Builder == prog.R1CS {
			dec = groth16.NewCS(f.Curve)
		} else {
			dec = plonk.NewCS(f.Curve)
		}
		if _, err := dec.ReadFrom(bytes.NewReader(prog.Bytes(sys))); err != nil {
			return ev.Outcome{Violation: "decoding the serialized system failed: " + err.Error()}
		}
		systems = append(systems, dec)
		classes = append(classes, "decoded-copy")
		pg2, err := cseval.DecodeProgram(dec)
		if err != nil {
			return ev.Outcome{Violation: "cannot decode the instruction list of the restored system: " + err.Error()}
		}
		if err := pg2.CheckLevels(); err != nil {
			return ev.Outcome{Violation: "Levels of the restored system: " + err.Error()}
		}
	}
	var ref *cseval.Solution
	gnarkOK := false
	var gnarkErr error
	for si, s := range systems {
		for _, nt := range c.Tasks {
			var opts []solver.Option
			if nt > 0 {
				opts = append(opts, solver.WithNbTasks(nt))
			}
			sol, serr := prog.Solve(s, w, opts...)
			where := fmt.Sprintf("[system %d nbTasks %d]", si, nt)
			if serr != nil && strings.HasPrefix(serr.Error(), "PANIC") {
				return ev.Outcome{Violation: where + " " + firstLine(serr.Error())}
			}
			if si == 0 && nt == c.Tasks[0] {
				gnarkOK, gnarkErr = serr == nil, serr
			} else if (serr == nil) != gnarkOK {
				return ev.Outcome{Violation: fmt.Sprintf("%s outcome differs from the first solve: first ok=%v (%v), now err=%v", where, gnarkOK, gnarkErr, serr)}
			}
			if serr != nil {
				continue
			}
			d, err := cseval.Decode(sol)
			if err != nil {
				return ev.Outcome{Violation: where + " cannot decode solution: " + err.Error()}
			}
			// success direction: independent re-evaluation
			if pg.Sys.IsR1CS {
				if err := pg.Sys.CheckR1CS(wvals, d); err != nil {
					return ev.Outcome{Violation: where + " Solve succeeded but the returned assignment is not valid: " + err.Error()}
				}
			} else {
				rep, err := pg.Sys.CheckSparse(wvals, d)
				if err != nil {
					return ev.Outcome{Violation: where + " " + err.Error()}
				}
				if !rep.OK() {
					return ev.Outcome{Violation: fmt.Sprintf("%s Solve succeeded but the returned columns violate gates %v, copy classes of wires %v, public rows %v", where, rep.BadGates, rep.BadCopy, rep.BadPub)}
				}
			}
			if ref == nil {
				ref = d
			} else if !sameSolution(ref, d, pg) {
				return ev.Outcome{Violation: where + " solution differs from the solution obtained with another task count / from the original system"}
			}
		}
	}
	if gnarkOK != expectOK && c.Kind == "wide" {
		return ev.Outcome{Violation: fmt.Sprintf("reference says satisfiable=%v (%s) but Solve ok=%v (%v)", expectOK, why, gnarkOK, gnarkErr)}
	}
	// failure direction: the independent replay solver with the genuine hints
	replayW, rerr := pg.Replay(wvals, cseval.GenuineHints)
	switch e := rerr.(type) {
	case nil:
		classes = append(classes, "replay:sat")
		if !gnarkOK {
			// confirm that the replay assignment really satisfies every row before blaming the solver
			valid := false
			if pg.Sys.IsR1CS {
				bad, err := pg.Sys.ViolatedRows(replayW)
				valid = err == nil && len(bad) == 0
			} else {
				valid = sparseValid(pg, replayW)
			}
			if valid && !usesRandomHint(pg) {
				return ev.Outcome{Violation: fmt.Sprintf("Solve failed (%v) although the values determined by the witness and the hint functions satisfy every constraint (independent sequential solver)", firstLine(gnarkErr.Error()))}
			}
		}
	case *cseval.ErrUnsat:
		classes = append(classes, "replay:unsat")
		if gnarkOK && !usesRandomHint(pg) {
			return ev.Outcome{Violation: "Solve succeeded but the independent sequential solver finds: " + e.Msg}
		}
	case *cseval.ErrUndetermined:
		classes = append(classes, "replay:undetermined")
		rec.Discarded("failure-direction oracle inconclusive: " + firstLine(e.Msg))
	default:
		return ev.Outcome{Violation: "replay: " + rerr.Error()}
	}
	if gnarkOK {
		classes = append(classes, "solved")
	} else {
		classes = append(classes, "rejected")
	}
	if maxLevel > 50 {
		classes = append(classes, "parallel-level")
	}
	if pg.HasHint {
		classes = append(classes, "has-hint")
	}
	if pg.HasLookup {
		classes = append(classes, "has-lookup")
	}
	if pg.HasSpecialised {
		classes = append(classes, "has-specialised-gate")
	}
	nontrivial := maxLevel > 50 || pg.HasHint || pg.HasLookup || pg.HasSpecialised
	return ev.Outcome{NonTrivial: nontrivial, Classes: classes}
}

// usesRandomHint: systems whose hints draw randomness (commitment placeholder,
// Randomize) have no single "determined" assignment; the two directions that
// compare verdicts are skipped for them (the validity predicate still applies).
func usesRandomHint(pg *cseval.Program) bool {
	for _, in := range pg.Instrs {
		if in.Kind == "hint" {
			if fn := solver.GetRegisteredHint(in.HintID); fn != nil {
				n := solver.GetHintName(fn)
				if strings.Contains(n, "Bsb22CommitmentComputePlaceholder") || strings.Contains(n, "Randomize") {
					return true
				}
			}
		}
	}
	return false
}

func sparseValid(pg *cseval.Program, w []*big.Int) bool {
	for _, g := range pg.Sys.Gates {
		if g.Commitment == 0 && g.GateValue(w[g.XA], w[g.XB], w[g.XC], pg.Sys.Q).Sign() != 0 {
			return false
		}
	}
	return true
}

func sameVec(a, b []*big.Int) bool {
	if len(a) != len(b) {
		return false
	}
	for i := range a {
		if a[i].Cmp(b[i]) != 0 {
			return false
		}
	}
	return true
}

func sameSolution(a, b *cseval.Solution, pg *cseval.Program) bool {
	if usesRandomHint(pg) {
		return true
	}
	return sameVec(a.W, b.W) && sameVec(a.A, b.A) && sameVec(a.B, b.B) && sameVec(a.C, b.C) &&
		sameVec(a.L, b.L) && sameVec(a.R, b.R) && sameVec(a.O, b.O)
}

var taskSets = [][]int{{0, 1}, {1, 2, 3}, {7, 16}, {64, 512}, {1, 16, 512}, {2}}

func genProgCase(fields []string) *rapid.Generator[Case] {
	return rapid.Custom(func(t *rapid.T) Case {
		fn := rapid.SampledFrom(fields).Draw(t, "field")
		f := prog.FieldByName(fn)
		cfg := prog.GenConfig{Q: f.Q, MaxOps: 12, PFail: 20}
		if !f.Small {
			cfg.Weights = map[string]int{"Cmp": 1, "AssertLE": 1}
			cfg.MaxOps = 8
		}
		p := prog.Gen(cfg).Draw(t, "prog")
		return Case{Kind: "prog", Prog: p, Field: fn,
			Builder: rapid.SampledFrom([]string{prog.R1CS, prog.SCS}).Draw(t, "builder"),
			Tasks:   rapid.SampledFrom(taskSets).Draw(t, "tasks"),
			BadOut:  rapid.IntRange(0, 4).Draw(t, "bad") == 0,
			Decoded: rapid.Bool().Draw(t, "decoded"),
		}
	})
}

func genWideCase(fields []string) *rapid.Generator[Case] {
	return rapid.Custom(func(t *rapid.T) Case {
		fn := rapid.SampledFrom(fields).Draw(t, "field")
		w := &Wide{
			Width:  rapid.IntRange(60, 600).Draw(t, "width"),
			Depth:  rapid.IntRange(2, 5).Draw(t, "depth"),
			Flavor: rapid.IntRange(0, 3).Draw(t, "flavor"),
			Lookup: rapid.Bool().Draw(t, "lookup"),
			Range:  rapid.Bool().Draw(t, "range"),
		}
		n := rapid.IntRange(3, 6).Draw(t, "nin")
		for i := 0; i < n; i++ {
			w.Inputs = append(w.Inputs, fmt.Sprint(rapid.IntRange(0, 60000).Draw(t, "in")))
		}
		return Case{Kind: "wide", Wide: w, Field: fn,
			Builder: rapid.SampledFrom([]string{prog.R1CS, prog.SCS}).Draw(t, "builder"),
			Tasks:   rapid.SampledFrom(taskSets).Draw(t, "tasks"),
			BadOut:  rapid.IntRange(0, 3).Draw(t, "bad") == 0,
			Decoded: rapid.Bool().Draw(t, "decoded"),
		}
	})
}

const rule = "every Solve of (a) rapid-generated lib/prog programs (generic and specialised gates, hints) on F47 and the 7 curve fields, (b) wide level-parallel circuits (60-600 lanes x 2-5 levels, optional witness-dependent lookup table and range checks) - both builders, task counts 1..512, original and restored-from-bytes systems, satisfying and non-satisfying witnesses. Oracles: independent re-evaluation of every row/gate/copy class on the returned solution; identical solutions across task counts and for the restored system; Levels partition/dependency oracle; independent sequential replay solver for the failure direction. Non-trivial: a level with > 50 instructions, or a hint, lookup or specialised gate. Distinct: SHA-256 of the case JSON."

var curveFields = []string{"bn254", "bls12-377", "bls12-381", "bls24-315", "bls24-317", "bw6-633", "bw6-761"}

func TestSolveProgramsF47(t *testing.T) {
	rec := ev.Get(ID)
	rec.SetRule(rule)
	g := genProgCase([]string{"f47"})
	rec.Check(t, "solve", ev.N(16000, 120000), func(rt *rapid.T) {
		c := g.Draw(rt, "case")
		rec.Begin("solve", c)
		rec.Report(rt, "solve", c, run(c, rec))
	})
}

func TestSolveProgramsCurves(t *testing.T) {
	rec := ev.Get(ID)
	rec.SetRule(rule)
	g := genProgCase(curveFields)
	rec.Check(t, "solve", ev.N(1600, 30000), func(rt *rapid.T) {
		c := g.Draw(rt, "case")
		rec.Begin("solve", c)
		rec.Report(rt, "solve", c, run(c, rec))
	})
}

func TestSolveWide(t *testing.T) {
	rec := ev.Get(ID)
	rec.SetRule(rule)
	g := genWideCase([]string{"bn254", "bls12-377", "bw6-761", "bls12-381"})
	rec.Check(t, "solve", ev.N(120, 3000), func(rt *rapid.T) {
		c := g.Draw(rt, "case")
		rec.Begin("solve", c)
		rec.Report(rt, "solve", c, run(c, rec))
	})
}

func TestReplay(t *testing.T) { ev.Replay(t) }

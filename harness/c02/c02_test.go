// C02 — PLONK verification accepts only proofs of the stated public inputs, and
// the verifying key commits to exactly the gates / permutation / commitment
// selectors of the compiled system.
// A: metamorphic + adversarial prover (as C01). B: reference model of the key
// with a known toxic value.
package c02

import (
	"bytes"
	"crypto/sha256"
	"crypto/sha512"
	"encoding/json"
	"fmt"
	"hash"
	"math/big"
	"reflect"
	"strings"
	"testing"

	"verifharness/lib/cseval"
	"verifharness/lib/ev"
	"verifharness/lib/prog"
	"verifharness/lib/zk"

	"github.com/consensys/gnark/backend"
	"github.com/consensys/gnark/backend/plonk"
	"github.com/consensys/gnark/backend/witness"
	"github.com/consensys/gnark/constraint"
	"github.com/consensys/gnark/logger"
	"golang.org/x/crypto/sha3"
	"pgregory.net/rapid"
)

const ID = "C02"

func TestMain(m *testing.M) {
	logger.Disable()
	ev.RegisterReplay("plonk", func(raw json.RawMessage) string {
		var c Case
		if err := json.Unmarshal(raw, &c); err != nil {
			return ""
		}
		return run(c, ev.Get(ID)).Violation
	})
	ev.RegisterReplay("plonkkey", func(raw json.RawMessage) string {
		var c KeyCase
		if err := json.Unmarshal(raw, &c); err != nil {
			return ""
		}
		return runKey(c).Violation
	})
	ev.Main(m)
}

type Variant struct {
	Kind   string `json:"kind"` // pub | elem | fr | list | dishonest
	Op     string `json:"op"`
	Target string `json:"target"`
	Src    string `json:"src"`
	Idx    int    `json:"idx"`
	Idx2   int    `json:"idx2"`
	Delta  int64  `json:"delta"`
	Bytes  int    `json:"bytes"`
}

type Case struct {
	Prog     *prog.Program `json:"prog"`
	Curve    string        `json:"curve"`
	Alt      []prog.Val    `json:"alt"`
	Hashes   string        `json:"hashes"` // default | sha256 | sha3 | sha512 | sha224 : challenge / folding / hash-to-field set consistently on both sides
	Variants []Variant     `json:"variants"`
}

func hashOpts(name string) ([]backend.ProverOption, []backend.VerifierOption) {
	var h func() hash.Hash
	switch name {
	case "sha256":
		h = sha256.New
	case "sha3":
		h = sha3.New256
	case "sha512": // digest wider than a field element
		h = sha512.New
	case "sha224": // digest narrower than a field element
		h = sha256.New224
	default:
		return nil, nil
	}
	return []backend.ProverOption{backend.WithProverChallengeHashFunction(h()), backend.WithProverKZGFoldingHashFunction(h()), backend.WithProverHashToFieldFunction(h())},
		[]backend.VerifierOption{backend.WithVerifierChallengeHashFunction(h()), backend.WithVerifierKZGFoldingHashFunction(h()), backend.WithVerifierHashToFieldFunction(h())}
}

// recHash records every digest it produces.
type recHash struct {
	hash.Hash
	sums [][]byte
}

func (r *recHash) Sum(b []byte) []byte {
	out := r.Hash.Sum(b)
	r.sums = append(r.sums, append([]byte(nil), out...))
	return out
}

type genuine struct {
	g        *zk.Plonk
	q        *big.Int
	pub      []*big.Int
	full     witness.Witness
	fullVals []*big.Int
	proof    plonk.Proof
	proof2   plonk.Proof
	altPub   []*big.Int
	altProof plonk.Proof
	sys      *cseval.Sys
	popts    []backend.ProverOption
	vopts    []backend.VerifierOption
}

func pubValues(p *prog.Program, q *big.Int, outs []*big.Int) []*big.Int {
	var r []*big.Int
	for _, in := range p.In {
		if in.Kind == "p" {
			r = append(r, in.V.In(q))
		}
	}
	return append(r, outs...)
}

func withVals(p *prog.Program, vals []prog.Val) *prog.Program {
	q := *p
	q.In = make([]prog.Input, len(p.In))
	copy(q.In, p.In)
	for i := range q.In {
		if i < len(vals) {
			q.In[i].V = vals[i]
		}
	}
	return &q
}

func mkPub(q *big.Int, vals []*big.Int) witness.Witness {
	w, err := zk.WitnessFrom(q, vals, nil)
	if err != nil {
		panic(err)
	}
	return w
}

func eqVals(a, b []*big.Int) bool {
	if len(a) != len(b) {
		return false
	}
	for i := range a {
		if a[i].Cmp(b[i]) != 0 {
			return false
		}
	}
	return true
}

func pbytes(p plonk.Proof) []byte {
	b, err := zk.BytesOf(p)
	if err != nil {
		panic(err)
	}
	return b
}

func viaBytes(p plonk.Proof, f prog.Field, mode int) (plonk.Proof, error) {
	if mode == 0 {
		return p, nil
	}
	var b []byte
	var err error
	if mode == 1 {
		b, err = zk.BytesOf(p)
	} else {
		b, err = zk.RawBytesOf(p)
	}
	if err != nil {
		return nil, err
	}
	np := plonk.NewProof(f.Curve)
	if _, err := np.ReadFrom(bytes.NewReader(b)); err != nil {
		return nil, err
	}
	return np, nil
}

func firstLine(s string) string {
	if i := strings.Index(s, "\n"); i >= 0 {
		s = s[:i]
	}
	if len(s) > 120 {
		s = s[:120]
	}
	return s
}

func run(c Case, rec *ev.Recorder) ev.Outcome {
	f := prog.FieldByName(c.Curve)
	q := f.Q
	interp := prog.Eval(c.Prog, q)
	if interp.Excluded != "" {
		return ev.Outcome{Discard: true, DiscardWhy: interp.Excluded}
	}
	if !interp.OK {
		return ev.Outcome{Discard: true, DiscardWhy: "assignment does not satisfy the program (C03 covers this)"}
	}
	g, err := zk.NewPlonk(f, prog.NewCircuit(c.Prog), nil)
	if err != nil {
		return ev.Outcome{Discard: true, DiscardWhy: "compile/setup failed (C03/C04 cover this): " + firstLine(err.Error())}
	}
	G := &genuine{g: g, q: q}
	G.popts, G.vopts = hashOpts(c.Hashes)
	G.pub = pubValues(c.Prog, q, interp.Outs)
	if G.full, err = prog.Witness(f, prog.Assignment(c.Prog, q, interp.Outs)); err != nil {
		return ev.Outcome{Discard: true, DiscardWhy: "witness: " + err.Error()}
	}
	G.fullVals = zk.WitnessValues(G.full)
	if G.proof, err = g.Prove(G.full, G.popts...); err != nil {
		return ev.Outcome{Discard: true, DiscardWhy: "genuine prove failed (C03 covers this): " + firstLine(err.Error())}
	}
	for mode := 0; mode <= 2; mode++ {
		p, err := viaBytes(G.proof, f, mode)
		if err != nil {
			return ev.Outcome{Violation: fmt.Sprintf("genuine proof does not round-trip (mode %d): %v", mode, err)}
		}
		if err := zk.VerifyPlonk(p, g.VK, mkPub(q, G.pub), G.vopts...); err != nil {
			return ev.Outcome{Violation: fmt.Sprintf("genuine proof rejected (encoding mode %d, hashes %s): %v", mode, c.Hashes, err)}
		}
	}
	G.proof2, _ = g.Prove(G.full, G.popts...)
	if len(c.Alt) == len(c.Prog.In) {
		ap := withVals(c.Prog, c.Alt)
		if ai := prog.Eval(ap, q); ai.OK && ai.Excluded == "" {
			apub := pubValues(ap, q, ai.Outs)
			if !eqVals(apub, G.pub) {
				if w, err := prog.Witness(f, prog.Assignment(ap, q, ai.Outs)); err == nil {
					if pr, err := g.Prove(w, G.popts...); err == nil {
						G.altPub, G.altProof = apub, pr
					}
				}
			}
		}
	}
	if G.sys, err = cseval.Extract(g.CS); err != nil {
		return ev.Outcome{Violation: "cannot extract gates: " + err.Error()}
	}
	nc := zk.NbCommits(c.Prog)
	classes := []string{"curve:" + c.Curve, fmt.Sprintf("commitments:%d", nc), "hashes:" + c.Hashes}
	applied := 0
	for vi, v := range c.Variants {
		proof, pub, note, skip := G.apply(v, nc)
		if skip != "" {
			rec.Discarded("variant:" + v.Kind + ":" + skip)
			continue
		}
		if eqVals(pub, G.pub) && proof != nil && bytes.Equal(pbytes(proof), pbytes(G.proof)) {
			rec.Discarded("variant:" + v.Kind + ":identical to genuine")
			continue
		}
		p2, derr := viaBytes(proof, f, v.Bytes)
		var verr error
		if derr != nil {
			verr = fmt.Errorf("decode: %w", derr)
		} else {
			verr = zk.VerifyPlonk(p2, g.VK, mkPub(q, pub), G.vopts...)
		}
		if verr == nil {
			return ev.Outcome{Violation: fmt.Sprintf("variant %d %+v (%s): plonk.Verify ACCEPTED a pair that is not the genuine one; genuine public %v, used public %v", vi, v, note, G.pub, pub)}
		}
		if strings.HasPrefix(verr.Error(), "PANIC") {
			rec.AddExtra("verify_panics_recorded_under_C08", 1)
			classes = append(classes, "verify-panicked")
		}
		applied++
		classes = append(classes, "variant:"+v.Kind+":"+v.Op, fmt.Sprintf("cell:%s:commit=%v", v.Kind, nc > 0))
	}
	// Fiat-Shamir binding: the verifier's first challenge must depend on the public inputs.
	// (A verifier whose transcript ignores them still rejects a plain replay through PI(zeta),
	// but is open to adaptive forgeries that single edits of a genuine proof do not build; the
	// dependence itself is observable with a recording challenge hash.)
	if len(G.pub) > 0 && c.Hashes == "default" {
		first := func(pub []*big.Int) []byte {
			r := &recHash{Hash: sha256.New()}
			_ = zk.VerifyPlonk(G.proof, g.VK, mkPub(q, pub), backend.WithVerifierChallengeHashFunction(r))
			if len(r.sums) == 0 {
				return nil
			}
			return r.sums[0]
		}
		alt := make([]*big.Int, len(G.pub))
		for i := range alt {
			alt[i] = new(big.Int).Set(G.pub[i])
		}
		k := len(c.Variants) % len(alt)
		alt[k].Add(alt[k], big.NewInt(1)).Mod(alt[k], q)
		a, b := first(G.pub), first(alt)
		if a != nil && b != nil && bytes.Equal(a, b) {
			return ev.Outcome{Violation: fmt.Sprintf("the verifier derives the same first challenge for public inputs %v and %v: the Fiat-Shamir transcript does not bind the public inputs", G.pub, alt)}
		}
		classes = append(classes, "fs-binding-checked")
	}
	return ev.Outcome{NonTrivial: applied > 0, Classes: classes}
}

func groupTargets(nc int) []string {
	t := []string{"LRO[0]", "LRO[1]", "LRO[2]", "Z", "H[0]", "H[1]", "H[2]", "BatchedProof.H", "ZShiftedOpening.H"}
	for i := 0; i < nc; i++ {
		t = append(t, fmt.Sprintf("Bsb22Commitments[%d]", i))
	}
	return t
}

func frTargets(nc int) []string {
	t := []string{"ZShiftedOpening.ClaimedValue"}
	for i := 0; i < 6+nc; i++ {
		t = append(t, fmt.Sprintf("BatchedProof.ClaimedValues[%d]", i))
	}
	return t
}

func at(p plonk.Proof, path string) (v reflect.Value, ok bool) {
	defer func() {
		if recover() != nil {
			ok = false
		}
	}()
	return zk.Path(zk.Elem(p), path), true
}

func (G *genuine) apply(v Variant, nc int) (plonk.Proof, []*big.Int, string, string) {
	q := G.q
	pub := make([]*big.Int, len(G.pub))
	for i := range pub {
		pub[i] = new(big.Int).Set(G.pub[i])
	}
	switch v.Kind {
	case "pub":
		n := len(pub)
		i := v.Idx % n
		switch v.Op {
		case "inc":
			pub[i].Add(pub[i], big.NewInt(1)).Mod(pub[i], q)
		case "dec":
			pub[i].Sub(pub[i], big.NewInt(1)).Mod(pub[i], q)
		case "zero":
			pub[i].SetInt64(0)
		case "delta":
			pub[i].Add(pub[i], big.NewInt(v.Delta)).Mod(pub[i], q)
		case "copy":
			pub[i].Set(G.pub[(i+1)%n])
		case "swap":
			j := v.Idx2 % n
			pub[i], pub[j] = pub[j], pub[i]
		case "shorter":
			pub = pub[:n-1]
		case "longer":
			pub = append(pub, big.NewInt(v.Delta))
		case "alt":
			if G.altPub == nil {
				return nil, nil, "", "no second statement"
			}
			pub = G.altPub
		}
		return G.proof, pub, "replay", ""
	case "elem":
		p := zk.Clone(G.proof)
		dst, ok := at(p, v.Target)
		if !ok {
			return nil, nil, "", "no such element"
		}
		switch v.Op {
		case "neg":
			zk.PNeg(dst, dst)
		case "double":
			zk.PDouble(dst, dst)
		case "inf":
			zk.PSetInfinity(dst)
		case "add", "set":
			src, ok := at(p, v.Src)
			if !ok || v.Src == v.Target {
				return nil, nil, "", "no compatible source element"
			}
			if v.Op == "add" {
				zk.PAdd(dst, dst, src)
			} else {
				dst.Set(src)
			}
		case "other", "alt":
			from := G.proof2
			if v.Op == "alt" {
				from = G.altProof
			}
			if from == nil {
				return nil, nil, "", "no other proof"
			}
			src, ok := at(from, v.Target)
			if !ok {
				return nil, nil, "", "no such element in other proof"
			}
			dst.Set(src)
		case "mul":
			zk.PMul(dst, dst, big.NewInt(v.Delta+2))
		case "torsion":
			tp, ok := zk.TorsionG1(G.g.F.Name, q, dst, v.Idx)
			if !ok {
				return nil, nil, "", "no cofactor torsion on this curve"
			}
			zk.PAdd(dst, dst, tp)
		}
		return p, pub, "element " + v.Target + " " + v.Op, ""
	case "fr":
		p := zk.Clone(G.proof)
		dst, ok := at(p, v.Target)
		if !ok {
			return nil, nil, "", "no such element"
		}
		x := zk.FrGet(dst)
		switch v.Op {
		case "inc":
			x.Add(x, big.NewInt(1)).Mod(x, q)
		case "zero":
			x.SetInt64(0)
		case "delta":
			x.Add(x, big.NewInt(v.Delta+1)).Mod(x, q)
		case "neg":
			x.Neg(x).Mod(x, q)
		case "swap":
			src, ok := at(p, v.Src)
			if !ok || v.Src == v.Target {
				return nil, nil, "", "no compatible source element"
			}
			y := zk.FrGet(src)
			zk.FrSet(src, x)
			x = y
		case "other":
			if G.proof2 == nil {
				return nil, nil, "", "no other proof"
			}
			src, _ := at(G.proof2, v.Target)
			x = zk.FrGet(src)
		}
		zk.FrSet(dst, x)
		return p, pub, "scalar " + v.Target + " " + v.Op, ""
	case "list":
		p := zk.Clone(G.proof)
		var l reflect.Value
		if v.Target == "bsb" {
			l = zk.Elem(p).FieldByName("Bsb22Commitments")
		} else {
			l = zk.Elem(p).FieldByName("BatchedProof").FieldByName("ClaimedValues")
		}
		n := l.Len()
		et := l.Type().Elem()
		switch v.Op {
		case "dropLast":
			if n == 0 {
				return nil, nil, "", "empty list"
			}
			l.Set(l.Slice(0, n-1))
		case "dropFirst":
			if n == 0 {
				return nil, nil, "", "empty list"
			}
			l.Set(l.Slice(1, n))
		case "dup":
			if n == 0 {
				return nil, nil, "", "empty list"
			}
			l.Set(reflect.Append(l, l.Index(v.Idx%n)))
		case "appendZero":
			l.Set(reflect.Append(l, reflect.Zero(et)))
		case "swap2":
			if n < 2 {
				return nil, nil, "", "fewer than two"
			}
			i, j := v.Idx%n, (v.Idx+1)%n
			t := reflect.New(et).Elem()
			t.Set(l.Index(i))
			l.Index(i).Set(l.Index(j))
			l.Index(j).Set(t)
		case "nil":
			if n == 0 {
				return nil, nil, "", "empty list"
			}
			l.Set(reflect.Zero(l.Type()))
		case "truncate":
			k := v.Idx % (n + 1)
			if k == n {
				return nil, nil, "", "no truncation"
			}
			l.Set(l.Slice(0, k))
		}
		return p, pub, "list " + v.Target + " " + v.Op, ""
	case "dishonest":
		return G.dishonest(v, pub)
	}
	return nil, nil, "", "unknown variant"
}

// dishonest runs the REAL prover on l,r,o columns altered after the real solver succeeded.
func (G *genuine) dishonest(v Variant, pub []*big.Int) (plonk.Proof, []*big.Int, string, string) {
	sys := G.sys
	q := G.q
	np := sys.NbPublic
	skip := ""
	var proof plonk.Proof
	var perr error
	note := ""
	zk.WithPostSolve(G.g.F.Curve, G.g.CS, func(solAny any) {
		s := zk.Elem(solAny)
		sol, err := cseval.Decode(solAny)
		if err != nil {
			skip = "cannot decode solution"
			return
		}
		cols := map[string][]*big.Int{"L": sol.L, "R": sol.R, "O": sol.O}
		N := len(sol.L)
		pos := zk.Positions(sys, N)
		delta := big.NewInt(v.Delta + 1)
		set := func(col string, row int, x *big.Int) {
			cols[col][row] = x
			cseval.SetVec(s.FieldByName(col), row, x)
		}
		colOf := func(p int) (string, int) { return []string{"L", "R", "O"}[p/N], p % N }
		switch v.Op {
		case "wireAll": // one wire changed at all its positions: copy constraints intact, some gate violated
			wire := pos[(v.Idx*7+v.Idx2)%len(pos)]
			if wire < np { // public wire or padding position (-1)
				// changing a public wire everywhere includes its placeholder row: that is variant publicRow
				wire = np + (v.Idx % (sys.NbSecret + sys.NbIntern + 1))
			}
			n := 0
			for p, w := range pos {
				if w == wire {
					c, r := colOf(p)
					set(c, r, new(big.Int).Mod(new(big.Int).Add(cols[c][r], delta), q))
					n++
				}
			}
			if n == 0 {
				skip = "wire occupies no position"
				return
			}
			note = fmt.Sprintf("wire %d at all %d positions", wire, n)
		case "onePos": // a single position changed: a copy constraint (or a gate) is violated
			p := (v.Idx*len(pos)/8 + v.Idx2) % len(pos)
			c, r := colOf(p)
			set(c, r, new(big.Int).Mod(new(big.Int).Add(cols[c][r], delta), q))
			note = fmt.Sprintf("position %s[%d]", c, r)
		case "padPos": // a padding / placeholder R,O position (wire 0's positions)
			var cand []int
			for p := range pos {
				_, r := colOf(p)
				if (r < np && p >= N) || r >= np+len(sys.Gates) {
					cand = append(cand, p)
				}
			}
			if len(cand) == 0 {
				skip = "no padding position"
				return
			}
			p := cand[(v.Idx*3+v.Idx2)%len(cand)]
			c, r := colOf(p)
			set(c, r, new(big.Int).Mod(new(big.Int).Add(cols[c][r], delta), q))
			note = fmt.Sprintf("padding position %s[%d]", c, r)
		case "publicRow": // L of a public placeholder row differs from the public input
			r := v.Idx % np
			set("L", r, new(big.Int).Mod(new(big.Int).Add(cols["L"][r], delta), q))
			note = fmt.Sprintf("public row %d", r)
		}
		// only the PUBLIC inputs are fixed by the statement: a prover may pick any secret values
		rep, err := sys.CheckSparse(G.fullVals[:np], &cseval.Solution{L: cols["L"], R: cols["R"], O: cols["O"]})
		if err != nil {
			skip = "check failed: " + err.Error()
			return
		}
		if rep.OK() {
			skip = "altered columns still satisfy every gate, copy class and public row (as far as the exported system tells)"
		}
	}, func() {
		proof, perr = G.g.Prove(G.full, G.popts...)
	})
	if skip != "" {
		return nil, nil, "", skip
	}
	if perr != nil {
		return nil, nil, "", "prover returned an error on the altered columns"
	}
	return proof, pub, "dishonest prover " + v.Op + " " + note, ""
}

var pubOps = []string{"inc", "dec", "zero", "delta", "copy", "swap", "shorter", "longer", "alt"}
var elemOps = []string{"neg", "double", "inf", "add", "set", "other", "alt", "mul", "torsion", "torsion"}
var frOps = []string{"inc", "zero", "delta", "neg", "swap", "other"}
var listOps = []string{"dropLast", "dropFirst", "dup", "appendZero", "swap2", "nil", "truncate"}
var dishonestOps = []string{"wireAll", "onePos", "padPos", "publicRow"}

func genVariant(t *rapid.T, nc int) Variant {
	v := Variant{}
	switch rapid.IntRange(0, 11).Draw(t, "vkind") {
	case 0, 1, 2:
		v.Kind, v.Op = "pub", rapid.SampledFrom(pubOps).Draw(t, "op")
	case 3, 4, 5:
		v.Kind, v.Op = "elem", rapid.SampledFrom(elemOps).Draw(t, "op")
		v.Target = rapid.SampledFrom(groupTargets(nc)).Draw(t, "target")
		v.Src = rapid.SampledFrom(groupTargets(nc)).Draw(t, "src")
	case 6, 7:
		v.Kind, v.Op = "fr", rapid.SampledFrom(frOps).Draw(t, "op")
		v.Target = rapid.SampledFrom(frTargets(nc)).Draw(t, "target")
		v.Src = rapid.SampledFrom(frTargets(nc)).Draw(t, "src")
	case 8:
		v.Kind, v.Op = "list", rapid.SampledFrom(listOps).Draw(t, "op")
		v.Target = rapid.SampledFrom([]string{"bsb", "claimed"}).Draw(t, "list")
	default:
		v.Kind, v.Op = "dishonest", rapid.SampledFrom(dishonestOps).Draw(t, "op")
	}
	v.Idx = rapid.IntRange(0, 7).Draw(t, "idx")
	v.Idx2 = rapid.IntRange(0, 7).Draw(t, "idx2")
	v.Delta = int64(rapid.IntRange(0, 5).Draw(t, "delta"))
	v.Bytes = rapid.SampledFrom([]int{0, 0, 1, 2}).Draw(t, "bytes")
	return v
}

func genCase(curves []string) *rapid.Generator[Case] {
	return rapid.Custom(func(t *rapid.T) Case {
		cn := rapid.SampledFrom(curves).Draw(t, "curve")
		f := prog.FieldByName(cn)
		p := zk.GenProvable(zk.ProvableCfg{Q: f.Q, MaxOps: 7, MaxCommits: 2}).Draw(t, "prog")
		c := Case{Prog: p, Curve: cn, Hashes: rapid.SampledFrom([]string{"default", "default", "sha256", "sha3", "sha512", "sha224"}).Draw(t, "hashes")}
		for i := range p.In {
			if rapid.IntRange(0, 2).Draw(t, "keep") != 0 {
				c.Alt = append(c.Alt, p.In[i].V)
			} else {
				c.Alt = append(c.Alt, prog.GenVal(t, "alt"))
			}
		}
		nv := rapid.IntRange(3, 8).Draw(t, "nvariants")
		nc := zk.NbCommits(p)
		for i := 0; i < nv; i++ {
			c.Variants = append(c.Variants, genVariant(t, nc))
		}
		return c
	})
}

func curvesForTier() []string {
	all := []string{"bn254", "bls12-377", "bls12-381", "bls24-315", "bls24-317", "bw6-633", "bw6-761"}
	if ev.Tier() == "quick" {
		return append([]string{"bn254", "bn254", "bls12-381", "bls12-377"}, all...)
	}
	return all
}

const ruleA = "A: rapid-generated provable programs (0-2 BSB22 commitments) on a drawn curve and a consistent choice of challenge/folding/hash-to-field hashes; Compile(SCS)+unsafe SRS+Setup+Prove; 3-8 drawn variants per case: public-input edits, group elements replaced/negated/∞/from another genuine proof, claimed values and opening values altered, list edits, and a dishonest prover (verif hook: real prover continued on l,r,o columns violating a gate, a copy constraint, a padding position or a public row as judged by the independent evaluator). Oracle: Verify returns an error. Non-trivial: genuine pair verified AND >=1 applied variant differing in bytes."

func TestPlonkSoundness(t *testing.T) {
	rec := ev.Get(ID)
	rec.SetRule(ruleA)
	g := genCase(curvesForTier())
	rec.Check(t, "plonk", ev.N(500, 10000), func(rt *rapid.T) {
		c := g.Draw(rt, "case")
		rec.Begin("plonk", c)
		rec.Report(rt, "plonk", c, run(c, rec))
	})
}

// ---------------------------------------------------------------------------
// B: the verifying key commits to exactly the compiled system

type KeyCase struct {
	Prog  *prog.Program `json:"prog"`
	Curve string        `json:"curve"`
	Tau   string        `json:"tau"` // hex toxic value
}

func runKey(c KeyCase) ev.Outcome {
	f := prog.FieldByName(c.Curve)
	tau, _ := new(big.Int).SetString(c.Tau, 16)
	tau.Mod(tau, f.Q)
	if tau.Cmp(big.NewInt(2)) < 0 {
		tau.SetInt64(12345)
	}
	cs, err := prog.CompileU64(f, prog.SCS, prog.NewCircuit(c.Prog))
	if err != nil {
		return ev.Outcome{Discard: true, DiscardWhy: "compile failed (C04 covers this): " + firstLine(err.Error())}
	}
	sys, err := cseval.Extract(cs)
	if err != nil {
		return ev.Outcome{Violation: "cannot extract gates: " + err.Error()}
	}
	if sys.NbPublic+len(sys.Gates) < 2 {
		return ev.Outcome{Discard: true, DiscardWhy: "fewer than 2 rows (documented as unsupported)"}
	}
	pl, err := zk.NewPlonkFromCS(f, cs, tau)
	if err != nil {
		return ev.Outcome{Violation: "Setup failed on a compiled system: " + err.Error()}
	}
	S, err := zk.PlonkPermutation(cs, uint64(sys.NbPublic+len(sys.Gates)))
	if err != nil {
		return ev.Outcome{Violation: err.Error()}
	}
	commits, _ := cs.GetCommitments().(constraint.PlonkCommitments)
	if err := zk.CheckPlonkKey(pl.VK, tau, sys, commits, S); err != nil {
		return ev.Outcome{Violation: "verifying key does not commit to the compiled system: " + err.Error()}
	}
	// non-trivial: some wire at >= 3 positions and >= 1 public input
	cnt := map[int]int{}
	max := 0
	for _, g := range sys.Gates {
		for _, w := range []int{g.XA, g.XB, g.XC} {
			cnt[w]++
			if cnt[w] > max {
				max = cnt[w]
			}
		}
	}
	return ev.Outcome{NonTrivial: max >= 3 && sys.NbPublic >= 1, Classes: []string{"key:curve:" + c.Curve, fmt.Sprintf("key:commitments:%d", len(commits))}}
}

const ruleB = "B: the same programs compiled with the SCS builder; SRS from a drawn known toxic value tau; Setup; every digest of the verifying key (Ql,Qr,Qm,Qo,Qk,Qcp[i],S1..S3) must equal [P(tau)]G1 with P rebuilt from the exported gate list / the exported permutation, the permutation's cycle partition must equal the partition of positions by wire id, and Size/SizeInv/Generator/CosetShift/NbPublicVariables/CommitmentConstraintIndexes must equal their definitions. Non-trivial: a wire at >=3 positions and >=1 public input."

func TestPlonkKey(t *testing.T) {
	rec := ev.Get(ID)
	rec.SetRule(ruleB)
	curves := curvesForTier()
	rec.Check(t, "plonkkey", ev.N(400, 5000), func(rt *rapid.T) {
		cn := rapid.SampledFrom(curves).Draw(rt, "curve")
		f := prog.FieldByName(cn)
		p := zk.GenProvable(zk.ProvableCfg{Q: f.Q, MaxOps: 9, MaxCommits: 2, PFail: 30}).Draw(rt, "prog")
		tau := new(big.Int).SetBytes(rapid.SliceOfN(rapid.Byte(), 8, 40).Draw(rt, "tau"))
		c := KeyCase{Prog: p, Curve: cn, Tau: tau.Text(16)}
		rec.Begin("plonkkey", c)
		rec.Report(rt, "plonkkey", c, runKey(c))
	})
}

func TestReplay(t *testing.T) { ev.Replay(t) }

// C03 — completeness: every satisfying assignment yields a proof that verifies,
// on every curve, for both backends, under every consistent option combination;
// a non-satisfying assignment makes Prove return an error (no proof, no panic, no hang).
// Oracle: the reference interpreter of lib/prog decides "satisfying".
package c03

import (
	"crypto/sha256"
	"crypto/sha512"
	"encoding/json"
	"fmt"
	"hash"
	"math/big"
	"os"
	"strconv"
	"strings"
	"testing"
	"time"

	"verifharness/lib/ev"
	"verifharness/lib/prog"
	"verifharness/lib/zk"

	"github.com/consensys/gnark/backend"
	"github.com/consensys/gnark/backend/groth16"
	"github.com/consensys/gnark/backend/plonk"
	"github.com/consensys/gnark/backend/witness"
	"github.com/consensys/gnark/constraint/solver"
	"github.com/consensys/gnark/frontend"
	"github.com/consensys/gnark/logger"
	"golang.org/x/crypto/sha3"
	"pgregory.net/rapid"
)

const ID = "C03"

func TestMain(m *testing.M) {
	logger.Disable()
	ev.RegisterReplay("complete", func(raw json.RawMessage) string {
		var c Case
		if err := json.Unmarshal(raw, &c); err != nil {
			return ""
		}
		return run(c).Violation
	})
	ev.Main(m)
}

type Case struct {
	Prog     *prog.Program `json:"prog"`
	Curve    string        `json:"curve"`
	Backend  string        `json:"backend"`  // groth16 | plonk
	HashOpt  string        `json:"hash_opt"` // default | sha256 | sha3 | keccak | sha512 | sha3-512 | sha384 | sha224
	StatZK   bool          `json:"stat_zk"`
	NbTasks  int           `json:"nb_tasks"`
	BadOut   int           `json:"bad_out"` // -1: claim the true outputs; k: output k is claimed +Delta
	Delta    int64         `json:"delta"`
	Mismatch bool          `json:"mismatch"` // verifier uses another hash option than the prover: must NOT verify (plonk, or groth16 with commitments)
}

func hashFn(name string) func() hash.Hash {
	switch name {
	case "sha256":
		return sha256.New
	case "sha3":
		return sha3.New256
	case "keccak":
		return sha3.NewLegacyKeccak256
	// digests longer / shorter than a field element: both sides must cut or pad them alike
	case "sha512":
		return sha512.New
	case "sha3-512":
		return sha3.New512
	case "sha384":
		return sha512.New384
	case "sha224":
		return sha256.New224
	}
	return nil
}

func options(c Case, hashName string) ([]backend.ProverOption, []backend.VerifierOption) {
	var po []backend.ProverOption
	var vo []backend.VerifierOption
	if h := hashFn(hashName); h != nil {
		po = append(po, backend.WithProverHashToFieldFunction(h()))
		vo = append(vo, backend.WithVerifierHashToFieldFunction(h()))
		if c.Backend == "plonk" {
			po = append(po, backend.WithProverChallengeHashFunction(h()), backend.WithProverKZGFoldingHashFunction(h()))
			vo = append(vo, backend.WithVerifierChallengeHashFunction(h()), backend.WithVerifierKZGFoldingHashFunction(h()))
		}
	}
	if c.StatZK {
		po = append(po, backend.WithStatisticalZeroKnowledge())
	}
	if c.NbTasks > 0 {
		po = append(po, backend.WithSolverOptions(solver.WithNbTasks(c.NbTasks)))
	}
	return po, vo
}

func firstLine(s string) string {
	if i := strings.Index(s, "\n"); i >= 0 {
		s = s[:i]
	}
	if len(s) > 160 {
		s = s[:160]
	}
	return s
}

// A prover that does not return is told apart from a slow machine by CPU time
// (busy loop) or by an idle process (deadlock), never by the wall clock alone.
const (
	proveCPUBound = 240 * time.Second
	proveWallCap  = 30 * time.Minute
)

func run(c Case) ev.Outcome {
	f := prog.FieldByName(c.Curve)
	q := f.Q
	interp := prog.Eval(c.Prog, q)
	if interp.Excluded != "" {
		return ev.Outcome{Discard: true, DiscardWhy: interp.Excluded}
	}
	lenient := prog.EvalLenient(c.Prog, q)
	outs := make([]*big.Int, len(c.Prog.Out))
	for i, s := range c.Prog.Out {
		outs[i] = new(big.Int).Set(lenient.Slots[s])
	}
	satisfying := interp.OK
	if c.BadOut >= 0 && len(outs) > 0 {
		k := c.BadOut % len(outs)
		outs[k].Add(outs[k], big.NewInt(c.Delta+1)).Mod(outs[k], q)
		satisfying = false
	}
	classes := []string{"curve:" + c.Curve, "backend:" + c.Backend, "hash:" + c.HashOpt, fmt.Sprintf("satisfying:%v", satisfying),
		fmt.Sprintf("commitments:%d", zk.NbCommits(c.Prog)), fmt.Sprintf("statzk:%v", c.StatZK), fmt.Sprintf("nbtasks:%d", c.NbTasks)}
	hasSecret := false
	for _, in := range c.Prog.In {
		if in.Kind == "s" {
			hasSecret = true
		}
	}
	if !hasSecret {
		classes = append(classes, "no-secret-input")
	}

	var prove func(w witness.Witness, po []backend.ProverOption) (any, error)
	var verify func(p any, pub witness.Witness, vo []backend.VerifierOption) error
	nbRows := 0
	switch c.Backend {
	case "groth16":
		g, err := zk.NewG16(f, prog.NewCircuit(c.Prog))
		if err != nil {
			return setupFailure(c, interp, err, classes)
		}
		nbRows = g.CS.GetNbConstraints()
		prove = func(w witness.Witness, po []backend.ProverOption) (any, error) { return g.Prove(w, po...) }
		verify = func(p any, pub witness.Witness, vo []backend.VerifierOption) error {
			return zk.VerifyG16(p.(groth16.Proof), g.VK, pub, vo...)
		}
	case "plonk":
		cs, err := prog.CompileU64(f, prog.SCS, prog.NewCircuit(c.Prog))
		if err != nil {
			return setupFailure(c, interp, err, classes)
		}
		nbRows = cs.GetNbConstraints() + cs.GetNbPublicVariables()
		g, err := zk.NewPlonkFromCS(f, cs, nil)
		if err != nil {
			if nbRows < 2 && !strings.HasPrefix(err.Error(), "PANIC") {
				return ev.Outcome{Discard: true, DiscardWhy: "plonk system with fewer than 2 rows (documented as unsupported; explicit error)"}
			}
			return ev.Outcome{Violation: fmt.Sprintf("plonk Setup failed on a compiled system with %d rows: %v", nbRows, err)}
		}
		prove = func(w witness.Witness, po []backend.ProverOption) (any, error) { return g.Prove(w, po...) }
		verify = func(p any, pub witness.Witness, vo []backend.VerifierOption) error {
			return zk.VerifyPlonk(p.(plonk.Proof), g.VK, pub, vo...)
		}
	}
	full, err := prog.Witness(f, prog.Assignment(c.Prog, q, outs))
	if err != nil {
		return ev.Outcome{Violation: "NewWitness failed: " + err.Error()}
	}
	po, vo := options(c, c.HashOpt)
	type res struct {
		p   any
		err error
	}
	var r res
	switch v := ev.Bounded(proveCPUBound, proveWallCap, func() { r.p, r.err = prove(full, po) }); v {
	case ev.Returned:
	case ev.Slow:
		return ev.Outcome{Discard: true, DiscardWhy: "Prove still working at the wall cap (loaded machine): inconclusive"}
	default:
		return ev.Outcome{Violation: fmt.Sprintf("Prove does not return (satisfying=%v): %v; CPU bound %v, honest cost is well under a second", satisfying, v, proveCPUBound)}
	}
	if r.err != nil && strings.HasPrefix(r.err.Error(), "PANIC") {
		return ev.Outcome{Violation: fmt.Sprintf("Prove panicked (satisfying=%v): %s", satisfying, firstLine(r.err.Error()))}
	}
	if !satisfying {
		if r.err == nil {
			// a proof came out of a non-satisfying assignment: it must at least not verify, but producing it is already the violation
			return ev.Outcome{Violation: fmt.Sprintf("Prove produced a proof for a non-satisfying assignment (%s, bad output %d)", interp.Why, c.BadOut)}
		}
		classes = append(classes, "prove-rejected")
		return ev.Outcome{NonTrivial: nbRows >= 1, Classes: append(classes, rowsClass(c.Backend, nbRows))}
	}
	if r.err != nil {
		return ev.Outcome{Violation: fmt.Sprintf("interpreter: assignment satisfies the circuit, but Prove failed: %v", r.err)}
	}
	pub1, err := full.Public()
	if err != nil {
		return ev.Outcome{Violation: "Witness.Public failed: " + err.Error()}
	}
	pub2, err := prog.Witness(f, prog.Assignment(c.Prog, q, outs), frontend.PublicOnly())
	if err != nil {
		return ev.Outcome{Violation: "public-only NewWitness failed: " + err.Error()}
	}
	for i, pub := range []witness.Witness{pub1, pub2} {
		if err := verify(r.p, pub, vo); err != nil {
			return ev.Outcome{Violation: fmt.Sprintf("Verify rejected an honest proof (public witness form %d): %v", i, err)}
		}
	}
	if c.Mismatch {
		// the default challenge / folding hash IS sha256, so "default" and "sha256" are
		// not a mismatch for plonk: always pick a function that differs
		other := "sha256"
		if c.HashOpt == "sha256" || c.HashOpt == "default" {
			other = "sha3"
		}
		_, vo2 := options(c, other)
		binds := c.Backend == "plonk" || zk.NbCommits(c.Prog) > 0
		if binds {
			if err := verify(r.p, pub1, vo2); err == nil {
				return ev.Outcome{Violation: fmt.Sprintf("Verify accepted a proof made with hash option %q under verifier option %q", c.HashOpt, other)}
			}
			classes = append(classes, "mismatch-rejected")
		}
	}
	classes = append(classes, "proved-and-verified")
	return ev.Outcome{NonTrivial: nbRows >= 1, Classes: append(classes, rowsClass(c.Backend, nbRows))}
}

func setupFailure(c Case, interp prog.Result, err error, classes []string) ev.Outcome {
	msg := err.Error()
	if strings.Contains(msg, "PANIC") {
		return ev.Outcome{Violation: "compile/setup panicked: " + firstLine(msg)}
	}
	if interp.ZeroDiv && strings.Contains(msg, "by constant(0)") {
		return ev.Outcome{Discard: true, DiscardWhy: "constant zero divisor"}
	}
	if strings.Contains(msg, "must commit to at least one variable") ||
		(zk.NbCommits(c.Prog) > 0 && strings.Contains(msg, "interface conversion: frontend.Variable is *big.Int, not expr.Term")) {
		// Commit of a value that folds to a constant (e.g. x - x): both builders refuse at
		// compile time (the sparse builder through a type-assertion panic inside Commit);
		// committing to constants has no documented meaning, so this is outside the domain
		return ev.Outcome{Discard: true, DiscardWhy: "commit of a constant-folded value (compile-time refusal)"}
	}
	if !interp.OK {
		// a constant-folded violated assertion is rejected at compile time: fine
		return ev.Outcome{Classes: append(classes, "compile-reject")}
	}
	return ev.Outcome{Violation: "circuit whose assertions all hold does not compile / set up: " + firstLine(msg)}
}

func genCase(curves []string) *rapid.Generator[Case] {
	return rapid.Custom(func(t *rapid.T) Case {
		cn := rapid.SampledFrom(curves).Draw(t, "curve")
		f := prog.FieldByName(cn)
		shape := rapid.IntRange(0, 9).Draw(t, "shape")
		cfg := zk.ProvableCfg{Q: f.Q, MaxOps: 8, MaxCommits: 3, PFail: 10, AllowConst: true}
		switch shape {
		case 0: // tiny: domain sizes 2..8
			cfg.MaxOps = 1
		case 1: // many commitments
			cfg.MaxCommits = 4
			cfg.MaxOps = 3
		case 2: // no commitments
			cfg.MaxCommits = 0
		case 3:
			cfg.NoSecret = true
		}
		p := zk.GenProvable(cfg).Draw(t, "prog")
		c := Case{Prog: p, Curve: cn}
		c.Backend = rapid.SampledFrom([]string{"groth16", "plonk"}).Draw(t, "backend")
		c.HashOpt = rapid.SampledFrom([]string{"default", "default", "sha256", "sha3", "keccak", "sha512", "sha3-512", "sha384", "sha224"}).Draw(t, "hash")
		c.StatZK = rapid.IntRange(0, 3).Draw(t, "statzk") == 0
		c.NbTasks = rapid.SampledFrom([]int{0, 0, 1, 2, 16}).Draw(t, "nbtasks")
		c.BadOut = -1
		if rapid.IntRange(0, 3).Draw(t, "bad") == 0 {
			c.BadOut = rapid.IntRange(0, 3).Draw(t, "badidx")
			c.Delta = int64(rapid.IntRange(0, 3).Draw(t, "delta"))
		}
		c.Mismatch = rapid.IntRange(0, 4).Draw(t, "mismatch") == 0
		return c
	})
}

const rule = "rapid-generated provable programs biased to edge shapes (one op, no secret input, 0-4 commitments, constants) x 7 curves x {groth16, plonk} x consistent hash options (default/sha256/sha3/keccak and digests wider or narrower than a field element: sha512/sha3-512/sha384/sha224, for hash-to-field, challenge, KZG folding) x statistical-ZK x solver task counts; assignment classified by the reference interpreter (optionally with one wrong claimed output). Satisfying: Setup, Prove, Verify (Witness.Public() and public-only witness) all succeed, and a verifier with a different hash option rejects. Non-satisfying: Prove returns an error (non-return = 240 s of CPU consumed, or an idle process: never the wall clock alone), no panic. Non-trivial: system has >=1 constraint. Distinct: SHA-256 of the case JSON."

func TestCompleteness(t *testing.T) {
	rec := ev.Get(ID)
	rec.SetRule(rule)
	rec.Assume("interleavings of the internally concurrent provers are sampled (GOMAXPROCS of the run), not enumerated")
	all := []string{"bn254", "bls12-377", "bls12-381", "bls24-315", "bls24-317", "bw6-633", "bw6-761"}
	curves := all
	if ev.Tier() == "quick" {
		curves = append([]string{"bn254", "bn254", "bls12-381", "bls12-377"}, all...)
	}
	g := genCase(curves)
	rec.Check(t, "complete", ev.N(1000, 20000), func(rt *rapid.T) {
		c := g.Draw(rt, "case")
		rec.Begin("complete", c)
		rec.Report(rt, "complete", c, run(c))
	})
}

// rowsClass labels the size of the system (PLONK: constraints + public inputs,
// the quantity the prover sizes its domains from).
func rowsClass(backend string, n int) string {
	if n > 70 {
		return backend + "-rows:>70"
	}
	return fmt.Sprintf("%s-rows:%d", backend, n)
}

// sizeProgram is a chain of k squarings of one secret input, with j public
// inputs folded in and m public outputs: a family whose compiled size grows by
// one row per unit of k, so that a sweep hits every small system size.
func sizeProgram(k, j, m int) *prog.Program {
	p := &prog.Program{}
	p.In = append(p.In, prog.Input{Kind: "s", V: prog.Val{B: "n", O: 3}})
	for i := 0; i < j; i++ {
		p.In = append(p.In, prog.Input{Kind: "p", V: prog.Val{B: "n", O: int64(5 + i)}})
	}
	cur := 0
	next := len(p.In)
	for i := 0; i < k; i++ {
		other := cur
		if j > 0 && i%2 == 1 {
			other = 1 + (i/2)%j
		}
		p.Ops = append(p.Ops, prog.Op{Op: "Mul", A: []int{cur, other}})
		cur = next
		next++
	}
	for i := 0; i < m; i++ {
		p.Out = append(p.Out, cur)
	}
	return p
}

// TestSizeSweep proves and verifies systems of EVERY small size (and the sizes
// around the next powers of two), on every curve: domain sizing, quotient
// degree and SRS size checks depend on the exact number of rows, and random
// programs leave holes in that range.
func TestSizeSweep(t *testing.T) {
	rec := ev.Get(ID)
	all := []string{"bn254", "bls12-377", "bls12-381", "bls24-315", "bls24-317", "bw6-633", "bw6-761"}
	ks := []int{0, 1, 2, 3, 4, 5, 6, 7, 8, 9, 10, 11, 13, 14, 15, 16, 17, 29, 30, 31, 32, 33, 61, 62, 63, 64, 65}
	n := 0
	for ci, curve := range all {
		for _, backendName := range []string{"plonk", "groth16"} {
			for _, k := range ks {
				for j := 0; j <= 2; j++ {
					for m := 0; m <= 2; m++ {
						if j+m == 0 && backendName == "plonk" && k < 2 {
							continue // fewer than 2 rows: documented as unsupported
						}
						// quick: every (k, j+m) on bn254 for PLONK; a rotating slice elsewhere
						if ev.Tier() == "quick" {
							if k > 17 && (j != 1 || m != 1) {
								continue
							}
							if backendName == "groth16" && (ci != int(ev.Seed()%7) || j != 1) {
								continue
							}
							if backendName == "plonk" && ci != 0 && (j+m)%3 != (ci+k)%3 {
								continue
							}
						}
						if n%max(1, envShards()) != ev.Shard()%max(1, envShards()) {
							n++
							continue
						}
						n++
						c := Case{Prog: sizeProgram(k, j, m), Curve: curve, Backend: backendName, HashOpt: "default", BadOut: -1}
						rec.Begin("complete", c)
						o := run(c)
						o.Classes = append(o.Classes, "size-sweep")
						rec.Report(t, "complete", c, o)
					}
				}
			}
		}
	}
}

func envShards() int {
	n, _ := strconv.Atoi(os.Getenv("VERIF_SHARDS"))
	return n
}

func TestReplay(t *testing.T) { ev.Replay(t) }

package c16

// Short-Weierstrass gadgets (emulated sw_emulated on any curve; native
// sw_bls12377 through its algebra.Curve implementation) against the reference
// arithmetic, exceptional points and scalars included.

import (
	"fmt"
	"math/big"
	"strings"

	"verifharness/lib/ev"

	"github.com/consensys/gnark-crypto/ecc"
	"github.com/consensys/gnark/frontend"
	"github.com/consensys/gnark/std/algebra/algopts"
	"github.com/consensys/gnark/std/algebra/emulated/sw_emulated"
	"github.com/consensys/gnark/std/algebra/native/sw_bls12377"
	"github.com/consensys/gnark/std/math/emulated"
	"github.com/consensys/gnark/test"
)

// Sc is a scalar operand. Form "val": witness emulated.ValueOf(A) (A <= r; A == r
// is kept unreduced by ValueOf). Form "sum": the in-circuit lazy sum Add(A, B) of
// two witnesses (integer value A+B, possibly >= r, never reduced by the caller).
// Form "raw": witness limbs of the integer A < 2^bitlen(r) (possibly >= r).
type Sc struct {
	Form string `json:"form"`
	A    string `json:"a"`
	B    string `json:"b,omitempty"`
}

func (s Sc) value() *big.Int {
	v := unhx(s.A)
	if s.Form == "sum" {
		v.Add(v, unhx(s.B))
	}
	return v
}

// SWCase fully determines one execution.
type SWCase struct {
	Curve    string `json:"curve"` // secp256k1 bn254 p256 p384 bls12381 bw6761 (emulated over the bn254 scalar field) | bls12377 (native, over BW6-761)
	Op       string `json:"op"`    // Add AddUnified Neg Double ScalarMul ScalarMulBase JointScalarMulBase MultiScalarMul MultiScalarMulFold
	Complete bool   `json:"complete"`
	Points   []Pt   `json:"points"`
	Scalars  []Sc   `json:"scalars"`
	Wrong    string `json:"wrong"`    // "" | "neg" | "addG" | "inf": additionally require that this wrong claimed output is rejected
	Compiled bool   `json:"compiled"` // also compile to R1CS and solve (otherwise test engine only)
}

const (
	opAdd     = "Add"
	opAddU    = "AddUnified"
	opNeg     = "Neg"
	opDouble  = "Double"
	opMul     = "ScalarMul"
	opMulBase = "ScalarMulBase"
	opJoint   = "JointScalarMulBase"
	opMSM     = "MultiScalarMul"
	opFold    = "MultiScalarMulFold"
)

// opShape gives the number of points and scalars of an op (MSM: variable).
func opShape(op string, n int) (np, ns int) {
	switch op {
	case opAdd, opAddU:
		return 2, 0
	case opNeg, opDouble:
		return 1, 0
	case opMul:
		return 1, 1
	case opMulBase:
		return 0, 1
	case opJoint:
		return 1, 2
	case opMSM:
		return n, n
	case opFold:
		return n, 1
	}
	return 0, 0
}

// reference evaluates the case on the reference arithmetic. inDomain is false
// when an operand lies outside the documented domain of the (incomplete) method,
// in which case nothing is asserted.
func reference(c *SWCase) (out point, inDomain bool, why string) {
	cv := curves[c.Curve]
	ps := make([]point, len(c.Points))
	for i := range c.Points {
		ps[i] = c.Points[i].point()
		if !cv.onCurve(ps[i]) {
			return inf(), false, "point not on curve"
		}
	}
	ks := make([]*big.Int, len(c.Scalars))
	for i := range c.Scalars {
		ks[i] = new(big.Int).Mod(c.Scalars[i].value(), cv.R)
	}
	inSub := func(p point) bool { // low-order points are only operands of the pure group law
		for _, lo := range cv.LowOrder {
			if p.eq(lo) {
				return false
			}
		}
		return true
	}
	np, ns := opShape(c.Op, len(c.Points))
	if len(ps) != np || len(ks) != ns {
		return inf(), false, "bad shape"
	}
	switch c.Op {
	case opAdd:
		// documented: p != q, p != -q, both non-zero (incomplete formulas)
		if ps[0].isInf() || ps[1].isInf() || ps[0].X.Cmp(ps[1].X) == 0 {
			return inf(), false, "Add: p=+-q or infinity (incomplete formula)"
		}
		return cv.add(ps[0], ps[1]), true, ""
	case opAddU:
		return cv.add(ps[0], ps[1]), true, ""
	case opNeg:
		return cv.neg(ps[0]), true, ""
	case opDouble:
		if ps[0].isInf() || ps[0].Y.Sign() == 0 {
			return inf(), false, "Double: infinity or y=0 (incomplete formula)"
		}
		return cv.add(ps[0], ps[0]), true, ""
	case opMul:
		if !inSub(ps[0]) {
			return inf(), false, "ScalarMul: point outside the prime-order subgroup"
		}
		if !c.Complete && (ps[0].isInf() || ks[0].Sign() == 0) {
			return inf(), false, "ScalarMul: zero scalar or infinity without complete arithmetic"
		}
		return cv.mul(ps[0], ks[0]), true, ""
	case opMulBase:
		if !c.Complete && ks[0].Sign() == 0 {
			return inf(), false, "ScalarMulBase: zero scalar without complete arithmetic"
		}
		return cv.mul(cv.G, ks[0]), true, ""
	case opJoint:
		// JointScalarMulBase(p, s2, s1) = [s1]g + [s2]p ; Scalars[0]=s2 (for p), Scalars[1]=s1 (for g)
		if !inSub(ps[0]) {
			return inf(), false, "JointScalarMulBase: point outside the prime-order subgroup"
		}
		a := cv.mul(ps[0], ks[0])
		b := cv.mul(cv.G, ks[1])
		res := cv.add(a, b)
		if !c.Complete {
			if ps[0].isInf() || ps[0].X.Cmp(cv.G.X) == 0 || ks[0].Sign() == 0 || ks[1].Sign() == 0 {
				return inf(), false, "JointScalarMulBase: p=(0,0), p=+-g or zero scalar without complete arithmetic"
			}
			if res.isInf() && cv.Lambda != nil {
				// GLV curves: Shamir accumulation in incomplete affine formulas cannot output (0,0).
				// Curves without endomorphism combine the two partial products with AddUnified,
				// which documents (0,0) results: asserted there.
				return inf(), false, "JointScalarMulBase: result is infinity without complete arithmetic"
			}
			if tinyGLVScalar(cv, ks[0]) || tinyGLVScalar(cv, ks[1]) {
				// the incomplete Shamir/GLV accumulation meets its own table entries: not asserted
				return inf(), false, "JointScalarMulBase: scalar with tiny GLV sub-scalars without complete arithmetic (incomplete accumulation, not asserted)"
			}
		}
		return res, true, ""
	case opMSM:
		if len(ps) == 0 {
			return inf(), true, ""
		}
		terms := make([]point, len(ps))
		for i := range ps {
			if !inSub(ps[i]) {
				return inf(), false, "MultiScalarMul: point outside the prime-order subgroup"
			}
			if !c.Complete && (ps[i].isInf() || ks[i].Sign() == 0) {
				return inf(), false, "MultiScalarMul: zero scalar or infinity without complete arithmetic"
			}
			terms[i] = cv.mul(ps[i], ks[i])
		}
		res := inf()
		for _, t := range terms {
			res = cv.add(res, t)
		}
		if !c.Complete && len(ps) == 2 && cv.Lambda == nil {
			// two terms on a curve without endomorphism: [s1]p1 and [s2]p2 are computed
			// separately and combined with AddUnified (jointScalarMulFakeGLV): equal /
			// opposite points or partial products and an infinity result are in the domain
		} else if !c.Complete && len(ps) == 2 {
			// two terms on a GLV curve: one call of jointScalarMulGLVUnsafe (documented: points != (0,0),
			// P != +-Q, scalars != 0); equal partial products are in the domain, an infinity result
			// cannot be output by the incomplete affine accumulation
			if ps[0].X.Cmp(ps[1].X) == 0 {
				return inf(), false, "MultiScalarMul: repeated/opposite points without complete arithmetic"
			}
			if res.isInf() {
				return inf(), false, "MultiScalarMul: result is infinity without complete arithmetic"
			}
			if tinyGLVScalar(cv, ks[0]) || tinyGLVScalar(cv, ks[1]) {
				return inf(), false, "MultiScalarMul: scalar with tiny GLV sub-scalars without complete arithmetic (incomplete accumulation, not asserted)"
			}
		} else if !c.Complete {
			// the incomplete variant combines pair results with the incomplete
			// addition: keep only cases where no pair of (partial) results is
			// equal, opposite or infinity, and no two input points are equal/opposite.
			for i := range ps {
				for j := i + 1; j < len(ps); j++ {
					if ps[i].X.Cmp(ps[j].X) == 0 {
						return inf(), false, "MultiScalarMul: repeated/opposite points without complete arithmetic"
					}
				}
			}
			acc := inf()
			for i := range terms {
				if i > 0 && (acc.isInf() || acc.X.Cmp(terms[i].X) == 0) {
					return inf(), false, "MultiScalarMul: exceptional partial sum without complete arithmetic"
				}
				acc = cv.add(acc, terms[i])
			}
			n := len(terms)
			var groups []point
			if n%2 == 1 {
				groups = append(groups, terms[n-1])
			} else {
				groups = append(groups, cv.add(terms[n-2], terms[n-1]))
			}
			for i := 1; i < n-1; i += 2 {
				groups = append(groups, cv.add(terms[i-1], terms[i]))
			}
			acc = inf()
			for i, g := range groups {
				if g.isInf() || (i > 0 && (acc.isInf() || acc.X.Cmp(g.X) == 0)) {
					return inf(), false, "MultiScalarMul: exceptional partial sum without complete arithmetic"
				}
				acc = cv.add(acc, g)
			}
			if res.isInf() {
				return inf(), false, "MultiScalarMul: result is infinity without complete arithmetic"
			}
			for _, k := range ks {
				if len(ks) > 1 && tinyGLVScalar(cv, k) {
					return inf(), false, "MultiScalarMul: scalar with tiny GLV sub-scalars without complete arithmetic (incomplete accumulation, not asserted)"
				}
			}
		}
		return res, true, ""
	case opFold:
		// sum_i gamma^i P_i (WithFoldingScalarMul)
		if len(ps) < 2 {
			return inf(), false, "MultiScalarMulFold: fewer than two points (degenerate call)"
		}
		g := ks[0]
		for i := range ps {
			if !inSub(ps[i]) {
				return inf(), false, "MultiScalarMulFold: point outside the prime-order subgroup"
			}
		}
		res := cv.mul(ps[len(ps)-1], g)
		if !c.Complete && (ps[len(ps)-1].isInf() || g.Sign() == 0) {
			return inf(), false, "MultiScalarMulFold: zero scalar or infinity without complete arithmetic"
		}
		for i := len(ps) - 2; i > 0; i-- {
			if !c.Complete && (ps[i].isInf() || res.isInf() || ps[i].X.Cmp(res.X) == 0) {
				return inf(), false, "MultiScalarMulFold: exceptional partial sum without complete arithmetic"
			}
			res = cv.add(ps[i], res)
			if !c.Complete && res.isInf() {
				return inf(), false, "MultiScalarMulFold: exceptional partial sum without complete arithmetic"
			}
			res = cv.mul(res, g)
		}
		if len(ps) > 1 {
			if !c.Complete && (ps[0].isInf() || res.isInf() || ps[0].X.Cmp(res.X) == 0) {
				return inf(), false, "MultiScalarMulFold: exceptional partial sum without complete arithmetic"
			}
			res = cv.add(ps[0], res)
		}
		return res, true, ""
	}
	return inf(), false, "unknown op"
}

// ---- emulated circuits --------------------------------------------------------

type swCircuit[B, S emulated.FieldParams] struct {
	op       string
	complete bool
	sum      []bool

	P   []sw_emulated.AffinePoint[B]
	S   []emulated.Element[S]
	T   []emulated.Element[S]
	Out sw_emulated.AffinePoint[B]
}

func (c *swCircuit[B, S]) Define(api frontend.API) error {
	cr, err := sw_emulated.New[B, S](api, sw_emulated.GetCurveParams[B]())
	if err != nil {
		return err
	}
	sf, err := emulated.NewField[S](api)
	if err != nil {
		return err
	}
	var opts []algopts.AlgebraOption
	if c.complete {
		opts = append(opts, algopts.WithCompleteArithmetic())
	}
	ss := make([]*emulated.Element[S], len(c.S))
	for i := range c.S {
		ss[i] = &c.S[i]
		if c.sum[i] {
			ss[i] = sf.Add(&c.S[i], &c.T[i])
		}
	}
	pp := make([]*sw_emulated.AffinePoint[B], len(c.P))
	for i := range c.P {
		pp[i] = &c.P[i]
	}
	var res *sw_emulated.AffinePoint[B]
	switch c.op {
	case opAdd:
		res = cr.Add(pp[0], pp[1])
	case opAddU:
		res = cr.AddUnified(pp[0], pp[1])
	case opNeg:
		res = cr.Neg(pp[0])
	case opMul:
		res = cr.ScalarMul(pp[0], ss[0], opts...)
	case opMulBase:
		res = cr.ScalarMulBase(ss[0], opts...)
	case opJoint:
		res = cr.JointScalarMulBase(pp[0], ss[0], ss[1], opts...)
	case opMSM:
		res, err = cr.MultiScalarMul(pp, ss, opts...)
		if err != nil {
			return err
		}
	case opFold:
		res, err = cr.MultiScalarMul(pp, ss, append(opts, algopts.WithFoldingScalarMul())...)
		if err != nil {
			return err
		}
	default:
		return fmt.Errorf("unsupported op %s", c.op)
	}
	cr.AssertIsEqual(res, &c.Out)
	return nil
}

func rawElement[T emulated.FieldParams](v *big.Int) emulated.Element[T] {
	var t T
	n, w := int(t.NbLimbs()), t.BitsPerLimb()
	limbs := make([]frontend.Variable, n)
	mask := new(big.Int).Sub(new(big.Int).Lsh(big.NewInt(1), w), big.NewInt(1))
	x := new(big.Int).Set(v)
	for i := 0; i < n; i++ {
		limbs[i] = new(big.Int).And(x, mask)
		x.Rsh(x, w)
	}
	return emulated.Element[T]{Limbs: limbs}
}

func emuPoint[B emulated.FieldParams](p point) sw_emulated.AffinePoint[B] {
	return sw_emulated.AffinePoint[B]{X: emulated.ValueOf[B](p.X), Y: emulated.ValueOf[B](p.Y)}
}

func buildEmu[B, S emulated.FieldParams](c *SWCase, out point) (circuit, assignment frontend.Circuit) {
	n, m := len(c.Points), len(c.Scalars)
	ci := &swCircuit[B, S]{op: c.Op, complete: c.Complete, sum: make([]bool, m),
		P: make([]sw_emulated.AffinePoint[B], n), S: make([]emulated.Element[S], m), T: make([]emulated.Element[S], m)}
	as := &swCircuit[B, S]{op: c.Op, complete: c.Complete, sum: make([]bool, m),
		P: make([]sw_emulated.AffinePoint[B], n), S: make([]emulated.Element[S], m), T: make([]emulated.Element[S], m)}
	for i, p := range c.Points {
		as.P[i] = emuPoint[B](p.point())
	}
	for i, s := range c.Scalars {
		switch s.Form {
		case "sum":
			ci.sum[i], as.sum[i] = true, true
			as.S[i] = emulated.ValueOf[S](unhx(s.A))
			as.T[i] = emulated.ValueOf[S](unhx(s.B))
		case "raw":
			as.S[i] = rawElement[S](unhx(s.A))
			as.T[i] = emulated.ValueOf[S](0)
		default:
			as.S[i] = emulated.ValueOf[S](unhx(s.A))
			as.T[i] = emulated.ValueOf[S](0)
		}
	}
	as.Out = emuPoint[B](out)
	return ci, as
}

// ---- native sw_bls12377 over BW6-761 ------------------------------------------

type nat377Circuit struct {
	op       string
	complete bool
	sum      []bool

	P   []sw_bls12377.G1Affine
	S   []sw_bls12377.Scalar
	T   []sw_bls12377.Scalar
	Out sw_bls12377.G1Affine
}

func (c *nat377Circuit) Define(api frontend.API) error {
	cr, err := sw_bls12377.NewCurve(api)
	if err != nil {
		return err
	}
	sf, err := emulated.NewField[sw_bls12377.ScalarField](api)
	if err != nil {
		return err
	}
	var opts []algopts.AlgebraOption
	if c.complete {
		opts = append(opts, algopts.WithCompleteArithmetic())
	}
	ss := make([]*sw_bls12377.Scalar, len(c.S))
	for i := range c.S {
		ss[i] = &c.S[i]
		if c.sum[i] {
			ss[i] = sf.Add(&c.S[i], &c.T[i])
		}
	}
	pp := make([]*sw_bls12377.G1Affine, len(c.P))
	for i := range c.P {
		pp[i] = &c.P[i]
	}
	var res *sw_bls12377.G1Affine
	switch c.op {
	case opAdd:
		res = cr.Add(pp[0], pp[1])
	case opAddU:
		res = cr.AddUnified(pp[0], pp[1])
	case opNeg:
		res = cr.Neg(pp[0])
	case opDouble:
		res = new(sw_bls12377.G1Affine)
		res.Double(api, *pp[0])
	case opMul:
		res = cr.ScalarMul(pp[0], ss[0], opts...)
	case opMulBase:
		res = cr.ScalarMulBase(ss[0], opts...)
	case opMSM:
		res, err = cr.MultiScalarMul(pp, ss, opts...)
		if err != nil {
			return err
		}
	case opFold:
		res, err = cr.MultiScalarMul(pp, ss, append(opts, algopts.WithFoldingScalarMul())...)
		if err != nil {
			return err
		}
	default:
		return fmt.Errorf("unsupported op %s", c.op)
	}
	cr.AssertIsEqual(res, &c.Out)
	return nil
}

func buildNat377(c *SWCase, out point) (circuit, assignment frontend.Circuit) {
	n, m := len(c.Points), len(c.Scalars)
	type S = sw_bls12377.ScalarField
	ci := &nat377Circuit{op: c.Op, complete: c.Complete, sum: make([]bool, m),
		P: make([]sw_bls12377.G1Affine, n), S: make([]sw_bls12377.Scalar, m), T: make([]sw_bls12377.Scalar, m)}
	as := &nat377Circuit{op: c.Op, complete: c.Complete, sum: make([]bool, m),
		P: make([]sw_bls12377.G1Affine, n), S: make([]sw_bls12377.Scalar, m), T: make([]sw_bls12377.Scalar, m)}
	for i, p := range c.Points {
		q := p.point()
		as.P[i] = sw_bls12377.G1Affine{X: q.X, Y: q.Y}
	}
	for i, s := range c.Scalars {
		switch s.Form {
		case "sum":
			ci.sum[i], as.sum[i] = true, true
			as.S[i] = emulated.ValueOf[S](unhx(s.A))
			as.T[i] = emulated.ValueOf[S](unhx(s.B))
		case "raw":
			as.S[i] = rawElement[S](unhx(s.A))
			as.T[i] = emulated.ValueOf[S](0)
		default:
			as.S[i] = emulated.ValueOf[S](unhx(s.A))
			as.T[i] = emulated.ValueOf[S](0)
		}
	}
	as.Out = sw_bls12377.G1Affine{X: out.X, Y: out.Y}
	return ci, as
}

type swTarget struct {
	field *big.Int // native field the circuit is defined over
	build func(c *SWCase, out point) (frontend.Circuit, frontend.Circuit)
	ops   []string
}

var emuOps = []string{opAdd, opAddU, opNeg, opMul, opMulBase, opJoint, opMSM, opFold}

var swTargets = map[string]swTarget{
	"secp256k1": {ecc.BN254.ScalarField(), buildEmu[emulated.Secp256k1Fp, emulated.Secp256k1Fr], emuOps},
	"bn254":     {ecc.BN254.ScalarField(), buildEmu[emulated.BN254Fp, emulated.BN254Fr], emuOps},
	"p256":      {ecc.BN254.ScalarField(), buildEmu[emulated.P256Fp, emulated.P256Fr], emuOps},
	"p384":      {ecc.BN254.ScalarField(), buildEmu[emulated.P384Fp, emulated.P384Fr], emuOps},
	"bls12381":  {ecc.BN254.ScalarField(), buildEmu[emulated.BLS12381Fp, emulated.BLS12381Fr], emuOps},
	"bw6761":    {ecc.BN254.ScalarField(), buildEmu[emulated.BW6761Fp, emulated.BW6761Fr], emuOps},
	"bls12377":  {ecc.BW6_761.ScalarField(), buildNat377, []string{opAdd, opAddU, opNeg, opDouble, opMul, opMulBase, opMSM, opFold}},
}

// scalarBits is the bit capacity of a raw-limb scalar witness on the curve.
func scalarBits(curve string) int { return curves[curve].R.BitLen() }

// classesOf labels the exceptional shapes present in the case (measured from the values).
func classesOf(c *SWCase) (cl []string, exceptional bool) {
	cv := curves[c.Curve]
	cl = append(cl, "curve:"+c.Curve, "op:"+c.Op, fmt.Sprintf("complete:%v", c.Complete))
	add := func(s string) { cl = append(cl, s); exceptional = true }
	ps := make([]point, len(c.Points))
	for i, p := range c.Points {
		ps[i] = p.point()
		switch {
		case ps[i].isInf():
			add("pt:infinity")
		case ps[i].eq(cv.G):
			add("pt:G")
		case ps[i].eq(cv.neg(cv.G)):
			add("pt:-G")
		}
		for _, lo := range cv.LowOrder {
			if ps[i].eq(lo) {
				add("pt:low-order")
			}
		}
		if cv.Lambda != nil && !ps[i].isInf() {
			l2 := new(big.Int).Mul(cv.Lambda, cv.Lambda)
			for _, k := range []*big.Int{big.NewInt(2), big.NewInt(3), cv.Lambda, l2.Mod(l2, cv.R)} {
				q := cv.mul(cv.G, k)
				if q.X.Cmp(ps[i].X) == 0 && !ps[i].eq(cv.G) && !ps[i].eq(cv.neg(cv.G)) {
					add("pt:small-or-endo-multiple-of-G")
				}
			}
		}
	}
	for i := range ps {
		for j := i + 1; j < len(ps); j++ {
			switch {
			case ps[i].isInf() || ps[j].isInf():
			case ps[i].eq(ps[j]):
				add("pts:equal")
			case ps[i].X.Cmp(ps[j].X) == 0:
				add("pts:opposite")
			}
		}
	}
	for _, s := range c.Scalars {
		v := s.value()
		m := new(big.Int).Mod(v, cv.R)
		if s.Form != "val" {
			cl = append(cl, "sc-form:"+s.Form)
		}
		switch {
		case v.Cmp(cv.R) == 0:
			add("sc:=r")
		case v.Cmp(cv.R) > 0:
			add("sc:>r")
		}
		rm1 := new(big.Int).Sub(cv.R, big.NewInt(1))
		switch {
		case m.Sign() == 0:
			add("sc:0 mod r")
		case m.Cmp(big.NewInt(1)) == 0:
			add("sc:1 mod r")
		case m.Cmp(rm1) == 0:
			add("sc:-1 mod r")
		case m.Cmp(big.NewInt(2)) == 0 || m.Cmp(big.NewInt(3)) == 0:
			add("sc:2or3")
		case new(big.Int).Sub(cv.R, m).Cmp(big.NewInt(3)) <= 0:
			add("sc:-2or-3")
		case m.BitLen() > 3 && new(big.Int).And(m, new(big.Int).Sub(m, big.NewInt(1))).Sign() == 0:
			add("sc:2^k")
		case m.BitLen() <= cv.R.BitLen()/2:
			add("sc:half-size")
		}
		if cv.Lambda != nil {
			l2 := new(big.Int).Mul(cv.Lambda, cv.Lambda)
			l2.Mod(l2, cv.R)
			for _, l := range []*big.Int{cv.Lambda, l2} {
				for d := int64(-1); d <= 1; d++ {
					x := new(big.Int).Add(l, big.NewInt(d))
					if m.Cmp(x.Mod(x, cv.R)) == 0 || m.Cmp(new(big.Int).Sub(cv.R, x)) == 0 {
						add("sc:near +-lambda")
					}
				}
			}
		}
	}
	return cl, exceptional
}

func wrongOutput(c *SWCase, out point) point {
	cv := curves[c.Curve]
	switch c.Wrong {
	case "neg":
		if out.isInf() || out.Y.Sign() == 0 {
			return cv.G
		}
		return cv.neg(out)
	case "addG":
		return cv.add(out, cv.G)
	case "inf":
		if out.isInf() {
			return cv.G
		}
		return inf()
	}
	return out
}

func isPanic(err error) bool {
	return err != nil && (strings.Contains(err.Error(), "PANIC") || strings.Contains(err.Error(), "panic") || strings.Contains(err.Error(), "runtime error"))
}

// engineSolved runs gnark's test engine; a panic escaping it is reported separately.
func engineSolved(circuit, assignment frontend.Circuit, field *big.Int) (err error, panicked string) {
	panicked = ev.Safely(func() { err = test.IsSolved(circuit, assignment, field) })
	return
}

// runSW screens the case for a degenerate (non-terminating) decomposition hint
// and then runs it (in-process, or in a killable child when flagged).
func runSW(c SWCase) ev.Outcome {
	if _, ok := swTargets[c.Curve]; !ok {
		return ev.Outcome{Discard: true, DiscardWhy: "unknown curve"}
	}
	if _, inDomain, _ := reference(&c); inDomain {
		if deg, sc := degenerateScalar(&c); deg {
			o, finished := runInChild(c)
			if !finished {
				return ev.Outcome{Violation: fmt.Sprintf("[%s %s complete=%v] solver does not return: the halfGCDEisenstein hint (gnark-crypto eisenstein.HalfGCD) needs more than %d iterations for the in-domain scalar %s (remainder norm decreases by a constant per step from ~r); confirmation child killed after %s",
					c.Curve, c.Op, c.Complete, eisensteinStepCap, sc, childBudget)}
			}
			o.Classes = append(o.Classes, "degenerate-decomposition-screened")
			return o
		}
	}
	return runSWUnguarded(c)
}

func runSWUnguarded(c SWCase) ev.Outcome {
	tg, ok := swTargets[c.Curve]
	if !ok {
		return ev.Outcome{Discard: true, DiscardWhy: "unknown curve"}
	}
	okOp := false
	for _, o := range tg.ops {
		if o == c.Op {
			okOp = true
		}
	}
	if !okOp {
		return ev.Outcome{Discard: true, DiscardWhy: "op not offered by target"}
	}
	out, inDomain, why := reference(&c)
	if !inDomain {
		return ev.Outcome{Discard: true, DiscardWhy: "outside documented domain: " + strings.SplitN(why, ":", 2)[0]}
	}
	classes, exceptional := classesOf(&c)
	if rel := partialProductRelation(&c); rel != "" {
		classes = append(classes, "partial-products:"+rel)
		exceptional = true
	}
	if out.isInf() {
		classes = append(classes, "result:infinity")
		exceptional = true
	}
	where := fmt.Sprintf("[%s %s complete=%v]", c.Curve, c.Op, c.Complete)
	ci, as := tg.build(&c, out)
	err, pan := engineSolved(ci, as, tg.field)
	if pan != "" {
		return ev.Outcome{Violation: where + " test engine panicked on an in-domain input: " + pan}
	}
	if err != nil {
		extra := ""
		if !out.isInf() {
			// diagnostic probe: does the gadget output (0,0) instead?
			ci, as := tg.build(&c, inf())
			if e2, p2 := engineSolved(ci, as, tg.field); e2 == nil && p2 == "" {
				extra = " [the circuit accepts the claimed output (0,0) instead]"
			}
		}
		return ev.Outcome{Violation: fmt.Sprintf("%s in-domain input not satisfiable with the native result (%s,%s)%s: %v", where, hx(out.X), hx(out.Y), extra, trimErr(err))}
	}
	classes = append(classes, "honest-accepted")
	if c.Wrong != "" {
		w := wrongOutput(&c, out)
		ci, as := tg.build(&c, w)
		err, pan := engineSolved(ci, as, tg.field)
		if pan != "" {
			return ev.Outcome{Violation: where + " test engine panicked on a wrong claimed output: " + pan}
		}
		if err == nil {
			return ev.Outcome{Violation: fmt.Sprintf("%s wrong claimed output (%s,%s) accepted; native result is (%s,%s)", where, hx(w.X), hx(w.Y), hx(out.X), hx(out.Y))}
		}
		classes = append(classes, "wrong-rejected:"+c.Wrong)
	}
	if c.Compiled {
		if msg := compiledHonest(&c, tg, out); msg != "" {
			return ev.Outcome{Violation: where + " " + msg}
		}
		classes = append(classes, "compiled-r1cs-solved")
	}
	return ev.Outcome{NonTrivial: exceptional, Classes: classes}
}

func trimErr(err error) string {
	s := err.Error()
	if len(s) > 400 {
		s = s[:400] + "…"
	}
	return s
}

// partialProductRelation labels two-term sums ([s1]g + [s2]p, or a two-point
// MultiScalarMul) whose partial products coincide ("equal": the final addition
// is a doubling) or cancel ("opposite": the result is the point at infinity).
func partialProductRelation(c *SWCase) string {
	cv := curves[c.Curve]
	var a, b point
	switch {
	case c.Op == opJoint && len(c.Points) == 1 && len(c.Scalars) == 2:
		a, b = cv.mul(c.Points[0].point(), c.Scalars[0].value()), cv.mul(cv.G, c.Scalars[1].value())
	case c.Op == opMSM && len(c.Points) == 2 && len(c.Scalars) == 2:
		a, b = cv.mul(c.Points[0].point(), c.Scalars[0].value()), cv.mul(c.Points[1].point(), c.Scalars[1].value())
	default:
		return ""
	}
	switch {
	case a.isInf() || b.isInf():
		return ""
	case a.eq(b):
		return "equal"
	case a.X.Cmp(b.X) == 0:
		return "opposite"
	}
	return ""
}

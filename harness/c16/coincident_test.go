package c16

// Coincident / opposite partial products. A two-term sum [s1]P1 + [s2]P2
// (JointScalarMulBase, two-point MultiScalarMul, the R = [m/s]G + [r/s]Q of ECDSA
// verification) whose partial products are equal (the final addition is a
// doubling) or opposite (the sum is the point at infinity) never occurs with
// random inputs, but is reachable by construction: p = [k]G and s1 = +-k*s2, or
// an ECDSA message hash m = r*d. The documented domain of these methods (p !=
// (0,0), p != +-g, scalars != 0; P != +-Q for the GLV Shamir variant) does not
// exclude it. Oracle: the native group law (doubling; (0,0) where the
// implementation documents AddUnified, i.e. on the curves without endomorphism;
// on the GLV curves an infinity result of the incomplete accumulation is not
// asserted) and the native ECDSA verifier.

import (
	"crypto/sha256"
	"fmt"
	"math/big"
	"testing"

	"verifharness/lib/ev"

	"pgregory.net/rapid"
)

// coincidentSW builds the case: op JointScalarMulBase: [s1]g + [s2]p with p = [k]g, s1 = sign*k*s2;
// op MultiScalarMul: [s1]P1 + [s2]P2 with P2 = [k]P1, s1 = sign*k*s2.
func coincidentSW(curve, op string, complete bool, k, s2 *big.Int, sign int, base point, wrong string) SWCase {
	cv := curves[curve]
	s1 := new(big.Int).Mul(k, s2)
	if sign < 0 {
		s1.Neg(s1)
	}
	s1.Mod(s1, cv.R)
	val := func(v *big.Int) Sc { return Sc{Form: "val", A: hx(v)} }
	if op == opJoint {
		return SWCase{Curve: curve, Op: opJoint, Complete: complete, Points: []Pt{cv.mul(cv.G, k).pt()}, Scalars: []Sc{val(s2), val(s1)}, Wrong: wrong}
	}
	return SWCase{Curve: curve, Op: opMSM, Complete: complete, Points: []Pt{base.pt(), cv.mul(base, k).pt()}, Scalars: []Sc{val(s1), val(s2)}, Wrong: wrong}
}

// coincidentECDSA builds a natively valid signature with [m/s]G == [r/s]Q (m = r*d).
func coincidentECDSA(curve string, d, k *big.Int) ECDSACase {
	cv := curves[curve]
	n := cv.R
	Q := cv.mul(cv.G, d)
	R := cv.mul(cv.G, k)
	r := new(big.Int).Mod(R.X, n)
	m := new(big.Int).Mul(r, d)
	m.Mod(m, n)
	s := new(big.Int).Lsh(m, 1)
	s.Mul(s, new(big.Int).ModInverse(k, n)).Mod(s, n)
	return ECDSACase{Curve: curve, Q: Q.pt(), R: hx(r), S: hx(s), M: hx(m), Mut: "u1G=u2Q"}
}

func seededScalar(cv *swCurve, label string) *big.Int {
	h := sha256.Sum256([]byte(fmt.Sprintf("coincident|%s|%s|%d|%d", cv.Name, label, ev.Seed(), ev.Shard())))
	h2 := sha256.Sum256(h[:])
	v := new(big.Int).SetBytes(append(h[:], h2[:]...))
	v.Mod(v, new(big.Int).Sub(cv.R, big.NewInt(16)))
	return v.Add(v, big.NewInt(8))
}

// TestCoincidentPartialProducts: deterministic cross product curve x op x sign
// (scalars derived from VERIF_SEED), default options, plus the ECDSA doubling
// signature on every ECDSA curve; rapid-generated variants in the thorough tier.
func TestCoincidentPartialProducts(t *testing.T) {
	t.Parallel()
	rec := ev.Get(ID)
	rec.SetRule(rule)
	type job struct {
		kind string
		c    any
		run  func() ev.Outcome
		excl string
	}
	var jobs []job
	addSW := func(c SWCase) {
		jobs = append(jobs, job{"sw", c, func() ev.Outcome { return runSW(c) }, excludedSW(&c)})
	}
	if firstShard() {
		i := 0
		for _, curve := range []string{"p256", "p384", "secp256k1", "bn254"} {
			cv := curves[curve]
			for _, op := range []string{opJoint, opMSM} {
				for _, sign := range []int{1, -1} {
					k, s2 := seededScalar(cv, fmt.Sprint("k", op, sign)), seededScalar(cv, fmt.Sprint("s", op, sign))
					wrong := []string{"", "addG", "neg", "inf"}[i%4]
					i++
					addSW(coincidentSW(curve, op, false, k, s2, sign, cv.derive("coincident-base"), wrong))
				}
			}
		}
		// complete arithmetic on one curve of each family
		for _, curve := range []string{"p256", "secp256k1"} {
			cv := curves[curve]
			for _, sign := range []int{1, -1} {
				addSW(coincidentSW(curve, opJoint, true, seededScalar(cv, "ck"), seededScalar(cv, "cs"), sign, cv.G, "addG"))
			}
		}
		for _, curve := range []string{"p256", "p384", "secp256k1"} {
			cv := curves[curve]
			c := coincidentECDSA(curve, seededScalar(cv, "d"), seededScalar(cv, "nonce"))
			jobs = append(jobs, job{"ecdsa", c, func() ev.Outcome { return runECDSA(c) }, excludedECDSA(&c)})
		}
	}
	for _, j := range jobs {
		if j.excl != "" {
			rec.Discarded(j.kind + ":excluded shape of open finding " + j.excl)
			continue
		}
		o := j.run()
		switch {
		case o.Discard:
			rec.Discarded(j.kind + "-coincident:" + o.DiscardWhy)
		case o.Violation != "":
			p := rec.Violate(j.kind, j.c, o.Violation)
			t.Errorf("VIOLATION %s kind=%s replay=%s: %s", ID, j.kind, p, trunc(o.Violation, 1200))
			return
		default:
			rec.Count(j.kind, j.c, o.NonTrivial, append(o.Classes, "source:coincident-table")...)
		}
	}
	if ev.Tier() != "thorough" {
		return
	}
	g := rapid.Custom(func(t *rapid.T) SWCase {
		curve := rapid.SampledFrom([]string{"p256", "p256", "p384", "secp256k1", "bn254", "bls12381"}).Draw(t, "curve")
		cv := curves[curve]
		k := randBelow(t, "k", new(big.Int).Sub(cv.R, big.NewInt(4)))
		k.Add(k, big.NewInt(2))
		s2 := randBelow(t, "s2", new(big.Int).Sub(cv.R, big.NewInt(2)))
		s2.Add(s2, big.NewInt(1))
		sign := rapid.SampledFrom([]int{1, -1}).Draw(t, "sign")
		op := rapid.SampledFrom([]string{opJoint, opMSM}).Draw(t, "op")
		complete := rapid.IntRange(0, 3).Draw(t, "complete") == 0
		base := cv.derive(fmt.Sprintf("cb-%d", rapid.IntRange(0, 1<<16).Draw(t, "base")))
		return coincidentSW(curve, op, complete, k, s2, sign, base, rapid.SampledFrom([]string{"", "addG", "neg", "inf"}).Draw(t, "wrong"))
	})
	checkSerial(rec, t, "sw", ev.N(1, 400), func(rt *rapid.T) {
		c := g.Draw(rt, "case")
		if sig := excludedSW(&c); sig != "" {
			rec.Discarded("sw:excluded shape of open finding " + sig)
			return
		}
		rec.Begin("sw", c)
		rec.Report(rt, "sw", c, runSW(c))
	})
}

package c16

// Twisted Edwards companion curves (std/algebra/native/twistededwards) and EdDSA
// (std/signature/eddsa). Oracle: reference big-integer twisted Edwards
// arithmetic with gnark's curve constants, cross-validated against
// gnark-crypto's PointAffine arithmetic; for signatures the cofactored EdDSA
// equation evaluated on it (and gnark-crypto's Verify wherever its encoding
// rules admit the signature).

import (
	"bytes"
	"crypto/sha256"
	"fmt"
	"math/big"
	"strings"
	"sync"
	"testing"

	"verifharness/lib/ev"
	"verifharness/lib/hintadv"
	"verifharness/lib/prog"

	"github.com/consensys/gnark-crypto/ecc"
	bn254te "github.com/consensys/gnark-crypto/ecc/bn254/twistededwards"
	bn254eddsa "github.com/consensys/gnark-crypto/ecc/bn254/twistededwards/eddsa"
	tedwards "github.com/consensys/gnark-crypto/ecc/twistededwards"
	gchash "github.com/consensys/gnark-crypto/hash"
	"github.com/consensys/gnark-crypto/signature"
	gceddsa "github.com/consensys/gnark-crypto/signature/eddsa"
	"github.com/consensys/gnark/constraint/solver"
	"github.com/consensys/gnark/frontend"
	"github.com/consensys/gnark/std/algebra/native/twistededwards"
	"github.com/consensys/gnark/std/hash/mimc"
	"github.com/consensys/gnark/std/signature/eddsa"
	"pgregory.net/rapid"
)

type teCurve struct {
	Name     string
	ID       tedwards.ID
	Q        *big.Int // base field = snark scalar field
	A, D     *big.Int
	Order    *big.Int
	Cofactor *big.Int
	Base     point
	Hash     gchash.Hash
}

func teIdentity() point { return point{big.NewInt(0), big.NewInt(1)} }

func (c *teCurve) onCurve(p point) bool {
	xx := new(big.Int).Mul(p.X, p.X)
	yy := new(big.Int).Mul(p.Y, p.Y)
	l := new(big.Int).Mul(c.A, xx)
	l.Add(l, yy).Mod(l, c.Q)
	r := new(big.Int).Mul(xx, yy)
	r.Mul(r, c.D).Add(r, big.NewInt(1)).Mod(r, c.Q)
	return l.Cmp(r) == 0
}

func (c *teCurve) add(p, q point) point {
	x1y2 := new(big.Int).Mul(p.X, q.Y)
	y1x2 := new(big.Int).Mul(p.Y, q.X)
	t := new(big.Int).Mul(x1y2, y1x2)
	t.Mul(t, c.D).Mod(t, c.Q)
	nx := new(big.Int).Add(x1y2, y1x2)
	dx := new(big.Int).Add(big.NewInt(1), t)
	ny := new(big.Int).Mul(p.Y, q.Y)
	ax := new(big.Int).Mul(p.X, q.X)
	ax.Mul(ax, c.A)
	ny.Sub(ny, ax)
	dy := new(big.Int).Sub(big.NewInt(1), t)
	dx.Mod(dx, c.Q)
	dy.Mod(dy, c.Q)
	dx.ModInverse(dx, c.Q)
	dy.ModInverse(dy, c.Q)
	nx.Mul(nx, dx).Mod(nx, c.Q)
	ny.Mul(ny, dy).Mod(ny, c.Q)
	return point{nx, ny}
}

func (c *teCurve) neg(p point) point {
	x := new(big.Int).Sub(c.Q, p.X)
	return point{x.Mod(x, c.Q), new(big.Int).Set(p.Y)}
}

func (c *teCurve) mul(p point, k *big.Int) point {
	acc := teIdentity()
	for i := k.BitLen() - 1; i >= 0; i-- {
		acc = c.add(acc, acc)
		if k.Bit(i) == 1 {
			acc = c.add(acc, p)
		}
	}
	return acc
}

func (c *teCurve) derive(label string) point {
	h := sha256.Sum256([]byte("te|" + c.Name + "|" + label))
	k := new(big.Int).SetBytes(h[:])
	k.Mod(k, new(big.Int).Sub(c.Order, big.NewInt(3)))
	k.Add(k, big.NewInt(2))
	return c.mul(c.Base, k)
}

// lowOrder returns points of small order: (0,-1) of order 2 and, when it exists
// in the field, a point of order 4 (y = 0, a*x^2 = 1).
func (c *teCurve) lowOrder() []point {
	ps := []point{{big.NewInt(0), new(big.Int).Sub(c.Q, big.NewInt(1))}}
	ainv := new(big.Int).ModInverse(c.A, c.Q)
	if x := new(big.Int).ModSqrt(ainv, c.Q); x != nil {
		ps = append(ps, point{x, big.NewInt(0)})
	}
	return ps
}

var (
	teCurves = map[string]*teCurve{}
	teNames  = []string{"bn254", "bls12-381", "bandersnatch", "bls12-377", "bw6-761", "bls24-315", "bls24-317", "bw6-633"}
)

func init() {
	for name, id := range map[string]tedwards.ID{"bn254": tedwards.BN254, "bls12-381": tedwards.BLS12_381, "bandersnatch": tedwards.BLS12_381_BANDERSNATCH,
		"bls12-377": tedwards.BLS12_377, "bw6-761": tedwards.BW6_761, "bls24-315": tedwards.BLS24_315, "bls24-317": tedwards.BLS24_317, "bw6-633": tedwards.BW6_633} {
		pr, err := twistededwards.GetCurveParams(id)
		if err != nil {
			panic(err)
		}
		q, err := twistededwards.GetSnarkField(id)
		if err != nil {
			panic(err)
		}
		h := map[string]gchash.Hash{"bn254": gchash.MIMC_BN254, "bls12-381": gchash.MIMC_BLS12_381, "bandersnatch": gchash.MIMC_BLS12_381, "bls12-377": gchash.MIMC_BLS12_377,
			"bw6-761": gchash.MIMC_BW6_761, "bls24-315": gchash.MIMC_BLS24_315, "bls24-317": gchash.MIMC_BLS24_317, "bw6-633": gchash.MIMC_BW6_633}[name]
		teCurves[name] = &teCurve{Name: name, ID: id, Q: q, A: pr.A, D: pr.D, Order: pr.Order, Cofactor: pr.Cofactor,
			Base: point{pr.Base[0], pr.Base[1]}, Hash: h}
	}
}

func teSelfCheck() error {
	for name, c := range teCurves {
		if !c.onCurve(c.Base) {
			return fmt.Errorf("te %s: base not on curve", name)
		}
		id := c.mul(c.Base, c.Order)
		if !id.eq(teIdentity()) {
			return fmt.Errorf("te %s: [order]Base != identity", name)
		}
		for _, lo := range c.lowOrder() {
			if !c.onCurve(lo) {
				return fmt.Errorf("te %s: low-order point not on curve", name)
			}
		}
	}
	// against gnark-crypto on bn254
	c := teCurves["bn254"]
	for _, k := range []*big.Int{big.NewInt(1), big.NewInt(2), big.NewInt(12345), new(big.Int).Sub(c.Order, big.NewInt(1)), new(big.Int).Sub(c.Q, big.NewInt(1))} {
		var p bn254te.PointAffine
		base := bn254te.GetEdwardsCurve().Base
		p.ScalarMultiplication(&base, k)
		got := c.mul(c.Base, k)
		if got.X.Cmp(p.X.BigInt(new(big.Int))) != 0 || got.Y.Cmp(p.Y.BigInt(new(big.Int))) != 0 {
			return fmt.Errorf("te bn254: reference [k]Base differs from gnark-crypto for k=%s", k)
		}
		var d bn254te.PointAffine
		d.Add(&p, &base)
		g2 := c.add(got, c.Base)
		if g2.X.Cmp(d.X.BigInt(new(big.Int))) != 0 || g2.Y.Cmp(d.Y.BigInt(new(big.Int))) != 0 {
			return fmt.Errorf("te bn254: reference add differs from gnark-crypto")
		}
	}
	return nil
}

// ---- group operations -------------------------------------------------------------

// TECase: Op in Add Double Neg ScalarMul DoubleBaseScalarMul IsOnCurve.
type TECase struct {
	Curve   string   `json:"curve"`
	Op      string   `json:"op"`
	Points  []Pt     `json:"points"`
	Scalars []string `json:"scalars"` // hex, < snark field modulus
	Wrong   string   `json:"wrong"`   // "" | "neg" | "addB" | "id"
}

type teCircuit struct {
	id tedwards.ID
	op string

	P   []twistededwards.Point
	S   []frontend.Variable
	Out twistededwards.Point
}

func (c *teCircuit) Define(api frontend.API) error {
	cr, err := twistededwards.NewEdCurve(api, c.id)
	if err != nil {
		return err
	}
	var res twistededwards.Point
	switch c.op {
	case "Add":
		res = cr.Add(c.P[0], c.P[1])
	case "Double":
		res = cr.Double(c.P[0])
	case "Neg":
		res = cr.Neg(c.P[0])
	case "ScalarMul":
		res = cr.ScalarMul(c.P[0], c.S[0])
	case "DoubleBaseScalarMul":
		res = cr.DoubleBaseScalarMul(c.P[0], c.P[1], c.S[0], c.S[1])
	case "IsOnCurve":
		cr.AssertIsOnCurve(c.P[0])
		res = c.P[0]
	default:
		return fmt.Errorf("unsupported op")
	}
	api.AssertIsEqual(res.X, c.Out.X)
	api.AssertIsEqual(res.Y, c.Out.Y)
	return nil
}

func teShape(op string) (int, int) {
	switch op {
	case "Add":
		return 2, 0
	case "Double", "Neg", "IsOnCurve":
		return 1, 0
	case "ScalarMul":
		return 1, 1
	case "DoubleBaseScalarMul":
		return 2, 2
	}
	return 0, 0
}

func teBuild(c *TECase, out point) (frontend.Circuit, frontend.Circuit) {
	cv := teCurves[c.Curve]
	ci := &teCircuit{id: cv.ID, op: c.Op, P: make([]twistededwards.Point, len(c.Points)), S: make([]frontend.Variable, len(c.Scalars))}
	as := &teCircuit{id: cv.ID, op: c.Op, P: make([]twistededwards.Point, len(c.Points)), S: make([]frontend.Variable, len(c.Scalars))}
	for i, p := range c.Points {
		q := p.point()
		as.P[i] = twistededwards.Point{X: q.X, Y: q.Y}
	}
	for i, s := range c.Scalars {
		as.S[i] = unhx(s)
	}
	as.Out = twistededwards.Point{X: out.X, Y: out.Y}
	return ci, as
}

func teInSubgroup(cv *teCurve, p point) bool { return cv.mul(p, cv.Order).eq(teIdentity()) }

func runTE(c TECase) ev.Outcome {
	cv := teCurves[c.Curve]
	if cv == nil {
		return ev.Outcome{Discard: true, DiscardWhy: "unknown curve"}
	}
	np, ns := teShape(c.Op)
	if len(c.Points) != np || len(c.Scalars) != ns || np == 0 {
		return ev.Outcome{Discard: true, DiscardWhy: "bad shape"}
	}
	ps := make([]point, np)
	onCurve := true
	for i := range ps {
		ps[i] = c.Points[i].point()
		if ps[i].X.Cmp(cv.Q) >= 0 || ps[i].Y.Cmp(cv.Q) >= 0 {
			return ev.Outcome{Discard: true, DiscardWhy: "coordinate not reduced"}
		}
		onCurve = onCurve && cv.onCurve(ps[i])
	}
	ks := make([]*big.Int, ns)
	for i := range ks {
		ks[i] = unhx(c.Scalars[i])
		if ks[i].Cmp(cv.Q) >= 0 {
			return ev.Outcome{Discard: true, DiscardWhy: "scalar not a field element"}
		}
	}
	classes := []string{"te-curve:" + c.Curve, "te-op:" + c.Op}
	exceptional := false
	add := func(s string) { classes = append(classes, s); exceptional = true }
	for _, p := range ps {
		switch {
		case p.eq(teIdentity()):
			add("te-pt:identity")
		case p.eq(cv.Base):
			add("te-pt:base")
		case onCurve && !teInSubgroup(cv, p):
			add("te-pt:outside-prime-subgroup")
		}
	}
	if np == 2 && ps[0].eq(ps[1]) {
		add("te-pts:equal")
	}
	if np == 2 && onCurve && ps[0].eq(cv.neg(ps[1])) && !ps[0].eq(ps[1]) {
		add("te-pts:opposite")
	}
	for _, k := range ks {
		m := new(big.Int).Mod(k, cv.Order)
		switch {
		case k.Sign() == 0:
			add("te-sc:0")
		case k.Cmp(cv.Order) == 0:
			add("te-sc:=order")
		case k.Cmp(cv.Order) > 0:
			add("te-sc:>order")
		}
		switch {
		case m.Cmp(big.NewInt(1)) == 0:
			add("te-sc:1 mod order")
		case m.Cmp(new(big.Int).Sub(cv.Order, big.NewInt(1))) == 0:
			add("te-sc:-1 mod order")
		case m.Sign() == 0 && k.Sign() != 0:
		case m.BitLen() <= 3:
			add("te-sc:small")
		}
	}
	where := fmt.Sprintf("[twistededwards %s %s]", c.Curve, c.Op)
	if c.Op == "IsOnCurve" {
		ci, as := teBuild(&c, ps[0])
		err, pan := engineSolved(ci, as, cv.Q)
		if pan != "" {
			return ev.Outcome{Violation: where + " test engine panicked: " + pan}
		}
		if (err == nil) != onCurve {
			return ev.Outcome{Violation: fmt.Sprintf("%s AssertIsOnCurve accepted=%v but the point (%s,%s) on curve=%v", where, err == nil, hx(ps[0].X), hx(ps[0].Y), onCurve)}
		}
		return ev.Outcome{NonTrivial: !onCurve || exceptional, Classes: append(classes, fmt.Sprintf("te-oncurve:%v", onCurve))}
	}
	if !onCurve {
		return ev.Outcome{Discard: true, DiscardWhy: "point not on curve"}
	}
	var out point
	switch c.Op {
	case "Add":
		out = cv.add(ps[0], ps[1])
	case "Double":
		out = cv.add(ps[0], ps[0])
	case "Neg":
		out = cv.neg(ps[0])
	case "ScalarMul":
		// the fake-GLV relation s1 + s2*s = 0 (mod Order) is only meaningful on the prime-order subgroup
		if !teInSubgroup(cv, ps[0]) {
			return ev.Outcome{Discard: true, DiscardWhy: "ScalarMul: point outside the prime-order subgroup"}
		}
		out = cv.mul(ps[0], ks[0])
	case "DoubleBaseScalarMul":
		out = cv.add(cv.mul(ps[0], ks[0]), cv.mul(ps[1], ks[1]))
	}
	if out.eq(teIdentity()) {
		add("te-result:identity")
	}
	ci, as := teBuild(&c, out)
	err, pan := engineSolved(ci, as, cv.Q)
	if pan != "" {
		return ev.Outcome{Violation: where + " test engine panicked on a valid input: " + pan}
	}
	if err != nil {
		return ev.Outcome{Violation: fmt.Sprintf("%s valid input not satisfiable with the native result (%s,%s): %v", where, hx(out.X), hx(out.Y), trimErr(err))}
	}
	if c.Wrong != "" {
		w := out
		switch c.Wrong {
		case "neg":
			w = cv.neg(out)
			if w.eq(out) {
				w = cv.add(out, cv.Base)
			}
		case "addB":
			w = cv.add(out, cv.Base)
		case "id":
			w = teIdentity()
			if w.eq(out) {
				w = cv.Base
			}
		}
		ci, as := teBuild(&c, w)
		err, pan := engineSolved(ci, as, cv.Q)
		if pan != "" {
			return ev.Outcome{Violation: where + " test engine panicked on a wrong claimed output: " + pan}
		}
		if err == nil {
			return ev.Outcome{Violation: fmt.Sprintf("%s wrong claimed output (%s,%s) accepted; native result (%s,%s)", where, hx(w.X), hx(w.Y), hx(out.X), hx(out.Y))}
		}
		classes = append(classes, "te-wrong-rejected")
	}
	return ev.Outcome{NonTrivial: exceptional, Classes: classes}
}

func genTEPoint(cv *teCurve, t *rapid.T, label string, prev []point, subgroupOnly bool) point {
	kinds := []string{"rand", "rand", "identity", "base", "-base"}
	if len(prev) > 0 {
		kinds = append(kinds, "same", "opp")
	}
	if !subgroupOnly {
		kinds = append(kinds, "low", "rand+low")
	}
	r := cv.derive(fmt.Sprintf("p%d", rapid.IntRange(0, 1<<20).Draw(t, label+"-seed")))
	switch rapid.SampledFrom(kinds).Draw(t, label+"-kind") {
	case "identity":
		return teIdentity()
	case "base":
		return cv.Base
	case "-base":
		return cv.neg(cv.Base)
	case "same":
		return prev[len(prev)-1]
	case "opp":
		return cv.neg(prev[len(prev)-1])
	case "low":
		return rapid.SampledFrom(cv.lowOrder()).Draw(t, label+"-low")
	case "rand+low":
		return cv.add(r, rapid.SampledFrom(cv.lowOrder()).Draw(t, label+"-low"))
	}
	return r
}

func genTEScalar(cv *teCurve, t *rapid.T, label string) string {
	o := cv.Order
	one := big.NewInt(1)
	switch rapid.SampledFrom([]string{"rand", "rand", "0", "1", "2", "o-1", "o", "o+1", "big", "q-1", "2^k"}).Draw(t, label+"-kind") {
	case "0":
		return "0"
	case "1":
		return "1"
	case "2":
		return "2"
	case "o-1":
		return hx(new(big.Int).Sub(o, one))
	case "o":
		return hx(o)
	case "o+1":
		return hx(new(big.Int).Add(o, one))
	case "big":
		return hx(randBelow(t, label+"-v", cv.Q))
	case "q-1":
		return hx(new(big.Int).Sub(cv.Q, one))
	case "2^k":
		return hx(new(big.Int).Lsh(one, uint(rapid.IntRange(2, cv.Q.BitLen()-2).Draw(t, label+"-k"))))
	}
	return hx(randBelow(t, label+"-v", o))
}

func genTE(names []string) *rapid.Generator[TECase] {
	return rapid.Custom(func(t *rapid.T) TECase {
		c := TECase{Curve: rapid.SampledFrom(names).Draw(t, "curve")}
		cv := teCurves[c.Curve]
		c.Op = rapid.SampledFrom([]string{"Add", "Double", "Neg", "ScalarMul", "ScalarMul", "DoubleBaseScalarMul", "IsOnCurve"}).Draw(t, "op")
		np, ns := teShape(c.Op)
		var ps []point
		for i := 0; i < np; i++ {
			p := genTEPoint(cv, t, fmt.Sprintf("p%d", i), ps, c.Op == "ScalarMul")
			if c.Op == "IsOnCurve" && rapid.Bool().Draw(t, "off") {
				p = point{new(big.Int).Mod(new(big.Int).Add(p.X, big.NewInt(1)), cv.Q), p.Y}
			}
			ps = append(ps, p)
			c.Points = append(c.Points, p.pt())
		}
		for i := 0; i < ns; i++ {
			c.Scalars = append(c.Scalars, genTEScalar(cv, t, fmt.Sprintf("s%d", i)))
		}
		c.Wrong = rapid.SampledFrom([]string{"", "neg", "addB", "id"}).Draw(t, "wrong")
		return c
	})
}

func TestTwistedEdwards(t *testing.T) {
	t.Parallel()
	rec := ev.Get(ID)
	rec.SetRule(rule)
	names := []string{"bn254", "bn254", "bls12-381", "bandersnatch"}
	if ev.Tier() == "thorough" {
		names = append(names, teNames...)
	}
	g := genTE(names)
	checkSerial(rec, t, "te", ev.N(150, 5000), func(rt *rapid.T) {
		c := g.Draw(rt, "case")
		if sig := excludedTECase(&c); sig != "" {
			rec.Discarded("te:excluded shape of open finding " + sig)
			return
		}
		rec.Report(rt, "te", c, runTE(c))
	})
}

// ---- EdDSA --------------------------------------------------------------------------

type EdDSACase struct {
	Curve string `json:"curve"`
	A     Pt     `json:"a"`
	R     Pt     `json:"r"`
	S     string `json:"s"`
	Msg   string `json:"msg"`
	Mut   string `json:"mut"` // label of the alteration applied by the generator (informative)
}

type eddsaCircuit struct {
	id        tedwards.ID
	PublicKey eddsa.PublicKey
	Signature eddsa.Signature
	Message   frontend.Variable
}

func (c *eddsaCircuit) Define(api frontend.API) error {
	cr, err := twistededwards.NewEdCurve(api, c.id)
	if err != nil {
		return err
	}
	h, err := mimc.NewMiMC(api)
	if err != nil {
		return err
	}
	return eddsa.Verify(cr, c.Signature, c.Message, c.PublicKey, &h)
}

func feBytes(cv *teCurve, v *big.Int) []byte {
	n := (cv.Q.BitLen() + 7) / 8
	b := make([]byte, n)
	v.FillBytes(b)
	return b
}

// eddsaReference evaluates the cofactored verification equation natively.
func eddsaReference(cv *teCurve, A, R point, S, msg *big.Int) (bool, string) {
	if !cv.onCurve(A) {
		return false, "A off curve"
	}
	if !cv.onCurve(R) {
		return false, "R off curve"
	}
	h := cv.Hash.New()
	for _, v := range []*big.Int{R.X, R.Y, A.X, A.Y, msg} {
		if _, err := h.Write(feBytes(cv, v)); err != nil {
			return false, "hash input not a field element"
		}
	}
	hram := new(big.Int).SetBytes(h.Sum(nil))
	lhs := cv.mul(cv.mul(cv.Base, S), cv.Cofactor)
	rhs := cv.mul(cv.add(cv.mul(A, hram), R), cv.Cofactor)
	if lhs.eq(rhs) {
		return true, ""
	}
	return false, "equation"
}

func runEdDSA(c EdDSACase) ev.Outcome {
	cv := teCurves[c.Curve]
	if cv == nil {
		return ev.Outcome{Discard: true, DiscardWhy: "unknown curve"}
	}
	A, R, S, msg := c.A.point(), c.R.point(), unhx(c.S), unhx(c.Msg)
	for _, v := range []*big.Int{A.X, A.Y, R.X, R.Y, S, msg} {
		if v.Cmp(cv.Q) >= 0 {
			return ev.Outcome{Discard: true, DiscardWhy: "value not a field element"}
		}
	}
	want, why := eddsaReference(cv, A, R, S, msg)
	nativeUsed := false
	if got, ok := eddsaGnarkCrypto(cv, A, R, S, msg); ok {
		// gnark-crypto's own verifier on the serialised (A, R, S, msg), wherever its encoding rules admit them, is
		// the oracle; the reference equation must agree with it
		if got != want {
			return ev.Outcome{Discard: true, DiscardWhy: fmt.Sprintf("harness: reference equation (%v) and gnark-crypto eddsa.Verify (%v) disagree", want, got)}
		}
		nativeUsed = true
	}
	classes := []string{"eddsa-curve:" + c.Curve, "eddsa-mut:" + c.Mut, fmt.Sprintf("eddsa-native-accepts:%v", want)}
	if !want {
		classes = append(classes, "eddsa-reject-reason:"+why)
	}
	if nativeUsed {
		classes = append(classes, "eddsa-oracle:gnark-crypto-verify")
	}
	if cv.onCurve(A) && cv.onCurve(R) {
		// exact order of the defect [S]G - R - [h]A inside the 2-Sylow subgroup (1 = plain signature)
		h := cv.Hash.New()
		for _, v := range []*big.Int{R.X, R.Y, A.X, A.Y, msg} {
			h.Write(feBytes(cv, v))
		}
		hram := new(big.Int).SetBytes(h.Sum(nil))
		d := cv.add(cv.mul(cv.Base, S), cv.neg(cv.add(R, cv.mul(A, hram))))
		k := 1
		for !d.eq(teIdentity()) && k <= 8 {
			d = cv.add(d, d)
			k *= 2
		}
		if k > 1 && k <= 8 {
			classes = append(classes, fmt.Sprintf("eddsa-defect-order:%d", k))
		}
	}
	if !cv.onCurve(A) || !cv.onCurve(R) {
		// the gadget documents no on-curve check of its own for A and R: only the
		// reject direction of the equation is meaningful; nothing is asserted
		return ev.Outcome{Discard: true, DiscardWhy: "eddsa: A or R off curve (outside the gadget's documented domain)"}
	}
	ci := &eddsaCircuit{id: cv.ID}
	as := &eddsaCircuit{id: cv.ID, Message: msg}
	as.PublicKey.A = twistededwards.Point{X: A.X, Y: A.Y}
	as.Signature.R = twistededwards.Point{X: R.X, Y: R.Y}
	as.Signature.S = S
	err, pan := engineSolved(ci, as, cv.Q)
	if pan != "" {
		return ev.Outcome{Violation: "[eddsa " + c.Curve + "] test engine panicked: " + pan}
	}
	if (err == nil) != want {
		return ev.Outcome{Violation: fmt.Sprintf("[eddsa %s mut=%s] circuit accepts=%v but the native cofactored equation accepts=%v (%s): %v", c.Curve, c.Mut, err == nil, want, why, err)}
	}
	return ev.Outcome{NonTrivial: !want || c.Mut != "valid", Classes: classes}
}

func eddsaGnarkCryptoBN254(A, R point, S, msg *big.Int) (accept bool, usable bool) {
	var pa, pr bn254te.PointAffine
	pa.X.SetBigInt(A.X)
	pa.Y.SetBigInt(A.Y)
	pr.X.SetBigInt(R.X)
	pr.Y.SetBigInt(R.Y)
	var pk bn254eddsa.PublicKey
	pk.A = pa
	rb := pr.Bytes()
	sig := make([]byte, 64)
	copy(sig[:32], rb[:])
	S.FillBytes(sig[32:])
	m := make([]byte, 32)
	msg.FillBytes(m)
	ok, err := pk.Verify(sig, m, gchash.MIMC_BN254.New())
	if err != nil {
		return false, false // refused at the encoding level (e.g. R encodes to zero)
	}
	return ok, true
}

type detReader struct {
	seed [32]byte
	ctr  uint64
	buf  []byte
}

func (d *detReader) Read(p []byte) (int, error) {
	for len(d.buf) < len(p) {
		h := sha256.Sum256(append(d.seed[:], u64(d.ctr)...))
		d.ctr++
		d.buf = append(d.buf, h[:]...)
	}
	copy(p, d.buf[:len(p)])
	d.buf = d.buf[len(p):]
	return len(p), nil
}

// signEdDSA produces a genuine gnark-crypto signature deterministically from a seed
// and cross-checks it with gnark-crypto's own verifier.
func signEdDSA(cv *teCurve, seed int, msg *big.Int) (A, R point, S *big.Int, err error) {
	rd := &detReader{seed: sha256.Sum256([]byte(fmt.Sprintf("eddsa-%s-%d", cv.Name, seed)))}
	var signer signature.Signer
	signer, err = gceddsa.New(cv.ID, rd)
	if err != nil {
		return
	}
	m := feBytes(cv, msg)
	var sig []byte
	sig, err = signer.Sign(m, cv.Hash.New())
	if err != nil {
		return
	}
	ok, verr := signer.Public().Verify(sig, m, cv.Hash.New())
	if verr != nil || !ok {
		err = fmt.Errorf("gnark-crypto rejects its own signature: %v", verr)
		return
	}
	var pk eddsa.PublicKey
	var sg eddsa.Signature
	pk.Assign(cv.ID, signer.Public().Bytes())
	sg.Assign(cv.ID, sig)
	tb := func(v frontend.Variable) *big.Int { return new(big.Int).SetBytes(v.([]byte)) }
	A = point{tb(pk.A.X), tb(pk.A.Y)}
	R = point{tb(sg.R.X), tb(sg.R.Y)}
	S = tb(sg.S)
	return
}

func genEdDSA(names []string) *rapid.Generator[EdDSACase] {
	return rapid.Custom(func(t *rapid.T) EdDSACase {
		name := rapid.SampledFrom(names).Draw(t, "curve")
		cv := teCurves[name]
		msg := randBelow(t, "msg", cv.Q)
		if rapid.IntRange(0, 9).Draw(t, "msg0") == 0 {
			msg.SetInt64(0)
		}
		A, R, S, err := signEdDSA(cv, rapid.IntRange(0, 1<<20).Draw(t, "key"), msg)
		if err != nil {
			t.Fatalf("harness: cannot sign: %v", err)
		}
		c := EdDSACase{Curve: name, Mut: rapid.SampledFrom([]string{"valid", "valid", "msg", "S+1", "S+order", "S=0", "S=order", "R-neg", "R-other", "R+low", "A-other", "A-neg", "A+low", "R=identity", "A=identity", "swap-RA", "own-sign", "own-sign-R+low", "own-sign-R+low", "own-sign-A+low", "own-sign-A+low"}).Draw(t, "mut")}
		low := cv.lowOrder()
		switch c.Mut {
		case "msg":
			msg = new(big.Int).Mod(new(big.Int).Add(msg, big.NewInt(1)), cv.Q)
		case "S+1":
			S = new(big.Int).Add(S, big.NewInt(1))
		case "S+order":
			// same group element [S]Base: the cofactored equation still holds (gnark-crypto's decoder would refuse S >= order)
			S = new(big.Int).Add(S, cv.Order)
		case "S=0":
			S = big.NewInt(0)
		case "S=order":
			S = new(big.Int).Set(cv.Order)
		case "R-neg":
			R = cv.neg(R)
		case "R-other":
			R = cv.derive("other-R")
		case "R+low":
			// adding a point of order dividing the cofactor keeps the cofactored equation valid
			R = cv.add(R, rapid.SampledFrom(low).Draw(t, "low"))
		case "A-other":
			A = cv.derive("other-A")
		case "A-neg":
			A = cv.neg(A)
		case "A+low":
			A = cv.add(A, rapid.SampledFrom(low).Draw(t, "low"))
		case "own-sign", "own-sign-R+low", "own-sign-A+low":
			// signatures made with the reference arithmetic: R (resp. A) carries a component of order
			// dividing the cofactor, so the equation holds only thanks to the cofactor clearing
			a := randBelow(t, "sk", cv.Order)
			rr := randBelow(t, "nonce", cv.Order)
			A = cv.mul(cv.Base, a)
			R = cv.mul(cv.Base, rr)
			if c.Mut == "own-sign-R+low" {
				R = cv.add(R, rapid.SampledFrom(low).Draw(t, "low"))
			}
			if c.Mut == "own-sign-A+low" {
				A = cv.add(A, rapid.SampledFrom(low).Draw(t, "low"))
			}
			h := cv.Hash.New()
			for _, v := range []*big.Int{R.X, R.Y, A.X, A.Y, msg} {
				h.Write(feBytes(cv, v))
			}
			hram := new(big.Int).SetBytes(h.Sum(nil))
			S = new(big.Int).Mul(hram, a)
			S.Add(S, rr).Mod(S, cv.Order)
		case "R=identity":
			R = teIdentity()
		case "A=identity":
			A = teIdentity()
		case "swap-RA":
			A, R = R, A
		}
		c.A, c.R, c.S, c.Msg = A.pt(), R.pt(), hx(S), hx(msg)
		return c
	})
}

func TestEdDSA(t *testing.T) {
	t.Parallel()
	rec := ev.Get(ID)
	rec.SetRule(rule)
	names := []string{"bn254", "bn254", "bls12-381"}
	if ev.Tier() == "thorough" {
		// every companion curve the gadget's Assign helpers support (Bandersnatch is not)
		names = append(names, "bls12-381", "bls12-377", "bw6-761", "bls24-315", "bls24-317", "bw6-633")
	}
	g := genEdDSA(names)
	checkSerial(rec, t, "eddsa", ev.N(60, 1500), func(rt *rapid.T) {
		c := g.Draw(rt, "case")
		rec.Begin("eddsa", c)
		rec.Report(rt, "eddsa", c, runEdDSA(c))
	})
}

// ---- hint adversary on the twisted Edwards fake-GLV scalar multiplication ------------

type TEAdvCase struct {
	Curve    string `json:"curve"`
	P        Pt     `json:"p"`
	S        string `json:"s"`
	Claim    string `json:"claim"`    // neg | addB | id | next | rand
	Strategy string `json:"strategy"` // baseline | point-only | zero-subscalars | flip-bit | perturb | zero-one | decomp-of-claim | free-k
	K        int    `json:"k"`
}

var (
	teAdvMu    sync.Mutex
	teAdvCache = map[string]prog.System{}
)

func runTEAdv(c TEAdvCase) ev.Outcome {
	cv := teCurves[c.Curve]
	if cv == nil {
		return ev.Outcome{Discard: true, DiscardWhy: "unknown curve"}
	}
	base, s := c.P.point(), unhx(c.S)
	if !cv.onCurve(base) || !teInSubgroup(cv, base) || s.Cmp(cv.Q) >= 0 {
		return ev.Outcome{Discard: true, DiscardWhy: "outside domain"}
	}
	honest := cv.mul(base, s)
	var claim point
	var sPrime *big.Int
	switch c.Claim {
	case "neg":
		claim = cv.neg(honest)
		sPrime = new(big.Int).Mod(new(big.Int).Neg(s), cv.Order)
	case "addB":
		claim = cv.add(honest, cv.Base)
	case "id":
		claim = teIdentity()
	case "next":
		sPrime = new(big.Int).Add(s, big.NewInt(1))
		claim = cv.mul(base, sPrime)
	default:
		claim = cv.derive("te-adv-claim")
	}
	if claim.eq(honest) {
		return ev.Outcome{Discard: true, DiscardWhy: "claimed output equals the native result"}
	}
	tc := &TECase{Curve: c.Curve, Op: "ScalarMul", Points: []Pt{c.P}, Scalars: []string{c.S}}
	f := fieldOf(cv.Q)
	teAdvMu.Lock()
	sys, ok := teAdvCache[c.Curve]
	if !ok {
		ci, _ := teBuild(tc, teIdentity())
		var err error
		sys, err = prog.Compile(f, prog.R1CS, ci)
		if err != nil {
			teAdvMu.Unlock()
			return ev.Outcome{Violation: "compile failed: " + err.Error()}
		}
		teAdvCache[c.Curve] = sys
	}
	teAdvMu.Unlock()
	where := fmt.Sprintf("[adversary twistededwards %s ScalarMul claim=%s strategy=%s k=%d]", c.Curve, c.Claim, c.Strategy, c.K)
	classes := []string{"te-adv-curve:" + c.Curve, "te-adv-claim:" + c.Claim, "te-adv-strategy:" + c.Strategy}
	if c.Strategy == "baseline" {
		_, as := teBuild(tc, honest)
		w, _ := prog.Witness(f, as)
		if _, err := prog.Solve(sys, w, solver.WithNbTasks(1)); err != nil {
			return ev.Outcome{Violation: fmt.Sprintf("[twistededwards %s ScalarMul] valid input not satisfiable with the native result (compiled R1CS): %v", c.Curve, trimErr(err))}
		}
	}
	_, as := teBuild(tc, claim)
	w, _ := prog.Witness(f, as)
	strat := func(call *hintadv.Call) bool {
		if c.Strategy == "baseline" || call.Err != nil {
			return false
		}
		switch hintadv.ShortName(call.Name) {
		case "twistededwards.scalarMulHint":
			call.Outputs[0].Set(claim.X)
			call.Outputs[1].Set(claim.Y)
			return true
		case "twistededwards.halfGCD":
			switch c.Strategy {
			case "zero-subscalars":
				for _, o := range call.Outputs {
					o.SetUint64(0)
				}
				return true
			case "flip-bit":
				call.Outputs[2].Xor(call.Outputs[2], big.NewInt(1))
				return true
			case "perturb":
				o := call.Outputs[c.K%len(call.Outputs)]
				o.Add(o, big.NewInt(1))
				return true
			case "zero-one":
				call.Outputs[c.K%len(call.Outputs)].SetUint64(0)
				return true
			case "decomp-of-claim", "free-k":
				if sPrime == nil || new(big.Int).Mod(sPrime, cv.Order).Sign() == 0 {
					return false
				}
				if h := hintByName(call.Name); h != nil {
					in := []*big.Int{new(big.Int).Set(sPrime), new(big.Int).Set(call.Inputs[1])}
					if h(call.Mod, in, call.Outputs) != nil {
						return false
					}
					if c.Strategy == "free-k" {
						// the overflow counter k is an unbounded native hint output: solve
						// s1 +- s2*s == k*Order in the native field for the *actual* scalar s
						t := new(big.Int).Mul(call.Outputs[1], s)
						if call.Outputs[2].Sign() != 0 {
							t.Neg(t)
						}
						t.Add(t, call.Outputs[0])
						t.Mul(t, new(big.Int).ModInverse(cv.Order, call.Mod))
						call.Outputs[3].Mod(t, call.Mod)
					}
					return true
				}
			}
		}
		return false
	}
	sess, opts := hintadv.Options(strat, func(name string) bool { return strings.Contains(name, "twistededwards.") })
	opts = append(opts, solver.WithNbTasks(1))
	_, serr := prog.Solve(sys, w, opts...)
	if serr == nil {
		return ev.Outcome{Violation: fmt.Sprintf("%s wrong claimed output (%s,%s) is satisfiable (native result (%s,%s)); %d hint invocations rewritten", where, hx(claim.X), hx(claim.Y), hx(honest.X), hx(honest.Y), sess.Changed)}
	}
	if isPanic(serr) {
		return ev.Outcome{Violation: where + " " + trimErr(serr)}
	}
	return ev.Outcome{NonTrivial: c.Strategy != "baseline" && sess.Changed > 0, Classes: append(classes, "te-adv-rejected")}
}

func TestAdversaryTwistedEdwards(t *testing.T) {
	t.Parallel()
	rec := ev.Get(ID)
	rec.SetRule(rule)
	names := []string{"bn254"}
	if ev.Tier() == "thorough" {
		names = append(names, "bls12-381", "bandersnatch", "bls12-377")
	}
	g := rapid.Custom(func(t *rapid.T) TEAdvCase {
		c := TEAdvCase{Curve: rapid.SampledFrom(names).Draw(t, "curve")}
		cv := teCurves[c.Curve]
		c.P = genTEPoint(cv, t, "p", nil, true).pt()
		c.S = genTEScalar(cv, t, "s")
		c.Claim = rapid.SampledFrom([]string{"neg", "addB", "id", "next", "rand"}).Draw(t, "claim")
		c.Strategy = rapid.SampledFrom([]string{"baseline", "point-only", "zero-subscalars", "flip-bit", "perturb", "zero-one", "decomp-of-claim", "free-k"}).Draw(t, "strategy")
		c.K = rapid.IntRange(0, 3).Draw(t, "k")
		return c
	})
	checkSerial(rec, t, "te-adv", ev.N(120, 2500), func(rt *rapid.T) {
		c := g.Draw(rt, "case")
		if sig := excludedTEAdvCase(&c); sig != "" {
			rec.Discarded("te-adv:excluded shape of open finding " + sig)
			return
		}
		rec.Report(rt, "te-adv", c, runTEAdv(c))
	})
}

var _ = bytes.Equal
var _ = ecc.BN254

package c16

// Pairing checks and subgroup membership assertions: emulated sw_bn254 and
// sw_bls12381 (over the bn254 scalar field), native sw_bls12377 (over BW6-761).
// Oracle: gnark-crypto PairingCheck / IsInSubGroup on the same points.

import (
	"fmt"
	"math/big"
	"sync"
	"testing"

	"verifharness/lib/ev"

	"github.com/consensys/gnark-crypto/ecc"
	bls12377 "github.com/consensys/gnark-crypto/ecc/bls12-377"
	bls12381 "github.com/consensys/gnark-crypto/ecc/bls12-381"
	"github.com/consensys/gnark-crypto/ecc/bn254"
	"github.com/consensys/gnark/frontend"
	"github.com/consensys/gnark/std/algebra/emulated/sw_bls12381"
	"github.com/consensys/gnark/std/algebra/emulated/sw_bn254"
	"github.com/consensys/gnark/std/algebra/native/sw_bls12377"
	"pgregory.net/rapid"
)

// PairCase. Kind "check": pairs (a_i*G1, b_i*G2) for the listed scalars plus a
// closing pair ((Delta - sum a_i b_i)*G1, G2): the product of pairings is 1 iff
// Delta = 0 (mod r). Kind "g1"/"g2": membership assertion on the point built
// from Seed (Member: k*G; otherwise an on-curve point outside the subgroup).
type PairCase struct {
	Curve  string   `json:"curve"` // bn254 bls12381 bls12377
	Kind   string   `json:"kind"`
	A      []string `json:"a"`
	B      []string `json:"b"`
	Delta  string   `json:"delta"`
	Seed   string   `json:"seed"`
	Member bool     `json:"member"`
}

type pairCircuitBN struct {
	kind string
	P    []sw_bn254.G1Affine
	Q    []sw_bn254.G2Affine
}

func (c *pairCircuitBN) Define(api frontend.API) error {
	pr, err := sw_bn254.NewPairing(api)
	if err != nil {
		return err
	}
	switch c.kind {
	case "g1":
		pr.AssertIsOnG1(&c.P[0])
	case "g2":
		pr.AssertIsOnG2(&c.Q[0])
	default:
		ps := make([]*sw_bn254.G1Affine, len(c.P))
		qs := make([]*sw_bn254.G2Affine, len(c.Q))
		for i := range c.P {
			ps[i], qs[i] = &c.P[i], &c.Q[i]
		}
		return pr.PairingCheck(ps, qs)
	}
	return nil
}

type pairCircuitBLS381 struct {
	kind string
	P    []sw_bls12381.G1Affine
	Q    []sw_bls12381.G2Affine
}

func (c *pairCircuitBLS381) Define(api frontend.API) error {
	pr, err := sw_bls12381.NewPairing(api)
	if err != nil {
		return err
	}
	switch c.kind {
	case "g1":
		pr.AssertIsOnG1(&c.P[0])
	case "g2":
		pr.AssertIsOnG2(&c.Q[0])
	default:
		ps := make([]*sw_bls12381.G1Affine, len(c.P))
		qs := make([]*sw_bls12381.G2Affine, len(c.Q))
		for i := range c.P {
			ps[i], qs[i] = &c.P[i], &c.Q[i]
		}
		return pr.PairingCheck(ps, qs)
	}
	return nil
}

type pairCircuit377 struct {
	kind string
	P    []sw_bls12377.G1Affine
	Q    []sw_bls12377.G2Affine
}

func (c *pairCircuit377) Define(api frontend.API) error {
	pr := sw_bls12377.NewPairing(api)
	switch c.kind {
	case "g1":
		pr.AssertIsOnG1(&c.P[0])
	case "g2":
		pr.AssertIsOnG2(&c.Q[0])
	default:
		ps := make([]*sw_bls12377.G1Affine, len(c.P))
		qs := make([]*sw_bls12377.G2Affine, len(c.Q))
		for i := range c.P {
			ps[i], qs[i] = &c.P[i], &c.Q[i]
		}
		return pr.PairingCheck(ps, qs)
	}
	return nil
}

// pairScalars expands the case into the scalars of the G1 / G2 points of a "check".
func pairScalars(c *PairCase, r *big.Int) (as, bs []*big.Int) {
	sum := new(big.Int)
	for i := range c.A {
		a, b := new(big.Int).Mod(unhx(c.A[i]), r), new(big.Int).Mod(unhx(c.B[i]), r)
		as, bs = append(as, a), append(bs, b)
		sum.Add(sum, new(big.Int).Mul(a, b))
	}
	last := new(big.Int).Sub(unhx(c.Delta), sum)
	as = append(as, last.Mod(last, r))
	bs = append(bs, big.NewInt(1))
	return
}

func pairOrder(curve string) *big.Int {
	switch curve {
	case "bn254":
		return ecc.BN254.ScalarField()
	case "bls12381":
		return ecc.BLS12_381.ScalarField()
	case "bls12377":
		return ecc.BLS12_377.ScalarField()
	}
	return nil
}

func runPair(c PairCase) ev.Outcome {
	r := pairOrder(c.Curve)
	if r == nil {
		return ev.Outcome{Discard: true, DiscardWhy: "unknown curve"}
	}
	if len(c.A) != len(c.B) {
		return ev.Outcome{Discard: true, DiscardWhy: "bad shape"}
	}
	classes := []string{"pair-curve:" + c.Curve, "pair-kind:" + c.Kind}
	var native bool
	var ci, as frontend.Circuit
	field := ecc.BN254.ScalarField()
	seed := unhx(c.Seed)
	k := new(big.Int).Add(new(big.Int).Mod(seed, new(big.Int).Sub(r, big.NewInt(2))), big.NewInt(1))
	var aS, bS []*big.Int
	if c.Kind == "check" {
		aS, bS = pairScalars(&c, r)
		for i := range aS {
			if aS[i].Sign() == 0 || bS[i].Sign() == 0 {
				return ev.Outcome{Discard: true, DiscardWhy: "pairing: point at infinity (Miller loop documents no support)"}
			}
		}
		classes = append(classes, fmt.Sprintf("pair-n:%d", len(aS)))
	}
	switch c.Curve {
	case "bn254":
		_, _, g1, g2 := bn254.Generators()
		cc := &pairCircuitBN{kind: c.Kind}
		aa := &pairCircuitBN{kind: c.Kind}
		switch c.Kind {
		case "check":
			var P []bn254.G1Affine
			var Q []bn254.G2Affine
			for i := range aS {
				var p bn254.G1Affine
				var q bn254.G2Affine
				p.ScalarMultiplication(&g1, aS[i])
				q.ScalarMultiplication(&g2, bS[i])
				P, Q = append(P, p), append(Q, q)
				aa.P, aa.Q = append(aa.P, sw_bn254.NewG1Affine(p)), append(aa.Q, sw_bn254.NewG2Affine(q))
			}
			ok, err := bn254.PairingCheck(P, Q)
			native = ok && err == nil
		case "g1":
			// BN254 G1 has cofactor 1: every curve point is a member; non-members are off-curve points
			var p bn254.G1Affine
			p.ScalarMultiplication(&g1, k)
			if !c.Member {
				p.X.SetBigInt(new(big.Int).Add(p.X.BigInt(new(big.Int)), big.NewInt(1)))
			}
			native = p.IsOnCurve() && p.IsInSubGroup()
			aa.P = []sw_bn254.G1Affine{sw_bn254.NewG1Affine(p)}
		case "g2":
			var q bn254.G2Affine
			if c.Member {
				q.ScalarMultiplication(&g2, k)
			} else {
				var u bn254.E2
				u.A0.SetBigInt(seed)
				u.A1.SetBigInt(new(big.Int).Add(seed, big.NewInt(7)))
				q = bn254.MapToCurve2(&u)
			}
			native = q.IsOnCurve() && q.IsInSubGroup()
			if !q.IsOnCurve() {
				return ev.Outcome{Discard: true, DiscardWhy: "g2: off-curve point"}
			}
			aa.Q = []sw_bn254.G2Affine{sw_bn254.NewG2Affine(q)}
		}
		cc.P, cc.Q = make([]sw_bn254.G1Affine, len(aa.P)), make([]sw_bn254.G2Affine, len(aa.Q))
		ci, as = cc, aa
	case "bls12381":
		_, _, g1, g2 := bls12381.Generators()
		cc := &pairCircuitBLS381{kind: c.Kind}
		aa := &pairCircuitBLS381{kind: c.Kind}
		switch c.Kind {
		case "check":
			var P []bls12381.G1Affine
			var Q []bls12381.G2Affine
			for i := range aS {
				var p bls12381.G1Affine
				var q bls12381.G2Affine
				p.ScalarMultiplication(&g1, aS[i])
				q.ScalarMultiplication(&g2, bS[i])
				P, Q = append(P, p), append(Q, q)
				aa.P, aa.Q = append(aa.P, sw_bls12381.NewG1Affine(p)), append(aa.Q, sw_bls12381.NewG2Affine(q))
			}
			ok, err := bls12381.PairingCheck(P, Q)
			native = ok && err == nil
		case "g1":
			cv := curves["bls12381"]
			pt := cv.mul(cv.G, k)
			if !c.Member {
				pt = cv.add(pt, cv.LowOrder[int(seed.Bit(0))])
			}
			var p bls12381.G1Affine
			p.X.SetBigInt(pt.X)
			p.Y.SetBigInt(pt.Y)
			native = p.IsOnCurve() && p.IsInSubGroup()
			aa.P = []sw_bls12381.G1Affine{sw_bls12381.NewG1Affine(p)}
		case "g2":
			var q bls12381.G2Affine
			q.ScalarMultiplication(&g2, k)
			if !c.Member {
				// an on-twist point outside G2: solve y^2 = x^3 + b' over Fp2 (b' recovered from the generator)
				bt := g2.Y
				bt.Square(&bt)
				x3 := g2.X
				x3.Square(&x3).Mul(&x3, &g2.X)
				bt.Sub(&bt, &x3)
				found := false
				for i := int64(0); i < 64 && !found; i++ {
					q.X.A0.SetBigInt(new(big.Int).Add(seed, big.NewInt(i)))
					q.X.A1.SetBigInt(new(big.Int).Add(seed, big.NewInt(3)))
					rhs := q.X
					rhs.Square(&rhs).Mul(&rhs, &q.X).Add(&rhs, &bt)
					if rhs.Legendre() == 1 {
						q.Y.Sqrt(&rhs)
						found = true
					}
				}
				if !found || !q.IsOnCurve() {
					return ev.Outcome{Discard: true, DiscardWhy: "g2: no twist point found"}
				}
			}
			native = q.IsOnCurve() && q.IsInSubGroup()
			aa.Q = []sw_bls12381.G2Affine{sw_bls12381.NewG2Affine(q)}
		}
		cc.P, cc.Q = make([]sw_bls12381.G1Affine, len(aa.P)), make([]sw_bls12381.G2Affine, len(aa.Q))
		ci, as = cc, aa
	case "bls12377":
		field = ecc.BW6_761.ScalarField()
		_, _, g1, g2 := bls12377.Generators()
		cc := &pairCircuit377{kind: c.Kind}
		aa := &pairCircuit377{kind: c.Kind}
		switch c.Kind {
		case "check":
			var P []bls12377.G1Affine
			var Q []bls12377.G2Affine
			for i := range aS {
				var p bls12377.G1Affine
				var q bls12377.G2Affine
				p.ScalarMultiplication(&g1, aS[i])
				q.ScalarMultiplication(&g2, bS[i])
				P, Q = append(P, p), append(Q, q)
				aa.P, aa.Q = append(aa.P, sw_bls12377.NewG1Affine(p)), append(aa.Q, sw_bls12377.NewG2Affine(q))
			}
			ok, err := bls12377.PairingCheck(P, Q)
			native = ok && err == nil
		case "g1":
			cv := curves["bls12377"]
			pt := cv.mul(cv.G, k)
			if !c.Member {
				pt = cv.add(pt, cv.LowOrder[int(seed.Bit(0))])
			}
			var p bls12377.G1Affine
			p.X.SetBigInt(pt.X)
			p.Y.SetBigInt(pt.Y)
			native = p.IsOnCurve() && p.IsInSubGroup()
			aa.P = []sw_bls12377.G1Affine{sw_bls12377.NewG1Affine(p)}
		case "g2":
			var q bls12377.G2Affine
			q.ScalarMultiplication(&g2, k)
			if !c.Member {
				bt := g2.Y
				bt.Square(&bt)
				x3 := g2.X
				x3.Square(&x3).Mul(&x3, &g2.X)
				bt.Sub(&bt, &x3)
				found := false
				for i := int64(0); i < 64 && !found; i++ {
					q.X.A0.SetBigInt(new(big.Int).Add(seed, big.NewInt(i)))
					q.X.A1.SetBigInt(new(big.Int).Add(seed, big.NewInt(3)))
					rhs := q.X
					rhs.Square(&rhs).Mul(&rhs, &q.X).Add(&rhs, &bt)
					if rhs.Legendre() == 1 {
						q.Y.Sqrt(&rhs)
						found = true
					}
				}
				if !found || !q.IsOnCurve() {
					return ev.Outcome{Discard: true, DiscardWhy: "g2: no twist point found"}
				}
			}
			native = q.IsOnCurve() && q.IsInSubGroup()
			aa.Q = []sw_bls12377.G2Affine{sw_bls12377.NewG2Affine(q)}
		}
		cc.P, cc.Q = make([]sw_bls12377.G1Affine, len(aa.P)), make([]sw_bls12377.G2Affine, len(aa.Q))
		ci, as = cc, aa
	}
	if c.Kind == "check" {
		if want := new(big.Int).Mod(unhx(c.Delta), r).Sign() == 0; want != native {
			return ev.Outcome{Discard: true, DiscardWhy: "harness: native pairing check disagrees with bilinearity"}
		}
	} else if native != c.Member {
		return ev.Outcome{Discard: true, DiscardWhy: "harness: constructed point has unexpected membership"}
	}
	classes = append(classes, fmt.Sprintf("pair-native:%v", native))
	err, pan := engineSolved(ci, as, field)
	if pan != "" {
		return ev.Outcome{Violation: fmt.Sprintf("[pairing %s %s] test engine panicked: %s", c.Curve, c.Kind, pan)}
	}
	if (err == nil) != native {
		return ev.Outcome{Violation: fmt.Sprintf("[pairing %s %s] circuit accepts=%v but gnark-crypto says %v: %v", c.Curve, c.Kind, err == nil, native, err)}
	}
	exceptional := !native
	for _, s := range append(append([]string{}, c.A...), c.B...) {
		v := new(big.Int).Mod(unhx(s), r)
		if v.Cmp(big.NewInt(1)) == 0 || v.Cmp(new(big.Int).Sub(r, big.NewInt(1))) == 0 {
			exceptional = true
			classes = append(classes, "pair-sc:+-1")
		}
	}
	return ev.Outcome{NonTrivial: exceptional, Classes: classes}
}

func genPair(curvesAndKinds [][2]string) *rapid.Generator[PairCase] {
	return rapid.Custom(func(t *rapid.T) PairCase {
		ck := rapid.SampledFrom(curvesAndKinds).Draw(t, "target")
		c := PairCase{Curve: ck[0], Kind: ck[1]}
		r := map[string]*big.Int{"bn254": ecc.BN254.ScalarField(), "bls12381": ecc.BLS12_381.ScalarField(), "bls12377": ecc.BLS12_377.ScalarField()}[c.Curve]
		sc := func(label string) string {
			switch rapid.SampledFrom([]string{"rand", "rand", "1", "r-1", "2"}).Draw(t, label+"-kind") {
			case "1":
				return "1"
			case "2":
				return "2"
			case "r-1":
				return hx(new(big.Int).Sub(r, big.NewInt(1)))
			}
			v := randBelow(t, label, new(big.Int).Sub(r, big.NewInt(1)))
			return hx(v.Add(v, big.NewInt(1)))
		}
		if c.Kind == "check" {
			n := rapid.SampledFrom([]int{1, 1, 1, 2, 3}).Draw(t, "n")
			for i := 0; i < n; i++ {
				c.A = append(c.A, sc(fmt.Sprintf("a%d", i)))
				c.B = append(c.B, sc(fmt.Sprintf("b%d", i)))
			}
			switch rapid.SampledFrom([]string{"0", "0", "1", "r-1", "rand"}).Draw(t, "delta") {
			case "0":
				c.Delta = "0"
			case "1":
				c.Delta = "1"
			case "r-1":
				c.Delta = hx(new(big.Int).Sub(r, big.NewInt(1)))
			default:
				c.Delta = sc("delta-v")
			}
		} else {
			c.Seed = hx(randBelow(t, "seed", r))
			c.Member = rapid.Bool().Draw(t, "member")
		}
		return c
	})
}

func pairProperty(t *testing.T, targets [][2]string, quick, thorough int) {
	rec := ev.Get(ID)
	rec.SetRule(rule)
	g := genPair(targets)
	checkSerial(rec, t, "pairing", ev.N(quick, thorough), func(rt *rapid.T) {
		c := g.Draw(rt, "case")
		if sig := excludedPair(&c, pairOrder(c.Curve)); sig != "" {
			rec.Discarded("pairing:excluded shape of open finding " + sig)
			return
		}
		rec.Begin("pairing", c)
		rec.Report(rt, "pairing", c, runPair(c))
	})
}

func TestPairingNative377(t *testing.T) {
	t.Parallel()
	pairProperty(t, [][2]string{{"bls12377", "check"}, {"bls12377", "check"}, {"bls12377", "g1"}, {"bls12377", "g2"}}, 24, 600)
}

// pairTable is the deterministic minimum every run covers on a curve: both
// membership verdicts for G1 and G2 (pairing equations: see the sweep over the number of pairs).
func pairTable(curve string) []PairCase {
	return []PairCase{
		{Curve: curve, Kind: "g1", Seed: "1234567", Member: true},
		{Curve: curve, Kind: "g1", Seed: "1234568", Member: false},
		{Curve: curve, Kind: "g2", Seed: "89abcdef", Member: true},
		{Curve: curve, Kind: "g2", Seed: "89abcdf1", Member: false},
		// true / false equations for every number of pairs: pairsweep_test.go
	}
}

func TestPairingEmulated(t *testing.T) {
	t.Parallel()
	rec := ev.Get(ID)
	rec.SetRule(rule)
	var wg sync.WaitGroup
	tableCurves := []string{"bn254", "bls12381"}
	if !firstShard() {
		tableCurves = nil
	}
	for _, curve := range tableCurves {
		wg.Add(1)
		go func(curve string) {
			defer wg.Done()
			for _, c := range pairTable(curve) {
				if sig := excludedPair(&c, pairOrder(c.Curve)); sig != "" {
					rec.Discarded("pairing:excluded shape of open finding " + sig)
					continue
				}
				o := runPair(c)
				switch {
				case o.Discard:
					rec.Discarded("pairing:" + o.DiscardWhy)
				case o.Violation != "":
					p := rec.Violate("pairing", c, o.Violation)
					t.Errorf("VIOLATION %s kind=pairing replay=%s: %s", ID, p, trunc(o.Violation, 1200))
					return
				default:
					rec.Count("pairing", c, o.NonTrivial, append(o.Classes, "source:table")...)
				}
			}
		}(curve)
	}
	wg.Wait()
	if ev.Tier() == "thorough" && !t.Failed() {
		pairProperty(t, [][2]string{{"bn254", "check"}, {"bn254", "g2"}, {"bn254", "g1"}, {"bls12381", "check"}, {"bls12381", "g1"}, {"bls12381", "g2"}}, 1, 64)
	}
}

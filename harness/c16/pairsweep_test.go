package c16

// Number-of-pairs sweep over every pairing gadget and every multi-pair entry
// point: native sw_bls12377 (over BW6-761) and sw_bls24315 (over BW6-633),
// emulated sw_bn254 / sw_bls12381 / sw_bw6761 (over the bn254 scalar field).
// Entry points: the package-level MillerLoop + FinalExponentiation, Pair and
// PairingCheck of the native packages, the methods of the `Pairing` object
// (through algebra.GetPairing, i.e. exactly what the generic recursion code
// uses), the fixed-argument (precomputed lines) G2 variant, and the EVM
// ECPair / ECPairBLS chains. Distinct pairs (a_i*G1, b_i*G2) derived from the
// case seed. Oracle: gnark-crypto's Pair (result equality) and PairingCheck
// (a true instance, sum a_i*b_i = 0, must be satisfiable; a false one must not).

import (
	"crypto/sha256"
	"fmt"
	"math/big"
	"sync"
	"testing"

	"verifharness/lib/ev"

	"github.com/consensys/gnark-crypto/ecc"
	bls12377 "github.com/consensys/gnark-crypto/ecc/bls12-377"
	bls12381 "github.com/consensys/gnark-crypto/ecc/bls12-381"
	bls24315 "github.com/consensys/gnark-crypto/ecc/bls24-315"
	"github.com/consensys/gnark-crypto/ecc/bn254"
	bw6761 "github.com/consensys/gnark-crypto/ecc/bw6-761"
	"github.com/consensys/gnark/frontend"
	"github.com/consensys/gnark/std/algebra"
	"github.com/consensys/gnark/std/algebra/emulated/sw_bls12381"
	"github.com/consensys/gnark/std/algebra/emulated/sw_bn254"
	"github.com/consensys/gnark/std/algebra/emulated/sw_bw6761"
	"github.com/consensys/gnark/std/algebra/native/sw_bls12377"
	"github.com/consensys/gnark/std/algebra/native/sw_bls24315"
	"github.com/consensys/gnark/std/evmprecompiles"
)

// PairSweepCase fully determines one execution.
type PairSweepCase struct {
	Gadget string `json:"gadget"` // sw_bls12377 sw_bls24315 sw_bn254 sw_bls12381 sw_bw6761
	Entry  string `json:"entry"`
	N      int    `json:"n"`
	Valid  bool   `json:"valid"` // check entries: the product is one; result entries: the claimed result is the native one
	Seed   string `json:"seed"`
}

const (
	entPkgPair     = "pkg.Pair"
	entPkgMLFE     = "pkg.MillerLoop+FinalExponentiation"
	entPkgCheck    = "pkg.PairingCheck"
	entObjPair     = "Pairing.Pair"
	entObjMLFE     = "Pairing.MillerLoop+FinalExponentiation"
	entObjCheck    = "Pairing.PairingCheck"
	entObjPairFix  = "Pairing.Pair(fixedQ)"
	entObjCheckFix = "Pairing.PairingCheck(fixedQ)"
	entECPair      = "evmprecompiles.ECPair"
)

func isCheckEntry(e string) bool {
	return e == entPkgCheck || e == entObjCheck || e == entObjCheckFix || e == entECPair
}

// pkgLevel are the package-level functions of a native pairing package.
type pkgLevel[C1, C2, CT any] struct {
	MillerLoop   func(api frontend.API, P []C1, Q []C2) (CT, error)
	FinalExp     func(api frontend.API, e CT) CT
	Pair         func(api frontend.API, P []C1, Q []C2) (CT, error)
	PairingCheck func(api frontend.API, P []C1, Q []C2) error
	ECPair       func(api frontend.API, P []*C1, Q []*C2) // evmprecompiles chain (emulated bn254 / bls12-381)
}

type sweepCircuit[C1, C2, CT any] struct {
	entry string
	pkg   *pkgLevel[C1, C2, CT] // behind a pointer: the test engine clones the circuit value

	P   []C1
	Q   []C2
	Exp CT
}

func (c *sweepCircuit[C1, C2, CT]) Define(api frontend.API) error {
	pr, err := algebra.GetPairing[C1, C2, CT](api)
	if err != nil {
		return err
	}
	ps := make([]*C1, len(c.P))
	qs := make([]*C2, len(c.Q))
	for i := range c.P {
		ps[i], qs[i] = &c.P[i], &c.Q[i]
	}
	switch c.entry {
	case entObjPair, entObjPairFix:
		res, err := pr.Pair(ps, qs)
		if err != nil {
			return err
		}
		pr.AssertIsEqual(res, &c.Exp)
	case entObjMLFE:
		ml, err := pr.MillerLoop(ps, qs)
		if err != nil {
			return err
		}
		pr.AssertIsEqual(pr.FinalExponentiation(ml), &c.Exp)
	case entObjCheck, entObjCheckFix:
		return pr.PairingCheck(ps, qs)
	case entPkgPair:
		res, err := c.pkg.Pair(api, c.P, c.Q)
		if err != nil {
			return err
		}
		pr.AssertIsEqual(&res, &c.Exp)
	case entPkgMLFE:
		ml, err := c.pkg.MillerLoop(api, c.P, c.Q)
		if err != nil {
			return err
		}
		res := c.pkg.FinalExp(api, ml)
		pr.AssertIsEqual(&res, &c.Exp)
	case entPkgCheck:
		return c.pkg.PairingCheck(api, c.P, c.Q)
	case entECPair:
		c.pkg.ECPair(api, ps, qs)
	default:
		return fmt.Errorf("unknown entry %s", c.entry)
	}
	return nil
}

type affPtr[T any] interface {
	*T
	ScalarMultiplication(*T, *big.Int) *T
}

type sweepGadget struct {
	name    string
	entries []string
	run     func(c PairSweepCase) ev.Outcome
}

func sweepScalar(c *PairSweepCase, r *big.Int, label string, i int) *big.Int {
	h := sha256.Sum256([]byte(fmt.Sprintf("pairsweep|%s|%s|%s|%d", c.Gadget, c.Seed, label, i)))
	h2 := sha256.Sum256(h[:])
	v := new(big.Int).SetBytes(append(h[:], h2[:]...))
	v.Mod(v, new(big.Int).Sub(r, big.NewInt(2)))
	return v.Add(v, big.NewInt(1))
}

func newSweepGadget[N1 any, P1 affPtr[N1], N2 any, P2 affPtr[N2], NT any, C1, C2, CT any](
	name string, field, r *big.Int, g1 N1, g2 N2,
	pair func([]N1, []N2) (NT, error), check func([]N1, []N2) (bool, error),
	w1 func(N1) C1, w2 func(N2) C2, w2fixed func(N2) C2, placeholder func() C2, wt func(NT) CT,
	pkg *pkgLevel[C1, C2, CT], entries []string) *sweepGadget {
	g := &sweepGadget{name: name, entries: entries}
	g.run = func(c PairSweepCase) ev.Outcome {
		if c.N < 1 || c.N > 8 {
			return ev.Outcome{Discard: true, DiscardWhy: "bad n"}
		}
		chk := isCheckEntry(c.Entry)
		if chk && c.Valid && c.N == 1 {
			return ev.Outcome{Discard: true, DiscardWhy: "a one-pair product equal to one needs the point at infinity"}
		}
		if c.Entry == entECPair && c.N < 2 {
			return ev.Outcome{Discard: true, DiscardWhy: "ECPair documents at least two pairs"}
		}
		as := make([]*big.Int, c.N)
		bs := make([]*big.Int, c.N)
		sum := new(big.Int)
		for i := 0; i < c.N; i++ {
			as[i], bs[i] = sweepScalar(&c, r, "a", i), sweepScalar(&c, r, "b", i)
			if chk && c.Valid && i == c.N-1 {
				// closing pair: a_last * b_last = -sum
				inv := new(big.Int).ModInverse(bs[i], r)
				as[i] = new(big.Int).Mul(new(big.Int).Neg(sum), inv)
				as[i].Mod(as[i], r)
				if as[i].Sign() == 0 {
					return ev.Outcome{Discard: true, DiscardWhy: "closing pair would be the point at infinity"}
				}
			}
			sum.Add(sum, new(big.Int).Mul(as[i], bs[i]))
		}
		P := make([]N1, c.N)
		Q := make([]N2, c.N)
		for i := 0; i < c.N; i++ {
			P1(&P[i]).ScalarMultiplication(&g1, as[i])
			P2(&Q[i]).ScalarMultiplication(&g2, bs[i])
		}
		want, err := pair(P, Q)
		if err != nil {
			return ev.Outcome{Discard: true, DiscardWhy: "harness: native Pair failed"}
		}
		claimed := want
		if !chk && !c.Valid {
			// wrong claimed result: the pairing of the list without its last pair (n = 1: of another pair)
			if c.N > 1 {
				claimed, err = pair(P[:c.N-1], Q[:c.N-1])
			} else {
				var p2 N1
				P1(&p2).ScalarMultiplication(&g1, new(big.Int).Add(as[0], big.NewInt(1)))
				claimed, err = pair([]N1{p2}, Q)
			}
			if err != nil {
				return ev.Outcome{Discard: true, DiscardWhy: "harness: native Pair failed"}
			}
		}
		if chk {
			ok, err := check(P, Q)
			if err != nil || ok != c.Valid {
				return ev.Outcome{Discard: true, DiscardWhy: "harness: native PairingCheck disagrees with the construction"}
			}
		}
		fixed := c.Entry == entObjPairFix || c.Entry == entObjCheckFix
		ci := &sweepCircuit[C1, C2, CT]{entry: c.Entry, pkg: pkg, P: make([]C1, c.N), Q: make([]C2, c.N)}
		aa := &sweepCircuit[C1, C2, CT]{entry: c.Entry, pkg: pkg, P: make([]C1, c.N), Q: make([]C2, c.N), Exp: wt(claimed)}
		for i := 0; i < c.N; i++ {
			aa.P[i] = w1(P[i])
			if fixed {
				ci.Q[i] = placeholder()
				aa.Q[i] = w2fixed(Q[i])
			} else {
				aa.Q[i] = w2(Q[i])
			}
		}
		e, pan := engineSolved(ci, aa, field)
		where := fmt.Sprintf("[pairing %s %s n=%d valid=%v]", c.Gadget, c.Entry, c.N, c.Valid)
		if pan != "" {
			return ev.Outcome{Violation: where + " test engine panicked: " + pan}
		}
		if (e == nil) != c.Valid {
			if c.Valid {
				what := "the result of gnark-crypto's Pair on the same points is rejected"
				if chk {
					what = "gnark-crypto's PairingCheck holds on the same points but the circuit is unsatisfiable"
				}
				return ev.Outcome{Violation: fmt.Sprintf("%s %s: %v", where, what, trimErr(e))}
			}
			return ev.Outcome{Violation: where + " a false pairing equation / wrong claimed result is accepted"}
		}
		return ev.Outcome{NonTrivial: !c.Valid || c.N >= 3, Classes: []string{
			fmt.Sprintf("pairing:%s:%s:n=%d", c.Gadget, c.Entry, c.N), fmt.Sprintf("pairing-sweep-valid:%v", c.Valid)}}
	}
	return g
}

var (
	sweepOnce    sync.Once
	sweepGadgets map[string]*sweepGadget
)

func gadgets() map[string]*sweepGadget {
	sweepOnce.Do(func() {
		nativeEntries := []string{entPkgPair, entPkgMLFE, entPkgCheck, entObjPair, entObjMLFE, entObjCheck, entObjPairFix, entObjCheckFix}
		sweepGadgets = map[string]*sweepGadget{}
		{
			_, _, g1, g2 := bls12377.Generators()
			sweepGadgets["sw_bls12377"] = newSweepGadget("sw_bls12377", ecc.BW6_761.ScalarField(), ecc.BLS12_377.ScalarField(), g1, g2,
				bls12377.Pair, bls12377.PairingCheck, sw_bls12377.NewG1Affine, sw_bls12377.NewG2Affine, sw_bls12377.NewG2AffineFixed,
				sw_bls12377.NewG2AffineFixedPlaceholder, sw_bls12377.NewGTEl,
				&pkgLevel[sw_bls12377.G1Affine, sw_bls12377.G2Affine, sw_bls12377.GT]{MillerLoop: sw_bls12377.MillerLoop, FinalExp: sw_bls12377.FinalExponentiation,
					Pair: sw_bls12377.Pair, PairingCheck: sw_bls12377.PairingCheck}, nativeEntries)
		}
		{
			_, _, g1, g2 := bls24315.Generators()
			sweepGadgets["sw_bls24315"] = newSweepGadget("sw_bls24315", ecc.BW6_633.ScalarField(), ecc.BLS24_315.ScalarField(), g1, g2,
				bls24315.Pair, bls24315.PairingCheck, sw_bls24315.NewG1Affine, sw_bls24315.NewG2Affine, sw_bls24315.NewG2AffineFixed,
				sw_bls24315.NewG2AffineFixedPlaceholder, sw_bls24315.NewGTEl,
				&pkgLevel[sw_bls24315.G1Affine, sw_bls24315.G2Affine, sw_bls24315.GT]{MillerLoop: sw_bls24315.MillerLoop, FinalExp: sw_bls24315.FinalExponentiation,
					Pair: sw_bls24315.Pair, PairingCheck: sw_bls24315.PairingCheck}, nativeEntries)
		}
		emu := []string{entObjPair, entObjMLFE, entObjCheck, entObjCheckFix}
		{
			_, _, g1, g2 := bn254.Generators()
			sweepGadgets["sw_bn254"] = newSweepGadget("sw_bn254", ecc.BN254.ScalarField(), ecc.BN254.ScalarField(), g1, g2,
				bn254.Pair, bn254.PairingCheck, sw_bn254.NewG1Affine, sw_bn254.NewG2Affine, sw_bn254.NewG2AffineFixed,
				sw_bn254.NewG2AffineFixedPlaceholder, sw_bn254.NewGTEl,
				&pkgLevel[sw_bn254.G1Affine, sw_bn254.G2Affine, sw_bn254.GTEl]{ECPair: func(api frontend.API, P []*sw_bn254.G1Affine, Q []*sw_bn254.G2Affine) {
					evmprecompiles.ECPair(api, P, Q)
				}}, append(append([]string{}, emu...), entECPair))
		}
		{
			_, _, g1, g2 := bls12381.Generators()
			sweepGadgets["sw_bls12381"] = newSweepGadget("sw_bls12381", ecc.BN254.ScalarField(), ecc.BLS12_381.ScalarField(), g1, g2,
				bls12381.Pair, bls12381.PairingCheck, sw_bls12381.NewG1Affine, sw_bls12381.NewG2Affine, sw_bls12381.NewG2AffineFixed,
				sw_bls12381.NewG2AffineFixedPlaceholder, sw_bls12381.NewGTEl,
				&pkgLevel[sw_bls12381.G1Affine, sw_bls12381.G2Affine, sw_bls12381.GTEl]{ECPair: func(api frontend.API, P []*sw_bls12381.G1Affine, Q []*sw_bls12381.G2Affine) {
					evmprecompiles.ECPairBLS(api, P, Q)
				}}, append(append([]string{}, emu...), entECPair))
		}
		{
			_, _, g1, g2 := bw6761.Generators()
			sweepGadgets["sw_bw6761"] = newSweepGadget("sw_bw6761", ecc.BN254.ScalarField(), ecc.BW6_761.ScalarField(), g1, g2,
				bw6761.Pair, bw6761.PairingCheck, sw_bw6761.NewG1Affine, sw_bw6761.NewG2Affine, sw_bw6761.NewG2AffineFixed,
				sw_bw6761.NewG2AffineFixedPlaceholder, sw_bw6761.NewGTEl, nil, emu)
		}
	})
	return sweepGadgets
}

func runPairSweep(c PairSweepCase) ev.Outcome {
	g := gadgets()[c.Gadget]
	if g == nil {
		return ev.Outcome{Discard: true, DiscardWhy: "unknown gadget"}
	}
	return g.run(c)
}

// sweepCases enumerates gadget x entry x n (x valid) for the tier. lean (emulated gadgets in the quick tier,
// where one run costs seconds): every entry still sees every n with a satisfiable instance; the negative
// instances and the entries that share their code with another one are thinned out.
func sweepCases(gadget string, maxN int, withWrongResult, lean bool) []PairSweepCase {
	g := gadgets()[gadget]
	seed := fmt.Sprintf("%x", ev.Seed()*131+uint64(ev.Shard()))
	var cs []PairSweepCase
	for _, e := range g.entries {
		for n := 1; n <= maxN; n++ {
			if isCheckEntry(e) {
				switch {
				case !lean, e == entObjCheck, e == entObjCheckFix && n == 3, e == entECPair && n%2 == 0:
					cs = append(cs, PairSweepCase{gadget, e, n, true, seed})
				}
				if !lean || ((e == entObjCheck || e == entECPair) && n == 2) {
					cs = append(cs, PairSweepCase{gadget, e, n, false, seed})
				}
				continue
			}
			if lean && e == entObjMLFE && n != 2 {
				continue // Pair is literally MillerLoop followed by FinalExponentiation: Pair carries the sweep over n
			}
			cs = append(cs, PairSweepCase{gadget, e, n, true, seed})
			if withWrongResult {
				cs = append(cs, PairSweepCase{gadget, e, n, false, seed})
			}
		}
	}
	return cs
}

func sweepTest(t *testing.T, gadget string, quickN, thoroughN int, withWrongResult bool, workers int) {
	rec := ev.Get(ID)
	rec.SetRule(rule)
	maxN := quickN
	if ev.Tier() == "thorough" {
		maxN = thoroughN
		if !firstShard() && ev.Shard() > 2 {
			return // the sweep is an enumeration: three differently seeded shards are enough
		}
	}
	cases := sweepCases(gadget, maxN, withWrongResult, !withWrongResult && ev.Tier() != "thorough")
	var wg sync.WaitGroup
	var mu sync.Mutex
	failed := false
	ch := make(chan PairSweepCase)
	for w := 0; w < workers; w++ {
		wg.Add(1)
		go func() {
			defer wg.Done()
			for c := range ch {
				o := runPairSweep(c)
				switch {
				case o.Discard:
					rec.Discarded("pairing-sweep:" + o.DiscardWhy)
				case o.Violation != "":
					p := rec.Violate("pairing-sweep", c, o.Violation)
					mu.Lock()
					failed = true
					mu.Unlock()
					t.Errorf("VIOLATION %s kind=pairing-sweep replay=%s: %s", ID, p, trunc(o.Violation, 1200))
				default:
					rec.Count("pairing-sweep", c, o.NonTrivial, o.Classes...)
				}
			}
		}()
	}
	for _, c := range cases {
		mu.Lock()
		f := failed
		mu.Unlock()
		if f {
			break
		}
		ch <- c
	}
	close(ch)
	wg.Wait()
}

func TestPairingSweepNative377(t *testing.T) {
	t.Parallel()
	sweepTest(t, "sw_bls12377", 6, 8, true, 2)
}
func TestPairingSweepNative315(t *testing.T) {
	t.Parallel()
	sweepTest(t, "sw_bls24315", 6, 8, true, 2)
}
func TestPairingSweepBN254(t *testing.T) { t.Parallel(); sweepTest(t, "sw_bn254", 4, 6, false, 1) }
func TestPairingSweepBLS12381(t *testing.T) {
	t.Parallel()
	sweepTest(t, "sw_bls12381", 4, 6, false, 1)
}
func TestPairingSweepBW6761(t *testing.T) { t.Parallel(); sweepTest(t, "sw_bw6761", 4, 6, false, 2) }

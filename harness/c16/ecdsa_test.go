package c16

// ECDSA gadget (std/signature/ecdsa) on secp256k1, P-256 and P-384: the circuit
// is satisfiable iff the native verifier (gnark-crypto ecdsa for secp256k1,
// crypto/ecdsa for the NIST curves) accepts.

import (
	stdecdsa "crypto/ecdsa"
	"crypto/elliptic"
	"fmt"
	"math/big"
	"testing"

	"verifharness/lib/ev"

	"github.com/consensys/gnark-crypto/ecc"
	gcsecp "github.com/consensys/gnark-crypto/ecc/secp256k1/ecdsa"
	"github.com/consensys/gnark/frontend"
	"github.com/consensys/gnark/std/algebra/emulated/sw_emulated"
	"github.com/consensys/gnark/std/math/emulated"
	"github.com/consensys/gnark/std/signature/ecdsa"
	"pgregory.net/rapid"
)

type ECDSACase struct {
	Curve string `json:"curve"` // secp256k1 p256 p384
	Q     Pt     `json:"q"`
	R     string `json:"r"`
	S     string `json:"s"`
	M     string `json:"m"` // message hash as an integer < n
	Mut   string `json:"mut"`
}

type ecdsaCircuit[T, S emulated.FieldParams] struct {
	Sig ecdsa.Signature[S]
	Msg emulated.Element[S]
	Pub ecdsa.PublicKey[T, S]
}

func (c *ecdsaCircuit[T, S]) Define(api frontend.API) error {
	c.Pub.Verify(api, sw_emulated.GetCurveParams[T](), &c.Msg, &c.Sig)
	return nil
}

func buildECDSA[T, S emulated.FieldParams](c *ECDSACase) (frontend.Circuit, frontend.Circuit) {
	q := c.Q.point()
	as := &ecdsaCircuit[T, S]{
		Sig: ecdsa.Signature[S]{R: emulated.ValueOf[S](unhx(c.R)), S: emulated.ValueOf[S](unhx(c.S))},
		Msg: emulated.ValueOf[S](unhx(c.M)),
		Pub: ecdsa.PublicKey[T, S]{X: emulated.ValueOf[T](q.X), Y: emulated.ValueOf[T](q.Y)},
	}
	return &ecdsaCircuit[T, S]{}, as
}

var ecdsaBuild = map[string]func(c *ECDSACase) (frontend.Circuit, frontend.Circuit){
	"secp256k1": buildECDSA[emulated.Secp256k1Fp, emulated.Secp256k1Fr],
	"p256":      buildECDSA[emulated.P256Fp, emulated.P256Fr],
	"p384":      buildECDSA[emulated.P384Fp, emulated.P384Fr],
}

// ecdsaEquation is the textbook verification on the reference arithmetic.
func ecdsaEquation(cv *swCurve, q point, r, s, m *big.Int) (bool, string, point) {
	n := cv.R
	if r.Sign() <= 0 || r.Cmp(n) >= 0 || s.Sign() <= 0 || s.Cmp(n) >= 0 {
		return false, "r or s outside [1,n-1]", inf()
	}
	if q.isInf() || !cv.onCurve(q) {
		return false, "invalid public key", inf()
	}
	si := new(big.Int).ModInverse(s, n)
	u1 := new(big.Int).Mul(m, si)
	u2 := new(big.Int).Mul(r, si)
	X := cv.add(cv.mul(cv.G, u1.Mod(u1, n)), cv.mul(q, u2.Mod(u2, n)))
	if X.isInf() {
		return false, "R is infinity", X
	}
	if new(big.Int).Mod(X.X, n).Cmp(r) != 0 {
		return false, "x(R) mod n != r", X
	}
	return true, "", X
}

// ecdsaNative asks the native library.
func ecdsaNative(c *ECDSACase) (accept bool, usable bool) {
	cv := curves[c.Curve]
	q, r, s, m := c.Q.point(), unhx(c.R), unhx(c.S), unhx(c.M)
	nb := (cv.R.BitLen() + 7) / 8
	if r.BitLen() > 8*nb || s.BitLen() > 8*nb || m.BitLen() > 8*nb {
		return false, false
	}
	hash := make([]byte, nb)
	m.FillBytes(hash)
	switch c.Curve {
	case "secp256k1":
		if q.isInf() || !cv.onCurve(q) {
			return false, true
		}
		var pk gcsecp.PublicKey
		pk.A.X.SetBigInt(q.X)
		pk.A.Y.SetBigInt(q.Y)
		sig := make([]byte, 2*nb)
		r.FillBytes(sig[:nb])
		s.FillBytes(sig[nb:])
		ok, err := pk.Verify(sig, hash, nil)
		return ok && err == nil, true
	case "p256", "p384":
		e := elliptic.P256()
		if c.Curve == "p384" {
			e = elliptic.P384()
		}
		if q.isInf() || !cv.onCurve(q) {
			return false, true
		}
		var ok bool
		if msg := ev.Safely(func() { ok = stdecdsa.Verify(&stdecdsa.PublicKey{Curve: e, X: q.X, Y: q.Y}, hash, r, s) }); msg != "" {
			return false, true // crypto/ecdsa panics on points it considers invalid: a rejection
		}
		return ok, true
	}
	return false, false
}

func runECDSA(c ECDSACase) ev.Outcome {
	cv := curves[c.Curve]
	build := ecdsaBuild[c.Curve]
	if cv == nil || build == nil {
		return ev.Outcome{Discard: true, DiscardWhy: "unknown curve"}
	}
	q, r, s, m := c.Q.point(), unhx(c.R), unhx(c.S), unhx(c.M)
	if m.Cmp(cv.R) >= 0 || r.Cmp(cv.R) > 0 || s.Cmp(cv.R) > 0 {
		return ev.Outcome{Discard: true, DiscardWhy: "value not expressible as a witness (emulated.ValueOf reduces)"}
	}
	if !cv.onCurve(q) {
		return ev.Outcome{Discard: true, DiscardWhy: "public key off curve (gadget documents no on-curve check)"}
	}
	want, why, X := ecdsaEquation(cv, q, r, s, m)
	native, usable := ecdsaNative(&c)
	if usable && native != want {
		return ev.Outcome{Discard: true, DiscardWhy: fmt.Sprintf("harness: reference equation (%v) and native library (%v) disagree", want, native)}
	}
	classes := []string{"ecdsa-curve:" + c.Curve, "ecdsa-mut:" + c.Mut, fmt.Sprintf("ecdsa-native-accepts:%v", want)}
	if !want {
		classes = append(classes, "ecdsa-reject-reason:"+why)
	}
	if q.isInf() || q.X.Cmp(cv.G.X) == 0 {
		// JointScalarMulBase documents p != (0,0) and p != +-g
		return ev.Outcome{Discard: true, DiscardWhy: "public key is (0,0) or +-G (documented exclusion of JointScalarMulBase)"}
	}
	if want && X.X.Cmp(cv.R) >= 0 {
		classes = append(classes, "ecdsa-x(R)>=n")
	}
	if s.Sign() > 0 && s.Cmp(cv.R) < 0 {
		si := new(big.Int).ModInverse(s, cv.R)
		a := cv.mul(cv.G, new(big.Int).Mod(new(big.Int).Mul(m, si), cv.R))
		b := cv.mul(q, new(big.Int).Mod(new(big.Int).Mul(r, si), cv.R))
		if !a.isInf() && a.eq(b) {
			classes = append(classes, "ecdsa-partial-products:equal")
		} else if !a.isInf() && a.X.Cmp(b.X) == 0 {
			classes = append(classes, "ecdsa-partial-products:opposite")
		}
	}
	ci, as := build(&c)
	err, pan := engineSolved(ci, as, ecc.BN254.ScalarField())
	if pan != "" {
		return ev.Outcome{Violation: fmt.Sprintf("[ecdsa %s mut=%s] test engine panicked: %s", c.Curve, c.Mut, pan)}
	}
	if want && err != nil && m.Sign() == 0 {
		// JointScalarMulBase documents s1 != 0 ("hash cannot be 0"): completeness is not promised
		return ev.Outcome{Discard: true, DiscardWhy: "hash = 0 (documented exclusion of JointScalarMulBase), valid signature not provable"}
	}
	if (err == nil) != want {
		return ev.Outcome{Violation: fmt.Sprintf("[ecdsa %s mut=%s] circuit accepts=%v but the native verifier accepts=%v (%s): %v", c.Curve, c.Mut, err == nil, want, why, err)}
	}
	return ev.Outcome{NonTrivial: !want || c.Mut != "valid", Classes: classes}
}

var ecdsaMuts = []string{"valid", "valid", "high-s", "msg+1", "msg=0", "r+1", "r-flip-bit0", "r-flip-bit0", "r-flip-bit", "r-flip-bit", "s-flip-bit", "m-flip-bit", "s+1", "r=0", "s=0", "r=n", "s=n", "swap-rs", "Q-other", "Q-neg", "Q=G", "Q=inf", "x(R)>=n", "r=x(R)-not-reduced", "R=inf", "u1G=u2Q", "u1G=u2Q"}

func genECDSA(names []string) *rapid.Generator[ECDSACase] {
	return rapid.Custom(func(t *rapid.T) ECDSACase {
		c := ECDSACase{Curve: rapid.SampledFrom(names).Draw(t, "curve")}
		cv := curves[c.Curve]
		n := cv.R
		one := big.NewInt(1)
		nz := func(label string) *big.Int {
			v := randBelow(t, label, new(big.Int).Sub(n, one))
			return v.Add(v, one)
		}
		d, k, m := nz("d"), nz("k"), randBelow(t, "m", n)
		c.Mut = rapid.SampledFrom(ecdsaMuts).Draw(t, "mut")
		if c.Mut == "msg=0" {
			m.SetInt64(0)
		}
		Q := cv.mul(cv.G, d)
		R := cv.mul(cv.G, k)
		r := new(big.Int).Mod(R.X, n)
		s := new(big.Int).Mul(r, d)
		s.Add(s, m).Mul(s, new(big.Int).ModInverse(k, n)).Mod(s, n)
		switch c.Mut {
		case "high-s":
			s.Sub(n, s)
		case "msg+1":
			m.Add(m, one).Mod(m, n)
		case "r+1":
			r.Add(r, one).Mod(r, n)
		case "s+1":
			s.Add(s, one).Mod(s, n)
		case "r-flip-bit0":
			r.Xor(r, one)
		case "r-flip-bit", "s-flip-bit", "m-flip-bit":
			// a single flipped bit (any position, the top ones included) must be rejected
			i := rapid.SampledFrom([]int{1, 2, 63, 64, 65, 127, 128, n.BitLen() - 2, n.BitLen() - 1, rapid.IntRange(0, n.BitLen()-1).Draw(t, "bit")}).Draw(t, "biti")
			x := map[string]*big.Int{"r-flip-bit": r, "s-flip-bit": s, "m-flip-bit": m}[c.Mut]
			x.Xor(x, new(big.Int).Lsh(one, uint(i)))
			if x.Cmp(n) >= 0 {
				x.Xor(x, new(big.Int).Lsh(one, uint(i)))
				x.Xor(x, one)
			}
		case "r=0":
			r.SetInt64(0)
		case "s=0":
			s.SetInt64(0)
		case "r=n":
			r.Set(n)
		case "s=n":
			s.Set(n)
		case "swap-rs":
			r, s = s, r
		case "Q-other":
			Q = cv.derive("other-key")
		case "Q-neg":
			Q = cv.neg(Q)
		case "Q=G":
			Q = cv.G
		case "Q=inf":
			Q = inf()
		case "u1G=u2Q":
			// m = r*d: the partial products [m/s]G and [r/s]Q coincide, R = [u1]G + [u2]Q is a doubling; valid natively
			m = new(big.Int).Mul(r, d)
			m.Mod(m, n)
			s = new(big.Int).Mul(r, d)
			s.Add(s, m).Mul(s, new(big.Int).ModInverse(k, n)).Mod(s, n)
		case "R=inf":
			// u1*G + u2*Q = infinity: Q = -(m/r) G ; any s
			if m.Sign() == 0 {
				m.SetInt64(1)
			}
			e := new(big.Int).Mul(m, new(big.Int).ModInverse(r, n))
			e.Mod(e, n)
			Q = cv.neg(cv.mul(cv.G, e))
		case "x(R)>=n", "r=x(R)-not-reduced":
			// a natively valid signature whose commitment R has n <= x(R) < p: pick R with
			// x = n + t on the curve, a, b random, Q = (R - aG)/b, r = t, s = r/b, m = a*s.
			var Rp point
			for tt := int64(1); ; tt++ {
				x := new(big.Int).Add(n, big.NewInt(tt))
				if x.Cmp(cv.P) >= 0 {
					break
				}
				rhs := new(big.Int).Mul(x, x)
				rhs.Add(rhs, cv.A).Mul(rhs, x).Add(rhs, cv.B).Mod(rhs, cv.P)
				if y := new(big.Int).ModSqrt(rhs, cv.P); y != nil {
					Rp = point{x, y}
					r = big.NewInt(tt)
					break
				}
			}
			if Rp.X != nil {
				a, b := nz("a"), nz("b")
				Q = cv.mul(cv.add(Rp, cv.neg(cv.mul(cv.G, a))), new(big.Int).ModInverse(b, n))
				s = new(big.Int).Mul(r, new(big.Int).ModInverse(b, n))
				s.Mod(s, n)
				m = new(big.Int).Mul(a, s)
				m.Mod(m, n)
				if c.Mut == "r=x(R)-not-reduced" {
					// the unreduced abscissa as r is >= n: not a valid signature (and not expressible: ValueOf reduces) -> use r = x(R) mod n + 1
					r = new(big.Int).Add(r, one)
				}
			}
		}
		c.Q, c.R, c.S, c.M = Q.pt(), hx(r), hx(s), hx(m)
		return c
	})
}

func ecdsaProperty(t *testing.T, names []string, quick, thorough int) {
	rec := ev.Get(ID)
	rec.SetRule(rule)
	g := genECDSA(names)
	checkSerial(rec, t, "ecdsa", ev.N(quick, thorough), func(rt *rapid.T) {
		c := g.Draw(rt, "case")
		if sig := excludedECDSA(&c); sig != "" {
			rec.Discarded("ecdsa:excluded shape of open finding " + sig)
			return
		}
		rec.Begin("ecdsa", c)
		rec.Report(rt, "ecdsa", c, runECDSA(c))
	})
}

func TestECDSASecp256k1(t *testing.T) {
	t.Parallel()
	ecdsaProperty(t, []string{"secp256k1"}, 60, 1500)
}

func TestECDSANist(t *testing.T) {
	t.Parallel()
	ecdsaProperty(t, []string{"p256", "p256", "p256", "p384"}, 24, 500)
}

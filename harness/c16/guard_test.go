package c16

// Degenerate-decomposition guard. On the GLV curves sw_emulated's
// halfGCDEisenstein hint runs gnark-crypto's eisenstein.HalfGCD on
// (lattice vector, -SplitScalar(s)). For a few scalars (s = -1, +-lambda, ...)
// the remainder norm decreases by a constant per iteration from ~2^256, i.e.
// the loop needs ~2^127 iterations: the solver never returns. A hanging case
// cannot be executed in-process, so every case is first screened with a
// step-bounded re-execution of the same loop on the same public gnark-crypto
// primitives (deterministic, no clock); flagged cases are then confirmed in a
// killable child process running the real gadget.

import (
	"bytes"
	"encoding/json"
	"math/big"
	"os"
	"os/exec"
	"sync"
	"time"

	"verifharness/lib/ev"

	"github.com/consensys/gnark-crypto/ecc"
	"github.com/consensys/gnark-crypto/field/eisenstein"
)

const eisensteinStepCap = 4096

var (
	latticeMu sync.Mutex
	lattices  = map[string]*ecc.Lattice{}
)

// eisensteinSteps returns the number of iterations eisenstein.HalfGCD performs
// for scalar s on the curve, capped at eisensteinStepCap+1.
func eisensteinSteps(cv *swCurve, s *big.Int) int {
	if cv.Lambda == nil {
		return 0
	}
	latticeMu.Lock()
	l, ok := lattices[cv.Name]
	if !ok {
		l = new(ecc.Lattice)
		ecc.PrecomputeLattice(cv.R, cv.Lambda, l)
		lattices[cv.Name] = l
	}
	latticeMu.Unlock()
	sp := ecc.SplitScalar(new(big.Int).Set(s), l)
	a := eisenstein.ComplexNumber{A0: new(big.Int).Set(&l.V1[0]), A1: new(big.Int).Set(&l.V1[1])}
	b := eisenstein.ComplexNumber{A0: &sp[0], A1: &sp[1]}
	b.Neg(&b)
	var aRun, bRun, q, rem eisenstein.ComplexNumber
	aRun.Set(&a)
	bRun.Set(&b)
	var sqrt big.Int
	sqrt.Sqrt(a.Norm())
	n := 0
	for bRun.Norm().Cmp(&sqrt) >= 0 {
		if n > eisensteinStepCap {
			return n
		}
		q.QuoRem(&aRun, &bRun, &rem)
		aRun.Set(&bRun)
		bRun.Set(&rem)
		n++
	}
	return n
}

// degenerateScalar reports whether a scalar of the case makes the Eisenstein
// half-GCD hint exceed the step cap (only the emulated GLV curves use it).
func degenerateScalar(c *SWCase) (bool, string) {
	cv := curves[c.Curve]
	if cv == nil || cv.Lambda == nil || c.Curve == "bls12377" {
		return false, ""
	}
	for _, s := range c.Scalars {
		m := new(big.Int).Mod(s.value(), cv.R)
		cand := []*big.Int{m}
		for _, x := range cand {
			if eisensteinSteps(cv, x) > eisensteinStepCap {
				return true, hx(m)
			}
		}
	}
	return false, ""
}

const childEnv = "C16_CHILD_CASE"

// childMain runs one sw case without the guard and prints the outcome (child process side).
func childMain() {
	var c SWCase
	if err := json.Unmarshal([]byte(os.Getenv(childEnv)), &c); err != nil {
		os.Stdout.WriteString("CHILD-BAD-CASE\n")
		os.Exit(3)
	}
	o := runSWUnguarded(c)
	b, _ := json.Marshal(map[string]any{"violation": o.Violation, "discard": o.Discard, "why": o.DiscardWhy, "classes": o.Classes, "nontrivial": o.NonTrivial})
	os.Stdout.WriteString("CHILD-OUTCOME " + string(b) + "\n")
	os.Exit(0)
}

// childBudget is the kill timeout of the confirmation child. It is not the
// correctness signal: a case only reaches the child after the deterministic
// step count exceeded the cap (non-degenerate scalars need < 100 steps and the
// whole gadget < 1 s).
const childBudget = 25 * time.Second

// runInChild executes the case in a child process; finished=false means the
// child had to be killed after childBudget.
func runInChild(c SWCase) (o ev.Outcome, finished bool) {
	js, _ := json.Marshal(c)
	cmd := exec.Command(os.Args[0], "-test.run", "^TestChildNoop$")
	cmd.Env = append(os.Environ(), childEnv+"="+string(js), "VERIF_OUT=")
	var buf bytes.Buffer
	cmd.Stdout = &buf
	cmd.Stderr = &buf
	if err := cmd.Start(); err != nil {
		return ev.Outcome{Discard: true, DiscardWhy: "child process could not be started"}, true
	}
	done := make(chan error, 1)
	go func() { done <- cmd.Wait() }()
	select {
	case <-done:
	case <-time.After(childBudget):
		_ = cmd.Process.Kill()
		<-done
		return ev.Outcome{}, false
	}
	for _, line := range bytes.Split(buf.Bytes(), []byte("\n")) {
		if bytes.HasPrefix(line, []byte("CHILD-OUTCOME ")) {
			var r struct {
				Violation  string   `json:"violation"`
				Discard    bool     `json:"discard"`
				Why        string   `json:"why"`
				Classes    []string `json:"classes"`
				NonTrivial bool     `json:"nontrivial"`
			}
			if json.Unmarshal(line[len("CHILD-OUTCOME "):], &r) == nil {
				return ev.Outcome{Violation: r.Violation, Discard: r.Discard, DiscardWhy: r.Why, Classes: r.Classes, NonTrivial: r.NonTrivial}, true
			}
		}
	}
	return ev.Outcome{Violation: "confirmation child died without an outcome: " + trunc(buf.String(), 600)}, true
}

func trunc(s string, n int) string {
	if len(s) > n {
		return s[:n] + "…"
	}
	return s
}

// tinyGLVScalar reports whether both GLV sub-scalars of s (w.r.t. the curve's
// eigenvalue) are tiny (|k1|, |k2| < 2^8), e.g. s in {1, 2, lambda, lambda^2 = -1-lambda, ...}.
func tinyGLVScalar(cv *swCurve, s *big.Int) bool {
	if cv.Lambda == nil {
		return false
	}
	eisensteinSteps(cv, big.NewInt(1)) // make sure the lattice is cached
	latticeMu.Lock()
	l := lattices[cv.Name]
	latticeMu.Unlock()
	sp := ecc.SplitScalar(new(big.Int).Mod(s, cv.R), l)
	return new(big.Int).Abs(&sp[0]).BitLen() <= 8 && new(big.Int).Abs(&sp[1]).BitLen() <= 8
}

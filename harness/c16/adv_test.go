package c16

// Adversarial direction: a dishonest prover controls every hint output. The
// ScalarMul circuit (compiled once per curve / option to R1CS over bn254) is
// solved with a wrong claimed public output while a strategy rewrites the
// outputs of the GLV / fake-GLV decomposition hints of sw_emulated.GetHints().
// Oracle: a claimed output different from the native [s]P must be unsatisfiable
// under every strategy. Mere non-uniqueness of internal wires is never flagged.

import (
	"fmt"
	"math/big"
	"strings"
	"sync"
	"testing"

	"verifharness/lib/ev"
	"verifharness/lib/hintadv"
	"verifharness/lib/prog"

	"github.com/consensys/gnark/constraint/solver"
	"pgregory.net/rapid"
)

// AdvCase fully determines one adversarial execution.
type AdvCase struct {
	Curve    string `json:"curve"`
	Op       string `json:"op"` // ScalarMul | ScalarMulBase
	Complete bool   `json:"complete"`
	P        Pt     `json:"p"`
	S        string `json:"s"`        // scalar (hex, < r)
	Claim    string `json:"claim"`    // which wrong output is claimed
	Strategy string `json:"strategy"` // how the hints are rewritten
	K        int    `json:"k"`        // strategy parameter (which output / limb is perturbed)
}

var advClaims = []string{"neg", "next", "double", "P", "negP", "sameX", "G", "inf", "rand"}
var advStrategies = []string{"point-only", "zero-subscalars", "decomp-of-claim", "flip-all-signs", "flip-one-sign", "perturb-subscalar", "swap-subscalars", "zero-one-subscalar", "small-subscalars"}

// claimPoint returns the wrong point and, when known, the scalar s' with claim = [s']P.
func claimPoint(cv *swCurve, base point, s *big.Int, claim string) (point, *big.Int) {
	switch claim {
	case "neg":
		k := new(big.Int).Sub(cv.R, s)
		return cv.mul(base, k), k.Mod(k, cv.R)
	case "next":
		k := new(big.Int).Add(s, big.NewInt(1))
		return cv.mul(base, k), k.Mod(k, cv.R)
	case "double":
		k := new(big.Int).Lsh(s, 1)
		return cv.mul(base, k), k.Mod(k, cv.R)
	case "P":
		return base, big.NewInt(1)
	case "negP":
		return cv.neg(base), new(big.Int).Sub(cv.R, big.NewInt(1))
	case "sameX":
		// same abscissa as the base point, ordinate off the curve
		y := new(big.Int).Add(base.Y, big.NewInt(1))
		return point{new(big.Int).Set(base.X), y.Mod(y, cv.P)}, nil
	case "G":
		return cv.mul(cv.G, big.NewInt(7)), nil
	case "inf":
		return inf(), big.NewInt(0)
	}
	return cv.derive("adv-claim"), nil
}

func hintByName(suffix string) solver.Hint {
	for _, h := range solver.GetRegisteredHints() {
		if strings.HasSuffix(solver.GetHintName(h), suffix) {
			return h
		}
	}
	return nil
}

func writeLimbs(dst []*big.Int, v *big.Int, nbBits uint) {
	mask := new(big.Int).Sub(new(big.Int).Lsh(big.NewInt(1), nbBits), big.NewInt(1))
	x := new(big.Int).Set(v)
	for i := range dst {
		dst[i].And(x, mask)
		x.Rsh(x, nbBits)
	}
}

// withScalar returns a copy of the wrapped emulated hint inputs whose first
// emulated input is replaced by v.
func withScalar(in []*big.Int, v *big.Int) []*big.Int {
	nbBits := uint(in[0].Int64())
	nbLimbs := int(in[1].Int64())
	out := make([]*big.Int, len(in))
	for i := range in {
		out[i] = new(big.Int).Set(in[i])
	}
	ptr := 3 + nbLimbs // length prefix of the first emulated input
	n := int(in[ptr].Int64())
	writeLimbs(out[ptr+1:ptr+1+n], v, nbBits)
	return out
}

// advStrategy builds the hint-rewriting strategy of a case.
func advStrategy(c *AdvCase, cv *swCurve, claim point, sPrime *big.Int) hintadv.Strategy {
	subs, signs := "sw_emulated.halfGCDEisenstein", "sw_emulated.halfGCDEisensteinSigns"
	if cv.Lambda == nil {
		subs, signs = "sw_emulated.halfGCD", "sw_emulated.halfGCDSigns"
	}
	return func(call *hintadv.Call) bool {
		name := hintadv.ShortName(call.Name)
		if !strings.HasPrefix(name, "sw_emulated.") || call.Err != nil {
			return false
		}
		nbBits := uint(call.Inputs[0].Int64())
		nbLimbs := int(call.Inputs[1].Int64())
		switch name {
		case "sw_emulated.scalarMulHint":
			if len(call.Outputs) != 2*nbLimbs {
				return false
			}
			writeLimbs(call.Outputs[:nbLimbs], claim.X, nbBits)
			writeLimbs(call.Outputs[nbLimbs:], claim.Y, nbBits)
			return true
		case subs:
			nout := len(call.Outputs) / nbLimbs
			el := func(i int) []*big.Int { return call.Outputs[i*nbLimbs : (i+1)*nbLimbs] }
			switch c.Strategy {
			case "zero-subscalars":
				for _, o := range call.Outputs {
					o.SetUint64(0)
				}
				return true
			case "zero-one-subscalar":
				for _, o := range el(c.K % nout) {
					o.SetUint64(0)
				}
				return true
			case "small-subscalars":
				for i := 0; i < nout; i++ {
					writeLimbs(el(i), big.NewInt(int64((c.K>>uint(i))&1)), nbBits)
				}
				return true
			case "perturb-subscalar":
				o := el(c.K % nout)[0]
				o.Add(o, big.NewInt(1))
				return true
			case "swap-subscalars":
				a, b := el(c.K%nout), el((c.K+1)%nout)
				for i := range a {
					t := new(big.Int).Set(a[i])
					a[i].Set(b[i])
					b[i].Set(t)
				}
				return true
			case "decomp-of-claim":
				if sPrime == nil || sPrime.Sign() == 0 {
					return false
				}
				if h := hintByName(call.Name); h != nil {
					if err := h(call.Mod, withScalar(call.Inputs, sPrime), call.Outputs); err == nil {
						return true
					}
				}
			}
		case signs:
			switch c.Strategy {
			case "flip-all-signs":
				for _, o := range call.Outputs {
					o.Xor(o, big.NewInt(1))
				}
				return true
			case "flip-one-sign":
				o := call.Outputs[c.K%len(call.Outputs)]
				o.Xor(o, big.NewInt(1))
				return true
			case "decomp-of-claim":
				if sPrime == nil || sPrime.Sign() == 0 {
					return false
				}
				if h := hintByName(call.Name); h != nil {
					if err := h(call.Mod, withScalar(call.Inputs, sPrime), call.Outputs); err == nil {
						return true
					}
				}
			}
		}
		return false
	}
}

var (
	advMu    sync.Mutex
	advCache = map[string]prog.System{}
)

func advSystem(c *AdvCase) (prog.System, swTarget, *SWCase, error) {
	tg := swTargets[c.Curve]
	sc := &SWCase{Curve: c.Curve, Op: c.Op, Complete: c.Complete, Scalars: []Sc{{Form: "val", A: c.S}}}
	if c.Op == opMul {
		sc.Points = []Pt{c.P}
	}
	key := fmt.Sprintf("%s|%s|%v", c.Curve, c.Op, c.Complete)
	advMu.Lock()
	defer advMu.Unlock()
	if s, ok := advCache[key]; ok {
		return s, tg, sc, nil
	}
	ci, _ := tg.build(sc, inf())
	s, err := prog.Compile(fieldOf(tg.field), prog.R1CS, ci)
	if err != nil {
		return nil, tg, sc, err
	}
	advCache[key] = s
	return s, tg, sc, nil
}

func runAdv(c AdvCase) ev.Outcome {
	cv := curves[c.Curve]
	if cv == nil || c.Curve == "bls12377" || (c.Op != opMul && c.Op != opMulBase) {
		return ev.Outcome{Discard: true, DiscardWhy: "unsupported target"}
	}
	s := new(big.Int).Mod(unhx(c.S), cv.R)
	base := cv.G
	if c.Op == opMul {
		base = c.P.point()
	}
	if !cv.onCurve(base) {
		return ev.Outcome{Discard: true, DiscardWhy: "point not on curve"}
	}
	if !c.Complete && (s.Sign() == 0 || base.isInf()) {
		return ev.Outcome{Discard: true, DiscardWhy: "outside documented domain (zero scalar / infinity without complete arithmetic)"}
	}
	if eisensteinSteps(cv, s) > eisensteinStepCap {
		return ev.Outcome{Discard: true, DiscardWhy: "degenerate decomposition scalar (screened; covered by the sw cases)"}
	}
	honest := cv.mul(base, s)
	claim, sPrime := claimPoint(cv, base, s, c.Claim)
	if claim.eq(honest) {
		return ev.Outcome{Discard: true, DiscardWhy: "claimed output equals the native result"}
	}
	if sPrime != nil && eisensteinSteps(cv, sPrime) > eisensteinStepCap {
		sPrime = nil
	}
	sys, tg, sc, err := advSystem(&c)
	if err != nil {
		return ev.Outcome{Violation: "compile failed: " + err.Error()}
	}
	f := fieldOf(tg.field)
	where := fmt.Sprintf("[adversary %s %s complete=%v claim=%s strategy=%s k=%d]", c.Curve, c.Op, c.Complete, c.Claim, c.Strategy, c.K)
	classes := []string{"adv-curve:" + c.Curve, "adv-op:" + c.Op, fmt.Sprintf("adv-complete:%v", c.Complete), "adv-claim:" + c.Claim, "adv-strategy:" + c.Strategy}
	if c.Strategy == "baseline" {
		// completeness of the compiled circuit with genuine hints, and the plain wrong-output control
		_, as := tg.build(sc, honest)
		w, err := prog.Witness(f, as)
		if err != nil {
			return ev.Outcome{Violation: where + " witness: " + err.Error()}
		}
		if _, err := prog.Solve(sys, w, solver.WithNbTasks(1), hintadv.HashCommitment()); err != nil {
			return ev.Outcome{Violation: where + " compiled R1CS with genuine hints rejects the native result: " + trimErr(err)}
		}
		classes = append(classes, "adv-baseline-honest-accepted")
	}
	_, as := tg.build(sc, claim)
	w, err := prog.Witness(f, as)
	if err != nil {
		return ev.Outcome{Violation: where + " witness: " + err.Error()}
	}
	var strat hintadv.Strategy = func(*hintadv.Call) bool { return false }
	if c.Strategy != "baseline" {
		strat = advStrategy(&c, cv, claim, sPrime)
	}
	sess, opts := hintadv.Options(strat, func(name string) bool { return strings.Contains(name, "sw_emulated.") })
	opts = append(opts, solver.WithNbTasks(1), hintadv.HashCommitment())
	_, serr := prog.Solve(sys, w, opts...)
	if serr == nil {
		return ev.Outcome{Violation: fmt.Sprintf("%s wrong claimed output (%s,%s) is satisfiable (native result (%s,%s)); %d hint invocations rewritten", where, hx(claim.X), hx(claim.Y), hx(honest.X), hx(honest.Y), sess.Changed)}
	}
	if isPanic(serr) {
		return ev.Outcome{Violation: where + " " + trimErr(serr)}
	}
	classes = append(classes, "adv-rejected")
	if sess.Changed > 0 {
		classes = append(classes, "adv-hints-rewritten")
	}
	for _, cl := range []struct {
		ok bool
		s  string
	}{{s.Sign() == 0, "adv-sc:0"}, {s.Cmp(big.NewInt(1)) == 0, "adv-sc:1"}, {base.isInf(), "adv-pt:infinity"}, {base.eq(cv.G), "adv-pt:G"}} {
		if cl.ok {
			classes = append(classes, cl.s)
		}
	}
	return ev.Outcome{NonTrivial: c.Strategy != "baseline" && sess.Changed > 0, Classes: classes}
}

func genAdv(curveNames []string) *rapid.Generator[AdvCase] {
	return rapid.Custom(func(t *rapid.T) AdvCase {
		c := AdvCase{Curve: rapid.SampledFrom(curveNames).Draw(t, "curve")}
		cv := curves[c.Curve]
		c.Op = rapid.SampledFrom([]string{opMul, opMul, opMul, opMulBase}).Draw(t, "op")
		c.Complete = rapid.Bool().Draw(t, "complete")
		if c.Op == opMul {
			kinds := []string{"rand", "rand", "rand", "G"}
			if c.Complete {
				kinds = append(kinds, "inf")
			}
			switch rapid.SampledFrom(kinds).Draw(t, "pkind") {
			case "G":
				c.P = cv.G.pt()
			case "inf":
				c.P = inf().pt()
			default:
				c.P = cv.derive(fmt.Sprintf("adv-%d", rapid.IntRange(0, 1<<16).Draw(t, "pseed"))).pt()
			}
		}
		skinds := []string{"rand", "rand", "rand", "rand", "2", "3", "half"}
		if c.Complete {
			skinds = append(skinds, "0", "1")
		}
		switch rapid.SampledFrom(skinds).Draw(t, "skind") {
		case "0":
			c.S = "0"
		case "1":
			c.S = "1"
		case "2":
			c.S = "2"
		case "3":
			c.S = "3"
		case "half":
			c.S = hx(randBelow(t, "s", new(big.Int).Lsh(big.NewInt(1), uint(cv.R.BitLen()/2))))
		default:
			c.S = hx(randBelow(t, "s", cv.R))
		}
		c.Claim = rapid.SampledFrom(advClaims).Draw(t, "claim")
		c.Strategy = rapid.SampledFrom(append([]string{"baseline"}, advStrategies...)).Draw(t, "strategy")
		c.K = rapid.IntRange(1, 15).Draw(t, "k") // small-subscalars: bit pattern of (u1,u2,v1,v2), never all zero
		return c
	})
}

func advProperty(t *testing.T, names []string, quick, thorough int) {
	rec := ev.Get(ID)
	rec.SetRule(rule)
	g := genAdv(names)
	checkSerial(rec, t, "adv", ev.N(quick, thorough), func(rt *rapid.T) {
		c := g.Draw(rt, "case")
		if sig := excludedAdv(&c); sig != "" {
			rec.Discarded("adv:excluded shape of open finding " + sig)
			return
		}
		rec.Begin("adv", c)
		rec.Report(rt, "adv", c, runAdv(c))
	})
}

func TestAdversarySecp256k1(t *testing.T) {
	t.Parallel()
	advProperty(t, []string{"secp256k1"}, 90, 2500)
}

func TestAdversaryBN254(t *testing.T) {
	t.Parallel()
	advProperty(t, []string{"bn254"}, 90, 2500)
}

func TestAdversaryFakeGLV(t *testing.T) {
	t.Parallel()
	advProperty(t, []string{"p256"}, 30, 1000)
}

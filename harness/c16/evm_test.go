package c16

// EVM precompile gadgets (std/evmprecompiles): ECRecover against gnark-crypto's
// secp256k1 public-key recovery under the EVM input rules, ECAdd / ECMul with
// infinity inputs against the reference arithmetic, Expmod against math/big.

import (
	"errors"
	"fmt"
	"math/big"
	"testing"

	"verifharness/lib/ev"

	"github.com/consensys/gnark-crypto/ecc"
	gcsecp "github.com/consensys/gnark-crypto/ecc/secp256k1/ecdsa"
	"github.com/consensys/gnark/frontend"
	"github.com/consensys/gnark/std/algebra/emulated/sw_emulated"
	"github.com/consensys/gnark/std/evmprecompiles"
	"github.com/consensys/gnark/std/math/emulated"
	"github.com/consensys/gnark/std/math/emulated/emparams"
	"pgregory.net/rapid"
)

// ---- ECRecover ---------------------------------------------------------------------

type ECRecCase struct {
	M         string `json:"m"`
	V         int    `json:"v"` // EVM encoding: 27 / 28 are the valid values
	R         string `json:"r"`
	S         string `json:"s"`
	Strict    bool   `json:"strict"`
	IsFailure bool   `json:"is_failure"`
	Expected  Pt     `json:"expected"`
	Mut       string `json:"mut"`
}

type ecrecCircuit struct {
	Message   emulated.Element[emulated.Secp256k1Fr]
	V         frontend.Variable
	R         emulated.Element[emulated.Secp256k1Fr]
	S         emulated.Element[emulated.Secp256k1Fr]
	Strict    frontend.Variable
	IsFailure frontend.Variable
	Expected  sw_emulated.AffinePoint[emulated.Secp256k1Fp]
}

func (c *ecrecCircuit) Define(api frontend.API) error {
	curve, err := sw_emulated.New[emulated.Secp256k1Fp, emulated.Secp256k1Fr](api, sw_emulated.GetSecp256k1Params())
	if err != nil {
		return err
	}
	res := evmprecompiles.ECRecover(api, c.Message, c.V, c.R, c.S, c.Strict, c.IsFailure)
	curve.AssertIsEqual(&c.Expected, res)
	return nil
}

// ecrecNative recovers with gnark-crypto: (pk, "ok") | (_, "qnr") | (_, "invalid").
func ecrecNative(m, r, s *big.Int, v int) (point, string) {
	if v != 27 && v != 28 {
		return inf(), "invalid"
	}
	var pk gcsecp.PublicKey
	hash := make([]byte, 32)
	m.FillBytes(hash)
	if err := pk.RecoverFrom(hash, uint(v-27), r, s); err != nil {
		if errors.Is(err, gcsecp.ErrNoSqrtR) {
			return inf(), "qnr"
		}
		return inf(), "invalid"
	}
	return point{pk.A.X.BigInt(new(big.Int)), pk.A.Y.BigInt(new(big.Int))}, "ok"
}

func b2i(b bool) int {
	if b {
		return 1
	}
	return 0
}

func runECRec(c ECRecCase) ev.Outcome {
	cv := curves["secp256k1"]
	n := cv.R
	m, r, s := unhx(c.M), unhx(c.R), unhx(c.S)
	if m.Cmp(n) >= 0 || r.Cmp(n) > 0 || s.Cmp(n) > 0 {
		return ev.Outcome{Discard: true, DiscardWhy: "value not expressible as a witness"}
	}
	exp := c.Expected.point()
	pk, status := ecrecNative(m, r, s, c.V)
	half := new(big.Int).Rsh(new(big.Int).Sub(n, big.NewInt(1)), 1)
	strictOK := !c.Strict || s.Cmp(half) <= 0
	var want bool
	switch {
	case !strictOK || status == "invalid":
		want = false
	case c.IsFailure:
		want = (status == "qnr" || pk.isInf()) && exp.isInf()
	default:
		want = status == "ok" && !pk.isInf() && exp.eq(pk)
	}
	if status == "ok" && (m.Sign() == 0 || r.Cmp(cv.G.X) == 0) {
		return ev.Outcome{Discard: true, DiscardWhy: "ecrecover: zero hash or R = +-G (documented exclusions of JointScalarMulBase)"}
	}
	classes := []string{"ecrec-mut:" + c.Mut, "ecrec-native:" + status, fmt.Sprintf("ecrec-want:%v", want), fmt.Sprintf("ecrec-v:%d", c.V), fmt.Sprintf("ecrec-strict:%v", c.Strict), fmt.Sprintf("ecrec-isfailure:%v", c.IsFailure)}
	if status == "ok" && pk.isInf() {
		classes = append(classes, "ecrec-pk:zero")
	}
	as := &ecrecCircuit{Message: emulated.ValueOf[emulated.Secp256k1Fr](m), V: c.V, R: emulated.ValueOf[emulated.Secp256k1Fr](r), S: emulated.ValueOf[emulated.Secp256k1Fr](s),
		Strict: b2i(c.Strict), IsFailure: b2i(c.IsFailure), Expected: emuPoint[emulated.Secp256k1Fp](exp)}
	err, pan := engineSolved(&ecrecCircuit{}, as, ecc.BN254.ScalarField())
	if pan != "" {
		return ev.Outcome{Violation: fmt.Sprintf("[ecrecover mut=%s] test engine panicked: %s", c.Mut, pan)}
	}
	if (err == nil) != want {
		return ev.Outcome{Violation: fmt.Sprintf("[ecrecover mut=%s v=%d strict=%v isFailure=%v] circuit accepts=%v but native recovery (%s) with the EVM input rules says %v: %v", c.Mut, c.V, c.Strict, c.IsFailure, err == nil, status, want, err)}
	}
	return ev.Outcome{NonTrivial: !want || c.Mut != "valid", Classes: classes}
}

func genECRec() *rapid.Generator[ECRecCase] {
	return rapid.Custom(func(t *rapid.T) ECRecCase {
		cv := curves["secp256k1"]
		n := cv.R
		one := big.NewInt(1)
		nz := func(label string) *big.Int {
			v := randBelow(t, label, new(big.Int).Sub(n, one))
			return v.Add(v, one)
		}
		d, k, m := nz("d"), nz("k"), nz("m")
		Q := cv.mul(cv.G, d)
		R := cv.mul(cv.G, k)
		r := new(big.Int).Mod(R.X, n)
		s := new(big.Int).Mul(r, d)
		s.Add(s, m).Mul(s, new(big.Int).ModInverse(k, n)).Mod(s, n)
		v := 27 + int(R.Y.Bit(0))
		half := new(big.Int).Rsh(new(big.Int).Sub(n, one), 1)
		c := ECRecCase{Mut: rapid.SampledFrom([]string{"valid", "valid", "valid-strict", "high-s-strict", "low-s-strict", "v-flip", "v-flip-honest", "v=26", "v=29", "v=0", "v=2", "v=30", "wrong-pk", "claimed-failure", "r=0", "s=0", "r=n", "s=n", "qnr", "qnr-not-flagged", "pk-zero", "msg+1", "inf-expected"}).Draw(t, "mut")}
		exp := Q
		normalize := func(low bool) {
			if (s.Cmp(half) > 0) == low {
				s.Sub(n, s)
				v = 27 + 28 - v
			}
		}
		switch c.Mut {
		case "valid-strict", "low-s-strict":
			c.Strict = true
			normalize(true)
		case "high-s-strict":
			c.Strict = true
			normalize(false)
		case "v-flip":
			v = 27 + 28 - v
		case "v-flip-honest":
			v = 27 + 28 - v
			exp, _ = ecrecNative(m, r, s, v)
		case "v=26":
			v = 26
		case "v=29":
			v = 29
		case "v=0":
			v = 0
		case "v=2":
			v = 2
		case "v=30":
			v = 30
		case "wrong-pk":
			exp = cv.derive("other")
		case "claimed-failure":
			c.IsFailure = true
			exp = inf()
		case "r=0":
			r.SetInt64(0)
		case "s=0":
			s.SetInt64(0)
		case "r=n":
			r.Set(n)
		case "s=n":
			s.Set(n)
		case "qnr", "qnr-not-flagged":
			for {
				r.Add(r, one).Mod(r, n)
				if _, st := ecrecNative(m, r, s, v); st == "qnr" {
					break
				}
			}
			c.IsFailure = c.Mut == "qnr"
			exp = inf()
		case "pk-zero":
			// -m/r G + s/r R = 0  <=>  m = s*k
			m = new(big.Int).Mul(s, k)
			m.Mod(m, n)
			c.IsFailure = true
			exp = inf()
		case "msg+1":
			m.Add(m, one).Mod(m, n)
		case "inf-expected":
			exp = inf()
		}
		c.M, c.V, c.R, c.S, c.Expected = hx(m), v, hx(r), hx(s), exp.pt()
		return c
	})
}

func TestECRecover(t *testing.T) {
	t.Parallel()
	rec := ev.Get(ID)
	rec.SetRule(rule)
	g := genECRec()
	checkSerial(rec, t, "ecrecover", ev.N(50, 1200), func(rt *rapid.T) {
		c := g.Draw(rt, "case")
		rec.Begin("ecrecover", c)
		rec.Report(rt, "ecrecover", c, runECRec(c))
	})
}

// ---- ECAdd / ECMul -----------------------------------------------------------------

type bnAddMulCircuit struct {
	mul bool
	P   sw_emulated.AffinePoint[emulated.BN254Fp]
	Q   sw_emulated.AffinePoint[emulated.BN254Fp]
	U   emulated.Element[emulated.BN254Fr]
	Out sw_emulated.AffinePoint[emulated.BN254Fp]
}

func (c *bnAddMulCircuit) Define(api frontend.API) error {
	curve, err := sw_emulated.New[emulated.BN254Fp, emulated.BN254Fr](api, sw_emulated.GetBN254Params())
	if err != nil {
		return err
	}
	var res *sw_emulated.AffinePoint[emulated.BN254Fp]
	if c.mul {
		res = evmprecompiles.ECMul(api, &c.P, &c.U)
	} else {
		res = evmprecompiles.ECAdd(api, &c.P, &c.Q)
	}
	curve.AssertIsEqual(res, &c.Out)
	return nil
}

// BNCase: Op ECAdd (points P,Q) or ECMul (point P, scalar U) on BN254 G1 with (0,0) as infinity.
type BNCase struct {
	Op string `json:"op"`
	P  Pt     `json:"p"`
	Q  Pt     `json:"q"`
	U  string `json:"u"`
}

func (c *BNCase) asSW() SWCase {
	if c.Op == "ECMul" {
		return SWCase{Curve: "bn254", Op: opMul, Complete: true, Points: []Pt{c.P}, Scalars: []Sc{{Form: "val", A: c.U}}}
	}
	return SWCase{Curve: "bn254", Op: opAddU, Points: []Pt{c.P, c.Q}}
}

func runBN(c BNCase) ev.Outcome {
	cv := curves["bn254"]
	sw := c.asSW()
	out, inDomain, why := reference(&sw)
	if !inDomain {
		return ev.Outcome{Discard: true, DiscardWhy: why}
	}
	if deg, _ := degenerateScalar(&sw); deg {
		return ev.Outcome{Discard: true, DiscardWhy: "degenerate decomposition scalar (screened; covered by the sw cases)"}
	}
	u := unhx(c.U)
	if u.Cmp(cv.R) > 0 {
		return ev.Outcome{Discard: true, DiscardWhy: "scalar not expressible"}
	}
	mk := func(o point) *bnAddMulCircuit {
		return &bnAddMulCircuit{mul: c.Op == "ECMul", P: emuPoint[emulated.BN254Fp](c.P.point()), Q: emuPoint[emulated.BN254Fp](c.Q.point()),
			U: emulated.ValueOf[emulated.BN254Fr](u), Out: emuPoint[emulated.BN254Fp](o)}
	}
	err, pan := engineSolved(&bnAddMulCircuit{mul: c.Op == "ECMul"}, mk(out), ecc.BN254.ScalarField())
	if pan != "" {
		return ev.Outcome{Violation: fmt.Sprintf("[%s] test engine panicked: %s", c.Op, pan)}
	}
	if err != nil {
		return ev.Outcome{Violation: fmt.Sprintf("[%s] in-domain input not satisfiable with the native result (%s,%s): %v", c.Op, hx(out.X), hx(out.Y), trimErr(err))}
	}
	w := cv.add(out, cv.G)
	if err, _ := engineSolved(&bnAddMulCircuit{mul: c.Op == "ECMul"}, mk(w), ecc.BN254.ScalarField()); err == nil {
		return ev.Outcome{Violation: fmt.Sprintf("[%s] wrong claimed output accepted", c.Op)}
	}
	cl, exc := classesOf(&sw)
	return ev.Outcome{NonTrivial: exc || out.isInf(), Classes: append(cl, "evm:"+c.Op)}
}

func TestBNAddMul(t *testing.T) {
	t.Parallel()
	rec := ev.Get(ID)
	rec.SetRule(rule)
	if !firstShard() {
		return
	}
	cv := curves["bn254"]
	P := cv.derive("evm")
	var cases []BNCase
	pts := []point{inf(), P, cv.neg(P), cv.G}
	for _, p := range pts {
		for _, q := range pts {
			cases = append(cases, BNCase{Op: "ECAdd", P: p.pt(), Q: q.pt()})
		}
	}
	for _, p := range []point{inf(), P, cv.G} {
		for _, u := range []*big.Int{big.NewInt(0), big.NewInt(1), big.NewInt(2), cv.R, bi("0xdeadbeefcafebabe1234567890abcdef1234567890abcdef"), new(big.Int).Sub(cv.R, big.NewInt(1))} {
			cases = append(cases, BNCase{Op: "ECMul", P: p.pt(), U: hx(u)})
		}
	}
	for i, c := range cases {
		if ev.N(100, 100) < 100 && i%4 != 0 {
			continue
		}
		sw := c.asSW()
		if sig := excludedSW(&sw); sig != "" {
			rec.Discarded("evm-bn:excluded shape of open finding " + sig)
			continue
		}
		o := runBN(c)
		switch {
		case o.Discard:
			rec.Discarded("evm-bn:" + o.DiscardWhy)
		case o.Violation != "":
			p := rec.Violate("evm-bn", c, o.Violation)
			t.Errorf("VIOLATION %s kind=evm-bn replay=%s: %s", ID, p, trunc(o.Violation, 1200))
			return
		default:
			rec.Count("evm-bn", c, o.NonTrivial, o.Classes...)
		}
	}
}

// ---- Expmod --------------------------------------------------------------------------

type ExpmodCase struct {
	Base string `json:"base"`
	Exp  string `json:"exp"`
	Mod  string `json:"mod"`
}

type expmodCircuit struct {
	edge   bool
	Base   emulated.Element[emparams.Mod1e4096]
	Exp    emulated.Element[emparams.Mod1e4096]
	Mod    emulated.Element[emparams.Mod1e4096]
	Result emulated.Element[emparams.Mod1e4096]
}

func (c *expmodCircuit) Define(api frontend.API) error {
	res := evmprecompiles.Expmod(api, &c.Base, &c.Exp, &c.Mod)
	f, err := emulated.NewField[emparams.Mod1e4096](api)
	if err != nil {
		return err
	}
	if c.edge {
		f.AssertIsEqual(res, &c.Result)
	} else {
		f.ModAssertIsEqual(&c.Result, res, &c.Mod)
	}
	return nil
}

func runExpmod(c ExpmodCase) ev.Outcome {
	b, e, m := unhx(c.Base), unhx(c.Exp), unhx(c.Mod)
	if b.BitLen() > 4096 || e.BitLen() > 4096 || m.BitLen() > 4096 {
		return ev.Outcome{Discard: true, DiscardWhy: "operand too large"}
	}
	want := new(big.Int)
	edge := m.Cmp(big.NewInt(1)) <= 0
	if !edge {
		want.Exp(b, e, m)
	}
	mk := func(res *big.Int) *expmodCircuit {
		return &expmodCircuit{edge: edge, Base: emulated.ValueOf[emparams.Mod1e4096](b), Exp: emulated.ValueOf[emparams.Mod1e4096](e),
			Mod: emulated.ValueOf[emparams.Mod1e4096](m), Result: emulated.ValueOf[emparams.Mod1e4096](res)}
	}
	err, pan := engineSolved(&expmodCircuit{edge: edge}, mk(want), ecc.BN254.ScalarField())
	if pan != "" {
		return ev.Outcome{Violation: "[expmod] test engine panicked: " + pan}
	}
	if err != nil {
		return ev.Outcome{Violation: fmt.Sprintf("[expmod] base^exp mod m = %s not accepted: %v", hx(want), trimErr(err))}
	}
	wrong := new(big.Int).Add(want, big.NewInt(1))
	if !edge && wrong.Cmp(m) == 0 {
		wrong.SetInt64(0)
	}
	if err, _ := engineSolved(&expmodCircuit{edge: edge}, mk(wrong), ecc.BN254.ScalarField()); err == nil {
		return ev.Outcome{Violation: fmt.Sprintf("[expmod] wrong result %s accepted (expected %s)", hx(wrong), hx(want))}
	}
	classes := []string{"expmod"}
	exc := false
	for _, cl := range []struct {
		ok bool
		s  string
	}{{m.Sign() == 0, "expmod-mod:0"}, {m.Cmp(big.NewInt(1)) == 0, "expmod-mod:1"}, {e.Sign() == 0, "expmod-exp:0"}, {b.Sign() == 0, "expmod-base:0"}, {b.Cmp(m) >= 0 && !edge, "expmod-base>=mod"}} {
		if cl.ok {
			classes = append(classes, cl.s)
			exc = true
		}
	}
	return ev.Outcome{NonTrivial: exc, Classes: classes}
}

func TestExpmod(t *testing.T) {
	t.Parallel()
	rec := ev.Get(ID)
	rec.SetRule(rule)
	if ev.Tier() != "thorough" {
		// one 4096-bit instance costs minutes in the test engine: thorough tier only
		rec.Note("expmod is exercised in the thorough tier only (one 4096-bit instance costs minutes in the test engine)")
		return
	}
	g := rapid.Custom(func(t *rapid.T) ExpmodCase {
		val := func(label string) *big.Int {
			switch rapid.SampledFrom([]string{"0", "1", "2", "small", "big", "big"}).Draw(t, label+"-kind") {
			case "0":
				return big.NewInt(0)
			case "1":
				return big.NewInt(1)
			case "2":
				return big.NewInt(2)
			case "small":
				return big.NewInt(int64(rapid.IntRange(3, 1000).Draw(t, label+"-v")))
			}
			bits := rapid.SampledFrom([]int{64, 256, 1024, 4096}).Draw(t, label+"-bits")
			return randBelow(t, label+"-v", new(big.Int).Lsh(big.NewInt(1), uint(bits)))
		}
		return ExpmodCase{Base: hx(val("base")), Exp: hx(val("exp")), Mod: hx(val("mod"))}
	})
	checkSerial(rec, t, "expmod", ev.N(1, 8), func(rt *rapid.T) {
		c := g.Draw(rt, "case")
		rec.Begin("expmod", c)
		rec.Report(rt, "expmod", c, runExpmod(c))
	})
}

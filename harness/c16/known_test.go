package c16

import (
	"encoding/json"
	"math/big"
	"os"
	"strings"
	"testing"

	"verifharness/lib/ev"
)

// signature maps a violating case to the match signature of a known finding
// ("" = none). Only open entries of /verif/known_findings.json suppress anything.
func signature(kind string, c any, msg string) string {
	if sc, ok := c.(SWCase); ok && !sc.Complete && strings.Contains(msg, "in-domain input not satisfiable") {
		cv := curves[sc.Curve]
		for _, x := range sc.Scalars {
			m := new(big.Int).Mod(x.value(), cv.R)
			if m.Cmp(big.NewInt(1)) == 0 || m.Cmp(new(big.Int).Sub(cv.R, big.NewInt(1))) == 0 {
				return SigScalarOne
			}
		}
	}
	if sc, ok := c.(SWCase); ok && (strings.Contains(msg, "in-domain input not satisfiable") || strings.Contains(msg, "wrong claimed output")) {
		if oppositeYDistinctX(&sc) {
			return SigAddUnifiedOppY
		}
	}
	if ac, ok := c.(AdvCase); ok {
		cv := curves[ac.Curve]
		sv := new(big.Int).Mod(unhx(ac.S), cv.R)
		pm1 := sv.Cmp(big.NewInt(1)) == 0 || sv.Cmp(new(big.Int).Sub(cv.R, big.NewInt(1))) == 0
		base := cv.G
		if ac.Op == opMul {
			base = ac.P.point()
		}
		switch {
		case strings.Contains(msg, "is satisfiable") && cv.Lambda != nil && ac.Complete &&
			(sameAbscissa(cv, base, sv, ac.Claim) || sv.Sign() == 0 || sv.Cmp(new(big.Int).Sub(cv.R, big.NewInt(1))) == 0 || base.isInf()):
			return SigCompleteBypass
		case strings.Contains(msg, "rejects the native result") && cv.Lambda == nil && fakeGLVCollision(cv, sv):
			return SigFakeGLVScalarOne
		case strings.Contains(msg, "is satisfiable") && cv.Lambda != nil && (ac.Strategy == "zero-subscalars" || (ac.Strategy == "small-subscalars" && ac.K&0xf == 0)):
			return SigZeroSubscalars
		case strings.Contains(msg, "rejects the native result") && cv.Lambda == nil && pm1:
			return SigFakeGLVScalarOne
		case strings.Contains(msg, "not satisfiable with the native result") && cv.Lambda != nil && pm1 && !ac.Complete:
			return SigScalarOne
		}
	}
	if sc, ok := c.(SWCase); ok && strings.Contains(msg, "in-domain input not satisfiable") && curves[sc.Curve].Lambda == nil {
		cv := curves[sc.Curve]
		for _, x := range sc.Scalars {
			m := new(big.Int).Mod(x.value(), cv.R)
			if fakeGLVCollision(cv, m) {
				return SigFakeGLVScalarOne
			}
		}
	}
	for _, k := range knownSignatures {
		if strings.Contains(msg, k.needle) {
			return k.sig
		}
	}
	return ""
}

// Signatures of the defects this check found on gnark f97c049 (see the final
// report); each is matched on a stable fragment of the violation message.
var knownSignatures = []struct{ needle, sig string }{
	{"solver does not return: the halfGCDEisenstein hint", SigEisenstein},
}

// oppositeYDistinctX reports whether two operands (or two scalar-multiplied
// terms of a complete-arithmetic sum) have y1 = -y2 with x1 != x2, e.g. Q = -phi(P).
func oppositeYDistinctX(c *SWCase) bool {
	cv := curves[c.Curve]
	var terms []point
	switch c.Op {
	case opAddU:
		for _, p := range c.Points {
			terms = append(terms, p.point())
		}
	case opJoint:
		if !c.Complete {
			return false
		}
		terms = append(terms, cv.mul(c.Points[0].point(), c.Scalars[0].value()), cv.mul(cv.G, c.Scalars[1].value()))
	case opMSM:
		if !c.Complete {
			return false
		}
		for i := range c.Points {
			terms = append(terms, cv.mul(c.Points[i].point(), c.Scalars[i].value()))
		}
		// partial sums of the pairs are combined with AddUnified as well
		acc := inf()
		for _, t := range terms {
			acc = cv.add(acc, t)
			terms = append(terms, acc)
		}
	default:
		return false
	}
	for i := range terms {
		for j := i + 1; j < len(terms); j++ {
			a, b := terms[i], terms[j]
			if a.isInf() || b.isInf() || a.X.Cmp(b.X) == 0 {
				continue
			}
			if new(big.Int).Mod(new(big.Int).Add(a.Y, b.Y), cv.P).Sign() == 0 {
				return true
			}
		}
	}
	return false
}

func sameAbscissa(cv *swCurve, base point, s *big.Int, claim string) bool {
	cp, _ := claimPoint(cv, base, s, claim)
	return cp.X.Cmp(base.X) == 0
}

// fakeGLVCollision: s in {+-1, +-3, +-1/3} makes the hinted R = [s]Q collide with the
// precomputed table {+-Q, +-3Q, +-R, +-3R} of scalarMulFakeGLV.
func fakeGLVCollision(cv *swCurve, s *big.Int) bool {
	inv3 := new(big.Int).ModInverse(big.NewInt(3), cv.R)
	for _, k := range []*big.Int{big.NewInt(1), big.NewInt(3), inv3} {
		if s.Cmp(k) == 0 || s.Cmp(new(big.Int).Sub(cv.R, k)) == 0 {
			return true
		}
	}
	return false
}

const (
	// sw_emulated scalarMulGLVAndFakeGLV with WithCompleteArithmetic: the relation check is skipped when s = 0, s = -1,
	// P = (0,0) or the *hinted* result has the abscissa of P; the returned point is the unconstrained hint output
	SigCompleteBypass = "glvfakeglv-complete-selector-bypass"
	// sw_emulated scalarMulGLVAndFakeGLV (secp256k1, BN254, BLS12-381, BW6-761): the hinted Eisenstein
	// sub-scalars u1,u2,v1,v2 may all be 0; the relation [v]Q + [u]P = 0 then holds for every Q:
	// ScalarMul / ScalarMulBase accept any claimed result
	SigZeroSubscalars = "glvfakeglv-zero-subscalars-any-output"
	// sw_emulated scalarMulFakeGLV (P-256, P-384): s in {+-1, +-3, +-1/3} unsatisfiable with and without complete arithmetic
	SigFakeGLVScalarOne = "fakeglv-scalarmul-scalar-pm1"
	// AddUnified (emulated and native): for y1 = -y2 with x1 != x2 (e.g. Q = -phi(P) on j=0 curves) the
	// gadget returns (0,0) instead of P+Q
	SigAddUnifiedOppY = "addunified-opposite-y-distinct-x"
	// sw_emulated ScalarMul / ScalarMulBase / MultiScalarMul without complete arithmetic: s = +-1 (mod r) is inside the
	// documented domain (s != 0, Q != (0,0)) but the circuit is unsatisfiable ([s]P = +-P meets the incomplete addition)
	SigScalarOne = "emulated-scalarmul-incomplete-scalar-pm1"
	// sw_emulated ScalarMul on GLV curves: hint never returns for s = r-k (small k), +-lambda-k, ...
	SigEisenstein = "eisenstein-halfgcd-nontermination"
)

// openFinding consults /verif/known_findings.json; for development runs only,
// C16_DEV_ASSUME_OPEN=sig1,sig2 treats the listed signatures as open findings.
func openFinding(sig string) (ev.Finding, bool) {
	if kf, ok := ev.OpenFinding(ID, sig); ok {
		return kf, true
	}
	for _, s := range strings.Split(os.Getenv("C16_DEV_ASSUME_OPEN"), ",") {
		if s != "" && s == sig {
			return ev.Finding{ID: "DEV-" + sig, Property: ID, Status: "open", Match: sig, What: "development override: " + sig}, true
		}
	}
	return ev.Finding{}, false
}

// withKnown turns a violation that matches an open known finding into a
// KNOWN-FINDING discard.
func withKnown(rec *ev.Recorder, kind string, o ev.Outcome, c ...any) ev.Outcome {
	if o.Violation == "" {
		return o
	}
	var cc any
	if len(c) > 0 {
		cc = c[0]
	}
	if sig := signature(kind, cc, o.Violation); sig != "" {
		if kf, ok := openFinding(sig); ok {
			rec.KnownFinding(kf.ID, kf.What)
			return ev.Outcome{Discard: true, DiscardWhy: "known finding " + kf.ID}
		}
	}
	return o
}

// knownOrViolate is the enumeration-side counterpart: returns true if the
// violation was absorbed by an open known finding, otherwise records it and fails t.
func knownOrViolate(t *testing.T, rec *ev.Recorder, kind string, c any, msg string) bool {
	if sig := signature(kind, c, msg); sig != "" {
		if kf, ok := openFinding(sig); ok {
			rec.KnownFinding(kf.ID, kf.What)
			rec.Discarded(kind + ":known finding " + kf.ID)
			return true
		}
	}
	p := rec.Violate(kind, c, msg)
	t.Errorf("VIOLATION %s kind=%s replay=%s: %s", ID, kind, p, msg)
	return false
}

func registerMoreReplays(reg func(kind string, f func(raw json.RawMessage) string)) {
	reg("adv", func(raw json.RawMessage) string {
		var c AdvCase
		if json.Unmarshal(raw, &c) != nil {
			return ""
		}
		return runAdv(c).Violation
	})
}

func TestChildNoop(t *testing.T) {}

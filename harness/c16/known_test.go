package c16

// Known findings of this check on gnark f97c049 (registered in
// /verif/known_findings.json). For every *open* entry
//   - a dedicated probe (the exact failing input / strategy) runs on every check
//     run and the KNOWN-FINDING line is printed iff the probe still reproduces;
//   - the generators exclude exactly the shape of the finding by construction
//     (counted as discards) so that the search continues behind it.
// Entries that are not open (fixed / removed) exclude nothing: the shapes are
// then ordinary inputs and the probes ordinary regression cases.

import (
	"encoding/json"
	"math/big"
	"sync"
	"testing"

	"github.com/consensys/gnark-crypto/ecc/bls12-381/bandersnatch"

	"verifharness/lib/ev"
)

const (
	// sw_emulated scalarMulGLVAndFakeGLV (secp256k1, BN254, BLS12-381, BW6-761): the hinted Eisenstein
	// sub-scalars u1,u2,v1,v2 may all be 0; the relation [v]Q + [u]P = 0 then holds for every Q.
	SigZeroSubscalars = "glvfakeglv-zero-subscalars-any-output"
	// same function with WithCompleteArithmetic: the relation is skipped when s = 0, s = -1, P = (0,0) or the
	// *hinted* result has the abscissa of P, and the unconstrained hint output is returned.
	SigCompleteBypass = "glvfakeglv-complete-selector-bypass"
	// AddUnified (emulated and native): y1 = -y2 with x1 != x2 (e.g. Q = -phi(P)) returns (0,0) instead of P+Q.
	SigAddUnifiedOppY = "addunified-opposite-y-distinct-x"
	// halfGCDEisenstein hint never returns for s = r-k (small k), lambda-k, +-lambda, ...
	SigEisenstein = "eisenstein-halfgcd-nontermination"
	// GLV curves without complete arithmetic: s = +-1 unsatisfiable although documented as in-domain.
	SigScalarOne = "emulated-scalarmul-incomplete-scalar-pm1"
	// scalarMulFakeGLV (P-256, P-384): s in {+-1, +-3, +-1/3} unsatisfiable with and without complete arithmetic.
	SigFakeGLVScalarOne = "fakeglv-scalarmul-scalar-pm1"
)

// twistededwards ScalarMul (fake GLV): scalar 0 makes the halfGCD hint divide by zero (ecc.PrecomputeLattice):
// unsatisfiable in the test engine, panic escaping the compiled solver.
const SigTEZeroScalar = "twistededwards-scalarmul-zero-scalar"

// twistededwards scalarMulFakeGLV: the decomposition is not bound to the scalar. The hinted (s1, s2, bit, k) may be
// all zero ([0]P + [0]Q = (0,1) for every hinted Q), and since k is an unbounded native hint output, any small
// (s1, s2) passes s1 +- s2*s == k*Order with k solved in the native field: the circuit accepts Q = [s']P for any s'.
// The exclusion covers exactly the strategies that rewrite the halfGCD hint outputs of twistededwards.
const SigTEZeroSubscalars = "twistededwards-fakeglv-zero-subscalars-any-output"

func teAltersHalfGCD(strategy string) bool {
	switch strategy {
	case "zero-subscalars", "flip-bit", "perturb", "zero-one", "decomp-of-claim", "free-k":
		return true
	}
	return false
}

// twistededwards ScalarMul on Bandersnatch with the identity point: the scalarMulHint calls gnark-crypto's
// bandersnatch.PointAffine.ScalarMultiplication, whose GLV path returns the off-curve (0,0) for the identity
// and a scalar above the small-window range: the valid input is unsatisfiable (root cause in gnark-crypto).
const SigBandersnatchIdentity = "bandersnatch-scalarmul-identity-offcurve-hint"

// bandersnatchNativeOffCurve is the exact shape: gnark-crypto's own result for (p, s) is not on the curve.
func bandersnatchNativeOffCurve(p point, s *big.Int) bool {
	var a, r bandersnatch.PointAffine
	a.X.SetBigInt(p.X)
	a.Y.SetBigInt(p.Y)
	r.ScalarMultiplication(&a, s)
	return !r.IsOnCurve()
}

func excludedTEPoint(curve, op string, p Pt, scalars []string) string {
	if _, ok := open(SigBandersnatchIdentity); ok && curve == "bandersnatch" && op == "ScalarMul" && len(scalars) == 1 {
		if q := p.point(); teCurves[curve].onCurve(q) && bandersnatchNativeOffCurve(q, unhx(scalars[0])) {
			return SigBandersnatchIdentity
		}
	}
	return ""
}

// excludedTECase / excludedTEAdvCase: the exact shapes of the open twisted-Edwards findings.
func excludedTECase(c *TECase) string {
	if sig := excludedTE(c.Curve, c.Op, c.Scalars); sig != "" {
		return sig
	}
	if c.Op == "ScalarMul" && len(c.Points) == 1 {
		return excludedTEPoint(c.Curve, c.Op, c.Points[0], c.Scalars)
	}
	return ""
}

func excludedTEAdvCase(c *TEAdvCase) string {
	if sig := excludedTE(c.Curve, "ScalarMul", []string{c.S}); sig != "" {
		return sig
	}
	if sig := excludedTEPoint(c.Curve, "ScalarMul", c.P, []string{c.S}); sig != "" {
		return sig
	}
	if _, ok := open(SigTEZeroSubscalars); ok && teAltersHalfGCD(c.Strategy) {
		return SigTEZeroSubscalars
	}
	return ""
}

func excludedTE(curve, op string, scalars []string) string {
	if _, ok := open(SigTEZeroScalar); ok && op == "ScalarMul" {
		cv := teCurves[curve]
		if cv != nil && len(scalars) == 1 && new(big.Int).Mod(unhx(scalars[0]), cv.Order).Sign() == 0 {
			return SigTEZeroScalar
		}
	}
	return ""
}

// std/signature/ecdsa Verify compares the bits of x(R) (reduced mod p) with the bits of r without reducing x(R)
// mod n: a natively valid signature whose commitment has n <= x(R) < p (r = x(R) - n) is rejected.
const SigECDSANoReduction = "ecdsa-xR-not-reduced-mod-n"

// PairingCheck (sw_bn254, sw_bls12381, native sw_bls12377; same loops in the other pairing packages): the
// pairingCheckHint parses `for k := 0; k < n/6+1; k += 2` / `for k := n/3; k < n/2+3; k += 4`, i.e. only
// ceil((N+1)/2) of the N input pairs: for N >= 3 pairs the residue witness is computed on a subset and a true
// pairing equation is unsatisfiable.
const SigPairingCheck3 = "pairingcheck-hint-three-or-more-pairs"

func excludedPair(c *PairCase, r *big.Int) string {
	if _, ok := open(SigPairingCheck3); ok && c.Kind == "check" && len(c.A)+1 >= 3 && new(big.Int).Mod(unhx(c.Delta), r).Sign() == 0 {
		return SigPairingCheck3
	}
	return ""
}

func excludedECDSA(c *ECDSACase) string {
	cv := curves[c.Curve]
	if _, ok := open(SigECDSANoReduction); ok && cv != nil {
		if want, _, X := ecdsaEquation(cv, c.Q.point(), unhx(c.R), unhx(c.S), unhx(c.M)); want && X.X.Cmp(cv.R) >= 0 {
			return SigECDSANoReduction
		}
	}
	return ""
}

func open(sig string) (ev.Finding, bool) { return ev.OpenFinding(ID, sig) }

func isGLVEmulated(curve string) bool {
	cv := curves[curve]
	return cv != nil && cv.Lambda != nil && curve != "bls12377"
}

func isFakeGLV(curve string) bool { return curve == "p256" || curve == "p384" }

func pm1(cv *swCurve, s *big.Int) bool {
	m := new(big.Int).Mod(s, cv.R)
	return m.Cmp(big.NewInt(1)) == 0 || m.Cmp(new(big.Int).Sub(cv.R, big.NewInt(1))) == 0
}

// fakeGLVCollision: s in {+-1, +-3, +-1/3} makes the hinted R = [s]Q collide with the
// precomputed table {+-Q, +-3Q, +-R, +-3R} of scalarMulFakeGLV.
func fakeGLVCollision(cv *swCurve, s *big.Int) bool {
	m := new(big.Int).Mod(s, cv.R)
	inv3 := new(big.Int).ModInverse(big.NewInt(3), cv.R)
	for _, k := range []*big.Int{big.NewInt(1), big.NewInt(3), inv3} {
		if m.Cmp(k) == 0 || m.Cmp(new(big.Int).Sub(cv.R, k)) == 0 {
			return true
		}
	}
	return false
}

// smCall is one invocation of the single-point variable-base routine
// (ScalarMul -> scalarMulGLVAndFakeGLV / scalarMulFakeGLV) made by the case.
type smCall struct {
	P point
	S *big.Int
}

// scalarMulCalls lists those invocations with their (native) operands.
func scalarMulCalls(c *SWCase) []smCall {
	cv := curves[c.Curve]
	var r []smCall
	v := func(i int) *big.Int { return new(big.Int).Mod(c.Scalars[i].value(), cv.R) }
	pt := func(i int) point { return c.Points[i].point() }
	switch c.Op {
	case opMul:
		r = append(r, smCall{pt(0), v(0)})
	case opMulBase:
		if isGLVEmulated(c.Curve) {
			r = append(r, smCall{cv.G, v(0)}) // ScalarMulBase = scalarMulGLVAndFakeGLV(G, s) on GLV curves
		}
	case opFold:
		// res = [g]P[n-1]; for i = n-2..1: res = [g](P[i] + res)
		n := len(c.Points)
		if n == 0 {
			return nil
		}
		g := v(0)
		r = append(r, smCall{pt(n - 1), g})
		res := cv.mul(pt(n-1), g)
		for i := n - 2; i > 0; i-- {
			res = cv.add(pt(i), res)
			r = append(r, smCall{res, g})
			res = cv.mul(res, g)
		}
	case opMSM:
		n := len(c.Scalars)
		if isFakeGLV(c.Curve) || c.Complete {
			for i := 0; i < n; i++ { // jointScalarMul = two single scalar multiplications
				r = append(r, smCall{pt(i), v(i)})
			}
		} else if n%2 == 1 {
			r = append(r, smCall{pt(n - 1), v(n - 1)})
		}
	case opJoint:
		if isFakeGLV(c.Curve) || c.Complete {
			r = append(r, smCall{pt(0), v(0)}, smCall{cv.G, v(1)})
		}
	}
	return r
}

func scalarMulScalars(c *SWCase) []*big.Int {
	var r []*big.Int
	for _, k := range scalarMulCalls(c) {
		r = append(r, k.S)
	}
	return r
}

// sw_emulated scalarMulGLVAndFakeGLV adds the generator to the accumulator (`Acc = c.Add(Acc, g)`) assuming
// "Acc cannot be equal to G"; Acc = +-P +-Q +-phi(P) +-phi(Q) with Q = [s]P. For P in the small orbit of G
// (ScalarMulBase: P = G) and s with tiny GLV sub-scalars Acc = +-G: the honest prover meets x-equal operands
// in the incomplete Add, with and without complete arithmetic.
const SigAccEqualsG = "glvfakeglv-accumulator-equals-generator"

// scalarMulFakeGLV (P-256 / P-384) with complete arithmetic returned the raw hinted point when s = 0 or
// Q = (0,0) (F49, fixed): kept as a regression probe.
const SigFakeGLVCompleteBypass = "fakeglv-complete-selector-bypass"

// accumulatorEqualsG is the shape of the finding: the accumulator of the joint double-and-add is
// (small combination of P, Q=[s]P, phi(P), phi(Q)) + [2^t]G and the routine assumes it never meets a table
// entry +-B_i (itself such a small combination). It does iff some combination with coefficients in -3..3
// equals +-[2^t]G for a small t, which needs P in the small orbit of G and s with tiny sub-scalars.
func accumulatorEqualsG(cv *swCurve, P point, s *big.Int) bool {
	if cv.Lambda == nil || P.isInf() || new(big.Int).Mod(s, cv.R).Sign() == 0 {
		return false
	}
	Q := cv.mul(P, s)
	if Q.isInf() {
		return false
	}
	const T = 12
	target := map[string]bool{}
	g := cv.G
	for t := 0; t <= T; t++ {
		target[g.X.String()] = true
		g = cv.add(g, g)
	}
	terms := []point{P, Q, cv.mul(P, cv.Lambda), cv.mul(Q, cv.Lambda)}
	// multiples -3..3 of every term
	var mult [4][7]point
	for i, t := range terms {
		for c := -3; c <= 3; c++ {
			mult[i][c+3] = cv.mul(t, big.NewInt(int64(c)))
		}
	}
	for c0 := 0; c0 <= 3; c0++ { // overall sign is irrelevant for the abscissa
		a0 := mult[0][c0+3]
		for c1 := -3; c1 <= 3; c1++ {
			a1 := cv.add(a0, mult[1][c1+3])
			for c2 := -3; c2 <= 3; c2++ {
				a2 := cv.add(a1, mult[2][c2+3])
				for c3 := -3; c3 <= 3; c3++ {
					a3 := cv.add(a2, mult[3][c3+3])
					if !a3.isInf() && target[a3.X.String()] {
						return true
					}
				}
			}
		}
	}
	return false
}

// sw_emulated scalarMulBaseGeneric (ScalarMulBase on the curves without endomorphism) evaluates the incomplete
// `add(res, [2^i]g)` for every bit position before selecting on the bit, and the final `Add(res, -g)` likewise:
// unsatisfiable when a partial sum equals +-[2^i]g (s = n-1, n-2^(b-1), n-2^(b-1)-1; with and without complete
// arithmetic) or when res = g at the end without complete arithmetic (s = 1).
const SigBaseGeneric = "scalarmulbase-generic-incomplete-add-collision"

var (
	gmMu    sync.Mutex
	gmCache = map[string][]point{}
)

// baseGenericCollision replays the fixed-base double-and-add on the reference arithmetic (exact shape).
func baseGenericCollision(cv *swCurve, s *big.Int, complete bool) bool {
	if s.Cmp(cv.R) == 0 && baseGenericCollisionBits(cv, s, complete) {
		return true // emulated.ValueOf keeps the modulus itself unreduced: its own bits are decomposed
	}
	return baseGenericCollisionBits(cv, new(big.Int).Mod(s, cv.R), complete)
}

func baseGenericCollisionBits(cv *swCurve, k *big.Int, complete bool) bool {
	n := cv.R.BitLen()
	gmMu.Lock()
	gm, ok := gmCache[cv.Name]
	if !ok {
		gm = make([]point, n)
		gm[0] = cv.G
		for i := 1; i < n; i++ {
			gm[i] = cv.add(gm[i-1], gm[i-1])
		}
		gmCache[cv.Name] = gm
	}
	gmMu.Unlock()
	res := cv.mul(cv.G, big.NewInt(int64(1+2*k.Bit(1)+4*k.Bit(2))))
	for i := 3; i < n; i++ {
		if res.isInf() || res.X.Cmp(gm[i].X) == 0 {
			return true
		}
		if k.Bit(i) == 1 {
			res = cv.add(res, gm[i])
		}
	}
	return res.isInf() || (!complete && res.X.Cmp(cv.G.X) == 0)
}

// oppositeYDistinctX reports whether two operands of an AddUnified call (the
// operands themselves, or the scalar-multiplied terms / partial sums that a
// complete-arithmetic sum combines with AddUnified) have y1 = -y2 and x1 != x2.
func oppositeYDistinctX(c *SWCase) bool {
	cv := curves[c.Curve]
	var terms []point
	switch c.Op {
	case opAddU:
		for _, p := range c.Points {
			terms = append(terms, p.point())
		}
	case opJoint:
		if !c.Complete && !isFakeGLV(c.Curve) {
			return false
		}
		terms = append(terms, cv.mul(c.Points[0].point(), c.Scalars[0].value()), cv.mul(cv.G, c.Scalars[1].value()))
	case opMSM:
		if !c.Complete && !isFakeGLV(c.Curve) {
			return false
		}
		for i := range c.Points {
			terms = append(terms, cv.mul(c.Points[i].point(), c.Scalars[i].value()))
		}
		acc := inf()
		for _, t := range terms {
			acc = cv.add(acc, t)
			terms = append(terms, acc)
		}
	case opFold:
		// res = [g]P[n-1]; for i = n-2..0: res = addFn(P[i], res) (AddUnified with complete arithmetic); res = [g]res
		if !c.Complete || len(c.Points) < 2 {
			return false
		}
		g := c.Scalars[0].value()
		res := cv.mul(c.Points[len(c.Points)-1].point(), g)
		for i := len(c.Points) - 2; i >= 0; i-- {
			p := c.Points[i].point()
			if !p.isInf() && !res.isInf() && p.X.Cmp(res.X) != 0 && new(big.Int).Mod(new(big.Int).Add(p.Y, res.Y), cv.P).Sign() == 0 {
				return true
			}
			res = cv.add(p, res)
			if i > 0 {
				res = cv.mul(res, g)
			}
		}
		return false
	default:
		return false
	}
	for i := range terms {
		for j := i + 1; j < len(terms); j++ {
			a, b := terms[i], terms[j]
			if a.isInf() || b.isInf() || a.X.Cmp(b.X) == 0 {
				continue
			}
			if new(big.Int).Mod(new(big.Int).Add(a.Y, b.Y), cv.P).Sign() == 0 {
				return true
			}
		}
	}
	return false
}

// excludedSW returns the signature of the open finding whose exact shape the case has ("" = none).
func excludedSW(c *SWCase) string {
	cv := curves[c.Curve]
	if cv == nil {
		return ""
	}
	if _, inDomain, _ := reference(c); !inDomain {
		return ""
	}
	if _, ok := open(SigEisenstein); ok {
		if deg, _ := degenerateScalar(c); deg {
			return SigEisenstein
		}
	}
	if _, ok := open(SigAddUnifiedOppY); ok && oppositeYDistinctX(c) {
		return SigAddUnifiedOppY
	}
	if _, ok := open(SigScalarOne); ok && isGLVEmulated(c.Curve) && !c.Complete {
		for _, s := range scalarMulScalars(c) {
			if pm1(cv, s) {
				return SigScalarOne
			}
		}
	}
	if _, ok := open(SigFakeGLVScalarOne); ok && isFakeGLV(c.Curve) {
		for _, s := range scalarMulScalars(c) {
			if fakeGLVCollision(cv, s) {
				return SigFakeGLVScalarOne
			}
		}
	}
	if _, ok := open(SigAccEqualsG); ok && isGLVEmulated(c.Curve) {
		for _, k := range scalarMulCalls(c) {
			if accumulatorEqualsG(cv, k.P, k.S) {
				return SigAccEqualsG
			}
		}
	}
	if _, ok := open(SigBaseGeneric); ok && isFakeGLV(c.Curve) && c.Op == opMulBase && baseGenericCollision(cv, c.Scalars[0].value(), c.Complete) {
		return SigBaseGeneric
	}
	return ""
}

// excludedAdv is the same for the hint-adversary cases.
func excludedAdv(c *AdvCase) string {
	cv := curves[c.Curve]
	if cv == nil {
		return ""
	}
	s := new(big.Int).Mod(unhx(c.S), cv.R)
	base := cv.G
	if c.Op == opMul {
		base = c.P.point()
	}
	glv := isGLVEmulated(c.Curve)
	if _, ok := open(SigZeroSubscalars); ok && glv && c.Strategy == "zero-subscalars" {
		return SigZeroSubscalars
	}
	if _, ok := open(SigCompleteBypass); ok && glv && c.Complete && c.Strategy != "baseline" {
		cp, _ := claimPoint(cv, base, s, c.Claim)
		if s.Sign() == 0 || s.Cmp(new(big.Int).Sub(cv.R, big.NewInt(1))) == 0 || base.isInf() || cp.X.Cmp(base.X) == 0 {
			return SigCompleteBypass
		}
	}
	// F49 (fixed in 5fdc533): the same flaw in the sibling routine scalarMulFakeGLV (P-256 / P-384, s = 0 or
	// P = (0,0) with complete arithmetic). Only an *open* entry would exclude the shape; the cases are asserted.
	if _, ok := open(SigFakeGLVCompleteBypass); ok && isFakeGLV(c.Curve) && c.Op == opMul && c.Complete && c.Strategy != "baseline" && (s.Sign() == 0 || base.isInf()) {
		return SigFakeGLVCompleteBypass
	}
	if _, ok := open(SigScalarOne); ok && glv && !c.Complete && pm1(cv, s) {
		return SigScalarOne
	}
	if _, ok := open(SigFakeGLVScalarOne); ok && isFakeGLV(c.Curve) && c.Op == opMul && fakeGLVCollision(cv, s) {
		return SigFakeGLVScalarOne
	}
	if _, ok := open(SigAccEqualsG); ok && glv && c.Strategy == "baseline" && accumulatorEqualsG(cv, base, s) {
		return SigAccEqualsG
	}
	if _, ok := open(SigBaseGeneric); ok && isFakeGLV(c.Curve) && c.Op == opMulBase && c.Strategy == "baseline" && baseGenericCollision(cv, s, c.Complete) {
		return SigBaseGeneric
	}
	return ""
}

// ---- probes -------------------------------------------------------------------------

type probe struct {
	sig  string
	kind string
	c    any
	run  func() ev.Outcome
}

func probes() []probe {
	secp, bn := curves["secp256k1"], curves["bn254"]
	val := func(v *big.Int) Sc { return Sc{Form: "val", A: hx(v)} }
	P := secp.derive("probe")
	var ps []probe
	sw := func(sig string, c SWCase) {
		ps = append(ps, probe{sig, "sw", c, func() ev.Outcome { return runSW(c) }})
	}
	adv := func(sig string, c AdvCase) {
		ps = append(ps, probe{sig, "adv", c, func() ev.Outcome { return runAdv(c) }})
	}
	// F24: all four Eisenstein sub-scalars zero, hinted point replaced, default options
	adv(SigZeroSubscalars, AdvCase{Curve: "secp256k1", Op: opMul, P: P.pt(), S: "1c0503b3050701ff00910002030318cba90c00911f445f0700140102b6068101", Claim: "next", Strategy: "zero-subscalars"})
	adv(SigZeroSubscalars, AdvCase{Curve: "bn254", Op: opMulBase, S: "1c0503b3050701ff00910002030318cba90c00911f445f0700140102b6068101", Claim: "rand", Strategy: "zero-subscalars"})
	// F25: complete arithmetic, hinted result with the abscissa of P; and s = 0 with an arbitrary hinted point
	adv(SigCompleteBypass, AdvCase{Curve: "secp256k1", Op: opMulBase, Complete: true, S: "b48d193d1372000519690491426c2202cc00020003172aeeeb3960f0a014c2", Claim: "negP", Strategy: "point-only"})
	adv(SigCompleteBypass, AdvCase{Curve: "bn254", Op: opMul, Complete: true, P: bn.derive("probe").pt(), S: "0", Claim: "G", Strategy: "point-only"})
	// F49 regression (scalarMulFakeGLV, complete arithmetic): P = (0,0) resp. s = 0, hinted point replaced / sub-scalars swapped
	adv(SigFakeGLVCompleteBypass, AdvCase{Curve: "p256", Op: opMul, Complete: true, P: inf().pt(), S: "ea901acc9014c055303ab160202905a3f19bbfc1a9602160dfb5d3c01076bff", Claim: "rand", Strategy: "point-only"})
	adv(SigFakeGLVCompleteBypass, AdvCase{Curve: "p256", Op: opMul, Complete: true, P: curves["p256"].derive("probe").pt(), S: "0", Claim: "G", Strategy: "swap-subscalars", K: 1})
	adv(SigFakeGLVCompleteBypass, AdvCase{Curve: "p384", Op: opMul, Complete: true, P: curves["p384"].derive("probe").pt(), S: "0", Claim: "rand", Strategy: "decomp-of-claim", K: 3})
	// accumulator = +-G: ScalarMulBase(lambda+1) on secp256k1 (default options) and BN254 (complete arithmetic, as in ECMul)
	for _, cu := range []struct {
		name     string
		complete bool
	}{{"secp256k1", false}, {"bn254", true}} {
		cv := curves[cu.name]
		sw(SigAccEqualsG, SWCase{Curve: cu.name, Op: opMulBase, Complete: cu.complete, Scalars: []Sc{val(new(big.Int).Add(cv.Lambda, big.NewInt(1)))}})
	}
	// fixed-base generic routine: s = n-1 with complete arithmetic, s = 1 with default options (P-256)
	sw(SigBaseGeneric, SWCase{Curve: "p256", Op: opMulBase, Complete: true, Scalars: []Sc{val(new(big.Int).Sub(curves["p256"].R, big.NewInt(1)))}})
	sw(SigBaseGeneric, SWCase{Curve: "p256", Op: opMulBase, Scalars: []Sc{val(big.NewInt(1))}})
	// F26: Q = -phi(G) + G
	endo := secp.neg(secp.mul(secp.G, secp.Lambda))
	sw(SigAddUnifiedOppY, SWCase{Curve: "secp256k1", Op: opAddU, Points: []Pt{endo.pt(), secp.G.pt()}})
	b377 := curves["bls12377"]
	sw(SigAddUnifiedOppY, SWCase{Curve: "bls12377", Op: opAddU, Points: []Pt{b377.neg(b377.mul(b377.G, b377.Lambda)).pt(), b377.G.pt()}})
	// F27: s = r-2 (complete arithmetic) never returns
	sw(SigEisenstein, SWCase{Curve: "secp256k1", Op: opMul, Complete: true, Points: []Pt{P.pt()}, Scalars: []Sc{val(new(big.Int).Sub(secp.R, big.NewInt(2)))}})
	// F28: s = 1 without complete arithmetic
	sw(SigScalarOne, SWCase{Curve: "secp256k1", Op: opMul, Points: []Pt{P.pt()}, Scalars: []Sc{val(big.NewInt(1))}})
	// F29: s = 3 (incomplete) and s = 1 (complete) on P-256
	p256 := curves["p256"]
	sw(SigFakeGLVScalarOne, SWCase{Curve: "p256", Op: opMul, Points: []Pt{p256.derive("probe").pt()}, Scalars: []Sc{val(big.NewInt(3))}})
	sw(SigFakeGLVScalarOne, SWCase{Curve: "p256", Op: opMul, Complete: true, Points: []Pt{p256.G.pt()}, Scalars: []Sc{val(big.NewInt(1))}})
	// PairingCheck with three pairs: e(5G1,3G2) e(7G1,2G2) e(-29G1,G2) = 1
	for _, cu := range []string{"bn254", "bls12377"} {
		pc := PairCase{Curve: cu, Kind: "check", A: []string{"5", "7"}, B: []string{"3", "2"}, Delta: "0"}
		ps = append(ps, probe{SigPairingCheck3, "pairing", pc, func() ev.Outcome { return runPair(pc) }})
	}
	// ECDSA: valid signature with x(R) = n + 2 (secp256k1)
	ec := ECDSACase{Curve: "secp256k1", Q: Pt{X: "eaec0bb888d4b60c4348e430a73b6ba4a37448224973a3e9d8add7cedd047441", Y: "826ad2139cf05e113d7a22eca938d1c8196add3a0d6419cbd0ed467715d06d14"}, R: "2",
		S: "821bd05eb8bd015babe8b09ee827326645049b0cd3201cb81c2e3f25cd343161", M: "7f0745955f4bd0c406fa1e3752ca0e373b3ec43f6d84eea68202a3116e2d61e6", Mut: "x(R)>=n"}
	ps = append(ps, probe{SigECDSANoReduction, "ecdsa", ec, func() ev.Outcome { return runECDSA(ec) }})
	// twisted Edwards ScalarMul with the half-GCD hint outputs all zero and the hinted result replaced
	tea := TEAdvCase{Curve: "bn254", P: teCurves["bn254"].derive("probe").pt(), S: "1c0503b3050701ff00910002030318cba90c00911f445f07", Claim: "addB", Strategy: "zero-subscalars"}
	ps = append(ps, probe{SigTEZeroSubscalars, "te-adv", tea, func() ev.Outcome { return runTEAdv(tea) }})
	// same root cause: decomposition of s+1 with the overflow counter k solved in the native field => [s+1]P accepted
	teb := TEAdvCase{Curve: "bn254", P: tea.P, S: tea.S, Claim: "next", Strategy: "free-k"}
	ps = append(ps, probe{SigTEZeroSubscalars, "te-adv", teb, func() ev.Outcome { return runTEAdv(teb) }})
	// Bandersnatch ScalarMul(identity, large scalar)
	tb := TECase{Curve: "bandersnatch", Op: "ScalarMul", Points: []Pt{teIdentity().pt()}, Scalars: []string{"deadbeefcafebabe1234567890abcdef1234567890abcdef"}}
	ps = append(ps, probe{SigBandersnatchIdentity, "te", tb, func() ev.Outcome { return runTE(tb) }})
	// twisted Edwards ScalarMul(P, 0)
	te := TECase{Curve: "bn254", Op: "ScalarMul", Points: []Pt{teCurves["bn254"].derive("probe").pt()}, Scalars: []string{"0"}}
	ps = append(ps, probe{SigTEZeroScalar, "te", te, func() ev.Outcome { return runTE(te) }})
	return ps
}

// TestKnownFindingProbes runs the probe of every finding. Open finding and the
// probe reproduces: KNOWN-FINDING. Not open and the probe fails: fresh violation.
func TestKnownFindingProbes(t *testing.T) {
	t.Parallel()
	rec := ev.Get(ID)
	rec.SetRule(rule)
	if !firstShard() {
		return
	}
	for _, p := range probes() {
		o := p.run()
		kf, isOpen := open(p.sig)
		switch {
		case o.Violation != "" && isOpen:
			rec.KnownFinding(kf.ID, kf.What)
			rec.Discarded("probe:reproduced open finding " + kf.ID)
			rec.SaveReplay(p.kind, p.c, "probe of open finding "+kf.ID+": "+trunc(o.Violation, 1500)) // replayable witness of the finding
		case o.Violation != "":
			path := rec.Violate(p.kind, p.c, o.Violation)
			t.Errorf("VIOLATION %s kind=%s replay=%s: %s", ID, p.kind, path, trunc(o.Violation, 1200))
		case o.Discard:
			rec.Discarded("probe:" + o.DiscardWhy)
		default:
			if isOpen {
				rec.Note("probe of open finding %s (%s) no longer reproduces", kf.ID, p.sig)
			}
			rec.Count(p.kind, p.c, true, append(o.Classes, "source:probe")...)
		}
	}
}

func registerMoreReplays(reg func(kind string, f func(raw json.RawMessage) string)) {
	reg("adv", func(raw json.RawMessage) string {
		var c AdvCase
		if json.Unmarshal(raw, &c) != nil {
			return ""
		}
		if excludedAdv(&c) != "" {
			return "" // exact shape of an open known finding: reported by its probe, never as a fresh violation
		}
		return runAdv(c).Violation
	})
	reg("ecdsa", func(raw json.RawMessage) string {
		var c ECDSACase
		if json.Unmarshal(raw, &c) != nil {
			return ""
		}
		if excludedECDSA(&c) != "" {
			return ""
		}
		return runECDSA(c).Violation
	})
	reg("pairing", func(raw json.RawMessage) string {
		var c PairCase
		if json.Unmarshal(raw, &c) != nil {
			return ""
		}
		if excludedPair(&c, pairOrder(c.Curve)) != "" {
			return ""
		}
		return runPair(c).Violation
	})
	reg("ecrecover", func(raw json.RawMessage) string {
		var c ECRecCase
		if json.Unmarshal(raw, &c) != nil {
			return ""
		}
		return runECRec(c).Violation
	})
	reg("evm-bn", func(raw json.RawMessage) string {
		var c BNCase
		if json.Unmarshal(raw, &c) != nil {
			return ""
		}
		if sw := c.asSW(); excludedSW(&sw) != "" {
			return ""
		}
		return runBN(c).Violation
	})
	reg("expmod", func(raw json.RawMessage) string {
		var c ExpmodCase
		if json.Unmarshal(raw, &c) != nil {
			return ""
		}
		return runExpmod(c).Violation
	})
	reg("pairing-sweep", func(raw json.RawMessage) string {
		var c PairSweepCase
		if json.Unmarshal(raw, &c) != nil {
			return ""
		}
		return runPairSweep(c).Violation
	})
	reg("te", func(raw json.RawMessage) string {
		var c TECase
		if json.Unmarshal(raw, &c) != nil {
			return ""
		}
		if excludedTECase(&c) != "" {
			return ""
		}
		return runTE(c).Violation
	})
	reg("eddsa", func(raw json.RawMessage) string {
		var c EdDSACase
		if json.Unmarshal(raw, &c) != nil {
			return ""
		}
		return runEdDSA(c).Violation
	})
	reg("te-adv", func(raw json.RawMessage) string {
		var c TEAdvCase
		if json.Unmarshal(raw, &c) != nil {
			return ""
		}
		if excludedTEAdvCase(&c) != "" {
			return ""
		}
		return runTEAdv(c).Violation
	})
}

func TestChildNoop(t *testing.T) {}

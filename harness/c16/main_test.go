// C16 — curve and signature gadgets match native results, exceptional cases included.
//
// Oracles: reference big-integer curve arithmetic cross-validated against
// gnark-crypto / crypto/elliptic (oracle_test.go), gnark-crypto and crypto/ecdsa
// signature verification. Technique: generated inputs (rapid) and tables of
// exceptional points / scalars crossed with operations; test engine for breadth,
// compiled R1CS for a subset and for the hint adversary.
package c16

import (
	"encoding/json"
	"fmt"
	"math/big"
	"os"
	"sync"
	"testing"

	"verifharness/lib/ev"
	"verifharness/lib/prog"

	"github.com/consensys/gnark/logger"
	"github.com/consensys/gnark/std"
	"pgregory.net/rapid"
)

const ID = "C16"

func TestMain(m *testing.M) {
	logger.Disable()
	std.RegisterHints()
	if os.Getenv(childEnv) != "" {
		childMain()
	}
	if err := selfCheck(); err != nil {
		panic("C16 oracle self-check failed: " + err.Error())
	}
	if err := teSelfCheck(); err != nil {
		panic("C16 oracle self-check failed: " + err.Error())
	}
	reg := func(kind string, f func(raw json.RawMessage) string) { ev.RegisterReplay(kind, f) }
	reg("sw", func(raw json.RawMessage) string {
		var c SWCase
		if json.Unmarshal(raw, &c) != nil {
			return ""
		}
		if excludedSW(&c) != "" {
			return "" // exact shape of an open known finding: reported by its probe, never as a fresh violation
		}
		return runSW(c).Violation
	})
	registerMoreReplays(reg)
	ev.Main(m)
}

func TestReplay(t *testing.T) { ev.Replay(t) }

const rule = "tables of exceptional points (infinity as (0,0), G, -G, P, -P, [2]P, endomorphism images, low-order points) and scalars (0, 1, 2, r-1, r, r+1, >r as lazy sums / raw limbs, 2^k, +-lambda, half-size) crossed with operations and the complete-arithmetic option, plus rapid-generated mixes; signatures valid / altered / boundary; hint-adversary strategies on the decomposition hints. Non-trivial: at least one operand in an exceptional class (or result at infinity), or an invalid signature / false pairing equation, or an adversarial strategy. Distinct: SHA-256 of the case JSON."

// ---- compiled (R1CS) support ---------------------------------------------------

type compiledKey struct {
	curve, op string
	complete  bool
	np, ns    int
	sum       string
}

var (
	compiledMu    sync.Mutex
	compiledCache = map[compiledKey]prog.System{}
)

func fieldOf(q *big.Int) prog.Field {
	for _, f := range prog.Curves() {
		if f.Q.Cmp(q) == 0 {
			return f
		}
	}
	panic("no such field")
}

func compiledSystem(c *SWCase, tg swTarget) (prog.System, error) {
	sum := ""
	for _, s := range c.Scalars {
		if s.Form == "sum" {
			sum += "1"
		} else {
			sum += "0"
		}
	}
	k := compiledKey{c.Curve, c.Op, c.Complete, len(c.Points), len(c.Scalars), sum}
	compiledMu.Lock()
	defer compiledMu.Unlock()
	if s, ok := compiledCache[k]; ok {
		return s, nil
	}
	ci, _ := tg.build(c, inf())
	s, err := prog.Compile(fieldOf(tg.field), prog.R1CS, ci)
	if err != nil {
		return nil, err
	}
	compiledCache[k] = s
	return s, nil
}

// compiledHonest compiles the circuit of the case to R1CS and checks that the
// native result solves it and (if requested) the wrong claimed output does not.
func compiledHonest(c *SWCase, tg swTarget, out point) string {
	sys, err := compiledSystem(c, tg)
	if err != nil {
		return "compile failed: " + err.Error()
	}
	f := fieldOf(tg.field)
	_, as := tg.build(c, out)
	w, err := prog.Witness(f, as)
	if err != nil {
		return "witness: " + err.Error()
	}
	if _, err := prog.Solve(sys, w); err != nil {
		return fmt.Sprintf("compiled R1CS: in-domain input not satisfiable with the native result: %v", trimErr(err))
	}
	if c.Wrong != "" {
		_, as := tg.build(c, wrongOutput(c, out))
		w, _ := prog.Witness(f, as)
		_, err := prog.Solve(sys, w)
		if err == nil {
			return "compiled R1CS: wrong claimed output accepted"
		}
		if isPanic(err) {
			return "compiled R1CS: " + err.Error()
		}
	}
	return ""
}

// ---- generators -----------------------------------------------------------------

// pointTable returns named exceptional / generic points of a curve relative to a base point label.
func genPoint(cv *swCurve, t *rapid.T, label string, prev []point, allowLow bool) point {
	kinds := []string{"rand", "rand", "inf", "G", "-G", "2G", "endoG"}
	if len(prev) > 0 {
		kinds = append(kinds, "same", "opp", "double-of-prev", "endo-of-prev", "same", "opp")
	}
	if allowLow && len(cv.LowOrder) > 0 {
		kinds = append(kinds, "low")
	}
	switch rapid.SampledFrom(kinds).Draw(t, label+"-kind") {
	case "inf":
		return inf()
	case "G":
		return cv.G
	case "-G":
		return cv.neg(cv.G)
	case "2G":
		return cv.mul(cv.G, big.NewInt(int64(rapid.SampledFrom([]int{2, 3, -2}).Draw(t, label+"-k"))))
	case "endoG":
		if cv.Lambda == nil {
			return cv.mul(cv.G, big.NewInt(5))
		}
		k := new(big.Int).Exp(cv.Lambda, big.NewInt(int64(rapid.IntRange(1, 2).Draw(t, label+"-e"))), cv.R)
		if rapid.Bool().Draw(t, label+"-neg") {
			k.Sub(cv.R, k)
		}
		return cv.mul(cv.G, k)
	case "same":
		return prev[len(prev)-1]
	case "opp":
		return cv.neg(prev[len(prev)-1])
	case "double-of-prev":
		return cv.add(prev[len(prev)-1], prev[len(prev)-1])
	case "endo-of-prev":
		if cv.Lambda == nil {
			return cv.mul(prev[len(prev)-1], big.NewInt(3))
		}
		return cv.mul(prev[len(prev)-1], cv.Lambda)
	case "low":
		return rapid.SampledFrom(cv.LowOrder).Draw(t, label+"-low")
	}
	return cv.derive(fmt.Sprintf("pt-%d", rapid.IntRange(0, 1<<20).Draw(t, label+"-seed")))
}

func randBelow(t *rapid.T, label string, n *big.Int) *big.Int {
	nb := (n.BitLen() + 7) / 8
	b := rapid.SliceOfN(rapid.Byte(), nb, nb).Draw(t, label)
	v := new(big.Int).SetBytes(b)
	return v.Mod(v, n)
}

func genScalar(cv *swCurve, t *rapid.T, label string) Sc {
	r := cv.R
	one := big.NewInt(1)
	kinds := []string{"rand", "rand", "0", "1", "2", "3", "r-1", "r-2", "r", "sum=r", "sum=r+1", "sum>r", "2^k", "half", "sum=0"}
	if cv.Name != "bls12377" {
		// raw (non-canonical) limb witnesses: only where the scalar stays an emulated element;
		// the 2-chain wrapper packs the limbs into one native variable (no documented support)
		kinds = append(kinds, "raw>r", "raw=r+1")
	}
	if cv.Lambda != nil {
		kinds = append(kinds, "lambda", "lambda")
	}
	val := func(v *big.Int) Sc { return Sc{Form: "val", A: hx(v)} }
	switch rapid.SampledFrom(kinds).Draw(t, label+"-kind") {
	case "0":
		return val(big.NewInt(0))
	case "1":
		return val(one)
	case "2":
		return val(big.NewInt(2))
	case "3":
		return val(big.NewInt(3))
	case "r-1":
		return val(new(big.Int).Sub(r, one))
	case "r-2":
		return val(new(big.Int).Sub(r, big.NewInt(2)))
	case "r":
		return val(r) // ValueOf keeps the modulus itself unreduced
	case "sum=r":
		a := randBelow(t, label+"-a", r)
		if a.Sign() == 0 {
			a.SetInt64(1)
		}
		return Sc{Form: "sum", A: hx(a), B: hx(new(big.Int).Sub(r, a))}
	case "sum=0":
		return Sc{Form: "sum", A: "0", B: "0"}
	case "sum=r+1":
		a := randBelow(t, label+"-a", r)
		if a.Cmp(one) <= 0 {
			a.SetInt64(2)
		}
		b := new(big.Int).Sub(r, a)
		return Sc{Form: "sum", A: hx(a), B: hx(b.Add(b, one))}
	case "sum>r":
		a := randBelow(t, label+"-a", r)
		b := new(big.Int).Sub(r, one)
		return Sc{Form: "sum", A: hx(a), B: hx(b)}
	case "raw=r+1":
		v := new(big.Int).Add(r, one)
		if v.BitLen() > r.BitLen() {
			return val(one)
		}
		return Sc{Form: "raw", A: hx(v)}
	case "raw>r":
		top := new(big.Int).Lsh(one, uint(r.BitLen()))
		span := new(big.Int).Sub(top, r)
		v := randBelow(t, label+"-a", span)
		return Sc{Form: "raw", A: hx(v.Add(v, r))}
	case "2^k":
		k := rapid.IntRange(2, r.BitLen()-1).Draw(t, label+"-k")
		return val(new(big.Int).Lsh(one, uint(k)))
	case "half":
		v := randBelow(t, label+"-a", new(big.Int).Lsh(one, uint(r.BitLen()/2)))
		return val(v)
	case "lambda":
		l := new(big.Int).Exp(cv.Lambda, big.NewInt(int64(rapid.IntRange(1, 2).Draw(t, label+"-e"))), r)
		l.Add(l, big.NewInt(int64(rapid.IntRange(-1, 1).Draw(t, label+"-d"))))
		if rapid.Bool().Draw(t, label+"-neg") {
			l.Sub(r, l)
		}
		return val(l.Mod(l, r))
	}
	return val(randBelow(t, label+"-a", r))
}

func genSW(curveNames []string, ops []string, compiledPct int) *rapid.Generator[SWCase] {
	return rapid.Custom(func(t *rapid.T) SWCase {
		c := SWCase{Curve: rapid.SampledFrom(curveNames).Draw(t, "curve")}
		cv := curves[c.Curve]
		tg := swTargets[c.Curve]
		var avail []string
		for _, o := range ops {
			for _, p := range tg.ops {
				if o == p {
					avail = append(avail, o)
				}
			}
		}
		c.Op = rapid.SampledFrom(avail).Draw(t, "op")
		switch c.Op {
		case opAdd, opNeg, opDouble, opAddU:
		default:
			c.Complete = rapid.IntRange(0, 2).Draw(t, "complete") != 0
		}
		n := 0
		if c.Op == opMSM {
			n = rapid.IntRange(1, 4).Draw(t, "n")
		} else if c.Op == opFold {
			n = rapid.IntRange(2, 4).Draw(t, "n")
		}
		np, ns := opShape(c.Op, n)
		pure := c.Op == opAdd || c.Op == opAddU || c.Op == opNeg || c.Op == opDouble
		var ps []point
		for i := 0; i < np; i++ {
			p := genPoint(cv, t, fmt.Sprintf("p%d", i), ps, pure)
			ps = append(ps, p)
			c.Points = append(c.Points, p.pt())
		}
		for i := 0; i < ns; i++ {
			c.Scalars = append(c.Scalars, genScalar(cv, t, fmt.Sprintf("s%d", i)))
		}
		// yield: operands outside the documented domain of an incomplete method are
		// moved to the complete variant (where they are asserted) most of the time
		if _, inDomain, _ := reference(&c); !inDomain && rapid.IntRange(0, 9).Draw(t, "keep-out-of-domain") != 0 {
			switch c.Op {
			case opAdd:
				c.Op = opAddU
			case opMul, opMulBase, opJoint, opMSM, opFold:
				c.Complete = true
			}
		}
		c.Wrong = rapid.SampledFrom([]string{"", "", "neg", "addG", "inf"}).Draw(t, "wrong")
		c.Compiled = rapid.IntRange(0, 99).Draw(t, "compiled") < compiledPct
		return c
	})
}

// ---- tests ----------------------------------------------------------------------

// TestTable crosses the exceptional point and scalar tables with ScalarMul /
// ScalarMulBase / AddUnified on the minimum-viable curves (deterministic enumeration).
func TestTable(t *testing.T) {
	t.Parallel()
	rec := ev.Get(ID)
	rec.SetRule(rule)
	rec.Assume("the reference big-integer curve arithmetic equals gnark-crypto / crypto/elliptic (cross-validated at start-up)")
	if !firstShard() {
		return
	}
	for _, name := range []string{"secp256k1", "bn254", "bls12377"} {
		cv := curves[name]
		r := cv.R
		one := big.NewInt(1)
		P := cv.derive("table")
		val := func(v *big.Int) Sc { return Sc{Form: "val", A: hx(v)} }
		scalars := []Sc{val(big.NewInt(0)), val(one), val(big.NewInt(2)), val(new(big.Int).Sub(r, one)), val(r),
			{Form: "sum", A: hx(new(big.Int).Sub(r, one)), B: "2"}, {Form: "sum", A: hx(new(big.Int).Sub(r, one)), B: hx(new(big.Int).Sub(r, one))},
			val(cv.Lambda), val(new(big.Int).Sub(r, cv.Lambda))}
		points := []point{inf(), cv.G, P}
		var cases []SWCase
		for _, complete := range []bool{true, false} {
			for _, s := range scalars {
				for _, p := range points {
					cases = append(cases, SWCase{Curve: name, Op: opMul, Complete: complete, Points: []Pt{p.pt()}, Scalars: []Sc{s}})
				}
				cases = append(cases, SWCase{Curve: name, Op: opMulBase, Complete: complete, Scalars: []Sc{s}})
			}
		}
		pts2 := []point{inf(), P, cv.neg(P), cv.G}
		for _, p := range pts2 {
			for _, q := range pts2 {
				cases = append(cases, SWCase{Curve: name, Op: opAddU, Points: []Pt{p.pt(), q.pt()}, Wrong: "addG"})
			}
		}
		for i, c := range cases {
			if ev.Tier() == "quick" && ev.N(100, 100) < 100 && i%4 != 0 {
				continue // VERIF_SCALE development runs
			}
			if sig := excludedSW(&c); sig != "" {
				rec.Discarded("sw-table:excluded shape of open finding " + sig)
				continue
			}
			o := runSW(c)
			if o.Discard {
				rec.Discarded("sw-table:" + o.DiscardWhy)
				continue
			}
			if o.Violation != "" {
				p := rec.Violate("sw", c, o.Violation)
				t.Errorf("VIOLATION %s kind=sw replay=%s: %s", ID, p, trunc(o.Violation, 1200))
				return
			}
			rec.Count("sw", c, o.NonTrivial, append(o.Classes, "source:table")...)
		}
	}
}

func swProperty(t *testing.T, curveNames, ops []string, compiledPct, quick, thorough int) {
	rec := ev.Get(ID)
	rec.SetRule(rule)
	g := genSW(curveNames, ops, compiledPct)
	checkSerial(rec, t, "sw", ev.N(quick, thorough), func(rt *rapid.T) {
		c := g.Draw(rt, "case")
		if sig := excludedSW(&c); sig != "" {
			rec.Discarded("sw:excluded shape of open finding " + sig)
			return
		}
		rec.Begin("sw", c)
		rec.Report(rt, "sw", c, runSW(c))
	})
}

var (
	cheapOps = []string{opAdd, opAddU, opNeg, opDouble}
	mulOps   = []string{opMul, opMul, opMulBase, opJoint, opMSM, opFold}
)

func TestGroupLawMin(t *testing.T) {
	t.Parallel()
	swProperty(t, []string{"secp256k1", "bn254", "bls12377"}, cheapOps, 10, 150, 4000)
}

func TestScalarMulSecp256k1(t *testing.T) {
	t.Parallel()
	swProperty(t, []string{"secp256k1"}, mulOps, 4, 60, 1600)
}

func TestScalarMulBN254(t *testing.T) {
	t.Parallel()
	swProperty(t, []string{"bn254"}, mulOps, 4, 60, 1600)
}

func TestScalarMulNative377(t *testing.T) {
	t.Parallel()
	swProperty(t, []string{"bls12377"}, mulOps, 4, 60, 1600)
}

func TestOtherCurves(t *testing.T) {
	t.Parallel()
	names := []string{"p256", "p384", "bls12381"}
	if ev.Tier() == "thorough" {
		names = []string{"p256", "p256", "p384", "p384", "bls12381", "bls12381", "bw6761"}
	}
	swProperty(t, names, append(append([]string{}, mulOps...), cheapOps...), 0, 45, 1000)
}

// checkSerial is ev.Recorder.Check made safe for t.Parallel tests: rapid reads
// its (global) -rapid.checks / -rapid.seed flags at the start of rapid.Check,
// before the first invocation of the property, so the flag update and that
// read are serialised by a mutex released on the first property invocation.
// Case count and seed of every test are then a pure function of VERIF_SEED.
var rapidFlagsMu sync.Mutex

func checkSerial(rec *ev.Recorder, t *testing.T, kind string, n int, prop func(rt *rapid.T)) {
	rapidFlagsMu.Lock()
	var once sync.Once
	unlock := func() { once.Do(rapidFlagsMu.Unlock) }
	defer unlock()
	rec.Check(t, kind, n, func(rt *rapid.T) {
		unlock()
		prop(rt)
	})
}

// firstShard: deterministic enumerations (tables, probes) are seed-independent,
// so in the sharded thorough tier only shard 0 runs them.
func firstShard() bool { return ev.Tier() != "thorough" || ev.Shard() == 0 }

package c16

// EdDSA with small-order (torsion) components. A signature whose defect
// [S]G - R - [h]A is a non-trivial point of the 2-Sylow subgroup verifies
// natively only thanks to the cofactor clearing (gnark-crypto checks
// [c][S]G == [c](R + [h]A)). Such signatures never arise from an honest signer
// but are constructible by anyone: R = [r]G + T (and / or A = [a]G + T) with T of
// exact order 2, 4 or 8, h = H(R, A, M) over THOSE points, S = r + h*a mod l.
// Oracle: gnark-crypto's own eddsa PublicKey.Verify on the serialised bytes of
// exactly these points, for every companion curve.

import (
	"crypto/sha256"
	"fmt"
	"math/big"
	"sync"
	"testing"

	"verifharness/lib/ev"

	gceddsa "github.com/consensys/gnark-crypto/signature/eddsa"
)

// teCompress follows gnark-crypto's PointAffine.Bytes (RFC 8032 style): Y big endian with the top bit flagging a
// lexicographically largest X, then byte-reversed.
func teCompress(cv *teCurve, p point) []byte {
	y := feBytes(cv, p.Y)
	half := new(big.Int).Rsh(new(big.Int).Sub(cv.Q, big.NewInt(1)), 1)
	if p.X.Cmp(half) > 0 {
		y[0] |= 0x80
	}
	for i, j := 0, len(y)-1; i < j; i, j = i+1, j-1 {
		y[i], y[j] = y[j], y[i]
	}
	return y
}

// eddsaGnarkCrypto runs gnark-crypto's verifier of the curve on (A, R, S, msg) serialised through its own
// public-key / signature byte formats. usable=false: refused at the encoding level (S = 0, S >= order, ...).
func eddsaGnarkCrypto(cv *teCurve, A, R point, S, msg *big.Int) (accept bool, usable bool) {
	if !cv.onCurve(A) || !cv.onCurve(R) || S.Sign() <= 0 || S.Cmp(cv.Order) >= 0 {
		return false, false
	}
	signer, err := gceddsa.New(cv.ID, &detReader{seed: sha256.Sum256([]byte("pk-holder-" + cv.Name))})
	if err != nil {
		return false, false
	}
	pk := signer.Public()
	if _, err := pk.SetBytes(teCompress(cv, A)); err != nil {
		return false, false
	}
	n := (cv.Q.BitLen() + 7) / 8
	sig := append(teCompress(cv, R), make([]byte, n)...)
	S.FillBytes(sig[n:])
	ok, err := pk.Verify(sig, feBytes(cv, msg), cv.Hash.New())
	if err != nil {
		return false, false
	}
	return ok, true
}

var (
	torsionMu    sync.Mutex
	torsionCache = map[string]map[int]point{}
)

// torsion returns, per exact order (2, 4, 8 as far as they divide the cofactor), a point of that order: a
// generator of the (cyclic) 2-Sylow subgroup is found as [l]P for curve points P at successive abscissae.
func torsion(cv *teCurve) map[int]point {
	torsionMu.Lock()
	defer torsionMu.Unlock()
	if t, ok := torsionCache[cv.Name]; ok {
		return t
	}
	res := map[int]point{}
	c := int(cv.Cofactor.Int64())
	order := func(p point) int {
		k := 1
		for !p.eq(teIdentity()) && k <= c {
			p = cv.add(p, p)
			k *= 2
		}
		return k
	}
	one := big.NewInt(1)
	for x := int64(2); x < 2000 && len(res) == 0; x++ {
		// a x^2 + y^2 = 1 + d x^2 y^2  =>  y^2 = (1 - a x^2) / (1 - d x^2)
		xx := big.NewInt(x * x)
		num := new(big.Int).Sub(one, new(big.Int).Mul(cv.A, xx))
		den := new(big.Int).Sub(one, new(big.Int).Mul(cv.D, xx))
		den.Mod(den, cv.Q)
		if den.Sign() == 0 {
			continue
		}
		num.Mul(num, new(big.Int).ModInverse(den, cv.Q)).Mod(num, cv.Q)
		y := new(big.Int).ModSqrt(num, cv.Q)
		if y == nil {
			continue
		}
		p := point{big.NewInt(x), y}
		if !cv.onCurve(p) {
			continue
		}
		t := cv.mul(p, cv.Order)
		if order(t) != c {
			continue
		}
		for k := c; k >= 2; k /= 2 {
			res[k] = t
			t = cv.add(t, t)
		}
	}
	if len(res) == 0 {
		// 2-Sylow subgroup not cyclic over the affine model (e.g. Bandersnatch, a = -5 non-square: the only affine
		// small-order points are those of lowOrder()): use these with their exact orders
		for _, p := range cv.lowOrder() {
			if k := order(p); k > 1 {
				res[k] = p
			}
		}
	}
	torsionCache[cv.Name] = res
	return res
}

func teSeeded(cv *teCurve, label string) *big.Int {
	h := sha256.Sum256([]byte(fmt.Sprintf("eddsa-torsion|%s|%s|%d", cv.Name, label, ev.Seed())))
	v := new(big.Int).SetBytes(h[:])
	v.Mod(v, new(big.Int).Sub(cv.Order, big.NewInt(2)))
	return v.Add(v, big.NewInt(1))
}

// torsionSignature signs with the reference arithmetic: where = "R", "A" or "RA" says which of R, A carries T.
func torsionSignature(cv *teCurve, T point, where string, a, r, msg *big.Int) EdDSACase {
	A := cv.mul(cv.Base, a)
	R := cv.mul(cv.Base, r)
	if where == "R" || where == "RA" {
		R = cv.add(R, T)
	}
	if where == "A" || where == "RA" {
		A = cv.add(A, T)
	}
	h := cv.Hash.New()
	for _, v := range []*big.Int{R.X, R.Y, A.X, A.Y, msg} {
		h.Write(feBytes(cv, v))
	}
	hram := new(big.Int).SetBytes(h.Sum(nil))
	S := new(big.Int).Mul(hram, a)
	S.Add(S, r).Mod(S, cv.Order)
	return EdDSACase{Curve: cv.Name, A: A.pt(), R: R.pt(), S: hx(S), Msg: hx(msg)}
}

// TestEdDSATorsion: every companion curve x every non-trivial torsion order x {R, A, both}.
func TestEdDSATorsion(t *testing.T) {
	t.Parallel()
	rec := ev.Get(ID)
	rec.SetRule(rule)
	if !firstShard() {
		return
	}
	for _, name := range teNames {
		cv := teCurves[name]
		tors := torsion(cv)
		if len(tors) == 0 {
			rec.Note("eddsa-torsion: no generator of the 2-Sylow subgroup found on %s", name)
			continue
		}
		for k := 2; k <= int(cv.Cofactor.Int64()); k *= 2 {
			if _, ok := tors[k]; !ok {
				rec.Note("eddsa-torsion: no affine point of exact order %d on %s", k, name)
				continue
			}
			for _, where := range []string{"R", "A", "RA"} {
				c := torsionSignature(cv, tors[k], where, teSeeded(cv, "a"+where), teSeeded(cv, fmt.Sprint("r", k, where)), teSeeded(cv, fmt.Sprint("m", k, where)))
				c.Mut = fmt.Sprintf("torsion-order-%d-in-%s", k, where)
				o := runEdDSA(c)
				switch {
				case o.Discard:
					rec.Discarded("eddsa-torsion:" + o.DiscardWhy)
				case o.Violation != "":
					p := rec.Violate("eddsa", c, o.Violation)
					t.Errorf("VIOLATION %s kind=eddsa replay=%s: %s", ID, p, trunc(o.Violation, 1200))
					return
				default:
					rec.Count("eddsa", c, true, append(o.Classes, "source:torsion-table")...)
				}
			}
		}
	}
}

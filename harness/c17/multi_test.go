package c17

// Multi-proof entry points of std/recursion/plonk (AssertSameProofs, AssertDifferentProofs) and the
// KZG gadget's own multi-point batch (BatchVerifyMultiPoints): accept  <=>  the native verifier
// accepts every inner proof / the native batch verifier accepts; genuine, single tampers at every
// position and the adversarial family "pairwise cancelling errors" over every pair of opening checks.

import (
	"encoding/json"
	"fmt"
	"math/big"
	"reflect"
	"runtime"
	"sort"
	"strings"
	"sync"
	"testing"

	"verifharness/lib/ev"
	"verifharness/lib/prog"
	"verifharness/lib/zk"

	fiatshamir "github.com/consensys/gnark-crypto/fiat-shamir"
	"github.com/consensys/gnark/backend/plonk"
	"github.com/consensys/gnark/backend/witness"
	"github.com/consensys/gnark/constraint"
	"github.com/consensys/gnark/frontend"
	"github.com/consensys/gnark/std/algebra"
	"github.com/consensys/gnark/std/math/emulated"
	"github.com/consensys/gnark/std/recursion"
	stdplonk "github.com/consensys/gnark/std/recursion/plonk"
	"pgregory.net/rapid"
)

func init() {
	ev.RegisterReplay("multi", func(raw json.RawMessage) string {
		var c MultiCase
		if err := json.Unmarshal(raw, &c); err != nil {
			return ""
		}
		return runMulti(c, ev.Get(ID)).Violation
	})
}

// ---------------------------------------------------------------------------
// outer circuit

type multiIn struct {
	CCS           constraint.ConstraintSystem
	API           string // same | diff
	Complete      bool
	KeysInWitness bool                 // diff: candidate circuit keys in the witness (else constants)
	Keys          []plonk.VerifyingKey // same: one key; diff: candidate keys, base key taken from Keys[0]
	Sels          []int                // diff: selector per proof
	Proofs        []plonk.Proof
	Pubs          []witness.Witness
}

type plonkMulti[FR emulated.FieldParams, G1 algebra.G1ElementT, G2 algebra.G2ElementT, GT algebra.GtElementT] struct {
	Proofs     []stdplonk.Proof[FR, G1, G2]
	Witnesses  []stdplonk.Witness[FR]
	Selectors  []frontend.Variable
	CKeys      []stdplonk.CircuitVerifyingKey[FR, G1]
	ConstVK    []stdplonk.VerifyingKey[FR, G1, G2]     `gnark:"-"`
	ConstBase  []stdplonk.BaseVerifyingKey[FR, G1, G2] `gnark:"-"`
	ConstCKeys []stdplonk.CircuitVerifyingKey[FR, G1]  `gnark:"-"`
	Complete   bool                                    `gnark:"-"`
}

func (c *plonkMulti[FR, G1, G2, GT]) Define(api frontend.API) error {
	v, err := stdplonk.NewVerifier[FR, G1, G2, GT](api)
	if err != nil {
		return fmt.Errorf("new verifier: %w", err)
	}
	var opts []stdplonk.VerifierOption
	if c.Complete {
		opts = append(opts, stdplonk.WithCompleteArithmetic())
	}
	if len(c.ConstVK) == 1 {
		return v.AssertSameProofs(c.ConstVK[0], c.Proofs, c.Witnesses, opts...)
	}
	ckeys := c.CKeys
	if len(c.ConstCKeys) > 0 {
		ckeys = c.ConstCKeys
	}
	return v.AssertDifferentProofs(c.ConstBase[0], ckeys, c.Selectors, c.Proofs, c.Witnesses, opts...)
}

func (p pairT[FR, G1, G2, GT]) PlonkMulti(in multiIn) (frontend.Circuit, frontend.Circuit, error) {
	n := len(in.Proofs)
	circ := &plonkMulti[FR, G1, G2, GT]{Complete: in.Complete}
	asg := &plonkMulti[FR, G1, G2, GT]{}
	circ.Proofs = make([]stdplonk.Proof[FR, G1, G2], n)
	circ.Witnesses = make([]stdplonk.Witness[FR], n)
	asg.Proofs = make([]stdplonk.Proof[FR, G1, G2], n)
	asg.Witnesses = make([]stdplonk.Witness[FR], n)
	var err error
	for i := 0; i < n; i++ {
		circ.Proofs[i] = stdplonk.PlaceholderProof[FR, G1, G2](in.CCS)
		circ.Witnesses[i] = stdplonk.PlaceholderWitness[FR](in.CCS)
		if asg.Proofs[i], err = stdplonk.ValueOfProof[FR, G1, G2](in.Proofs[i]); err != nil {
			return nil, nil, fmt.Errorf("ValueOfProof: %w", err)
		}
		if asg.Witnesses[i], err = stdplonk.ValueOfWitness[FR](in.Pubs[i]); err != nil {
			return nil, nil, fmt.Errorf("ValueOfWitness: %w", err)
		}
	}
	if in.API == "same" {
		vk, err := stdplonk.ValueOfVerifyingKey[FR, G1, G2](in.Keys[0])
		if err != nil {
			return nil, nil, err
		}
		circ.ConstVK = []stdplonk.VerifyingKey[FR, G1, G2]{vk}
		return circ, asg, nil
	}
	base, err := stdplonk.ValueOfBaseVerifyingKey[FR, G1, G2](in.Keys[0])
	if err != nil {
		return nil, nil, err
	}
	circ.ConstBase = []stdplonk.BaseVerifyingKey[FR, G1, G2]{base}
	ck := make([]stdplonk.CircuitVerifyingKey[FR, G1], len(in.Keys))
	for i, k := range in.Keys {
		if ck[i], err = stdplonk.ValueOfCircuitVerifyingKey[FR, G1](k); err != nil {
			return nil, nil, err
		}
	}
	if in.KeysInWitness {
		circ.CKeys = make([]stdplonk.CircuitVerifyingKey[FR, G1], len(ck))
		for i := range circ.CKeys {
			circ.CKeys[i] = stdplonk.PlaceholderCircuitVerifyingKey[FR, G1](in.CCS)
		}
		asg.CKeys = ck
	} else {
		circ.ConstCKeys = ck
	}
	circ.Selectors = make([]frontend.Variable, n)
	asg.Selectors = make([]frontend.Variable, n)
	for i := range asg.Selectors {
		asg.Selectors[i] = in.Sels[i]
	}
	return circ, asg, nil
}

// ---------------------------------------------------------------------------
// case

// Slot is one inner proof of the genuine baseline.
type Slot struct {
	Proof string `json:"proof"` // a | a2 | alt | b
	Sel   int    `json:"sel"`   // diff: index into MultiCase.Keys
}

// MVariant is one outer evaluation derived from the baseline.
type MVariant struct {
	Kind string `json:"kind"` // genuine | tamper | cancel
	// tamper: the edit T (public source / public edit / element edit) applied to slot Pos, and/or its selector moved
	Pos      int    `json:"pos,omitempty"`
	T        Triple `json:"t,omitempty"`
	SelShift int    `json:"sel_shift,omitempty"`
	// cancel: opening checks I < J (check 2s = batched opening of slot s at ζ, 2s+1 = opening of Z at ωζ):
	// quotient_I += C·(z_J-τ)·G, quotient_J -= C·(z_I-τ)·G
	I int   `json:"i,omitempty"`
	J int   `json:"j,omitempty"`
	C int64 `json:"c,omitempty"`
}

type MultiCase struct {
	Pair          string        `json:"pair"`
	API           string        `json:"api"` // same | diff
	Prog          *prog.Program `json:"prog"`
	Alt           []prog.Val    `json:"alt"`
	Mut           Mutation      `json:"mut"`
	Tau           string        `json:"tau"`
	Complete      bool          `json:"complete"`
	KeysInWitness bool          `json:"keys_in_witness"`
	Keys          []string      `json:"keys,omitempty"` // diff: candidate keys (a, b: same SRS)
	Slots         []Slot        `json:"slots"`
	Variants      []MVariant    `json:"variants"`
}

type slotVal struct {
	proof any
	pub   []*big.Int
	key   *ikey
	sel   int
}

// zetaOf recomputes the evaluation point ζ of a PLONK proof as the native verifier (configured with
// the recursion options) derives it.
func zetaOf(outer, inner *big.Int, proof, vk any, pub []*big.Int) (*big.Int, error) {
	h, err := recursion.NewShort(outer, inner)
	if err != nil {
		return nil, err
	}
	fs := fiatshamir.NewTranscript(h, "gamma", "beta", "alpha", "zeta")
	var berr error
	bind := func(name string, pts ...reflect.Value) {
		for _, p := range pts {
			arr := p.Addr().MethodByName("RawBytes").Call(nil)[0]
			bs := make([]byte, arr.Len())
			reflect.Copy(reflect.ValueOf(bs), arr)
			if e := fs.Bind(name, bs); e != nil && berr == nil {
				berr = e
			}
		}
	}
	kv, pv := zk.Elem(vk), zk.Elem(proof)
	S := kv.FieldByName("S")
	bind("gamma", S.Index(0), S.Index(1), S.Index(2))
	for _, n := range []string{"Ql", "Qr", "Qm", "Qo", "Qk"} {
		bind("gamma", kv.FieldByName(n))
	}
	qcp := kv.FieldByName("Qcp")
	for i := 0; i < qcp.Len(); i++ {
		bind("gamma", qcp.Index(i))
	}
	frBytes := (inner.BitLen() + 63) / 64 * 8
	for _, x := range pub {
		if e := fs.Bind("gamma", x.FillBytes(make([]byte, frBytes))); e != nil && berr == nil {
			berr = e
		}
	}
	lro := pv.FieldByName("LRO")
	bind("gamma", lro.Index(0), lro.Index(1), lro.Index(2))
	bsb := pv.FieldByName("Bsb22Commitments")
	for i := 0; i < bsb.Len(); i++ {
		bind("alpha", bsb.Index(i))
	}
	bind("alpha", pv.FieldByName("Z"))
	H := pv.FieldByName("H")
	bind("zeta", H.Index(0), H.Index(1), H.Index(2))
	if berr != nil {
		return nil, berr
	}
	var zeta *big.Int
	for _, name := range []string{"gamma", "beta", "alpha", "zeta"} {
		b, err := fs.ComputeChallenge(name)
		if err != nil {
			return nil, err
		}
		zeta = new(big.Int).SetBytes(b)
	}
	return zeta.Mod(zeta, inner), nil
}

// openingPoints returns (ζ, ωζ) of a genuine proof after checking them against the KZG equation of
// the Z opening, Z - zu·G == (τ-ωζ)·H (τ known): a wrong recomputation would make the family vacuous.
func (in *inner) openingPoints(proof any, k *ikey, pub []*big.Int) (z [2]*big.Int, err error) {
	q := in.f.Q
	zeta, err := zetaOf(in.p.Outer(), q, proof, k.pl.VK, pub)
	if err != nil {
		return z, err
	}
	kv, pv := zk.Elem(k.pl.VK), zk.Elem(proof)
	omega := zk.FrGet(kv.FieldByName("Generator"))
	shifted := new(big.Int).Mul(zeta, omega)
	shifted.Mod(shifted, q)
	tau := new(big.Int).Add(in.tau, big.NewInt(k.srs))
	G := kv.FieldByName("Kzg").FieldByName("G1")
	zs := pv.FieldByName("ZShiftedOpening")
	zu := zk.FrGet(zs.FieldByName("ClaimedValue"))
	lhs, t := zk.NewLike(G), zk.NewLike(G)
	zk.PMul(t, G, zu)
	zk.PNeg(t, t)
	zk.PAdd(lhs, pv.FieldByName("Z"), t)
	d := new(big.Int).Sub(tau, shifted)
	d.Mod(d, q)
	rhs := zk.NewLike(G)
	zk.PMul(rhs, zs.FieldByName("H"), d)
	if !zk.PEqual(lhs, rhs) {
		return z, fmt.Errorf("recomputed zeta does not satisfy the opening equation of Z")
	}
	return [2]*big.Int{zeta, shifted}, nil
}

var quotientPath = [2]string{"BatchedProof.H", "ZShiftedOpening.H"}

// shiftQuotient adds k·G to the quotient of check `which` of proof (in place).
func shiftQuotient(proof any, vk any, which int, k, q *big.Int) {
	G := zk.Elem(vk).FieldByName("Kzg").FieldByName("G1")
	d := zk.NewLike(G)
	kk := new(big.Int).Mod(k, q)
	zk.PMul(d, G, kk)
	h := zk.Path(zk.Elem(proof), quotientPath[which])
	zk.PAdd(h, h, d)
}

type mvResult struct {
	skip      string
	violation string
	classes   []string
	nontriv   bool
}

func (in *inner) evalMulti(c MultiCase, base []slotVal, keys []*ikey, v MVariant) (res mvResult) {
	n := len(base)
	q := in.f.Q
	proofs := make([]any, n)
	pubs := make([][]*big.Int, n)
	sels := make([]int, n)
	for i, s := range base {
		proofs[i], pubs[i], sels[i] = s.proof, s.pub, s.sel
	}
	label := v.Kind
	switch v.Kind {
	case "genuine":
	case "tamper":
		p := v.Pos % n
		t := v.T
		t.Proof = c.Slots[p].Proof
		if t.Pub != "" {
			st := in.stmt(t.Pub)
			if st == nil {
				return mvResult{skip: "statement " + t.Pub + " unavailable"}
			}
			pubs[p] = st.pub
		}
		pubs[p] = in.editPub(pubs[p], t)
		np, why := in.edit(proofs[p], t)
		if np == nil {
			return mvResult{skip: "edit: " + why}
		}
		proofs[p] = np
		if c.API == "diff" && v.SelShift != 0 {
			sels[p] = (sels[p] + v.SelShift) % len(keys)
		}
		what := "sel"
		switch {
		case t.Elem != "" && isScalarPath(t.Elem):
			what = "fr:" + t.ElemOp
		case t.Elem != "":
			what = "elem:" + t.ElemOp
		case t.PubOp != "":
			what = "pub:" + t.PubOp
		case t.Pub != "":
			what = "pubsrc"
		}
		label = fmt.Sprintf("tamper:%s", what)
		res.classes = append(res.classes, fmt.Sprintf("multi:tamper-at:%d/%d", p, n))
	case "cancel":
		i, j := v.I, v.J
		if i > j {
			i, j = j, i
		}
		if i == j || j >= 2*n || i < 0 {
			return mvResult{skip: "harness: bad pair of checks"}
		}
		var z [][2]*big.Int
		for s := 0; s < n; s++ {
			zs, err := in.openingPoints(base[s].proof, base[s].key, base[s].pub)
			if err != nil {
				return mvResult{skip: "opening points: " + err.Error()}
			}
			z = append(z, zs)
		}
		si, sj := i/2, j/2
		tauI := new(big.Int).Add(in.tau, big.NewInt(base[si].key.srs))
		tauJ := new(big.Int).Add(in.tau, big.NewInt(base[sj].key.srs))
		if tauI.Cmp(tauJ) != 0 {
			return mvResult{skip: "harness: checks under different SRS"}
		}
		cc := big.NewInt(v.C + 1)
		di := new(big.Int).Sub(z[sj][j%2], tauI) // quotient_i += c·(z_j-τ)·G
		di.Mul(di, cc)
		dj := new(big.Int).Sub(z[si][i%2], tauI) // quotient_j -= c·(z_i-τ)·G
		dj.Mul(dj, cc).Neg(dj)
		proofs[si] = zk.Clone(proofs[si].(plonk.Proof))
		if sj != si {
			proofs[sj] = zk.Clone(proofs[sj].(plonk.Proof))
		}
		shiftQuotient(proofs[si], base[si].key.pl.VK, i%2, di, q)
		shiftQuotient(proofs[sj], base[sj].key.pl.VK, j%2, dj, q)
		if si == sj {
			label = "cancel:same-proof"
		} else {
			label = fmt.Sprintf("cancel:cross-proof:%d%d", i%2, j%2)
		}
		res.classes = append(res.classes, fmt.Sprintf("multi:cancel-pair:%d-%d/%d", i, j, 2*n))
	default:
		return mvResult{skip: "harness: unknown variant"}
	}

	// native verdict: every inner proof verifies under the key its selector picks
	allNative := true
	var firstErr error
	exc := ""
	for s := 0; s < n; s++ {
		k := keys[sels[s]]
		eff := any(compositePlonkKey(keys[0].pl.VK, k.pl.VK))
		if err := in.nativeVerify(proofs[s], eff, pubs[s]); err != nil {
			allNative = false
			if firstErr == nil {
				firstErr = fmt.Errorf("proof %d: %w", s, err)
			}
		}
		if !c.Complete && exc == "" {
			exc = in.exceptional(proofs[s], eff, pubs[s])
		}
	}
	verdict := "reject"
	if allNative {
		verdict = "accept"
	}
	res.classes = append(res.classes, "multi:variant:"+label, "multi:native:"+verdict, fmt.Sprintf("multi:cell:%s:%s:%s", c.API, verdict, strings.SplitN(label, ":", 2)[0]))

	min := multiIn{CCS: keys[0].cs(), API: c.API, Complete: c.Complete, KeysInWitness: c.KeysInWitness, Sels: sels}
	for _, k := range keys {
		min.Keys = append(min.Keys, k.pl.VK)
	}
	for s := 0; s < n; s++ {
		min.Proofs = append(min.Proofs, proofs[s].(plonk.Proof))
		min.Pubs = append(min.Pubs, mkPub(q, pubs[s]))
	}
	var circ, asg frontend.Circuit
	var berr error
	if msg := ev.Safely(func() { circ, asg, berr = in.p.PlonkMulti(min) }); msg != "" {
		berr = fmt.Errorf("%s", firstLine(msg))
	}
	if berr != nil {
		return mvResult{skip: "assignment: " + firstLine(berr.Error())}
	}
	ov := solveOuter(circ, asg, in.p.Outer())
	if ov.timedOut {
		return mvResult{skip: "outer test-engine run timed out"}
	}
	if ov.err != nil && strings.HasPrefix(ov.err.Error(), "define: ") {
		return mvResult{skip: "outer Define error: " + firstLine(ov.err.Error())}
	}
	outerOK := ov.err == nil
	where := fmt.Sprintf("[plonk %s api=%s n=%d complete=%v keys=%v sels=%v variant=%+v %s]", c.Pair, c.API, n, c.Complete, c.Keys, sels, v, label)
	switch {
	case allNative && !outerOK:
		if exc != "" {
			res.classes = append(res.classes, "incomplete-arithmetic-exception:"+exc)
		} else {
			res.violation = fmt.Sprintf("%s COMPLETENESS: the native verifier accepts every inner proof, the outer circuit is unsatisfiable: %s", where, errHint(ov.err))
		}
	case !allNative && outerOK:
		res.violation = fmt.Sprintf("%s SOUNDNESS: the native verifier rejects (%s), the outer circuit is satisfied", where, firstLine(firstErr.Error()))
	}
	res.nontriv = !allNative
	return res
}

func runMulti(c MultiCase, rec *ev.Recorder) ev.Outcome {
	p := pairByName(c.Pair)
	if p == nil || (c.API != "same" && c.API != "diff") || len(c.Slots) < 2 {
		return ev.Outcome{Discard: true, DiscardWhy: "harness: bad multi case"}
	}
	c.Slots = append([]Slot{}, c.Slots...) // resolved below; the caller's case stays as generated
	f := p.Inner()
	sc := Case{Scheme: "plonk", Pair: c.Pair, Prog: c.Prog, Alt: c.Alt, Mut: c.Mut, Mode: KeyFixed, Complete: c.Complete, Tau: c.Tau}
	in := &inner{c: sc, p: p, f: f, keys: map[string]*ikey{}, keyErr: map[string]string{}, stmts: map[string]*statement{},
		proofs: map[string]any{}, prErr: map[string]string{}}
	in.tau, _ = new(big.Int).SetString(c.Tau, 16)
	if in.tau == nil {
		in.tau = big.NewInt(0)
	}
	in.tau.Mod(in.tau, f.Q)
	if in.tau.BitLen() < 8 {
		in.tau.SetInt64(987654321)
	}
	in.popt = stdplonk.GetNativeProverOptions(p.Outer(), f.Q)
	in.vopt = stdplonk.GetNativeVerifierOptions(p.Outer(), f.Q)
	if r := prog.Eval(c.Prog, f.Q); !r.OK || r.Excluded != "" {
		return ev.Outcome{Discard: true, DiscardWhy: "statement 1 does not satisfy the inner circuit"}
	}
	in.progB = mutate(c.Prog, c.Mut)
	keyNames := []string{"a"}
	if c.API == "diff" {
		keyNames = c.Keys
	}
	var keys []*ikey
	a, e := in.key("a")
	if a == nil {
		return ev.Outcome{Discard: true, DiscardWhy: "inner compile/setup failed: " + firstLine(e)}
	}
	for _, kn := range keyNames {
		k, e := in.key(kn)
		if k == nil {
			return ev.Outcome{Discard: true, DiscardWhy: "key unavailable: " + firstLine(e)}
		}
		if shape(k) != shape(a) || k.srs != 0 {
			return ev.Outcome{Discard: true, DiscardWhy: "harness: candidate key of another shape / SRS"}
		}
		keys = append(keys, k)
	}
	// baseline slots; an unavailable proof (second statement / circuit B not satisfied) falls back to a2 under key a
	idxA := -1
	for i, kn := range keyNames {
		if kn == "a" {
			idxA = i
		}
	}
	base := make([]slotVal, len(c.Slots))
	for i, s := range c.Slots {
		sel := 0
		if c.API == "diff" {
			sel = s.Sel % len(keys)
		}
		name := s.Proof
		if proofSpec[name][0] != keyNames[sel] {
			name = combosByKey[keyNames[sel]][0].proof
		}
		pr, _ := in.proof(name)
		if pr == nil {
			if idxA < 0 {
				return ev.Outcome{Discard: true, DiscardWhy: "no genuine proof for a slot"}
			}
			name, sel = "a2", idxA
			if pr, e = in.proof(name); pr == nil {
				return ev.Outcome{Discard: true, DiscardWhy: "inner prove failed: " + e}
			}
		}
		c.Slots[i].Proof = name
		base[i] = slotVal{proof: pr, pub: in.stmt(proofSpec[name][1]).pub, key: keys[sel], sel: sel}
		if err := in.nativeVerify(pr, keys[sel].pl.VK, base[i].pub); err != nil {
			return ev.Outcome{Discard: true, DiscardWhy: "native verifier rejects a genuine inner proof (C02 covers this)"}
		}
	}

	results := make([]mvResult, len(c.Variants))
	workers := runtime.GOMAXPROCS(0)
	if workers > len(c.Variants) {
		workers = len(c.Variants)
	}
	var wg sync.WaitGroup
	jobs := make(chan int)
	for w := 0; w < workers; w++ {
		wg.Add(1)
		go func() {
			defer wg.Done()
			for i := range jobs {
				if msg := ev.Safely(func() { results[i] = in.evalMulti(c, base, keys, c.Variants[i]) }); msg != "" {
					results[i] = mvResult{skip: "harness panic: " + firstLine(msg)}
				}
			}
		}()
	}
	for i := range c.Variants {
		jobs <- i
	}
	close(jobs)
	wg.Wait()

	classes := []string{"kind-multi:api:" + c.API, fmt.Sprintf("multi:proofs:%d", len(c.Slots)), "multi:pair:" + c.Pair,
		fmt.Sprintf("multi:complete:%v", c.Complete), fmt.Sprintf("multi:commitments:%d", zk.NbCommits(c.Prog))}
	if c.API == "diff" {
		classes = append(classes, fmt.Sprintf("multi:keys-in-witness:%v", c.KeysInWitness))
		distinct := map[int]bool{}
		for _, s := range base {
			distinct[s.sel] = true
		}
		classes = append(classes, fmt.Sprintf("multi:distinct-keys-used:%d", len(distinct)))
	}
	evaluated, nontriv := 0, false
	for i, r := range results {
		if r.violation != "" {
			return ev.Outcome{Violation: fmt.Sprintf("variant %d: %s", i, r.violation)}
		}
	}
	for _, r := range results {
		if r.skip != "" {
			if rec != nil {
				rec.Discarded("multi variant: " + r.skip)
			}
			continue
		}
		evaluated++
		classes = append(classes, r.classes...)
		nontriv = nontriv || r.nontriv
	}
	if evaluated == 0 {
		return ev.Outcome{Discard: true, DiscardWhy: "no variant could be built"}
	}
	if rec != nil {
		rec.AddExtra("multi_outer_runs", evaluated)
	}
	sort.Strings(classes)
	return ev.Outcome{NonTrivial: nontriv, Classes: classes}
}

// ---------------------------------------------------------------------------
// generator

func genMultiTamper(t *rapid.T, c *MultiCase, pos, nc int) MVariant {
	v := MVariant{Kind: "tamper", Pos: pos}
	tr := Triple{Idx: rapid.IntRange(0, 7).Draw(t, "idx"), Idx2: rapid.IntRange(0, 7).Draw(t, "idx2"), Delta: int64(rapid.IntRange(0, 5).Draw(t, "delta"))}
	kinds := 8
	if c.API == "diff" {
		kinds = 10
	}
	switch k := rapid.IntRange(0, kinds-1).Draw(t, "tamper"); {
	case k == 0: // another statement's public vector
		tr.Pub = rapid.SampledFrom([]string{"a", "alt", "b"}).Draw(t, "pubsrc")
	case k <= 2:
		tr.PubOp = rapid.SampledFrom([]string{"inc", "dec", "zero", "delta", "copy", "swap"}).Draw(t, "pubop")
	case k <= 5:
		tg := plonkPointTargets(nc)
		tr.Elem = rapid.SampledFrom(tg).Draw(t, "elem")
		tr.Src = rapid.SampledFrom(tg).Draw(t, "src")
		tr.ElemOp = rapid.SampledFrom([]string{"neg", "double", "add", "set", "other", "other", "mul"}).Draw(t, "elemop")
		tr.From = rapid.SampledFrom([]string{"a", "a2", "alt"}).Draw(t, "from")
	case k <= 7:
		tg := plonkScalarTargets(nc)
		tr.Elem = rapid.SampledFrom(tg).Draw(t, "elem")
		tr.Src = rapid.SampledFrom(tg).Draw(t, "src")
		tr.ElemOp = rapid.SampledFrom([]string{"inc", "zero", "neg", "delta", "swap", "other"}).Draw(t, "elemop")
		tr.From = rapid.SampledFrom([]string{"a", "a2", "alt"}).Draw(t, "from")
	default: // the proof is verified against another candidate key
		v.SelShift = rapid.IntRange(1, len(c.Keys)-1).Draw(t, "selshift")
	}
	v.T = tr
	return v
}

func genMultiCase(pairNames []string) *rapid.Generator[MultiCase] {
	return rapid.Custom(func(t *rapid.T) MultiCase {
		c := MultiCase{}
		c.Pair = rapid.SampledFrom(pairNames).Draw(t, "pair")
		c.API = rapid.SampledFrom([]string{"same", "diff"}).Draw(t, "api")
		f := pairByName(c.Pair).Inner()
		for try := 0; try < 12; try++ {
			c.Prog = zk.GenProvable(zk.ProvableCfg{Q: f.Q, MaxOps: 6, MaxCommits: 2}).Draw(t, "prog")
			if r := prog.Eval(c.Prog, f.Q); r.OK && r.Excluded == "" {
				break
			}
		}
		for i := range c.Prog.In {
			if rapid.IntRange(0, 2).Draw(t, "keep") != 0 {
				c.Alt = append(c.Alt, c.Prog.In[i].V)
			} else {
				c.Alt = append(c.Alt, prog.GenVal(t, "alt"))
			}
		}
		c.Mut = Mutation{Idx: rapid.IntRange(0, 7).Draw(t, "mutidx"), To: rapid.SampledFrom([]string{"Add", "Sub", "Mul", "Extra"}).Draw(t, "mutto")}
		c.Tau = new(big.Int).SetBytes(rapid.SliceOfN(rapid.Byte(), 8, 40).Draw(t, "tau")).Text(16)
		c.Complete = rapid.IntRange(0, 3).Draw(t, "complete") != 0
		n := rapid.SampledFrom([]int{2, 2, 3}).Draw(t, "nproofs")
		if c.API == "diff" {
			c.Keys = rapid.SampledFrom([][]string{{"a", "b"}, {"b", "a"}, {"a", "b"}, {"b", "a", "a"}}).Draw(t, "keys")
			c.KeysInWitness = rapid.Bool().Draw(t, "keysinwitness")
		}
		for i := 0; i < n; i++ {
			s := Slot{}
			if c.API == "diff" {
				s.Sel = rapid.IntRange(0, len(c.Keys)-1).Draw(t, "sel")
				if i == n-1 { // make sure both circuits occur
					seen := map[string]bool{}
					for _, x := range c.Slots {
						seen[c.Keys[x.Sel]] = true
					}
					for j, k := range c.Keys {
						if !seen[k] {
							s.Sel = j
						}
					}
				}
				s.Proof = rapid.SampledFrom(combosByKey[c.Keys[s.Sel]]).Draw(t, "slotproof").proof
			} else {
				s.Proof = rapid.SampledFrom([]string{"a", "a2", "alt"}).Draw(t, "slotproof")
			}
			c.Slots = append(c.Slots, s)
		}
		nc := zk.NbCommits(c.Prog)
		// by construction: the genuine baseline, two drawn tampers at EVERY position, and the pairwise
		// cancelling shift for EVERY pair of opening checks of the folded batch
		c.Variants = append(c.Variants, MVariant{Kind: "genuine"})
		for pos := 0; pos < n; pos++ {
			c.Variants = append(c.Variants, genMultiTamper(t, &c, pos, nc), genMultiTamper(t, &c, pos, nc))
		}
		for i := 0; i < 2*n; i++ {
			for j := i + 1; j < 2*n; j++ {
				c.Variants = append(c.Variants, MVariant{Kind: "cancel", I: i, J: j, C: int64(rapid.IntRange(0, 4).Draw(t, "c"))})
			}
		}
		return c
	})
}

const ruleMulti = "MULTI: std/recursion/plonk AssertSameProofs (one constant key) and AssertDifferentProofs (constant base key, 2-3 candidate circuit keys a / b of the same shape and SRS as constants or in the witness, one selector per proof) over 2-3 inner proofs made under an SRS of KNOWN toxic value tau. Per case, by construction: the genuine baseline; two drawn single tampers at EVERY position (replayed / edited public vector, proof element replaced by another valid group element, claimed scalar altered, selector moved to another candidate key); and for EVERY pair (i,j) of the 2n opening checks that are folded into one batch (check 2s = batched opening of proof s at zeta_s, 2s+1 = opening of Z at omega*zeta_s; zeta recomputed natively and checked against the KZG equation) the pairwise cancelling shift quotient_i += c(z_j-tau)G, quotient_j -= c(z_i-tau)G, whose two errors cancel under any collision of the folding coefficients of i and j. Oracle: native plonk.Verify accepts EVERY inner proof (under the key its selector picks)  <=>  the outer circuit is satisfied. Non-trivial: a variant the native verifier rejects."

func TestMultiProof(t *testing.T) {
	rec := ev.Get(ID)
	setup(rec)
	rec.SetRule(ruleMulti)
	g := genMultiCase([]string{"bls12-377>bw6-761", "bls12-377>bw6-761", "bls24-315>bw6-633"})
	rec.Check(t, "multi", ev.N(8, 240), func(rt *rapid.T) {
		c := g.Draw(rt, "case")
		rec.Begin("multi", c)
		rec.Report(rt, "multi", c, runMulti(c, rec))
	})
}

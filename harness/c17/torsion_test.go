package c17

// Points of G1 outside the prime-order subgroup (cofactor torsion) for the inner
// curves of the two-chains: T = [r]P for a curve point P found by trial.

import (
	"math/big"
	"reflect"
	"sync"

	bls12377 "github.com/consensys/gnark-crypto/ecc/bls12-377"
	fp377 "github.com/consensys/gnark-crypto/ecc/bls12-377/fp"
	fr377 "github.com/consensys/gnark-crypto/ecc/bls12-377/fr"
	bls24315 "github.com/consensys/gnark-crypto/ecc/bls24-315"
	fp315 "github.com/consensys/gnark-crypto/ecc/bls24-315/fp"
	fr315 "github.com/consensys/gnark-crypto/ecc/bls24-315/fr"
)

func hasTorsion(pairName string) bool {
	return pairName == "bls12-377>bw6-761" || pairName == "bls24-315>bw6-633"
}

func hasG2Torsion(pairName string) bool { return pairName == "bls12-377>bw6-761" }

var (
	torsionMu  sync.Mutex
	torsion377 = map[int64]bls12377.G1Affine{}
	torsion315 = map[int64]bls24315.G1Affine{}
)

// plain double-and-add: the library's scalar multiplication uses the GLV
// endomorphism, which is only valid inside the subgroup.
func mulR377(p bls12377.G1Affine, k *big.Int) bls12377.G1Affine {
	var acc, base bls12377.G1Jac
	base.FromAffine(&p)
	for i := k.BitLen() - 1; i >= 0; i-- {
		acc.DoubleAssign()
		if k.Bit(i) == 1 {
			acc.AddAssign(&base)
		}
	}
	var r bls12377.G1Affine
	r.FromJacobian(&acc)
	return r
}

func mulR315(p bls24315.G1Affine, k *big.Int) bls24315.G1Affine {
	var acc, base bls24315.G1Jac
	base.FromAffine(&p)
	for i := k.BitLen() - 1; i >= 0; i-- {
		acc.DoubleAssign()
		if k.Bit(i) == 1 {
			acc.AddAssign(&base)
		}
	}
	var r bls24315.G1Affine
	r.FromJacobian(&acc)
	return r
}

func getTorsion377(k int64) bls12377.G1Affine {
	torsionMu.Lock()
	defer torsionMu.Unlock()
	if t, ok := torsion377[k]; ok {
		return t
	}
	var one fp377.Element
	one.SetOne()
	for i := uint64(2 + 97*k); ; i++ {
		var x, y, rhs fp377.Element
		x.SetUint64(i)
		rhs.Square(&x).Mul(&rhs, &x).Add(&rhs, &one) // y² = x³ + 1
		if y.Sqrt(&rhs) == nil {
			continue
		}
		p := bls12377.G1Affine{X: x, Y: y}
		t := mulR377(p, fr377.Modulus())
		if t.IsInfinity() || !t.IsOnCurve() || t.IsInSubGroup() {
			continue
		}
		torsion377[k] = t
		return t
	}
}

func getTorsion315(k int64) bls24315.G1Affine {
	torsionMu.Lock()
	defer torsionMu.Unlock()
	if t, ok := torsion315[k]; ok {
		return t
	}
	var one fp315.Element
	one.SetOne()
	for i := uint64(2 + 97*k); ; i++ {
		var x, y, rhs fp315.Element
		x.SetUint64(i)
		rhs.Square(&x).Mul(&rhs, &x).Add(&rhs, &one) // y² = x³ + 1
		if y.Sqrt(&rhs) == nil {
			continue
		}
		p := bls24315.G1Affine{X: x, Y: y}
		t := mulR315(p, fr315.Modulus())
		if t.IsInfinity() || !t.IsOnCurve() || t.IsInSubGroup() {
			continue
		}
		torsion315[k] = t
		return t
	}
}

var torsion377G2 = map[int64]bls12377.G2Affine{}

// getTorsion377G2: a point of the twist E'(Fp2) outside G2: [r]Q for a twist point Q found by
// trial (b' = y² - x³ is read off the G2 generator).
func getTorsion377G2(k int64) bls12377.G2Affine {
	torsionMu.Lock()
	defer torsionMu.Unlock()
	if t, ok := torsion377G2[k]; ok {
		return t
	}
	_, _, _, g2 := bls12377.Generators()
	var b, x3 bls12377.E2
	b.Square(&g2.Y)
	x3.Square(&g2.X).Mul(&x3, &g2.X)
	b.Sub(&b, &x3)
	for i := uint64(2 + 97*k); ; i++ {
		var x, y, rhs bls12377.E2
		x.A0.SetUint64(i)
		x.A1.SetUint64(1)
		rhs.Square(&x).Mul(&rhs, &x).Add(&rhs, &b)
		if rhs.Legendre() != 1 {
			continue
		}
		y.Sqrt(&rhs)
		q := bls12377.G2Affine{X: x, Y: y}
		if !q.IsOnCurve() {
			continue
		}
		var acc, base bls12377.G2Jac
		base.FromAffine(&q)
		r := fr377.Modulus()
		for j := r.BitLen() - 1; j >= 0; j-- {
			acc.DoubleAssign()
			if r.Bit(j) == 1 {
				acc.AddAssign(&base)
			}
		}
		var t bls12377.G2Affine
		t.FromJacobian(&acc)
		if t.IsInfinity() || !t.IsOnCurve() || t.IsInSubGroup() {
			continue
		}
		torsion377G2[k] = t
		return t
	}
}

// addTorsion adds a cofactor-torsion point to the addressable G1 (or bls12-377 G2) point dst.
func addTorsion(dst reflect.Value, k int64) bool {
	switch p := dst.Addr().Interface().(type) {
	case *bls12377.G2Affine:
		t := getTorsion377G2(k)
		var a, b bls12377.G2Jac
		a.FromAffine(p)
		b.FromAffine(&t)
		a.AddAssign(&b)
		p.FromJacobian(&a)
		return !p.IsInSubGroup() && p.IsOnCurve()
	case *bls12377.G1Affine:
		t := getTorsion377(k)
		var a, b bls12377.G1Jac
		a.FromAffine(p)
		b.FromAffine(&t)
		a.AddAssign(&b)
		p.FromJacobian(&a)
		return !p.IsInSubGroup() && p.IsOnCurve()
	case *bls24315.G1Affine:
		t := getTorsion315(k)
		var a, b bls24315.G1Jac
		a.FromAffine(p)
		b.FromAffine(&t)
		a.AddAssign(&b)
		p.FromJacobian(&a)
		return !p.IsInSubGroup() && p.IsOnCurve()
	}
	return false
}

// C17 — recursive in-circuit verifiers accept exactly what the native verifiers accept.
//
// Differential oracle: for an inner triple (proof, verifying key, public witness)
// the native verifier (groth16.Verify / plonk.Verify with the options returned by
// std/recursion/*.GetNativeVerifierOptions) accepts  ⇔  the outer circuit holding
// the in-circuit verifier is satisfiable (test engine; compiled Solve for a subset).
package c17

import (
	"encoding/json"
	"fmt"
	"math/big"
	"os"
	"reflect"
	"runtime"
	"sort"
	"strings"
	"sync"
	"testing"
	"time"

	"verifharness/lib/ev"
	"verifharness/lib/prog"
	"verifharness/lib/zk"

	"github.com/consensys/gnark/backend"
	"github.com/consensys/gnark/backend/groth16"
	"github.com/consensys/gnark/backend/plonk"
	"github.com/consensys/gnark/backend/witness"
	"github.com/consensys/gnark/constraint"
	"github.com/consensys/gnark/frontend"
	"github.com/consensys/gnark/frontend/cs/r1cs"
	"github.com/consensys/gnark/frontend/cs/scs"
	"github.com/consensys/gnark/logger"
	"github.com/consensys/gnark/std"
	stdg16 "github.com/consensys/gnark/std/recursion/groth16"
	stdplonk "github.com/consensys/gnark/std/recursion/plonk"
	"github.com/consensys/gnark/test"
	"pgregory.net/rapid"
)

const ID = "C17"

func TestMain(m *testing.M) {
	logger.Disable()
	std.RegisterHints()
	ev.RegisterReplay("rec", func(raw json.RawMessage) string {
		var c Case
		if err := json.Unmarshal(raw, &c); err != nil {
			return ""
		}
		return run(c, ev.Get(ID)).Violation
	})
	ev.Main(m)
}

// ---------------------------------------------------------------------------
// case description

// Mutation derives circuit B (same inputs, outputs and commitments) from circuit A
// by renaming one Add/Sub/Mul op.
type Mutation struct {
	Idx int    `json:"idx"`
	To  string `json:"to"`
}

// Triple is one inner (proof, key, public witness) triple handed to both verifiers.
//
// Proof names: a (statement 1 under key a), a2 (a second proof of the same), alt
// (statement 2 under key a), r / r2 (statement 1 under re-setup keys), b (circuit
// B's statement under B's key). Key names: a, r, r2, b. Pub names: a, alt, b.
type Triple struct {
	Proof string `json:"proof"`
	Key   string `json:"key"` // non-switching modes
	Sel   int    `json:"sel"` // switching modes: selector into Case.KeyList (may be out of range)
	Pub   string `json:"pub"`

	PubOp string `json:"pub_op,omitempty"` // inc dec zero delta copy swap
	Idx   int    `json:"idx,omitempty"`
	Idx2  int    `json:"idx2,omitempty"`
	Delta int64  `json:"delta,omitempty"`

	Elem   string `json:"elem,omitempty"`    // path of the proof element to edit
	ElemOp string `json:"elem_op,omitempty"` // points: neg double add set other mul inf torsion; scalars: inc zero neg swap other
	Src    string `json:"src,omitempty"`     // second element (add / set / swap)
	From   string `json:"from,omitempty"`    // "other": proof the element is taken from
}

type Case struct {
	Scheme   string        `json:"scheme"` // groth16 | plonk
	Pair     string        `json:"pair"`
	Prog     *prog.Program `json:"prog"` // inner circuit A with statement 1
	Alt      []prog.Val    `json:"alt"`  // statement 2
	Mut      Mutation      `json:"mut"`
	Mode     string        `json:"mode"`
	KeyList  []string      `json:"key_list,omitempty"` // switching modes: candidate keys in order
	Complete bool          `json:"complete"`
	Subgroup bool          `json:"subgroup"`
	Tau      string        `json:"tau"`      // PLONK: toxic value of the SRS (hex)
	Compiled bool          `json:"compiled"` // also Compile the outer circuit and Solve every triple
	Triples  []Triple      `json:"triples"`
}

// ---------------------------------------------------------------------------
// inner material

type statement struct {
	pub  []*big.Int
	full witness.Witness
}

type ikey struct {
	name string
	srs  int64 // PLONK: which SRS the key is set up with
	prog *prog.Program
	g16  *zk.G16
	pl   *zk.Plonk
}

func (k *ikey) cs() constraint.ConstraintSystem {
	if k.g16 != nil {
		return k.g16.CS
	}
	return k.pl.CS
}

func (k *ikey) vk() any {
	if k.g16 != nil {
		return k.g16.VK
	}
	return k.pl.VK
}

type inner struct {
	c     Case
	p     pair
	f     prog.Field
	tau   *big.Int
	popt  backend.ProverOption
	vopt  backend.VerifierOption
	progB *prog.Program
	bReal bool // circuit B is a genuinely different circuit of the same shape

	mu     sync.Mutex
	keys   map[string]*ikey
	keyErr map[string]string
	stmts  map[string]*statement
	proofs map[string]any
	prErr  map[string]string
}

func pubValues(p *prog.Program, q *big.Int, outs []*big.Int) []*big.Int {
	var r []*big.Int
	for _, in := range p.In {
		if in.Kind == "p" {
			r = append(r, in.V.In(q))
		}
	}
	return append(r, outs...)
}

func withVals(p *prog.Program, vals []prog.Val) *prog.Program {
	q := *p
	q.In = make([]prog.Input, len(p.In))
	copy(q.In, p.In)
	for i := range q.In {
		if i < len(vals) {
			q.In[i].V = vals[i]
		}
	}
	return &q
}

func eqVals(a, b []*big.Int) bool {
	if len(a) != len(b) {
		return false
	}
	for i := range a {
		if a[i].Cmp(b[i]) != 0 {
			return false
		}
	}
	return true
}

func mkStatement(p *prog.Program, f prog.Field) *statement {
	r := prog.Eval(p, f.Q)
	if !r.OK || r.Excluded != "" {
		return nil
	}
	w, err := prog.Witness(f, prog.Assignment(p, f.Q, r.Outs))
	if err != nil {
		return nil
	}
	return &statement{pub: pubValues(p, f.Q, r.Outs), full: w}
}

// mutate returns circuit B: A with one Add/Sub/Mul op renamed (the ops appended by
// zk.BindPublics stay, so that no verifying-key point of a public input becomes the
// point at infinity); when no op can be renamed (or To is "Extra"), A with one more
// multiplication whose result is unused. real=false only when B could not differ from A.
func mutate(p *prog.Program, m Mutation) *prog.Program {
	var cand []int
	for i, o := range p.Ops {
		if (o.Op == "Add" || o.Op == "Sub" || o.Op == "Mul") && len(o.A) >= 2 {
			cand = append(cand, i)
		}
	}
	nb := 0
	for _, in := range p.In {
		if in.Kind == "p" {
			nb++
		}
	}
	if nb > 1 {
		nb++
	}
	if len(cand) > nb {
		cand = cand[:len(cand)-nb]
	} else {
		cand = nil
	}
	q := *p
	if m.To != "Extra" && len(cand) > 0 {
		i := cand[m.Idx%len(cand)]
		if p.Ops[i].Op != m.To && (m.To == "Add" || m.To == "Sub" || m.To == "Mul") {
			q.Ops = make([]prog.Op, len(p.Ops))
			copy(q.Ops, p.Ops)
			q.Ops[i].Op = m.To
			return &q
		}
	}
	// one more multiplication of two input slots (variables), result unused
	var vars []int
	for i, in := range p.In {
		if in.Kind != "c" {
			vars = append(vars, i)
		}
	}
	if len(vars) == 0 {
		return nil
	}
	x, y := vars[m.Idx%len(vars)], vars[(m.Idx/2)%len(vars)]
	q.Ops = append(append([]prog.Op{}, p.Ops...), prog.Op{Op: "Mul", A: []int{x, y}})
	return &q
}

func (in *inner) newKey(name string, p *prog.Program, tauShift int64) (*ikey, error) {
	k := &ikey{name: name, prog: p, srs: tauShift}
	var err error
	if in.c.Scheme == "groth16" {
		k.g16, err = zk.NewG16(in.f, prog.NewCircuit(p))
	} else {
		tau := new(big.Int).Add(in.tau, big.NewInt(tauShift))
		k.pl, err = zk.NewPlonk(in.f, prog.NewCircuit(p), tau)
	}
	if err != nil {
		return nil, err
	}
	return k, nil
}

// shape is what the placeholders (and the Go-level parts of the in-circuit key) are derived from.
func shape(k *ikey) string {
	if k.g16 != nil {
		vk := zk.Elem(k.g16.VK)
		return fmt.Sprintf("g16 pub=%d commits=%v", k.g16.CS.GetNbPublicVariables(), vk.FieldByName("PublicAndCommitmentCommitted").Interface())
	}
	vk := zk.Elem(k.pl.VK)
	return fmt.Sprintf("plonk pub=%d commits=%d", vk.FieldByName("NbPublicVariables").Uint(), vk.FieldByName("Qcp").Len())
}

// key returns the named inner key (building it on first use). "b" falls back to a
// further re-setup of circuit A when no same-shape circuit B exists.
func (in *inner) key(name string) (*ikey, string) {
	var a *ikey
	if name == "b" {
		a, _ = in.key("a")
	}
	in.mu.Lock()
	defer in.mu.Unlock()
	if k, ok := in.keys[name]; ok {
		return k, ""
	}
	if e, ok := in.keyErr[name]; ok {
		return nil, e
	}
	var k *ikey
	var err error
	switch name {
	case "a":
		k, err = in.newKey("a", in.c.Prog, 0)
	case "r":
		k, err = in.newKey("r", in.c.Prog, 1)
	case "r2":
		k, err = in.newKey("r2", in.c.Prog, 2)
	case "b":
		if in.progB != nil {
			if kb, e := in.newKey("b", in.progB, 0); e == nil && a != nil && shape(a) == shape(kb) {
				k, in.bReal = kb, true
			} else {
				in.progB = nil
			}
		}
		if k == nil {
			k, err = in.newKey("b", in.c.Prog, 3)
		}
	default:
		err = fmt.Errorf("unknown key %q", name)
	}
	if err != nil {
		in.keyErr[name] = err.Error()
		return nil, err.Error()
	}
	in.keys[name] = k
	return k, ""
}

// stmt returns the named statement: a (inputs of Prog), alt (Case.Alt), b (circuit B on
// the inputs of statement 1, else of statement 2; circuit A's statement 1 in the fallback).
func (in *inner) stmt(name string) *statement {
	if name == "b" {
		in.key("b") // decides whether B is real
	}
	in.mu.Lock()
	defer in.mu.Unlock()
	if s, ok := in.stmts[name]; ok {
		return s
	}
	var s *statement
	switch name {
	case "a":
		s = mkStatement(in.c.Prog, in.f)
	case "alt":
		if len(in.c.Alt) == len(in.c.Prog.In) {
			s = mkStatement(withVals(in.c.Prog, in.c.Alt), in.f)
		}
	case "b":
		if in.progB == nil {
			s = mkStatement(in.c.Prog, in.f)
		} else {
			s = mkStatement(in.progB, in.f)
			if s == nil && len(in.c.Alt) == len(in.c.Prog.In) {
				s = mkStatement(withVals(in.progB, in.c.Alt), in.f)
			}
		}
	}
	in.stmts[name] = s
	return s
}

var proofSpec = map[string][2]string{ // proof name -> key, statement
	"a": {"a", "a"}, "a2": {"a", "a"}, "alt": {"a", "alt"}, "r": {"r", "a"}, "r2": {"r2", "a"}, "b": {"b", "b"},
}

func (in *inner) proof(name string) (any, string) {
	spec, ok := proofSpec[name]
	if !ok {
		return nil, "unknown proof " + name
	}
	k, e := in.key(spec[0])
	if k == nil {
		return nil, "key: " + e
	}
	s := in.stmt(spec[1])
	if s == nil {
		return nil, "statement " + spec[1] + " not satisfiable"
	}
	in.mu.Lock()
	defer in.mu.Unlock()
	if p, ok := in.proofs[name]; ok {
		return p, ""
	}
	if e, ok := in.prErr[name]; ok {
		return nil, e
	}
	var p any
	var err error
	if k.g16 != nil {
		p, err = k.g16.Prove(s.full, in.popt)
	} else {
		p, err = k.pl.Prove(s.full, in.popt)
	}
	if err != nil {
		in.prErr[name] = "prove: " + firstLine(err.Error())
		return nil, in.prErr[name]
	}
	in.proofs[name] = p
	return p, ""
}

func mkPub(q *big.Int, vals []*big.Int) witness.Witness {
	w, err := zk.WitnessFrom(q, vals, nil)
	if err != nil {
		panic(err)
	}
	return w
}

func firstLine(s string) string {
	if i := strings.Index(s, "\n"); i >= 0 {
		s = s[:i]
	}
	if len(s) > 160 {
		s = s[:160]
	}
	return s
}

// errHint is the first line of a test-engine error followed by the gnark std frames of its stack.
func errHint(err error) string {
	if err == nil {
		return ""
	}
	msg := err.Error()
	var frames []string
	for _, l := range strings.Split(msg, "\n") {
		l = strings.TrimSpace(l)
		if i := strings.Index(l, "/std/"); i >= 0 && strings.Contains(l, ".go:") {
			f := l[i+1:]
			if j := strings.Index(f, " "); j >= 0 {
				f = f[:j]
			}
			if len(frames) == 0 || frames[len(frames)-1] != f {
				frames = append(frames, f)
			}
		}
		if len(frames) >= 7 {
			break
		}
	}
	return firstLine(msg) + " @ " + strings.Join(frames, " < ")
}

// nativeVerify runs the native verifier with the recursion options.
func (in *inner) nativeVerify(proof any, vk any, pub []*big.Int) error {
	w := mkPub(in.f.Q, pub)
	if in.c.Scheme == "groth16" {
		return zk.VerifyG16(proof.(groth16.Proof), vk.(groth16.VerifyingKey), w, in.vopt)
	}
	return zk.VerifyPlonk(proof.(plonk.Proof), vk.(plonk.VerifyingKey), w, in.vopt)
}

// compositePlonkKey is the native counterpart of VerifyingKey{base of keys[0], circuit part of keys[sel]}.
func compositePlonkKey(base, circuit plonk.VerifyingKey) plonk.VerifyingKey {
	if base == circuit {
		return circuit
	}
	k := zk.Clone(circuit)
	dst, src := zk.Elem(k), zk.Elem(base)
	for _, f := range []string{"Kzg", "CosetShift", "NbPublicVariables"} {
		dst.FieldByName(f).Set(zk.DeepCopy(src.FieldByName(f)))
	}
	return k
}

// ---------------------------------------------------------------------------
// element surgery

func at(p any, path string) (v reflect.Value, ok bool) {
	defer func() {
		if recover() != nil {
			ok = false
		}
	}()
	v = zk.Path(zk.Elem(p), path)
	return v, v.IsValid()
}

func isScalarPath(path string) bool { return strings.Contains(path, "Claimed") }

// edit applies the element edit of t to a clone of proof. Returns (proof, skipReason).
func (in *inner) edit(proof any, t Triple) (any, string) {
	if t.Elem == "" {
		return proof, ""
	}
	var p any
	if in.c.Scheme == "groth16" {
		p = zk.Clone(proof.(groth16.Proof))
	} else {
		p = zk.Clone(proof.(plonk.Proof))
	}
	dst, ok := at(p, t.Elem)
	if !ok {
		return nil, "no such element"
	}
	if isScalarPath(t.Elem) {
		q := in.f.Q
		x := zk.FrGet(dst)
		switch t.ElemOp {
		case "inc":
			x.Add(x, big.NewInt(1)).Mod(x, q)
		case "zero":
			x.SetInt64(0)
		case "neg":
			x.Neg(x).Mod(x, q)
		case "delta":
			x.Add(x, big.NewInt(t.Delta+2)).Mod(x, q)
		case "swap":
			src, ok := at(p, t.Src)
			if !ok || t.Src == t.Elem || !isScalarPath(t.Src) {
				return nil, "no compatible source element"
			}
			y := zk.FrGet(src)
			zk.FrSet(src, x)
			x = y
		case "other":
			from, e := in.proof(t.From)
			if from == nil {
				return nil, "no other proof: " + e
			}
			src, ok := at(from, t.Elem)
			if !ok {
				return nil, "no such element in other proof"
			}
			x = zk.FrGet(src)
		default:
			return nil, "unknown scalar op"
		}
		zk.FrSet(dst, x)
		return p, ""
	}
	switch t.ElemOp {
	case "neg":
		zk.PNeg(dst, dst)
	case "double":
		zk.PDouble(dst, dst)
	case "inf":
		zk.PSetInfinity(dst)
	case "mul":
		zk.PMul(dst, dst, big.NewInt(t.Delta+3))
	case "add", "set":
		src, ok := at(p, t.Src)
		if !ok || t.Src == t.Elem || src.Type() != dst.Type() {
			return nil, "no compatible source element"
		}
		if t.ElemOp == "add" {
			zk.PAdd(dst, dst, src)
		} else {
			dst.Set(src)
		}
	case "other":
		from, e := in.proof(t.From)
		if from == nil {
			return nil, "no other proof: " + e
		}
		src, ok := at(from, t.Elem)
		if !ok || src.Type() != dst.Type() {
			return nil, "no such element in other proof"
		}
		dst.Set(src)
	case "torsion":
		if !addTorsion(dst, t.Delta) {
			return nil, "no torsion point for this element type"
		}
	default:
		return nil, "unknown point op"
	}
	return p, ""
}

// ---------------------------------------------------------------------------
// evaluation of one triple

type tripleResult struct {
	skip      string
	violation string
	classes   []string
	nontriv   bool
	native    bool
}

func (in *inner) editPub(src []*big.Int, t Triple) []*big.Int {
	q := in.f.Q
	pub := make([]*big.Int, len(src))
	for i := range pub {
		pub[i] = new(big.Int).Set(src[i])
	}
	n := len(pub)
	if t.PubOp == "" || n == 0 {
		return pub
	}
	i := t.Idx % n
	switch t.PubOp {
	case "inc":
		pub[i].Add(pub[i], big.NewInt(1)).Mod(pub[i], q)
	case "dec":
		pub[i].Sub(pub[i], big.NewInt(1)).Mod(pub[i], q)
	case "zero":
		pub[i].SetInt64(0)
	case "delta":
		pub[i].Add(pub[i], big.NewInt(t.Delta+2)).Mod(pub[i], q)
	case "copy":
		pub[i].Set(src[(i+1)%n])
	case "swap":
		j := t.Idx2 % n
		pub[i], pub[j] = pub[j], pub[i]
	}
	return pub
}

func tripleKind(c Case, t Triple, keyName string) string {
	spec := proofSpec[t.Proof]
	var parts []string
	if keyName != spec[0] {
		parts = append(parts, "crosskey")
	}
	if t.Pub != spec[1] {
		parts = append(parts, "pubsrc")
	}
	if t.PubOp != "" {
		parts = append(parts, "pub:"+t.PubOp)
	}
	if t.Elem != "" {
		if isScalarPath(t.Elem) {
			parts = append(parts, "fr:"+t.ElemOp)
		} else {
			parts = append(parts, "elem:"+t.ElemOp)
		}
	}
	if len(parts) == 0 {
		return "genuine"
	}
	return strings.Join(parts, "+")
}

// exceptional reports why the triple is outside the domain of the incomplete
// (default) in-circuit arithmetic: "points and scalars must be non-zero" and the
// MSM points must not coincide up to sign (std/algebra doc comments, PLONK
// WithCompleteArithmetic doc comment). Empty = generic.
func (in *inner) exceptional(proof any, vk any, pub []*big.Int) string {
	var pts []reflect.Value
	kv := zk.Elem(vk)
	pv := zk.Elem(proof)
	if in.c.Scheme == "groth16" {
		for _, x := range pub {
			if x.Sign() == 0 {
				return "zero public input (MSM scalar)"
			}
		}
		K := kv.FieldByName("G1").FieldByName("K")
		for i := 0; i < K.Len(); i++ {
			pts = append(pts, K.Index(i))
		}
		cs := pv.FieldByName("Commitments")
		for i := 0; i < cs.Len(); i++ {
			pts = append(pts, cs.Index(i))
		}
		for _, n := range []string{"Ar", "Krs", "Bs"} {
			if zk.PIsInfinity(pv.FieldByName(n)) {
				return "proof point at infinity"
			}
		}
		if cs.Len() > 0 && zk.PIsInfinity(pv.FieldByName("CommitmentPok")) {
			return "proof point at infinity"
		}
	} else {
		for _, n := range []string{"Ql", "Qr", "Qm", "Qo", "Qk"} {
			pts = append(pts, kv.FieldByName(n))
		}
		S := kv.FieldByName("S")
		for i := 0; i < 3; i++ {
			pts = append(pts, S.Index(i))
		}
		q := kv.FieldByName("Qcp")
		for i := 0; i < q.Len(); i++ {
			pts = append(pts, q.Index(i))
		}
		b := pv.FieldByName("Bsb22Commitments")
		for i := 0; i < b.Len(); i++ {
			pts = append(pts, b.Index(i))
		}
		pts = append(pts, pv.FieldByName("Z"))
		for i := 0; i < 3; i++ {
			pts = append(pts, pv.FieldByName("LRO").Index(i), pv.FieldByName("H").Index(i))
		}
		pts = append(pts, pv.FieldByName("BatchedProof").FieldByName("H"), pv.FieldByName("ZShiftedOpening").FieldByName("H"))
	}
	for _, p := range pts {
		if zk.PIsInfinity(p) {
			return "point at infinity among the MSM inputs"
		}
	}
	for i := range pts {
		for j := i + 1; j < len(pts); j++ {
			if pts[i].Type() != pts[j].Type() {
				continue
			}
			if zk.PEqual(pts[i], pts[j]) {
				return "two equal MSM points"
			}
			n := zk.NewLike(pts[j])
			zk.PNeg(n, pts[j])
			if zk.PEqual(pts[i], n) {
				return "two opposite MSM points"
			}
		}
	}
	return ""
}

// slowScalar: Groth16 public inputs are the scalars of the in-circuit MSM; on the emulated GLV curves
// the Eisenstein half-GCD hint needs an astronomical number of iterations (known finding F27) for
// scalars that are a small negative number or a small fraction modulo r: r-k, (r-1)/2-k, 1/3, 5/7, ...
// (measured: minutes to never, where a generic or a small positive scalar takes 0.2 s). Such a scalar
// x has m*x = +-small (mod r) for some small m; small positive x themselves are fine.
func slowScalar(x, q *big.Int) bool {
	if x.BitLen() <= 64 {
		return false
	}
	y := new(big.Int)
	d := new(big.Int)
	for m := int64(1); m <= 128; m++ {
		y.Mul(x, big.NewInt(m)).Mod(y, q)
		if y.BitLen() <= 64 || d.Sub(q, y).BitLen() <= 64 {
			return true
		}
	}
	return false
}

const outerTimeout = 20 * time.Minute

type outerVerdict struct {
	err      error
	timedOut bool
}

func solveOuter(circ, asg frontend.Circuit, field *big.Int) outerVerdict {
	ch := make(chan error, 1)
	go func() {
		var err error
		if msg := ev.Safely(func() { err = test.IsSolved(circ, asg, field) }); msg != "" {
			err = fmt.Errorf("%s", msg)
		}
		ch <- err
	}()
	select {
	case err := <-ch:
		return outerVerdict{err: err}
	case <-time.After(outerTimeout):
		return outerVerdict{timedOut: true}
	}
}

type compiledCache struct {
	mu sync.Mutex
	m  map[string]constraint.ConstraintSystem
	e  map[string]string
}

func (cc *compiledCache) get(sig string, field *big.Int, scheme string, circ frontend.Circuit) (constraint.ConstraintSystem, string) {
	cc.mu.Lock()
	defer cc.mu.Unlock()
	if s, ok := cc.m[sig]; ok {
		return s, ""
	}
	if e, ok := cc.e[sig]; ok {
		return nil, e
	}
	var nb frontend.NewBuilder = r1cs.NewBuilder
	if scheme == "plonk" {
		nb = scs.NewBuilder
	}
	var s constraint.ConstraintSystem
	var err error
	if msg := ev.Safely(func() { s, err = frontend.Compile(field, nb, circ, frontend.IgnoreUnconstrainedInputs()) }); msg != "" {
		err = fmt.Errorf("%s", msg)
	}
	if err != nil {
		cc.e[sig] = firstLine(err.Error())
		return nil, cc.e[sig]
	}
	cc.m[sig] = s
	return s, ""
}

func (in *inner) evalTriple(t Triple, cc *compiledCache) (res tripleResult) {
	c := in.c
	sw := isSwitch(c.Mode)
	// keys
	var keyNames []string
	sel := 0
	inRange := true
	if sw {
		keyNames = c.KeyList
		sel = t.Sel
		inRange = sel >= 0 && sel < len(keyNames)
	} else {
		keyNames = []string{t.Key}
	}
	var keys []*ikey
	for _, n := range keyNames {
		k, e := in.key(n)
		if k == nil {
			return tripleResult{skip: "key unavailable: " + firstLine(e)}
		}
		keys = append(keys, k)
	}
	a, e := in.key("a")
	if a == nil {
		return tripleResult{skip: "key a unavailable: " + firstLine(e)}
	}
	for _, k := range keys {
		if shape(k) != shape(a) {
			return tripleResult{skip: "harness: key of another shape"}
		}
	}
	// proof
	proof, e := in.proof(t.Proof)
	if proof == nil {
		return tripleResult{skip: "proof " + t.Proof + " unavailable: " + e}
	}
	proof, why := in.edit(proof, t)
	if proof == nil {
		return tripleResult{skip: "edit: " + why}
	}
	// public values
	st := in.stmt(t.Pub)
	if st == nil {
		return tripleResult{skip: "statement " + t.Pub + " unavailable"}
	}
	pub := in.editPub(st.pub, t)
	if c.Scheme == "groth16" && in.p.Emulated() {
		for _, x := range pub {
			if slowScalar(x, in.f.Q) {
				return tripleResult{skip: "public input that is a small negative number or small fraction mod r on an emulated GLV curve: half-GCD hint does not terminate in reasonable time (known finding F27)"}
			}
		}
	}

	// native verdict
	effName := "none"
	var nerr error
	var effVK any
	if !inRange {
		nerr = fmt.Errorf("selector %d selects no key", sel)
	} else {
		effName = keyNames[sel]
		effVK = keys[sel].vk()
		if c.Scheme == "plonk" && (sw || c.Mode == KeyConst) {
			effVK = compositePlonkKey(keys[0].pl.VK, keys[sel].pl.VK)
		}
		nerr = in.nativeVerify(proof, effVK, pub)
	}
	res.native = nerr == nil
	kind := tripleKind(c, t, effName)
	if inRange && c.Scheme == "plonk" && (sw || c.Mode == KeyConst) && keys[0].srs != keys[sel].srs {
		kind += "+foreign-base-key" // circuit key committed under another SRS than the shared base key
	}
	if !inRange {
		kind = "selector-out-of-range"
	}
	verdict := "reject"
	if res.native {
		verdict = "accept"
	}
	res.classes = append(res.classes, "triple:"+kind, "native:"+verdict,
		fmt.Sprintf("cell:%s:%s:%s", c.Scheme, verdict, strings.SplitN(kind, ":", 2)[0]))
	if nerr != nil && strings.HasPrefix(nerr.Error(), "PANIC") {
		res.classes = append(res.classes, "native-verifier-panicked")
	}
	if sw && inRange {
		res.classes = append(res.classes, fmt.Sprintf("selector:%d/%d", sel, len(keyNames)))
	}

	// KeySame2: a genuine companion triple under the same key; both must verify
	var proof2 any
	var pub2 []*big.Int
	if c.Mode == KeySame2 {
		cb := combosByKey[effName][0]
		if effName == "a" && t.Proof != "a2" {
			cb = combo{"a2", "a", "a"}
		}
		var e2 string
		if proof2, e2 = in.proof(cb.proof); proof2 == nil {
			return tripleResult{skip: "companion proof unavailable: " + e2}
		}
		st2 := in.stmt(cb.pub)
		if st2 == nil {
			return tripleResult{skip: "companion statement unavailable"}
		}
		pub2 = st2.pub
		if err := in.nativeVerify(proof2, effVK, pub2); err != nil {
			return tripleResult{skip: "native verifier rejects the companion triple: " + firstLine(err.Error())}
		}
	}

	// outer circuit
	oin := outerIn{CCS: a.cs(), Mode: c.Mode, Complete: c.Complete, Subgroup: c.Subgroup, Selector: sel, Pub: mkPub(in.f.Q, pub)}
	for _, k := range keys {
		if k.g16 != nil {
			oin.G16Keys = append(oin.G16Keys, k.g16.VK)
		} else {
			oin.PlonkKeys = append(oin.PlonkKeys, k.pl.VK)
		}
	}
	var circ, asg frontend.Circuit
	var berr error
	if msg := ev.Safely(func() {
		if c.Scheme == "groth16" {
			oin.G16Proof = proof.(groth16.Proof)
			circ, asg, berr = in.p.G16(oin)
		} else {
			oin.PlonkProof = proof.(plonk.Proof)
			if proof2 != nil {
				oin.PlonkProof2, oin.Pub2, oin.Pos2 = proof2.(plonk.Proof), mkPub(in.f.Q, pub2), t.Idx2%2
			}
			circ, asg, berr = in.p.Plonk(oin)
		}
	}); msg != "" {
		berr = fmt.Errorf("%s", firstLine(msg))
	}
	if berr != nil {
		return tripleResult{skip: "assignment: " + firstLine(berr.Error())}
	}
	ov := solveOuter(circ, asg, in.p.Outer())
	if ov.timedOut {
		return tripleResult{skip: fmt.Sprintf("outer test-engine run did not return within %s", outerTimeout)}
	}
	if ov.err != nil && strings.HasPrefix(ov.err.Error(), "define: ") {
		// Define returned an error (no assertion failed): the circuit could not be built for these sizes
		return tripleResult{skip: "outer Define error: " + firstLine(ov.err.Error())}
	}
	outerOK := ov.err == nil
	where := fmt.Sprintf("[%s %s mode=%s complete=%v subgroup=%v keys=%v sel=%d triple=%+v kind=%s]", c.Scheme, c.Pair, c.Mode, c.Complete, c.Subgroup, keyNames, sel, t, kind)

	// documented differences between the two verifiers
	torsion := t.ElemOp == "torsion"
	exc := ""
	if inRange && !c.Complete {
		exc = in.exceptional(proof, effVK, pub)
	}
	switch {
	case res.native && !outerOK:
		if exc != "" {
			res.classes = append(res.classes, "incomplete-arithmetic-exception:"+exc)
		} else {
			res.violation = fmt.Sprintf("%s COMPLETENESS: native verifier accepts, outer circuit is unsatisfiable: %s", where, errHint(ov.err))
		}
	case !res.native && outerOK:
		if torsion && !c.Subgroup {
			// a G1 point outside the prime-order subgroup: only WithSubgroupCheck promises a rejection
			res.classes = append(res.classes, "torsion-accepted-without-subgroup-check")
		} else {
			res.violation = fmt.Sprintf("%s SOUNDNESS: native verifier rejects (%s), outer circuit is satisfied", where, firstLine(nerr.Error()))
		}
	default:
		if res.native {
			res.classes = append(res.classes, "agree:accept")
		} else {
			res.classes = append(res.classes, "agree:reject")
		}
	}
	if res.violation != "" {
		return res
	}

	// compiled subset
	if c.Compiled {
		sig := c.Mode
		if c.Mode == KeyFixed || c.Mode == KeyConst || c.Mode == KeySwitchC || c.Mode == KeySame2 {
			sig += "|" + strings.Join(keyNames, ",")
		}
		ccs, cerr := cc.get(sig, in.p.Outer(), c.Scheme, circ)
		if ccs == nil {
			// with a constant key the builder folds the (incomplete) arithmetic on the key points: an
			// exceptional key makes Compile fail where the test engine fails at run time
			if outerOK {
				res.violation = fmt.Sprintf("%s outer circuit is satisfied in the test engine but does not compile: %s", where, cerr)
				return res
			}
			res.classes = append(res.classes, "compiled:compile-error-consistent-with-engine-reject")
			res.nontriv = !res.native || (sw && inRange && sel != 0)
			return res
		}
		w, werr := frontend.NewWitness(asg, in.p.Outer())
		if werr != nil {
			res.classes = append(res.classes, "compiled:witness-error")
			return res
		}
		var serr error
		if msg := ev.Safely(func() { _, serr = ccs.Solve(w) }); msg != "" {
			serr = fmt.Errorf("PANIC %s", firstLine(msg))
		}
		res.classes = append(res.classes, fmt.Sprintf("compiled:solved=%v", serr == nil))
		if (serr == nil) != outerOK {
			res.violation = fmt.Sprintf("%s compiled outer circuit (solved=%v, %v) disagrees with the test engine (solved=%v); native accepts=%v", where, serr == nil, serr, outerOK, res.native)
			return res
		}
	}
	res.nontriv = !res.native || (sw && inRange && sel != 0)
	return res
}

// ---------------------------------------------------------------------------
// run

func run(c Case, rec *ev.Recorder) ev.Outcome {
	p := pairByName(c.Pair)
	if p == nil || (c.Scheme != "groth16" && c.Scheme != "plonk") {
		return ev.Outcome{Discard: true, DiscardWhy: "harness: bad case"}
	}
	f := p.Inner()
	if c.Subgroup && !hasSubgroupCheck(c.Pair) {
		c.Subgroup = false // sw_bls24315 AssertIsOnG1/G2: panic("not implemented") - the option is not offered on this pairing
	}
	in := &inner{c: c, p: p, f: f, keys: map[string]*ikey{}, keyErr: map[string]string{}, stmts: map[string]*statement{},
		proofs: map[string]any{}, prErr: map[string]string{}}
	in.tau, _ = new(big.Int).SetString(c.Tau, 16)
	if in.tau == nil {
		in.tau = big.NewInt(0)
	}
	in.tau.Mod(in.tau, f.Q)
	if in.tau.BitLen() < 8 {
		in.tau.SetInt64(987654321)
	}
	if c.Scheme == "groth16" {
		in.popt = stdg16.GetNativeProverOptions(p.Outer(), f.Q)
		in.vopt = stdg16.GetNativeVerifierOptions(p.Outer(), f.Q)
		if zk.NbCommits(c.Prog) > 1 {
			return ev.Outcome{Discard: true, DiscardWhy: "groth16 recursion supports a single commitment"}
		}
	} else {
		in.popt = stdplonk.GetNativeProverOptions(p.Outer(), f.Q)
		in.vopt = stdplonk.GetNativeVerifierOptions(p.Outer(), f.Q)
	}
	interp := prog.Eval(c.Prog, f.Q)
	if interp.Excluded != "" {
		return ev.Outcome{Discard: true, DiscardWhy: interp.Excluded}
	}
	if !interp.OK {
		return ev.Outcome{Discard: true, DiscardWhy: "statement 1 does not satisfy the inner circuit"}
	}
	in.progB = mutate(c.Prog, c.Mut)
	a, e := in.key("a")
	if a == nil {
		return ev.Outcome{Discard: true, DiscardWhy: "inner compile/setup failed (C03/C04 cover this): " + firstLine(e)}
	}
	if pa, e := in.proof("a"); pa == nil {
		return ev.Outcome{Discard: true, DiscardWhy: "inner prove failed (C03 covers this): " + e}
	}
	// positive control on the native side
	pa, _ := in.proof("a")
	if err := in.nativeVerify(pa, a.vk(), in.stmt("a").pub); err != nil {
		return ev.Outcome{Discard: true, DiscardWhy: "native verifier rejects the genuine inner proof (C01/C02 cover this): " + firstLine(err.Error())}
	}

	nc := zk.NbCommits(c.Prog)
	classes := []string{"scheme:" + c.Scheme, "pair:" + c.Pair, c.Scheme + ":" + c.Pair, c.Scheme + ":mode:" + c.Mode,
		fmt.Sprintf("%s:commitments:%d", c.Scheme, nc), fmt.Sprintf("complete:%v", c.Complete)}
	if c.Scheme == "groth16" {
		classes = append(classes, fmt.Sprintf("subgroup:%v", c.Subgroup))
	}
	if c.Compiled {
		classes = append(classes, "compiled-case")
	}
	if c.Scheme == "groth16" && c.Subgroup && nc > 0 {
		classes = append(classes, "groth16:subgroup-check+commitment")
	}

	results := make([]tripleResult, len(c.Triples))
	cc := &compiledCache{m: map[string]constraint.ConstraintSystem{}, e: map[string]string{}}
	workers := runtime.GOMAXPROCS(0)
	if workers > len(c.Triples) {
		workers = len(c.Triples)
	}
	var wg sync.WaitGroup
	jobs := make(chan int)
	for w := 0; w < workers; w++ {
		wg.Add(1)
		go func() {
			defer wg.Done()
			for i := range jobs {
				if msg := ev.Safely(func() { results[i] = in.evalTriple(c.Triples[i], cc) }); msg != "" {
					results[i] = tripleResult{skip: "harness panic: " + firstLine(msg)}
				}
			}
		}()
	}
	for i := range c.Triples {
		jobs <- i
	}
	close(jobs)
	wg.Wait()

	evaluated, nontriv := 0, false
	for i, r := range results {
		if r.violation != "" {
			return ev.Outcome{Violation: fmt.Sprintf("triple %d: %s", i, r.violation)}
		}
	}
	for _, r := range results {
		if r.skip != "" {
			if rec != nil {
				rec.Discarded("triple: " + r.skip)
			}
			continue
		}
		evaluated++
		classes = append(classes, r.classes...)
		nontriv = nontriv || r.nontriv
	}
	if evaluated == 0 {
		return ev.Outcome{Discard: true, DiscardWhy: "no triple could be built"}
	}
	if in.progB != nil && in.bReal {
		classes = append(classes, "circuitB:real")
	}
	if rec != nil {
		rec.AddExtra("triples_evaluated", evaluated)
	}
	sort.Strings(classes)
	return ev.Outcome{NonTrivial: nontriv, Classes: classes}
}

// ---------------------------------------------------------------------------
// generators

type combo struct{ proof, key, pub string }

var combosByKey = map[string][]combo{
	"a":  {{"a", "a", "a"}, {"a", "a", "a"}, {"a2", "a", "a"}, {"alt", "a", "alt"}, {"alt", "a", "alt"}},
	"r":  {{"r", "r", "a"}},
	"r2": {{"r2", "r2", "a"}},
	"b":  {{"b", "b", "b"}},
}

func g16Targets(nc int) []string {
	t := []string{"Ar", "Bs", "Krs", "Ar", "Krs"}
	if nc > 0 {
		t = append(t, "CommitmentPok", "Commitments[0]", "Commitments[0]")
	}
	return t
}

func plonkPointTargets(nc int) []string {
	t := []string{"LRO[0]", "LRO[1]", "LRO[2]", "Z", "H[0]", "H[1]", "H[2]", "BatchedProof.H", "ZShiftedOpening.H"}
	for i := 0; i < nc; i++ {
		t = append(t, fmt.Sprintf("Bsb22Commitments[%d]", i), fmt.Sprintf("Bsb22Commitments[%d]", i))
	}
	return t
}

func plonkScalarTargets(nc int) []string {
	t := []string{"ZShiftedOpening.ClaimedValue", "ZShiftedOpening.ClaimedValue"}
	for i := 0; i < 6+nc; i++ {
		t = append(t, fmt.Sprintf("BatchedProof.ClaimedValues[%d]", i))
	}
	return t
}

func genTriple(t *rapid.T, c *Case, nc int, torsion bool) Triple {
	sw := isSwitch(c.Mode)
	tr := Triple{}
	var key string
	if sw && rapid.IntRange(0, 5).Draw(t, "oob") == 0 {
		// selector outside the candidate list ("the proof will fail", std/selector Mux doc) with a proof
		// and statement that are genuine for the last or the first candidate key: a multiplexer that
		// wraps around or saturates would verify it
		n := len(c.KeyList)
		j := rapid.SampledFrom([]int{n - 1, n - 1, 0}).Draw(t, "oobkey")
		cb := combosByKey[c.KeyList[j]][0]
		tr.Proof, tr.Key, tr.Pub = cb.proof, cb.key, cb.pub
		tr.Sel = rapid.SampledFrom([]int{n, n, n, n + 1, 4, -1}).Draw(t, "oobsel")
		return tr
	}
	if sw {
		tr.Sel = rapid.IntRange(0, len(c.KeyList)-1).Draw(t, "sel")
		key = c.KeyList[tr.Sel]
	} else {
		key = rapid.SampledFrom([]string{"a", "a", "a", "a", "r", "b", "b"}).Draw(t, "key")
	}
	cb := rapid.SampledFrom(combosByKey[key]).Draw(t, "combo")
	tr.Proof, tr.Key, tr.Pub = cb.proof, cb.key, cb.pub
	tr.Idx = rapid.IntRange(0, 7).Draw(t, "idx")
	tr.Idx2 = rapid.IntRange(0, 7).Draw(t, "idx2")
	tr.Delta = int64(rapid.IntRange(0, 5).Draw(t, "delta"))
	switch rapid.IntRange(0, 11).Draw(t, "perturb") {
	case 0, 1: // genuine
	case 2: // replay against another statement's public vector
		tr.Pub = rapid.SampledFrom([]string{"a", "alt", "b"}).Draw(t, "pubsrc")
	case 3, 4, 5: // public input edit
		tr.PubOp = rapid.SampledFrom([]string{"inc", "dec", "inc", "dec", "zero", "delta", "copy", "swap"}).Draw(t, "pubop")
	case 6, 7, 8, 9: // proof element edit
		if c.Scheme == "groth16" {
			tg := g16Targets(nc)
			tr.Elem = rapid.SampledFrom(tg).Draw(t, "elem")
			tr.Src = rapid.SampledFrom(tg).Draw(t, "src")
			ops := []string{"neg", "double", "add", "set", "other", "other", "mul", "inf"}
			if torsion {
				ops = append(ops, "torsion", "torsion", "torsion")
			}
			tr.ElemOp = rapid.SampledFrom(ops).Draw(t, "elemop")
			if tr.ElemOp == "torsion" && tr.Elem == "Bs" && !hasG2Torsion(c.Pair) {
				tr.Elem = "Krs" // no G2 torsion point for this curve
			}
		} else if rapid.IntRange(0, 2).Draw(t, "scalar") == 0 {
			tg := plonkScalarTargets(nc)
			tr.Elem = rapid.SampledFrom(tg).Draw(t, "elem")
			tr.Src = rapid.SampledFrom(tg).Draw(t, "src")
			tr.ElemOp = rapid.SampledFrom([]string{"inc", "zero", "neg", "delta", "swap", "other"}).Draw(t, "elemop")
		} else {
			tg := plonkPointTargets(nc)
			tr.Elem = rapid.SampledFrom(tg).Draw(t, "elem")
			tr.Src = rapid.SampledFrom(tg).Draw(t, "src")
			tr.ElemOp = rapid.SampledFrom([]string{"neg", "double", "add", "set", "other", "other", "mul", "inf"}).Draw(t, "elemop")
		}
		// "other": the same element of another genuine proof (same statement, or another statement / key)
		tr.From = rapid.SampledFrom([]string{"a2", "a2", "alt", "a", "r"}).Draw(t, "from")
		if tr.From == tr.Proof {
			tr.From = "a2"
			if tr.Proof == "a2" {
				tr.From = "a"
			}
		}
	default: // proof and statement of one key verified against another key
		if sw {
			tr.Sel = (tr.Sel + 1 + rapid.IntRange(0, len(c.KeyList)-2).Draw(t, "selshift")) % len(c.KeyList)
		} else {
			others := []string{}
			for _, k := range []string{"a", "r", "b", "b"} {
				if k != tr.Key {
					others = append(others, k)
				}
			}
			tr.Key = rapid.SampledFrom(others).Draw(t, "otherkey")
		}
	}
	return tr
}

type genCfg struct {
	schemes  []string
	pairs    []string
	minT     int
	maxT     int
	compiled int // one case in `compiled` is also compiled (0 = never)
	// firstGenuine replaces the first triple by a genuine one
	firstGenuine bool
}

func genCase(cfg genCfg) *rapid.Generator[Case] {
	return rapid.Custom(func(t *rapid.T) Case {
		c := Case{}
		c.Scheme = rapid.SampledFrom(cfg.schemes).Draw(t, "scheme")
		c.Pair = rapid.SampledFrom(cfg.pairs).Draw(t, "pair")
		p := pairByName(c.Pair)
		f := p.Inner()
		maxC := 2
		if c.Scheme == "groth16" {
			maxC = 1
		}
		// the subgroup option comes first: where torsion points can be built (bls12-377) half of the
		// Groth16 cases carry it and most of those get an inner circuit WITH a commitment, so that the
		// Pedersen part of the option (Commitments[0], CommitmentPok) is reached by construction
		wantCommit := false
		if c.Scheme == "groth16" && hasSubgroupCheck(c.Pair) {
			if hasTorsion(c.Pair) {
				c.Subgroup = rapid.Bool().Draw(t, "subgroup")
				wantCommit = c.Subgroup && rapid.IntRange(0, 3).Draw(t, "wantcommit") != 0
			} else {
				c.Subgroup = rapid.IntRange(0, 2).Draw(t, "subgroup") == 0
			}
		}
		// redraw (bounded) until statement 1 satisfies the circuit and, for Groth16 on an emulated
		// pairing, no public value is a small negative number / small fraction mod r (known finding F27: the run would not return)
		for try := 0; try < 16; try++ {
			c.Prog = zk.GenProvable(zk.ProvableCfg{Q: f.Q, MaxOps: 6, MaxCommits: maxC}).Draw(t, "prog")
			r := prog.Eval(c.Prog, f.Q)
			if !r.OK || r.Excluded != "" {
				continue
			}
			bad := wantCommit && zk.NbCommits(c.Prog) == 0
			if c.Scheme == "groth16" && p.Emulated() {
				for _, x := range pubValues(c.Prog, f.Q, r.Outs) {
					bad = bad || slowScalar(x, f.Q)
				}
			}
			if !bad {
				break
			}
		}
		for i := range c.Prog.In {
			if rapid.IntRange(0, 2).Draw(t, "keep") != 0 {
				c.Alt = append(c.Alt, c.Prog.In[i].V)
			} else {
				c.Alt = append(c.Alt, prog.GenVal(t, "alt"))
			}
		}
		c.Mut = Mutation{Idx: rapid.IntRange(0, 7).Draw(t, "mutidx"), To: rapid.SampledFrom([]string{"Add", "Sub", "Mul", "Extra"}).Draw(t, "mutto")}
		if c.Scheme == "groth16" {
			c.Mode = rapid.SampledFrom([]string{KeyWitness, KeyWitness, KeyFixed, KeyFixed, KeyConst, KeySwitchW, KeySwitchC, KeySwitchC}).Draw(t, "mode")
		} else {
			c.Mode = rapid.SampledFrom([]string{KeyWitness, KeyFixed, KeyFixed, KeyConst, KeySwitchW, KeySwitchW, KeySwitchC, KeySame2}).Draw(t, "mode")
		}
		c.Complete = rapid.IntRange(0, 2).Draw(t, "complete") != 0
		if isSwitch(c.Mode) {
			lists := [][]string{{"a", "r"}, {"r", "a"}, {"a", "b"}, {"b", "a"}, {"a", "r", "b"}, {"b", "a", "r"}, {"r", "b", "a"}, {"a", "b", "r2"}}
			c.KeyList = lists[rapid.IntRange(0, len(lists)-1).Draw(t, "keylist")]
		}
		c.Tau = new(big.Int).SetBytes(rapid.SliceOfN(rapid.Byte(), 8, 40).Draw(t, "tau")).Text(16)
		if cfg.compiled > 0 {
			c.Compiled = rapid.IntRange(0, cfg.compiled-1).Draw(t, "compiled") == 0
		}
		nc := zk.NbCommits(c.Prog)
		torsion := c.Scheme == "groth16" && hasTorsion(c.Pair)
		n := rapid.IntRange(cfg.minT, cfg.maxT).Draw(t, "ntriples")
		for i := 0; i < n; i++ {
			c.Triples = append(c.Triples, genTriple(t, &c, nc, torsion))
		}
		if c.Scheme == "groth16" && c.Subgroup && torsion {
			// by construction: every group element of the proof moved by a cofactor-torsion point, on an
			// otherwise genuine triple - the native verifier rejects each, WithSubgroupCheck must too
			base := Triple{Proof: "a", Key: "a", Pub: "a"}
			if isSwitch(c.Mode) {
				base.Sel = rapid.IntRange(0, len(c.KeyList)-1).Draw(t, "tsel")
				cb := combosByKey[c.KeyList[base.Sel]][0]
				base.Proof, base.Key, base.Pub = cb.proof, cb.key, cb.pub
			}
			targets := []string{"Ar", "Krs"}
			if hasG2Torsion(c.Pair) {
				targets = append(targets, "Bs")
			}
			if nc > 0 {
				targets = append(targets, "CommitmentPok", "Commitments[0]")
			}
			for _, el := range targets {
				tr := base
				tr.Elem, tr.ElemOp = el, "torsion"
				tr.Delta = int64(rapid.IntRange(0, 3).Draw(t, "tk"))
				c.Triples = append(c.Triples, tr)
			}
		}
		if cfg.firstGenuine {
			// few (expensive) cases: make sure the completeness direction is exercised in each
			g := Triple{Proof: "a", Key: "a", Pub: "a"}
			if isSwitch(c.Mode) {
				g.Sel = rapid.IntRange(0, len(c.KeyList)-1).Draw(t, "gsel")
				cb := combosByKey[c.KeyList[g.Sel]][0]
				g.Proof, g.Key, g.Pub = cb.proof, cb.key, cb.pub
			}
			c.Triples[0] = g
		}
		return c
	})
}

const rule = "An inner circuit (rapid-generated lib/zk.GenProvable program, 0-1 commitments for Groth16 - the in-circuit verifier supports one - and 0-2 for PLONK) fixes the shape of the outer circuit (placeholders). Keys: a (Setup), r/r2 (Groth16: re-setup; PLONK: other SRS) and b (circuit B = A with one Add/Sub/Mul renamed or one more multiplication; same shape, same SRS); genuine proofs a, a2, alt (second statement), r, r2, b made with std/recursion GetNativeProverOptions. Each case carries 2-8 drawn triples (proof, key or selector, public vector): genuine; replayed against another statement's public vector or an edited one (inc/dec/zero/delta/copy/swap); one proof element replaced by another valid group element (neg, double, add/set from a sibling element, the same element of another genuine proof, scalar multiple, infinity, +cofactor-torsion point for Groth16 G1 elements on the two-chains and Bs on bls12-377; Groth16 cases with WithSubgroupCheck on bls12-377 - half of them, mostly with a commitment - additionally carry one torsion triple per proof element Ar, Krs, Bs, CommitmentPok, Commitments[0]) or one claimed scalar altered (PLONK); proof of key X against key Y; key-switching modes with 2-3 candidate keys and every selector incl. out-of-range ones. Configuration drawn per case: pairing (two-chains bls12-377>bw6-761, bls24-315>bw6-633; emulated bn254>bn254, bls12-381>bn254, bw6-761>bn254), key mode (witness / fixed / const / switchw / switchc / same2 = PLONK AssertSameProofs with a genuine companion), WithCompleteArithmetic, WithSubgroupCheck (where implemented), and for a subset Compile+Solve of the outer circuit. Oracle: native Verify(triple) with GetNativeVerifierOptions == nil  <=>  test.IsSolved(outer circuit) == nil (and == compiled Solve), both directions; PLONK modes with a shared base key compare against the native key composed of the base part of the first key and the circuit part of the selected key; without WithCompleteArithmetic the completeness direction is asserted only outside the documented exceptional inputs (zero scalars, points at infinity, MSM points coinciding up to sign); a cofactor-torsion point must be rejected only under WithSubgroupCheck. Non-trivial: the case contains a triple whose native verdict is reject, or a key-switching triple selecting a non-first key. Distinct: SHA-256 of the case JSON."

func setup(rec *ev.Recorder) {
	rec.SetRule(rule)
	rec.Assume("native verdicts are computed, never assumed: a perturbed triple that the native verifier still accepts is a completeness case")
	rec.Assume("without WithCompleteArithmetic the in-circuit verifiers are only required to accept honest triples whose MSM scalars are non-zero and whose MSM points are distinct up to sign and not at infinity (doc comments of std/algebra MultiScalarMul / ScalarMul and of recursion/plonk WithCompleteArithmetic)")
	rec.Assume("without WithSubgroupCheck a G1 proof element moved by a cofactor-torsion point may be accepted in-circuit (the pairing cannot see it); the native verifier always checks subgroup membership")
	rec.Assume("Groth16 public inputs x with m*x = +-small (mod r) for some m <= 128 (r-k, (r-1)/2-k, 1/3, 5/7, ...) on the emulated GLV curves are not generated: the Eisenstein half-GCD hint does not terminate in reasonable time (known finding F27)")
}

func TestTwoChains(t *testing.T) {
	rec := ev.Get(ID)
	setup(rec)
	pairsQ := []string{"bls12-377>bw6-761", "bls12-377>bw6-761", "bls12-377>bw6-761", "bls24-315>bw6-633"}
	g := genCase(genCfg{schemes: []string{"groth16", "plonk"}, pairs: pairsQ, minT: 4, maxT: 8, compiled: 12})
	rec.Check(t, "rec", ev.N(56, 1600), func(rt *rapid.T) {
		c := g.Draw(rt, "case")
		rec.Begin("rec", c)
		rec.Report(rt, "rec", c, run(c, rec))
	})
}

func TestEmulated(t *testing.T) {
	if os.Getenv("C17_ONLY") == "twochains" {
		t.Skip("development switch: two-chain pairings only")
	}
	rec := ev.Get(ID)
	setup(rec)
	// one engine run costs seconds (minutes on a loaded machine); bw6-761>bn254 is the most expensive,
	// so it is drawn less often
	ps := []string{"bn254>bn254", "bn254>bn254", "bn254>bn254", "bls12-381>bn254", "bls12-381>bn254", "bls12-381>bn254", "bw6-761>bn254"}
	g := genCase(genCfg{schemes: []string{"groth16", "plonk"}, pairs: ps, minT: 2, maxT: 3, firstGenuine: true})
	rec.Check(t, "rec", ev.N(3, 64), func(rt *rapid.T) {
		c := g.Draw(rt, "case")
		rec.Begin("rec", c)
		rec.Report(rt, "rec", c, run(c, rec))
	})
}

func TestReplay(t *testing.T) { ev.Replay(t) }

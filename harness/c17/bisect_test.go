package c17

import (
	"encoding/json"
	"fmt"
	"os"
	"strings"
	"sync"
	"testing"
	"time"
)

// TestBisect re-runs the case of $C17_BISECT under the configurations listed in
// $C17_BISECT_CFG ("mode,complete,subgroup,pair;...") keeping only the first triple.
func TestBisect(t *testing.T) {
	path := os.Getenv("C17_BISECT")
	if path == "" {
		t.Skip()
	}
	b, err := os.ReadFile(path)
	if err != nil {
		t.Fatal(err)
	}
	var doc struct {
		Case Case `json:"case"`
	}
	if err := json.Unmarshal(b, &doc); err != nil {
		t.Fatal(err)
	}
	var wg sync.WaitGroup
	for _, cfg := range strings.Split(os.Getenv("C17_BISECT_CFG"), ";") {
		f := strings.Split(cfg, ",")
		if len(f) < 4 {
			continue
		}
		c := doc.Case
		c.Mode, c.Complete, c.Subgroup, c.Pair = f[0], f[1] == "1", f[2] == "1", f[3]
		c.Triples = c.Triples[:1]
		if len(f) > 4 {
			c.KeyList = strings.Split(f[4], "+")
		}
		if !isSwitch(c.Mode) {
			c.KeyList = nil
		}
		wg.Add(1)
		go func(cfg string, c Case) {
			defer wg.Done()
			t0 := time.Now()
			o := run(c, nil)
			fmt.Printf("BISECT %s -> violation=%q discard=%q classes=%v (%v)\n", cfg, o.Violation, o.DiscardWhy, o.Classes, time.Since(t0))
		}(cfg, c)
	}
	wg.Wait()
}

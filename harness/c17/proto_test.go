package c17

import (
	"fmt"
	"math/big"
	"os"
	"testing"
	"time"

	"verifharness/lib/zk"

	"github.com/consensys/gnark/backend/groth16"
	"github.com/consensys/gnark/backend/plonk"
	"github.com/consensys/gnark/frontend"
	stdg16 "github.com/consensys/gnark/std/recursion/groth16"
	stdplonk "github.com/consensys/gnark/std/recursion/plonk"
	"github.com/consensys/gnark/test"
)

type protoInner struct {
	P, Q frontend.Variable
	N    frontend.Variable `gnark:",public"`
	M    frontend.Variable `gnark:",public"`
	NC   int               `gnark:"-"`
}

func (c *protoInner) Define(api frontend.API) error {
	res := api.Mul(c.P, c.Q)
	api.AssertIsEqual(res, c.N)
	api.AssertIsEqual(api.Mul(c.M, c.M), api.Mul(c.P, c.P))
	for i := 0; i < c.NC; i++ {
		cm, err := api.Compiler().(frontend.Committer).Commit(res, c.N, c.P)
		if err != nil {
			return err
		}
		api.AssertIsDifferent(cm, 0)
	}
	return nil
}

func TestProto(t *testing.T) {
	if os.Getenv("C17_PROTO") == "" {
		t.Skip()
	}
	for _, p := range pairs {
		f := p.Inner()
		for _, nc := range []int{0, 1} {
			asg := &protoInner{P: 3, Q: 5, N: 15, M: 3}
			if os.Getenv("C17_PROTO") == "zero" {
				asg = &protoInner{P: 0, Q: 5, N: 0, M: 0}
			}
			if os.Getenv("C17_PROTO") == "one" {
				asg = &protoInner{P: 1, Q: 1, N: 1, M: 1}
			}
			w, _ := frontend.NewWitness(asg, f.Q)
			pub, _ := w.Public()
			// groth16
			g, err := zk.NewG16(f, &protoInner{NC: nc})
			if err != nil {
				t.Fatal(err)
			}
			proof, err := g.Prove(w, stdg16.GetNativeProverOptions(p.Outer(), f.Q))
			if err != nil {
				t.Fatal(err)
			}
			nerr := zk.VerifyG16(proof, g.VK, pub, stdg16.GetNativeVerifierOptions(p.Outer(), f.Q))
			for _, mode := range []string{KeyWitness, KeyFixed} {
				for _, complete := range []bool{false, true} {
					circ, a, err := p.G16(outerIn{CCS: g.CS, Mode: mode, Complete: complete, G16Keys: []groth16.VerifyingKey{g.VK}, G16Proof: proof, Pub: pub})
					if err != nil {
						t.Fatal(err)
					}
					t0 := time.Now()
					oerr := test.IsSolved(circ, a, p.Outer())
					fmt.Printf("g16 %s nc=%d mode=%s complete=%v native=%v outer=%v %v\n", p.Name(), nc, mode, complete, nerr == nil, oerr == nil, time.Since(t0))
					if oerr != nil {
						fmt.Println("   ", firstLine(oerr.Error()))
					}
				}
			}
			// plonk
			pl, err := zk.NewPlonk(f, &protoInner{NC: nc}, big.NewInt(123456789))
			if err != nil {
				t.Fatal(err)
			}
			pproof, err := pl.Prove(w, stdplonk.GetNativeProverOptions(p.Outer(), f.Q))
			if err != nil {
				t.Fatal(err)
			}
			nerr = zk.VerifyPlonk(pproof, pl.VK, pub, stdplonk.GetNativeVerifierOptions(p.Outer(), f.Q))
			for _, mode := range []string{KeyWitness, KeyFixed, KeyConst} {
				for _, complete := range []bool{false, true} {
					circ, a, err := p.Plonk(outerIn{CCS: pl.CS, Mode: mode, Complete: complete, PlonkKeys: []plonk.VerifyingKey{pl.VK}, PlonkProof: pproof, Pub: pub})
					if err != nil {
						t.Fatal(err)
					}
					t0 := time.Now()
					oerr := test.IsSolved(circ, a, p.Outer())
					fmt.Printf("plonk %s nc=%d mode=%s complete=%v native=%v outer=%v %v\n", p.Name(), nc, mode, complete, nerr == nil, oerr == nil, time.Since(t0))
					if oerr != nil {
						fmt.Println("   ", firstLine(oerr.Error()))
					}
				}
			}
		}
	}
}

func firstLine(s string) string {
	for i, c := range s {
		if c == '\n' || i > 300 {
			return s[:i]
		}
	}
	return s
}

package c17

// Outer circuits (generic over the inner curve gadget types) and the registry
// of inner→outer curve pairings.

import (
	"fmt"
	"math/big"

	"verifharness/lib/prog"

	"github.com/consensys/gnark-crypto/ecc"
	"github.com/consensys/gnark/backend/groth16"
	"github.com/consensys/gnark/backend/plonk"
	"github.com/consensys/gnark/backend/witness"
	"github.com/consensys/gnark/constraint"
	"github.com/consensys/gnark/frontend"
	"github.com/consensys/gnark/std/algebra"
	"github.com/consensys/gnark/std/algebra/emulated/sw_bls12381"
	"github.com/consensys/gnark/std/algebra/emulated/sw_bn254"
	"github.com/consensys/gnark/std/algebra/emulated/sw_bw6761"
	"github.com/consensys/gnark/std/algebra/native/sw_bls12377"
	"github.com/consensys/gnark/std/algebra/native/sw_bls24315"
	"github.com/consensys/gnark/std/math/emulated"
	stdg16 "github.com/consensys/gnark/std/recursion/groth16"
	stdplonk "github.com/consensys/gnark/std/recursion/plonk"
)

// Key modes.
const (
	KeyWitness = "witness" // whole verifying key is part of the outer witness
	KeyFixed   = "fixed"   // verifying key is a circuit constant (ValueOfVerifyingKeyFixed for Groth16)
	KeyConst   = "const"   // Groth16: non-fixed representation placed as a constant; PLONK: base key constant, circuit key in the witness
	KeySwitchW = "switchw" // key switching, candidate keys in the witness
	KeySwitchC = "switchc" // key switching, candidate keys constant (Groth16) / base key and circuit keys constant via AssertDifferentProofs (PLONK)
	KeySame2   = "same2"   // PLONK only: AssertSameProofs on two triples under one constant key (the drawn triple and a genuine companion)
)

func isSwitch(m string) bool { return m == KeySwitchW || m == KeySwitchC }

// outerIn describes one outer-circuit instance.
type outerIn struct {
	CCS      constraint.ConstraintSystem // inner constraint system the placeholders are sized from
	Mode     string
	Complete bool
	Subgroup bool
	// assignment side
	G16Keys    []groth16.VerifyingKey
	PlonkKeys  []plonk.VerifyingKey
	Selector   int
	G16Proof   groth16.Proof
	PlonkProof plonk.Proof
	Pub        witness.Witness
	// KeySame2: the companion triple and its position (0 = first)
	PlonkProof2 plonk.Proof
	Pub2        witness.Witness
	Pos2        int
}

type pair interface {
	Name() string
	Inner() prog.Field
	Outer() *big.Int
	Emulated() bool
	// G16 returns the outer circuit (placeholders / constants) and the outer assignment.
	G16(in outerIn) (frontend.Circuit, frontend.Circuit, error)
	Plonk(in outerIn) (frontend.Circuit, frontend.Circuit, error)
	// PlonkMulti: AssertSameProofs / AssertDifferentProofs over several inner proofs (multi_test.go).
	PlonkMulti(in multiIn) (frontend.Circuit, frontend.Circuit, error)
}

type pairT[FR emulated.FieldParams, G1 algebra.G1ElementT, G2 algebra.G2ElementT, GT algebra.GtElementT] struct {
	name  string
	inner string
	outer ecc.ID
	emu   bool
}

func (p pairT[FR, G1, G2, GT]) Name() string      { return p.name }
func (p pairT[FR, G1, G2, GT]) Inner() prog.Field { return prog.FieldByName(p.inner) }
func (p pairT[FR, G1, G2, GT]) Outer() *big.Int   { return p.outer.ScalarField() }
func (p pairT[FR, G1, G2, GT]) Emulated() bool    { return p.emu }

var pairs = []pair{
	pairT[sw_bls12377.ScalarField, sw_bls12377.G1Affine, sw_bls12377.G2Affine, sw_bls12377.GT]{"bls12-377>bw6-761", "bls12-377", ecc.BW6_761, false},
	pairT[sw_bls24315.ScalarField, sw_bls24315.G1Affine, sw_bls24315.G2Affine, sw_bls24315.GT]{"bls24-315>bw6-633", "bls24-315", ecc.BW6_633, false},
	pairT[sw_bn254.ScalarField, sw_bn254.G1Affine, sw_bn254.G2Affine, sw_bn254.GTEl]{"bn254>bn254", "bn254", ecc.BN254, true},
	pairT[sw_bls12381.ScalarField, sw_bls12381.G1Affine, sw_bls12381.G2Affine, sw_bls12381.GTEl]{"bls12-381>bn254", "bls12-381", ecc.BN254, true},
	pairT[sw_bw6761.ScalarField, sw_bw6761.G1Affine, sw_bw6761.G2Affine, sw_bw6761.GTEl]{"bw6-761>bn254", "bw6-761", ecc.BN254, true},
}

// hasSubgroupCheck: sw_bls24315.Pairing.AssertIsOnG1/G2 are panic("not implemented").
func hasSubgroupCheck(pairName string) bool { return pairName != "bls24-315>bw6-633" }

func pairByName(n string) pair {
	for _, p := range pairs {
		if p.Name() == n {
			return p
		}
	}
	return nil
}

// ---------------------------------------------------------------------------
// Groth16

type g16Circuit[FR emulated.FieldParams, G1 algebra.G1ElementT, G2 algebra.G2ElementT, GT algebra.GtElementT] struct {
	Proof        stdg16.Proof[G1, G2]
	InnerWitness stdg16.Witness[FR]
	Selector     []frontend.Variable               // len 1 in the switching modes
	Keys         []stdg16.VerifyingKey[G1, G2, GT] // witness-supplied keys
	ConstKeys    []stdg16.VerifyingKey[G1, G2, GT] `gnark:"-"`
	Complete     bool                              `gnark:"-"`
	Subgroup     bool                              `gnark:"-"`
}

func (c *g16Circuit[FR, G1, G2, GT]) Define(api frontend.API) error {
	v, err := stdg16.NewVerifier[FR, G1, G2, GT](api)
	if err != nil {
		return fmt.Errorf("new verifier: %w", err)
	}
	keys := c.Keys
	if len(c.ConstKeys) > 0 {
		keys = c.ConstKeys
	}
	vk := keys[0]
	if len(c.Selector) == 1 {
		if vk, err = v.SwitchVerificationKey(c.Selector[0], keys); err != nil {
			return fmt.Errorf("switch: %w", err)
		}
	}
	var opts []stdg16.VerifierOption
	if c.Complete {
		opts = append(opts, stdg16.WithCompleteArithmetic())
	}
	if c.Subgroup {
		opts = append(opts, stdg16.WithSubgroupCheck())
	}
	return v.AssertProof(vk, c.Proof, c.InnerWitness, opts...)
}

func (p pairT[FR, G1, G2, GT]) G16(in outerIn) (frontend.Circuit, frontend.Circuit, error) {
	circ := &g16Circuit[FR, G1, G2, GT]{Complete: in.Complete, Subgroup: in.Subgroup}
	asg := &g16Circuit[FR, G1, G2, GT]{}
	circ.Proof = stdg16.PlaceholderProof[G1, G2](in.CCS)
	circ.InnerWitness = stdg16.PlaceholderWitness[FR](in.CCS)
	var err error
	if asg.Proof, err = stdg16.ValueOfProof[G1, G2](in.G16Proof); err != nil {
		return nil, nil, fmt.Errorf("ValueOfProof: %w", err)
	}
	if asg.InnerWitness, err = stdg16.ValueOfWitness[FR](in.Pub); err != nil {
		return nil, nil, fmt.Errorf("ValueOfWitness: %w", err)
	}
	if isSwitch(in.Mode) {
		circ.Selector = make([]frontend.Variable, 1)
		asg.Selector = []frontend.Variable{in.Selector}
	} else if len(in.G16Keys) != 1 {
		return nil, nil, fmt.Errorf("harness: %d keys in mode %s", len(in.G16Keys), in.Mode)
	}
	vals := make([]stdg16.VerifyingKey[G1, G2, GT], len(in.G16Keys))
	for i, k := range in.G16Keys {
		if in.Mode == KeyFixed {
			vals[i], err = stdg16.ValueOfVerifyingKeyFixed[G1, G2, GT](k)
		} else {
			vals[i], err = stdg16.ValueOfVerifyingKey[G1, G2, GT](k)
		}
		if err != nil {
			return nil, nil, fmt.Errorf("ValueOfVerifyingKey: %w", err)
		}
	}
	switch in.Mode {
	case KeyWitness, KeySwitchW:
		circ.Keys = make([]stdg16.VerifyingKey[G1, G2, GT], len(vals))
		for i := range circ.Keys {
			circ.Keys[i] = stdg16.PlaceholderVerifyingKey[G1, G2, GT](in.CCS)
		}
		asg.Keys = vals
	case KeyFixed, KeyConst, KeySwitchC:
		circ.ConstKeys = vals
	default:
		return nil, nil, fmt.Errorf("harness: unknown key mode %q", in.Mode)
	}
	return circ, asg, nil
}

// ---------------------------------------------------------------------------
// PLONK

type plonkCircuit[FR emulated.FieldParams, G1 algebra.G1ElementT, G2 algebra.G2ElementT, GT algebra.GtElementT] struct {
	Proof        stdplonk.Proof[FR, G1, G2]
	InnerWitness stdplonk.Witness[FR]
	Proof2       []stdplonk.Proof[FR, G1, G2] // KeySame2: second triple
	Witness2     []stdplonk.Witness[FR]
	Selector     []frontend.Variable
	VK           []stdplonk.VerifyingKey[FR, G1, G2]     // witness-supplied complete key (len 0/1)
	CKeys        []stdplonk.CircuitVerifyingKey[FR, G1]  // witness-supplied circuit keys
	ConstVK      []stdplonk.VerifyingKey[FR, G1, G2]     `gnark:"-"`
	ConstBase    []stdplonk.BaseVerifyingKey[FR, G1, G2] `gnark:"-"`
	ConstCKeys   []stdplonk.CircuitVerifyingKey[FR, G1]  `gnark:"-"`
	Complete     bool                                    `gnark:"-"`
	Pos2         int                                     `gnark:"-"`
}

func (c *plonkCircuit[FR, G1, G2, GT]) Define(api frontend.API) error {
	v, err := stdplonk.NewVerifier[FR, G1, G2, GT](api)
	if err != nil {
		return fmt.Errorf("new verifier: %w", err)
	}
	var opts []stdplonk.VerifierOption
	if c.Complete {
		opts = append(opts, stdplonk.WithCompleteArithmetic())
	}
	ckeys := c.CKeys
	if len(c.ConstCKeys) > 0 {
		ckeys = c.ConstCKeys
	}
	switch {
	case len(c.Proof2) == 1:
		proofs := []stdplonk.Proof[FR, G1, G2]{c.Proof, c.Proof2[0]}
		wits := []stdplonk.Witness[FR]{c.InnerWitness, c.Witness2[0]}
		if c.Pos2 == 0 {
			proofs[0], proofs[1] = proofs[1], proofs[0]
			wits[0], wits[1] = wits[1], wits[0]
		}
		return v.AssertSameProofs(c.ConstVK[0], proofs, wits, opts...)
	case len(c.Selector) == 1:
		return v.AssertDifferentProofs(c.ConstBase[0], ckeys, c.Selector,
			[]stdplonk.Proof[FR, G1, G2]{c.Proof}, []stdplonk.Witness[FR]{c.InnerWitness}, opts...)
	case len(c.ConstVK) == 1:
		return v.AssertProof(c.ConstVK[0], c.Proof, c.InnerWitness, opts...)
	case len(c.VK) == 1:
		return v.AssertProof(c.VK[0], c.Proof, c.InnerWitness, opts...)
	case len(c.ConstBase) == 1 && len(ckeys) == 1:
		vk := stdplonk.VerifyingKey[FR, G1, G2]{BaseVerifyingKey: c.ConstBase[0], CircuitVerifyingKey: ckeys[0]}
		return v.AssertProof(vk, c.Proof, c.InnerWitness, opts...)
	}
	return fmt.Errorf("harness: no key")
}

func (p pairT[FR, G1, G2, GT]) Plonk(in outerIn) (frontend.Circuit, frontend.Circuit, error) {
	circ := &plonkCircuit[FR, G1, G2, GT]{Complete: in.Complete, Pos2: in.Pos2}
	asg := &plonkCircuit[FR, G1, G2, GT]{}
	circ.Proof = stdplonk.PlaceholderProof[FR, G1, G2](in.CCS)
	circ.InnerWitness = stdplonk.PlaceholderWitness[FR](in.CCS)
	var err error
	if asg.Proof, err = stdplonk.ValueOfProof[FR, G1, G2](in.PlonkProof); err != nil {
		return nil, nil, fmt.Errorf("ValueOfProof: %w", err)
	}
	if asg.InnerWitness, err = stdplonk.ValueOfWitness[FR](in.Pub); err != nil {
		return nil, nil, fmt.Errorf("ValueOfWitness: %w", err)
	}
	if !isSwitch(in.Mode) && len(in.PlonkKeys) != 1 {
		return nil, nil, fmt.Errorf("harness: %d keys in mode %s", len(in.PlonkKeys), in.Mode)
	}
	ckeys := func() ([]stdplonk.CircuitVerifyingKey[FR, G1], error) {
		r := make([]stdplonk.CircuitVerifyingKey[FR, G1], len(in.PlonkKeys))
		for i, k := range in.PlonkKeys {
			var e error
			if r[i], e = stdplonk.ValueOfCircuitVerifyingKey[FR, G1](k); e != nil {
				return nil, e
			}
		}
		return r, nil
	}
	phKeys := func(n int) []stdplonk.CircuitVerifyingKey[FR, G1] {
		r := make([]stdplonk.CircuitVerifyingKey[FR, G1], n)
		for i := range r {
			r[i] = stdplonk.PlaceholderCircuitVerifyingKey[FR, G1](in.CCS)
		}
		return r
	}
	switch in.Mode {
	case KeyFixed, KeySame2:
		vk, err := stdplonk.ValueOfVerifyingKey[FR, G1, G2](in.PlonkKeys[0])
		if err != nil {
			return nil, nil, err
		}
		circ.ConstVK = []stdplonk.VerifyingKey[FR, G1, G2]{vk}
		if in.Mode == KeySame2 {
			circ.Proof2 = []stdplonk.Proof[FR, G1, G2]{stdplonk.PlaceholderProof[FR, G1, G2](in.CCS)}
			circ.Witness2 = []stdplonk.Witness[FR]{stdplonk.PlaceholderWitness[FR](in.CCS)}
			p2, err := stdplonk.ValueOfProof[FR, G1, G2](in.PlonkProof2)
			if err != nil {
				return nil, nil, fmt.Errorf("ValueOfProof: %w", err)
			}
			w2, err := stdplonk.ValueOfWitness[FR](in.Pub2)
			if err != nil {
				return nil, nil, fmt.Errorf("ValueOfWitness: %w", err)
			}
			asg.Proof2 = []stdplonk.Proof[FR, G1, G2]{p2}
			asg.Witness2 = []stdplonk.Witness[FR]{w2}
		}
	case KeyWitness:
		vk, err := stdplonk.ValueOfVerifyingKey[FR, G1, G2](in.PlonkKeys[0])
		if err != nil {
			return nil, nil, err
		}
		circ.VK = []stdplonk.VerifyingKey[FR, G1, G2]{stdplonk.PlaceholderVerifyingKey[FR, G1, G2](in.CCS)}
		asg.VK = []stdplonk.VerifyingKey[FR, G1, G2]{vk}
	case KeyConst, KeySwitchW, KeySwitchC:
		// the base key (KZG key, coset shift, number of public inputs) is common to all candidate keys
		base, err := stdplonk.ValueOfBaseVerifyingKey[FR, G1, G2](in.PlonkKeys[0])
		if err != nil {
			return nil, nil, err
		}
		circ.ConstBase = []stdplonk.BaseVerifyingKey[FR, G1, G2]{base}
		ck, err := ckeys()
		if err != nil {
			return nil, nil, err
		}
		if in.Mode == KeySwitchC {
			circ.ConstCKeys = ck
		} else {
			circ.CKeys = phKeys(len(ck))
			asg.CKeys = ck
		}
		if isSwitch(in.Mode) {
			circ.Selector = make([]frontend.Variable, 1)
			asg.Selector = []frontend.Variable{in.Selector}
		}
	default:
		return nil, nil, fmt.Errorf("harness: unknown key mode %q", in.Mode)
	}
	return circ, asg, nil
}

package c17

// The KZG gadget's own multi-point batch (std/commitments/kzg BatchVerifyMultiPoints) against
// gnark-crypto's kzg.BatchVerifyMultiPoints on BLS12-377 in BW6-761, SRS with a known toxic value.

import (
	"encoding/json"
	"fmt"
	"math/big"
	"sort"
	"strings"
	"testing"

	"verifharness/lib/ev"

	"github.com/consensys/gnark-crypto/ecc"
	bls12377 "github.com/consensys/gnark-crypto/ecc/bls12-377"
	fr377 "github.com/consensys/gnark-crypto/ecc/bls12-377/fr"
	kzg377 "github.com/consensys/gnark-crypto/ecc/bls12-377/kzg"
	"github.com/consensys/gnark/frontend"
	"github.com/consensys/gnark/std/algebra/native/sw_bls12377"
	stdkzg "github.com/consensys/gnark/std/commitments/kzg"
	"github.com/consensys/gnark/std/math/emulated"
	"pgregory.net/rapid"
)

func init() {
	ev.RegisterReplay("kzg", func(raw json.RawMessage) string {
		var c KzgCase
		if err := json.Unmarshal(raw, &c); err != nil {
			return ""
		}
		return runKzg(c, ev.Get(ID)).Violation
	})
}

type KVariant struct {
	Kind string `json:"kind"` // genuine | tamper | cancel
	Pos  int    `json:"pos,omitempty"`
	Op   string `json:"op,omitempty"` // value+1 | value0 | quotient-double | quotient-neg | quotient-other | digest-other | digest-double | point+1
	I    int    `json:"i,omitempty"`
	J    int    `json:"j,omitempty"`
	C    int64  `json:"c,omitempty"`
}

type KzgCase struct {
	Tau      string     `json:"tau"`
	Polys    [][]string `json:"polys"`  // coefficients (hex), one polynomial per opening, pairwise distinct
	Points   []string   `json:"points"` // opening points (hex)
	Variants []KVariant `json:"variants"`
}

type kzgMultiCircuit struct {
	VK      stdkzg.VerifyingKey[sw_bls12377.G1Affine, sw_bls12377.G2Affine]
	Digests []stdkzg.Commitment[sw_bls12377.G1Affine]
	Proofs  []stdkzg.OpeningProof[sw_bls12377.ScalarField, sw_bls12377.G1Affine]
	Points  []emulated.Element[sw_bls12377.ScalarField]
}

func (c *kzgMultiCircuit) Define(api frontend.API) error {
	v, err := stdkzg.NewVerifier[sw_bls12377.ScalarField, sw_bls12377.G1Affine, sw_bls12377.G2Affine, sw_bls12377.GT](api)
	if err != nil {
		return err
	}
	return v.BatchVerifyMultiPoints(c.Digests, c.Proofs, c.Points, c.VK)
}

func frHex(s string) fr377.Element {
	x, _ := new(big.Int).SetString(s, 16)
	if x == nil {
		x = big.NewInt(1)
	}
	var e fr377.Element
	e.SetBigInt(x)
	return e
}

func runKzg(c KzgCase, rec *ev.Recorder) ev.Outcome {
	k := len(c.Polys)
	if k < 2 || len(c.Points) != k {
		return ev.Outcome{Discard: true, DiscardWhy: "harness: bad kzg case"}
	}
	q := ecc.BLS12_377.ScalarField()
	tau, _ := new(big.Int).SetString(c.Tau, 16)
	if tau == nil || tau.BitLen() < 8 {
		tau = big.NewInt(987654321)
	}
	tau.Mod(tau, q)
	maxLen := 0
	polys := make([][]fr377.Element, k)
	seen := map[string]bool{}
	for i, p := range c.Polys {
		for _, x := range p {
			polys[i] = append(polys[i], frHex(x))
		}
		if len(polys[i]) < 2 {
			return ev.Outcome{Discard: true, DiscardWhy: "polynomial of degree 0"}
		}
		if polys[i][len(polys[i])-1].IsZero() {
			polys[i][len(polys[i])-1].SetOne()
		}
		key := fmt.Sprint(polys[i])
		if seen[key] {
			return ev.Outcome{Discard: true, DiscardWhy: "two equal polynomials (equal digests are exceptional for the incomplete in-circuit MSM)"}
		}
		seen[key] = true
		if len(polys[i]) > maxLen {
			maxLen = len(polys[i])
		}
	}
	srs, err := kzg377.NewSRS(ecc.NextPowerOfTwo(uint64(maxLen+1)), tau)
	if err != nil {
		return ev.Outcome{Discard: true, DiscardWhy: "srs: " + err.Error()}
	}
	digests := make([]kzg377.Digest, k)
	proofs := make([]kzg377.OpeningProof, k)
	points := make([]fr377.Element, k)
	for i := range polys {
		points[i] = frHex(c.Points[i])
		for j := 0; j < i; j++ {
			if points[i].Equal(&points[j]) {
				return ev.Outcome{Discard: true, DiscardWhy: "two equal opening points"}
			}
		}
		if digests[i], err = kzg377.Commit(polys[i], srs.Pk); err != nil {
			return ev.Outcome{Discard: true, DiscardWhy: "commit: " + err.Error()}
		}
		if proofs[i], err = kzg377.Open(polys[i], points[i], srs.Pk); err != nil {
			return ev.Outcome{Discard: true, DiscardWhy: "open: " + err.Error()}
		}
		if proofs[i].H.IsInfinity() || digests[i].IsInfinity() {
			return ev.Outcome{Discard: true, DiscardWhy: "point at infinity in a genuine opening (exceptional for the incomplete in-circuit MSM)"}
		}
	}
	var frTau fr377.Element
	frTau.SetBigInt(tau)
	G := srs.Vk.G1
	shift := func(h *bls12377.G1Affine, s fr377.Element) {
		var d bls12377.G1Affine
		var bi big.Int
		d.ScalarMultiplication(&G, s.BigInt(&bi))
		h.Add(h, &d)
	}

	classes := []string{fmt.Sprintf("kzg:openings:%d", k)}
	nontriv := false
	evaluated := 0
	for vi, v := range c.Variants {
		ds := append([]kzg377.Digest{}, digests...)
		ps := append([]kzg377.OpeningProof{}, proofs...)
		pts := append([]fr377.Element{}, points...)
		label := v.Kind
		switch v.Kind {
		case "genuine":
		case "tamper":
			p, o := v.Pos%k, (v.Pos+1)%k
			var one fr377.Element
			one.SetOne()
			switch v.Op {
			case "value+1":
				ps[p].ClaimedValue.Add(&ps[p].ClaimedValue, &one)
			case "value0":
				ps[p].ClaimedValue.SetZero()
			case "quotient-double":
				ps[p].H.Double(&ps[p].H)
			case "quotient-neg":
				ps[p].H.Neg(&ps[p].H)
			case "quotient-other":
				ps[p].H = proofs[o].H
			case "digest-other":
				ds[p] = digests[o]
			case "digest-double":
				ds[p].Double(&ds[p])
			case "point+1":
				pts[p].Add(&pts[p], &one)
			default:
				continue
			}
			label = "tamper:" + v.Op
			classes = append(classes, fmt.Sprintf("kzg:tamper-at:%d/%d", p, k))
		case "cancel":
			i, j := v.I, v.J
			if i > j {
				i, j = j, i
			}
			if i == j || i < 0 || j >= k {
				continue
			}
			var cc, di, dj fr377.Element
			cc.SetInt64(v.C + 1)
			di.Sub(&points[j], &frTau).Mul(&di, &cc) // quotient_i += c·(z_j-τ)·G
			dj.Sub(&points[i], &frTau).Mul(&dj, &cc).Neg(&dj)
			shift(&ps[i].H, di)
			shift(&ps[j].H, dj)
			classes = append(classes, fmt.Sprintf("kzg:cancel-pair:%d-%d/%d", i, j, k))
		default:
			continue
		}
		nerr := kzg377.BatchVerifyMultiPoints(ds, ps, pts, srs.Vk)
		verdict := "reject"
		if nerr == nil {
			verdict = "accept"
		}
		classes = append(classes, "kzg:variant:"+label, "kzg:native:"+verdict)

		circ := &kzgMultiCircuit{Digests: make([]stdkzg.Commitment[sw_bls12377.G1Affine], k),
			Proofs: make([]stdkzg.OpeningProof[sw_bls12377.ScalarField, sw_bls12377.G1Affine], k),
			Points: make([]emulated.Element[sw_bls12377.ScalarField], k)}
		asg := &kzgMultiCircuit{}
		var aerr error
		if asg.VK, aerr = stdkzg.ValueOfVerifyingKey[sw_bls12377.G1Affine, sw_bls12377.G2Affine](srs.Vk); aerr != nil {
			return ev.Outcome{Discard: true, DiscardWhy: "assignment: " + aerr.Error()}
		}
		for i := 0; i < k; i++ {
			d, e1 := stdkzg.ValueOfCommitment[sw_bls12377.G1Affine](ds[i])
			p, e2 := stdkzg.ValueOfOpeningProof[sw_bls12377.ScalarField, sw_bls12377.G1Affine](ps[i])
			z, e3 := stdkzg.ValueOfScalar[sw_bls12377.ScalarField](pts[i])
			if e1 != nil || e2 != nil || e3 != nil {
				return ev.Outcome{Discard: true, DiscardWhy: "assignment failed"}
			}
			asg.Digests = append(asg.Digests, d)
			asg.Proofs = append(asg.Proofs, p)
			asg.Points = append(asg.Points, z)
		}
		ov := solveOuter(circ, asg, ecc.BW6_761.ScalarField())
		if ov.timedOut || (ov.err != nil && strings.HasPrefix(ov.err.Error(), "define: ")) {
			if rec != nil {
				rec.Discarded("kzg variant: outer circuit could not be run")
			}
			continue
		}
		outerOK := ov.err == nil
		where := fmt.Sprintf("[kzg BatchVerifyMultiPoints bls12-377>bw6-761 openings=%d variant %d %+v]", k, vi, v)
		if nerr == nil && !outerOK {
			return ev.Outcome{Violation: fmt.Sprintf("%s COMPLETENESS: native kzg.BatchVerifyMultiPoints accepts, the outer circuit is unsatisfiable: %s", where, errHint(ov.err))}
		}
		if nerr != nil && outerOK {
			return ev.Outcome{Violation: fmt.Sprintf("%s SOUNDNESS: native kzg.BatchVerifyMultiPoints rejects (%v), the outer circuit is satisfied", where, nerr)}
		}
		evaluated++
		nontriv = nontriv || nerr != nil
	}
	if evaluated == 0 {
		return ev.Outcome{Discard: true, DiscardWhy: "no variant could be built"}
	}
	if rec != nil {
		rec.AddExtra("kzg_outer_runs", evaluated)
	}
	sort.Strings(classes)
	return ev.Outcome{NonTrivial: nontriv, Classes: classes}
}

func genKzgCase() *rapid.Generator[KzgCase] {
	return rapid.Custom(func(t *rapid.T) KzgCase {
		c := KzgCase{}
		c.Tau = new(big.Int).SetBytes(rapid.SliceOfN(rapid.Byte(), 8, 40).Draw(t, "tau")).Text(16)
		k := rapid.SampledFrom([]int{2, 3, 3, 4, 4, 5}).Draw(t, "openings")
		hex := func(label string, min int) string {
			return new(big.Int).SetBytes(rapid.SliceOfN(rapid.Byte(), min, 32).Draw(t, label)).Text(16)
		}
		for i := 0; i < k; i++ {
			deg := rapid.IntRange(1, 6).Draw(t, "deg")
			var p []string
			for j := 0; j <= deg; j++ {
				p = append(p, hex("coef", 1))
			}
			p[0] = new(big.Int).SetInt64(int64(i+1)).Text(16) + p[0] // pairwise distinct
			c.Polys = append(c.Polys, p)
			c.Points = append(c.Points, hex("point", 4)+fmt.Sprintf("%02x", i))
		}
		c.Variants = append(c.Variants, KVariant{Kind: "genuine"})
		ops := []string{"value+1", "value0", "quotient-double", "quotient-neg", "quotient-other", "digest-other", "digest-double", "point+1"}
		for pos := 0; pos < k; pos++ {
			c.Variants = append(c.Variants, KVariant{Kind: "tamper", Pos: pos, Op: rapid.SampledFrom(ops).Draw(t, "op")})
		}
		for i := 0; i < k; i++ {
			for j := i + 1; j < k; j++ {
				c.Variants = append(c.Variants, KVariant{Kind: "cancel", I: i, J: j, C: int64(rapid.IntRange(0, 4).Draw(t, "c"))})
			}
		}
		return c
	})
}

const ruleKzg = "KZG: std/commitments/kzg BatchVerifyMultiPoints on BLS12-377 in BW6-761 over 2-5 openings of pairwise distinct drawn polynomials (degree 1-6) at distinct drawn points under an SRS of known toxic value; per case the genuine batch, one drawn tamper at EVERY position (claimed value, quotient, digest, point) and the pairwise cancelling shift for EVERY pair of openings. Oracle: gnark-crypto kzg.BatchVerifyMultiPoints == nil  <=>  the outer circuit is satisfied. Non-trivial: a variant the native batch verifier rejects."

func TestKzgMultiPoint(t *testing.T) {
	rec := ev.Get(ID)
	setup(rec)
	rec.SetRule(ruleKzg)
	g := genKzgCase()
	rec.Check(t, "kzg", ev.N(5, 300), func(rt *rapid.T) {
		c := g.Draw(rt, "case")
		rec.Begin("kzg", c)
		rec.Report(rt, "kzg", c, runKzg(c, rec))
	})
}

package c17

import (
	"testing"

	"verifharness/lib/ev"

	"github.com/consensys/gnark/logger"
)

func TestMain(m *testing.M) {
	logger.Disable()
	ev.Main(m)
}

// C20 — proofs are freshly blinded and committed values are masked.
//
// Invariant oracle over M proofs of the SAME witness made in one process:
//
//	(a) no blinded proof element equals an element of another proof,
//	(b) no blinded element equals its deterministic (unblinded) value recomputed
//	    from the exported proving key / a known toxic value and the wire values of
//	    the very solve the prover used (verif post-solve hook),
//	(c) positive control: every proof verifies.
//
// Every assertion is an INEQUALITY that holds for all but a negligible set of
// gnark's random draws; nothing random is ever asserted equal to anything.
// Absent blinding, a reused nonce, a zero / constant mask are caught with
// certainty. Weak-but-non-repeating randomness (biased, low-entropy, predictable
// generator) is outside what this technique can see.
package c20

import (
	"encoding/json"
	"fmt"
	"math/big"
	"reflect"
	"strings"
	"testing"

	"verifharness/lib/ev"
	"verifharness/lib/prog"
	"verifharness/lib/zk"

	"github.com/consensys/gnark/constraint/solver"
	"github.com/consensys/gnark/logger"
	"pgregory.net/rapid"
)

const ID = "C20"

func TestMain(m *testing.M) {
	logger.Disable()
	ev.RegisterReplay("blind", func(raw json.RawMessage) string {
		var c Case
		if err := json.Unmarshal(raw, &c); err != nil {
			return ""
		}
		return run(c, ev.Get(ID)).Violation
	})
	ev.Main(m)
}

// Case fully determines an execution up to gnark's own randomness.
type Case struct {
	Prog    *prog.Program `json:"prog"`
	Curve   string        `json:"curve"`
	Backend string        `json:"backend"` // groth16 | plonk
	SZK     bool          `json:"szk"`     // backend.WithStatisticalZeroKnowledge()
	Rec     bool          `json:"rec"`     // plonk: challenge hash = recording wrapper around the default SHA-256 (gives gamma, beta, zeta to the reference)
	Tau     string        `json:"tau"`     // plonk: known toxic value of the SRS (hex)
	M       int           `json:"m"`       // number of proofs of the same witness
}

// fails accumulates oracle failures so that a violation message lists every
// oracle that fired (useful for the sensitivity runs): the first message of each
// oracle (keyed by its format string) and how many times it fired.
type fails struct {
	msgs  []string
	count map[string]int
	keys  []string
}

func (f *fails) add(format string, a ...any) {
	if f.count == nil {
		f.count = map[string]int{}
	}
	if f.count[format] == 0 {
		f.keys = append(f.keys, format)
		f.msgs = append(f.msgs, fmt.Sprintf(format, a...))
	}
	f.count[format]++
}

func (f *fails) String() string {
	var out []string
	for i, k := range f.keys {
		out = append(out, fmt.Sprintf("%s [x%d]", f.msgs[i], f.count[k]))
	}
	return strings.Join(out, " || ")
}

// named is one proof element with its path.
type named struct {
	name string
	v    reflect.Value
}

// crossDistinct asserts that no element of proof i equals any element (of the
// same Go type, i.e. same group) of proof j != i.
func crossDistinct(f *fails, what string, els [][]named, eq func(a, b reflect.Value) bool) {
	for i := range els {
		for j := i + 1; j < len(els); j++ {
			for _, a := range els[i] {
				for _, b := range els[j] {
					if a.v.Type() != b.v.Type() {
						continue
					}
					if eq(a.v, b.v) {
						f.add("(a) "+what+": "+a.name+" of one proof == "+b.name+" of another proof of the same witness (first: proofs %d and %d)", i, j)
					}
				}
			}
		}
	}
}

func frEq(a, b reflect.Value) bool { return zk.FrGet(a).Cmp(zk.FrGet(b)) == 0 }

func pSub(a, b reflect.Value) reflect.Value {
	n := zk.NewLike(a)
	zk.PNeg(n, b)
	zk.PAdd(n, a, n)
	return n
}

func firstLine(s string) string {
	if i := strings.Index(s, "\n"); i >= 0 {
		s = s[:i]
	}
	if len(s) > 120 {
		s = s[:120]
	}
	return s
}

// randomizeID is the id of gnark's internal hints.Randomize (found through the registry).
func randomizeID() (solver.HintID, bool) {
	for _, h := range solver.GetRegisteredHints() {
		if strings.HasSuffix(solver.GetHintName(h), "hints.Randomize") {
			return solver.GetHintID(h), true
		}
	}
	return 0, false
}

func run(c Case, rec *ev.Recorder) ev.Outcome {
	f := prog.FieldByName(c.Curve)
	interp := prog.Eval(c.Prog, f.Q)
	if interp.Excluded != "" {
		return ev.Outcome{Discard: true, DiscardWhy: interp.Excluded}
	}
	if !interp.OK {
		return ev.Outcome{Discard: true, DiscardWhy: "assignment does not satisfy the program (C03 covers this)"}
	}
	if c.M < 2 {
		c.M = 2
	}
	var out ev.Outcome
	if c.Backend == "groth16" {
		out = runG16(c, f, interp.Outs, rec)
	} else {
		out = runPlonk(c, f, interp.Outs, rec)
	}
	if out.Discard || out.Violation != "" {
		return out
	}
	nc := zk.NbCommits(c.Prog)
	out.Classes = append(out.Classes, "backend:"+c.Backend, "curve:"+c.Curve, fmt.Sprintf("%s:commitments:%d", c.Backend, nc),
		fmt.Sprintf("szk:%v", c.SZK), fmt.Sprintf("M:%d", c.M))
	// low-entropy committed secrets: a Commit op whose argument is a secret input with a value below 2^8
	low := false
	for _, o := range c.Prog.Ops {
		if o.Op != "Commit" {
			continue
		}
		for _, a := range o.A {
			if a < len(c.Prog.In) && c.Prog.In[a].Kind == "s" && c.Prog.In[a].V.In(f.Q).BitLen() <= 8 {
				low = true
			}
		}
	}
	if low {
		out.Classes = append(out.Classes, "committed-secret:low-entropy(<2^8)")
	}
	return out
}

func genCase(curves []string, m int) *rapid.Generator[Case] {
	return rapid.Custom(func(t *rapid.T) Case {
		cn := rapid.SampledFrom(curves).Draw(t, "curve")
		f := prog.FieldByName(cn)
		// keep satisfying assignments only (an unsatisfiable case has no proof to look at)
		p := zk.GenProvable(zk.ProvableCfg{Q: f.Q, MaxOps: 7, MaxCommits: 3}).Filter(func(p *prog.Program) bool {
			r := prog.Eval(p, f.Q)
			return r.OK && r.Excluded == ""
		}).Draw(t, "prog")
		c := Case{Prog: p, Curve: cn, M: m}
		c.Backend = rapid.SampledFrom([]string{"groth16", "plonk"}).Draw(t, "backend")
		c.SZK = rapid.Bool().Draw(t, "szk")
		if c.Backend == "plonk" {
			c.Rec = rapid.IntRange(0, 3).Draw(t, "rec") != 0
			// a handful of toxic values so that unsafekzg's in-memory SRS cache is hit
			c.Tau = rapid.SampledFrom([]string{"5", "1234567", "deadbeefcafef00d0123456789abcdef", "3b9aca07ffffffffffffffffffffffffffffffffffffffffffffffc5"}).Draw(t, "tau")
		}
		return c
	})
}

func curvesForTier() []string {
	all := []string{"bn254", "bls12-377", "bls12-381", "bls24-315", "bls24-317", "bw6-633", "bw6-761"}
	if ev.Tier() == "quick" {
		// weighted toward the cheap curves, all seven present
		return append([]string{"bn254", "bn254", "bls12-381", "bls12-377"}, all...)
	}
	return all
}

const rule = "rapid-generated provable programs (lib/zk.GenProvable: 0-3 Commit ops over public / secret / mixed / derived sets, boundary-biased low-entropy values) x drawn curve x backend (groth16 | plonk with an SRS of known toxic value) x WithStatisticalZeroKnowledge on/off; Compile+Setup once, then M proofs (quick 4, thorough 6) of the SAME witness sequentially in one process, the verif post-solve hook capturing the wire values of each solve. Oracle (inequalities only): (a) no blinded element of one proof equals any same-group element of another proof (G16: Ar,Bs,Krs,Commitments[i],CommitmentPok; PLONK: LRO,Z,H,Bsb22Commitments,BatchedProof.H,ZShiftedOpening.H, claimed values of l,r,o,z); (b) G16: Ar-(alpha+sum w_i A_i) and Bs-(beta+sum w_i B_i) recomputed from the exported pk (infinity filtering redone) are non-zero, pairwise distinct across proofs, and r!=s (pairing check e(r.delta1,delta2)!=e(delta1,s.delta2)) for every pair of proofs; Commitments[i] != Pedersen commitment (exported basis) to the committed wires with the hints.Randomize mask wire zeroed; the mask wire is non-zero and differs between solves. PLONK: LRO[k] != [P_k(tau)]G1 for the Lagrange interpolation P_k of the captured column, the differences pairwise distinct (across columns and proofs); Bsb22Commitments[i] != commitment to the committed values alone; with the recording challenge hash: Z != [Z(tau)]G1 for the unblinded grand product rebuilt from the captured columns, the exported permutation, beta and gamma (reference self-validated by its wrap-around product == 1), and the claimed values l(zeta),r(zeta),o(zeta),z(omega.zeta) != the unblinded evaluations (reference self-validated by S1(zeta) == the claimed value of the unblinded S1); (c) every proof verifies. Non-trivial: all M proofs made and verified AND >=1 secret/internal wire with non-zero weight in the checked element (G16: occurs in L or R of a row, i.e. a non-infinity A or B point; PLONK: occupies a position of the L column). Distinct: SHA-256 of the case JSON."

func TestBlinding(t *testing.T) {
	rec := ev.Get(ID)
	rec.SetRule(rule)
	rec.Assume("an inequality between independently blinded values fails only on a negligible set of gnark's random draws (probability about 2^-250 per comparison)")
	rec.Assume("weak but non-repeating prover randomness (biased, low-entropy or predictable) is NOT detectable by this check; only absent blinding, a reused nonce, or a zero / constant mask is")
	rec.Assume("WithStatisticalZeroKnowledge only re-shards the quotient (h1 + r0 X^(n+2), h2 - r0 + r1 X^(n+2), h3 - r1): the shards' randomisers cannot be isolated from outside because h itself depends on the unknown blinding polynomials, so under the option only (a) and (c) are asserted for H[0..2]")
	m := 4
	if ev.Tier() == "thorough" {
		m = 6
	}
	g := genCase(curvesForTier(), m)
	rec.Check(t, "blind", ev.N(360, 5000), func(rt *rapid.T) {
		c := g.Draw(rt, "case")
		rec.Begin("blind", c)
		rec.Report(rt, "blind", c, run(c, rec))
	})
}

func TestReplay(t *testing.T) { ev.Replay(t) }

// ---------------------------------------------------------------------------
// small modular helpers (math/big)

func modMul(a, b, q *big.Int) *big.Int { return new(big.Int).Mod(new(big.Int).Mul(a, b), q) }
func modAdd(a, b, q *big.Int) *big.Int { return new(big.Int).Mod(new(big.Int).Add(a, b), q) }

// lagrangeAt returns L_j(x) for j in [0,N) over <omega>; x must not be in the domain.
func lagrangeAt(x, omega, q *big.Int, N int) []*big.Int {
	out := make([]*big.Int, N)
	tn := new(big.Int).Exp(x, big.NewInt(int64(N)), q)
	tn.Sub(tn, big.NewInt(1)).Mod(tn, q)
	ninv := new(big.Int).ModInverse(big.NewInt(int64(N)), q)
	tn.Mul(tn, ninv).Mod(tn, q)
	w := big.NewInt(1)
	for j := 0; j < N; j++ {
		d := new(big.Int).Sub(x, w)
		d.Mod(d, q)
		d.ModInverse(d, q)
		v := new(big.Int).Mul(tn, w)
		v.Mul(v, d).Mod(v, q)
		out[j] = v
		w = modMul(w, omega, q)
	}
	return out
}

func evalLagrange(col []*big.Int, lag []*big.Int, q *big.Int) *big.Int {
	s := new(big.Int)
	for j, c := range col {
		if c == nil || c.Sign() == 0 {
			continue
		}
		s.Add(s, new(big.Int).Mul(c, lag[j]))
	}
	return s.Mod(s, q)
}

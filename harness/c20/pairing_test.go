// Typed access to the per-curve PairingCheck (a package function, not reachable by reflection).

package c20

import (
	"fmt"
	"reflect"

	"github.com/consensys/gnark-crypto/ecc"
	bls12377 "github.com/consensys/gnark-crypto/ecc/bls12-377"
	bls12381 "github.com/consensys/gnark-crypto/ecc/bls12-381"
	bls24315 "github.com/consensys/gnark-crypto/ecc/bls24-315"
	bls24317 "github.com/consensys/gnark-crypto/ecc/bls24-317"
	bn254 "github.com/consensys/gnark-crypto/ecc/bn254"
	bw6633 "github.com/consensys/gnark-crypto/ecc/bw6-633"
	bw6761 "github.com/consensys/gnark-crypto/ecc/bw6-761"
)

// pairingCheck reports whether Π e(g1[i], g2[i]) == 1 on the given curve; the
// values are addressable G1Affine / G2Affine of that curve.
func pairingCheck(id ecc.ID, g1, g2 []reflect.Value) (bool, error) {
	if len(g1) != len(g2) {
		return false, fmt.Errorf("length mismatch")
	}
	switch id {
	case ecc.BN254:
		P := make([]bn254.G1Affine, len(g1))
		Q := make([]bn254.G2Affine, len(g2))
		for i := range g1 {
			P[i] = g1[i].Interface().(bn254.G1Affine)
			Q[i] = g2[i].Interface().(bn254.G2Affine)
		}
		return bn254.PairingCheck(P, Q)
	case ecc.BLS12_377:
		P := make([]bls12377.G1Affine, len(g1))
		Q := make([]bls12377.G2Affine, len(g2))
		for i := range g1 {
			P[i] = g1[i].Interface().(bls12377.G1Affine)
			Q[i] = g2[i].Interface().(bls12377.G2Affine)
		}
		return bls12377.PairingCheck(P, Q)
	case ecc.BLS12_381:
		P := make([]bls12381.G1Affine, len(g1))
		Q := make([]bls12381.G2Affine, len(g2))
		for i := range g1 {
			P[i] = g1[i].Interface().(bls12381.G1Affine)
			Q[i] = g2[i].Interface().(bls12381.G2Affine)
		}
		return bls12381.PairingCheck(P, Q)
	case ecc.BLS24_315:
		P := make([]bls24315.G1Affine, len(g1))
		Q := make([]bls24315.G2Affine, len(g2))
		for i := range g1 {
			P[i] = g1[i].Interface().(bls24315.G1Affine)
			Q[i] = g2[i].Interface().(bls24315.G2Affine)
		}
		return bls24315.PairingCheck(P, Q)
	case ecc.BLS24_317:
		P := make([]bls24317.G1Affine, len(g1))
		Q := make([]bls24317.G2Affine, len(g2))
		for i := range g1 {
			P[i] = g1[i].Interface().(bls24317.G1Affine)
			Q[i] = g2[i].Interface().(bls24317.G2Affine)
		}
		return bls24317.PairingCheck(P, Q)
	case ecc.BW6_633:
		P := make([]bw6633.G1Affine, len(g1))
		Q := make([]bw6633.G2Affine, len(g2))
		for i := range g1 {
			P[i] = g1[i].Interface().(bw6633.G1Affine)
			Q[i] = g2[i].Interface().(bw6633.G2Affine)
		}
		return bw6633.PairingCheck(P, Q)
	case ecc.BW6_761:
		P := make([]bw6761.G1Affine, len(g1))
		Q := make([]bw6761.G2Affine, len(g2))
		for i := range g1 {
			P[i] = g1[i].Interface().(bw6761.G1Affine)
			Q[i] = g2[i].Interface().(bw6761.G2Affine)
		}
		return bw6761.PairingCheck(P, Q)
	}
	return false, fmt.Errorf("no pairing for curve %s", id)
}

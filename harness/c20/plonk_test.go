package c20

import (
	"crypto/sha256"
	"fmt"
	"hash"
	"math/big"
	"reflect"
	"strings"

	"verifharness/lib/cseval"
	"verifharness/lib/ev"
	"verifharness/lib/prog"
	"verifharness/lib/zk"

	"github.com/consensys/gnark/backend"
	"github.com/consensys/gnark/backend/plonk"
	"github.com/consensys/gnark/constraint"
)

// recHash wraps the default challenge hash and records every digest it hands
// out: the Fiat-Shamir transcript of the prover asks for gamma, beta, alpha,
// zeta in this order, one Sum each.
type recHash struct {
	hash.Hash
	sums [][]byte
}

func (r *recHash) Sum(b []byte) []byte {
	s := r.Hash.Sum(b)
	r.sums = append(r.sums, append([]byte{}, s[len(b):]...))
	return s
}

type plonkRun struct {
	proof   plonk.Proof
	L, R, O []*big.Int
	sums    [][]byte
}

func runPlonk(c Case, f prog.Field, outs []*big.Int, rec *ev.Recorder) ev.Outcome {
	q := f.Q
	cs, err := prog.CompileU64(f, prog.SCS, prog.NewCircuit(c.Prog))
	if err != nil {
		return ev.Outcome{Discard: true, DiscardWhy: "compile failed (C04 covers this): " + firstLine(err.Error())}
	}
	sys, err := cseval.Extract(cs)
	if err != nil {
		return ev.Outcome{Violation: "cannot extract gates: " + err.Error()}
	}
	np := sys.NbPublic
	if np+len(sys.Gates) < 2 {
		return ev.Outcome{Discard: true, DiscardWhy: "fewer than 2 rows (documented as unsupported)"}
	}
	tau, ok := new(big.Int).SetString(c.Tau, 16)
	if !ok {
		tau = big.NewInt(12345)
	}
	tau.Mod(tau, q)
	if tau.Cmp(big.NewInt(2)) < 0 {
		tau.SetInt64(12345)
	}
	pl, err := zk.NewPlonkFromCS(f, cs, tau)
	if err != nil {
		return ev.Outcome{Discard: true, DiscardWhy: "setup failed (C02 covers this): " + firstLine(err.Error())}
	}
	full, err := prog.Witness(f, prog.Assignment(c.Prog, q, outs))
	if err != nil {
		return ev.Outcome{Discard: true, DiscardWhy: "witness: " + err.Error()}
	}
	pub, err := full.Public()
	if err != nil {
		return ev.Outcome{Discard: true, DiscardWhy: "public witness: " + err.Error()}
	}
	vk := zk.Elem(pl.VK)
	N := int(vk.FieldByName("Size").Uint())
	omega := zk.FrGet(vk.FieldByName("Generator"))
	u := zk.FrGet(vk.FieldByName("CosetShift"))
	G := vk.FieldByName("Kzg").FieldByName("G1")
	if new(big.Int).Exp(tau, big.NewInt(int64(N)), q).Cmp(big.NewInt(1)) == 0 {
		return ev.Outcome{Discard: true, DiscardWhy: "toxic value lies in the evaluation domain"}
	}
	lagTau := lagrangeAt(tau, omega, q, N)
	commitTo := func(col []*big.Int) reflect.Value { // [P(tau)]G1 for the Lagrange interpolation P of col
		p := zk.NewLike(G)
		zk.PMul(p, G, evalLagrange(col, lagTau, q))
		return p
	}

	runs := make([]*plonkRun, c.M)
	for k := 0; k < c.M; k++ {
		r := &plonkRun{}
		var popts []backend.ProverOption
		var rh *recHash
		if c.Rec {
			rh = &recHash{Hash: sha256.New()}
			popts = append(popts, backend.WithProverChallengeHashFunction(rh))
		}
		if c.SZK {
			popts = append(popts, backend.WithStatisticalZeroKnowledge())
		}
		var perr error
		zk.WithPostSolve(f.Curve, cs, func(sol any) {
			s, err := cseval.Decode(sol)
			if err == nil {
				r.L, r.R, r.O = s.L, s.R, s.O
			}
		}, func() {
			r.proof, perr = pl.Prove(full, popts...)
		})
		if perr != nil {
			if strings.HasPrefix(perr.Error(), "PANIC") {
				return ev.Outcome{Violation: fmt.Sprintf("proof %d of %d: %v", k, c.M, perr)}
			}
			if k == 0 {
				return ev.Outcome{Discard: true, DiscardWhy: "genuine prove failed (C03 covers this): " + firstLine(perr.Error())}
			}
			return ev.Outcome{Violation: fmt.Sprintf("proof 0 succeeded but proof %d of the same witness failed: %v", k, perr)}
		}
		if r.L == nil {
			panic("C20: verif post-solve hook was not called during plonk.Prove (harness problem)")
		}
		if len(r.L) != N || len(r.R) != N || len(r.O) != N {
			panic(fmt.Sprintf("C20: captured columns of %d,%d,%d rows, vk.Size=%d (harness problem)", len(r.L), len(r.R), len(r.O), N))
		}
		if rh != nil {
			r.sums = rh.sums
		}
		// (c) positive control (the verifier uses its default SHA-256: the recorder wraps the same function)
		if err := zk.VerifyPlonk(r.proof, pl.VK, pub); err != nil {
			return ev.Outcome{Violation: fmt.Sprintf("(c) proof %d of %d does not verify: %v", k, c.M, err)}
		}
		runs[k] = r
	}

	var fl fails
	commits, _ := cs.GetCommitments().(constraint.PlonkCommitments)
	nc := len(commits)

	// (a) cross-proof distinctness
	pts := make([][]named, c.M)
	scs := make([][]named, c.M)
	for k, r := range runs {
		root := zk.Elem(r.proof)
		for _, p := range []string{"LRO[0]", "LRO[1]", "LRO[2]", "Z", "H[0]", "H[1]", "H[2]", "BatchedProof.H", "ZShiftedOpening.H"} {
			pts[k] = append(pts[k], named{p, zk.Path(root, p)})
		}
		bsb := root.FieldByName("Bsb22Commitments")
		if bsb.Len() != nc {
			return ev.Outcome{Violation: fmt.Sprintf("proof %d carries %d BSB22 commitments, the system declares %d", k, bsb.Len(), nc)}
		}
		for i := 0; i < nc; i++ {
			pts[k] = append(pts[k], named{fmt.Sprintf("Bsb22Commitments[%d]", i), bsb.Index(i)})
		}
		cv := root.FieldByName("BatchedProof").FieldByName("ClaimedValues")
		if cv.Len() != 6+nc {
			return ev.Outcome{Violation: fmt.Sprintf("proof %d carries %d claimed values, expected 6+%d", k, cv.Len(), nc)}
		}
		scs[k] = []named{{"l(zeta)", cv.Index(1)}, {"r(zeta)", cv.Index(2)}, {"o(zeta)", cv.Index(3)}, {"z(omega.zeta)", zk.Path(root, "ZShiftedOpening.ClaimedValue")}}
	}
	crossDistinct(&fl, "plonk", pts, zk.PEqual)
	crossDistinct(&fl, "plonk claimed values", scs, frEq)

	// (b) wire commitments against the commitment to the bare column
	var diffs []named
	for k, r := range runs {
		root := zk.Elem(r.proof)
		for ci, col := range [][]*big.Int{r.L, r.R, r.O} {
			d := pSub(zk.Path(root, fmt.Sprintf("LRO[%d]", ci)), commitTo(col))
			name := fmt.Sprintf("proof %d LRO[%d]", k, ci)
			if zk.PIsInfinity(d) {
				fl.add("(b) %s equals the KZG commitment to the bare wire column (no blinding polynomial)", name)
			}
			diffs = append(diffs, named{name, d})
		}
	}
	for i := range diffs {
		for j := i + 1; j < len(diffs); j++ {
			if zk.PEqual(diffs[i].v, diffs[j].v) && !zk.PIsInfinity(diffs[i].v) {
				fl.add("(b) %s and %s carry the SAME blinding term (blinding polynomial reused)", diffs[i].name, diffs[j].name)
			}
		}
	}

	// (b) BSB22 commitments against the commitment to the committed values alone
	var bdiffs []named
	for i, cm := range commits {
		for k, r := range runs {
			col := make([]*big.Int, N)
			for _, g := range cm.Committed {
				// the gate reads qL·xa + Qcp·PI2 = 0, so the committed value is -qL·xa
				v := modMul(sys.Gates[g].QL, r.L[np+g], q)
				col[np+g] = v.Sub(q, v).Mod(v, q)
			}
			d := pSub(zk.Elem(r.proof).FieldByName("Bsb22Commitments").Index(i), commitTo(col))
			name := fmt.Sprintf("proof %d Bsb22Commitments[%d]", k, i)
			if zk.PIsInfinity(d) {
				fl.add("(b) %s equals the commitment to the committed values alone (the two blinding rows are zero): a guessed low-entropy secret is confirmed by the proof", name)
			}
			bdiffs = append(bdiffs, named{name, d})
		}
	}
	for i := range bdiffs {
		for j := i + 1; j < len(bdiffs); j++ {
			if zk.PEqual(bdiffs[i].v, bdiffs[j].v) && !zk.PIsInfinity(bdiffs[i].v) {
				fl.add("(b) %s and %s carry the SAME blinding term", bdiffs[i].name, bdiffs[j].name)
			}
		}
	}

	// (b) Z and the claimed values, with the challenges read off the recording hash
	zref, cvref := "off", "off"
	if c.Rec {
		zref, cvref = "unavailable", "unavailable"
		S, serr := zk.PlonkPermutation(cs, uint64(np+len(sys.Gates)))
		if serr == nil && len(S) == 3*N {
			id := make([]*big.Int, 3*N)
			w := big.NewInt(1)
			u2 := modMul(u, u, q)
			for j := 0; j < N; j++ {
				id[j], id[N+j], id[2*N+j] = new(big.Int).Set(w), modMul(w, u, q), modMul(w, u2, q)
				w = modMul(w, omega, q)
			}
			for k, r := range runs {
				if len(r.sums) != 4 {
					continue
				}
				gamma := new(big.Int).Mod(new(big.Int).SetBytes(r.sums[0]), q)
				beta := new(big.Int).Mod(new(big.Int).SetBytes(r.sums[1]), q)
				zeta := new(big.Int).Mod(new(big.Int).SetBytes(r.sums[3]), q)
				root := zk.Elem(r.proof)
				cols := [][]*big.Int{r.L, r.R, r.O}
				// unblinded grand product
				Z := make([]*big.Int, N+1)
				Z[0] = big.NewInt(1)
				okZ := true
				for i := 0; i < N && okZ; i++ {
					num, den := big.NewInt(1), big.NewInt(1)
					for j := 0; j < 3; j++ {
						a := modAdd(modAdd(cols[j][i], modMul(beta, id[j*N+i], q), q), gamma, q)
						b := modAdd(modAdd(cols[j][i], modMul(beta, id[S[j*N+i]], q), q), gamma, q)
						num, den = modMul(num, a, q), modMul(den, b, q)
					}
					if den.Sign() == 0 {
						okZ = false
						break
					}
					Z[i+1] = modMul(Z[i], modMul(num, new(big.Int).ModInverse(den, q), q), q)
				}
				// self-validation of the reference: the grand product closes (copy constraints hold on an honest solution)
				if okZ && Z[N].Cmp(big.NewInt(1)) == 0 {
					zref = "validated"
					if zk.PEqual(zk.Path(root, "Z"), commitTo(Z[:N])) {
						fl.add("(b) proof %d: Z equals the KZG commitment to the unblinded permutation grand product (no blinding polynomial on Z)", k)
					}
				}
				// claimed values
				zn := new(big.Int).Exp(zeta, big.NewInt(int64(N)), q)
				oz := modMul(zeta, omega, q)
				if zn.Cmp(big.NewInt(1)) == 0 {
					continue
				}
				lagZ := lagrangeAt(zeta, omega, q, N)
				s1 := make([]*big.Int, N)
				for i := 0; i < N; i++ {
					s1[i] = id[S[i]]
				}
				cv := root.FieldByName("BatchedProof").FieldByName("ClaimedValues")
				// self-validation: S1 is not blinded, its claimed value must be the evaluation at our zeta
				if evalLagrange(s1, lagZ, q).Cmp(zk.FrGet(cv.Index(4))) != 0 {
					continue
				}
				cvref = "validated"
				for j, nm := range []string{"l", "r", "o"} {
					if evalLagrange(cols[j], lagZ, q).Cmp(zk.FrGet(cv.Index(1+j))) == 0 {
						fl.add("(b) proof %d: the claimed value %s(zeta) equals the evaluation of the bare wire column at zeta (no blinding)", k, nm)
					}
				}
				if okZ && Z[N].Cmp(big.NewInt(1)) == 0 {
					lagOZ := lagrangeAt(oz, omega, q, N)
					if evalLagrange(Z[:N], lagOZ, q).Cmp(zk.FrGet(zk.Path(root, "ZShiftedOpening.ClaimedValue"))) == 0 {
						fl.add("(b) proof %d: the claimed value z(omega.zeta) equals the evaluation of the unblinded grand product (no blinding)", k)
					}
				}
			}
		}
	}
	if len(fl.msgs) > 0 {
		return ev.Outcome{Violation: fmt.Sprintf("[plonk %s M=%d commitments=%d szk=%v N=%d] %s", c.Curve, c.M, nc, c.SZK, N, fl.String())}
	}

	// non-trivial: a secret / internal wire occupies a position of the L column
	privL, nonzero := 0, false
	for j, g := range sys.Gates {
		if g.XA >= np {
			privL++
			if runs[0].L[np+j].Sign() != 0 {
				nonzero = true
			}
		}
	}
	committedPriv := 0
	for _, cm := range commits {
		for _, g := range cm.Committed {
			if sys.Gates[g].XA >= np {
				committedPriv++
			}
		}
	}
	classes := []string{"plonk:zref:" + zref, "plonk:claimed-ref:" + cvref, fmt.Sprintf("plonk:rec:%v", c.Rec), fmt.Sprintf("plonk:N:%d", N)}
	if nonzero {
		classes = append(classes, "plonk:private-L-value-nonzero")
	}
	if committedPriv > 0 {
		classes = append(classes, "plonk:commits-private-wire")
	}
	if c.SZK {
		classes = append(classes, "plonk:szk")
	}
	rec.AddExtra("plonk_proofs", c.M)
	return ev.Outcome{NonTrivial: privL > 0, Classes: classes}
}

package c20

import (
	"fmt"
	"math/big"
	"reflect"
	"strings"

	"verifharness/lib/cseval"
	"verifharness/lib/ev"
	"verifharness/lib/prog"
	"verifharness/lib/zk"

	"github.com/consensys/gnark/backend"
	"github.com/consensys/gnark/backend/groth16"
	"github.com/consensys/gnark/constraint"
)

// msm returns base + Σ scalars[i]·points[i] (points given by accessor), skipping zero scalars.
func msm(base reflect.Value, n int, point func(i int) reflect.Value, scalar func(i int) *big.Int) reflect.Value {
	acc := zk.NewLike(base)
	acc.Set(base)
	for i := 0; i < n; i++ {
		s := scalar(i)
		if s == nil || s.Sign() == 0 {
			continue
		}
		p := point(i)
		t := zk.NewLike(p)
		zk.PMul(t, p, s)
		zk.PAdd(acc, acc, t)
	}
	return acc
}

// filtered lists the wire ids kept by an infinity filter, in order.
func filtered(inf reflect.Value, nbWires int) []int {
	var keep []int
	for i := 0; i < nbWires && i < inf.Len(); i++ {
		if !inf.Index(i).Bool() {
			keep = append(keep, i)
		}
	}
	return keep
}

func runG16(c Case, f prog.Field, outs []*big.Int, rec *ev.Recorder) ev.Outcome {
	q := f.Q
	g, err := zk.NewG16(f, prog.NewCircuit(c.Prog))
	if err != nil {
		if strings.Contains(err.Error(), "must commit to at least one variable") {
			return ev.Outcome{Discard: true, DiscardWhy: "commit of constants only"}
		}
		return ev.Outcome{Discard: true, DiscardWhy: "compile/setup failed (C03/C04 cover this): " + firstLine(err.Error())}
	}
	full, err := prog.Witness(f, prog.Assignment(c.Prog, q, outs))
	if err != nil {
		return ev.Outcome{Discard: true, DiscardWhy: "witness: " + err.Error()}
	}
	pub, err := full.Public()
	if err != nil {
		return ev.Outcome{Discard: true, DiscardWhy: "public witness: " + err.Error()}
	}
	sys, err := cseval.Extract(g.CS)
	if err != nil {
		return ev.Outcome{Violation: "cannot extract rows: " + err.Error()}
	}
	nbWires := sys.NbPublic + sys.NbSecret + sys.NbIntern
	var popts []backend.ProverOption
	if c.SZK {
		popts = append(popts, backend.WithStatisticalZeroKnowledge())
	}

	// M proofs of the same witness, each with the wire values of its own solve
	proofs := make([]groth16.Proof, c.M)
	Ws := make([][]*big.Int, c.M)
	for k := 0; k < c.M; k++ {
		var perr error
		zk.WithPostSolve(f.Curve, g.CS, func(sol any) {
			Ws[k] = cseval.Vec(zk.Elem(sol).FieldByName("W").Interface())
		}, func() {
			proofs[k], perr = g.Prove(full, popts...)
		})
		if perr != nil {
			if strings.HasPrefix(perr.Error(), "PANIC") {
				return ev.Outcome{Violation: fmt.Sprintf("proof %d of %d: %v", k, c.M, perr)}
			}
			if k == 0 {
				return ev.Outcome{Discard: true, DiscardWhy: "genuine prove failed (C03 covers this): " + firstLine(perr.Error())}
			}
			return ev.Outcome{Violation: fmt.Sprintf("proof 0 succeeded but proof %d of the same witness failed: %v", k, perr)}
		}
		if Ws[k] == nil {
			panic("C20: verif post-solve hook was not called during groth16.Prove (harness problem)")
		}
		if len(Ws[k]) != nbWires {
			panic(fmt.Sprintf("C20: captured %d wires, system declares %d (harness problem)", len(Ws[k]), nbWires))
		}
		// (c) positive control
		if err := zk.VerifyG16(proofs[k], g.VK, pub); err != nil {
			return ev.Outcome{Violation: fmt.Sprintf("(c) proof %d of %d does not verify: %v", k, c.M, err)}
		}
	}

	var fl fails
	pk := zk.Elem(g.PK)
	infos, _ := g.CS.GetCommitments().(constraint.Groth16Commitments)
	nc := len(infos)

	// (a) cross-proof distinctness of every blinded element
	els := make([][]named, c.M)
	for k, p := range proofs {
		root := zk.Elem(p)
		els[k] = []named{{"Ar", root.FieldByName("Ar")}, {"Bs", root.FieldByName("Bs")}, {"Krs", root.FieldByName("Krs")}}
		cm := root.FieldByName("Commitments")
		if cm.Len() != nc {
			return ev.Outcome{Violation: fmt.Sprintf("proof %d carries %d commitments, the system declares %d", k, cm.Len(), nc)}
		}
		for i := 0; i < nc; i++ {
			els[k] = append(els[k], named{fmt.Sprintf("Commitments[%d]", i), cm.Index(i)})
		}
		if nc > 0 {
			els[k] = append(els[k], named{"CommitmentPok", root.FieldByName("CommitmentPok")})
		}
	}
	crossDistinct(&fl, "groth16", els, zk.PEqual)

	// (b) Ar, Bs against their unblinded values
	g1 := pk.FieldByName("G1")
	g2 := pk.FieldByName("G2")
	keepA := filtered(pk.FieldByName("InfinityA"), nbWires)
	keepB := filtered(pk.FieldByName("InfinityB"), nbWires)
	A, B1, B2 := g1.FieldByName("A"), g1.FieldByName("B"), g2.FieldByName("B")
	if A.Len() != len(keepA) || B2.Len() != len(keepB) || B1.Len() != len(keepB) {
		return ev.Outcome{Violation: fmt.Sprintf("proving key: len(G1.A)=%d len(G1.B)=%d len(G2.B)=%d but the infinity flags keep %d / %d wires", A.Len(), B1.Len(), B2.Len(), len(keepA), len(keepB))}
	}
	dA := make([]reflect.Value, c.M)
	dB := make([]reflect.Value, c.M)
	for k := range proofs {
		W := Ws[k]
		uA := msm(g1.FieldByName("Alpha"), len(keepA), func(i int) reflect.Value { return A.Index(i) }, func(i int) *big.Int { return W[keepA[i]] })
		uB := msm(g2.FieldByName("Beta"), len(keepB), func(i int) reflect.Value { return B2.Index(i) }, func(i int) *big.Int { return W[keepB[i]] })
		root := zk.Elem(proofs[k])
		dA[k] = pSub(root.FieldByName("Ar"), uA)
		dB[k] = pSub(root.FieldByName("Bs"), uB)
		if zk.PIsInfinity(dA[k]) {
			fl.add("(b) proof %d: Ar == alpha + sum w_i.A_i — the multiple r.delta is ZERO (Ar carries no blinding)", k)
		}
		if zk.PIsInfinity(dB[k]) {
			fl.add("(b) proof %d: Bs == beta + sum w_i.B_i — the multiple s.delta is ZERO (Bs carries no blinding)", k)
		}
	}
	for i := 0; i < c.M; i++ {
		for j := i + 1; j < c.M; j++ {
			if zk.PEqual(dA[i], dA[j]) {
				fl.add("(b) proofs %d and %d: Ar - unblinded is the same point: the nonce r was reused", i, j)
			}
			if zk.PEqual(dB[i], dB[j]) {
				fl.add("(b) proofs %d and %d: Bs - unblinded is the same point: the nonce s was reused", i, j)
			}
		}
	}
	// r of any proof must differ from s of any proof: e(r.delta1, delta2) != e(delta1, s.delta2)
	negD1 := zk.NewLike(g1.FieldByName("Delta"))
	zk.PNeg(negD1, g1.FieldByName("Delta"))
	d2 := g2.FieldByName("Delta")
	pairings := 0
	for i := 0; i < c.M; i++ {
		for j := 0; j < c.M; j++ {
			if zk.PIsInfinity(dA[i]) || zk.PIsInfinity(dB[j]) {
				continue // already reported
			}
			same, err := pairingCheck(f.Curve, []reflect.Value{dA[i], negD1}, []reflect.Value{d2, dB[j]})
			if err != nil {
				panic("C20: pairing check failed to run: " + err.Error())
			}
			pairings++
			if same {
				fl.add("(b) r of proof %d equals s of proof %d (e(Ar-unblinded, delta2) == e(delta1, Bs-unblinded)): one nonce used twice", i, j)
			}
		}
	}

	// commitments: mask wires (outputs of hints.Randomize) and the unmasked Pedersen commitment
	maskOf := map[int]bool{}
	if nc > 0 {
		id, ok := randomizeID()
		if !ok {
			panic("C20: hints.Randomize is not in the hint registry (harness problem)")
		}
		p, err := cseval.DecodeProgram(g.CS)
		if err != nil {
			panic("C20: cannot decode the instruction list: " + err.Error())
		}
		for _, in := range p.Instrs {
			if in.Kind == "hint" && in.HintID == id {
				for w := in.OutFrom; w < in.OutFrom+in.OutN; w++ {
					maskOf[w] = true
				}
			}
		}
	}
	keys := pk.FieldByName("CommitmentKeys")
	nbMasks, nbPrivCommitted := 0, 0
	for i, info := range infos {
		basis := keys.Index(i).FieldByName("Basis")
		if basis.Len() != len(info.PrivateCommitted) {
			return ev.Outcome{Violation: fmt.Sprintf("commitment key %d has %d basis points for %d private committed wires", i, basis.Len(), len(info.PrivateCommitted))}
		}
		var masks []int
		for _, w := range info.PrivateCommitted {
			if maskOf[w] {
				masks = append(masks, w)
			} else {
				nbPrivCommitted++
			}
		}
		nbMasks += len(masks)
		if len(masks) == 0 {
			fl.add("(b) commitment %d: none of its private committed wires %v is an output of hints.Randomize: the commitment has no random mask", i, info.PrivateCommitted)
		}
		for k := range proofs {
			W := Ws[k]
			zero := reflect.New(basis.Type().Elem()).Elem()
			u := msm(zero, basis.Len(), func(j int) reflect.Value { return basis.Index(j) }, func(j int) *big.Int {
				if maskOf[info.PrivateCommitted[j]] {
					return nil
				}
				return W[info.PrivateCommitted[j]]
			})
			cm := zk.Elem(proofs[k]).FieldByName("Commitments").Index(i)
			if zk.PEqual(cm, u) {
				fl.add("(b) proof %d: Commitments[%d] equals the Pedersen commitment to the committed values with the mask set to zero (a guessed low-entropy secret is confirmed by the proof)", k, i)
			}
			for _, m := range masks {
				if W[m].Sign() == 0 {
					fl.add("(b) solve %d: mask wire %d of commitment %d is zero", k, m, i)
				}
			}
		}
		for _, m := range masks {
			for a := 0; a < c.M; a++ {
				for b := a + 1; b < c.M; b++ {
					if Ws[a][m].Cmp(Ws[b][m]) == 0 {
						fl.add("(b) mask wire %d of commitment %d has the same value %s in solves %d and %d", m, i, Ws[a][m], a, b)
					}
				}
			}
		}
	}
	if len(fl.msgs) > 0 {
		return ev.Outcome{Violation: fmt.Sprintf("[groth16 %s M=%d commitments=%d] %s", c.Curve, c.M, nc, fl.String())}
	}

	// non-trivial: a secret / internal wire with non-zero weight in Ar or Bs
	inA, inB := 0, 0
	for _, w := range keepA {
		if w >= sys.NbPublic {
			inA++
		}
	}
	for _, w := range keepB {
		if w >= sys.NbPublic {
			inB++
		}
	}
	// cross-check with the exported rows (wire occurs in L resp. R of some row)
	rowL, rowR := map[int]bool{}, map[int]bool{}
	for _, r := range sys.Rows {
		for _, t := range r.L {
			rowL[t.Wire] = true
		}
		for _, t := range r.R {
			rowR[t.Wire] = true
		}
	}
	privL, privR := 0, 0
	for w := sys.NbPublic; w < nbWires; w++ {
		if rowL[w] {
			privL++
		}
		if rowR[w] {
			privR++
		}
	}
	nonzeroPriv := false
	for _, w := range keepA {
		if w >= sys.NbPublic && Ws[0][w].Sign() != 0 {
			nonzeroPriv = true
		}
	}
	classes := []string{fmt.Sprintf("g16:mask-wires:%d", min(nbMasks, 3)), fmt.Sprintf("g16:private-in-A:%v", inA > 0), fmt.Sprintf("g16:private-in-B:%v", inB > 0)}
	if nbPrivCommitted > 0 {
		classes = append(classes, "g16:commits-private-wire")
	}
	if nc > 0 && nbPrivCommitted == 0 {
		classes = append(classes, "g16:commitments-mask-only")
	}
	if nonzeroPriv {
		classes = append(classes, "g16:private-A-wire-nonzero")
	}
	rec.AddExtra("g16_pairing_checks", pairings)
	rec.AddExtra("g16_proofs", c.M)
	return ev.Outcome{NonTrivial: (inA > 0 || inB > 0) && (privL > 0 || privR > 0), Classes: classes}
}

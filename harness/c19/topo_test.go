package c19

import (
	"fmt"
	"math/big"
	"sort"

	"pgregory.net/rapid"
)

// Wire is one wire of a GKR circuit: an input (Gate == "") or a gate over
// earlier wires.
type Wire struct {
	Gate string `json:"gate,omitempty"`
	In   []int  `json:"in,omitempty"`
}

// Dep is a Series dependency: input wire InWire at instance InInst takes the
// value of output wire OutWire at instance OutInst.
type Dep struct {
	InWire  int `json:"in_wire"`
	InInst  int `json:"in_inst"`
	OutWire int `json:"out_wire"`
	OutInst int `json:"out_inst"`
}

// Topo is a GKR circuit topology with its input assignment.
type Topo struct {
	Wires []Wire `json:"wires"`
	LogN  int    `json:"log_n"`
	Deps  []Dep  `json:"deps,omitempty"`
	// Vals[w][i]: decimal value (possibly negative, reduced mod p) of input wire
	// w at instance i; "" where a dependency provides the value; nil for gates.
	Vals [][]string `json:"vals"`
}

func (t *Topo) N() int { return 1 << t.LogN }

type gateSpec struct {
	nIn    int
	degree int
	custom bool // only natively registered on bls12-377
}

func gateTable() map[string]gateSpec {
	return map[string]gateSpec{
		"add":       {2, 1, false},
		"sub":       {2, 1, false},
		"neg":       {1, 1, false},
		"mul":       {2, 2, false},
		"pow2":      {1, 2, true},
		"pow2Times": {2, 3, true},
		"pow4":      {1, 4, true},
		"pow4Times": {2, 5, true},
		"ext3":      {3, 1, true},
	}
}

// evalGate is the reference semantics of a gate over F_p.
func evalGate(g string, x []*big.Int, p *big.Int) *big.Int {
	r := new(big.Int)
	switch g {
	case "add":
		r.Add(x[0], x[1])
	case "sub":
		r.Sub(x[0], x[1])
	case "neg":
		r.Neg(x[0])
	case "mul":
		r.Mul(x[0], x[1])
	case "pow2":
		r.Mul(x[0], x[0])
	case "pow2Times":
		r.Mul(x[0], x[0]).Mul(r, x[1])
	case "pow4":
		r.Exp(x[0], big.NewInt(4), p)
	case "pow4Times":
		r.Exp(x[0], big.NewInt(4), p).Mul(r, x[1])
	case "ext3":
		r.Lsh(x[0], 1).Add(r, x[1]).Add(r, x[2])
	default:
		panic("unknown gate " + g)
	}
	return r.Mod(r, p)
}

func (t *Topo) isInput(w int) bool { return t.Wires[w].Gate == "" }

// uses[w] = number of distinct gates using wire w.
func (t *Topo) uses() []int {
	u := make([]int, len(t.Wires))
	for _, w := range t.Wires {
		seen := map[int]bool{}
		for _, in := range w.In {
			if !seen[in] {
				seen[in] = true
				u[in]++
			}
		}
	}
	return u
}

func (t *Topo) outputs() []int {
	var r []int
	for w, u := range t.uses() {
		if u == 0 {
			r = append(r, w)
		}
	}
	return r
}

func (t *Topo) inputs() []int {
	var r []int
	for w := range t.Wires {
		if t.isInput(w) {
			r = append(r, w)
		}
	}
	return r
}

// instanceOrder sorts the instances so that every dependency's source comes
// before its target, always taking the least ready index first (this is the
// documented behaviour of the sort the GKR API applies: "tries to stick to the
// input order as much as possible"). It is the harness's own implementation.
// ok=false when the dependencies are cyclic.
func (t *Topo) instanceOrder() (order []int, ok bool) {
	n := t.N()
	preds := make([]map[int]bool, n)
	for i := range preds {
		preds[i] = map[int]bool{}
	}
	for _, d := range t.Deps {
		preds[d.InInst][d.OutInst] = true
	}
	done := make([]bool, n)
	for len(order) < n {
		pick := -1
		for i := 0; i < n && pick < 0; i++ {
			if done[i] {
				continue
			}
			ready := true
			for p := range preds[i] {
				if !done[p] {
					ready = false
				}
			}
			if ready {
				pick = i
			}
		}
		if pick < 0 {
			return nil, false
		}
		done[pick] = true
		order = append(order, pick)
	}
	return order, true
}

func parseVal(s string, p *big.Int) *big.Int {
	v, ok := new(big.Int).SetString(s, 10)
	if !ok {
		panic("bad value " + s)
	}
	return v.Mod(v, p)
}

// eval is the reference evaluation: vals[w][i] for every wire and instance.
// override (optional) replaces explicit input values.
func (t *Topo) eval(p *big.Int, vals [][]string) [][]*big.Int {
	n := t.N()
	res := make([][]*big.Int, len(t.Wires))
	for w := range res {
		res[w] = make([]*big.Int, n)
	}
	depOf := map[[2]int]Dep{}
	for _, d := range t.Deps {
		depOf[[2]int{d.InWire, d.InInst}] = d
	}
	order, ok := t.instanceOrder()
	if !ok {
		panic("cyclic dependencies")
	}
	for _, i := range order {
		for w, wire := range t.Wires {
			if wire.Gate == "" {
				if d, has := depOf[[2]int{w, i}]; has {
					res[w][i] = res[d.OutWire][d.OutInst]
				} else {
					res[w][i] = parseVal(vals[w][i], p)
				}
				continue
			}
			x := make([]*big.Int, len(wire.In))
			for k, in := range wire.In {
				x[k] = res[in][i]
			}
			res[w][i] = evalGate(wire.Gate, x, p)
		}
	}
	return res
}

// validate checks the structural invariants the generator guarantees (used on replay input).
func (t *Topo) validate() error {
	tab := gateTable()
	if t.LogN < 0 || t.LogN > 12 || len(t.Wires) == 0 || len(t.Vals) != len(t.Wires) {
		return fmt.Errorf("bad shape")
	}
	nGates := 0
	for w, wire := range t.Wires {
		if wire.Gate == "" {
			if len(t.Vals[w]) != t.N() {
				return fmt.Errorf("wire %d: %d values for %d instances", w, len(t.Vals[w]), t.N())
			}
			continue
		}
		nGates++
		g, ok := tab[wire.Gate]
		if !ok || g.nIn != len(wire.In) {
			return fmt.Errorf("wire %d: bad gate", w)
		}
		for _, in := range wire.In {
			if in < 0 || in >= w {
				return fmt.Errorf("wire %d: bad operand", w)
			}
		}
	}
	if nGates == 0 {
		return fmt.Errorf("no gate")
	}
	u := t.uses()
	for w := range t.Wires {
		if t.isInput(w) && u[w] == 0 {
			return fmt.Errorf("unused input %d", w)
		}
	}
	seen := map[[2]int]bool{}
	for _, d := range t.Deps {
		if d.InWire < 0 || d.InWire >= len(t.Wires) || d.OutWire < 0 || d.OutWire >= len(t.Wires) ||
			!t.isInput(d.InWire) || u[d.OutWire] != 0 || d.InInst == d.OutInst ||
			d.InInst < 0 || d.InInst >= t.N() || d.OutInst < 0 || d.OutInst >= t.N() || seen[[2]int{d.InWire, d.InInst}] {
			return fmt.Errorf("bad dependency %+v", d)
		}
		seen[[2]int{d.InWire, d.InInst}] = true
	}
	if _, ok := t.instanceOrder(); !ok {
		return fmt.Errorf("cyclic dependencies")
	}
	for w := range t.Wires {
		if !t.isInput(w) {
			continue
		}
		for i := 0; i < t.N(); i++ {
			if seen[[2]int{w, i}] != (t.Vals[w][i] == "") {
				return fmt.Errorf("wire %d instance %d: value/dependency mismatch", w, i)
			}
			if t.Vals[w][i] != "" {
				if _, ok := new(big.Int).SetString(t.Vals[w][i], 10); !ok {
					return fmt.Errorf("bad value")
				}
			}
		}
	}
	return nil
}

// ---- generator -----------------------------------------------------------------

func genValue() *rapid.Generator[string] {
	return rapid.Custom(func(t *rapid.T) string {
		switch rapid.IntRange(0, 9).Draw(t, "vkind") {
		case 0:
			return "0"
		case 1:
			return "1"
		case 2:
			return "-1" // p-1
		case 3:
			return rapid.SampledFrom([]string{"2", "-2", "3"}).Draw(t, "small")
		case 4, 5:
			return fmt.Sprint(rapid.Uint64().Draw(t, "u64"))
		default:
			// ~250-bit value (reduced mod p by the reader)
			v := new(big.Int)
			for k := 0; k < 4; k++ {
				v.Lsh(v, 64).Or(v, new(big.Int).SetUint64(rapid.Uint64().Draw(t, "limb")))
			}
			if rapid.Bool().Draw(t, "neg") {
				v.Neg(v)
			}
			return v.String()
		}
	})
}

func genDelta() *rapid.Generator[string] {
	return rapid.Custom(func(t *rapid.T) string {
		switch rapid.IntRange(0, 3).Draw(t, "dkind") {
		case 0:
			return "1"
		case 1:
			return "-1"
		case 2:
			return fmt.Sprint(rapid.Uint64Min(2).Draw(t, "u64"))
		default:
			v := new(big.Int).SetUint64(rapid.Uint64Min(1).Draw(t, "hi"))
			for k := 0; k < 3; k++ {
				v.Lsh(v, 64).Or(v, new(big.Int).SetUint64(rapid.Uint64().Draw(t, "limb")))
			}
			return v.String()
		}
	})
}

// genTopo draws a topology. custom: allow the bls12-377-only custom gates.
// maxLogN bounds the number of instances (cost control).
func genTopo(custom bool, minLogN, maxLogN int) *rapid.Generator[Topo] {
	return rapid.Custom(func(rt *rapid.T) Topo {
		var t Topo
		nIn := rapid.IntRange(1, 3).Draw(rt, "n_inputs")
		nGates := rapid.IntRange(1, 6).Draw(rt, "n_gates")
		if nGates < nIn && rapid.Bool().Draw(rt, "more-gates") {
			nGates = nIn
		}
		// a single instance is accepted by Import but never compiles on this tree (see run): keep it
		// rare (rapid favours the first entries of a list, so the 0 sits in the middle)
		logNs := []int{}
		for r := 0; r < 3; r++ {
			for k := minLogN; k <= maxLogN; k++ {
				logNs = append(logNs, k)
			}
			if r == 1 {
				logNs = append(logNs, 0)
			}
		}
		t.LogN = rapid.SampledFrom(logNs).Draw(rt, "log_n")
		names := []string{"add", "mul", "neg", "sub", "mul", "add"}
		if custom {
			names = append(names, "pow2", "pow2Times", "pow4", "pow4Times", "ext3", "pow2Times", "pow4Times")
		}
		tab := gateTable()
		var unusedInputs []int
		inputsLeft := nIn
		for g := 0; g < nGates; g++ {
			// import a new input just before a gate that will use it
			gatesLeft := nGates - g
			if inputsLeft > 0 && (len(t.Wires) == 0 || inputsLeft >= gatesLeft || rapid.IntRange(0, 2).Draw(rt, "import-now") == 0) {
				k := 1
				if inputsLeft > gatesLeft {
					k = inputsLeft - gatesLeft + 1
				}
				for ; k > 0; k-- {
					t.Wires = append(t.Wires, Wire{})
					unusedInputs = append(unusedInputs, len(t.Wires)-1)
					inputsLeft--
				}
			}
			name := rapid.SampledFrom(names).Draw(rt, "gate")
			spec := tab[name]
			// enough arity to absorb pending unused inputs
			for tries := 0; spec.nIn < len(unusedInputs)-2*(gatesLeft-1) && tries < 20; tries++ {
				name = rapid.SampledFrom([]string{"add", "mul", "sub"}).Draw(rt, "gate2")
				spec = tab[name]
			}
			in := make([]int, spec.nIn)
			for k := range in {
				if len(unusedInputs) > 0 && (k == 0 || rapid.Bool().Draw(rt, "use-pending")) {
					in[k] = unusedInputs[0]
					unusedInputs = unusedInputs[1:]
				} else {
					// bias toward recent wires, still allowing fan-out of old ones
					if rapid.Bool().Draw(rt, "recent") {
						in[k] = len(t.Wires) - 1
					} else {
						in[k] = rapid.IntRange(0, len(t.Wires)-1).Draw(rt, "operand")
					}
					// repeated operands (x*x) are wanted, but not in most gates
					if k > 0 && in[k] == in[k-1] && len(t.Wires) > 1 && rapid.IntRange(0, 3).Draw(rt, "allow-repeat") != 0 {
						in[k] = (in[k] + 1 + rapid.IntRange(0, len(t.Wires)-2).Draw(rt, "other")) % len(t.Wires)
					}
				}
			}
			if spec.nIn >= 2 && rapid.IntRange(0, 3).Draw(rt, "shuffle") == 0 {
				in[0], in[1] = in[1], in[0]
			}
			t.Wires = append(t.Wires, Wire{Gate: name, In: in})
		}
		// any input still unused (possible when arities were too small): feed it to an extra add gate
		for _, w := range unusedInputs {
			t.Wires = append(t.Wires, Wire{Gate: "add", In: []int{w, len(t.Wires) - 1}})
		}

		n := t.N()
		// dependencies
		depMode := "none"
		if n >= 2 {
			depMode = rapid.SampledFrom([]string{"none", "none", "none", "some", "some", "chain"}).Draw(rt, "dep_mode")
		}
		taken := map[[2]int]bool{}
		if depMode != "none" {
			perm := rapid.Permutation(seq(n)).Draw(rt, "hidden_order")
			if rapid.IntRange(0, 3).Draw(rt, "identity-order") == 0 {
				perm = seq(n)
			}
			ins, outs := t.inputs(), t.outputs()
			switch depMode {
			case "chain":
				iw := rapid.SampledFrom(ins).Draw(rt, "dep_in")
				ow := rapid.SampledFrom(outs).Draw(rt, "dep_out")
				for b := 1; b < n; b++ {
					t.Deps = append(t.Deps, Dep{InWire: iw, InInst: perm[b], OutWire: ow, OutInst: perm[b-1]})
					taken[[2]int{iw, perm[b]}] = true
				}
			case "some":
				k := rapid.IntRange(1, min(2*n, 8)).Draw(rt, "n_deps")
				for ; k > 0; k-- {
					iw := rapid.SampledFrom(ins).Draw(rt, "dep_in")
					b := rapid.IntRange(1, n-1).Draw(rt, "dep_b")
					a := rapid.IntRange(0, b-1).Draw(rt, "dep_a")
					if taken[[2]int{iw, perm[b]}] {
						continue
					}
					taken[[2]int{iw, perm[b]}] = true
					t.Deps = append(t.Deps, Dep{InWire: iw, InInst: perm[b], OutWire: rapid.SampledFrom(outs).Draw(rt, "dep_out"), OutInst: perm[a]})
				}
			}
			sort.Slice(t.Deps, func(i, j int) bool {
				if t.Deps[i].InWire != t.Deps[j].InWire {
					return t.Deps[i].InWire < t.Deps[j].InWire
				}
				return t.Deps[i].InInst < t.Deps[j].InInst
			})
			if rapid.Bool().Draw(rt, "dep-order-reversed") { // the order of the Series calls must not matter
				for i, j := 0, len(t.Deps)-1; i < j; i, j = i+1, j-1 {
					t.Deps[i], t.Deps[j] = t.Deps[j], t.Deps[i]
				}
			}
		}
		// values
		gv := genValue()
		t.Vals = make([][]string, len(t.Wires))
		for w := range t.Wires {
			if !t.isInput(w) {
				continue
			}
			t.Vals[w] = make([]string, n)
			constant := rapid.IntRange(0, 5).Draw(rt, "const-wire") == 0
			c := gv.Draw(rt, "cval")
			for i := 0; i < n; i++ {
				if taken[[2]int{w, i}] {
					continue
				}
				if constant {
					t.Vals[w][i] = c
				} else {
					t.Vals[w][i] = gv.Draw(rt, "val")
				}
			}
		}
		return t
	})
}

func seq(n int) []int {
	r := make([]int, n)
	for i := range r {
		r[i] = i
	}
	return r
}

// C19 — GKR-delegated computation equals direct computation and cannot be forged.
//
// Honest direction (differential): circuit A delegates a random gate topology to
// std/gkr and asserts, for every exported wire and every instance, equality with
// a direct evaluation of the same gates through frontend.API; it must compile
// and solve on both builders and in the test engine. Circuit B (claimed outputs
// as public inputs, computed by the harness's big-integer reference) must solve.
//
// Forgery direction (adversarial): on circuit B the GKR metadata is detached
// from the compiled system so that the harness's own overrides of the solve /
// prove hints are used; they wrap the genuine exported hint constructors of
// constraint/<curve>/gkr.go and tamper with outputs, inputs, the initial
// challenge seen by the prover or single proof elements. Every effective
// tampering must make the system unsatisfiable.
package c19

import (
	"encoding/json"
	"errors"
	"fmt"
	"math/big"
	"strings"
	"sync/atomic"
	"testing"
	"time"

	"verifharness/lib/ev"
	"verifharness/lib/hintadv"
	"verifharness/lib/prog"

	"github.com/consensys/gnark/backend/witness"
	"github.com/consensys/gnark/constraint"
	"github.com/consensys/gnark/constraint/solver"
	"github.com/consensys/gnark/frontend"
	"github.com/consensys/gnark/logger"
	"github.com/consensys/gnark/std"
	"github.com/consensys/gnark/test"
	"pgregory.net/rapid"
)

const ID = "C19"

// singleInstanceRejected recognises, narrowly, the compile-time failure of single-instance
// circuits: with zero sum-check variables the challenge-name list of a sum-check (or of the whole
// transcript) is empty and std/gkr indexes challengeNames[0] (gkr.go setup / sumcheck.go
// setupTranscript). The API does not accept such a topology, so it is outside the property's domain.
func singleInstanceRejected(t *Topo, err error) bool {
	if t.LogN != 0 || err == nil {
		return false
	}
	m := err.Error()
	return strings.Contains(m, "index out of range [0] with length 0") &&
		(strings.Contains(m, "gkr.setupTranscript") || strings.Contains(m, "gkr.setup\n"))
}

// ---- watchdog around solves ---------------------------------------------------------
//
// A spinning hint would wedge the whole run (the tree this check was written against had one:
// internal/utils.BinarySearchFunc, used by the genuine GKR solve hint, looped forever as soon as two
// input wires had dependencies and an instance chunk started after the last dependency of one of
// them; fixed since). Every solve therefore runs under a watchdog: a solve of these circuits takes
// milliseconds; one that does not return is reported as a violation ("does not terminate").
// The abandoned goroutines keep spinning until the process exits.

// The bound is CPU time, not wall time (ev.Bounded): a loaded machine stretches the wall clock
// arbitrarily, a spinning hint burns CPU. A deadlocked solve (idle process) is recognised too; a
// solve still working at the wall cap is "slow" and treated as inconclusive by the callers' discard.
const (
	hangCPU     = 90 * time.Second
	hangWallCap = 30 * time.Minute
)

var (
	errHung       = errors.New("HUNG: solve does not return (CPU bound exceeded or process idle)")
	errSlow       = errors.New("SLOW: solve still working at the wall cap (inconclusive)")
	hangConfirmed atomic.Bool // once a solve hung, later ones (shrinking) get a shorter bound
)

// guarded runs f under the watchdog.
func guarded(f func() error) error {
	cpu := hangCPU
	if hangConfirmed.Load() {
		// the abandoned goroutine keeps one core busy: allow for it, but do not wait long
		cpu = hangCPU / 3
	}
	var err error
	switch ev.Bounded(cpu, hangWallCap, func() { err = f() }) {
	case ev.Returned:
		return err
	case ev.Slow:
		slowSeen.Store(true)
		return errSlow
	}
	hangConfirmed.Store(true)
	return errHung
}

func guardedSolve(sys prog.System, wit witness.Witness, opts ...solver.Option) error {
	return guarded(func() error {
		_, e := prog.Solve(sys, wit, opts...)
		return e
	})
}

// twoWireDependencyPattern recognises the dependency shape of the (fixed) non-termination defect
// described above: a class label showing that the generator keeps reaching these regression inputs.
func twoWireDependencyPattern(t *Topo, order []int) bool {
	pos := make([]int, len(order))
	for s, o := range order {
		pos[o] = s
	}
	last := map[int]int{}
	starts := map[int]bool{}
	for _, d := range t.Deps {
		last[d.InWire] = max(last[d.InWire], pos[d.InInst])
		starts[pos[d.InInst]] = true
	}
	for s := range starts {
		for _, l := range last {
			if s > l {
				return true
			}
		}
	}
	return false
}

func involution(order []int) bool {
	for i, o := range order {
		if order[o] != i {
			return false
		}
	}
	return true
}

func TestMain(m *testing.M) {
	logger.Disable()
	std.RegisterHints()
	registerHashes()
	registerCustomGates()
	for _, kind := range []string{"gkr", "gkr-large"} {
		ev.RegisterReplay(kind, func(raw json.RawMessage) string {
			var c Case
			if err := json.Unmarshal(raw, &c); err != nil {
				return ""
			}
			o, harness := run(c)
			if harness != "" {
				fmt.Println("HARNESS ERROR:", harness)
			}
			return o.Violation
		})
	}
	ev.RegisterReplay("gkr-poseidon2", func(raw json.RawMessage) string {
		var c P2Case
		if err := json.Unmarshal(raw, &c); err != nil {
			return ""
		}
		o, harness := runP2(c)
		if harness != "" {
			fmt.Println("HARNESS ERROR:", harness)
		}
		return o.Violation
	})
	ev.Main(m)
}

// Forgery is one adversarial strategy applied to the hints of circuit B.
type Forgery struct {
	// out-one | out-wire | out-all : outputs returned by the solve hint altered (prover works on honest data)
	// out-adaptive                : 2 instances: outputs altered along the kernel of the evaluation at the first
	//                               challenge learnt from an honest proof (works iff Fiat-Shamir ignores the statement)
	// in-one | in-wire            : solve hint fed altered inputs x' (outputs + proof coherent for x', circuit holds x)
	// in-keepout                  : as in-one, but the honest outputs for x are returned (honest outputs, proof of another statement)
	// proof-one | proof-set       : one serialized proof element altered (added delta / overwritten by 0 or 1)
	// chal                        : the prove hint is given an altered initial challenge
	Kind  string `json:"kind"`
	Idx   int    `json:"idx"`   // position selector, reduced modulo the relevant length
	Delta string `json:"delta"` // non-zero (mod p) difference
}

// Case fully determines one execution.
type Case struct {
	Curve     string    `json:"curve"`
	Topo      Topo      `json:"topo"`
	HashA     string    `json:"hash_a"`    // Fiat-Shamir hash of the honest circuit A ("mimc" or the constant pseudo-hash)
	ChalA     string    `json:"chal_a"`    // commit | io | none
	BuilderB  string    `json:"builder_b"` // builder of the forgery circuit B
	ChalB     string    `json:"chal_b"`    // commit | io
	Forgeries []Forgery `json:"forgeries"`
}

// record is what the wrapped hints observed during one solve.
type record struct {
	solveCalls, proveCalls int
	solveErr, proveErr     error
	solveIns, solveOuts    []*big.Int // as seen by / returned to the solver
	proveIns, proof        []*big.Int
}

// adversary describes the tampering of one solve.
type adversary struct {
	replaceIns  []*big.Int                       // inputs handed to the genuine solve hint instead of the solver's
	tamperOuts  func(outs []*big.Int)            // after the genuine solve hint
	tamperPIns  func(ins []*big.Int)             // before the genuine prove hint (on a copy)
	tamperProof func(proof []*big.Int) (ok bool) // after the genuine prove hint
}

func cloneInts(a []*big.Int) []*big.Int {
	r := make([]*big.Int, len(a))
	for i := range a {
		r[i] = new(big.Int).Set(a[i])
	}
	return r
}

func sameInts(a, b []*big.Int) bool {
	if len(a) != len(b) {
		return false
	}
	for i := range a {
		if a[i].Cmp(b[i]) != 0 {
			return false
		}
	}
	return true
}

// solveDetached solves a system whose GkrInfo has been detached, with the
// harness's overrides wrapping the genuine hints.
func solveDetached(curve string, sys prog.System, w frontend.Circuit, info constraint.GkrInfo, adv *adversary, p *big.Int, extra ...solver.Option) (*record, error) {
	rec := &record{}
	gs, gp := genuineHints(curve, info, info.HashName)
	solveWrap := func(mod *big.Int, ins, outs []*big.Int) error {
		rec.solveCalls++
		use := cloneInts(ins)
		if adv != nil && adv.replaceIns != nil {
			if len(adv.replaceIns) != len(ins) {
				rec.solveErr = fmt.Errorf("harness: replacement inputs have length %d, want %d", len(adv.replaceIns), len(ins))
				return rec.solveErr
			}
			use = cloneInts(adv.replaceIns)
		}
		if err := gs(mod, use, outs); err != nil {
			rec.solveErr = err
			return err
		}
		if adv != nil && adv.tamperOuts != nil {
			adv.tamperOuts(outs)
			for _, o := range outs {
				o.Mod(o, mod)
			}
		}
		rec.solveIns, rec.solveOuts = cloneInts(ins), cloneInts(outs)
		return nil
	}
	proveWrap := func(mod *big.Int, ins, outs []*big.Int) error {
		rec.proveCalls++
		use := cloneInts(ins)
		if adv != nil && adv.tamperPIns != nil {
			adv.tamperPIns(use)
			for _, o := range use {
				o.Mod(o, mod)
			}
		}
		if err := gp(mod, use, outs); err != nil {
			rec.proveErr = err
			return err
		}
		if adv != nil && adv.tamperProof != nil {
			if !adv.tamperProof(outs) {
				rec.proveErr = fmt.Errorf("harness: proof tampering not applicable")
				return rec.proveErr
			}
			for _, o := range outs {
				o.Mod(o, mod)
			}
		}
		rec.proveIns, rec.proof = cloneInts(ins), cloneInts(outs)
		return nil
	}
	opts := []solver.Option{
		hintadv.HashCommitment(),
		solver.OverrideHint(info.SolveHintID, solveWrap),
		solver.OverrideHint(info.ProveHintID, proveWrap),
	}
	opts = append(opts, extra...) // later overrides of the same hint win
	wit, err := prog.Witness(prog.FieldByName(curve), w)
	if err != nil {
		return rec, fmt.Errorf("harness: witness: %v", err)
	}
	err = guardedSolve(sys, wit, opts...)
	return rec, err
}

func addDelta(x *big.Int, delta, p *big.Int) {
	x.Add(x, delta).Mod(x, p)
}

func isPanic(err error) bool { return err != nil && strings.HasPrefix(err.Error(), "PANIC") }

// run executes a case. harness != "" reports a problem of the harness itself
// (never a property violation).
// slowSeen is set when a guarded call reached the wall cap while still working; the case that saw
// it is inconclusive whatever the code after it concluded from the error.
var slowSeen atomic.Bool

func run(c Case) (out ev.Outcome, harness string) {
	slowSeen.Store(false)
	out, harness = runInner(c)
	if slowSeen.Load() {
		return ev.Outcome{Discard: true, DiscardWhy: "a solve was still working at the wall cap (loaded machine): inconclusive"}, ""
	}
	return out, harness
}

func runInner(c Case) (out ev.Outcome, harness string) {
	f := prog.FieldByName(c.Curve)
	p := f.Q
	t := &c.Topo
	if err := t.validate(); err != nil {
		return ev.Outcome{Discard: true, DiscardWhy: "invalid topology: " + err.Error()}, ""
	}
	tab := gateTable()
	for _, w := range t.Wires {
		if w.Gate != "" && tab[w.Gate].custom && c.Curve != "bls12-377" {
			return ev.Outcome{Discard: true, DiscardWhy: "custom gate not natively registered on this curve"}, ""
		}
	}
	n := t.N()
	ref := t.eval(p, t.Vals)
	outs := t.outputs()
	order, _ := t.instanceOrder()
	where := fmt.Sprintf("[curve=%s N=%d]", c.Curve, n)

	classes := caseClasses(&c, ref, p, order)
	if !involution(order) {
		// regression class of the (fixed) defect "Export applied the instance permutation instead of its inverse"
		classes = append(classes, "instance-order-not-an-involution")
	}
	if twoWireDependencyPattern(t, order) {
		classes = append(classes, "deps:chunk-starts-after-last-dependency-of-a-wire")
	}

	// ---------------- honest direction: circuit A -----------------------------
	for _, b := range []string{prog.R1CS, prog.SCS} {
		wh := fmt.Sprintf("%s honest A builder=%s hash=%s chal=%s:", where, b, c.HashA, c.ChalA)
		sys, err := prog.Compile(f, b, newCircuit(t, "A", c.HashA, c.ChalA))
		if singleInstanceRejected(t, err) {
			ev.Get(ID).Note("out of domain: every single-instance topology (Import of a length-1 slice) fails to compile: std/gkr indexes challengeNames[0] of an empty challenge list (gkr.go setup when no wire has >=2 claims, else sumcheck.go:44 setupTranscript with varsNum=0, claimsNum=1); the panic is recovered by frontend.Compile. Minimal input: x=Import([X]); z=Add(x,x); Solve; Verify(\"mimc\", commitment)")
			return ev.Outcome{Discard: true, DiscardWhy: "compile rejects 1 instance (std/gkr indexes an empty challenge-name list)"}, ""
		}
		if err != nil {
			return ev.Outcome{Violation: fmt.Sprintf("%s Compile failed on a topology the API documents as valid: %v", wh, err)}, ""
		}
		wit, err := prog.Witness(f, newAssignment(t, "A", p, t.Vals, nil))
		if err != nil {
			return out, "witness A: " + err.Error()
		}
		serr := guardedSolve(sys, wit, hintadv.HashCommitment())
		if errors.Is(serr, errSlow) {
			return ev.Outcome{Discard: true, DiscardWhy: "solve still working at the wall cap (loaded machine): inconclusive"}, ""
		}
		if errors.Is(serr, errHung) {
			return ev.Outcome{Violation: fmt.Sprintf("%s the honest Solve does not terminate (%v)", wh, serr)}, ""
		}
		if serr != nil {
			return ev.Outcome{Violation: fmt.Sprintf("%s Solve failed although exported values are asserted equal to the direct evaluation of the same gates: %v", wh, serr)}, ""
		}
	}
	{
		err := guarded(func() (err error) {
			if pm := ev.Safely(func() {
				err = test.IsSolved(newCircuit(t, "A", c.HashA, c.ChalA), newAssignment(t, "A", p, t.Vals, nil), p)
			}); pm != "" {
				err = fmt.Errorf("%s", pm)
			}
			return err
		})
		if err != nil {
			return ev.Outcome{Violation: fmt.Sprintf("%s honest A test engine hash=%s chal=%s: IsSolved failed: %v", where, c.HashA, c.ChalA, err)}, ""
		}
	}

	// ---------------- circuit B ------------------------------------------------
	whB := fmt.Sprintf("%s B builder=%s hash=mimc chal=%s:", where, c.BuilderB, c.ChalB)
	claimedOf := func(vals [][]*big.Int) [][]*big.Int {
		r := make([][]*big.Int, len(outs))
		for k, w := range outs {
			r[k] = cloneInts(vals[w])
		}
		return r
	}
	sysB, err := prog.Compile(f, c.BuilderB, newCircuit(t, "B", hashMimc, c.ChalB))
	if err != nil {
		return ev.Outcome{Violation: fmt.Sprintf("%s Compile failed: %v", whB, err)}, ""
	}
	witH, err := prog.Witness(f, newAssignment(t, "B", p, t.Vals, claimedOf(ref)))
	if err != nil {
		return out, "witness B: " + err.Error()
	}
	if err := guardedSolve(sysB, witH, hintadv.HashCommitment()); err != nil {
		return ev.Outcome{Violation: fmt.Sprintf("%s honest Solve failed with the reference outputs as public inputs: %v", whB, err)}, ""
	}
	// negative control with gnark's own hints: a wrong public output is rejected (trivially, by the equality assertion)
	{
		bad := claimedOf(ref)
		addDelta(bad[0][0], big.NewInt(1), p)
		witBad, _ := prog.Witness(f, newAssignment(t, "B", p, t.Vals, bad))
		if err := guardedSolve(sysB, witBad, hintadv.HashCommitment()); err == nil {
			return ev.Outcome{Violation: fmt.Sprintf("%s Solve accepted a wrong public output with the genuine hints", whB)}, ""
		}
	}

	// detach the GKR metadata so that our overrides are the ones used
	ip := gkrInfoOf(sysB)
	info := *ip
	if !info.Is() || info.HashName != hashMimc {
		return out, fmt.Sprintf("compiled system carries no GKR info (%+v)", info)
	}
	*ip = constraint.GkrInfo{}

	recH, err := solveDetached(c.Curve, sysB, newAssignment(t, "B", p, t.Vals, claimedOf(ref)), info, nil, p)
	if errors.Is(err, errSlow) {
		return ev.Outcome{Discard: true, DiscardWhy: "solve still working at the wall cap (loaded machine): inconclusive"}, ""
	}
	if errors.Is(err, errHung) {
		return ev.Outcome{Violation: fmt.Sprintf("%s honest Solve with the genuine hints passed as overrides does not terminate (%v)", whB, err)}, ""
	}
	if err != nil {
		return out, fmt.Sprintf("%s detached honest solve failed: %v", whB, err)
	}
	if recH.solveCalls != 1 || recH.proveCalls != 1 {
		return out, fmt.Sprintf("%s detached honest solve: hints called %d/%d times", whB, recH.solveCalls, recH.proveCalls)
	}
	// the harness's model of the hint output order (output wires in order, instances in sorted order)
	if len(recH.solveOuts) != len(outs)*n {
		return out, fmt.Sprintf("%s solve hint has %d outputs, model says %d", whB, len(recH.solveOuts), len(outs)*n)
	}
	mappingOK := true
	for k, w := range outs {
		for s := 0; s < n; s++ {
			if recH.solveOuts[k*n+s].Cmp(ref[w][order[s]]) != 0 {
				mappingOK = false
			}
		}
	}
	if !mappingOK {
		classes = append(classes, "hint-order-model-mismatch")
	}

	// explicit input positions (wire, instance)
	var explicit [][2]int
	for _, w := range t.inputs() {
		for i := 0; i < n; i++ {
			if t.Vals[w][i] != "" {
				explicit = append(explicit, [2]int{w, i})
			}
		}
	}

	for fi, fg := range c.Forgeries {
		delta := parseVal(fg.Delta, p)
		if delta.Sign() == 0 {
			return ev.Outcome{Discard: true, DiscardWhy: "zero delta"}, ""
		}
		whF := fmt.Sprintf("%s forgery #%d %s idx=%d delta=%s:", whB, fi, fg.Kind, fg.Idx, fg.Delta)
		idx := fg.Idx
		if idx < 0 {
			idx = -idx
		}
		adv := &adversary{}
		vals := t.Vals            // witness inputs (always the real x)
		claimed := claimedOf(ref) // public outputs of the forged run
		expectSat := false
		label := fg.Kind

		switch fg.Kind {
		case "out-one", "out-wire", "out-all":
			var ks []int // hint-order positions
			switch fg.Kind {
			case "out-one":
				ks = []int{idx % (len(outs) * n)}
			case "out-wire":
				k := idx % len(outs)
				for s := 0; s < n; s++ {
					ks = append(ks, k*n+s)
				}
			default:
				ks = seq(len(outs) * n)
			}
			for _, k := range ks {
				addDelta(claimed[k/n][order[k%n]], delta, p)
			}
			adv.tamperOuts = func(o []*big.Int) {
				for _, k := range ks {
					o[k].Add(o[k], delta)
				}
			}
		case "in-one", "in-wire", "in-keepout":
			v2 := make([][]string, len(t.Vals))
			for w := range t.Vals {
				v2[w] = append([]string(nil), t.Vals[w]...)
			}
			pos := explicit[idx%len(explicit)]
			for _, e := range explicit {
				if e == pos || (fg.Kind == "in-wire" && e[0] == pos[0]) {
					x := parseVal(t.Vals[e[0]][e[1]], p)
					addDelta(x, delta, p)
					v2[e[0]][e[1]] = x.String()
				}
			}
			ref2 := t.eval(p, v2)
			same := true
			for _, w := range outs {
				if !sameInts(ref2[w], ref[w]) {
					same = false
				}
			}
			// pass 1: coherent honest run on x' to learn the inputs the solve hint receives for x'
			rec1, err := solveDetached(c.Curve, sysB, newAssignment(t, "B", p, v2, claimedOf(ref2)), info, nil, p)
			if err != nil {
				if isPanic(err) || rec1.solveErr != nil || rec1.proveErr != nil {
					return ev.Outcome{Violation: fmt.Sprintf("%s honest detached solve on the altered inputs failed: %v", whF, err)}, ""
				}
				return ev.Outcome{Violation: fmt.Sprintf("%s honest solve on the altered inputs (reference outputs as public inputs) failed: %v", whF, err)}, ""
			}
			adv.replaceIns = rec1.solveIns
			if fg.Kind == "in-keepout" {
				honest := recH.solveOuts
				adv.tamperOuts = func(o []*big.Int) {
					for k := range o {
						o[k].Set(honest[k])
					}
				}
			} else {
				claimed = claimedOf(ref2)
				if same {
					label += ":same-outputs"
				} else {
					label += ":outputs-differ"
				}
			}
		case "out-adaptive":
			// Adaptive forgery for 2 instances: the first sum-check message of the last (output) wire is
			// g(1) = rho * z[1], so an honest proof reveals the first challenge rho. Outputs z+d with
			// d0(1-rho) + d1 rho = 0 have the same multilinear evaluation at rho: the honest proof would
			// verify for them if rho did not depend on the statement. With Fiat-Shamir bound to the
			// initial challenge (which here depends on the forged outputs), rho changes and this is rejected.
			last := t.Wires[len(t.Wires)-1]
			uniq := map[int]bool{}
			for _, in := range last.In {
				uniq[in] = true
			}
			blk := gateTable()[last.Gate].degree + 1 + len(uniq)
			zs := recH.solveOuts[(len(outs)-1)*n:]
			if n != 2 || len(recH.proof) < blk || zs[1].Sign() == 0 {
				classes = append(classes, "forgery:out-adaptive:not-applicable")
				continue
			}
			g1 := recH.proof[len(recH.proof)-blk]
			rho := new(big.Int).ModInverse(zs[1], p)
			rho.Mul(rho, g1).Mod(rho, p)
			if rho.Sign() == 0 {
				classes = append(classes, "forgery:out-adaptive:not-applicable")
				continue
			}
			d1 := new(big.Int).Sub(big.NewInt(1), rho)
			d1.Mul(d1, delta).Neg(d1).Mul(d1, new(big.Int).ModInverse(rho, p)).Mod(d1, p)
			ds := []*big.Int{delta, d1}
			k0 := (len(outs) - 1) * n
			for sIdx := 0; sIdx < 2; sIdx++ {
				addDelta(claimed[len(outs)-1][order[sIdx]], ds[sIdx], p)
			}
			adv.tamperOuts = func(o []*big.Int) {
				o[k0].Add(o[k0], ds[0])
				o[k0+1].Add(o[k0+1], ds[1])
			}
		case "proof-one":
			adv.tamperProof = func(pr []*big.Int) bool {
				if len(pr) == 0 {
					return false
				}
				pr[idx%len(pr)].Add(pr[idx%len(pr)], delta)
				return true
			}
		case "proof-set":
			adv.tamperProof = func(pr []*big.Int) bool {
				if len(pr) == 0 {
					return false
				}
				e := pr[idx%len(pr)]
				if e.Sign() == 0 {
					e.SetUint64(1)
				} else {
					e.SetUint64(0)
				}
				return true
			}
		case "chal":
			adv.tamperPIns = func(ins []*big.Int) {
				if len(ins) > 1 {
					k := 1 + idx%(len(ins)-1)
					ins[k].Add(ins[k], delta)
				}
			}
		default:
			return ev.Outcome{Discard: true, DiscardWhy: "unknown forgery kind"}, ""
		}

		rec, err := solveDetached(c.Curve, sysB, newAssignment(t, "B", p, vals, claimed), info, adv, p)
		if errors.Is(err, errSlow) {
			return ev.Outcome{Discard: true, DiscardWhy: "solve still working at the wall cap (loaded machine): inconclusive"}, ""
		}
		if errors.Is(err, errHung) {
			return ev.Outcome{Violation: fmt.Sprintf("%s Solve does not terminate under the altered hint data (%v)", whF, err)}, ""
		}
		if rec.solveErr != nil || rec.proveErr != nil || (err != nil && strings.HasPrefix(err.Error(), "harness:")) {
			if len(recH.proof) == 0 && strings.HasPrefix(fg.Kind, "proof") {
				classes = append(classes, "forgery:"+fg.Kind+":empty-proof")
				continue
			}
			return out, fmt.Sprintf("%s adversary hint failed: solve=%v prove=%v err=%v", whF, rec.solveErr, rec.proveErr, err)
		}
		if isPanic(err) {
			classes = append(classes, "forgery:"+label+":solver-panic")
			ev.Get(ID).Note("solver panicked under adversarial hint output (%s): %.300s", fg.Kind, err.Error())
			continue
		}
		if fg.Kind == "chal" {
			// the proof may not depend on the initial challenge at all (one instance, no claim combination)
			if rec.proveCalls == 1 && sameInts(rec.proof, recH.proof) {
				expectSat = true
				label += ":proof-unchanged"
			} else {
				label += ":proof-changed"
			}
		}
		if strings.HasPrefix(fg.Kind, "out-") && mappingOK {
			// self-check of the adversary: public outputs are exactly what the forged hint returned
			for k, w := range outs {
				_ = w
				for s := 0; s < n; s++ {
					if rec.solveOuts != nil && rec.solveOuts[k*n+s].Cmp(claimed[k][order[s]]) != 0 {
						return out, whF + " forged hint outputs and public outputs disagree"
					}
				}
			}
		}
		if expectSat {
			if err != nil {
				return ev.Outcome{Violation: fmt.Sprintf("%s nothing was effectively altered (same outputs, same proof) but Solve failed: %v", whF, err)}, ""
			}
			classes = append(classes, "forgery:"+label+":accepted-as-expected")
			continue
		}
		if err == nil {
			return ev.Outcome{Violation: fmt.Sprintf("%s FORGERY ACCEPTED: Solve succeeded (hint outputs %v, public outputs %v, reference outputs %v)",
				whF, rec.solveOuts, claimed, claimedOf(ref))}, ""
		}
		classes = append(classes, "forgery:"+label+":rejected")
	}

	return ev.Outcome{NonTrivial: nonTrivial(t), Classes: classes}, ""
}

func nonTrivial(t *Topo) bool {
	if len(t.Deps) > 0 {
		return true
	}
	if t.N() < 2 {
		return false
	}
	for _, w := range t.Wires {
		if w.Gate != "" && gateTable()[w.Gate].degree >= 2 {
			return true
		}
	}
	return false
}

func caseClasses(c *Case, ref [][]*big.Int, p *big.Int, order []int) []string {
	t := &c.Topo
	cl := []string{"curve:" + c.Curve, fmt.Sprintf("logN:%d", t.LogN), "hashA:" + c.HashA, "chalA:" + c.ChalA,
		"builderB:" + c.BuilderB, "chalB:" + c.ChalB,
		fmt.Sprintf("inputs:%d", len(t.inputs())), fmt.Sprintf("outputs:%d", min(len(t.outputs()), 3)),
		fmt.Sprintf("gates:%d", min(len(t.Wires)-len(t.inputs()), 7))}
	maxDeg, fanout, dup, inputFanout, inputAfterGate := 0, false, false, false, false
	tab := gateTable()
	seenGate := false
	kinds := map[string]bool{}
	for _, w := range t.Wires {
		if w.Gate == "" {
			if seenGate {
				inputAfterGate = true
			}
			continue
		}
		seenGate = true
		kinds[w.Gate] = true
		maxDeg = max(maxDeg, tab[w.Gate].degree)
		s := map[int]bool{}
		for _, in := range w.In {
			if s[in] {
				dup = true
			}
			s[in] = true
		}
	}
	for g := range kinds {
		cl = append(cl, "gate:"+g)
	}
	for w, u := range t.uses() {
		if u >= 2 {
			fanout = true
			if t.isInput(w) {
				inputFanout = true
			}
		}
	}
	cl = append(cl, fmt.Sprintf("maxdeg:%d", maxDeg))
	if fanout {
		cl = append(cl, "fanout")
	}
	if inputFanout {
		cl = append(cl, "fanout-of-input")
	}
	if dup {
		cl = append(cl, "gate-with-repeated-operand")
	}
	if inputAfterGate {
		cl = append(cl, "import-after-gate")
	}
	switch {
	case len(t.Deps) == 0:
		cl = append(cl, "deps:none")
	case len(t.Deps) == t.N()-1:
		cl = append(cl, "deps:n-1")
	default:
		cl = append(cl, "deps:some")
	}
	if len(t.Deps) > 0 {
		ident := true
		for i, o := range order {
			if i != o {
				ident = false
			}
		}
		if !ident {
			cl = append(cl, "instance-order-permuted")
		}
	}
	has0, has1, hasM1, out0 := false, false, false, false
	pm1 := new(big.Int).Sub(p, big.NewInt(1))
	for w := range t.Wires {
		for _, v := range ref[w] {
			if t.isInput(w) {
				has0 = has0 || v.Sign() == 0
				has1 = has1 || v.Cmp(big.NewInt(1)) == 0
				hasM1 = hasM1 || v.Cmp(pm1) == 0
			}
		}
	}
	for _, w := range t.outputs() {
		for _, v := range ref[w] {
			out0 = out0 || v.Sign() == 0
		}
	}
	if has0 {
		cl = append(cl, "input-has-0")
	}
	if has1 {
		cl = append(cl, "input-has-1")
	}
	if hasM1 {
		cl = append(cl, "input-has-p-1")
	}
	if out0 {
		cl = append(cl, "output-has-0")
	}
	if nonTrivial(t) {
		// measured separately by ev ("nontrivial")
	}
	return cl
}

// ---- generator -------------------------------------------------------------------

func genCase(curves []string, minLogN, maxLogN int) *rapid.Generator[Case] {
	return rapid.Custom(func(rt *rapid.T) Case {
		var c Case
		c.Curve = rapid.SampledFrom(curves).Draw(rt, "curve")
		c.Topo = genTopo(c.Curve == "bls12-377", minLogN, maxLogN).Draw(rt, "topo")
		c.HashA = rapid.SampledFrom([]string{hashMimc, hashMimc, hashConst}).Draw(rt, "hash_a")
		c.ChalA = rapid.SampledFrom([]string{"commit", "commit", "io", "none"}).Draw(rt, "chal_a")
		if c.Topo.LogN >= 4 && c.ChalA == "io" && c.HashA == hashMimc {
			c.ChalA = "commit" // cost control: one in-circuit hash per bound value
		}
		c.BuilderB = rapid.SampledFrom([]string{prog.R1CS, prog.SCS}).Draw(rt, "builder_b")
		c.ChalB = rapid.SampledFrom([]string{"commit", "commit", "io"}).Draw(rt, "chal_b")
		if c.Topo.LogN >= 4 {
			c.ChalB = "commit"
		}
		gd := genDelta()
		pick := func(kinds ...string) {
			c.Forgeries = append(c.Forgeries, Forgery{
				Kind:  rapid.SampledFrom(kinds).Draw(rt, "forgery_kind"),
				Idx:   rapid.IntRange(0, 1<<20).Draw(rt, "forgery_idx"),
				Delta: gd.Draw(rt, "forgery_delta"),
			})
		}
		pick("out-one", "out-one", "out-wire", "out-all")
		pick("in-one", "in-one", "in-wire", "in-keepout")
		pick("proof-one", "proof-one", "proof-set")
		if c.Topo.LogN == 1 {
			pick("out-adaptive", "out-adaptive", "chal", "in-keepout")
		} else {
			pick("out-one", "in-one", "in-keepout", "proof-one", "chal", "chal")
		}
		return c
	})
}

const rule = "rapid-generated GKR topologies (1-6 gates from add/mul/neg/sub, on bls12-377 also the natively registered custom gates pow2/pow2Times/pow4/pow4Times/3-input linear; 1-3 imported inputs, fan-out, repeated operands, Series dependencies none/some/chain under a hidden random instance order, 2^k instances, inputs incl. 0, 1, p-1). Per case: circuit A (exports == direct in-circuit evaluation) compiled+solved on R1CS and SCS and run in the test engine; circuit B (exports == public inputs) solved honestly, then with GkrInfo detached under 4 adversarial wrappings of the genuine solve/prove hints (outputs altered, inputs altered, honest outputs with a proof of another statement, proof element altered, initial challenge altered) with the real MiMC Fiat-Shamir hash: every effective alteration must be unsatisfiable. Non-trivial: (>=2 instances and >=1 gate of degree >=2) or a Series dependency. Distinct: SHA-256 of the case JSON."

func check(t *testing.T, kind string, curves []string, minLogN, maxLogN, nQuick, nThorough int) {
	rec := ev.Get(ID)
	rec.SetRule(rule)
	rec.Assume("MiMC as Fiat-Shamir hash makes the probability that an altered output/proof is accepted negligible (<= poly/p)")
	g := genCase(curves, minLogN, maxLogN)
	rec.Check(t, kind, ev.N(nQuick, nThorough), func(rt *rapid.T) {
		c := g.Draw(rt, "case")
		rec.Begin(kind, c)
		o, harness := run(c)
		if harness != "" {
			b, _ := json.Marshal(c)
			rt.Fatalf("HARNESS ERROR (not a property violation): %s\ncase: %s", harness, b)
		}
		rec.Report(rt, kind, c, o)
	})
}

// bls12-377 twice: the only curve with natively registered custom gates
var allCurves = []string{"bn254", "bls12-377", "bls12-381", "bls24-315", "bls12-377", "bls24-317", "bw6-633", "bw6-761"}

func TestGkrSmall(t *testing.T) {
	curves := []string{"bn254", "bls12-377"}
	if ev.Tier() == "thorough" {
		curves = allCurves
	}
	check(t, "gkr", curves, 1, 3, 66, 3300)
}

func TestGkrLarge(t *testing.T) {
	curves := []string{"bn254", "bls12-377"}
	if ev.Tier() == "thorough" {
		curves = allCurves
	}
	check(t, "gkr-large", curves, 3, 5, 14, 700)
}

// TestRegressions runs the minimal inputs of the two defects this check found on the tree it was
// written against (both fixed since) through the full oracle.
func TestRegressions(t *testing.T) {
	rec := ev.Get(ID)
	rec.SetRule(rule)
	forg := []Forgery{{Kind: "out-one", Idx: 1, Delta: "1"}, {Kind: "in-one", Idx: 2, Delta: "-1"}, {Kind: "in-keepout", Idx: 0, Delta: "5"}, {Kind: "proof-one", Idx: 3, Delta: "1"}, {Kind: "chal", Idx: 0, Delta: "1"}}
	cases := []Case{
		// Export applied the instance permutation instead of its inverse (sorted order 1,2,0,3 is not an involution)
		{Curve: "bn254", HashA: hashConst, ChalA: "none", BuilderB: prog.SCS, ChalB: "commit", Forgeries: forg,
			Topo: Topo{LogN: 2, Wires: []Wire{{}, {Gate: "add", In: []int{0, 0}}, {}, {Gate: "add", In: []int{2, 2}}},
				Deps: []Dep{{InWire: 2, InInst: 0, OutWire: 3, OutInst: 2}, {InWire: 2, InInst: 2, OutWire: 3, OutInst: 1}},
				Vals: [][]string{{"10", "20", "30", "40"}, nil, {"", "5", "", "7"}, nil}}},
		// the solve hint's binary search never terminated: two input wires with dependencies at different instances
		{Curve: "bls12-377", HashA: hashMimc, ChalA: "commit", BuilderB: prog.R1CS, ChalB: "io", Forgeries: forg,
			Topo: Topo{LogN: 2, Wires: []Wire{{}, {}, {Gate: "mul", In: []int{0, 1}}},
				Deps: []Dep{{InWire: 0, InInst: 1, OutWire: 2, OutInst: 0}, {InWire: 1, InInst: 2, OutWire: 2, OutInst: 1}},
				Vals: [][]string{{"2", "", "3", "4"}, {"5", "6", "", "7"}, nil}}},
	}
	// many instances with a Series dependency: the solving hint splits chunks of more than 1024
	// instances into several worker tasks, which all have to see the dependency bookkeeping of
	// their chunk (2048 instances, x[1] <- z[0])
	{
		n := 2048
		xs, ys := make([]string, n), make([]string, n)
		for i := range xs {
			xs[i], ys[i] = fmt.Sprint(3+i%97), fmt.Sprint(5+(7*i)%89)
		}
		xs[1] = ""
		cases = append(cases, Case{Curve: "bn254", HashA: hashMimc, ChalA: "commit", BuilderB: prog.R1CS, ChalB: "commit",
			Forgeries: []Forgery{{Kind: "out-one", Idx: 1500, Delta: "1"}},
			Topo: Topo{LogN: 11, Wires: []Wire{{}, {}, {Gate: "mul", In: []int{0, 1}}},
				Deps: []Dep{{InWire: 0, InInst: 1, OutWire: 2, OutInst: 0}},
				Vals: [][]string{xs, ys, nil}}})
	}
	for _, c := range cases {
		rec.Begin("gkr", c)
		o, harness := run(c)
		if harness != "" {
			t.Fatalf("HARNESS ERROR (not a property violation): %s", harness)
		}
		rec.Report(t, "gkr", c, o)
	}
}

func TestReplay(t *testing.T) { ev.Replay(t) }

package c19

import (
	"fmt"
	"math/big"

	"github.com/consensys/gnark/constraint"
	"github.com/consensys/gnark/frontend"
	"github.com/consensys/gnark/std/gkr"
)

// gkrCircuit is the circuit family of the check.
//
//	mode "A": every exported wire (outputs and imported inputs) is asserted equal
//	          to a direct evaluation of the same gates with frontend.API, per instance.
//	mode "B": the exported output values are asserted equal to PUBLIC inputs
//	          (Claimed); nothing else constrains them except the GKR verifier.
type gkrCircuit struct {
	X       [][]frontend.Variable // explicit values of the input wires (dependent instances omitted)
	Claimed [][]frontend.Variable `gnark:",public"` // mode B: [output wire][instance]

	t    *Topo
	mode string
	hash string
	chal string // "commit": initial challenge = Commit(inputs, outputs); "io": inputs and outputs themselves; "none" (honest only)
}

func newCircuit(t *Topo, mode, hash, chal string) *gkrCircuit {
	c := &gkrCircuit{t: t, mode: mode, hash: hash, chal: chal}
	depAt := map[[2]int]bool{}
	for _, d := range t.Deps {
		depAt[[2]int{d.InWire, d.InInst}] = true
	}
	for _, w := range t.inputs() {
		k := 0
		for i := 0; i < t.N(); i++ {
			if !depAt[[2]int{w, i}] {
				k++
			}
		}
		c.X = append(c.X, make([]frontend.Variable, k))
	}
	if mode == "B" {
		for range t.outputs() {
			c.Claimed = append(c.Claimed, make([]frontend.Variable, t.N()))
		}
	}
	return c
}

// assignment builds the witness of the circuit: input values vals (as Topo.Vals)
// and, in mode B, the claimed outputs claimed[outputIndex][instance].
func newAssignment(t *Topo, mode string, p *big.Int, vals [][]string, claimed [][]*big.Int) *gkrCircuit {
	c := newCircuit(t, mode, "", "")
	for k, w := range t.inputs() {
		j := 0
		for i := 0; i < t.N(); i++ {
			if vals[w][i] == "" {
				continue
			}
			c.X[k][j] = parseVal(vals[w][i], p)
			j++
		}
	}
	if mode == "B" {
		for k := range c.Claimed {
			for i := range c.Claimed[k] {
				c.Claimed[k][i] = new(big.Int).Set(claimed[k][i])
			}
		}
	}
	return c
}

func directGate(api frontend.API, g string, x []frontend.Variable) frontend.Variable {
	switch g {
	case "add":
		return api.Add(x[0], x[1])
	case "sub":
		return api.Sub(x[0], x[1])
	case "neg":
		return api.Neg(x[0])
	case "mul":
		return api.Mul(x[0], x[1])
	case "pow2":
		return api.Mul(x[0], x[0])
	case "pow2Times":
		return api.Mul(api.Mul(x[0], x[0]), x[1])
	case "pow4":
		s := api.Mul(x[0], x[0])
		return api.Mul(s, s)
	case "pow4Times":
		s := api.Mul(x[0], x[0])
		return api.Mul(api.Mul(s, s), x[1])
	case "ext3":
		return api.Add(api.Mul(x[0], 2), x[1], x[2])
	}
	panic("unknown gate " + g)
}

func (c *gkrCircuit) Define(api frontend.API) error {
	t := c.t
	n := t.N()
	depOf := map[[2]int]Dep{}
	for _, d := range t.Deps {
		depOf[[2]int{d.InWire, d.InInst}] = d
	}

	g := gkr.NewApi()
	vars := make([]constraint.GkrVariable, len(t.Wires))
	explicit := make([][]frontend.Variable, len(t.Wires)) // full-length copies (nil at dependent instances)
	var committed []frontend.Variable
	xi := 0
	for w, wire := range t.Wires {
		if wire.Gate == "" {
			full := make([]frontend.Variable, n)
			j := 0
			for i := 0; i < n; i++ {
				if _, dep := depOf[[2]int{w, i}]; !dep {
					full[i] = c.X[xi][j]
					j++
				}
			}
			committed = append(committed, c.X[xi]...)
			xi++
			explicit[w] = full
			imp := make([]frontend.Variable, n) // the API permutes the slice it is given in place
			copy(imp, full)
			v, err := g.Import(imp)
			if err != nil {
				return err
			}
			vars[w] = v
			continue
		}
		in := make([]constraint.GkrVariable, len(wire.In))
		for k, x := range wire.In {
			in[k] = vars[x]
		}
		switch wire.Gate {
		case "add":
			vars[w] = g.Add(in[0], in[1])
		case "sub":
			vars[w] = g.Sub(in[0], in[1])
		case "neg":
			vars[w] = g.Neg(in[0])
		case "mul":
			vars[w] = g.Mul(in[0], in[1])
		case "ext3":
			vars[w] = g.NamedGate(gkr.GateName(ext3GateName), in...)
		default:
			vars[w] = g.NamedGate(gkr.GateName(wire.Gate), in...)
		}
		if int(vars[w]) != w {
			return fmt.Errorf("harness: GKR variable %d for wire %d", vars[w], w)
		}
	}
	for _, d := range t.Deps {
		g.Series(vars[d.InWire], vars[d.OutWire], d.InInst, d.OutInst)
	}

	sol, err := g.Solve(api)
	if err != nil {
		return err
	}

	outs := t.outputs()
	exported := map[int][]frontend.Variable{}
	for _, w := range outs {
		exported[w] = sol.Export(vars[w])
		if len(exported[w]) != n {
			return fmt.Errorf("Export(%d) returned %d values for %d instances", w, len(exported[w]), n)
		}
		committed = append(committed, exported[w]...)
	}

	switch c.mode {
	case "A":
		for _, w := range t.inputs() {
			exported[w] = sol.Export(vars[w])
			if len(exported[w]) != n {
				return fmt.Errorf("Export(%d) returned %d values for %d instances", w, len(exported[w]), n)
			}
		}
		// direct evaluation of the same gates
		direct := make([][]frontend.Variable, len(t.Wires))
		for w := range direct {
			direct[w] = make([]frontend.Variable, n)
		}
		order, ok := t.instanceOrder()
		if !ok {
			return fmt.Errorf("harness: cyclic dependencies")
		}
		for _, i := range order {
			for w, wire := range t.Wires {
				if wire.Gate == "" {
					if d, dep := depOf[[2]int{w, i}]; dep {
						direct[w][i] = direct[d.OutWire][d.OutInst]
					} else {
						direct[w][i] = explicit[w][i]
					}
					continue
				}
				x := make([]frontend.Variable, len(wire.In))
				for k, in := range wire.In {
					x[k] = direct[in][i]
				}
				direct[w][i] = directGate(api, wire.Gate, x)
			}
		}
		for w := range t.Wires {
			if ex, ok := exported[w]; ok {
				for i := 0; i < n; i++ {
					api.AssertIsEqual(ex[i], direct[w][i])
				}
			}
		}
	case "B":
		for k, w := range outs {
			for i := 0; i < n; i++ {
				api.AssertIsEqual(exported[w][i], c.Claimed[k][i])
			}
		}
	default:
		return fmt.Errorf("harness: bad mode")
	}

	var initial []frontend.Variable
	switch c.chal {
	case "commit":
		cm, err := api.(frontend.Committer).Commit(committed...)
		if err != nil {
			return err
		}
		initial = []frontend.Variable{cm}
	case "io":
		initial = committed
	case "none":
	default:
		return fmt.Errorf("harness: bad challenge mode")
	}
	return sol.Verify(c.hash, initial...)
}

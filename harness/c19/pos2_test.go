package c19

// The user-facing GKR gadget std/permutation/poseidon2/gkr-poseidon2
// (NewGkrCompressions / Compress, BLS12-377 only): h_i = Compress(a_i, b_i) for
// several pairs, each asserted equal to a PUBLIC expected value.
//
// Honest oracle: gnark-crypto's native Poseidon2 compression.
// Structural oracle: the values committed for the GKR Fiat-Shamir challenge
// (the inputs of the commitment hint) contain every a_i, b_i and h_i.
// Dependency oracle: the initial challenge handed to the GKR prover changes
// when a claimed output changes.
// Forgery oracle: a wrong claimed compression value is unsatisfiable for every
// behaviour of the Compress hint and of the GKR solve / prove hints, including
// the adaptive one (outputs shifted inside the kernel of "evaluate the
// multilinear extension at the first challenge rho", rho recomputed from the
// initial challenge exactly as the GKR prover does).

import (
	"crypto/sha256"
	"encoding/json"
	"errors"
	"fmt"
	"math/big"
	"strings"
	"testing"

	"verifharness/lib/ev"
	"verifharness/lib/prog"

	"github.com/consensys/gnark-crypto/ecc/bls12-377/fr"
	frpoly "github.com/consensys/gnark-crypto/ecc/bls12-377/fr/polynomial"
	poseidon2bls12377 "github.com/consensys/gnark-crypto/ecc/bls12-377/fr/poseidon2"
	fiatshamir "github.com/consensys/gnark-crypto/fiat-shamir"
	"github.com/consensys/gnark/constraint"
	csbls12377 "github.com/consensys/gnark/constraint/bls12-377"
	"github.com/consensys/gnark/constraint/solver"
	"github.com/consensys/gnark/frontend"
	gkrposeidon2 "github.com/consensys/gnark/std/permutation/poseidon2/gkr-poseidon2"
	"pgregory.net/rapid"
)

type p2Circuit struct {
	A, B     []frontend.Variable
	Expected []frontend.Variable `gnark:",public"`
}

func (c *p2Circuit) Define(api frontend.API) error {
	g := gkrposeidon2.NewGkrCompressions(api)
	for i := range c.A {
		api.AssertIsEqual(g.Compress(c.A[i], c.B[i]), c.Expected[i])
	}
	return nil
}

// P2Case fully determines one execution on the gadget.
type P2Case struct {
	Ins       [][2]string `json:"ins"` // (a_i, b_i), decimal, reduced mod p
	Builder   string      `json:"builder"`
	Forgeries []Forgery   `json:"forgeries"`
	// kinds: p2-permute-only : Compress hint output altered, GKR hints honest
	//        p2-out-one      : Compress hint AND GKR solve hint report out_i + delta (honest proof of the true statement)
	//        p2-adaptive     : as p2-out-one on two real instances, deltas in the kernel of evaluation at rho
	//                          (rho from the initial challenge of the HONEST run: works iff the challenge ignores the outputs)
	//        p2-adaptive-pad : out_i + delta on a real instance, compensated on a padding instance (whose output is
	//                          asserted against nothing); rho from a first forged run with the same claimed outputs
	//        p2-in           : all hints coherent for another input a'_i while the circuit holds a_i
	//        p2-proof-one    : one proof element altered
}

func findHint(suffix string) (solver.HintID, solver.Hint) {
	for _, h := range solver.GetRegisteredHints() {
		if strings.HasSuffix(solver.GetHintName(h), suffix) {
			return solver.GetHintID(h), h
		}
	}
	panic("hint not registered: " + suffix)
}

// p2Env: deterministic commitment (SHA-256 of the committed values, recorded),
// fixed commitment mask, wrapped Compress hint.
type p2Env struct {
	committed [][]*big.Int        // per commitment: the committed values
	shift     map[string]*big.Int // "a|b" -> delta added to the Compress hint output
	replace   map[string]*big.Int // "a|b" -> value returned by the Compress hint
}

func (e *p2Env) options() []solver.Option {
	cid, _ := findHint("frontend/cs.Bsb22CommitmentComputePlaceholder")
	rid, _ := findHint("internal/hints.Randomize")
	pid, permute := findHint("gkr-poseidon2.permuteHint")
	return []solver.Option{
		solver.OverrideHint(cid, func(mod *big.Int, in, out []*big.Int) error {
			e.committed = append(e.committed, cloneInts(in[1:]))
			h := sha256.New()
			for _, x := range in {
				b := make([]byte, 64)
				x.FillBytes(b)
				h.Write(b)
			}
			d := h.Sum(nil)
			d2 := sha256.Sum256(d)
			out[0].SetBytes(append(d, d2[:]...))
			out[0].Mod(out[0], mod)
			return nil
		}),
		// the commitment's blinding mask is the prover's to choose: keep it fixed
		solver.OverrideHint(rid, func(_ *big.Int, _, out []*big.Int) error {
			for i := range out {
				out[i].SetUint64(42)
			}
			return nil
		}),
		solver.OverrideHint(pid, func(mod *big.Int, in, out []*big.Int) error {
			if err := permute(mod, in, out); err != nil {
				return err
			}
			k := in[0].String() + "|" + in[1].String()
			if v, ok := e.replace[k]; ok {
				out[0].Set(v)
			}
			if d, ok := e.shift[k]; ok {
				out[0].Add(out[0], d).Mod(out[0], mod)
			}
			return nil
		}),
	}
}

func p2Native(a, b *big.Int) *big.Int {
	prm := poseidon2bls12377.GetDefaultParameters()
	perm := poseidon2bls12377.NewPermutation(2, prm.NbFullRounds, prm.NbPartialRounds)
	var x, y fr.Element
	x.SetBigInt(a)
	y.SetBigInt(b)
	r, err := perm.Compress(x.Marshal(), y.Marshal())
	if err != nil {
		panic(err)
	}
	return new(big.Int).SetBytes(r)
}

// firstChallenge recomputes the GKR verifier's first challenge (rho_0..rho_{k-1}) from the initial
// challenges handed to the prove hint, as internal/gkr's prover does (public gnark-crypto API only).
func firstChallenge(hashName string, initial []*big.Int, logN int) ([]fr.Element, error) {
	hb, err := csbls12377.GetHashBuilder(hashName)
	if err != nil {
		return nil, err
	}
	names := make([]string, logN)
	for j := range names {
		names[j] = fmt.Sprintf("fC.%d", j)
	}
	tr := fiatshamir.NewTranscript(hb(), names...)
	for _, c := range initial {
		b := make([]byte, fr.Bytes)
		c.FillBytes(b)
		if err := tr.Bind(names[0], b); err != nil {
			return nil, err
		}
	}
	rho := make([]fr.Element, logN)
	for j := range names {
		v, err := tr.ComputeChallenge(names[j])
		if err != nil {
			return nil, err
		}
		rho[j].SetBytes(v)
	}
	return rho, nil
}

// eqWeight = multilinear extension of the i-th unit vector at rho (gnark-crypto's own convention).
func eqWeight(i, n int, rho []fr.Element) *big.Int {
	m := make(frpoly.MultiLin, n)
	m[i].SetOne()
	v := m.Evaluate(rho, nil)
	return v.BigInt(new(big.Int))
}

func runP2(c P2Case) (out ev.Outcome, harness string) {
	slowSeen.Store(false)
	out, harness = runP2Inner(c)
	if slowSeen.Load() {
		return ev.Outcome{Discard: true, DiscardWhy: "a solve was still working at the wall cap (loaded machine): inconclusive"}, ""
	}
	return out, harness
}

func runP2Inner(c P2Case) (out ev.Outcome, harness string) {
	f := prog.FieldByName("bls12-377")
	p := f.Q
	n := len(c.Ins)
	if n < 2 || n > 8 || (c.Builder != prog.R1CS && c.Builder != prog.SCS) {
		return ev.Outcome{Discard: true, DiscardWhy: "p2: bad shape"}, ""
	}
	a, b, exp := make([]*big.Int, n), make([]*big.Int, n), make([]*big.Int, n)
	seen := map[string]bool{}
	key := func(x, y *big.Int) string { return x.String() + "|" + y.String() }
	for i, in := range c.Ins {
		if _, ok := new(big.Int).SetString(in[0], 10); !ok {
			return ev.Outcome{Discard: true, DiscardWhy: "p2: bad value"}, ""
		}
		if _, ok := new(big.Int).SetString(in[1], 10); !ok {
			return ev.Outcome{Discard: true, DiscardWhy: "p2: bad value"}, ""
		}
		a[i], b[i] = parseVal(in[0], p), parseVal(in[1], p)
		if seen[key(a[i], b[i])] {
			return ev.Outcome{Discard: true, DiscardWhy: "p2: duplicate input pair"}, ""
		}
		seen[key(a[i], b[i])] = true
		exp[i] = p2Native(a[i], b[i])
	}
	nInst := 1
	logN := 0
	for nInst < n {
		nInst, logN = nInst*2, logN+1
	}
	classes := []string{"p2", fmt.Sprintf("p2:calls:%d", n), "p2:builder:" + c.Builder}
	if nInst > n {
		classes = append(classes, "p2:padded")
	}
	where := fmt.Sprintf("[gkr-poseidon2 bls12-377 builder=%s calls=%d instances=%d]", c.Builder, n, nInst)

	assign := func(av, ev []*big.Int) *p2Circuit {
		w := &p2Circuit{A: make([]frontend.Variable, n), B: make([]frontend.Variable, n), Expected: make([]frontend.Variable, n)}
		for i := 0; i < n; i++ {
			w.A[i], w.B[i], w.Expected[i] = new(big.Int).Set(av[i]), new(big.Int).Set(b[i]), new(big.Int).Set(ev[i])
		}
		return w
	}
	shifted := func(v []*big.Int, d map[int]*big.Int) []*big.Int {
		r := cloneInts(v)
		for i, x := range d {
			addDelta(r[i], x, p)
		}
		return r
	}

	sys, err := prog.Compile(f, c.Builder, &p2Circuit{A: make([]frontend.Variable, n), B: make([]frontend.Variable, n), Expected: make([]frontend.Variable, n)})
	if err != nil {
		return ev.Outcome{Violation: fmt.Sprintf("%s Compile failed: %v", where, err)}, ""
	}

	// ---- honest, gnark's own GKR hints --------------------------------------
	env := &p2Env{}
	wit, err := prog.Witness(f, assign(a, exp))
	if err != nil {
		return out, "p2 witness: " + err.Error()
	}
	if err := guardedSolve(sys, wit, env.options()...); err != nil {
		return ev.Outcome{Violation: fmt.Sprintf("%s honest Solve failed with gnark-crypto's native compression values as public outputs: %v", where, err)}, ""
	}
	// structural: everything the GKR statement consists of is committed
	if len(env.committed) == 0 {
		return ev.Outcome{Violation: fmt.Sprintf("%s no commitment is computed: the GKR initial challenge is not derived from a commitment", where)}, ""
	}
	inCommit := map[string]bool{}
	for _, cm := range env.committed {
		for _, v := range cm {
			inCommit[v.String()] = true
		}
	}
	for i := 0; i < n; i++ {
		for name, v := range map[string]*big.Int{"input a": a[i], "input b": b[i], "output h": exp[i]} {
			if !inCommit[v.String()] {
				return ev.Outcome{Violation: fmt.Sprintf("%s STRUCTURE: %s of Compress call #%d (value %s) is not among the values committed for the GKR Fiat-Shamir challenge (%d committed values): the challenge does not bind the whole statement", where, name, i, v, len(inCommit))}, ""
			}
		}
	}
	{ // negative control with the genuine hints
		bad := shifted(exp, map[int]*big.Int{0: big.NewInt(1)})
		wb, _ := prog.Witness(f, assign(a, bad))
		if err := guardedSolve(sys, wb, (&p2Env{}).options()...); err == nil {
			return ev.Outcome{Violation: fmt.Sprintf("%s Solve accepted a wrong public compression value with the genuine hints", where)}, ""
		}
	}

	// ---- detach ---------------------------------------------------------------
	ip := gkrInfoOf(sys)
	info := *ip
	if !info.Is() || info.NbInstances != nInst {
		return out, fmt.Sprintf("p2: unexpected GKR info (is=%v instances=%d, want %d)", info.Is(), info.NbInstances, nInst)
	}
	*ip = constraint.GkrInfo{}

	solve := func(av, ev []*big.Int, adv *adversary, env *p2Env) (*record, error) {
		return solveDetached("bls12-377", sys, assign(av, ev), info, adv, p, env.options()...)
	}
	recH, err := solve(a, exp, nil, &p2Env{})
	if errors.Is(err, errSlow) {
		return ev.Outcome{Discard: true, DiscardWhy: "solve still working at the wall cap (loaded machine): inconclusive"}, ""
	}
	if errors.Is(err, errHung) {
		return ev.Outcome{Violation: fmt.Sprintf("%s honest Solve with the genuine hints passed as overrides does not terminate", where)}, ""
	}
	if err != nil || recH.solveCalls != 1 || recH.proveCalls != 1 {
		return out, fmt.Sprintf("%s detached honest solve failed: %v (calls %d/%d)", where, err, recH.solveCalls, recH.proveCalls)
	}
	if len(recH.solveOuts) != nInst || len(recH.proveIns) < 2 {
		return out, fmt.Sprintf("%s p2: solve hint has %d outputs (want %d), prove hint %d inputs", where, len(recH.solveOuts), nInst, len(recH.proveIns))
	}
	for i := 0; i < n; i++ {
		if recH.solveOuts[i].Cmp(exp[i]) != 0 {
			return out, fmt.Sprintf("%s p2: solve hint output %d is not the compression of instance %d", where, i, i)
		}
	}

	tamperOuts := func(d map[int]*big.Int) func([]*big.Int) {
		return func(o []*big.Int) {
			for i, x := range d {
				o[i].Add(o[i], x)
			}
		}
	}
	shiftEnv := func(d map[int]*big.Int) *p2Env {
		e := &p2Env{shift: map[string]*big.Int{}}
		for i, x := range d {
			if i < n {
				e.shift[key(a[i], b[i])] = x
			}
		}
		return e
	}
	realOnly := func(d map[int]*big.Int) map[int]*big.Int {
		r := map[int]*big.Int{}
		for i, x := range d {
			if i < n {
				r[i] = x
			}
		}
		return r
	}
	// kernel element of "evaluate at rho" supported on instances i, j, with d_i = delta * eq_j(rho)
	kernel := func(initial []*big.Int, i, j int, delta *big.Int) (map[int]*big.Int, error) {
		rho, err := firstChallenge(info.HashName, initial, logN)
		if err != nil {
			return nil, err
		}
		ei, ej := eqWeight(i, nInst, rho), eqWeight(j, nInst, rho)
		di := new(big.Int).Mul(delta, ej)
		di.Mod(di, p)
		dj := new(big.Int).Mul(delta, ei)
		dj.Neg(dj).Mod(dj, p)
		if di.Sign() == 0 || dj.Sign() == 0 {
			return nil, fmt.Errorf("degenerate")
		}
		return map[int]*big.Int{i: di, j: dj}, nil
	}

	for fi, fg := range c.Forgeries {
		delta := parseVal(fg.Delta, p)
		if delta.Sign() == 0 {
			return ev.Outcome{Discard: true, DiscardWhy: "zero delta"}, ""
		}
		idx := fg.Idx
		if idx < 0 {
			idx = -idx
		}
		whF := fmt.Sprintf("%s forgery #%d %s idx=%d delta=%s:", where, fi, fg.Kind, fg.Idx, fg.Delta)
		i := idx % n
		var rec *record
		var err error
		var d map[int]*big.Int
		checkDependency := false
		switch fg.Kind {
		case "p2-permute-only":
			d = map[int]*big.Int{i: delta}
			rec, err = solve(a, shifted(exp, d), nil, shiftEnv(d))
		case "p2-out-one":
			d = map[int]*big.Int{i: delta}
			rec, err = solve(a, shifted(exp, d), &adversary{tamperOuts: tamperOuts(d)}, shiftEnv(d))
			checkDependency = true
		case "p2-adaptive":
			j := (i + 1 + (idx/n)%(n-1)) % n
			d, err = kernel(recH.proveIns[1:], i, j, delta)
			if err != nil {
				classes = append(classes, "forgery:p2-adaptive:not-applicable")
				continue
			}
			rec, err = solve(a, shifted(exp, d), &adversary{tamperOuts: tamperOuts(d)}, shiftEnv(d))
		case "p2-adaptive-pad":
			if nInst == n {
				classes = append(classes, "forgery:p2-adaptive-pad:no-padding")
				continue
			}
			q := n + (idx/n)%(nInst-n)
			// first run: claim out_i + delta, padding untouched: learn the initial challenge of that statement
			d0 := map[int]*big.Int{i: delta}
			rec0, err0 := solve(a, shifted(exp, d0), &adversary{tamperOuts: tamperOuts(d0)}, shiftEnv(d0))
			if err0 == nil {
				return ev.Outcome{Violation: fmt.Sprintf("%s FORGERY ACCEPTED already without compensation (public outputs %v, native compression %v)", whF, shifted(exp, d0), exp)}, ""
			}
			if rec0.proveCalls != 1 || rec0.proveErr != nil || len(rec0.proveIns) < 2 {
				return out, whF + " first pass did not reach the prove hint"
			}
			rho, e := firstChallenge(info.HashName, rec0.proveIns[1:], logN)
			if e != nil {
				return out, whF + " " + e.Error()
			}
			ei, eq := eqWeight(i, nInst, rho), eqWeight(q, nInst, rho)
			if eq.Sign() == 0 {
				classes = append(classes, "forgery:p2-adaptive-pad:not-applicable")
				continue
			}
			dq := new(big.Int).Mul(delta, ei)
			dq.Mul(dq, new(big.Int).ModInverse(eq, p)).Neg(dq).Mod(dq, p)
			d = map[int]*big.Int{i: delta, q: dq}
			rec, err = solve(a, shifted(exp, realOnly(d)), &adversary{tamperOuts: tamperOuts(d)}, shiftEnv(d))
			if rec.proveIns != nil && !sameInts(rec.proveIns[1:], rec0.proveIns[1:]) {
				classes = append(classes, "forgery:p2-adaptive-pad:challenge-depends-on-padding-output")
			} else {
				classes = append(classes, "forgery:p2-adaptive-pad:challenge-independent-of-padding-output")
			}
		case "p2-in":
			a2 := cloneInts(a)
			addDelta(a2[i], delta, p)
			if seen[key(a2[i], b[i])] {
				classes = append(classes, "forgery:p2-in:not-applicable")
				continue
			}
			exp2 := cloneInts(exp)
			exp2[i] = p2Native(a2[i], b[i])
			rec1, err1 := solve(a2, exp2, nil, &p2Env{})
			if err1 != nil {
				return ev.Outcome{Violation: fmt.Sprintf("%s honest solve on the altered input failed: %v", whF, err1)}, ""
			}
			e := &p2Env{replace: map[string]*big.Int{key(a[i], b[i]): exp2[i]}}
			rec, err = solve(a, exp2, &adversary{replaceIns: rec1.solveIns}, e)
		case "p2-proof-one":
			rec, err = solve(a, exp, &adversary{tamperProof: func(pr []*big.Int) bool {
				pr[idx%len(pr)].Add(pr[idx%len(pr)], delta)
				return true
			}}, &p2Env{})
		default:
			return ev.Outcome{Discard: true, DiscardWhy: "p2: unknown forgery kind"}, ""
		}
		if errors.Is(err, errSlow) {
			return ev.Outcome{Discard: true, DiscardWhy: "solve still working at the wall cap (loaded machine): inconclusive"}, ""
		}
		if errors.Is(err, errHung) {
			return ev.Outcome{Violation: whF + " Solve does not terminate under the altered hint data"}, ""
		}
		if rec.solveErr != nil || rec.proveErr != nil || (err != nil && strings.HasPrefix(err.Error(), "harness:")) {
			return out, fmt.Sprintf("%s adversary hint failed: solve=%v prove=%v err=%v", whF, rec.solveErr, rec.proveErr, err)
		}
		if isPanic(err) {
			classes = append(classes, "forgery:"+fg.Kind+":solver-panic")
			continue
		}
		if err == nil {
			claimed := exp
			if d != nil {
				claimed = shifted(exp, realOnly(d))
			}
			return ev.Outcome{Violation: fmt.Sprintf("%s FORGERY ACCEPTED: Solve succeeded with public compression outputs %v although gnark-crypto's native compression gives %v (hint output shifts by instance: %v)", whF, claimed, exp, d)}, ""
		}
		if checkDependency && rec.proveCalls == 1 && sameInts(rec.proveIns[1:], recH.proveIns[1:]) {
			return ev.Outcome{Violation: fmt.Sprintf("%s DEPENDENCY: the initial Fiat-Shamir challenge handed to the GKR prover (%v) is the same for claimed outputs %v and %v: it does not depend on the claimed outputs", whF, rec.proveIns[1:], exp, shifted(exp, d))}, ""
		}
		classes = append(classes, "forgery:"+fg.Kind+":rejected")
	}
	return ev.Outcome{NonTrivial: true, Classes: classes}, ""
}

func genP2Case() *rapid.Generator[P2Case] {
	return rapid.Custom(func(rt *rapid.T) P2Case {
		var c P2Case
		// a non-power-of-two number of calls makes the gadget pad the instances: favoured
		n := rapid.SampledFrom([]int{3, 3, 2, 3, 4, 5, 3}).Draw(rt, "calls")
		gv := genValue()
		for i := 0; i < n; i++ {
			c.Ins = append(c.Ins, [2]string{gv.Draw(rt, "a"), gv.Draw(rt, "b")})
		}
		c.Builder = rapid.SampledFrom([]string{prog.R1CS, prog.SCS}).Draw(rt, "builder")
		gd := genDelta()
		for _, k := range []string{"p2-out-one", "p2-adaptive", "p2-adaptive-pad", "p2-in", "p2-proof-one", "p2-permute-only"} {
			c.Forgeries = append(c.Forgeries, Forgery{Kind: k, Idx: rapid.IntRange(0, 1<<20).Draw(rt, "forgery_idx"), Delta: gd.Draw(rt, "forgery_delta")})
		}
		return c
	})
}

const p2Rule = "gkr-poseidon2 gadget (BLS12-377): 2-4 Compress calls on rapid-drawn pairs (incl. 0, 1, p-1), each output asserted equal to a public value; honest: gnark-crypto native compression must be accepted; the values committed for the GKR challenge must contain every a_i, b_i, h_i; 6 forgeries per case (Compress hint only / Compress+GKR solve hint shifted / adaptive kernel shift on two real instances / adaptive shift compensated on a padding instance / coherent proof for another input / proof element) must all be unsatisfiable, and the prover's initial challenge must change with the claimed outputs. Every case counts as non-trivial. Distinct: SHA-256 of the case JSON."

func TestPoseidon2Gadget(t *testing.T) {
	rec := ev.Get(ID)
	rec.SetRule(p2Rule)
	g := genP2Case()
	rec.Check(t, "gkr-poseidon2", ev.N(3, 160), func(rt *rapid.T) {
		c := g.Draw(rt, "case")
		rec.Begin("gkr-poseidon2", c)
		o, harness := runP2(c)
		if harness != "" {
			b, _ := json.Marshal(c)
			rt.Fatalf("HARNESS ERROR (not a property violation): %s\ncase: %s", harness, b)
		}
		rec.Report(rt, "gkr-poseidon2", c, o)
	})
}

// TestPoseidon2Regressions: fixed cases run on every tier, so that a padded (non-power-of-two) and
// an unpadded call count are present by construction. The first one is the minimal input of the
// defect this check found in the gadget (padding outputs neither asserted nor committed; fixed since).
func TestPoseidon2Regressions(t *testing.T) {
	rec := ev.Get(ID)
	rec.SetRule(p2Rule)
	forg := func(kinds ...string) []Forgery {
		var r []Forgery
		for k, kind := range kinds {
			r = append(r, Forgery{Kind: kind, Idx: 1 + 3*k, Delta: []string{"1", "-1", "12345678901234567890"}[k%3]})
		}
		return r
	}
	cases := []P2Case{
		{Ins: [][2]string{{"0", "0"}, {"-773316630144801765598206263539260446713713847702154507289866321589713913", "100433627766186892224094889706690170365326237226804994795901"}, {"1", "0"}},
			Builder: prog.SCS, Forgeries: forg("p2-adaptive-pad", "p2-out-one", "p2-adaptive", "p2-adaptive-pad")},
		{Ins: [][2]string{{"7", "-1"}, {"1", "2"}},
			Builder: prog.R1CS, Forgeries: forg("p2-out-one", "p2-adaptive", "p2-in", "p2-proof-one", "p2-permute-only")},
	}
	for _, c := range cases {
		o, harness := runP2(c)
		if harness != "" {
			t.Fatalf("HARNESS ERROR (not a property violation): %s", harness)
		}
		rec.Report(t, "gkr-poseidon2", c, o)
	}
}

package c19

// Per-curve plumbing: the genuine exported GKR hint constructors of
// constraint/<curve>/gkr.go, and the registration of the Fiat-Shamir hashes on
// both sides (native: constraint/<curve>.RegisterHashBuilder; in-circuit:
// std/hash.Register) exactly as gnark's own std/gkr tests and
// std/permutation/poseidon2/gkr-poseidon2 do.

import (
	"fmt"
	"hash"
	"reflect"

	"github.com/consensys/gnark-crypto/ecc"
	mimcbls12377 "github.com/consensys/gnark-crypto/ecc/bls12-377/fr/mimc"
	poseidon2bls12377 "github.com/consensys/gnark-crypto/ecc/bls12-377/fr/poseidon2"
	mimcbls12381 "github.com/consensys/gnark-crypto/ecc/bls12-381/fr/mimc"
	mimcbls24315 "github.com/consensys/gnark-crypto/ecc/bls24-315/fr/mimc"
	mimcbls24317 "github.com/consensys/gnark-crypto/ecc/bls24-317/fr/mimc"
	mimcbn254 "github.com/consensys/gnark-crypto/ecc/bn254/fr/mimc"
	mimcbw6633 "github.com/consensys/gnark-crypto/ecc/bw6-633/fr/mimc"
	mimcbw6761 "github.com/consensys/gnark-crypto/ecc/bw6-761/fr/mimc"
	"github.com/consensys/gnark/constraint"
	csbls12377 "github.com/consensys/gnark/constraint/bls12-377"
	csbls12381 "github.com/consensys/gnark/constraint/bls12-381"
	csbls24315 "github.com/consensys/gnark/constraint/bls24-315"
	csbls24317 "github.com/consensys/gnark/constraint/bls24-317"
	csbn254 "github.com/consensys/gnark/constraint/bn254"
	csbw6633 "github.com/consensys/gnark/constraint/bw6-633"
	csbw6761 "github.com/consensys/gnark/constraint/bw6-761"
	"github.com/consensys/gnark/constraint/solver"
	"github.com/consensys/gnark/frontend"
	"github.com/consensys/gnark/std/gkr"
	stdhash "github.com/consensys/gnark/std/hash"
	"github.com/consensys/gnark/std/hash/mimc"
	gkrposeidon2 "github.com/consensys/gnark/std/permutation/poseidon2/gkr-poseidon2"
)

const (
	hashMimc  = "mimc"
	hashConst = "-20" // constant pseudo-hash (honest cases only: not sound by design)
)

// genuineHints returns fresh instances of the genuine solve / prove hints of
// the curve, sharing one solving-data object as newSolver does.
func genuineHints(curve string, info constraint.GkrInfo, hashName string) (solve, prove solver.Hint) {
	switch curve {
	case "bn254":
		var d csbn254.GkrSolvingData
		return csbn254.GkrSolveHint(info, &d), csbn254.GkrProveHint(hashName, &d)
	case "bls12-377":
		var d csbls12377.GkrSolvingData
		return csbls12377.GkrSolveHint(info, &d), csbls12377.GkrProveHint(hashName, &d)
	case "bls12-381":
		var d csbls12381.GkrSolvingData
		return csbls12381.GkrSolveHint(info, &d), csbls12381.GkrProveHint(hashName, &d)
	case "bls24-315":
		var d csbls24315.GkrSolvingData
		return csbls24315.GkrSolveHint(info, &d), csbls24315.GkrProveHint(hashName, &d)
	case "bls24-317":
		var d csbls24317.GkrSolvingData
		return csbls24317.GkrSolveHint(info, &d), csbls24317.GkrProveHint(hashName, &d)
	case "bw6-633":
		var d csbw6633.GkrSolvingData
		return csbw6633.GkrSolveHint(info, &d), csbw6633.GkrProveHint(hashName, &d)
	case "bw6-761":
		var d csbw6761.GkrSolvingData
		return csbw6761.GkrSolveHint(info, &d), csbw6761.GkrProveHint(hashName, &d)
	}
	panic("unknown curve " + curve)
}

// constFieldHasher is the in-circuit constant pseudo-hash (as in gnark's tests).
type constFieldHasher int

func (c constFieldHasher) Sum() frontend.Variable     { return int(c) }
func (c constFieldHasher) Write(...frontend.Variable) {}
func (c constFieldHasher) Reset()                     {}

func registerHashes() {
	csbn254.RegisterHashBuilder(hashMimc, func() hash.Hash { return mimcbn254.NewMiMC() })
	csbls12377.RegisterHashBuilder(hashMimc, func() hash.Hash { return mimcbls12377.NewMiMC() })
	csbls12381.RegisterHashBuilder(hashMimc, func() hash.Hash { return mimcbls12381.NewMiMC() })
	csbls24315.RegisterHashBuilder(hashMimc, func() hash.Hash { return mimcbls24315.NewMiMC() })
	csbls24317.RegisterHashBuilder(hashMimc, func() hash.Hash { return mimcbls24317.NewMiMC() })
	csbw6633.RegisterHashBuilder(hashMimc, func() hash.Hash { return mimcbw6633.NewMiMC() })
	csbw6761.RegisterHashBuilder(hashMimc, func() hash.Hash { return mimcbw6761.NewMiMC() })
	stdhash.Register(hashMimc, func(api frontend.API) (stdhash.FieldHasher, error) {
		m, err := mimc.NewMiMC(api)
		return &m, err
	})

	const c = -20
	csbn254.RegisterHashBuilder(hashConst, func() hash.Hash { return csbn254.ConstPseudoHash(c) })
	csbls12377.RegisterHashBuilder(hashConst, func() hash.Hash { return csbls12377.ConstPseudoHash(c) })
	csbls12381.RegisterHashBuilder(hashConst, func() hash.Hash { return csbls12381.ConstPseudoHash(c) })
	csbls24315.RegisterHashBuilder(hashConst, func() hash.Hash { return csbls24315.ConstPseudoHash(c) })
	csbls24317.RegisterHashBuilder(hashConst, func() hash.Hash { return csbls24317.ConstPseudoHash(c) })
	csbw6633.RegisterHashBuilder(hashConst, func() hash.Hash { return csbw6633.ConstPseudoHash(c) })
	csbw6761.RegisterHashBuilder(hashConst, func() hash.Hash { return csbw6761.ConstPseudoHash(c) })
	stdhash.Register(hashConst, func(frontend.API) (stdhash.FieldHasher, error) { return constFieldHasher(c), nil })
}

// ---- custom gates ------------------------------------------------------------
//
// Native gate registration lives in internal/gkr/<curve>, which the harness
// cannot import. The only public route to natively registered custom gates is
// gkr-poseidon2.RegisterGkrSolverOptions(BLS12_377), which registers pow2
// (degree 2), pow2Times (3), pow4 (4), pow4Times (5) and a family of linear
// gates, among which a 3-input one. The in-circuit counterparts are registered
// here through the public std/gkr.RegisterGate, with the harness's own gate
// functions.

var ext3GateName string // x,y,z -> 2x+y+z (last linear layer of the Poseidon2 GKR circuit)

func registerCustomGates() {
	gkrposeidon2.RegisterGkrSolverOptions(ecc.BLS12_377)
	p := poseidon2bls12377.GetDefaultParameters()
	ext3GateName = fmt.Sprintf("x%d-l-op-round=%d;%s", 1, p.NbPartialRounds+p.NbFullRounds, p.String())

	must := func(err error) {
		if err != nil {
			panic(err)
		}
	}
	must(gkr.RegisterGate("pow2", func(api gkr.GateAPI, x ...frontend.Variable) frontend.Variable {
		return api.Mul(x[0], x[0])
	}, 1, gkr.WithUnverifiedDegree(2), gkr.WithNoSolvableVar()))
	must(gkr.RegisterGate("pow2Times", func(api gkr.GateAPI, x ...frontend.Variable) frontend.Variable {
		return api.Mul(x[0], x[0], x[1])
	}, 2, gkr.WithUnverifiedDegree(3), gkr.WithNoSolvableVar()))
	must(gkr.RegisterGate("pow4", func(api gkr.GateAPI, x ...frontend.Variable) frontend.Variable {
		y := api.Mul(x[0], x[0])
		return api.Mul(y, y)
	}, 1, gkr.WithUnverifiedDegree(4), gkr.WithNoSolvableVar()))
	must(gkr.RegisterGate("pow4Times", func(api gkr.GateAPI, x ...frontend.Variable) frontend.Variable {
		y := api.Mul(x[0], x[0])
		y = api.Mul(y, y)
		return api.Mul(y, x[1])
	}, 2, gkr.WithUnverifiedDegree(5), gkr.WithNoSolvableVar()))
	must(gkr.RegisterGate(gkr.GateName(ext3GateName), func(api gkr.GateAPI, x ...frontend.Variable) frontend.Variable {
		return api.Add(api.Mul(x[0], 2), x[1], x[2])
	}, 3, gkr.WithUnverifiedDegree(1), gkr.WithUnverifiedSolvableVar(0)))
}

// ---- GkrInfo access ------------------------------------------------------------

// gkrInfoOf returns a pointer to the GkrInfo stored in a compiled system (the
// field is promoted from the embedded constraint.System of every curve's cs type).
func gkrInfoOf(sys any) *constraint.GkrInfo {
	v := reflect.ValueOf(sys)
	for v.Kind() == reflect.Ptr || v.Kind() == reflect.Interface {
		v = v.Elem()
	}
	f := v.FieldByName("GkrInfo")
	if !f.IsValid() {
		panic(fmt.Sprintf("no GkrInfo field in %T", sys))
	}
	return f.Addr().Interface().(*constraint.GkrInfo)
}

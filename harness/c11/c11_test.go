// C11 — compilation is deterministic. Metamorphic: repeating the compilation
// (sequentially, in parallel goroutines, in fresh processes) must give
// byte-identical serialized constraint systems.
package c11

import (
	"bytes"
	"crypto/sha256"
	"encoding/hex"
	"encoding/json"
	"fmt"
	"os"
	"os/exec"
	"strings"
	"sync"
	"testing"

	"verifharness/lib/ev"
	"verifharness/lib/prog"
	"verifharness/lib/zk"

	"github.com/consensys/gnark/backend/groth16"
	"github.com/consensys/gnark/backend/plonk"
	"github.com/consensys/gnark/constraint"
	"github.com/consensys/gnark/frontend"
	"github.com/consensys/gnark/logger"
	"github.com/consensys/gnark/std"
	"github.com/consensys/gnark/std/lookup/logderivlookup"
	"github.com/consensys/gnark/std/math/emulated"
	"github.com/consensys/gnark/std/multicommit"
	"github.com/consensys/gnark/std/rangecheck"
	"pgregory.net/rapid"
)

const ID = "C11"

func TestMain(m *testing.M) {
	logger.Disable()
	std.RegisterHints()
	if p := os.Getenv("C11_CHILD"); p != "" {
		childMain(p)
		return
	}
	ev.RegisterReplay("determinism", func(raw json.RawMessage) string {
		var c Case
		if err := json.Unmarshal(raw, &c); err != nil {
			return ""
		}
		return run(c).Violation
	})
	ev.Main(m)
}

type Case struct {
	Prog      *prog.Program `json:"prog"`
	Field     string        `json:"field"`
	Threshold int           `json:"threshold"`
	Lookup    int           `json:"lookup"` // number of tables
	Range     int           `json:"range"`  // number of range-checked values
	Emul      int           `json:"emul"`   // number of emulated multiplications
	Defer     int           `json:"defer"`  // nested deferred callbacks
	Multi     int           `json:"multi"`  // multicommit users
	Println   bool          `json:"println"`
	WireQuery int           `json:"wire_query"` // SCS: number of otherwise unused inputs passed to GetWireConstraints(addMissing=true); negative: GetWiresConstraintExact
	WireConst int           `json:"wire_const"` // number of distinct compile-time constants mixed into the queried wires (each also repeated once)
	Procs     bool          `json:"procs"`      // also compare across fresh processes
	Keys      bool          `json:"keys"`       // keys of compilation #1 used with compilation #K
}

type wireQuerier interface {
	GetWireConstraints(wires []frontend.Variable, addMissing bool) ([][2]int, error)
	GetWiresConstraintExact(wires []frontend.Variable, addMissing bool) ([][2]int, error)
}

type circ struct {
	prog.Circuit
	Extra []frontend.Variable
	c     *Case
}

func (c *circ) Define(api frontend.API) error {
	cs := c.c
	c.Circuit.Hook = func(api frontend.API, slots []frontend.Variable) {
		a := slots[0]
		b := slots[len(slots)-1]
		for t := 0; t < cs.Lookup; t++ {
			tb := logderivlookup.New(api)
			for k := 0; k < 3+t; k++ {
				tb.Insert(api.Add(api.Mul(a, k+1), k+t))
			}
			_ = tb.Lookup(api.Mul(b, 0), api.Add(api.Mul(a, 0), 1))
		}
		if cs.Range > 0 {
			rc := rangecheck.New(api)
			for k := 0; k < cs.Range; k++ {
				rc.Check(api.Add(api.Mul(a, 0), 5+k), 4+3*k)
			}
		}
		if cs.Emul > 0 {
			f, err := emulated.NewField[emulated.Secp256k1Fp](api)
			if err != nil {
				panic(err)
			}
			x := f.NewElement(api.Add(api.Mul(a, 0), 12345))
			for k := 0; k < cs.Emul; k++ {
				x = f.Mul(x, x)
			}
			f.AssertIsDifferent(x, f.Zero())
		}
		for k := 0; k < cs.Multi; k++ {
			k := k
			multicommit.WithCommitment(api, func(api frontend.API, cm frontend.Variable) error {
				api.AssertIsDifferent(api.Add(cm, k), api.Mul(a, 0))
				return nil
			}, a, api.Add(b, k))
		}
		if cs.Defer > 0 {
			var nest func(d int) func(api frontend.API) error
			nest = func(d int) func(api frontend.API) error {
				return func(api frontend.API) error {
					api.AssertIsEqual(api.Mul(a, d), api.Mul(d, a))
					if d > 1 {
						api.Compiler().Defer(nest(d - 1))
					}
					return nil
				}
			}
			api.Compiler().Defer(nest(cs.Defer))
		}
		if cs.Println {
			api.Println("x", a, b)
		}
		if cs.WireQuery != 0 {
			if wq, ok := api.Compiler().(wireQuerier); ok {
				var err error
				// the queried list mixes otherwise unused inputs, internal wires and
				// (distinct, repeated) compile-time constants
				wires := append([]frontend.Variable{}, c.Extra...)
				for k := 0; k < cs.WireConst; k++ {
					wires = append(wires, 1000+17*k)
				}
				if cs.WireConst > 0 {
					wires = append(wires, a, b)
				}
				for k := 0; k < cs.WireConst; k++ {
					wires = append(wires, 1000+17*k)
				}
				if cs.WireQuery > 0 {
					_, err = wq.GetWireConstraints(wires, true)
				} else {
					_, err = wq.GetWiresConstraintExact(wires, true)
				}
				if err != nil {
					panic(err)
				}
			}
		}
	}
	return c.Circuit.Define(api)
}

func newCirc(c *Case) *circ {
	cc := &circ{Circuit: *prog.NewCircuit(c.Prog), c: c}
	n := c.WireQuery
	if n < 0 {
		n = -n
	}
	cc.Extra = make([]frontend.Variable, n)
	return cc
}

func compile(c *Case, builder string) ([]byte, constraint.ConstraintSystem, error) {
	f := prog.FieldByName(c.Field)
	opts := []frontend.CompileOption{frontend.IgnoreUnconstrainedInputs()}
	if c.Threshold > 0 {
		opts = append(opts, frontend.WithCompressThreshold(c.Threshold))
	}
	sys, err := prog.Compile(f, builder, newCirc(c), opts...)
	if err != nil {
		return nil, nil, err
	}
	cs, _ := sys.(constraint.ConstraintSystem)
	return prog.Bytes(sys), cs, nil
}

func digest(b []byte) string {
	h := sha256.Sum256(b)
	return hex.EncodeToString(h[:12])
}

func childMain(path string) {
	b, _ := os.ReadFile(path)
	var c Case
	if err := json.Unmarshal(b, &c); err != nil {
		os.Exit(3)
	}
	for _, bld := range []string{prog.R1CS, prog.SCS} {
		bs, _, err := compile(&c, bld)
		if err != nil {
			fmt.Printf("CHILD %s ERR\n", bld)
			continue
		}
		fmt.Printf("CHILD %s %s\n", bld, digest(bs))
	}
	os.Exit(0)
}

func kRepeats() int {
	if ev.Tier() == "thorough" {
		return 40
	}
	return 12
}

func firstLine(s string) string {
	if i := strings.Index(s, "\n"); i >= 0 {
		s = s[:i]
	}
	if len(s) > 200 {
		s = s[:200]
	}
	return s
}

func run(c Case) ev.Outcome {
	f := prog.FieldByName(c.Field)
	K := kRepeats()
	classes := []string{"field:" + c.Field}
	nontrivial := false
	first := map[string]string{}
	for _, bld := range []string{prog.R1CS, prog.SCS} {
		ref, cs1, err := compile(&c, bld)
		if err != nil {
			if strings.HasPrefix(err.Error(), "PANIC") {
				return ev.Outcome{Violation: err.Error()}
			}
			// the compile-time verdict must be deterministic too
			for k := 0; k < 3; k++ {
				if _, _, e2 := compile(&c, bld); e2 == nil {
					return ev.Outcome{Violation: fmt.Sprintf("%s: compilation failed (%v) and then succeeded on a retry", bld, firstLine(err.Error()))}
				}
			}
			classes = append(classes, "compile-reject:"+bld)
			first[bld] = "ERR"
			continue
		}
		first[bld] = digest(ref)
		var csK constraint.ConstraintSystem
		for k := 1; k < K; k++ {
			b, cs, err := compile(&c, bld)
			if err != nil {
				return ev.Outcome{Violation: fmt.Sprintf("%s: recompilation %d failed: %v", bld, k, firstLine(err.Error()))}
			}
			if !bytes.Equal(b, ref) {
				return ev.Outcome{Violation: fmt.Sprintf("%s: recompilation %d of the same circuit produced different bytes (%s vs %s, %d vs %d bytes)", bld, k, digest(b), digest(ref), len(b), len(ref))}
			}
			csK = cs
		}
		// in parallel goroutines, while another circuit value is being compiled
		var wg sync.WaitGroup
		errs := make([]string, 8)
		other := Case{Prog: c.Prog, Field: c.Field, Lookup: 1, Range: 2, Defer: 2}
		for g := 0; g < 8; g++ {
			wg.Add(1)
			go func(g int) {
				defer wg.Done()
				if g%4 == 3 {
					_, _, _ = compile(&other, bld)
					return
				}
				b, _, err := compile(&c, bld)
				if err != nil {
					errs[g] = "parallel compilation failed: " + firstLine(err.Error())
				} else if !bytes.Equal(b, ref) {
					errs[g] = fmt.Sprintf("parallel compilation produced different bytes (%s vs %s)", digest(b), digest(ref))
				}
			}(g)
		}
		wg.Wait()
		for _, e := range errs {
			if e != "" {
				return ev.Outcome{Violation: bld + ": " + e}
			}
		}
		// keys of compilation #1 remain usable with compilation #K
		if c.Keys && !f.Small && cs1 != nil && csK != nil {
			interp := prog.Eval(c.Prog, f.Q)
			if interp.OK && interp.Excluded == "" {
				assign := &circ{Circuit: *prog.Assignment(c.Prog, f.Q, interp.Outs), c: &c}
				n := c.WireQuery
				if n < 0 {
					n = -n
				}
				for i := 0; i < n; i++ {
					assign.Extra = append(assign.Extra, i+1)
				}
				w, err := frontend.NewWitness(assign, f.Q)
				if err == nil {
					pub, _ := w.Public()
					if bld == prog.R1CS {
						if pk, vk, err := groth16.Setup(cs1); err == nil {
							p, err := groth16.Prove(csK, pk, w)
							if err != nil {
								return ev.Outcome{Violation: "groth16 keys of compilation #1 cannot prove with recompilation #K: " + firstLine(err.Error())}
							}
							if err := groth16.Verify(p, vk, pub); err != nil {
								return ev.Outcome{Violation: "proof made with recompilation #K does not verify under the key of compilation #1: " + err.Error()}
							}
							classes = append(classes, "keys-reused:groth16")
						}
					} else if cs1.GetNbConstraints()+cs1.GetNbPublicVariables() >= 2 {
						if pl, err := zk.NewPlonkFromCS(f, cs1, nil); err == nil {
							p, err := plonk.Prove(csK, pl.PK, w)
							if err != nil {
								return ev.Outcome{Violation: "plonk keys of compilation #1 cannot prove with recompilation #K: " + firstLine(err.Error())}
							}
							if err := plonk.Verify(p, pl.VK, pub); err != nil {
								return ev.Outcome{Violation: "plonk proof made with recompilation #K does not verify under the key of compilation #1: " + err.Error()}
							}
							classes = append(classes, "keys-reused:plonk")
						}
					}
				}
			}
		}
		nb := 0
		if cs1 != nil {
			nb = cs1.GetNbConstraints()
		}
		uses := c.Lookup+c.Range+c.Emul+c.Defer+c.Multi > 0 || c.WireQuery != 0 || zk.NbCommits(c.Prog) > 0
		for _, o := range c.Prog.Ops {
			if o.Op == "Hint" || o.Op == "IsZero" || o.Op == "ToBinary" {
				uses = true
			}
		}
		if uses && (nb >= 3 || f.Small) {
			nontrivial = true
		}
	}
	// fresh processes (different map seeds and addresses)
	if c.Procs {
		for p := 0; p < 2; p++ {
			out, err := runChild(c)
			if err != nil {
				return ev.Outcome{Discard: true, DiscardWhy: "child process failed: " + firstLine(err.Error())}
			}
			for _, bld := range []string{prog.R1CS, prog.SCS} {
				if out[bld] != first[bld] {
					return ev.Outcome{Violation: fmt.Sprintf("%s: a fresh process compiled the same circuit to different bytes (%s vs %s)", bld, out[bld], first[bld])}
				}
			}
		}
		classes = append(classes, "cross-process")
	}
	for _, x := range []struct {
		n int
		s string
	}{{c.Lookup, "lookup"}, {c.Range, "rangecheck"}, {c.Emul, "emulated"}, {c.Defer, "deferred"}, {c.Multi, "multicommit"}, {c.WireQuery, "wirequery"}} {
		if x.n != 0 {
			classes = append(classes, "uses:"+x.s)
		}
	}
	return ev.Outcome{NonTrivial: nontrivial, Classes: classes}
}

func runChild(c Case) (map[string]string, error) {
	dir, _ := os.MkdirTemp("", "c11")
	defer os.RemoveAll(dir)
	b, _ := json.Marshal(c)
	p := dir + "/case.json"
	_ = os.WriteFile(p, b, 0o644)
	cmd := exec.Command(os.Args[0], "-test.run", "^$")
	cmd.Env = append(os.Environ(), "C11_CHILD="+p)
	out, err := cmd.Output()
	if err != nil {
		return nil, fmt.Errorf("%v: %s", err, out)
	}
	res := map[string]string{}
	for _, l := range strings.Split(string(out), "\n") {
		var bld, d string
		if n, _ := fmt.Sscanf(l, "CHILD %s %s", &bld, &d); n == 2 {
			res[bld] = d
		}
	}
	if len(res) != 2 {
		return nil, fmt.Errorf("child output incomplete: %s", out)
	}
	return res, nil
}

func genCase(fields []string) *rapid.Generator[Case] {
	return rapid.Custom(func(t *rapid.T) Case {
		fn := rapid.SampledFrom(fields).Draw(t, "field")
		f := prog.FieldByName(fn)
		c := Case{Field: fn, Threshold: rapid.SampledFrom([]int{0, 0, 3, 16}).Draw(t, "threshold")}
		c.Prog = zk.GenProvable(zk.ProvableCfg{Q: f.Q, MaxOps: 8, MaxCommits: 3, PFail: 5, AllowConst: true}).Draw(t, "prog")
		if !f.Small {
			c.Lookup = rapid.SampledFrom([]int{0, 0, 1, 2}).Draw(t, "lookup")
			c.Range = rapid.SampledFrom([]int{0, 0, 2, 5}).Draw(t, "range")
			c.Emul = rapid.SampledFrom([]int{0, 0, 0, 1, 2}).Draw(t, "emul")
			c.Multi = rapid.SampledFrom([]int{0, 0, 1, 3}).Draw(t, "multi")
		} else {
			// commitments are not offered on small fields
			var ops []prog.Op
			for _, o := range c.Prog.Ops {
				if o.Op != "Commit" {
					ops = append(ops, o)
				}
			}
			c.Prog.Ops = ops
		}
		c.Defer = rapid.SampledFrom([]int{0, 0, 1, 3}).Draw(t, "defer")
		c.Println = rapid.IntRange(0, 3).Draw(t, "println") == 0
		c.WireQuery = rapid.SampledFrom([]int{0, 0, 3, 6, 12, -4, -9}).Draw(t, "wirequery")
		if c.WireQuery != 0 {
			c.WireConst = rapid.SampledFrom([]int{0, 0, 2, 3, 5, 8}).Draw(t, "wireconst")
		}
		c.Procs = rapid.IntRange(0, 3).Draw(t, "procs") == 0
		c.Keys = rapid.IntRange(0, 3).Draw(t, "keys") == 0
		return c
	})
}

const rule = "rapid-generated programs (hints, 0-3 commitments, constants) extended with 0-2 witness-dependent lookup tables, range checks, emulated multiplications (deferred checks), multicommit users, nested deferred callbacks, Println, and the sparse builder's wire-query interface (GetWireConstraints / GetWiresConstraintExact with addMissing=true on 3-12 otherwise unused inputs, internal wires and 0-8 distinct repeated constants); both builders, compression thresholds, F47 and curve fields. Oracle: serialized bytes identical across K sequential recompilations (K=12 quick / 40 thorough), 6 parallel compilations while another circuit compiles, and 2 fresh processes; keys of compilation #1 prove with recompilation #K and verify. Non-trivial: circuit uses a hint / commitment / lookup / range check / emulated op / deferred callback / wire query and has >= 3 constraints. Distinct: SHA-256 of the case JSON."

func TestDeterministicCompile(t *testing.T) {
	rec := ev.Get(ID)
	rec.SetRule(rule)
	rec.Assume("'every run and process' is sampled: K recompilations, 6 parallel, 2 fresh processes; a nondeterminism needing more tries can be missed (a 3-entry map iteration is missed with probability < 1e-8 at K=12)")
	g := genCase([]string{"bn254", "bn254", "bls12-377", "bls12-381", "bw6-761", "bls24-315", "f47", "f47", "koalabear"})
	rec.Check(t, "determinism", ev.N(300, 3000), func(rt *rapid.T) {
		c := g.Draw(rt, "case")
		rec.Begin("determinism", c)
		rec.Report(rt, "determinism", c, run(c))
	})
}

func TestReplay(t *testing.T) { ev.Replay(t) }

package c14

// Exhaustive enumeration over the 47-element field (every gadget that compiles
// there): honest direction in the test engine and on both compiled systems,
// then the hint adversary on both compiled systems.

import (
	"fmt"
	"math/big"
	"os"
	"strconv"
	"strings"
	"testing"

	"verifharness/lib/ev"
)

const ruleEnum = "F47: exhaustive enumeration of operand pairs / selectors / positions / splits for every static configuration (bounds 1..15, lengths 1..16, splits 0..6) of cmp, selector and bitslice gadgets, in the test engine and on compiled R1CS and SCS (quick tier: a seed-dependent residue class of the largest groups); each case checks the documented result is accepted (where satisfiability is promised) and 1-4 wrong claimed outputs are rejected. Adversary: the same inputs with one hint of the gadget rewritten (flip/zero/rotate/add/set/other/alias, every hint value on F47 for the 1-output hints); whatever the gadget then returns, and the plausible wrong outputs, must not be accepted unless the documentation allows them. Non-trivial: input in a boundary class (equal operands, signed difference (centred representatives) at the bound, at 2^bitlen or at p-2^bitlen, operands straddling zero, selector 0/n-1/n/p-1, position 0/n/n+1, split 0/width, operand 0/p-1/next to 2^k) or a dishonest-prover query whose strategy changed at least one hint output. Distinct: SHA-256 of the case JSON."

type enumerator struct {
	t      *testing.T
	rec    *ev.Recorder
	idx    int
	shard  int
	shards int
	stride int // take one case in `stride` (after sharding)
	offset int
	done   int
}

func envInt(k string, d int) int {
	if v, err := strconv.Atoi(os.Getenv(k)); err == nil {
		return v
	}
	return d
}

func newEnum(t *testing.T) *enumerator {
	e := &enumerator{t: t, rec: ev.Get(ID), shards: 1, stride: 1}
	if ev.Tier() == "thorough" {
		e.shards = envInt("VERIF_SHARDS", 1)
		e.shard = ev.Shard() % e.shards
	}
	e.offset = int(ev.Seed() % 1000003)
	return e
}

// group sets the sampling stride for the following cases: quick tier takes one
// case in q, thorough one in th (VERIF_SCALE below 100 enlarges both).
func (e *enumerator) group(q, th int) {
	s := q
	if ev.Tier() == "thorough" {
		s = th
	}
	if sc := envInt("VERIF_SCALE", 100); sc < 100 && sc > 0 {
		s = s * 100 / sc
	}
	if s < 1 {
		s = 1
	}
	e.stride = s
	e.idx = 0
}

func (e *enumerator) do(c Case) {
	i := e.idx
	e.idx++
	if i%e.shards != e.shard {
		return
	}
	// a mixing hash keeps the sample spread over all residues of the nested loops
	if e.stride > 1 && mix(uint64(i/e.shards)+uint64(e.offset)*0x9E3779B97F4A7C15)%uint64(e.stride) != 0 {
		return
	}
	e.done++
	report(e.t, e.rec, c)
}

// mix is the splitmix64 finaliser.
func mix(x uint64) uint64 {
	x += 0x9E3779B97F4A7C15
	x = (x ^ (x >> 30)) * 0xBF58476D1CE4E5B9
	x = (x ^ (x >> 27)) * 0x94D049BB133111EB
	return x ^ (x >> 31)
}

func report(t *testing.T, rec *ev.Recorder, c Case) {
	o := run(c)
	if o.Discard {
		rec.Discarded("gadget:" + o.DiscardWhy)
		return
	}
	if o.Violation != "" {
		p := rec.Violate("gadget", c, o.Violation)
		t.Fatalf("VIOLATION %s kind=gadget replay=%s: %s", ID, p, o.Violation)
	}
	rec.Count("gadget", c, o.NonTrivial, o.Classes...)
}

func strs(v ...int) []string {
	r := make([]string, len(v))
	for i := range v {
		r[i] = strconv.Itoa(v[i])
	}
	return r
}

// pattern returns n field elements: pattern 0 pairwise distinct and non-zero,
// pattern 1 with zeros and repetitions, pattern 2 all equal.
func pattern(k, n, q int) []int {
	r := make([]int, n)
	for i := range r {
		switch k {
		case 0:
			r[i] = (7*i + 3) % q
		case 1:
			r[i] = []int{0, 5, 5, 0, q - 1, 1, 0, 9}[i%8]
		default:
			r[i] = 11
		}
	}
	return r
}

var compiledModes = []string{"r1cs", "scs"}
var allModes = []string{"engine", "r1cs", "scs"}

const q47 = 47

// f47Configs enumerates (gadget, static parameters, input vectors) on F47 and
// calls f for each; adversary=false is the honest enumeration.
func f47Inputs(g string, p []int, f func(in []string)) {
	switch g {
	case "cmp.IsLess", "cmp.IsLessOrEqual", "cmp.IsEqual",
		"bc.AssertIsLess", "bc.AssertIsLessEq", "bc.IsLess", "bc.IsLessEq", "bc.Min":
		for a := 0; a < q47; a++ {
			for b := 0; b < q47; b++ {
				f(strs(a, b))
			}
		}
	case "cmp.IsLess.const", "cmp.IsLessOrEqual.const", "cmp.IsEqual.const":
		for a := 0; a < q47; a++ {
			f(strs(a))
		}
	case "cmp.IsLessBinary", "cmp.IsLessOrEqualBinary":
		n := p[0]
		for x := 0; x < 1<<(2*n); x++ {
			in := make([]int, 2*n)
			for i := range in {
				in[i] = (x >> i) & 1
			}
			f(strs(in...))
		}
	case "sel.Mux":
		for pat := 0; pat < 2; pat++ {
			for sel := 0; sel < q47; sel++ {
				f(strs(append([]int{sel}, pattern(pat, p[0], q47)...)...))
			}
		}
	case "sel.Decoder":
		for sel := 0; sel < q47; sel++ {
			f(strs(sel))
		}
	case "sel.Map":
		for pat := 0; pat < 3; pat++ {
			for vp := 0; vp < 2; vp++ {
				for qy := 0; qy < q47; qy++ {
					in := append([]int{qy}, pattern(pat, p[0], q47)...)
					f(strs(append(in, pattern(vp, p[0], q47)...)...))
				}
			}
		}
	case "sel.KeyDecoder":
		for pat := 0; pat < 3; pat++ {
			for qy := 0; qy < q47; qy++ {
				f(strs(append([]int{qy}, pattern(pat, p[0], q47)...)...))
			}
		}
	case "sel.BinaryMux":
		k := p[0]
		for pat := 0; pat < 2; pat++ {
			for x := 0; x < 1<<k; x++ {
				in := make([]int, k)
				for i := range in {
					in[i] = (x >> i) & 1
				}
				f(strs(append(in, pattern(pat, 1<<k, q47)...)...))
			}
		}
	case "sel.Partition":
		for pat := 0; pat < 2; pat++ {
			for piv := 0; piv < q47; piv++ {
				f(strs(append([]int{piv}, pattern(pat, p[0], q47)...)...))
			}
		}
	case "sel.Slice":
		for st := 0; st < q47; st++ {
			for en := 0; en < q47; en++ {
				f(strs(append([]int{st, en}, pattern(0, p[0], q47)...)...))
			}
		}
	case "bitslice.Partition":
		for v := 0; v < q47; v++ {
			f(strs(v))
		}
	default:
		panic("no F47 input enumeration for " + g)
	}
}

type f47cfg struct {
	g     string
	p     []int
	bound string
}

func f47Configs(adversary bool) []f47cfg {
	var r []f47cfg
	for _, g := range []string{"cmp.IsLess", "cmp.IsLessOrEqual", "cmp.IsEqual"} {
		r = append(r, f47cfg{g: g})
	}
	for _, g := range []string{"cmp.IsLess.const", "cmp.IsLessOrEqual.const", "cmp.IsEqual.const"} {
		for b := 0; b < q47; b++ {
			for side := 0; side < 2; side++ {
				r = append(r, f47cfg{g: g, p: []int{side}, bound: strconv.Itoa(b)})
			}
		}
	}
	maxBits := 7 // the field has 6 bits: 5, 6 and 7 bits straddle the bounded / bit-by-bit switch and the field width
	for n := 1; n <= maxBits; n++ {
		r = append(r, f47cfg{g: "cmp.IsLessBinary", p: []int{n}}, f47cfg{g: "cmp.IsLessOrEqualBinary", p: []int{n}})
	}
	for _, m := range []string{"AssertIsLess", "AssertIsLessEq", "IsLess", "IsLessEq", "Min"} {
		for b := 1; b <= 15; b++ {
			for nd := 0; nd < 2; nd++ {
				if adversary && nd == 1 && b != 6 {
					continue
				}
				r = append(r, f47cfg{g: "bc." + m, p: []int{nd}, bound: strconv.Itoa(b)})
			}
		}
	}
	for n := 1; n <= 16; n++ {
		if adversary && n > 9 {
			break
		}
		r = append(r, f47cfg{g: "sel.Mux", p: []int{n}})
	}
	for n := 1; n <= 9; n++ {
		if adversary && n > 6 {
			break
		}
		r = append(r, f47cfg{g: "sel.Decoder", p: []int{n}}, f47cfg{g: "sel.Map", p: []int{n}}, f47cfg{g: "sel.KeyDecoder", p: []int{n}})
	}
	for k := 0; k <= 3; k++ {
		r = append(r, f47cfg{g: "sel.BinaryMux", p: []int{k}})
	}
	for n := 2; n <= 9; n++ {
		if adversary && n > 6 {
			break
		}
		r = append(r, f47cfg{g: "sel.Partition", p: []int{n, 0}}, f47cfg{g: "sel.Partition", p: []int{n, 1}})
	}
	for n := 2; n <= 6; n++ {
		if adversary && n > 4 {
			break
		}
		r = append(r, f47cfg{g: "sel.Slice", p: []int{n}})
	}
	for split := 0; split <= 6; split++ {
		r = append(r, f47cfg{g: "bitslice.Partition", p: []int{split, 0, 0}})
	}
	return r
}

// quickStride / thoroughStride of a configuration's honest enumeration.
func f47Stride(c f47cfg) (q, th int) {
	switch {
	case c.g == "sel.Slice":
		return 6, 1
	case c.g[:3] == "bc.":
		if c.p[0] == 1 {
			return 20, 1
		}
		return 4, 1
	case strings.HasSuffix(c.g, ".const"):
		return 2, 1
	case c.g == "cmp.IsLessBinary" || c.g == "cmp.IsLessOrEqualBinary":
		if c.p[0] >= 6 {
			return 1 << (2*c.p[0] - 9), 1
		}
	}
	return 1, 1
}

func TestF47Honest(t *testing.T) {
	rec := ev.Get(ID)
	rec.SetRule(ruleEnum)
	rec.Assume("the integer oracle in spec_test.go transcribes the doc comments of std/math/cmp, std/selector, std/math/bitslice")
	e := newEnum(t)
	for _, cfg := range f47Configs(false) {
		q, th := f47Stride(cfg)
		e.group(q, th)
		f47Inputs(cfg.g, cfg.p, func(in []string) {
			for _, mode := range allModes {
				e.do(Case{G: cfg.g, Field: "f47", Mode: mode, P: cfg.p, Bound: cfg.bound, In: in})
			}
		})
	}
	rec.AddExtra("f47_honest_cases", e.done)
	if ev.Tier() == "thorough" {
		rec.Extra("exhaustive", true)
	}
}

// TestF47Admissible: NewBoundedComparator "can detect invalid values of
// absDiffUpp and panics when the provided value is not positive or is too big".
func TestF47Admissible(t *testing.T) {
	rec := ev.Get(ID)
	for b := -2; b <= 49; b++ {
		for _, mode := range allModes {
			c := Case{G: "bc.IsLess", Field: "f47", Mode: mode, P: []int{1}, Bound: strconv.Itoa(b), In: []string{"0", "0"}}
			o := runAdmissible(c)
			if o.Violation != "" {
				p := rec.Violate("admissible", c, o.Violation)
				t.Fatalf("VIOLATION %s kind=admissible replay=%s: %s", ID, p, o.Violation)
			}
			rec.Count("admissible", c, true, o.Classes...)
		}
	}
}

func runAdmissible(c Case) ev.Outcome {
	q := big.NewInt(q47)
	b := c.bound()
	want := admissibleBound(b, q)
	in := []*big.Int{bi(0), bi(0)}
	v := solveOnce(&c, in, []*big.Int{bi(0)}, false, nil)
	rejected := !v.ok
	if want && rejected {
		return ev.Outcome{Violation: fmt.Sprintf("[NewBoundedComparator bound=%s mode=%s] documented-admissible bound rejected: %s", c.Bound, c.Mode, v.err)}
	}
	if !want && !rejected {
		return ev.Outcome{Violation: fmt.Sprintf("[NewBoundedComparator bound=%s mode=%s] inadmissible bound (not positive, or P-bound-1 not longer than bound) accepted", c.Bound, c.Mode)}
	}
	return ev.Outcome{NonTrivial: true, Classes: []string{fmt.Sprintf("admissible:%v", want)}}
}

// TestF47MapSharedArray: Map called with keys and values sliced out of one
// array (keys has spare capacity): the result must not depend on that.
func TestF47MapSharedArray(t *testing.T) {
	e := newEnum(t)
	e.group(1, 1)
	for n := 1; n <= 4; n++ {
		p := []int{n, 1}
		f47Inputs("sel.Map", p, func(in []string) {
			for _, mode := range allModes {
				e.do(Case{G: "sel.Map", Field: "f47", Mode: mode, P: p, In: in})
			}
		})
	}
}

func TestF47Adversary(t *testing.T) {
	rec := ev.Get(ID)
	rec.SetRule(ruleEnum)
	e := newEnum(t)
	q := big.NewInt(q47)
	for _, cfg := range f47Configs(true) {
		var b *big.Int
		if cfg.bound != "" {
			b, _ = new(big.Int).SetString(cfg.bound, 10)
		}
		menu := stratMenu(cfg.g, cfg.p, b, q)
		// every value of the one-output gadget hints
		switch cfg.g {
		case "bc.IsLess", "bc.IsLessEq":
			if cfg.bound == "3" || cfg.bound == "8" {
				for v := 0; v < q47; v++ {
					menu = append(menu, Strat{Hint: "cmp.isLessOutputHint", Seq: -1, Op: "set", Delta: strs(v)})
				}
			}
		case "bc.Min":
			if cfg.bound == "3" || cfg.bound == "8" {
				for v := 0; v < q47; v++ {
					menu = append(menu, Strat{Hint: "cmp.minOutputHint", Seq: -1, Op: "set", Delta: strs(v)})
				}
			}
		}
		if len(menu) == 0 {
			continue
		}
		switch {
		case cfg.g[:3] == "bc." && len(menu) > 40:
			e.group(80, 1)
		case cfg.g[:3] == "bc.":
			e.group(40, 1)
		case cfg.g == "sel.Slice":
			e.group(120, 2)
		case cfg.g == "sel.Partition", cfg.g == "sel.Map", cfg.g == "sel.KeyDecoder":
			e.group(4, 1)
		case cfg.g == "cmp.IsLess" || cfg.g == "cmp.IsLessOrEqual":
			e.group(4, 1)
		case strings.HasSuffix(cfg.g, ".const"):
			e.group(10, 1)
		case (cfg.g == "cmp.IsLessBinary" || cfg.g == "cmp.IsLessOrEqualBinary") && cfg.p[0] >= 5:
			e.group(1<<(2*cfg.p[0]-8), 1<<(2*cfg.p[0]-10))
		case cfg.g == "sel.Decoder":
			e.group(2, 1)
		default:
			e.group(1, 1)
		}
		f47Inputs(cfg.g, cfg.p, func(in []string) {
			for _, mode := range compiledModes {
				for i := range menu {
					s := menu[i]
					e.do(Case{G: cfg.g, Field: "f47", Mode: mode, P: cfg.p, Bound: cfg.bound, In: in, Strat: &s})
				}
			}
		})
	}
	rec.AddExtra("f47_adversary_cases", e.done)
}

// C14 — comparison, selection, bit-slice and small-integer gadgets have exact
// semantics (std/math/cmp, std/selector, std/math/bitslice, std/math/uints).
//
// Oracle: a direct integer implementation written from the doc comments
// (spec_test.go), including the documented "unsatisfiable or correct" and
// undefined zones of the bounded comparator. Both directions: the documented
// result is accepted (where the docs promise satisfiability) and every other
// claimed public output is rejected, under honest hints and under a hint
// adversary (adv_test.go).
package c14

import (
	"encoding/json"
	"fmt"
	"math/big"
	"strings"
	"sync"
	"testing"

	"verifharness/lib/ev"
	"verifharness/lib/prog"

	"github.com/consensys/gnark/constraint/solver"
	"github.com/consensys/gnark/frontend"
	"github.com/consensys/gnark/logger"
	"github.com/consensys/gnark/std"
	"github.com/consensys/gnark/test"
)

const ID = "C14"

func TestMain(m *testing.M) {
	logger.Disable()
	std.RegisterHints()
	solver.RegisterHint(observeHint)
	ev.RegisterReplay("gadget", func(raw json.RawMessage) string {
		var c Case
		if err := json.Unmarshal(raw, &c); err != nil {
			return ""
		}
		return run(c).Violation
	})
	ev.RegisterReplay("admissible", func(raw json.RawMessage) string {
		var c Case
		if err := json.Unmarshal(raw, &c); err != nil {
			return ""
		}
		return runAdmissible(c).Violation
	})
	ev.Main(m)
}

// Case is one test case: a gadget, its static configuration, the field and
// execution mode, the input values and (optionally) a hint-adversary strategy.
type Case struct {
	G     string   `json:"g"`               // gadget name (see gadgets in spec_test.go)
	Field string   `json:"field"`           // prog field name
	Mode  string   `json:"mode"`            // engine | r1cs | scs
	P     []int    `json:"p,omitempty"`     // static integer parameters (lengths, split, digits, flags)
	Bound string   `json:"bound,omitempty"` // static big parameter (absDiffUpp)
	In    []string `json:"in"`              // input values (decimal, already reduced)
	Strat *Strat   `json:"strat,omitempty"` // nil: genuine hints
}

// Strat describes a rewrite of the outputs of one hint.
type Strat struct {
	Hint  string   `json:"hint"`            // "pkg.func" suffix of the hint name
	Seq   int      `json:"seq"`             // invocation index to rewrite, -1 = all
	Op    string   `json:"op"`              // flip|zero|rot|rotl|add|set|other|alias|scale
	Delta []string `json:"delta,omitempty"` // per-output operand of add/set
}

func (c *Case) bound() *big.Int {
	if c.Bound == "" {
		return nil
	}
	b, ok := new(big.Int).SetString(c.Bound, 10)
	if !ok {
		panic("bad bound " + c.Bound)
	}
	return b
}

func (c *Case) inputs() []*big.Int {
	r := make([]*big.Int, len(c.In))
	for i, s := range c.In {
		v, ok := new(big.Int).SetString(s, 10)
		if !ok {
			panic("bad input " + s)
		}
		r[i] = v
	}
	return r
}

func (c *Case) cfgKey(observe bool) string {
	return fmt.Sprintf("%s|%s|%s|%v|%s|%v", c.G, c.Field, c.Mode, c.P, c.Bound, observe)
}

// ---- circuit -----------------------------------------------------------------

// Circuit applies one gadget to secret inputs and compares every returned
// variable with a public output. No func-typed fields (test.IsSolved clones
// the circuit and compares with reflect.DeepEqual).
type Circuit struct {
	G       string `gnark:"-"`
	P       []int  `gnark:"-"`
	Bound   string `gnark:"-"`
	Observe bool   `gnark:"-"`
	In      []frontend.Variable
	Out     []frontend.Variable `gnark:",public"`
}

func (c *Circuit) Define(api frontend.API) error {
	g := gadgets[c.G]
	var bound *big.Int
	if c.Bound != "" {
		bound, _ = new(big.Int).SetString(c.Bound, 10)
	}
	outs := g.build(api, c.P, bound, c.In)
	if len(outs) != len(c.Out) {
		return fmt.Errorf("harness: gadget %s returned %d outputs, circuit has %d", c.G, len(outs), len(c.Out))
	}
	if c.Observe && len(outs) > 0 {
		// the comparison with the claimed public output goes through an identity
		// hint that records the value the gadget returned, so that the claimed
		// output can never stop the solver before the observation.
		obs, err := api.Compiler().NewHint(observeHint, len(outs), outs...)
		if err != nil {
			return err
		}
		for i := range outs {
			api.AssertIsEqual(obs[i], outs[i])
		}
		for i := range outs {
			api.AssertIsEqual(obs[i], c.Out[i])
		}
		return nil
	}
	for i := range outs {
		api.AssertIsEqual(outs[i], c.Out[i])
	}
	return nil
}

var (
	obsMu   sync.Mutex
	obsLast []*big.Int
)

// observeHint is the identity; it records its inputs (the gadget outputs as
// computed under the current, possibly forged, hint outputs).
func observeHint(_ *big.Int, in, out []*big.Int) error {
	rec := make([]*big.Int, len(in))
	for i := range in {
		out[i].Set(in[i])
		rec[i] = new(big.Int).Set(in[i])
	}
	obsMu.Lock()
	obsLast = rec
	obsMu.Unlock()
	return nil
}

func resetObs() {
	obsMu.Lock()
	obsLast = nil
	obsMu.Unlock()
}

func lastObs() []*big.Int {
	obsMu.Lock()
	defer obsMu.Unlock()
	return obsLast
}

func newCircuit(c *Case, nIn, nOut int, observe bool) *Circuit {
	return &Circuit{G: c.G, P: c.P, Bound: c.Bound, Observe: observe,
		In: make([]frontend.Variable, nIn), Out: make([]frontend.Variable, nOut)}
}

func assignment(c *Case, in, out []*big.Int, observe bool) *Circuit {
	a := newCircuit(c, len(in), len(out), observe)
	for i := range in {
		a.In[i] = in[i]
	}
	for i := range out {
		a.Out[i] = out[i]
	}
	return a
}

// ---- compiled-system cache -----------------------------------------------------

type compiled struct {
	sys prog.System
	err error
}

var (
	cacheMu    sync.Mutex
	cache      = map[string]*compiled{}
	cacheOrder []string // insertion order of the small systems (heavy ones: heavyOrder)
)

const cacheMax = 4000

func compile(c *Case, nIn, nOut int, observe bool) (prog.System, error) {
	key := c.cfgKey(observe)
	cacheMu.Lock()
	if e, ok := cache[key]; ok {
		cacheMu.Unlock()
		return e.sys, e.err
	}
	cacheMu.Unlock()
	f := fieldByName(c.Field)
	sys, err := prog.Compile(f, c.Mode, newCircuit(c, nIn, nOut, observe))
	cacheMu.Lock()
	defer cacheMu.Unlock()
	if heavyCase(c) {
		// systems with 65536-entry tables: keep at most heavyMax alive
		if len(heavyOrder) >= heavyMax {
			delete(cache, heavyOrder[0])
			heavyOrder = append([]string(nil), heavyOrder[1:]...)
		}
		heavyOrder = append(heavyOrder, key)
		cache[key] = &compiled{sys: sys, err: err}
		return sys, err
	}
	if len(cacheOrder) >= cacheMax {
		// drop the oldest half (deterministic: insertion order)
		drop := len(cacheOrder) / 2
		for _, k := range cacheOrder[:drop] {
			delete(cache, k)
		}
		cacheOrder = append([]string(nil), cacheOrder[drop:]...)
	}
	cache[key] = &compiled{sys: sys, err: err}
	cacheOrder = append(cacheOrder, key)
	return sys, err
}

const heavyMax = 12

var heavyOrder []string

func heavyCase(c *Case) bool {
	return strings.HasPrefix(c.G, "uints.") && len(c.P) > 0 && c.P[0]&uTables != 0
}

// ---- execution -----------------------------------------------------------------

type verdict struct {
	ok    bool   // a satisfying assignment was produced
	panic string // non-empty: a panic escaped (engine: recovered by IsSolved)
	err   string
}

// solveOnce decides whether the circuit is satisfied by (in, claim) in the
// case's mode, with the genuine hints or under the adversary.
func solveOnce(c *Case, in, claim []*big.Int, observe bool, sopts []solver.Option) verdict {
	f := fieldByName(c.Field)
	if c.Mode == "engine" {
		err := test.IsSolved(newCircuit(c, len(in), len(claim), false), assignment(c, in, claim, false), f.Q)
		if err == nil {
			return verdict{ok: true}
		}
		v := verdict{err: firstLine(err.Error())}
		if strings.Contains(err.Error(), "goroutine ") && strings.Contains(err.Error(), "runtime error") {
			v.panic = firstLine(err.Error())
		}
		return v
	}
	if heavyCase(c) {
		observe = true // one compiled variant serves the honest and the adversarial runs
	}
	sys, err := compile(c, len(in), len(claim), observe)
	if err != nil {
		return verdict{err: "compile: " + firstLine(err.Error()), panic: "compile: " + firstLine(err.Error())}
	}
	w, err := prog.Witness(f, assignment(c, in, claim, observe))
	if err != nil {
		return verdict{err: "witness: " + err.Error(), panic: "witness: " + err.Error()}
	}
	_, err = prog.Solve(sys, w, sopts...)
	if err == nil {
		return verdict{ok: true}
	}
	v := verdict{err: firstLine(err.Error())}
	if strings.HasPrefix(err.Error(), "PANIC") {
		v.panic = firstLine(err.Error())
	}
	return v
}

var (
	fieldMu    sync.Mutex
	fieldCache = map[string]prog.Field{}
)

func fieldByName(n string) prog.Field {
	fieldMu.Lock()
	defer fieldMu.Unlock()
	f, ok := fieldCache[n]
	if !ok {
		f = prog.FieldByName(n)
		fieldCache[n] = f
	}
	return f
}

func firstLine(s string) string {
	if i := strings.IndexByte(s, '\n'); i >= 0 {
		s = s[:i]
	}
	if len(s) > 300 {
		s = s[:300]
	}
	return s
}

func fmtVals(v []*big.Int) string {
	if len(v) > 24 {
		return fmt.Sprintf("%v…(%d values)", v[:24], len(v))
	}
	return fmt.Sprintf("%v", v)
}

func eqVals(a, b []*big.Int) bool {
	if len(a) != len(b) {
		return false
	}
	for i := range a {
		if a[i].Cmp(b[i]) != 0 {
			return false
		}
	}
	return true
}

func diffIdx(a, b []*big.Int) int {
	for i := range a {
		if i >= len(b) || a[i].Cmp(b[i]) != 0 {
			return i
		}
	}
	return -1
}

func hasCommitment(c *Case, sys prog.System) bool {
	cm := sys.GetCommitments()
	return cm != nil && len(cm.CommitmentIndexes()) > 0
}

// run evaluates one case against the oracle.
func run(c Case) (out ev.Outcome) {
	g, ok := gadgets[c.G]
	if !ok {
		return ev.Outcome{Discard: true, DiscardWhy: "unknown gadget " + c.G}
	}
	f := fieldByName(c.Field)
	in := c.inputs()
	for _, v := range in {
		if v.Sign() < 0 || v.Cmp(f.Q) >= 0 {
			return ev.Outcome{Discard: true, DiscardWhy: "input not reduced"}
		}
	}
	nIn, nOut := g.shape(c.P)
	if nIn != len(in) {
		return ev.Outcome{Discard: true, DiscardWhy: "harness: wrong number of inputs"}
	}
	sp := g.spec(c.P, c.bound(), f.Q, in)
	if sp.Skip != "" {
		return ev.Outcome{Discard: true, DiscardWhy: sp.Skip}
	}
	classes := append([]string{"g:" + c.G, "mode:" + c.Mode, "field:" + c.Field, "zone:" + sp.zone()}, sp.Classes...)
	if sp.Kind == kUndefined {
		// documented as undefined: only exercised for crashes of the compiler
		return ev.Outcome{Discard: true, DiscardWhy: "documented-undefined:" + c.G}
	}
	where := fmt.Sprintf("[%s P=%v bound=%s field=%s mode=%s in=%s]", c.G, c.P, c.Bound, c.Field, c.Mode, fmtVals(in))

	claim0 := sp.Outs
	if claim0 == nil {
		claim0 = make([]*big.Int, nOut)
		for i := range claim0 {
			claim0[i] = new(big.Int)
		}
	}
	if len(claim0) != nOut {
		return ev.Outcome{Discard: true, DiscardWhy: "harness: spec output arity"}
	}

	if c.Strat == nil {
		// ---------- honest hints ----------
		v := solveOnce(&c, in, claim0, false, nil)
		if strings.HasPrefix(v.err, "compile:") {
			return ev.Outcome{Violation: where + " documented-valid configuration does not compile: " + v.err}
		}
		if v.ok && !sp.allowed(claim0) {
			return ev.Outcome{Violation: fmt.Sprintf("%s satisfiable with output %s although the documentation promises %s", where, fmtVals(claim0), sp.promise())}
		}
		if !v.ok && sp.MustSat {
			return ev.Outcome{Violation: fmt.Sprintf("%s spec: result %s, but the circuit is not satisfied with the genuine hints: %s", where, fmtVals(claim0), v.err)}
		}
		var accepted [][]*big.Int
		if v.ok {
			classes = append(classes, "honest:accepted")
			accepted = append(accepted, claim0)
		} else {
			classes = append(classes, "honest:rejected")
		}
		for _, w := range wrongClaims(&c, sp, claim0, f.Q) {
			if sp.Kind == kDeterministic {
				// any single output may be accepted, two different ones may not
				if vv := solveOnce(&c, in, w, false, nil); vv.ok {
					if msg := twoOutputs(&accepted, w); msg != "" {
						return ev.Outcome{Violation: where + " " + msg}
					}
				}
				continue
			}
			if sp.allowed(w) {
				continue
			}
			if vv := solveOnce(&c, in, w, false, nil); vv.ok {
				return ev.Outcome{Violation: fmt.Sprintf("%s wrong claimed output accepted (first difference at index %d): claimed %s, spec %s", where, diffIdx(w, claim0), fmtVals(w), sp.promise())}
			}
			classes = append(classes, "wrong-claim:rejected")
		}
		return ev.Outcome{NonTrivial: sp.boundary(), Classes: classes}
	}

	// ---------- hint adversary (compiled systems only) ----------
	if c.Mode == "engine" {
		return ev.Outcome{Discard: true, DiscardWhy: "harness: adversary needs a compiled system"}
	}
	sys, err := compile(&c, nIn, nOut, true)
	if err != nil {
		return ev.Outcome{Violation: where + " documented-valid configuration does not compile: " + firstLine(err.Error())}
	}
	strat, err := c.Strat.compile()
	if err != nil {
		return ev.Outcome{Discard: true, DiscardWhy: "harness: " + err.Error()}
	}
	suffix := "/" + c.Strat.Hint
	mkopts := func() (*advSession, []solver.Option) {
		sess, opts := advOptions(strat, suffix)
		opts = append(opts, solver.WithNbTasks(1))
		if hasCommitment(&c, sys) {
			opts = append(opts, hashCommit)
		}
		return sess, opts
	}
	advName := "adv:" + c.Strat.Hint + ":" + c.Strat.Op
	sess, opts := mkopts()
	resetObs()
	v := solveOnce(&c, in, claim0, true, opts)
	if sess.Changed == 0 {
		return ev.Outcome{Discard: true, DiscardWhy: "strategy did not fire:" + c.G + ":" + c.Strat.Hint}
	}
	obs := lastObs()
	if v.ok && !sp.allowed(claim0) {
		return ev.Outcome{Violation: fmt.Sprintf("%s strategy %s: satisfiable with output %s although the documentation promises %s", where, c.Strat, fmtVals(claim0), sp.promise())}
	}
	var accepted [][]*big.Int
	if v.ok {
		classes = append(classes, "adv:honest-output-still-accepted")
		accepted = append(accepted, claim0)
	}
	claims := wrongClaims(&c, sp, claim0, f.Q)
	if obs != nil && len(obs) == nOut && !eqVals(obs, claim0) {
		claims = append([][]*big.Int{obs}, claims...)
		classes = append(classes, "adv:gadget-returned-other-output")
	}
	for _, w := range claims {
		if sp.Kind == kDeterministic {
			_, o2 := mkopts()
			if vv := solveOnce(&c, in, w, true, o2); vv.ok {
				if msg := twoOutputs(&accepted, w); msg != "" {
					return ev.Outcome{Violation: fmt.Sprintf("%s strategy %s: %s", where, c.Strat, msg)}
				}
			}
			continue
		}
		if sp.allowed(w) {
			continue
		}
		_, o2 := mkopts()
		if vv := solveOnce(&c, in, w, true, o2); vv.ok {
			return ev.Outcome{Violation: fmt.Sprintf("%s strategy %s: a dishonest prover satisfies the circuit with output %s (first difference at index %d); spec %s", where, c.Strat, fmtVals(w), diffIdx(w, claim0), sp.promise())}
		}
	}
	classes = append(classes, advName, "adv:rejected")
	return ev.Outcome{NonTrivial: true, Classes: classes}
}

// twoOutputs records an accepted output of a zone documented as "well-defined
// and deterministic" and reports a second, different accepted output.
func twoOutputs(accepted *[][]*big.Int, w []*big.Int) string {
	for _, a := range *accepted {
		if !eqVals(a, w) {
			return fmt.Sprintf("two different outputs are accepted (%s and %s) although the documentation promises deterministic behaviour", fmtVals(a), fmtVals(w))
		}
	}
	*accepted = append(*accepted, w)
	return ""
}

func (s *Strat) String() string {
	b, _ := json.Marshal(s)
	return string(b)
}

// wrongClaims derives claimed outputs that differ from the spec output.
func wrongClaims(c *Case, sp Spec, claim0 []*big.Int, q *big.Int) [][]*big.Int {
	var r [][]*big.Int
	r = append(r, sp.Wrong...)
	n := len(claim0)
	if n == 0 {
		return r
	}
	// deterministic choice of up to two perturbed positions
	h := 0
	for _, s := range c.In {
		for i := 0; i < len(s); i++ {
			h = (h*31 + int(s[i])) % 1000003
		}
	}
	idx := []int{h % n}
	heavy := heavyCase(c)
	if n > 1 && !heavy {
		idx = append(idx, (h/7+1)%n)
	}
	for k, i := range idx {
		w := make([]*big.Int, n)
		copy(w, claim0)
		if k == 0 {
			w[i] = new(big.Int).Add(claim0[i], big.NewInt(1))
		} else {
			w[i] = new(big.Int).Sub(big.NewInt(1), claim0[i]) // flip a boolean
		}
		w[i].Mod(w[i], q)
		if !eqVals(w, claim0) {
			r = append(r, w)
		}
	}
	return r
}

func TestReplay(t *testing.T) { ev.Replay(t) }

package c14

// Boundary-biased rapid generation over pairing-curve scalar fields: every
// gadget (including uints), test engine for breadth and compiled R1CS / SCS
// for a subset, with and without the hint adversary.

import (
	"math/big"
	"testing"

	"verifharness/lib/ev"

	"pgregory.net/rapid"
)

const ruleCurves = "bn254 / bls12-377 (thorough: + bls12-381, bw6-761): rapid-generated cases; operands biased to 0, 1, p-1, (p±1)/2, 2^k-1/2^k/2^k+1, equal and adjacent pairs, differences exactly at bound / bound+1 / 2^bitlen(bound) / p-2^bitlen(bound); bounds 1, 2^k-1, 2^k, largest admissible; selectors 0, n-1, n, 2^bits-1, 2^bits, p-1; lengths 1-9, 15-17, 31-33; bitslice digits none/1..bitlen-1/>=bitlen and split 0/mid/digits; uints words 0, 2^w-1, 2^k, 2^k-1, carry-producing pairs. About half in the test engine, the rest on compiled R1CS/SCS, about a third of the compiled ones under a hint-adversary strategy drawn from the gadget's menu. Non-trivial and distinct as for F47."

func pow2(k int) *big.Int { return new(big.Int).Lsh(big.NewInt(1), uint(k)) }

func randBelow(t *rapid.T, q *big.Int, label string) *big.Int {
	bs := rapid.SliceOfN(rapid.Byte(), (q.BitLen()+15)/8, (q.BitLen()+15)/8).Draw(t, label)
	v := new(big.Int).SetBytes(bs)
	return v.Mod(v, q)
}

// genElem draws a boundary-biased field element.
func genElem(t *rapid.T, q *big.Int, label string) *big.Int {
	var v *big.Int
	switch rapid.IntRange(0, 9).Draw(t, label+"-kind") {
	case 0:
		v = big.NewInt(int64(rapid.SampledFrom([]int{0, 0, 1, 2}).Draw(t, label+"-small")))
	case 1:
		v = new(big.Int).Sub(q, big.NewInt(int64(rapid.SampledFrom([]int{1, 1, 2, 3}).Draw(t, label+"-neg"))))
	case 2:
		v = new(big.Int).Rsh(q, 1)
		v.Add(v, big.NewInt(int64(rapid.IntRange(-1, 2).Draw(t, label+"-half"))))
	case 3, 4:
		k := rapid.IntRange(1, q.BitLen()-1).Draw(t, label+"-k")
		v = pow2(k)
		v.Add(v, big.NewInt(int64(rapid.IntRange(-1, 1).Draw(t, label+"-d"))))
	case 5, 6:
		v = big.NewInt(int64(rapid.IntRange(0, 300).Draw(t, label+"-sm")))
	case 7:
		v = new(big.Int).Sub(q, big.NewInt(int64(rapid.IntRange(1, 300).Draw(t, label+"-ng"))))
	default:
		v = randBelow(t, q, label+"-rnd")
	}
	return v.Mod(v, q)
}

func dec(v ...*big.Int) []string {
	r := make([]string, len(v))
	for i := range v {
		r[i] = v[i].String()
	}
	return r
}

// genPair draws operands of a comparison.
func genPair(t *rapid.T, q *big.Int) (a, b *big.Int) {
	a = genElem(t, q, "a")
	switch rapid.IntRange(0, 5).Draw(t, "pair-kind") {
	case 0:
		b = new(big.Int).Set(a)
	case 1:
		b = new(big.Int).Add(a, big.NewInt(int64(rapid.SampledFrom([]int{-1, 1}).Draw(t, "adj"))))
	case 2:
		k := rapid.IntRange(1, q.BitLen()-1).Draw(t, "dk")
		d := pow2(k)
		d.Add(d, big.NewInt(int64(rapid.IntRange(-1, 1).Draw(t, "dd"))))
		if rapid.Bool().Draw(t, "dneg") {
			d.Neg(d)
		}
		b = new(big.Int).Add(a, d)
	default:
		b = genElem(t, q, "b")
	}
	return a, b.Mod(b, q)
}

// maxBound is the largest admissible absDiffUpp.
func maxBound(q *big.Int, allowND bool) *big.Int {
	for L := q.BitLen(); L >= 1; L-- {
		b := new(big.Int).Sub(pow2(L), big.NewInt(1))
		alt := new(big.Int).Sub(q, big.NewInt(1))
		alt.Sub(alt, pow2(L))
		if alt.Cmp(b) < 0 {
			b = alt
		}
		if b.Sign() <= 0 || b.BitLen() != L {
			continue
		}
		if admissibleBound(b, q) && (allowND || deterministicBound(b, q)) {
			return b
		}
	}
	return big.NewInt(1)
}

func genBounded(t *rapid.T, q *big.Int) (p []int, bound *big.Int, in []string) {
	allowND := rapid.IntRange(0, 3).Draw(t, "allowND") == 0
	mb := maxBound(q, allowND)
	switch rapid.IntRange(0, 5).Draw(t, "bound-kind") {
	case 0:
		bound = big.NewInt(1)
	case 1:
		bound = new(big.Int).Set(mb)
	case 2:
		bound = new(big.Int).Sub(pow2(rapid.IntRange(1, mb.BitLen()-1).Draw(t, "bk")), big.NewInt(1))
	case 3:
		bound = pow2(rapid.IntRange(1, mb.BitLen()-1).Draw(t, "bk"))
	case 4:
		bound = big.NewInt(int64(rapid.IntRange(2, 1000).Draw(t, "bsmall")))
	default:
		bound = pow2(rapid.IntRange(1, mb.BitLen()-1).Draw(t, "bk"))
		bound.Add(bound, big.NewInt(int64(rapid.IntRange(1, 5).Draw(t, "bplus"))))
	}
	if bound.Cmp(mb) > 0 || !admissibleBound(bound, q) || !(allowND || deterministicBound(bound, q)) {
		bound = new(big.Int).Set(mb)
	}
	B := pow2(bound.BitLen())
	a := genElem(t, q, "a")
	var d *big.Int
	switch rapid.IntRange(0, 11).Draw(t, "diff-kind") {
	case 0:
		d = big.NewInt(0)
	case 1:
		d = big.NewInt(1)
	case 2:
		d = new(big.Int).Set(bound)
	case 3:
		d = new(big.Int).Add(bound, big.NewInt(1))
	case 4:
		d = new(big.Int).Sub(bound, big.NewInt(1))
	case 5:
		d = new(big.Int).Add(B, big.NewInt(int64(rapid.IntRange(-1, 1).Draw(t, "dB"))))
	case 6:
		d = new(big.Int).Sub(q, B)
		d.Add(d, big.NewInt(int64(rapid.IntRange(-2, 1).Draw(t, "dPB"))))
	case 7:
		d = randBelow(t, new(big.Int).Add(bound, big.NewInt(1)), "dwithin")
	case 8:
		d = new(big.Int).Rsh(q, 1)
		d.Add(d, big.NewInt(int64(rapid.IntRange(-1, 1).Draw(t, "dhalf"))))
	default:
		d = randBelow(t, q, "drand")
	}
	if rapid.Bool().Draw(t, "dsign") {
		d.Neg(d)
	}
	b := new(big.Int).Sub(a, d)
	b.Mod(b, q)
	nd := 0
	if allowND {
		nd = 1
	}
	return []int{nd}, bound, dec(a, b)
}

func genLen(t *rapid.T, min int, big_ bool) int {
	if big_ && rapid.IntRange(0, 4).Draw(t, "len-big") == 0 {
		return rapid.SampledFrom([]int{15, 16, 17, 31, 32, 33}).Draw(t, "len")
	}
	return rapid.IntRange(min, 9).Draw(t, "len")
}

// genIndex draws a selector/position for n slots: valid range [0, hi].
func genIndex(t *rapid.T, q *big.Int, n, hi int, label string) *big.Int {
	nb := big.NewInt(int64(n - 1)).BitLen()
	switch rapid.IntRange(0, 9).Draw(t, label+"-kind") {
	case 0:
		return big.NewInt(0)
	case 1:
		return big.NewInt(int64(hi))
	case 2:
		return big.NewInt(int64(hi + 1))
	case 3:
		return new(big.Int).Sub(q, big.NewInt(1))
	case 4:
		v := pow2(nb)
		v.Add(v, big.NewInt(int64(rapid.IntRange(-1, 1).Draw(t, label+"-pd"))))
		return v.Mod(v, q)
	case 5:
		return genElem(t, q, label)
	default:
		return big.NewInt(int64(rapid.IntRange(0, hi).Draw(t, label+"-in")))
	}
}

func genElems(t *rapid.T, q *big.Int, n int, label string) []*big.Int {
	r := make([]*big.Int, n)
	for i := range r {
		if rapid.IntRange(0, 2).Draw(t, label+"-simple") == 0 {
			r[i] = genElem(t, q, label)
		} else {
			r[i] = big.NewInt(int64(100 + 7*i)) // distinct, recognisable
		}
	}
	return r
}

var wordPatterns = []uint64{0, 1, 0xff, 0x80, 0x8000000080000000, 0x7fffffff7fffffff, 0xffffffffffffffff, 0x00000000ffffffff,
	0xffffffff00000000, 0x0101010101010101, 0x8080808080808080, 0xff00ff00ff00ff00, 0x00ff00ff00ff00ff, 0xfffffffffffffffe, 0x0000000100000000}

func genWord(t *rapid.T, w int, label string) uint64 {
	m := wordMask(w)
	switch rapid.IntRange(0, 5).Draw(t, label+"-kind") {
	case 0:
		return rapid.SampledFrom(wordPatterns).Draw(t, label+"-pat") & m
	case 1:
		k := rapid.IntRange(0, w-1).Draw(t, label+"-k")
		v := uint64(1) << uint(k)
		return (v + uint64(rapid.IntRange(-1, 1).Draw(t, label+"-d"))) & m
	case 2:
		return m - uint64(rapid.IntRange(0, 3).Draw(t, label+"-top"))
	default:
		return rapid.Uint64().Draw(t, label+"-rnd") & m
	}
}

var curveGadgets = []string{
	"cmp.IsLess", "cmp.IsLessOrEqual", "cmp.IsEqual", "cmp.IsLessBinary", "cmp.IsLessOrEqualBinary",
	"cmp.IsLess.const", "cmp.IsLessOrEqual.const",
	"bc.AssertIsLess", "bc.AssertIsLessEq", "bc.IsLess", "bc.IsLessEq", "bc.Min",
	"bc.IsLess", "bc.IsLessEq", "bc.Min",
	"sel.Mux", "sel.Map", "sel.BinaryMux", "sel.KeyDecoder", "sel.Decoder", "sel.Slice", "sel.Partition",
	"bitslice.Partition", "bitslice.Partition",
}

func genMapKeys(t *rapid.T, q *big.Int, n int) (query *big.Int, keys []*big.Int) {
	keys = make([]*big.Int, n)
	base := genElem(t, q, "keybase")
	for i := range keys {
		keys[i] = new(big.Int).Add(base, big.NewInt(int64(3*i)))
		keys[i].Mod(keys[i], q)
	}
	if n >= 2 && rapid.IntRange(0, 3).Draw(t, "dupkey") == 0 {
		i, j := rapid.IntRange(0, n-1).Draw(t, "dup-i"), rapid.IntRange(0, n-1).Draw(t, "dup-j")
		keys[i] = new(big.Int).Set(keys[j])
	}
	switch rapid.IntRange(0, 5).Draw(t, "query-kind") {
	case 0:
		query = new(big.Int).Add(keys[rapid.IntRange(0, n-1).Draw(t, "q-near")], big.NewInt(1))
		query.Mod(query, q)
	case 1:
		query = genElem(t, q, "query")
	case 2:
		query = new(big.Int).Set(keys[0])
	case 3:
		query = new(big.Int).Set(keys[n-1])
	default:
		query = new(big.Int).Set(keys[rapid.IntRange(0, n-1).Draw(t, "q-hit")])
	}
	return
}

func genGadgetCase(t *rapid.T, g, field string, q *big.Int) Case {
	c := Case{G: g, Field: field}
	switch g {
	case "cmp.IsLess", "cmp.IsLessOrEqual", "cmp.IsEqual":
		a, b := genPair(t, q)
		c.In = dec(a, b)
	case "cmp.IsLess.const", "cmp.IsLessOrEqual.const", "cmp.IsEqual.const":
		a, b := genPair(t, q)
		c.P = []int{rapid.IntRange(0, 1).Draw(t, "const-side")}
		c.Bound = b.String()
		c.In = dec(a)
	case "cmp.IsLessBinary", "cmp.IsLessOrEqualBinary":
		n := rapid.SampledFrom([]int{1, 2, 3, 8, 64, q.BitLen() - 3, q.BitLen() - 2, q.BitLen() - 1, q.BitLen(), q.BitLen() + 1, q.BitLen() + 6}).Draw(t, "nbits")
		a := make([]*big.Int, 2*n)
		kind := rapid.IntRange(0, 3).Draw(t, "bin-kind")
		for i := 0; i < n; i++ {
			a[i] = big.NewInt(int64(rapid.IntRange(0, 1).Draw(t, "abit")))
		}
		for i := 0; i < n; i++ {
			if kind == 3 {
				a[n+i] = big.NewInt(int64(rapid.IntRange(0, 1).Draw(t, "bbit")))
			} else {
				a[n+i] = new(big.Int).Set(a[i])
			}
		}
		if kind == 1 || kind == 2 {
			pos := rapid.SampledFrom([]int{0, n - 1, n / 2}).Draw(t, "flip-pos")
			a[n+pos] = new(big.Int).Sub(big.NewInt(1), a[pos])
		}
		c.P = []int{n}
		c.In = dec(a...)
	case "bc.AssertIsLess", "bc.AssertIsLessEq", "bc.IsLess", "bc.IsLessEq", "bc.Min":
		p, bound, in := genBounded(t, q)
		c.P, c.Bound, c.In = p, bound.String(), in
	case "sel.Mux":
		n := genLen(t, 1, true)
		c.P = []int{n}
		c.In = dec(append([]*big.Int{genIndex(t, q, n, n-1, "sel")}, genElems(t, q, n, "in")...)...)
	case "sel.Decoder":
		n := genLen(t, 1, true)
		c.P = []int{n}
		c.In = dec(genIndex(t, q, n, n-1, "sel"))
	case "sel.Map":
		n := genLen(t, 1, false)
		query, keys := genMapKeys(t, q, n)
		c.P = []int{n}
		c.In = dec(append(append([]*big.Int{query}, keys...), genElems(t, q, n, "val")...)...)
	case "sel.KeyDecoder":
		n := genLen(t, 1, false)
		query, keys := genMapKeys(t, q, n)
		c.P = []int{n}
		c.In = dec(append([]*big.Int{query}, keys...)...)
	case "sel.BinaryMux":
		k := rapid.IntRange(0, 4).Draw(t, "k")
		in := make([]*big.Int, k)
		for i := range in {
			in[i] = big.NewInt(int64(rapid.IntRange(0, 1).Draw(t, "selbit")))
		}
		c.P = []int{k}
		c.In = dec(append(in, genElems(t, q, 1<<k, "in")...)...)
	case "sel.Partition":
		n := genLen(t, 2, true)
		c.P = []int{n, rapid.IntRange(0, 1).Draw(t, "right")}
		c.In = dec(append([]*big.Int{genIndex(t, q, n, n, "pivot")}, genElems(t, q, n, "in")...)...)
	case "sel.Slice":
		n := genLen(t, 2, true)
		c.P = []int{n}
		st, en := genIndex(t, q, n, n, "start"), genIndex(t, q, n, n, "end")
		if rapid.IntRange(0, 5).Draw(t, "start=end") == 0 {
			en = new(big.Int).Set(st)
		}
		c.In = dec(append([]*big.Int{st, en}, genElems(t, q, n, "in")...)...)
	case "bitslice.Partition":
		fb := q.BitLen()
		digits := rapid.SampledFrom([]int{0, 0, 1, 2, 7, 8, 9, 16, 31, 32, 64, 65, 128, fb - 2, fb - 1, fb, fb, fb + 1, fb + 3}).Draw(t, "digits")
		width := digits
		if digits == 0 || digits >= fb {
			width = fb - 1 // largest split the decomposition path accepts
		}
		split := rapid.SampledFrom([]int{0, 0, 1, 1, 7, 64, width / 2, width - 1, width - 1, width}).Draw(t, "split")
		if split < 0 {
			split = 0
		}
		if split > width {
			split = width - 1
		}
		nocheck := 0
		if digits > 0 && rapid.IntRange(0, 5).Draw(t, "nocheck") == 0 {
			nocheck = 1
		}
		c.P = []int{split, digits, nocheck}
		var v *big.Int
		dw := digits
		if dw == 0 || dw > fb {
			dw = fb
		}
		switch rapid.IntRange(0, 9).Draw(t, "v-kind") {
		case 7:
			v = big.NewInt(int64(rapid.SampledFrom([]int{0, 1, 5}).Draw(t, "v-small")))
		case 8:
			// largest values whose alias v + p still fits fb bits: 2^fb - p - 1 (fits) and 2^fb - p (does not)
			v = new(big.Int).Sub(pow2(fb), q)
			v.Sub(v, big.NewInt(int64(rapid.IntRange(0, 1).Draw(t, "v-alias"))))
		case 9:
			v = new(big.Int).Sub(pow2(split), big.NewInt(1))
		case 0:
			v = new(big.Int).Sub(pow2(dw), big.NewInt(1))
		case 1:
			v = pow2(dw) // one too wide
		case 2:
			v = pow2(dw - 1)
		case 3:
			v = genElem(t, q, "v")
		case 4:
			v = pow2(split)
			v.Add(v, big.NewInt(int64(rapid.IntRange(-1, 1).Draw(t, "vsd"))))
		default:
			v = randBelow(t, pow2(dw), "v-in")
		}
		v.Mod(v, q)
		c.In = dec(v)
	}
	return c
}

func genMode(t *rapid.T, enginePct int) string {
	// rapid's integer draws are biased towards small values: choose among an explicit list instead
	var l []string
	for i := 0; i < 10; i++ {
		switch {
		case i*10 < enginePct:
			l = append(l, "engine")
		case i%2 == 0:
			l = append(l, "r1cs")
		default:
			l = append(l, "scs")
		}
	}
	return l[int(rapid.Uint32().Draw(t, "mode")%10)]
}

func curveFields() []string {
	if ev.Tier() == "thorough" {
		return []string{"bn254", "bls12-377", "bn254", "bls12-377", "bls12-381", "bw6-761"}
	}
	return []string{"bn254", "bls12-377"}
}

func maybeStrat(t *rapid.T, c *Case, q *big.Int, pct int) {
	if c.Mode == "engine" || int(rapid.Uint32().Draw(t, "adv")%100) >= pct {
		return
	}
	menu := stratMenu(c.G, c.P, c.bound(), q)
	if len(menu) == 0 {
		return
	}
	s := menu[rapid.IntRange(0, len(menu)-1).Draw(t, "strat")]
	c.Strat = &s
}

func TestCurvesGadgets(t *testing.T) {
	rec := ev.Get(ID)
	rec.SetRule(ruleCurves)
	fields := curveFields()
	rec.Check(t, "gadget", ev.N(8000, 400000), func(rt *rapid.T) {
		field := rapid.SampledFrom(fields).Draw(rt, "field")
		q := fieldByName(field).Q
		g := rapid.SampledFrom(curveGadgets).Draw(rt, "gadget")
		c := genGadgetCase(rt, g, field, q)
		c.Mode = genMode(rt, 50)
		maybeStrat(rt, &c, q, 40)
		rec.Begin("gadget", c)
		rec.Report(rt, "gadget", c, run(c))
	})
}

// ---- uints ---------------------------------------------------------------------

func genUintsCase(t *rapid.T, field string, masks []int, widths []int) Case {
	w := rapid.SampledFrom(widths).Draw(t, "w")
	g := "uints.U32"
	if w == 64 {
		g = "uints.U64"
	}
	mask := rapid.SampledFrom(masks).Draw(t, "mask")
	x := genWord(t, w, "x")
	var y uint64
	switch rapid.IntRange(0, 4).Draw(t, "y-kind") {
	case 0:
		y = (^x + 1) & wordMask(w) // x + y wraps to 0
	case 1:
		y = ^x & wordMask(w) // x + y = 2^w - 1
	case 2:
		y = x
	default:
		y = genWord(t, w, "y")
	}
	z := genWord(t, w, "z")
	b := uint64(rapid.SampledFrom([]int{0, 1, 0x7f, 0x80, 0xff, 0x55, 0xaa}).Draw(t, "b"))
	return Case{G: g, Field: field, P: []int{mask},
		In: dec(new(big.Int).SetUint64(x), new(big.Int).SetUint64(y), new(big.Int).SetUint64(z), new(big.Int).SetUint64(b))}
}

const uArith = uAdd | uLrot | uRshift | uPack // no 65536-entry table

func logicMasks() []int {
	if ev.Tier() == "thorough" {
		return []int{uXor | uChain, uAnd, uOr, uXor | uChain | uAdd | uLrot | uRshift}
	}
	return []int{uXor | uChain, uAnd, uOr}
}

// TestCurvesUintsArith: Add / Lrot (every amount) / Rshift (every amount) /
// Pack / Unpack / ValueOf / ToValue, engine and compiled, honest and adversary.
func TestCurvesUintsArith(t *testing.T) {
	rec := ev.Get(ID)
	rec.SetRule(ruleCurves)
	rec.Assume("std/math/uints has no per-method documentation: the oracle is the usual meaning of And/Or/Xor/Not/Add (mod 2^w)/Lrot/Rshift/Pack*/Unpack*/ValueOf/ToValue on w-bit words, for in-range inputs only")
	rec.Check(t, "gadget", ev.N(600, 30000), func(rt *rapid.T) {
		field := rapid.SampledFrom([]string{"bn254", "bls12-377"}).Draw(rt, "field")
		c := genUintsCase(rt, field, []int{uArith, uAdd, uAdd | uPack}, []int{32, 64})
		c.Mode = genMode(rt, 40)
		maybeStrat(rt, &c, fieldByName(field).Q, 60)
		rec.Begin("gadget", c)
		rec.Report(rt, "gadget", c, run(c))
	})
}

// TestCurvesUintsLogic: And / Or / Xor / Not through the byte lookup tables
// (three 65536-entry tables per circuit) and the hash-style chain.
func TestCurvesUintsLogic(t *testing.T) {
	rec := ev.Get(ID)
	rec.SetRule(ruleCurves)
	rec.Check(t, "gadget", ev.N(24, 1600), func(rt *rapid.T) {
		c := genUintsCase(rt, "bn254", logicMasks(), []int{32, 64})
		c.Mode = genMode(rt, 40)
		if ev.Tier() == "quick" && c.Mode != "engine" {
			// compiling a 65536-entry table costs seconds: the quick tier compiles four systems only
			c.G = "uints.U32"
			for i := 0; i < 3; i++ {
				v, _ := new(big.Int).SetString(c.In[i], 10)
				c.In[i] = v.And(v, big.NewInt(0xffffffff)).String()
			}
			if c.Mode == "scs" {
				c.P = []int{uXor | uChain}
			}
		}
		maybeStrat(rt, &c, fieldByName("bn254").Q, 50)
		rec.Begin("gadget", c)
		rec.Report(rt, "gadget", c, run(c))
	})
}

// TestCurvesWidthBoundary enumerates, on bn254 and bls12-377 and both builders,
// the region where a declared width meets the field bit length: there a value
// v and v + p both fit the width, so every decomposition must be pinned to the
// canonical one. bitslice.Partition: nbDigits in {fb-2, fb-1, fb, fb+1, fb+3}
// x split in {1, 7, 64, fb-1} x v in {0, 1, 5, 2^split-1, 2^fb-p-1, 2^fb-p};
// IsLessBinary / IsLessOrEqualBinary: bit counts fb-3 .. fb+2 with operands that
// differ in the top bits or are >= p as binary numbers. Honest in the three
// modes, then every strategy of the gadget's menu (among them the slices /
// bits of v + p) on R1CS and SCS.
func TestCurvesWidthBoundary(t *testing.T) {
	rec := ev.Get(ID)
	rec.SetRule("width boundary: deterministic grid on bn254 and bls12-377 of bitslice.Partition with nbDigits around the field bit length (fb-2..fb+3) x split {1,7,64,fb-1} x v {0,1,5,2^split-1,2^fb-p-1,2^fb-p} and of IsLess(OrEqual)Binary with fb-3..fb+2 bits, honest in engine/R1CS/SCS and under every menu strategy (incl. the decomposition of v+p) on R1CS/SCS")
	e := newEnum(t)
	e.group(1, 1)
	both := func(c Case, q *big.Int) {
		for _, mode := range allModes {
			cc := c
			cc.Mode = mode
			e.do(cc)
		}
		menu := stratMenu(c.G, c.P, c.bound(), q)
		for _, mode := range compiledModes {
			for i := range menu {
				cc := c
				cc.Mode = mode
				st := menu[i]
				cc.Strat = &st
				e.do(cc)
			}
		}
	}
	for _, field := range []string{"bn254", "bls12-377"} {
		q := fieldByName(field).Q
		fb := q.BitLen()
		e.group(1, 1)
		for _, digits := range []int{fb - 2, fb - 1, fb, fb + 1, fb + 3} {
			for _, split := range []int{1, 7, 64, fb - 1} {
				vs := []*big.Int{big.NewInt(0), big.NewInt(1), big.NewInt(5),
					new(big.Int).Sub(pow2(split), big.NewInt(1)),
					new(big.Int).Sub(new(big.Int).Sub(pow2(fb), q), big.NewInt(1)),
					new(big.Int).Sub(pow2(fb), q)}
				for _, v := range vs {
					both(Case{G: "bitslice.Partition", Field: field, P: []int{split, digits, 0}, In: dec(new(big.Int).Mod(v, q))}, q)
				}
			}
		}
		e.group(2, 1)
		for _, g := range []string{"cmp.IsLessBinary", "cmp.IsLessOrEqualBinary"} {
			for n := fb - 3; n <= fb+2; n++ {
				ones := new(big.Int).Sub(pow2(n), big.NewInt(1))
				pm1 := new(big.Int).Sub(q, big.NewInt(1))
				pairs := [][2]*big.Int{
					{ones, ones},
					{new(big.Int).Sub(ones, pow2(n-1)), ones}, // differ in the top bit only
					{ones, new(big.Int).Sub(ones, pow2(n-1))},
					{new(big.Int).Sub(ones, pow2(n-2)), ones},
					{ones, new(big.Int).Sub(ones, pow2(n-3))},
					{pow2(n - 1), new(big.Int).Sub(pow2(n-1), big.NewInt(1))},
					{big.NewInt(0), big.NewInt(1)},
					{pm1, q}, // p-1 against p as binary numbers (p only fits from fb bits on)
					{q, pm1},
					{q, new(big.Int).Add(q, big.NewInt(1))},
				}
				for _, pr := range pairs {
					if pr[0].BitLen() > n || pr[1].BitLen() > n {
						continue
					}
					in := make([]*big.Int, 2*n)
					for i := 0; i < n; i++ {
						in[i] = big.NewInt(int64(pr[0].Bit(i)))
						in[n+i] = big.NewInt(int64(pr[1].Bit(i)))
					}
					both(Case{G: g, Field: field, P: []int{n}, In: dec(in...)}, q)
				}
			}
		}
	}
	rec.AddExtra("width_boundary_cases", e.done)
}

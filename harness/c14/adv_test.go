package c14

// Hint-adversary strategies: JSON-describable rewrites of the outputs of one
// gadget hint (the power a dishonest prover has).

import (
	"fmt"
	"math/big"
	"strings"
	"sync"

	"verifharness/lib/hintadv"

	"github.com/consensys/gnark/constraint/solver"
)

// hintTable caches (id, name, function) of every registered hint: looking the
// names up through reflection for each of several hundred thousand solves is
// what hintadv.Options would do.
type hintEntry struct {
	id   solver.HintID
	name string
	fn   solver.Hint
}

var (
	hintTableOnce sync.Once
	hintTable     []hintEntry
	hashCommit    solver.Option
)

func loadHintTable() {
	for _, h := range solver.GetRegisteredHints() {
		hintTable = append(hintTable, hintEntry{id: solver.GetHintID(h), name: solver.GetHintName(h), fn: h})
	}
	hashCommit = hintadv.HashCommitment()
}

// advSession mirrors hintadv.Session for the locally built options.
type advSession struct {
	mu      sync.Mutex
	seq     map[solver.HintID]int
	Changed int
}

// advOptions is hintadv.Options restricted to the hints whose name ends in
// suffix, built from the cached table (same wrapping semantics: the genuine
// hint runs first, then the strategy may rewrite its outputs).
func advOptions(strat hintadv.Strategy, suffix string) (*advSession, []solver.Option) {
	hintTableOnce.Do(loadHintTable)
	s := &advSession{seq: map[solver.HintID]int{}}
	var opts []solver.Option
	for _, e := range hintTable {
		if !strings.HasSuffix(e.name, suffix) {
			continue
		}
		e := e
		opts = append(opts, solver.OverrideHint(e.id, func(mod *big.Int, in, out []*big.Int) error {
			err := e.fn(mod, in, out)
			s.mu.Lock()
			k := s.seq[e.id]
			s.seq[e.id] = k + 1
			s.mu.Unlock()
			c := &hintadv.Call{ID: e.id, Name: e.name, Seq: k, Mod: mod, Inputs: in, Outputs: out, Err: err}
			if strat(c) {
				s.mu.Lock()
				s.Changed++
				s.mu.Unlock()
				for i := range out {
					out[i].Mod(out[i], mod)
				}
			}
			return c.Err
		}))
	}
	return s, opts
}

func (s *Strat) compile() (hintadv.Strategy, error) {
	delta := make([]*big.Int, len(s.Delta))
	for i, d := range s.Delta {
		v, ok := new(big.Int).SetString(d, 10)
		if !ok {
			return nil, fmt.Errorf("bad delta %q", d)
		}
		delta[i] = v
	}
	op := s.Op
	seq := s.Seq
	switch op {
	case "flip", "zero", "rot", "rotl", "add", "set", "other", "alias", "aliaspart", "scale":
	default:
		return nil, fmt.Errorf("unknown strategy op %q", op)
	}
	return func(c *hintadv.Call) bool {
		if seq >= 0 && c.Seq != seq {
			return false
		}
		if c.Err != nil {
			return false
		}
		o := c.Outputs
		before := make([]*big.Int, len(o))
		for i := range o {
			before[i] = new(big.Int).Set(o[i])
		}
		switch op {
		case "flip": // every indicator / mask element x -> 1-x
			for i := range o {
				o[i].Sub(big.NewInt(1), o[i])
			}
		case "zero":
			for i := range o {
				o[i].SetUint64(0)
			}
		case "rot": // shift the vector one position towards higher indices
			for i := range o {
				o[i].Set(before[(i+len(o)-1)%len(o)])
			}
		case "rotl":
			for i := range o {
				o[i].Set(before[(i+1)%len(o)])
			}
		case "add":
			for i := range o {
				if i < len(delta) {
					o[i].Add(o[i], delta[i])
				}
			}
		case "set":
			for i := range o {
				if i < len(delta) {
					o[i].Set(delta[i])
				}
			}
		case "other": // a two-input selection hint returns the other operand
			if len(c.Inputs) < 2 || len(o) < 1 {
				return false
			}
			o[0].Add(c.Inputs[0], c.Inputs[1])
			o[0].Sub(o[0], before[0])
		case "alias": // binary decomposition of v + modulus instead of v
			if len(c.Inputs) < 1 {
				return false
			}
			t := new(big.Int).Add(c.Inputs[0], c.Mod)
			if t.BitLen() > len(o) {
				return false
			}
			for i := range o {
				o[i].SetUint64(uint64(t.Bit(i)))
			}
		case "aliaspart": // bitslice.partitionHint(split, v) -> (upper, lower): the slices of v + modulus
			if len(c.Inputs) < 2 || len(o) < 2 || !c.Inputs[0].IsUint64() || c.Inputs[0].Uint64() > 4096 {
				return false
			}
			t := new(big.Int).Add(c.Inputs[1], c.Mod)
			pw := new(big.Int).Lsh(big.NewInt(1), uint(c.Inputs[0].Uint64()))
			o[0].QuoRem(t, pw, o[1])
		case "scale":
			for i := range o {
				o[i].Lsh(o[i], 1)
			}
		}
		changed := false
		for i := range o {
			o[i].Mod(o[i], c.Mod)
			if o[i].Cmp(before[i]) != 0 {
				changed = true
			}
		}
		return changed
	}, nil
}

func ds(v ...int64) []string {
	r := make([]string, len(v))
	for i := range v {
		r[i] = fmt.Sprint(v[i])
	}
	return r
}

// stratMenu lists, for a gadget and its static parameters, the strategies on
// the hints the gadget uses. nOutHint-dependent vectors are derived from p.
func stratMenu(g string, p []int, bound *big.Int, q *big.Int) []Strat {
	var r []Strat
	one := func(h, op string, d ...string) { r = append(r, Strat{Hint: h, Seq: -1, Op: op, Delta: d}) }
	unit := func(n, i int, v int64) []string {
		d := make([]int64, n)
		d[i] = v
		return ds(d...)
	}
	bitsAlias := func() {
		one("bits.nBits", "alias")
		r = append(r, Strat{Hint: "bits.nBits", Seq: 0, Op: "alias"})
		r = append(r, Strat{Hint: "bits.nBits", Seq: 1, Op: "alias"})
		one("bits.nBits", "add", "1")
		one("bits.nBits", "add", "2", "-1")
	}
	switch g {
	case "cmp.IsLess", "cmp.IsLessOrEqual", "cmp.IsLessBinary", "cmp.IsLessOrEqualBinary":
		one("cmp.isLessOutputHint", "flip")
		one("cmp.isLessOutputHint", "add", "1")
		one("cmp.isLessOutputHint", "set", "2")
		if g == "cmp.IsLess" || g == "cmp.IsLessOrEqual" {
			bitsAlias()
		}
		one("bits.nBits", "flip")
	case "cmp.IsLess.const", "cmp.IsLessOrEqual.const":
		bitsAlias()
		one("bits.nBits", "flip")
	case "cmp.IsEqual", "cmp.IsEqual.const":
		// api.IsZero hint lives in gnark internals (name differs per builder): matched by suffix below
		one("solver.InvZeroHint", "zero")
		one("solver.InvZeroHint", "add", "1")
	case "bc.IsLess", "bc.IsLessEq":
		one("cmp.isLessOutputHint", "flip")
		one("cmp.isLessOutputHint", "add", "1")
		one("cmp.isLessOutputHint", "set", "2")
		one("cmp.isLessOutputHint", "set", new(big.Int).Sub(q, big.NewInt(1)).String())
		one("bits.nBits", "add", "1")
		one("bits.nBits", "flip")
	case "bc.Min":
		one("cmp.minOutputHint", "other")
		one("cmp.minOutputHint", "add", "1")
		one("cmp.minOutputHint", "add", "-1")
		one("cmp.minOutputHint", "zero")
		one("bits.nBits", "add", "1")
	case "bc.AssertIsLess", "bc.AssertIsLessEq":
		one("bits.nBits", "add", "1")
		one("bits.nBits", "flip")
		one("bits.nBits", "zero")
		one("bits.nBits", "add", "2", "-1")
	case "sel.Mux":
		// non power of two lengths use a bounded comparison and nested binary muxes (bits hints only)
		one("bits.nBits", "flip")
		one("bits.nBits", "zero")
		one("bits.nBits", "add", "1")
		one("bits.nBits", "add", "2", "-1")
		r = append(r, Strat{Hint: "bits.nBits", Seq: 0, Op: "add", Delta: []string{"-1"}})
	case "sel.Map", "sel.KeyDecoder", "sel.Decoder":
		h := "selector.mapIndicators"
		if g == "sel.Decoder" {
			h = "selector.muxIndicators"
		}
		n := p[0]
		one(h, "flip")
		one(h, "zero")
		one(h, "rot")
		one(h, "rotl")
		one(h, "scale")
		for i := 0; i < n; i++ {
			one(h, "add", unit(n, i, 1)...)
		}
		if n >= 2 {
			// two-hot keeping the sum: +1 at i, -1 at j
			for i := 0; i < n; i++ {
				j := (i + 1) % n
				d := make([]int64, n)
				d[i], d[j] = 1, -1
				one(h, "add", ds(d...)...)
				d[i], d[j] = 2, -2
				one(h, "add", ds(d...)...)
			}
			// one-hot elsewhere: explicit vectors
			for i := 0; i < n; i++ {
				one(h, "set", unit(n, i, 1)...)
			}
		}
	case "sel.Partition", "sel.Slice":
		h := "selector.stepOutput"
		n := p[0]
		seqs := []int{-1}
		if g == "sel.Slice" {
			seqs = []int{-1, 0, 1}
		}
		for _, sq := range seqs {
			add := func(op string, d ...string) { r = append(r, Strat{Hint: h, Seq: sq, Op: op, Delta: d}) }
			add("flip")
			add("zero")
			add("rot")
			add("rotl")
			add("scale")
			add("add", unit(n, n-1, 1)...)
			add("add", unit(n, n-1, -1)...)
			add("add", unit(n, 0, 1)...)
			add("add", unit(n, 0, -1)...)
			ones := make([]int64, n)
			for i := range ones {
				ones[i] = 1
			}
			add("set", ds(ones...)...)
			for i := 1; i < n-1; i++ {
				add("add", unit(n, i, 1)...)
				add("add", unit(n, i, -1)...)
			}
			// every step function 1..1 0..0 and 0..0 1..1
			for k := 0; k <= n; k++ {
				a, b := make([]int64, n), make([]int64, n)
				for i := 0; i < n; i++ {
					if i < k {
						a[i] = 1
					} else {
						b[i] = 1
					}
				}
				add("set", ds(a...)...)
				add("set", ds(b...)...)
			}
		}
	case "uints.U32", "uints.U64":
		w := 32
		if g == "uints.U64" {
			w = 64
		}
		pw := new(big.Int).Lsh(big.NewInt(1), uint(w))
		npw := new(big.Int).Neg(pw)
		for _, sq := range []int{-1, 0, 1, 2, 3, 5, 8, 13, 21, 34} {
			add := func(h, op string, d ...string) { r = append(r, Strat{Hint: h, Seq: sq, Op: op, Delta: d}) }
			if p[0]&(uAdd|uLrot|uRshift|uChain) != 0 {
				// partitionHint outputs are (upper, lower)
				add("bitslice.partitionHint", "add", "0", "1")
				add("bitslice.partitionHint", "add", "0", "-1")
				add("bitslice.partitionHint", "add", "1", "0")
				add("bitslice.partitionHint", "add", "-1", pw.String())
				add("bitslice.partitionHint", "add", "1", npw.String())
				for _, sh := range []uint{1, 3, 4, 7} {
					add("bitslice.partitionHint", "add", "-1", new(big.Int).Lsh(big.NewInt(1), sh).String())
				}
				add("bitslice.partitionHint", "zero")
				add("bitslice.partitionHint", "rot")
			}
			add("uints.toBytes", "add", "256", "-1")
			add("uints.toBytes", "add", "-256", "1")
			add("uints.toBytes", "add", "1")
			add("uints.toBytes", "rot")
			add("rangecheck.DecomposeHint", "add", "1")
			add("rangecheck.DecomposeHint", "add", "-1")
			if p[0]&uTables != 0 {
				var hs []string
				if p[0]&(uXor|uChain) != 0 {
					hs = append(hs, "uints.xorHint")
				}
				if p[0]&uAnd != 0 {
					hs = append(hs, "uints.andHint")
				}
				if p[0]&uOr != 0 {
					hs = append(hs, "uints.orHint")
				}
				for _, h := range hs {
					add(h, "add", "1")
					add(h, "flip")
					add(h, "add", "256")
				}
				add("logderivarg.countHint", "add", "1")
			}
		}
	case "bitslice.Partition":
		split := p[0]
		pow := new(big.Int).Lsh(big.NewInt(1), uint(split))
		npow := new(big.Int).Neg(pow)
		// the slices of v + p (only satisfiable if the width reaches the field bit length and nothing stops the overflow)
		one("bitslice.partitionHint", "aliaspart")
		if p[1] == 0 || p[1] >= q.BitLen() {
			// binary-decomposition path: no partition / range-check hints are expected to run
			bitsAlias()
			one("bits.nBits", "flip")
			one("bits.nBits", "zero")
			break
		}
		// partitionHint outputs are (upper, lower)
		one("bitslice.partitionHint", "add", "-1", pow.String())
		one("bitslice.partitionHint", "add", "1", npow.String())
		one("bitslice.partitionHint", "add", "0", "1")
		one("bitslice.partitionHint", "add", "1", "0")
		one("bitslice.partitionHint", "add", "0", "-1")
		one("bitslice.partitionHint", "zero")
		one("bitslice.partitionHint", "rot")
		one("rangecheck.DecomposeHint", "add", "1")
		bitsAlias()
		one("bits.nBits", "flip")
	}
	return r
}

package c14

// std/math/uints: U8/U32/U64 And/Or/Xor/Not/Add/Lrot/Rshift/Pack*/Unpack*/
// ValueOf/ToValue. The package has almost no doc comments; the oracle is the
// mathematical meaning of the operation names on w-bit words (what the
// property statement prescribes), and only in-range inputs are generated.
//
// One circuit evaluates a list of operations (selected by a bit mask so that
// the 65536-entry lookup tables are only built when a logic operation is
// present) on three words x, y, z and a byte b obtained through ValueOf /
// ByteValueOf, and exposes every result byte as a separate output.

import (
	"math/big"
	"math/bits"

	"github.com/consensys/gnark/frontend"
	"github.com/consensys/gnark/std/math/uints"
)

// operation groups (P[0] bit mask)
const (
	uXor    = 1   // Xor (2, 3 operands, constant operand), Not, ToValue(Xor)  [xor table]
	uAdd    = 2   // Add (2, 3, 4 operands, constant operand)
	uLrot   = 4   // Lrot by every amount in (-w, w)
	uRshift = 8   // Rshift by every amount in [0, w)
	uPack   = 16  // Pack*/Unpack*/ToValue/constants
	uChain  = 32  // Add(Xor(x,y), Lrot(z,7), Not(x)) as in the hash gadgets, Add(Lrot, Rshift)  [xor table]
	uAnd    = 64  // And (2, 3 operands, byte operand)  [and table]
	uOr     = 128 // Or (2, 3 operands)  [or table]
	uTables = uXor | uChain | uAnd | uOr
)

const uConst = 0xDEADBEEFCAFEF00D

type uop struct {
	kind string
	c    int
}

func uintsOps(w, mask int) []uop {
	var r []uop
	if mask&uXor != 0 {
		for _, k := range []string{"xor2", "xor3", "not", "xorconst", "tovaluexor"} {
			r = append(r, uop{kind: k})
		}
	}
	if mask&uAnd != 0 {
		for _, k := range []string{"and2", "and3", "andbyte"} {
			r = append(r, uop{kind: k})
		}
	}
	if mask&uOr != 0 {
		for _, k := range []string{"or2", "or3"} {
			r = append(r, uop{kind: k})
		}
	}
	if mask&uAdd != 0 {
		for _, k := range []string{"add2", "add3", "addconst", "addself4"} {
			r = append(r, uop{kind: k})
		}
	}
	if mask&uLrot != 0 {
		for c := -(w - 1); c < w; c++ {
			r = append(r, uop{kind: "lrot", c: c})
		}
	}
	if mask&uRshift != 0 {
		for c := 0; c < w; c++ {
			r = append(r, uop{kind: "rshift", c: c})
		}
	}
	if mask&uPack != 0 {
		for _, k := range []string{"packunpackmsb", "packlsbunpackmsb", "unpackmsb", "unpacklsb", "tovalue", "newconst"} {
			r = append(r, uop{kind: k})
		}
	}
	if mask&uChain != 0 {
		r = append(r, uop{kind: "chain"}, uop{kind: "addrot"})
	}
	return r
}

// nOutputs of an op for l bytes per word.
func (o uop) nOut(l int) int {
	if o.kind == "tovalue" || o.kind == "tovaluexor" {
		return 1
	}
	return l
}

func wordMask(w int) uint64 {
	if w == 64 {
		return ^uint64(0)
	}
	return (uint64(1) << uint(w)) - 1
}

func rotl(x uint64, c, w int) uint64 {
	c = ((c % w) + w) % w
	if w == 64 {
		return bits.RotateLeft64(x, c)
	}
	return uint64(bits.RotateLeft32(uint32(x), c))
}

func bswap(x uint64, w int) uint64 {
	if w == 64 {
		return bits.ReverseBytes64(x)
	}
	return uint64(bits.ReverseBytes32(uint32(x)))
}

func rep(b uint64, w int) uint64 {
	var r uint64
	for i := 0; i < w/8; i++ {
		r |= b << (8 * uint(i))
	}
	return r
}

// evalUop is the reference: result as a list of output values.
func evalUop(o uop, w int, x, y, z, b uint64) []*big.Int {
	m := wordMask(w)
	l := w / 8
	word := func(v uint64) []*big.Int {
		v &= m
		r := make([]*big.Int, l)
		for i := range r {
			r[i] = new(big.Int).SetUint64((v >> (8 * uint(i))) & 0xff)
		}
		return r
	}
	rev := func(v []*big.Int) []*big.Int {
		r := make([]*big.Int, len(v))
		for i := range v {
			r[len(v)-1-i] = v[i]
		}
		return r
	}
	switch o.kind {
	case "and2":
		return word(x & y)
	case "or2":
		return word(x | y)
	case "xor2":
		return word(x ^ y)
	case "and3":
		return word(x & y & z)
	case "or3":
		return word(x | y | z)
	case "xor3":
		return word(x ^ y ^ z)
	case "not":
		return word(^x)
	case "xorconst":
		return word(x ^ uConst)
	case "andbyte":
		return word(x & rep(b, w))
	case "add2":
		return word(x + y)
	case "add3":
		return word(x + y + z)
	case "addconst":
		return word(x + (uConst & m))
	case "addself4":
		return word(4 * x)
	case "lrot":
		return word(rotl(x, o.c, w))
	case "rshift":
		return word((y & m) >> uint(o.c))
	case "packunpackmsb":
		return word(x)
	case "packlsbunpackmsb":
		return word(bswap(z&m, w))
	case "unpackmsb":
		return rev(word(x))
	case "unpacklsb":
		return word(y)
	case "tovalue":
		return []*big.Int{new(big.Int).SetUint64(x & m)}
	case "tovaluexor":
		return []*big.Int{new(big.Int).SetUint64((x ^ y) & m)}
	case "newconst":
		return word(uConst)
	case "chain":
		return word(((x ^ y) & m) + rotl(z&m, 7, w) + (^x & m))
	case "addrot":
		return word(rotl(x&m, 3, w) + ((y & m) >> 5))
	}
	panic("unknown uints op " + o.kind)
}

func buildUints[T uints.Long](api frontend.API, w int, p []int, in []frontend.Variable) []frontend.Variable {
	bf, err := uints.New[T](api)
	if err != nil {
		panic(err)
	}
	l := w / 8
	x, y, z := bf.ValueOf(in[0]), bf.ValueOf(in[1]), bf.ValueOf(in[2])
	b := bf.ByteValueOf(in[3])
	var outs []frontend.Variable
	emit := func(t T) {
		for i := 0; i < l; i++ {
			outs = append(outs, t[i].Val)
		}
	}
	emitBytes := func(v []uints.U8) {
		for i := range v {
			outs = append(outs, v[i].Val)
		}
	}
	cst := func(v uint64) T {
		bs := make([]uints.U8, l)
		for i := range bs {
			bs[i] = uints.NewU8(uint8(v >> (8 * uint(i))))
		}
		return bf.PackLSB(bs...)
	}
	for _, o := range uintsOps(w, p[0]) {
		switch o.kind {
		case "and2":
			emit(bf.And(x, y))
		case "or2":
			emit(bf.Or(x, y))
		case "xor2":
			emit(bf.Xor(x, y))
		case "and3":
			emit(bf.And(x, y, z))
		case "or3":
			emit(bf.Or(x, y, z))
		case "xor3":
			emit(bf.Xor(x, y, z))
		case "not":
			emit(bf.Not(x))
		case "xorconst":
			emit(bf.Xor(x, cst(uConst)))
		case "andbyte":
			bs := make([]uints.U8, l)
			for i := range bs {
				bs[i] = b
			}
			emit(bf.And(x, bf.PackMSB(bs...)))
		case "add2":
			emit(bf.Add(x, y))
		case "add3":
			emit(bf.Add(x, y, z))
		case "addconst":
			emit(bf.Add(x, cst(uConst)))
		case "addself4":
			emit(bf.Add(x, x, x, x))
		case "lrot":
			emit(bf.Lrot(x, o.c))
		case "rshift":
			emit(bf.Rshift(y, o.c))
		case "packunpackmsb":
			emit(bf.PackMSB(bf.UnpackMSB(x)...))
		case "packlsbunpackmsb":
			emit(bf.PackLSB(bf.UnpackMSB(z)...))
		case "unpackmsb":
			emitBytes(bf.UnpackMSB(x))
		case "unpacklsb":
			emitBytes(bf.UnpackLSB(y))
		case "tovalue":
			outs = append(outs, bf.ToValue(bf.PackLSB(bf.UnpackLSB(x)...)))
		case "tovaluexor":
			outs = append(outs, bf.ToValue(bf.Xor(x, y)))
		case "newconst":
			emit(cst(uConst))
		case "chain":
			emit(bf.Add(bf.Xor(x, y), bf.Lrot(z, 7), bf.Not(x)))
		case "addrot":
			emit(bf.Add(bf.Lrot(x, 3), bf.Rshift(y, 5)))
		default:
			panic("unknown uints op " + o.kind)
		}
	}
	return outs
}

func init() {
	for _, w := range []int{32, 64} {
		w := w
		name := "uints.U32"
		if w == 64 {
			name = "uints.U64"
		}
		gadgets[name] = &gadget{
			shape: func(p []int) (int, int) {
				n := 0
				for _, o := range uintsOps(w, p[0]) {
					n += o.nOut(w / 8)
				}
				return 4, n
			},
			build: func(api frontend.API, p []int, _ *big.Int, in []frontend.Variable) []frontend.Variable {
				if w == 32 {
					return buildUints[uints.U32](api, w, p, in)
				}
				return buildUints[uints.U64](api, w, p, in)
			},
			spec: func(p []int, _ *big.Int, q *big.Int, in []*big.Int) Spec {
				for i := 0; i < 3; i++ {
					if in[i].BitLen() > w {
						return Spec{Skip: "uints.ValueOf of a value wider than the word (undocumented)"}
					}
				}
				if in[3].BitLen() > 8 {
					return Spec{Skip: "uints.ByteValueOf of a value wider than a byte (undocumented)"}
				}
				x, y, z, b := in[0].Uint64(), in[1].Uint64(), in[2].Uint64(), in[3].Uint64()
				var outs []*big.Int
				for _, o := range uintsOps(w, p[0]) {
					outs = append(outs, evalUop(o, w, x, y, z, b)...)
				}
				s := Spec{Kind: kExact, MustSat: true, Outs: outs}
				m := wordMask(w)
				s.Classes = append(s.Classes, "i:uints-mask="+itoa(p[0]))
				for i, v := range []uint64{x, y, z} {
					nm := string(rune('x' + i))
					switch {
					case v == 0:
						s.Classes = append(s.Classes, nm+"=0")
					case v == m:
						s.Classes = append(s.Classes, nm+"=2^w-1")
					case v&(v-1) == 0 || (v+1)&v == 0:
						s.Classes = append(s.Classes, nm+"~2^k")
					}
				}
				if p[0]&uAdd != 0 {
					if x+y < x || (x+y)&m != x+y {
						s.Classes = append(s.Classes, "add-carries-out")
					}
					if (x+y)&m == 0 && x != 0 {
						s.Classes = append(s.Classes, "add-wraps-to-0")
					}
				}
				for i := 0; i < w/8; i++ {
					if (x>>(8*uint(i)))&0xff == 0xff {
						s.Classes = append(s.Classes, "x-has-0xff-byte")
						break
					}
				}
				return s
			},
		}
	}
}

func itoa(i int) string { return new(big.Int).SetInt64(int64(i)).String() }

package c14

// Gadget registry: how each gadget is instantiated in a circuit and what the
// documentation says about its result (the oracle). Everything here is written
// from the doc comments of the gadget packages, not from their code.

import (
	"fmt"
	"math/big"

	"github.com/consensys/gnark/frontend"
	"github.com/consensys/gnark/std/math/bitslice"
	"github.com/consensys/gnark/std/math/cmp"
	"github.com/consensys/gnark/std/selector"
)

type specKind int

const (
	kExact         specKind = iota // satisfiable (if MustSat) and the output is exactly Outs
	kUnsat                         // the documentation promises that no proof can be generated
	kUnsatOr                       // "either a proof can not be generated or the result is Outs"
	kPred                          // any satisfying output must satisfy Pred (Outs = expected genuine result, may be nil)
	kUndefined                     // documented as undefined: nothing asserted
	kDeterministic                 // "unsatisfiable or some well-defined deterministic output": at most one output is accepted (Outs = first guess)
)

// Spec is the documented behaviour of a gadget on one input.
type Spec struct {
	Kind    specKind
	Outs    []*big.Int
	Pred    func(o []*big.Int) bool
	MustSat bool
	Classes []string     // boundary classes of the input (non-empty => non-trivial)
	Wrong   [][]*big.Int // gadget-specific plausible wrong outputs
	Skip    string       // input/configuration outside the generated domain
}

func (s Spec) allowed(o []*big.Int) bool {
	switch s.Kind {
	case kExact, kUnsatOr:
		return eqVals(o, s.Outs)
	case kUnsat:
		return false
	case kPred:
		return s.Pred(o)
	}
	return true
}

// boundary reports whether the input is in a boundary class (labels prefixed
// "i:" are informational only).
func (s Spec) boundary() bool {
	for _, c := range s.Classes {
		if len(c) < 2 || c[:2] != "i:" {
			return true
		}
	}
	return false
}

func (s Spec) zone() string {
	switch s.Kind {
	case kExact:
		return "exact"
	case kUnsat:
		return "unsat-promised"
	case kUnsatOr:
		return "unsat-or-correct"
	case kPred:
		return "predicate"
	case kDeterministic:
		return "unsat-or-deterministic"
	}
	return "undefined"
}

func (s Spec) promise() string {
	switch s.Kind {
	case kExact:
		return "exactly " + fmtVals(s.Outs)
	case kUnsat:
		return "that no proof can be generated"
	case kUnsatOr:
		return "unsatisfiable or " + fmtVals(s.Outs)
	case kPred:
		return "an output satisfying the documented relation (genuine result " + fmtVals(s.Outs) + ")"
	case kDeterministic:
		return "unsatisfiable or one deterministic output"
	}
	return "nothing"
}

type gadget struct {
	shape func(p []int) (nIn, nOut int)
	build func(api frontend.API, p []int, bound *big.Int, in []frontend.Variable) []frontend.Variable
	spec  func(p []int, bound *big.Int, q *big.Int, in []*big.Int) Spec
}

var gadgets = map[string]*gadget{}

func bi(x int64) *big.Int { return big.NewInt(x) }

func b2i(b bool) *big.Int {
	if b {
		return bi(1)
	}
	return bi(0)
}

func vals(v ...*big.Int) []*big.Int { return v }

func modSub(a, b, q *big.Int) *big.Int {
	r := new(big.Int).Sub(a, b)
	return r.Mod(r, q)
}

// valueClasses labels boundary values of a single operand.
func valueClasses(name string, v, q *big.Int) []string {
	var r []string
	if v.Sign() == 0 {
		r = append(r, name+"=0")
	}
	if new(big.Int).Add(v, bi(1)).Cmp(q) == 0 {
		r = append(r, name+"=p-1")
	}
	// straddling a power of two: v in {2^k-1, 2^k, 2^k+1} with k >= 2
	for _, d := range []int64{-1, 0, 1} {
		t := new(big.Int).Add(v, bi(d))
		if t.Sign() > 0 && t.BitLen() >= 3 && new(big.Int).And(t, new(big.Int).Sub(t, bi(1))).Sign() == 0 {
			r = append(r, name+"~2^k")
			break
		}
	}
	return r
}

func init() {
	// ---------------- generic comparison (std/math/cmp/generic.go) ----------------
	// "returns 1 if a < b, and returns 0 if a >= b. a and b should be integers in range [0, P-1]"
	generic := func(name string, f func(api frontend.API, a, b frontend.Variable) frontend.Variable, rel func(c int) bool) {
		gadgets[name] = &gadget{
			shape: func(p []int) (int, int) { return 2, 1 },
			build: func(api frontend.API, p []int, _ *big.Int, in []frontend.Variable) []frontend.Variable {
				return []frontend.Variable{f(api, in[0], in[1])}
			},
			spec: func(p []int, _ *big.Int, q *big.Int, in []*big.Int) Spec {
				c := in[0].Cmp(in[1])
				s := Spec{Kind: kExact, MustSat: true, Outs: vals(b2i(rel(c)))}
				if c == 0 {
					s.Classes = append(s.Classes, "equal-operands")
				}
				d := modSub(in[0], in[1], q)
				if d.Cmp(bi(1)) == 0 || new(big.Int).Add(d, bi(1)).Cmp(q) == 0 {
					s.Classes = append(s.Classes, "adjacent-operands")
				}
				s.Classes = append(s.Classes, valueClasses("a", in[0], q)...)
				s.Classes = append(s.Classes, valueClasses("b", in[1], q)...)
				return s
			},
		}
	}
	generic("cmp.IsLess", cmp.IsLess, func(c int) bool { return c < 0 })
	generic("cmp.IsLessOrEqual", cmp.IsLessOrEqual, func(c int) bool { return c <= 0 })
	generic("cmp.IsEqual", cmp.IsEqual, func(c int) bool { return c == 0 })

	// the same comparisons with a compile-time constant right operand (Bound): isLessRecursive then takes the
	// bit-by-bit path instead of the bounded comparator.
	genericConst := func(name string, f func(api frontend.API, a, b frontend.Variable) frontend.Variable, rel func(c int) bool) {
		gadgets[name] = &gadget{
			shape: func(p []int) (int, int) { return 1, 1 },
			build: func(api frontend.API, p []int, cst *big.Int, in []frontend.Variable) []frontend.Variable {
				if len(p) > 0 && p[0] == 1 {
					return []frontend.Variable{f(api, cst, in[0])}
				}
				return []frontend.Variable{f(api, in[0], cst)}
			},
			spec: func(p []int, cst *big.Int, q *big.Int, in []*big.Int) Spec {
				if cst == nil || cst.Sign() < 0 || cst.Cmp(q) >= 0 {
					return Spec{Skip: "constant operand not reduced"}
				}
				a, b := in[0], cst
				if len(p) > 0 && p[0] == 1 {
					a, b = cst, in[0]
				}
				c := a.Cmp(b)
				s := Spec{Kind: kExact, MustSat: true, Outs: vals(b2i(rel(c))), Classes: []string{"i:constant-operand"}}
				if c == 0 {
					s.Classes = append(s.Classes, "equal-operands")
				}
				d := modSub(a, b, q)
				if d.Cmp(bi(1)) == 0 || new(big.Int).Add(d, bi(1)).Cmp(q) == 0 {
					s.Classes = append(s.Classes, "adjacent-operands")
				}
				s.Classes = append(s.Classes, valueClasses("a", a, q)...)
				s.Classes = append(s.Classes, valueClasses("b", b, q)...)
				return s
			},
		}
	}
	genericConst("cmp.IsLess.const", cmp.IsLess, func(c int) bool { return c < 0 })
	genericConst("cmp.IsLessOrEqual.const", cmp.IsLessOrEqual, func(c int) bool { return c <= 0 })
	genericConst("cmp.IsEqual.const", cmp.IsEqual, func(c int) bool { return c == 0 })

	// "compares two non-negative binary numbers represented by aBits and bBits"
	// P[0] = number of bits; inputs a bits (LSB first) then b bits. Only bits are generated.
	binary := func(name string, f func(api frontend.API, a, b []frontend.Variable) frontend.Variable, rel func(c int) bool) {
		gadgets[name] = &gadget{
			shape: func(p []int) (int, int) { return 2 * p[0], 1 },
			build: func(api frontend.API, p []int, _ *big.Int, in []frontend.Variable) []frontend.Variable {
				return []frontend.Variable{f(api, in[:p[0]:p[0]], in[p[0]:])}
			},
			spec: func(p []int, _ *big.Int, q *big.Int, in []*big.Int) Spec {
				n := p[0]
				a, b := new(big.Int), new(big.Int)
				for i := 0; i < n; i++ {
					if in[i].Cmp(bi(1)) > 0 || in[n+i].Cmp(bi(1)) > 0 {
						return Spec{Skip: "binary comparison of non-bits (outside the documented domain)"}
					}
					a.SetBit(a, i, uint(in[i].Uint64()))
					b.SetBit(b, i, uint(in[n+i].Uint64()))
				}
				c := a.Cmp(b)
				s := Spec{Kind: kExact, MustSat: true, Outs: vals(b2i(rel(c)))}
				if c == 0 {
					s.Classes = append(s.Classes, "equal-operands")
				}
				if a.BitLen() > q.BitLen()-2 || b.BitLen() > q.BitLen()-2 {
					s.Classes = append(s.Classes, "i:binary-high-bits-set")
				}
				if a.Cmp(q) >= 0 || b.Cmp(q) >= 0 {
					s.Classes = append(s.Classes, "binary-number>=p")
				}
				if new(big.Int).Abs(new(big.Int).Sub(a, b)).Cmp(bi(1)) == 0 {
					s.Classes = append(s.Classes, "adjacent-operands")
				}
				return s
			},
		}
	}
	binary("cmp.IsLessBinary", cmp.IsLessBinary, func(c int) bool { return c < 0 })
	binary("cmp.IsLessOrEqualBinary", cmp.IsLessOrEqualBinary, func(c int) bool { return c <= 0 })

	// ---------------- bounded comparator (std/math/cmp/bounded.go) ----------------
	// P[0] = allowNonDeterministicBehaviour (0/1), bound = absDiffUpp.
	for _, m := range []string{"AssertIsLess", "AssertIsLessEq", "IsLess", "IsLessEq", "Min"} {
		m := m
		nOut := 1
		if m == "AssertIsLess" || m == "AssertIsLessEq" {
			nOut = 0
		}
		gadgets["bc."+m] = &gadget{
			shape: func(p []int) (int, int) { return 2, nOut },
			build: func(api frontend.API, p []int, bound *big.Int, in []frontend.Variable) []frontend.Variable {
				bc := cmp.NewBoundedComparator(api, bound, p[0] == 1)
				switch m {
				case "AssertIsLess":
					bc.AssertIsLess(in[0], in[1])
					return nil
				case "AssertIsLessEq":
					bc.AssertIsLessEq(in[0], in[1])
					return nil
				case "IsLess":
					return []frontend.Variable{bc.IsLess(in[0], in[1])}
				case "IsLessEq":
					return []frontend.Variable{bc.IsLessEq(in[0], in[1])}
				}
				return []frontend.Variable{bc.Min(in[0], in[1])}
			},
			spec: func(p []int, bound *big.Int, q *big.Int, in []*big.Int) Spec {
				return boundedSpec(m, p[0] == 1, bound, q, in[0], in[1])
			},
		}
	}

	// ---------------- selector (std/selector) ----------------
	// Mux: "out = inputs[sel] ... sel needs to be between 0 and n - 1 (inclusive) ... otherwise the proof will fail"
	gadgets["sel.Mux"] = &gadget{
		shape: func(p []int) (int, int) { return 1 + p[0], 1 },
		build: func(api frontend.API, p []int, _ *big.Int, in []frontend.Variable) []frontend.Variable {
			return []frontend.Variable{selector.Mux(api, in[0], in[1:]...)}
		},
		spec: func(p []int, _ *big.Int, q *big.Int, in []*big.Int) Spec {
			n := p[0]
			sel, inputs := in[0], in[1:]
			s := Spec{Classes: selClasses(sel, n, q)}
			s.Classes = append(s.Classes, lenClass(n))
			if sel.Cmp(bi(int64(n))) < 0 {
				k := int(sel.Int64())
				s.Kind, s.MustSat, s.Outs = kExact, true, vals(inputs[k])
				s.Wrong = append(s.Wrong, vals(inputs[(k+1)%n]), vals(inputs[(k+n-1)%n]))
			} else {
				s.Kind = kUnsat
				s.Wrong = append(s.Wrong, vals(inputs[0]), vals(inputs[n-1]), vals(inputs[int(new(big.Int).Mod(sel, bi(int64(n))).Int64())]))
				// the input the truncated selector bits would pick
				nb := new(big.Int).SetInt64(int64(n - 1)).BitLen()
				if nb > 0 {
					low := new(big.Int).And(sel, new(big.Int).Sub(new(big.Int).Lsh(bi(1), uint(nb)), bi(1)))
					if low.Cmp(bi(int64(n))) < 0 {
						s.Wrong = append(s.Wrong, vals(inputs[low.Int64()]))
					}
				}
			}
			return s
		},
	}
	// Map: "the output will be values[i] such that keys[i] == queryKey. If keys does not contain queryKey, no proofs can
	// be generated. If keys has more than one key that equals to queryKey, the output will be undefined"
	gadgets["sel.Map"] = &gadget{
		shape: func(p []int) (int, int) { return 1 + 2*p[0], 1 },
		build: func(api frontend.API, p []int, _ *big.Int, in []frontend.Variable) []frontend.Variable {
			n := p[0]
			if len(p) > 1 && p[1] == 1 {
				// keys is a sub-slice with spare capacity of the array that also holds the values (legal Go,
				// e.g. a table sliced in two): see sigKeysAlias
				return []frontend.Variable{selector.Map(api, in[0], in[1:1+n], in[1+n:])}
			}
			return []frontend.Variable{selector.Map(api, in[0], in[1:1+n:1+n], in[1+n:])}
		},
		spec: func(p []int, _ *big.Int, q *big.Int, in []*big.Int) Spec {
			n := p[0]
			query, keys, values := in[0], in[1:1+n], in[1+n:]
			var hits []int
			dup := false
			for i := range keys {
				if keys[i].Cmp(query) == 0 {
					hits = append(hits, i)
				}
				for j := 0; j < i; j++ {
					if keys[i].Cmp(keys[j]) == 0 {
						dup = true
					}
				}
			}
			s := Spec{Classes: []string{lenClass(n)}}
			if dup {
				s.Classes = append(s.Classes, "i:duplicate-keys")
			}
			switch len(hits) {
			case 0:
				s.Kind = kUnsat
				s.Classes = append(s.Classes, "key-absent")
				s.Wrong = append(s.Wrong, vals(values[0]), vals(values[n-1]))
			case 1:
				s.Kind, s.MustSat, s.Outs = kExact, true, vals(values[hits[0]])
				if hits[0] == 0 {
					s.Classes = append(s.Classes, "hit-first")
				}
				if hits[0] == n-1 {
					s.Classes = append(s.Classes, "hit-last")
				}
				s.Wrong = append(s.Wrong, vals(values[(hits[0]+1)%n]))
			default:
				s.Kind = kUndefined
			}
			return s
		},
	}
	// BinaryMux: "inputs[selBits[0]+selBits[1]*(1<<1)+...]"; len(inputs) must be 2^len(selBits). P[0] = len(selBits).
	gadgets["sel.BinaryMux"] = &gadget{
		shape: func(p []int) (int, int) { return p[0] + (1 << p[0]), 1 },
		build: func(api frontend.API, p []int, _ *big.Int, in []frontend.Variable) []frontend.Variable {
			return []frontend.Variable{selector.BinaryMux(api, in[:p[0]:p[0]], in[p[0]:])}
		},
		spec: func(p []int, _ *big.Int, q *big.Int, in []*big.Int) Spec {
			k := p[0]
			idx := 0
			for i := 0; i < k; i++ {
				if in[i].Cmp(bi(1)) > 0 {
					return Spec{Skip: "BinaryMux with non-bit selector (outside the documented domain)"}
				}
				idx |= int(in[i].Int64()) << i
			}
			inputs := in[k:]
			s := Spec{Kind: kExact, MustSat: true, Outs: vals(inputs[idx]), Classes: []string{lenClass(len(inputs))}}
			if idx == 0 {
				s.Classes = append(s.Classes, "sel=0")
			}
			if idx == len(inputs)-1 {
				s.Classes = append(s.Classes, "sel=n-1")
			}
			s.Wrong = append(s.Wrong, vals(inputs[(idx+1)%len(inputs)]))
			return s
		},
	}
	// KeyDecoder: out[i] = 1 if keys[i] == queryKey else 0. "If keys has more than one key that equals to queryKey, the
	// output is undefined. However, the output is guaranteed to be zero for the wires that are associated with a key
	// which is not equal to queryKey." No key equal: the formula gives all zeros, Map says no proof: unsat-or-zeros.
	gadgets["sel.KeyDecoder"] = &gadget{
		shape: func(p []int) (int, int) { return 1 + p[0], p[0] },
		build: func(api frontend.API, p []int, _ *big.Int, in []frontend.Variable) []frontend.Variable {
			return selector.KeyDecoder(api, in[0], in[1:len(in):len(in)])
		},
		spec: func(p []int, _ *big.Int, q *big.Int, in []*big.Int) Spec {
			n := p[0]
			query, keys := in[0], in[1:]
			outs := make([]*big.Int, n)
			hits := 0
			for i := range keys {
				outs[i] = b2i(keys[i].Cmp(query) == 0)
				if keys[i].Cmp(query) == 0 {
					hits++
				}
			}
			s := Spec{Classes: []string{lenClass(n)}, Outs: outs}
			switch hits {
			case 0:
				s.Kind = kUnsatOr
				s.Classes = append(s.Classes, "key-absent")
			case 1:
				s.Kind, s.MustSat = kExact, true
				if outs[0].Sign() != 0 {
					s.Classes = append(s.Classes, "hit-first")
				}
				if outs[n-1].Sign() != 0 {
					s.Classes = append(s.Classes, "hit-last")
				}
			default:
				s.Kind = kPred
				s.Outs = nil
				s.Classes = append(s.Classes, "duplicate-hit")
				s.Pred = func(o []*big.Int) bool {
					for i := range keys {
						if keys[i].Cmp(query) != 0 && o[i].Sign() != 0 {
							return false
						}
					}
					return true
				}
				// a wrong output: 1 on a wire whose key differs (if any)
				for i := range keys {
					if keys[i].Cmp(query) != 0 {
						w := make([]*big.Int, n)
						for j := range w {
							w[j] = bi(0)
						}
						w[i] = bi(1)
						s.Wrong = append(s.Wrong, w)
						break
					}
				}
			}
			return s
		},
	}
	// Decoder: "outputs 1 on the wire with index sel, and 0 otherwise ... sel needs to be between 0 and n - 1
	// (inclusive) otherwise no proof can be generated."
	gadgets["sel.Decoder"] = &gadget{
		shape: func(p []int) (int, int) { return 1, p[0] },
		build: func(api frontend.API, p []int, _ *big.Int, in []frontend.Variable) []frontend.Variable {
			return selector.Decoder(api, p[0], in[0])
		},
		spec: func(p []int, _ *big.Int, q *big.Int, in []*big.Int) Spec {
			n := p[0]
			s := Spec{Classes: append(selClasses(in[0], n, q), lenClass(n))}
			if in[0].Cmp(bi(int64(n))) >= 0 {
				s.Kind = kUnsat
				w := make([]*big.Int, n)
				for j := range w {
					w[j] = bi(0)
				}
				s.Wrong = append(s.Wrong, w)
				return s
			}
			outs := make([]*big.Int, n)
			for i := range outs {
				outs[i] = b2i(in[0].Cmp(bi(int64(i))) == 0)
			}
			s.Kind, s.MustSat, s.Outs = kExact, true, outs
			return s
		},
	}
	// Partition: out[i] = input[i] if i < pivot (rightSide false) / i >= pivot (rightSide true) else 0.
	// "We must have pivotPosition >= 0 and pivotPosition <= len(input), otherwise a proof cannot be generated."
	// P = [n, rightSide].
	gadgets["sel.Partition"] = &gadget{
		shape: func(p []int) (int, int) { return 1 + p[0], p[0] },
		build: func(api frontend.API, p []int, _ *big.Int, in []frontend.Variable) []frontend.Variable {
			return selector.Partition(api, in[0], p[1] == 1, in[1:])
		},
		spec: func(p []int, _ *big.Int, q *big.Int, in []*big.Int) Spec {
			n, right := p[0], p[1] == 1
			pivot, input := in[0], in[1:]
			s := Spec{Classes: append(posClasses("pivot", pivot, n, q), lenClass(n))}
			mk := func(piv int) []*big.Int {
				o := make([]*big.Int, n)
				for i := range o {
					if (i < piv) != right {
						o[i] = input[i]
					} else {
						o[i] = bi(0)
					}
				}
				return o
			}
			if pivot.Cmp(bi(int64(n))) > 0 {
				s.Kind = kUnsat
				s.Wrong = append(s.Wrong, mk(n), mk(0))
				return s
			}
			pv := int(pivot.Int64())
			s.Kind, s.MustSat, s.Outs = kExact, true, mk(pv)
			if pv > 0 {
				s.Wrong = append(s.Wrong, mk(pv-1))
			}
			if pv < n {
				s.Wrong = append(s.Wrong, mk(pv+1))
			}
			return s
		},
	}
	// Slice: out[i] = input[i] if start <= i < end else 0. "We must have start >= 0 and end <= len(input), otherwise a
	// proof cannot be generated." A start beyond len(input) is not mentioned: the formula gives all zeros; encoded as
	// unsatisfiable-or-zeros. P = [n].
	gadgets["sel.Slice"] = &gadget{
		shape: func(p []int) (int, int) { return 2 + p[0], p[0] },
		build: func(api frontend.API, p []int, _ *big.Int, in []frontend.Variable) []frontend.Variable {
			return selector.Slice(api, in[0], in[1], in[2:])
		},
		spec: func(p []int, _ *big.Int, q *big.Int, in []*big.Int) Spec {
			n := p[0]
			start, end, input := in[0], in[1], in[2:]
			s := Spec{Classes: append(posClasses("start", start, n, q), posClasses("end", end, n, q)...)}
			s.Classes = append(s.Classes, lenClass(n))
			mk := func(st, en *big.Int) []*big.Int {
				o := make([]*big.Int, n)
				for i := range o {
					ii := bi(int64(i))
					if ii.Cmp(st) >= 0 && ii.Cmp(en) < 0 {
						o[i] = input[i]
					} else {
						o[i] = bi(0)
					}
				}
				return o
			}
			if end.Cmp(bi(int64(n))) > 0 {
				s.Kind = kUnsat
				s.Wrong = append(s.Wrong, mk(start, bi(int64(n))), mk(bi(0), bi(0)))
				return s
			}
			s.Outs = mk(start, end)
			if start.Cmp(bi(int64(n))) > 0 {
				s.Kind = kUnsatOr
				return s
			}
			s.Kind, s.MustSat = kExact, true
			c := start.Cmp(end)
			if c == 0 {
				s.Classes = append(s.Classes, "start=end")
			}
			if c > 0 {
				s.Classes = append(s.Classes, "start>end")
			}
			if end.Sign() > 0 {
				s.Wrong = append(s.Wrong, mk(start, new(big.Int).Sub(end, bi(1))))
			}
			s.Wrong = append(s.Wrong, mk(new(big.Int).Add(start, bi(1)), end), mk(bi(0), end), mk(start, bi(int64(n))))
			return s
		},
	}

	// ---------------- bitslice (std/math/bitslice) ----------------
	// "v = lower + 2^split * upper. The method enforces that lower < 2^split and upper < 2^split', where
	// split'=nbScalar-split. When giving the option WithNbDigits, we instead use the bound split'=nbDigits-split."
	// P = [split, digits (0: option not given), nocheck]. Outputs (lower, upper).
	gadgets["bitslice.Partition"] = &gadget{
		shape: func(p []int) (int, int) { return 1, 2 },
		build: func(api frontend.API, p []int, _ *big.Int, in []frontend.Variable) []frontend.Variable {
			var opts []bitslice.Option
			if p[1] > 0 {
				opts = append(opts, bitslice.WithNbDigits(p[1]))
			}
			if p[2] == 1 {
				opts = append(opts, bitslice.WithUnconstrainedOutputs())
			}
			lo, up := bitslice.Partition(api, in[0], uint(p[0]), opts...)
			return []frontend.Variable{lo, up}
		},
		spec: func(p []int, _ *big.Int, q *big.Int, in []*big.Int) Spec {
			split, digits, nocheck := p[0], p[1], p[2] == 1
			width := digits
			if digits == 0 {
				width = q.BitLen()
			}
			if split > width {
				return Spec{Skip: "bitslice split beyond the width (outside the documented domain)"}
			}
			if (digits == 0 || digits >= q.BitLen()) && split >= q.BitLen() {
				// degenerate: the binary-decomposition path rejects an empty upper part at compile time
				return Spec{Skip: "bitslice split = field bit length without a digit bound (rejected at compile time)"}
			}
			if split == width {
				// degenerate: a zero-width range check of the upper part is rejected at compile time
				return Spec{Skip: "bitslice split = nbDigits (rejected at compile time)"}
			}
			v := in[0]
			pow := new(big.Int).Lsh(bi(1), uint(split))
			up, lo := new(big.Int), new(big.Int)
			up.QuoRem(v, pow, lo)
			s := Spec{Outs: vals(lo, up)}
			if split == 0 {
				s.Classes = append(s.Classes, "split=0")
			}
			if split == width-1 {
				s.Classes = append(s.Classes, "split=width-1")
			}
			s.Classes = append(s.Classes, valueClasses("v", v, q)...)
			upBound := new(big.Int).Lsh(bi(1), uint(width-split))
			pred := func(o []*big.Int) bool {
				if o[0].Cmp(pow) >= 0 || o[1].Cmp(upBound) >= 0 {
					return false
				}
				// "v = lower + 2^split * upper" is an equality of integers (v the canonical representative): the
				// package comment on the full-width case insists that the recomposed value must not overflow the field
				r := new(big.Int).Mul(o[1], pow)
				r.Add(r, o[0])
				return r.Cmp(v) == 0
			}
			// the slices of v + p: the classic second decomposition when the width reaches the field bit length
			vp := new(big.Int).Add(v, q)
			aliasUp, aliasLo := new(big.Int), new(big.Int)
			aliasUp.QuoRem(vp, pow, aliasLo)
			if vp.BitLen() <= width {
				s.Classes = append(s.Classes, "v+p<2^width")
			}
			if digits == q.BitLen() {
				s.Classes = append(s.Classes, "digits=field-bitlen")
			}
			fits := v.BitLen() <= width
			if !fits {
				s.Classes = append(s.Classes, "v>=2^digits")
			}
			if v.BitLen() == width {
				s.Classes = append(s.Classes, "v-top-bit-set")
			}
			switch {
			case nocheck && fits:
				// "WithUnconstrainedOutputs allows to skip the output decomposition and outputs width checks": only
				// the genuine result is checked.
				s.Kind, s.MustSat = kPred, true
				s.Pred = func(o []*big.Int) bool { return true }
			case nocheck:
				s.Kind = kPred
				s.Pred = func(o []*big.Int) bool { return true }
			case fits:
				s.Kind, s.MustSat, s.Pred = kPred, true, pred
				s.Wrong = append(s.Wrong, vals(new(big.Int).Mod(aliasLo, q), new(big.Int).Mod(aliasUp, q)))
				s.Wrong = append(s.Wrong,
					vals(new(big.Int).Mod(new(big.Int).Add(lo, pow), q), new(big.Int).Mod(new(big.Int).Sub(up, bi(1)), q)),
					vals(new(big.Int).Mod(new(big.Int).Sub(lo, pow), q), new(big.Int).Mod(new(big.Int).Add(up, bi(1)), q)))
			default:
				// no (lower, upper) within the enforced bounds recomposes to v
				s.Kind, s.Pred = kPred, pred
				s.Wrong = append(s.Wrong, vals(lo, new(big.Int).Mod(up, upBound)))
			}
			return s
		},
	}
}

func lenClass(n int) string {
	switch {
	case n == 1:
		return "i:len=1"
	case n&(n-1) == 0:
		return "i:len=2^k"
	case (n+1)&n == 0 || (n-1)&(n-2) == 0:
		return "i:len=2^k±1"
	}
	return "i:len=other"
}

// selClasses labels a selector with respect to n inputs (valid range [0,n-1]).
func selClasses(sel *big.Int, n int, q *big.Int) []string {
	var r []string
	nn := bi(int64(n))
	switch {
	case sel.Sign() == 0:
		r = append(r, "sel=0")
	case sel.Cmp(bi(int64(n-1))) == 0:
		r = append(r, "sel=n-1")
	}
	switch {
	case sel.Cmp(nn) == 0:
		r = append(r, "sel=n")
	case new(big.Int).Add(sel, bi(1)).Cmp(q) == 0:
		r = append(r, "sel=p-1")
	case sel.Cmp(nn) > 0 && sel.BitLen() <= bi(int64(n-1)).BitLen():
		r = append(r, "sel-out-of-range-within-bits")
	case sel.Cmp(nn) > 0:
		r = append(r, "i:sel-out-of-range")
	}
	return r
}

// posClasses labels a position with respect to a slice of length n (valid range [0,n]).
func posClasses(name string, pos *big.Int, n int, q *big.Int) []string {
	nn := bi(int64(n))
	switch {
	case pos.Sign() == 0:
		return []string{name + "=0"}
	case pos.Cmp(nn) == 0:
		return []string{name + "=n"}
	case pos.Cmp(bi(int64(n+1))) == 0:
		return []string{name + "=n+1"}
	case new(big.Int).Add(pos, bi(1)).Cmp(q) == 0:
		return []string{name + "=p-1"}
	case pos.Cmp(nn) > 0:
		return []string{"i:" + name + "-out-of-range"}
	}
	return nil
}

// boundedSpec encodes the documentation of BoundedComparator / NewBoundedComparator: a signed comparison of two
// integers embedded in the field ("the negative of x is P - x"): every operand is lifted to its centred
// representative in (-(P-1)/2, (P-1)/2] and d = |a - b| is taken over the integers.
//
//   - d <= absDiffUpp: all methods work correctly (signed order);
//   - absDiffUpp < d < P - 2^bitlen(absDiffUpp): "either a proof can not be generated or the comparison methods work
//     correctly";
//   - d >= P - 2^bitlen(absDiffUpp): without allowNonDeterministicBehaviour "either a proof can not be generated or
//     the methods wrongly produce reversed results ... always well-defined and deterministic": only determinism is
//     asserted (at most one output accepted); with the flag the behaviour is undefined.
func boundedSpec(method string, allowND bool, bound, q, a, b *big.Int) Spec {
	half := new(big.Int).Rsh(q, 1)
	centre := func(x *big.Int) *big.Int {
		if x.Cmp(half) > 0 {
			return new(big.Int).Sub(x, q)
		}
		return new(big.Int).Set(x)
	}
	ah, bh := centre(a), centre(b)
	diff := new(big.Int).Sub(ah, bh)
	rel := diff.Sign() // sign of a-b in the signed order
	d := new(big.Int).Abs(diff)
	L := uint(bound.BitLen())
	B := new(big.Int).Lsh(bi(1), L)
	var s Spec
	zone := 3
	switch {
	case d.Cmp(bound) <= 0:
		zone = 1
	case d.Cmp(new(big.Int).Sub(q, B)) < 0:
		zone = 2
	}
	// boundary classes
	switch {
	case d.Sign() == 0:
		s.Classes = append(s.Classes, "equal-operands")
	case d.Cmp(bound) == 0:
		s.Classes = append(s.Classes, "diff=bound")
	case d.Cmp(new(big.Int).Add(bound, bi(1))) == 0:
		s.Classes = append(s.Classes, "diff=bound+1")
	case d.Cmp(bi(1)) == 0:
		s.Classes = append(s.Classes, "diff=1")
	case d.Cmp(B) == 0:
		s.Classes = append(s.Classes, "diff=2^bitlen")
	case d.Cmp(new(big.Int).Sub(B, bi(1))) == 0:
		s.Classes = append(s.Classes, "diff=2^bitlen-1")
	case d.Cmp(new(big.Int).Add(B, bi(1))) == 0:
		s.Classes = append(s.Classes, "diff=2^bitlen+1")
	case d.Cmp(new(big.Int).Sub(q, B)) == 0:
		s.Classes = append(s.Classes, "diff=p-2^bitlen")
	case d.Cmp(new(big.Int).Sub(new(big.Int).Sub(q, B), bi(1))) == 0:
		s.Classes = append(s.Classes, "diff=p-2^bitlen-1")
	}
	if zone == 1 && d.Sign() != 0 && ah.Sign() < 0 != (bh.Sign() < 0) {
		s.Classes = append(s.Classes, "signed-operands-straddle-zero")
	}
	if a.Cmp(half) > 0 != (b.Cmp(half) > 0) && new(big.Int).Abs(new(big.Int).Sub(a, b)).Cmp(bound) <= 0 {
		s.Classes = append(s.Classes, "i:operands-straddle-half-field")
	}
	s.Classes = append(s.Classes, fmt.Sprintf("i:bc-zone%d", zone))
	if zone == 3 && allowND {
		s.Kind = kUndefined
		return s
	}
	switch method {
	case "AssertIsLess", "AssertIsLessEq":
		holds := rel < 0 || (rel == 0 && method == "AssertIsLessEq")
		s.Outs = []*big.Int{}
		switch {
		case zone == 1 && holds:
			s.Kind, s.MustSat = kExact, true
		case zone == 3 || holds:
			// "unsatisfiable or correct" with correct = satisfiable, or the reversed zone: nothing to decide
			s.Kind = kPred
			s.Pred = func([]*big.Int) bool { return true }
		default:
			s.Kind = kUnsat
		}
		return s
	case "IsLess":
		s.Outs = vals(b2i(rel < 0))
		s.Wrong = append(s.Wrong, vals(b2i(rel >= 0)))
	case "IsLessEq":
		s.Outs = vals(b2i(rel <= 0))
		s.Wrong = append(s.Wrong, vals(b2i(rel > 0)))
	case "Min":
		if rel < 0 {
			s.Outs = vals(a)
		} else {
			s.Outs = vals(b)
		}
		if a.Cmp(b) != 0 {
			if rel < 0 {
				s.Wrong = append(s.Wrong, vals(b))
			} else {
				s.Wrong = append(s.Wrong, vals(a))
			}
		}
	}
	switch zone {
	case 1:
		s.Kind, s.MustSat = kExact, true
		if method == "IsLessEq" && b.Cmp(half) == 0 {
			// IsLessEq(a, b) is IsLess(a, b+1) and b+1 is no longer a centred representative: the operand the
			// comparison sees is outside the signed range, so only "unsatisfiable or correct" is asserted.
			s.Kind, s.MustSat = kUnsatOr, false
			s.Classes = append(s.Classes, "i:b+1-leaves-signed-range")
		}
	case 2:
		s.Kind = kUnsatOr
	default:
		s.Kind = kDeterministic
	}
	return s
}

// admissibleBound is the documented precondition of NewBoundedComparator: "absDiffUpp must be a positive number, and
// P - absDiffUpp - 1 must have a longer binary representation than absDiffUpp".
func admissibleBound(bound, q *big.Int) bool {
	if bound.Sign() <= 0 {
		return false
	}
	t := new(big.Int).Sub(q, bound)
	t.Sub(t, bi(1))
	return t.Sign() > 0 && t.BitLen() > bound.BitLen()
}

// deterministicBound: additionally P > 2^(bitlen+1) is needed when allowNonDeterministicBehaviour is not set (the
// constructor panics otherwise; this threshold is only stated in the constructor's comments, so it is used to choose
// admissible configurations and never asserted).
func deterministicBound(bound, q *big.Int) bool {
	return q.Cmp(new(big.Int).Lsh(bi(1), uint(bound.BitLen()+1))) > 0
}

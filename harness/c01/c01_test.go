// C01 — Groth16 verification accepts only proofs of the stated public inputs.
// Metamorphic / adversarial: a genuine proof is edited (public inputs, group
// elements, commitment list) or produced by a dishonest prover (verif hook)
// and Verify must reject every variant that is not the genuine pair.
package c01

import (
	"bytes"
	"crypto/sha256"
	"encoding/json"
	"hash"
	"fmt"
	"math/big"
	"reflect"
	"strings"
	"testing"

	"verifharness/lib/cseval"
	"verifharness/lib/ev"
	"verifharness/lib/prog"
	"verifharness/lib/zk"

	"github.com/consensys/gnark/backend"
	"github.com/consensys/gnark/backend/groth16"
	"github.com/consensys/gnark/backend/witness"
	"github.com/consensys/gnark/logger"
	"pgregory.net/rapid"
)

const ID = "C01"

func TestMain(m *testing.M) {
	logger.Disable()
	ev.RegisterReplay("g16", func(raw json.RawMessage) string {
		var c Case
		if err := json.Unmarshal(raw, &c); err != nil {
			return ""
		}
		return run(c, ev.Get(ID)).Violation
	})
	ev.Main(m)
}

// Variant is one edit of the genuine (proof, public witness) pair.
type Variant struct {
	Kind   string `json:"kind"`   // pub | elem | commits | dishonest
	Op     string `json:"op"`     //
	Target string `json:"target"` // elem: Ar Bs Krs CommitmentPok Commitments[i]
	Src    string `json:"src"`    // elem: other element used by the op
	Idx    int    `json:"idx"`
	Idx2   int    `json:"idx2"`
	Delta  int64  `json:"delta"`
	Bytes  int    `json:"bytes"` // 0: verify the object; 1: after WriteTo/ReadFrom; 2: after WriteRawTo/ReadFrom
}

// Case is one generated circuit + assignment + list of variants.
type Case struct {
	Prog     *prog.Program `json:"prog"`
	Curve    string        `json:"curve"`
	Alt      []prog.Val    `json:"alt"` // second assignment of the inputs (another statement), may be unsatisfying
	Variants []Variant     `json:"variants"`
}

type genuine struct {
	g     *zk.G16
	q     *big.Int
	pub   []*big.Int // public witness values
	full  witness.Witness
	proof groth16.Proof
	sys   *cseval.Sys
	// second genuine proof of the same statement, and (if Alt satisfies) of another statement
	proof2   groth16.Proof
	altPub   []*big.Int
	altProof groth16.Proof
}

func pubValues(p *prog.Program, q *big.Int, outs []*big.Int) []*big.Int {
	var r []*big.Int
	for _, in := range p.In {
		if in.Kind == "p" {
			r = append(r, in.V.In(q))
		}
	}
	return append(r, outs...)
}

func withVals(p *prog.Program, vals []prog.Val) *prog.Program {
	q := *p
	q.In = make([]prog.Input, len(p.In))
	copy(q.In, p.In)
	for i := range q.In {
		if i < len(vals) {
			q.In[i].V = vals[i]
		}
	}
	return &q
}

func mkPub(q *big.Int, vals []*big.Int) witness.Witness {
	w, err := zk.WitnessFrom(q, vals, nil)
	if err != nil {
		panic(err)
	}
	return w
}

func eqVals(a, b []*big.Int) bool {
	if len(a) != len(b) {
		return false
	}
	for i := range a {
		if a[i].Cmp(b[i]) != 0 {
			return false
		}
	}
	return true
}

func rawBytes(p groth16.Proof) []byte {
	b, err := zk.RawBytesOf(p)
	if err != nil {
		panic(err)
	}
	return b
}

// viaBytes re-decodes the proof through the chosen encoding; a decoder error counts as a rejection.
func viaBytes(p groth16.Proof, curve prog.Field, mode int) (groth16.Proof, error) {
	if mode == 0 {
		return p, nil
	}
	var b []byte
	var err error
	if mode == 1 {
		b, err = zk.BytesOf(p)
	} else {
		b, err = zk.RawBytesOf(p)
	}
	if err != nil {
		return nil, err
	}
	np := groth16.NewProof(curve.Curve)
	if _, err := np.ReadFrom(bytes.NewReader(b)); err != nil {
		return nil, err
	}
	return np, nil
}

func run(c Case, rec *ev.Recorder) ev.Outcome {
	f := prog.FieldByName(c.Curve)
	q := f.Q
	interp := prog.Eval(c.Prog, q)
	if interp.Excluded != "" {
		return ev.Outcome{Discard: true, DiscardWhy: interp.Excluded}
	}
	if !interp.OK {
		return ev.Outcome{Discard: true, DiscardWhy: "assignment does not satisfy the program (C03 covers this)"}
	}
	g, err := zk.NewG16(f, prog.NewCircuit(c.Prog))
	if err != nil {
		if interp.ZeroDiv && strings.Contains(err.Error(), "by constant(0)") {
			return ev.Outcome{Discard: true, DiscardWhy: "constant zero divisor"}
		}
		if strings.Contains(err.Error(), "must commit to at least one variable") {
			return ev.Outcome{Discard: true, DiscardWhy: "commit of constants only"}
		}
		return ev.Outcome{Discard: true, DiscardWhy: "compile/setup failed (C03/C04 cover this): " + firstLine(err.Error())}
	}
	G := &genuine{g: g, q: q}
	G.pub = pubValues(c.Prog, q, interp.Outs)
	G.full, err = prog.Witness(f, prog.Assignment(c.Prog, q, interp.Outs))
	if err != nil {
		return ev.Outcome{Discard: true, DiscardWhy: "witness: " + err.Error()}
	}
	if G.proof, err = g.Prove(G.full); err != nil {
		return ev.Outcome{Discard: true, DiscardWhy: "genuine prove failed (C03 covers this): " + firstLine(err.Error())}
	}
	// positive control: the genuine pair verifies, also after a serialization round-trip
	for mode := 0; mode <= 2; mode++ {
		p, err := viaBytes(G.proof, f, mode)
		if err != nil {
			return ev.Outcome{Violation: fmt.Sprintf("genuine proof does not round-trip (mode %d): %v", mode, err)}
		}
		if err := zk.VerifyG16(p, g.VK, mkPub(q, G.pub)); err != nil {
			return ev.Outcome{Violation: fmt.Sprintf("genuine proof rejected (encoding mode %d): %v", mode, err)}
		}
	}
	G.proof2, _ = g.Prove(G.full)
	if len(c.Alt) == len(c.Prog.In) {
		ap := withVals(c.Prog, c.Alt)
		if ai := prog.Eval(ap, q); ai.OK && ai.Excluded == "" {
			apub := pubValues(ap, q, ai.Outs)
			if !eqVals(apub, G.pub) {
				if w, err := prog.Witness(f, prog.Assignment(ap, q, ai.Outs)); err == nil {
					if pr, err := g.Prove(w); err == nil {
						G.altPub, G.altProof = apub, pr
					}
				}
			}
		}
	}
	G.sys, err = cseval.Extract(g.CS)
	if err != nil {
		return ev.Outcome{Violation: "cannot extract rows: " + err.Error()}
	}
	nc := zk.NbCommits(c.Prog)
	classes := []string{"curve:" + c.Curve, fmt.Sprintf("commitments:%d", nc)}
	if G.altProof != nil {
		classes = append(classes, "has-alt-statement")
	}
	applied := 0
	for vi, v := range c.Variants {
		proof, pub, note, skip := G.apply(v, nc)
		if skip != "" {
			rec.Discarded("variant:" + v.Kind + ":" + skip)
			continue
		}
		// trivial = byte-identical to the genuine pair
		if eqVals(pub, G.pub) && proof != nil && bytes.Equal(rawBytes(proof), rawBytes(G.proof)) {
			rec.Discarded("variant:" + v.Kind + ":identical to genuine")
			continue
		}
		var verr error
		if proof == nil {
			verr = fmt.Errorf("no proof produced: %s", note)
		} else {
			p2, derr := viaBytes(proof, f, v.Bytes)
			if derr != nil {
				verr = fmt.Errorf("decode: %w", derr)
			} else {
				verr = zk.VerifyG16(p2, g.VK, mkPub(q, pub))
			}
		}
		if verr == nil {
			return ev.Outcome{Violation: fmt.Sprintf("variant %d %+v (%s): groth16.Verify ACCEPTED a pair that is not the genuine one; genuine public %v, used public %v", vi, v, note, G.pub, pub)}
		}
		if strings.HasPrefix(verr.Error(), "PANIC") {
			rec.AddExtra("verify_panics_recorded_under_C08", 1)
			classes = append(classes, "verify-panicked")
		}
		applied++
		classes = append(classes, "variant:"+v.Kind+":"+v.Op, fmt.Sprintf("cell:%s:commit=%v", v.Kind, nc > 0))
	}
	// every commitment must have its own Pedersen trapdoor: with a shared sigma the batched
	// proof of knowledge only shows that the commitments lie in the span of the UNION of the
	// bases, and committed wires can be moved between commitments (the challenge of one
	// commitment can then be chosen before the wires it should bind). Observable on the keys:
	// G^{-sigma_i} must be pairwise distinct.
	if cks := zk.Elem(g.VK).FieldByName("CommitmentKeys"); cks.IsValid() && cks.Len() >= 2 {
		for i := 0; i < cks.Len(); i++ {
			for j := i + 1; j < cks.Len(); j++ {
				if zk.PEqual(cks.Index(i).FieldByName("GSigmaNeg"), cks.Index(j).FieldByName("GSigmaNeg")) {
					return ev.Outcome{Violation: fmt.Sprintf("verifying key: commitments %d and %d share one Pedersen trapdoor (identical GSigmaNeg): commitments are not bound to their own bases", i, j)}
				}
			}
		}
		classes = append(classes, "distinct-commitment-trapdoors-checked")
	}
	// binding of the commitment challenge: the data hashed into the challenge of a commitment
	// must include the committed PUBLIC inputs (the private ones are bound by the Pedersen
	// commitment itself). Observable with a recording hash-to-field function.
	if pc := zk.Elem(g.VK).FieldByName("PublicAndCommitmentCommitted"); pc.IsValid() {
		for ci := 0; ci < pc.Len(); ci++ {
			for k := 0; k < pc.Index(ci).Len(); k++ {
				wire := int(pc.Index(ci).Index(k).Int()) // 1-based index into the public witness
				if wire < 1 || wire > len(G.pub) {
					continue
				}
				written := func(pub []*big.Int) []byte {
					r := &recHash{Hash: sha256.New()}
					_ = zk.VerifyG16(G.proof, g.VK, mkPub(q, pub), backend.WithVerifierHashToFieldFunction(r))
					return r.written
				}
				alt := make([]*big.Int, len(G.pub))
				for i := range alt {
					alt[i] = new(big.Int).Set(G.pub[i])
				}
				alt[wire-1].Add(alt[wire-1], big.NewInt(1)).Mod(alt[wire-1], q)
				a, b := written(G.pub), written(alt)
				if len(a) > 0 && bytes.Equal(a, b) {
					return ev.Outcome{Violation: fmt.Sprintf("commitment %d commits public input %d, but the data hashed into its challenge is identical for public inputs %v and %v", ci, wire, G.pub, alt)}
				}
				classes = append(classes, "commitment-challenge-binding-checked")
			}
		}
	}
	return ev.Outcome{NonTrivial: applied > 0, Classes: classes}
}

// recHash records everything written into it.
type recHash struct {
	hash.Hash
	written []byte
}

func (r *recHash) Write(p []byte) (int, error) {
	r.written = append(r.written, p...)
	return r.Hash.Write(p)
}

func firstLine(s string) string {
	if i := strings.Index(s, "\n"); i >= 0 {
		s = s[:i]
	}
	if len(s) > 120 {
		s = s[:120]
	}
	return s
}

// element returns the addressable point named by target inside proof.
func element(proof groth16.Proof, target string) (reflect.Value, bool) {
	root := zk.Elem(proof)
	if strings.HasPrefix(target, "Commitments[") {
		var i int
		fmt.Sscanf(target, "Commitments[%d]", &i)
		cs := root.FieldByName("Commitments")
		if i >= cs.Len() {
			return reflect.Value{}, false
		}
		return cs.Index(i), true
	}
	return root.FieldByName(target), true
}

// apply builds the variant. Returns (proof, public values, note, skipReason).
func (G *genuine) apply(v Variant, nc int) (groth16.Proof, []*big.Int, string, string) {
	q := G.q
	pub := make([]*big.Int, len(G.pub))
	for i := range pub {
		pub[i] = new(big.Int).Set(G.pub[i])
	}
	switch v.Kind {
	case "pub":
		n := len(pub)
		i := v.Idx % n
		switch v.Op {
		case "inc":
			pub[i].Add(pub[i], big.NewInt(1)).Mod(pub[i], q)
		case "dec":
			pub[i].Sub(pub[i], big.NewInt(1)).Mod(pub[i], q)
		case "zero":
			pub[i].SetInt64(0)
		case "delta":
			pub[i].Add(pub[i], big.NewInt(v.Delta)).Mod(pub[i], q)
		case "copy":
			pub[i].Set(G.pub[(i+1)%n])
		case "swap":
			j := v.Idx2 % n
			pub[i], pub[j] = pub[j], pub[i]
		case "shorter":
			pub = pub[:n-1]
		case "longer":
			pub = append(pub, big.NewInt(v.Delta))
		case "alt":
			if G.altPub == nil {
				return nil, nil, "", "no second statement"
			}
			pub = G.altPub
		}
		return G.proof, pub, "replay", ""
	case "elem":
		p := zk.Clone(G.proof)
		dst, ok := element(p, v.Target)
		if !ok {
			return nil, nil, "", "no such element"
		}
		if v.Target == "CommitmentPok" && nc == 0 {
			// with no commitment the proof of knowledge is not part of the statement
			// (it is serialised but unused): not an element of the proof in the sense of C01
			return nil, nil, "", "CommitmentPok unused without commitments"
		}
		switch v.Op {
		case "neg":
			zk.PNeg(dst, dst)
		case "double":
			zk.PDouble(dst, dst)
		case "inf":
			zk.PSetInfinity(dst)
		case "add", "set":
			src, ok := element(p, v.Src)
			if !ok || src.Type() != dst.Type() || v.Src == v.Target {
				return nil, nil, "", "no compatible source element"
			}
			if v.Op == "add" {
				zk.PAdd(dst, dst, src)
			} else {
				dst.Set(src)
			}
		case "other", "alt":
			from := G.proof2
			if v.Op == "alt" {
				from = G.altProof
			}
			if from == nil {
				return nil, nil, "", "no other proof"
			}
			src, ok := element(from, v.Target)
			if !ok {
				return nil, nil, "", "no such element in other proof"
			}
			dst.Set(src)
		case "mul":
			zk.PMul(dst, dst, big.NewInt(v.Delta+2))
		case "torsion":
			// add a point of the cofactor torsion: pairs exactly like the original point,
			// only the subgroup check of the verifier can reject it (G1 elements only)
			if v.Target == "Bs" {
				return nil, nil, "", "torsion only built for G1"
			}
			tp, ok := zk.TorsionG1(G.g.F.Name, q, dst, v.Idx)
			if !ok {
				return nil, nil, "", "no cofactor torsion on this curve"
			}
			zk.PAdd(dst, dst, tp)
		}
		return p, pub, "element " + v.Target + " " + v.Op, ""
	case "commits":
		p := zk.Clone(G.proof)
		cs := zk.Elem(p).FieldByName("Commitments")
		n := cs.Len()
		elemT := cs.Type().Elem()
		switch v.Op {
		case "dropLast":
			if n == 0 {
				return nil, nil, "", "no commitment"
			}
			cs.Set(cs.Slice(0, n-1))
		case "dropFirst":
			if n == 0 {
				return nil, nil, "", "no commitment"
			}
			cs.Set(cs.Slice(1, n))
		case "dup":
			if n == 0 {
				return nil, nil, "", "no commitment"
			}
			cs.Set(reflect.Append(cs, cs.Index(v.Idx%n)))
		case "swap2":
			if n < 2 {
				return nil, nil, "", "fewer than two commitments"
			}
			i, j := v.Idx%n, (v.Idx+1)%n
			t := reflect.New(elemT).Elem()
			t.Set(cs.Index(i))
			cs.Index(i).Set(cs.Index(j))
			cs.Index(j).Set(t)
		case "appendInf":
			cs.Set(reflect.Append(cs, reflect.Zero(elemT)))
		case "appendPoint":
			cs.Set(reflect.Append(cs, zk.Elem(p).FieldByName("Krs")))
		case "nil":
			if n == 0 {
				return nil, nil, "", "no commitment"
			}
			cs.Set(reflect.Zero(cs.Type()))
		case "appendForged":
			// the exploit for a verifier that folds unchecked surplus commitments into the
			// public-input sum: C = Σ (x_i - x'_i)·K_i makes the pairing hold for x'
			i := v.Idx % len(pub)
			pub[i].Add(pub[i], big.NewInt(v.Delta+1)).Mod(pub[i], q)
			K := zk.Elem(G.g.VK).FieldByName("G1").FieldByName("K")
			acc := reflect.New(elemT).Elem() // infinity
			for k := range pub {
				d := new(big.Int).Sub(G.pub[k], pub[k])
				d.Mod(d, q)
				if d.Sign() == 0 {
					continue
				}
				t := reflect.New(elemT).Elem()
				zk.PMul(t, K.Index(k+1), d)
				zk.PAdd(acc, acc, t)
			}
			cs.Set(reflect.Append(cs, acc))
		}
		return p, pub, "commitment list " + v.Op, ""
	case "dishonest":
		return G.dishonest(v, pub)
	}
	return nil, nil, "", "unknown variant"
}

// dishonest runs the REAL prover on an assignment altered after the real solver succeeded.
func (G *genuine) dishonest(v Variant, pub []*big.Int) (groth16.Proof, []*big.Int, string, string) {
	sys := G.sys
	q := G.q
	nw := sys.NbPublic + sys.NbSecret + sys.NbIntern
	// occurrence tables
	inLR := make([]bool, nw)
	rowsOf := make([]map[int]bool, nw)
	for i := range rowsOf {
		rowsOf[i] = map[int]bool{}
	}
	for j, r := range sys.Rows {
		for _, t := range r.L {
			inLR[t.Wire] = true
			rowsOf[t.Wire][j] = true
		}
		for _, t := range r.R {
			inLR[t.Wire] = true
			rowsOf[t.Wire][j] = true
		}
		for _, t := range r.O {
			rowsOf[t.Wire][j] = true
		}
	}
	var cand []int
	switch v.Op {
	case "wireAll", "wireNoRecompute":
		for w := sys.NbPublic; w < nw; w++ {
			if inLR[w] {
				cand = append(cand, w)
			}
		}
	case "publicW":
		for w := 1; w < sys.NbPublic; w++ {
			if inLR[w] {
				cand = append(cand, w)
			}
		}
	case "rowDrop":
		for w := sys.NbPublic; w < nw; w++ {
			if inLR[w] && len(rowsOf[w]) == 1 {
				cand = append(cand, w)
			}
		}
	}
	if len(cand) == 0 {
		return nil, nil, "", "no suitable wire for " + v.Op
	}
	wire := cand[v.Idx%len(cand)]
	delta := big.NewInt(v.Delta + 1)
	skip := ""
	var proof groth16.Proof
	var perr error
	zk.WithPostSolve(G.g.F.Curve, G.g.CS, func(sol any) {
		s := zk.Elem(sol)
		W := cseval.Vec(s.FieldByName("W").Interface())
		W[wire] = new(big.Int).Add(W[wire], delta)
		W[wire].Mod(W[wire], q)
		bad, err := sys.ViolatedRows(W)
		if err != nil || len(bad) == 0 {
			skip = "altered assignment still satisfies every row"
			return
		}
		cseval.SetVec(s.FieldByName("W"), wire, W[wire])
		switch v.Op {
		case "wireAll", "publicW":
			A, B, C, _ := sys.EvalRows(W)
			for i := range A {
				cseval.SetVec(s.FieldByName("A"), i, A[i])
				cseval.SetVec(s.FieldByName("B"), i, B[i])
				cseval.SetVec(s.FieldByName("C"), i, C[i])
			}
		case "rowDrop":
			var j int
			for k := range rowsOf[wire] {
				j = k
			}
			zero := new(big.Int)
			cseval.SetVec(s.FieldByName("A"), j, zero)
			cseval.SetVec(s.FieldByName("B"), j, zero)
			cseval.SetVec(s.FieldByName("C"), j, zero)
		}
	}, func() {
		proof, perr = G.g.Prove(G.full)
	})
	if skip != "" {
		return nil, nil, "", skip
	}
	if perr != nil {
		// the prover refused: nothing for the verifier to reject
		return nil, nil, "", "prover returned an error on the altered assignment"
	}
	return proof, pub, fmt.Sprintf("dishonest prover %s wire %d", v.Op, wire), ""
}

var pubOps = []string{"inc", "dec", "zero", "delta", "copy", "swap", "shorter", "longer", "alt"}
var elemOps = []string{"neg", "double", "inf", "add", "set", "other", "alt", "mul", "torsion", "torsion"}
var commitOps = []string{"dropLast", "dropFirst", "dup", "swap2", "appendInf", "appendPoint", "nil", "appendForged"}
var dishonestOps = []string{"wireAll", "wireNoRecompute", "publicW", "rowDrop"}

func genVariant(t *rapid.T, nc int) Variant {
	v := Variant{}
	targets := []string{"Ar", "Bs", "Krs", "CommitmentPok"}
	for i := 0; i < nc; i++ {
		targets = append(targets, fmt.Sprintf("Commitments[%d]", i))
	}
	switch rapid.IntRange(0, 9).Draw(t, "vkind") {
	case 0, 1, 2:
		v.Kind, v.Op = "pub", rapid.SampledFrom(pubOps).Draw(t, "op")
	case 3, 4, 5:
		v.Kind, v.Op = "elem", rapid.SampledFrom(elemOps).Draw(t, "op")
		v.Target = rapid.SampledFrom(targets).Draw(t, "target")
		v.Src = rapid.SampledFrom(targets).Draw(t, "src")
	case 6, 7:
		v.Kind, v.Op = "commits", rapid.SampledFrom(commitOps).Draw(t, "op")
	default:
		v.Kind, v.Op = "dishonest", rapid.SampledFrom(dishonestOps).Draw(t, "op")
	}
	v.Idx = rapid.IntRange(0, 7).Draw(t, "idx")
	v.Idx2 = rapid.IntRange(0, 7).Draw(t, "idx2")
	v.Delta = int64(rapid.IntRange(0, 5).Draw(t, "delta"))
	v.Bytes = rapid.SampledFrom([]int{0, 0, 1, 2}).Draw(t, "bytes")
	return v
}

func genCase(curves []string) *rapid.Generator[Case] {
	return rapid.Custom(func(t *rapid.T) Case {
		cn := rapid.SampledFrom(curves).Draw(t, "curve")
		f := prog.FieldByName(cn)
		p := zk.GenProvable(zk.ProvableCfg{Q: f.Q, MaxOps: 7, MaxCommits: 3}).Draw(t, "prog")
		c := Case{Prog: p, Curve: cn}
		for range p.In {
			c.Alt = append(c.Alt, prog.GenVal(t, "alt"))
		}
		// keep the alternative statement close to the original one so that it often satisfies too
		for i := range c.Alt {
			if rapid.IntRange(0, 2).Draw(t, "keep") != 0 {
				c.Alt[i] = p.In[i].V
			}
		}
		nv := rapid.IntRange(3, 8).Draw(t, "nvariants")
		nc := zk.NbCommits(p)
		for i := 0; i < nv; i++ {
			c.Variants = append(c.Variants, genVariant(t, nc))
		}
		return c
	})
}

const rule = "rapid-generated provable programs (0-3 Commit ops committing public / secret / mixed / derived sets and earlier commitments) on a drawn curve; Compile+Setup+Prove; then 3-8 drawn variants per case: public-input edits (replay), proof elements replaced/negated/doubled/∞/taken from another genuine proof, commitment list edits incl. the forged surplus commitment, and a dishonest prover (verif hook: real prover continued on an altered, row-violating assignment); optionally re-decoded from WriteTo/WriteRawTo bytes. Oracle: Verify returns an error. Non-trivial: genuine pair verified AND >=1 applied variant that differs in bytes from the genuine pair. Distinct: SHA-256 of the case JSON."

func curvesForTier() []string {
	all := []string{"bn254", "bls12-377", "bls12-381", "bls24-315", "bls24-317", "bw6-633", "bw6-761"}
	if ev.Tier() == "quick" {
		// weighted toward the cheap curves, all seven present
		return append([]string{"bn254", "bn254", "bls12-381", "bls12-377"}, all...)
	}
	return all
}

func TestGroth16Soundness(t *testing.T) {
	rec := ev.Get(ID)
	rec.SetRule(rule)
	rec.Assume("a single proof element replaced by an unrelated group element verifies only with negligible probability; re-randomisations that yield other valid proofs of the same statement are not among the operators")
	rec.Assume("CommitmentPok of a proof for a commitment-free key is not considered a proof element (serialised but unused)")
	g := genCase(curvesForTier())
	rec.Check(t, "g16", ev.N(800, 12000), func(rt *rapid.T) {
		c := g.Draw(rt, "case")
		rec.Begin("g16", c)
		rec.Report(rt, "g16", c, run(c, rec))
	})
}

func TestReplay(t *testing.T) { ev.Replay(t) }

// C10 — solving and proving are independent of scheduling and concurrent use.
// Differential vs sequential: every call made concurrently on shared objects
// must return what the same call returns alone; no crash, race, or wedge.
// Scenarios run in child processes (a panic under a gnark mutex wedges the
// survivors; a data race or fatal error kills the process).
package c10

import (
	"bytes"
	"crypto/sha256"
	"encoding/hex"
	"encoding/json"
	"fmt"
	"math/big"
	"os"
	"os/exec"
	"runtime"
	"strings"
	"sync"
	"sync/atomic"
	"syscall"
	"testing"
	"time"

	"verifharness/lib/cseval"
	"verifharness/lib/ev"
	"verifharness/lib/prog"
	"verifharness/lib/zk"

	"github.com/consensys/gnark/backend"
	"github.com/consensys/gnark/backend/groth16"
	"github.com/consensys/gnark/backend/plonk"
	"github.com/consensys/gnark/backend/witness"
	"github.com/consensys/gnark/constraint"
	"github.com/consensys/gnark/constraint/solver"
	"github.com/consensys/gnark/frontend"
	"github.com/consensys/gnark/logger"
	"github.com/consensys/gnark/std"
	"github.com/consensys/gnark/std/lookup/logderivlookup"
	"github.com/consensys/gnark/test"
	"pgregory.net/rapid"
)

const ID = "C10"

func TestMain(m *testing.M) {
	logger.Disable()
	std.RegisterHints()
	if p := os.Getenv("C10_CHILD"); p != "" {
		childMain(p)
		return
	}
	ev.RegisterReplay("scenario", func(raw json.RawMessage) string {
		var s Scenario
		if err := json.Unmarshal(raw, &s); err != nil {
			return ""
		}
		return run(s, ev.Get(ID)).Violation
	})
	ev.Main(m)
}

// Call is one API call of a goroutine.
type Call struct {
	Op  string `json:"op"`  // solve-r1cs | solve-scs | prove-g16 | prove-plonk | verify-g16 | verify-plonk
	Wit int    `json:"wit"` // witness index (verify: proof of this witness against...)
	Pub int    `json:"pub"` // verify: public part of this witness
}

type Scenario struct {
	Curve      string   `json:"curve"`
	Lookup     bool     `json:"lookup"`      // table whose entries are witness variables
	Commit     bool     `json:"commit"`      // api.Commit
	Hints      bool     `json:"hints"`       // IsZero / ToBinary hints
	NbWit      int      `json:"nb_wit"`      // satisfying witnesses 0..NbWit-1, then one unsatisfying per satisfying
	Routines   [][]Call `json:"routines"`    // per goroutine call list
	SharedOpts bool     `json:"shared_opts"` // one []solver.Option with spare capacity shared by all provers
	NbTasks    int      `json:"nb_tasks"`
	ShareMode  int      `json:"share_mode"` // with SharedOpts: 0 solver-option slice, 1 one ProverOption value, 2 one []ProverOption slice
	MaxProcs   int      `json:"max_procs"`
	Reps       int      `json:"reps"`
	Background bool     `json:"background"` // frontend.Compile / test.IsSolved of other circuits running meanwhile
	Decoded    bool     `json:"decoded"`    // half of the solves go to a copy of the system restored from bytes
}

type concCircuit struct {
	X, Y, Idx frontend.Variable
	Z         frontend.Variable `gnark:",public"`
	s         *Scenario
}

func (c *concCircuit) Define(api frontend.API) error {
	acc := api.Add(api.Mul(c.X, c.Y), c.X)
	if c.s.Lookup {
		t := logderivlookup.New(api)
		for k := 0; k < 8; k++ {
			t.Insert(api.Add(c.X, api.Mul(c.Y, k)))
		}
		r := t.Lookup(c.Idx)
		acc = api.Add(acc, r[0])
		r2 := t.Lookup(api.Sub(7, c.Idx))
		acc = api.Add(acc, api.Mul(r2[0], 3))
	}
	if c.s.Hints {
		bits := api.ToBinary(c.Idx, 3)
		acc = api.Add(acc, api.Mul(bits[0], 11), api.IsZero(api.Sub(c.X, c.Y)))
	}
	if c.s.Commit {
		cm, err := api.(frontend.Committer).Commit(c.X, c.Y)
		if err != nil {
			return err
		}
		api.AssertIsDifferent(cm, 0)
	}
	api.AssertIsEqual(c.Z, acc)
	return nil
}

func reference(s *Scenario, x, y, idx int64, q *big.Int) *big.Int {
	acc := x*y + x
	if s.Lookup {
		acc += x + y*idx
		acc += 3 * (x + y*(7-idx))
	}
	if s.Hints {
		acc += 11 * (idx & 1)
		if x == y {
			acc++
		}
	}
	return new(big.Int).Mod(big.NewInt(acc), q)
}

func witnessFor(s *Scenario, i int, q *big.Int) (*concCircuit, bool) {
	n := s.NbWit
	sat := i < n
	k := int64(i % n)
	x, y, idx := k+2, 3*k+1, k%8
	if k == 3 {
		y = x // exercises IsZero
	}
	z := reference(s, x, y, idx, q)
	if !sat {
		if s.Lookup && i%2 == 1 {
			// rejected inside the lookup instruction itself: index outside the 8-entry table
			idx = 8 + k
		} else {
			z = new(big.Int).Mod(new(big.Int).Add(z, big.NewInt(1)), q)
		}
	}
	return &concCircuit{X: x, Y: y, Idx: idx, Z: z, s: s}, sat
}

// Result of one call.
type Result struct {
	OK     bool   `json:"ok"`
	Digest string `json:"digest,omitempty"` // solve: hash of the solution (deterministic systems only)
	Self   bool   `json:"self,omitempty"`   // prove: proof verifies under its own public witness
	Other  bool   `json:"other,omitempty"`  // prove: proof verifies under another witness's public part (must be false)
	Err    string `json:"err,omitempty"`
}

type childOut struct {
	Baseline   [][]Result `json:"baseline"`
	Mismatches []string   `json:"mismatches"`
	MaxOverlap int32      `json:"max_overlap"`
	Calls      int        `json:"calls"`
	Reps       int        `json:"reps"`
	After      []string   `json:"after"` // mismatches of a sequential pass after the concurrent phase
}

type shared struct {
	s        *Scenario
	f        prog.Field
	r1cs     constraint.ConstraintSystem
	scs      constraint.ConstraintSystem
	r1csDec  constraint.ConstraintSystem
	g16pk    groth16.ProvingKey
	g16vk    groth16.VerifyingKey
	plpk     plonk.ProvingKey
	plvk     plonk.VerifyingKey
	wits     []witness.Witness
	pubs     []witness.Witness
	g16proof []groth16.Proof
	plproof  []plonk.Proof
	opts     []solver.Option
	inflight int32
	maxOver  int32
	popt     backend.ProverOption   // one option value shared by every prover call
	popts    []backend.ProverOption // one option slice (spare capacity) shared by every prover call
	done     int64                  // completed calls: the watchdog's notion of progress
}

func errClass(err error) string {
	if err == nil {
		return ""
	}
	s := err.Error()
	if i := strings.Index(s, "\n"); i >= 0 {
		s = s[:i]
	}
	if len(s) > 80 {
		s = s[:80]
	}
	return s
}

func (sh *shared) proverOpts() []backend.ProverOption {
	if sh.s.SharedOpts {
		// three ways of sharing what the caller owns: the solver-option slice
		// (fresh ProverOption per call), the ProverOption value itself, and
		// the []ProverOption slice (with spare capacity) passed variadically
		switch sh.s.ShareMode {
		case 0:
			return []backend.ProverOption{backend.WithSolverOptions(sh.opts...)}
		case 1:
			return []backend.ProverOption{sh.popt}
		default:
			return sh.popts
		}
	}
	if sh.s.NbTasks > 0 {
		return []backend.ProverOption{backend.WithSolverOptions(solver.WithNbTasks(sh.s.NbTasks))}
	}
	return nil
}

func (sh *shared) do(c Call, n int) Result {
	cur := atomic.AddInt32(&sh.inflight, 1)
	for {
		m := atomic.LoadInt32(&sh.maxOver)
		if cur <= m || atomic.CompareAndSwapInt32(&sh.maxOver, m, cur) {
			break
		}
	}
	defer atomic.AddInt64(&sh.done, 1)
	defer atomic.AddInt32(&sh.inflight, -1)
	var r Result
	deterministic := !sh.s.Commit && !sh.s.Lookup // a lookup table commits through multicommit: the placeholder commitment is random in a plain Solve
	switch c.Op {
	case "solve-r1cs", "solve-scs":
		cs := sh.r1cs
		if c.Op == "solve-scs" {
			cs = sh.scs
		} else if sh.s.Decoded && n%2 == 1 && sh.r1csDec != nil {
			cs = sh.r1csDec
		}
		var opts []solver.Option
		if sh.s.NbTasks > 0 {
			opts = append(opts, solver.WithNbTasks(sh.s.NbTasks))
		}
		sol, err := cs.Solve(sh.wits[c.Wit], opts...)
		r.OK, r.Err = err == nil, errClass(err)
		if err == nil && deterministic {
			d, _ := cseval.Decode(sol)
			h := sha256.New()
			for _, v := range [][]*big.Int{d.W, d.L, d.R, d.O} {
				for _, x := range v {
					h.Write(x.Bytes())
					h.Write([]byte{0})
				}
			}
			r.Digest = hex.EncodeToString(h.Sum(nil)[:8])
		}
	case "prove-g16":
		p, err := groth16.Prove(sh.r1cs, sh.g16pk, sh.wits[c.Wit], sh.proverOpts()...)
		r.OK, r.Err = err == nil, errClass(err)
		if err == nil {
			r.Self = groth16.Verify(p, sh.g16vk, sh.pubs[c.Wit]) == nil
			r.Other = groth16.Verify(p, sh.g16vk, sh.pubs[(c.Wit+1)%sh.s.NbWit]) == nil
		}
	case "prove-plonk":
		p, err := plonk.Prove(sh.scs, sh.plpk, sh.wits[c.Wit], sh.proverOpts()...)
		r.OK, r.Err = err == nil, errClass(err)
		if err == nil {
			r.Self = plonk.Verify(p, sh.plvk, sh.pubs[c.Wit]) == nil
			r.Other = plonk.Verify(p, sh.plvk, sh.pubs[(c.Wit+1)%sh.s.NbWit]) == nil
		}
	case "verify-g16":
		r.OK = groth16.Verify(sh.g16proof[c.Wit%sh.s.NbWit], sh.g16vk, sh.pubs[c.Pub]) == nil
	case "verify-plonk":
		r.OK = plonk.Verify(sh.plproof[c.Wit%sh.s.NbWit], sh.plvk, sh.pubs[c.Pub]) == nil
	}
	return r
}

func same(a, b Result) bool {
	return a.OK == b.OK && a.Digest == b.Digest && a.Self == b.Self && a.Other == b.Other && (a.OK || (a.Err == "") == (b.Err == ""))
}

type otherCircuit struct {
	A, B frontend.Variable
	C    frontend.Variable `gnark:",public"`
	n    int
}

func (c *otherCircuit) Define(api frontend.API) error {
	v := c.A
	for i := 0; i < c.n; i++ {
		v = api.Add(api.Mul(v, c.B), i)
	}
	t := logderivlookup.New(api)
	t.Insert(c.A)
	t.Insert(c.B)
	_ = t.Lookup(0)
	api.AssertIsEqual(api.Sub(c.C, c.C), api.Mul(v, 0))
	return nil
}

func childMain(path string) {
	b, err := os.ReadFile(path)
	if err != nil {
		fmt.Fprintln(os.Stderr, err)
		os.Exit(3)
	}
	var s Scenario
	if err := json.Unmarshal(b, &s); err != nil {
		os.Exit(3)
	}
	if s.MaxProcs > 0 {
		runtime.GOMAXPROCS(s.MaxProcs)
	}
	f := prog.FieldByName(s.Curve)
	sh := &shared{s: &s, f: f}
	fail := func(msg string, err error) {
		fmt.Fprintln(os.Stderr, "CHILD-SETUP-FAILED", msg, err)
		os.Exit(4)
	}
	if sh.r1cs, err = prog.CompileU64(f, prog.R1CS, &concCircuit{s: &s}); err != nil {
		fail("compile r1cs", err)
	}
	if sh.scs, err = prog.CompileU64(f, prog.SCS, &concCircuit{s: &s}); err != nil {
		fail("compile scs", err)
	}
	if s.Decoded {
		d := groth16.NewCS(f.Curve)
		if _, err := d.ReadFrom(bytes.NewReader(prog.Bytes(sh.r1cs))); err != nil {
			fail("decode", err)
		}
		sh.r1csDec = d
	}
	if sh.g16pk, sh.g16vk, err = groth16.Setup(sh.r1cs); err != nil {
		fail("g16 setup", err)
	}
	pl, err := zk.NewPlonkFromCS(f, sh.scs, nil)
	if err != nil {
		fail("plonk setup", err)
	}
	sh.plpk, sh.plvk = pl.PK, pl.VK
	for i := 0; i < 2*s.NbWit; i++ {
		a, _ := witnessFor(&s, i, f.Q)
		w, err := frontend.NewWitness(a, f.Q)
		if err != nil {
			fail("witness", err)
		}
		p, _ := w.Public()
		sh.wits, sh.pubs = append(sh.wits, w), append(sh.pubs, p)
	}
	// a caller-owned option slice with spare capacity, shared by every prover
	sh.opts = make([]solver.Option, 0, 8)
	nt := s.NbTasks
	if nt == 0 {
		nt = 4
	}
	sh.opts = append(sh.opts, solver.WithNbTasks(nt))
	sh.popt = backend.WithSolverOptions(sh.opts...)
	sh.popts = make([]backend.ProverOption, 0, 4)
	sh.popts = append(sh.popts, sh.popt)
	for i := 0; i < s.NbWit; i++ {
		p, err := groth16.Prove(sh.r1cs, sh.g16pk, sh.wits[i])
		if err != nil {
			fail("g16 prove", err)
		}
		sh.g16proof = append(sh.g16proof, p)
		pp, err := plonk.Prove(sh.scs, sh.plpk, sh.wits[i])
		if err != nil {
			fail("plonk prove", err)
		}
		sh.plproof = append(sh.plproof, pp)
	}
	out := childOut{}
	stop := make(chan struct{})
	var bg sync.WaitGroup
	// Watchdog. A wedge is the absence of progress, not slowness: no call has
	// completed for noProgress, and then, with the background load stopped, the
	// process burns (almost) no CPU for a further window, i.e. every goroutine
	// of the pending calls is blocked. A loaded machine slows calls down but
	// they keep consuming CPU, so load alone can never produce this verdict.
	var stopOnce sync.Once
	stopBG := func() { stopOnce.Do(func() { close(stop) }) }
	go func() {
		last, lastAt := atomic.LoadInt64(&sh.done), time.Now()
		for {
			time.Sleep(time.Second)
			if d := atomic.LoadInt64(&sh.done); d != last {
				last, lastAt = d, time.Now()
				continue
			}
			if time.Since(lastAt) < noProgress {
				continue
			}
			stopBG()
			time.Sleep(5 * time.Second) // let the background goroutines drain
			c0 := cpuTime()
			time.Sleep(idleWindow)
			if atomic.LoadInt64(&sh.done) != last {
				last, lastAt = atomic.LoadInt64(&sh.done), time.Now()
				continue
			}
			if used := cpuTime() - c0; used < idleCPU {
				buf := make([]byte, 1<<20)
				buf = buf[:runtime.Stack(buf, true)]
				fmt.Fprintf(os.Stderr, "CHILD-WEDGED no call completed for %v and the process used %v of CPU in the last %v\n%s\n", time.Since(lastAt).Round(time.Second), used, idleWindow, buf)
				os.Exit(7)
			}
			lastAt = time.Now() // busy, not blocked: keep waiting (the parent bounds the total)
		}
	}()
	// sequential baseline
	seq := func() [][]Result {
		var res [][]Result
		for _, calls := range s.Routines {
			var rr []Result
			for n, c := range calls {
				rr = append(rr, sh.do(c, n))
			}
			res = append(res, rr)
		}
		return res
	}
	out.Baseline = seq()
	atomic.StoreInt32(&sh.maxOver, 0)
	// background activity on OTHER circuit values
	if s.Background {
		for k := 0; k < 2; k++ {
			bg.Add(1)
			go func(k int) {
				defer bg.Done()
				for i := 0; ; i++ {
					select {
					case <-stop:
						return
					default:
					}
					oc := &otherCircuit{n: 5 + (i+k)%7}
					if k == 0 {
						_, _ = prog.CompileU64(f, prog.R1CS, oc)
					} else {
						_ = test.IsSolved(oc, &otherCircuit{A: 3, B: 4, C: 5, n: oc.n}, f.Q)
					}
				}
			}(k)
		}
	}
	repsUntil := time.Now().Add(repBudget)
	for rep := 0; rep < s.Reps && (rep == 0 || time.Now().Before(repsUntil)); rep++ {
		out.Reps++
		var wg sync.WaitGroup
		start := make(chan struct{})
		res := make([][]Result, len(s.Routines))
		for g, calls := range s.Routines {
			wg.Add(1)
			go func(g int, calls []Call) {
				defer wg.Done()
				<-start
				for n, c := range calls {
					res[g] = append(res[g], sh.do(c, n))
				}
			}(g, calls)
		}
		close(start)
		wg.Wait()
		for g := range res {
			for n := range res[g] {
				out.Calls++
				if !same(res[g][n], out.Baseline[g][n]) && len(out.Mismatches) < 10 {
					out.Mismatches = append(out.Mismatches, fmt.Sprintf("rep %d goroutine %d call %d %+v: concurrent %+v, alone %+v", rep, g, n, s.Routines[g][n], res[g][n], out.Baseline[g][n]))
				}
			}
		}
	}
	stopBG()
	bg.Wait()
	out.MaxOverlap = atomic.LoadInt32(&sh.maxOver)
	// history: a sequential pass after everything must still equal the baseline
	after := seq()
	for g := range after {
		for n := range after[g] {
			if !same(after[g][n], out.Baseline[g][n]) && len(out.After) < 10 {
				out.After = append(out.After, fmt.Sprintf("goroutine %d call %d %+v: after %+v, before %+v", g, n, s.Routines[g][n], after[g][n], out.Baseline[g][n]))
			}
		}
	}
	ob, _ := json.Marshal(out)
	if err := os.WriteFile(os.Getenv("C10_OUT"), ob, 0o644); err != nil {
		os.Exit(5)
	}
	os.Exit(0)
}

const (
	childBound = 8 * time.Minute  // total bound of one child: exceeding it is INCONCLUSIVE (slow), never a violation
	repBudget  = 30 * time.Second // repetitions stop being started after this long (the count is a budget, not part of the scenario)
	noProgress = 45 * time.Second // no completed call for this long arms the wedge probe
	idleWindow = 15 * time.Second // probe window
	idleCPU    = 300 * time.Millisecond
)

// cpuTime is the user+system CPU time consumed by this process so far.
func cpuTime() time.Duration {
	var ru syscall.Rusage
	if syscall.Getrusage(syscall.RUSAGE_SELF, &ru) != nil {
		return 0
	}
	return time.Duration(ru.Utime.Nano() + ru.Stime.Nano())
}

// runChild executes the scenario in a child process. kind: ok | crash | race | wedge | setup.
func runChild(s Scenario) (out childOut, kind string, detail string) {
	dir, _ := os.MkdirTemp("", "c10")
	defer os.RemoveAll(dir)
	sp, op := dir+"/scenario.json", dir+"/out.json"
	b, _ := json.Marshal(s)
	_ = os.WriteFile(sp, b, 0o644)
	cmd := exec.Command(os.Args[0], "-test.run", "^$")
	cmd.Env = append(os.Environ(), "C10_CHILD="+sp, "C10_OUT="+op)
	var stderr bytes.Buffer
	cmd.Stderr = &stderr
	cmd.Stdout = &stderr
	if err := cmd.Start(); err != nil {
		return out, "setup", err.Error()
	}
	done := make(chan error, 1)
	go func() { done <- cmd.Wait() }()
	var werr error
	select {
	case werr = <-done:
	case <-time.After(childBound):
		_ = cmd.Process.Signal(syscall.SIGQUIT) // goroutine dump
		select {
		case <-done:
		case <-time.After(5 * time.Second):
			_ = cmd.Process.Kill()
			<-done
		}
		return out, "slow", tail(stderr.String(), 1500)
	}
	se := stderr.String()
	if strings.Contains(se, "CHILD-WEDGED") {
		i := strings.Index(se, "CHILD-WEDGED")
		d := se[i:]
		if len(d) > 6000 {
			d = d[:6000] + "…"
		}
		return out, "wedge", d
	}
	if strings.Contains(se, "WARNING: DATA RACE") {
		return out, "race", tail(se, 4000)
	}
	if strings.Contains(se, "CHILD-SETUP-FAILED") {
		return out, "setup", tail(se, 500)
	}
	if werr != nil {
		return out, "crash", tail(se, 3000)
	}
	ob, err := os.ReadFile(op)
	if err != nil || json.Unmarshal(ob, &out) != nil {
		return out, "crash", "no result file; stderr: " + tail(se, 2000)
	}
	return out, "ok", ""
}

func tail(s string, n int) string {
	if len(s) > n {
		return "…" + s[len(s)-n:]
	}
	return s
}

func run(s Scenario, rec *ev.Recorder) ev.Outcome {
	out, kind, detail := runChild(s)
	classes := []string{"curve:" + s.Curve, fmt.Sprintf("lookup:%v", s.Lookup), fmt.Sprintf("commit:%v", s.Commit),
		fmt.Sprintf("sharedopts:%v/%d", s.SharedOpts, s.ShareMode), fmt.Sprintf("goroutines:%d", len(s.Routines)), fmt.Sprintf("maxprocs:%d", s.MaxProcs), "child:" + kind}
	switch kind {
	case "setup":
		return ev.Outcome{Discard: true, DiscardWhy: "child setup failed: " + detail}
	case "crash":
		return ev.Outcome{Violation: "process running concurrent calls on shared objects crashed:\n" + detail}
	case "race":
		return ev.Outcome{Violation: "data race between concurrent calls on shared objects:\n" + detail}
	case "wedge":
		// a wedge is only reported when it reproduces in 2 of 3 runs (machine load must not fake it)
		again := 0
		if _, k, _ := runChild(s); k == "wedge" {
			again++
		}
		if again >= 1 {
			return ev.Outcome{Violation: fmt.Sprintf("calls on the shared objects never return (2 of 2 runs): no call completed for %v and the process sat idle, every pending call blocked; goroutine dump:\n%s", noProgress, detail)}
		}
		return ev.Outcome{Discard: true, DiscardWhy: "single blocked run (did not reproduce)"}
	case "slow":
		return ev.Outcome{Discard: true, DiscardWhy: "child exceeded its time bound while still making progress (inconclusive)"}
	}
	// sanity of the baseline itself: satisfying witnesses solve, unsatisfying do not
	for g, calls := range s.Routines {
		for n, c := range calls {
			r := out.Baseline[g][n]
			switch {
			case strings.HasPrefix(c.Op, "solve") || strings.HasPrefix(c.Op, "prove"):
				if want := c.Wit < s.NbWit; r.OK != want {
					return ev.Outcome{Violation: fmt.Sprintf("sequential baseline: %+v returned ok=%v (%s), reference says satisfiable=%v", c, r.OK, r.Err, want)}
				}
				if strings.HasPrefix(c.Op, "prove") && r.OK && (!r.Self || r.Other) {
					return ev.Outcome{Violation: fmt.Sprintf("sequential baseline: proof of %+v verifies self=%v other=%v", c, r.Self, r.Other)}
				}
			case strings.HasPrefix(c.Op, "verify"):
				if want := c.Wit%s.NbWit == c.Pub; r.OK != want {
					return ev.Outcome{Violation: fmt.Sprintf("sequential baseline: %+v verdict %v, want %v", c, r.OK, want)}
				}
			}
		}
	}
	if len(out.Mismatches) > 0 {
		return ev.Outcome{Violation: "outcome of a call depends on concurrent calls: " + strings.Join(out.Mismatches, " | ")}
	}
	if len(out.After) > 0 {
		return ev.Outcome{Violation: "earlier calls left state behind that changes later ones: " + strings.Join(out.After, " | ")}
	}
	rec.AddExtra("concurrent_calls_compared", out.Calls)
	stateful := s.Lookup || s.Commit || s.SharedOpts
	return ev.Outcome{NonTrivial: out.MaxOverlap >= 2 && stateful, Classes: append(classes, fmt.Sprintf("overlap>=2:%v", out.MaxOverlap >= 2))}
}

var ops = []string{"solve-r1cs", "solve-r1cs", "solve-scs", "solve-scs", "prove-g16", "prove-plonk", "prove-plonk", "verify-g16", "verify-plonk"}

func genScenario() *rapid.Generator[Scenario] {
	return rapid.Custom(func(t *rapid.T) Scenario {
		s := Scenario{
			Curve:      rapid.SampledFrom([]string{"bn254", "bn254", "bls12-381", "bls12-377"}).Draw(t, "curve"),
			Lookup:     rapid.IntRange(0, 3).Draw(t, "lookup") != 0,
			Commit:     rapid.Bool().Draw(t, "commit"),
			Hints:      rapid.Bool().Draw(t, "hints"),
			NbWit:      rapid.IntRange(2, 5).Draw(t, "nbwit"),
			SharedOpts: rapid.Bool().Draw(t, "sharedopts"),
			NbTasks:    rapid.SampledFrom([]int{0, 1, 2, 16}).Draw(t, "nbtasks"),
			ShareMode:  rapid.IntRange(0, 2).Draw(t, "sharemode"),
			MaxProcs:   rapid.SampledFrom([]int{2, 4, 16}).Draw(t, "maxprocs"),
			Background: rapid.Bool().Draw(t, "background"),
			Decoded:    rapid.Bool().Draw(t, "decoded"),
		}
		s.Reps = 10
		if ev.Tier() == "thorough" {
			s.Reps = 60
		}
		ng := rapid.IntRange(2, 8).Draw(t, "goroutines")
		for g := 0; g < ng; g++ {
			n := rapid.IntRange(1, 4).Draw(t, "ncalls")
			var calls []Call
			for i := 0; i < n; i++ {
				c := Call{Op: rapid.SampledFrom(ops).Draw(t, "op")}
				c.Wit = rapid.IntRange(0, 2*s.NbWit-1).Draw(t, "wit")
				if strings.HasPrefix(c.Op, "verify") {
					c.Wit %= s.NbWit
					c.Pub = rapid.IntRange(0, s.NbWit-1).Draw(t, "pub")
				}
				calls = append(calls, c)
			}
			s.Routines = append(s.Routines, calls)
		}
		return s
	})
}

const rule = "rapid-generated scenarios: one compiled R1CS + sparse system (witness-dependent lookup table, commitment, hints), Groth16 and PLONK keys, proofs and one []solver.Option with spare capacity are SHARED by 2-8 goroutines each running 1-4 drawn calls (Solve / Prove / Verify with distinct satisfying and non-satisfying witnesses, original and restored-from-bytes system), optionally while other circuits are compiled and test-solved in the background; GOMAXPROCS 2/4/16; each scenario repeated (quick 10x, thorough 60x) in a child process. Oracle: every concurrent call returns what the same call returned alone (verdict; solution digest for deterministic systems; proof verifies under its own public witness and no other), a sequential pass afterwards still equals the baseline, the child neither crashes, reports a data race (race build in the thorough tier) nor wedges (reproduced twice). Non-trivial: >= 2 calls overlapped in time on the shared objects and the system has a stateful instruction, a commitment or the shared option slice. Distinct: SHA-256 of the scenario JSON."

// TestSharedProverOptions: directed scenarios in which every goroutine proves
// (satisfying witnesses, commitment circuit) with the SAME caller-owned option
// objects — the solver-option slice, one ProverOption value, one []ProverOption
// slice — for both backends: what a prover appends for its own use (the
// commitment hint override) must never reach another prover.
func TestSharedProverOptions(t *testing.T) {
	rec := ev.Get(ID)
	for _, op := range []string{"prove-g16", "prove-plonk"} {
		for mode := 0; mode <= 2; mode++ {
			for _, lookup := range []bool{false, true} {
				if lookup && (ev.Tier() == "quick" && mode != int(ev.Seed()%3)) {
					continue
				}
				s := Scenario{Curve: "bn254", Lookup: lookup, Commit: true, Hints: true, NbWit: 3, SharedOpts: true, ShareMode: mode,
					NbTasks: 2, MaxProcs: 16, Reps: ev.N(10, 40)}
				for g := 0; g < 4; g++ {
					s.Routines = append(s.Routines, []Call{{Op: op, Wit: g % 3}, {Op: op, Wit: (g + 1) % 3}})
				}
				rec.Begin("scenario", s)
				o := run(s, rec)
				o.Classes = append(o.Classes, "directed:shared-prover-options")
				rec.Report(t, "scenario", s, o)
			}
		}
	}
}

func TestConcurrentUse(t *testing.T) {
	rec := ev.Get(ID)
	rec.SetRule(rule)
	rec.Assume("goroutine interleavings are sampled by repetition, not enumerated: a failure that needs one specific interleaving can be missed")
	g := genScenario()
	rec.Check(t, "scenario", ev.N(24, 400), func(rt *rapid.T) {
		s := g.Draw(rt, "scenario")
		rec.Begin("scenario", s)
		rec.Report(rt, "scenario", s, run(s, rec))
	})
}

func TestReplay(t *testing.T) { ev.Replay(t) }

// Package prog is engine E1: straight-line programs over frontend.API, a
// generic circuit that executes them in Define, and an independent reference
// interpreter over math/big written from the doc comments of frontend/api.go.
package prog

import (
	"fmt"
	"math/big"
	"strings"

	"github.com/consensys/gnark-crypto/ecc"
	"github.com/consensys/gnark-crypto/field/babybear"
	"github.com/consensys/gnark-crypto/field/koalabear"
	"github.com/consensys/gnark/constraint/solver"
	"github.com/consensys/gnark/frontend"
)

// Val is a field-independent description of a value, so that one program can be
// evaluated at the boundary values of every field.
//
//	B="n": O                (small integer, may be negative)
//	B="p": q+O              (around the modulus: p-1, p-2 …)
//	B="h": (q-1)/2+O        (around the half)
//	B="2": 2^K+O            (around powers of two; K is taken modulo bitlen+1)
//	B="r": R (hex) mod q    (uniform)
type Val struct {
	B string `json:"b"`
	K int    `json:"k,omitempty"`
	O int64  `json:"o,omitempty"`
	R string `json:"r,omitempty"`
}

// In returns the canonical representative of v in F_q.
func (v Val) In(q *big.Int) *big.Int {
	r := new(big.Int)
	switch v.B {
	case "n":
		r.SetInt64(v.O)
	case "p":
		r.Add(q, big.NewInt(v.O))
	case "h":
		r.Sub(q, big.NewInt(1))
		r.Rsh(r, 1)
		r.Add(r, big.NewInt(v.O))
	case "2":
		k := v.K % (q.BitLen() + 1)
		if k < 0 {
			k = -k
		}
		r.Lsh(big.NewInt(1), uint(k))
		r.Add(r, big.NewInt(v.O))
	case "r":
		r.SetString(v.R, 16)
	default:
		panic("bad Val base " + v.B)
	}
	return r.Mod(r, q)
}

// Input is a program input: a compile-time constant, a public or a secret variable.
type Input struct {
	Kind string `json:"k"` // "c" | "p" | "s"
	V    Val    `json:"v"`
}

// Op is one instruction. Arguments are slot indices; results are appended to the slot list.
type Op struct {
	Op  string `json:"op"`
	A   []int  `json:"a,omitempty"`
	N   int    `json:"n,omitempty"`   // ToBinary: width (or delta to bitlen when Rel); Hint: number of outputs
	Rel bool   `json:"rel,omitempty"` // ToBinary: width = bitlen(q)+N
	R   int    `json:"r,omitempty"`   // ToBinary: number of low bits exposed as slots
	Q   []int  `json:"q,omitempty"`   // plonk coefficients
}

// Program is a straight-line program; Out lists the slots exposed as public
// outputs (each tied to a public input of the circuit by AssertIsEqual).
type Program struct {
	In  []Input `json:"in"`
	Ops []Op    `json:"ops"`
	Out []int   `json:"out"`
}

// NRes is the number of result slots of an op.
func NRes(o Op) int {
	switch o.Op {
	case "AssertEq", "AssertDiff", "AssertBool", "AssertCrumb", "AssertLE", "AddPlonk", "Commit", "Println":
		return 0
	case "ToBinary":
		return o.R
	case "Hint":
		return o.N
	}
	return 1
}

// NSlots is the total number of slots of p.
func (p *Program) NSlots() int {
	n := len(p.In)
	for _, o := range p.Ops {
		n += NRes(o)
	}
	return n
}

// Width resolves the ToBinary width of o in a field of the given bit length.
func Width(o Op, bitlen int) int {
	if o.Rel {
		return bitlen + o.N
	}
	return o.N
}

// ---------------------------------------------------------------------------
// harness hint

// HintLin is the hint used by the "Hint" op: out_j = Σ (i+2)·in_i + j + 1.
func HintLin(q *big.Int, in, out []*big.Int) error {
	s := new(big.Int)
	for i, x := range in {
		t := new(big.Int).Mul(x, big.NewInt(int64(i+2)))
		s.Add(s, t)
	}
	for j := range out {
		out[j].Add(s, big.NewInt(int64(j+1)))
		out[j].Mod(out[j], q)
	}
	return nil
}

func init() { solver.RegisterHint(HintLin) }

// ---------------------------------------------------------------------------
// circuit

// Circuit executes a Program in Define.
type Circuit struct {
	P []frontend.Variable `gnark:",public"`
	S []frontend.Variable `gnark:",secret"`
	O []frontend.Variable `gnark:",public"`

	Prog *Program `gnark:"-"`
	// AllConst: when non-nil, the inputs are taken from here as constants
	// regardless of their declared kind (used by metamorphic relabelling).
	Hook func(api frontend.API, slots []frontend.Variable) `gnark:"-"`
}

// NewCircuit returns the circuit shell for p (slices sized, no values).
func NewCircuit(p *Program) *Circuit {
	c := &Circuit{Prog: p}
	np, ns := 0, 0
	for _, in := range p.In {
		switch in.Kind {
		case "p":
			np++
		case "s":
			ns++
		}
	}
	c.P = make([]frontend.Variable, np)
	c.S = make([]frontend.Variable, ns)
	c.O = make([]frontend.Variable, len(p.Out))
	return c
}

// Assignment returns the full assignment of p's inputs in F_q with the given
// claimed outputs.
func Assignment(p *Program, q *big.Int, outs []*big.Int) *Circuit {
	c := NewCircuit(p)
	ip, is := 0, 0
	for _, in := range p.In {
		switch in.Kind {
		case "p":
			c.P[ip] = in.V.In(q)
			ip++
		case "s":
			c.S[is] = in.V.In(q)
			is++
		}
	}
	for i := range c.O {
		c.O[i] = new(big.Int).Set(outs[i])
	}
	return c
}

func (c *Circuit) Define(api frontend.API) error {
	p := c.Prog
	q := api.Compiler().Field()
	bitlen := q.BitLen()
	slots := make([]frontend.Variable, 0, p.NSlots())
	ip, is := 0, 0
	for _, in := range p.In {
		switch in.Kind {
		case "c":
			slots = append(slots, in.V.In(q))
		case "p":
			slots = append(slots, c.P[ip])
			ip++
		case "s":
			slots = append(slots, c.S[is])
			is++
		default:
			return fmt.Errorf("bad input kind %q", in.Kind)
		}
	}
	var lastCommit frontend.Variable
	arg := func(o Op, i int) frontend.Variable { return slots[o.A[i]] }
	rest := func(o Op, from int) []frontend.Variable {
		r := make([]frontend.Variable, 0, len(o.A))
		for i := from; i < len(o.A); i++ {
			r = append(r, slots[o.A[i]])
		}
		return r
	}
	for _, o := range p.Ops {
		switch o.Op {
		case "Add":
			slots = append(slots, api.Add(arg(o, 0), arg(o, 1), rest(o, 2)...))
		case "Sub":
			slots = append(slots, api.Sub(arg(o, 0), arg(o, 1), rest(o, 2)...))
		case "Mul":
			slots = append(slots, api.Mul(arg(o, 0), arg(o, 1), rest(o, 2)...))
		case "Neg":
			slots = append(slots, api.Neg(arg(o, 0)))
		case "MulAcc":
			// documented copy idiom, then an accumulation chain that may mutate in place
			acc := api.Mul(arg(o, 0), 1)
			for i := 1; i+1 < len(o.A); i += 2 {
				acc = api.MulAcc(acc, arg(o, i), arg(o, i+1))
			}
			slots = append(slots, acc)
		case "Div":
			slots = append(slots, api.Div(arg(o, 0), arg(o, 1)))
		case "DivUnchecked":
			slots = append(slots, api.DivUnchecked(arg(o, 0), arg(o, 1)))
		case "Inverse":
			slots = append(slots, api.Inverse(arg(o, 0)))
		case "ToBinary":
			bits := api.ToBinary(arg(o, 0), Width(o, bitlen))
			if len(bits) != Width(o, bitlen) {
				return fmt.Errorf("ToBinary returned %d bits, want %d", len(bits), Width(o, bitlen))
			}
			slots = append(slots, bits[:o.R]...)
		case "FromBinary":
			slots = append(slots, api.FromBinary(rest(o, 0)...))
		case "Xor":
			slots = append(slots, api.Xor(arg(o, 0), arg(o, 1)))
		case "Or":
			slots = append(slots, api.Or(arg(o, 0), arg(o, 1)))
		case "And":
			slots = append(slots, api.And(arg(o, 0), arg(o, 1)))
		case "Select":
			slots = append(slots, api.Select(arg(o, 0), arg(o, 1), arg(o, 2)))
		case "Lookup2":
			slots = append(slots, api.Lookup2(arg(o, 0), arg(o, 1), arg(o, 2), arg(o, 3), arg(o, 4), arg(o, 5)))
		case "IsZero":
			slots = append(slots, api.IsZero(arg(o, 0)))
		case "Cmp":
			slots = append(slots, api.Cmp(arg(o, 0), arg(o, 1)))
		case "AssertEq":
			api.AssertIsEqual(arg(o, 0), arg(o, 1))
		case "AssertDiff":
			api.AssertIsDifferent(arg(o, 0), arg(o, 1))
		case "AssertBool":
			api.AssertIsBoolean(arg(o, 0))
		case "AssertCrumb":
			api.AssertIsCrumb(arg(o, 0))
		case "AssertLE":
			api.AssertIsLessOrEqual(arg(o, 0), arg(o, 1))
		case "Println":
			api.Println(rest(o, 0)...)
		case "Hint":
			outs, err := api.Compiler().NewHint(HintLin, o.N, rest(o, 0)...)
			if err != nil {
				return err
			}
			slots = append(slots, outs...)
		case "Commit":
			cm, ok := api.Compiler().(frontend.Committer)
			if !ok {
				return fmt.Errorf("builder does not implement Committer")
			}
			args := rest(o, 0)
			if o.N == 1 && lastCommit != nil {
				args = append(args, lastCommit)
			}
			cv, err := cm.Commit(args...)
			if err != nil {
				return err
			}
			api.AssertIsDifferent(cv, 0)
			lastCommit = cv
		case "EvalPlonk":
			if pa, ok := api.(frontend.PlonkAPI); ok {
				slots = append(slots, pa.EvaluatePlonkExpression(arg(o, 0), arg(o, 1), o.Q[0], o.Q[1], o.Q[2], o.Q[3]))
			} else {
				a, b := arg(o, 0), arg(o, 1)
				slots = append(slots, api.Add(api.Mul(a, o.Q[0]), api.Mul(b, o.Q[1]), api.Mul(a, b, o.Q[2]), o.Q[3]))
			}
		case "AddPlonk":
			if pa, ok := api.(frontend.PlonkAPI); ok {
				pa.AddPlonkConstraint(arg(o, 0), arg(o, 1), arg(o, 2), o.Q[0], o.Q[1], o.Q[2], o.Q[3], o.Q[4])
			} else {
				a, b, c := arg(o, 0), arg(o, 1), arg(o, 2)
				api.AssertIsEqual(api.Add(api.Mul(a, o.Q[0]), api.Mul(b, o.Q[1]), api.Mul(c, o.Q[2]), api.Mul(a, b, o.Q[3]), o.Q[4]), 0)
			}
		default:
			return fmt.Errorf("unknown op %q", o.Op)
		}
	}
	for i, s := range p.Out {
		api.AssertIsEqual(c.O[i], slots[s])
	}
	if c.Hook != nil {
		c.Hook(api, slots)
	}
	return nil
}

// ---------------------------------------------------------------------------
// fields

// Field describes a scalar field the frontend can compile for.
type Field struct {
	Name  string
	Q     *big.Int
	Small bool   // U32 builders
	Curve ecc.ID // for pairing fields
}

var curveIDs = []ecc.ID{ecc.BN254, ecc.BLS12_377, ecc.BLS12_381, ecc.BLS24_315, ecc.BLS24_317, ecc.BW6_633, ecc.BW6_761}

// Curves are the seven pairing-curve scalar fields.
func Curves() []Field {
	var r []Field
	for _, id := range curveIDs {
		r = append(r, Field{Name: strings.ReplaceAll(id.String(), "_", "-"), Q: id.ScalarField(), Curve: id})
	}
	return r
}

// F47 is the 47-element test field.
func F47() Field { return Field{Name: "f47", Q: big.NewInt(47), Small: true} }

// SmallFields are the U32 fields.
func SmallFields() []Field {
	return []Field{F47(), {Name: "babybear", Q: babybear.Modulus(), Small: true}, {Name: "koalabear", Q: koalabear.Modulus(), Small: true}}
}

// FieldByName looks a field up.
func FieldByName(n string) Field {
	for _, f := range append(Curves(), SmallFields()...) {
		if f.Name == n {
			return f
		}
	}
	panic("unknown field " + n)
}

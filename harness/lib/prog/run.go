package prog

import (
	"bytes"
	"fmt"
	"io"
	"math/big"

	"github.com/consensys/gnark/backend/witness"
	"github.com/consensys/gnark/constraint"
	"github.com/consensys/gnark/constraint/solver"
	"github.com/consensys/gnark/frontend"
	"github.com/consensys/gnark/frontend/cs/r1cs"
	"github.com/consensys/gnark/frontend/cs/scs"
)

// System is the element-type independent part of a compiled constraint system.
type System interface {
	io.WriterTo
	io.ReaderFrom
	Solve(w witness.Witness, opts ...solver.Option) (any, error)
	IsSolved(w witness.Witness, opts ...solver.Option) error
	GetNbConstraints() int
	GetNbInstructions() int
	GetNbCoefficients() int
	GetNbInternalVariables() int
	GetNbSecretVariables() int
	GetNbPublicVariables() int
	Field() *big.Int
	FieldBitLen() int
	GetCommitments() constraint.Commitments
}

// Builders
const (
	R1CS = "r1cs"
	SCS  = "scs"
)

// Compile compiles c for field f with the named builder. A panic escaping
// frontend.Compile is returned as an error prefixed "PANIC".
func Compile(f Field, builder string, c frontend.Circuit, opts ...frontend.CompileOption) (sys System, err error) {
	defer func() {
		if r := recover(); r != nil {
			err = fmt.Errorf("PANIC escaping Compile: %v", r)
		}
	}()
	if f.Small {
		var nb frontend.NewBuilderU32
		if builder == R1CS {
			nb = r1cs.NewBuilder[constraint.U32]
		} else {
			nb = scs.NewBuilder[constraint.U32]
		}
		s, e := frontend.CompileU32(f.Q, nb, c, opts...)
		if e != nil {
			return nil, e
		}
		return s, nil
	}
	var nb frontend.NewBuilder
	if builder == R1CS {
		nb = r1cs.NewBuilder[constraint.U64]
	} else {
		nb = scs.NewBuilder[constraint.U64]
	}
	s, e := frontend.Compile(f.Q, nb, c, opts...)
	if e != nil {
		return nil, e
	}
	return s, nil
}

// CompileU64 is Compile for pairing fields returning the full interface.
func CompileU64(f Field, builder string, c frontend.Circuit, opts ...frontend.CompileOption) (constraint.ConstraintSystem, error) {
	s, err := Compile(f, builder, c, opts...)
	if err != nil {
		return nil, err
	}
	return s.(constraint.ConstraintSystem), nil
}

// Witness builds the full witness of an assignment.
func Witness(f Field, assignment frontend.Circuit, opts ...frontend.WitnessOption) (witness.Witness, error) {
	return frontend.NewWitness(assignment, f.Q, opts...)
}

// Solve solves sys with the assignment; a panic is returned as an error prefixed "PANIC".
func Solve(sys System, w witness.Witness, opts ...solver.Option) (sol any, err error) {
	defer func() {
		if r := recover(); r != nil {
			err = fmt.Errorf("PANIC escaping Solve: %v", r)
		}
	}()
	return sys.Solve(w, opts...)
}

// Bytes serialises a constraint system.
func Bytes(sys io.WriterTo) []byte {
	var b bytes.Buffer
	if _, err := sys.WriteTo(&b); err != nil {
		panic(err)
	}
	return b.Bytes()
}

package prog

import (
	"math/big"

	"pgregory.net/rapid"
)

// GenConfig parametrises the program generator.
type GenConfig struct {
	Q        *big.Int // field in which values are tracked to bias the choices (any field works)
	MinIn    int
	MaxIn    int
	MinOps   int
	MaxOps   int
	MaxOut   int
	Kinds    []string       // allowed input kinds, default c,p,s
	Weights  map[string]int // op weights; missing ops get DefaultWeights
	PFail    int            // percent of assertion/precondition choices made without bias toward success (default 25)
	NoHeavy  bool           // drop Cmp / AssertLE / full-width ToBinary (thousands of constraints on curve fields)
	MinPub   int            // force at least this many public inputs
	NoConstK bool
}

// DefaultWeights is the op mix used when GenConfig.Weights is nil.
var DefaultWeights = map[string]int{
	"Add": 10, "Sub": 8, "Mul": 10, "Neg": 4, "MulAcc": 6, "Div": 4, "DivUnchecked": 4, "Inverse": 3,
	"ToBinary": 5, "FromBinary": 4, "Xor": 4, "Or": 4, "And": 4, "Select": 6, "Lookup2": 4, "IsZero": 5, "Cmp": 3,
	"AssertEq": 4, "AssertDiff": 3, "AssertBool": 3, "AssertCrumb": 2, "AssertLE": 3, "Hint": 3, "Println": 1,
	"EvalPlonk": 3, "AddPlonk": 2, "Commit": 0, "Sum": 3,
}

var opOrder = []string{"Add", "Sub", "Mul", "Neg", "MulAcc", "Div", "DivUnchecked", "Inverse", "ToBinary", "FromBinary",
	"Xor", "Or", "And", "Select", "Lookup2", "IsZero", "Cmp", "AssertEq", "AssertDiff", "AssertBool", "AssertCrumb",
	"AssertLE", "Hint", "Println", "EvalPlonk", "AddPlonk", "Commit", "Sum"}

// GenVal draws a boundary-biased value description.
func GenVal(t *rapid.T, label string) Val {
	switch rapid.IntRange(0, 11).Draw(t, label+".class") {
	case 0, 1:
		return Val{B: "n", O: int64(rapid.IntRange(0, 1).Draw(t, label+".bit"))}
	case 2, 3:
		return Val{B: "n", O: int64(rapid.IntRange(0, 5).Draw(t, label+".small"))}
	case 4:
		return Val{B: "n", O: int64(rapid.IntRange(-3, 70).Draw(t, label+".int"))}
	case 5, 6:
		return Val{B: "p", O: int64(rapid.IntRange(-3, -1).Draw(t, label+".pm"))}
	case 7:
		return Val{B: "h", O: int64(rapid.IntRange(-1, 2).Draw(t, label+".hm"))}
	case 8, 9:
		return Val{B: "2", K: rapid.IntRange(0, 400).Draw(t, label+".k"), O: int64(rapid.IntRange(-1, 1).Draw(t, label+".o"))}
	default:
		b := rapid.SliceOfN(rapid.Byte(), 1, 48).Draw(t, label+".rand")
		return Val{B: "r", R: new(big.Int).SetBytes(b).Text(16)}
	}
}

type genState struct {
	t    *rapid.T
	cfg  GenConfig
	p    *Program
	vals []*big.Int
	n    int // draw counter for labels
}

func (g *genState) refresh() {
	r := EvalLenient(g.p, g.cfg.Q)
	g.vals = r.Slots
}

func (g *genState) any() int {
	return rapid.IntRange(0, len(g.vals)-1).Draw(g.t, "slot")
}

// pick returns a slot satisfying pred with probability (100-PFail)%, if one exists.
func (g *genState) pick(pred func(v *big.Int) bool) int {
	if rapid.IntRange(0, 99).Draw(g.t, "unbiased") < g.cfg.PFail {
		return g.any()
	}
	var c []int
	for i, v := range g.vals {
		if pred(v) {
			c = append(c, i)
		}
	}
	if len(c) == 0 {
		return g.any()
	}
	return c[rapid.IntRange(0, len(c)-1).Draw(g.t, "cand")]
}

func (g *genState) bit() int     { return g.pick(isBool) }
func (g *genState) nonzero() int { return g.pick(func(v *big.Int) bool { return v.Sign() != 0 }) }

// Gen draws a program.
func Gen(cfg GenConfig) *rapid.Generator[*Program] {
	if cfg.Q == nil {
		cfg.Q = big.NewInt(47)
	}
	if cfg.MaxIn == 0 {
		cfg.MaxIn = 5
	}
	if cfg.MinIn == 0 {
		cfg.MinIn = 1
	}
	if cfg.MaxOps == 0 {
		cfg.MaxOps = 12
	}
	if cfg.MaxOut == 0 {
		cfg.MaxOut = 3
	}
	if len(cfg.Kinds) == 0 {
		cfg.Kinds = []string{"c", "p", "s"}
	}
	if cfg.PFail == 0 {
		cfg.PFail = 25
	}
	w := map[string]int{}
	for k, v := range DefaultWeights {
		w[k] = v
	}
	for k, v := range cfg.Weights {
		w[k] = v
	}
	if cfg.NoHeavy {
		w["Cmp"], w["AssertLE"] = 0, 0
	}
	var names []string
	var cum []int
	tot := 0
	for _, k := range opOrder {
		if w[k] > 0 {
			tot += w[k]
			names = append(names, k)
			cum = append(cum, tot)
		}
	}
	return rapid.Custom(func(t *rapid.T) *Program {
		g := &genState{t: t, cfg: cfg, p: &Program{}}
		nin := rapid.IntRange(cfg.MinIn, cfg.MaxIn).Draw(t, "nin")
		for i := 0; i < nin; i++ {
			k := rapid.SampledFrom(cfg.Kinds).Draw(t, "kind")
			if i < cfg.MinPub {
				k = "p"
			}
			g.p.In = append(g.p.In, Input{Kind: k, V: GenVal(t, "val")})
		}
		g.refresh()
		nops := rapid.IntRange(cfg.MinOps, cfg.MaxOps).Draw(t, "nops")
		bitlen := cfg.Q.BitLen()
		for i := 0; i < nops; i++ {
			x := rapid.IntRange(0, tot-1).Draw(t, "op")
			name := names[len(names)-1]
			for j, c := range cum {
				if x < c {
					name = names[j]
					break
				}
			}
			o := Op{Op: name}
			switch name {
			case "Add", "Sub", "Mul":
				n := rapid.IntRange(2, 5).Draw(t, "arity")
				for k := 0; k < n; k++ {
					o.A = append(o.A, g.any())
				}
			case "Sum":
				o.Op = "Add"
				n := rapid.IntRange(6, 24).Draw(t, "arity")
				for k := 0; k < n; k++ {
					o.A = append(o.A, g.any())
				}
			case "Neg", "IsZero":
				o.A = []int{g.any()}
			case "MulAcc":
				n := rapid.IntRange(1, 4).Draw(t, "pairs")
				o.A = []int{g.any()}
				for k := 0; k < n; k++ {
					o.A = append(o.A, g.any(), g.any())
				}
			case "Div", "DivUnchecked":
				o.A = []int{g.any(), g.nonzero()}
				if name == "DivUnchecked" && rapid.IntRange(0, 9).Draw(t, "zz") == 0 {
					z := func(v *big.Int) bool { return v.Sign() == 0 }
					o.A = []int{g.pick(z), g.pick(z)}
				}
			case "Inverse":
				o.A = []int{g.nonzero()}
			case "ToBinary":
				a := g.any()
				o.A = []int{a}
				need := g.vals[a].BitLen()
				if need < 1 {
					need = 1
				}
				mode := rapid.IntRange(0, 9).Draw(t, "tbmode")
				switch {
				case mode <= 1 && !cfg.NoHeavy: // relative to the field size
					o.Rel = true
					o.N = rapid.IntRange(-1, 2).Draw(t, "delta")
				case mode <= 1:
					o.N = rapid.IntRange(1, 12).Draw(t, "width")
				case mode <= 7: // fits
					hi := need + 3
					if cfg.NoHeavy && hi > 16 {
						hi = need
					}
					o.N = rapid.IntRange(need, hi).Draw(t, "width")
				default: // probably too narrow
					o.N = rapid.IntRange(1, need).Draw(t, "width")
				}
				wd := Width(o, bitlen)
				if wd < 1 {
					o.Rel, o.N, wd = false, 1, 1
				}
				maxR := 4
				if wd < maxR {
					maxR = wd
				}
				if o.Rel && maxR > 4 {
					maxR = 4
				}
				o.R = rapid.IntRange(1, maxR).Draw(t, "exposed")
			case "FromBinary":
				n := rapid.IntRange(1, 8).Draw(t, "nbits")
				for k := 0; k < n; k++ {
					o.A = append(o.A, g.bit())
				}
			case "Xor", "Or", "And":
				o.A = []int{g.bit(), g.bit()}
			case "Select":
				o.A = []int{g.bit(), g.any(), g.any()}
			case "Lookup2":
				o.A = []int{g.bit(), g.bit(), g.any(), g.any(), g.any(), g.any()}
			case "Cmp":
				a := g.any()
				b := g.any()
				if rapid.IntRange(0, 3).Draw(t, "cmpeq") == 0 {
					av := g.vals[a]
					b = g.pick(func(v *big.Int) bool { return v.Cmp(av) == 0 })
				}
				o.A = []int{a, b}
			case "AssertEq":
				a := g.any()
				av := g.vals[a]
				o.A = []int{a, g.pick(func(v *big.Int) bool { return v.Cmp(av) == 0 })}
			case "AssertDiff":
				a := g.any()
				av := g.vals[a]
				o.A = []int{a, g.pick(func(v *big.Int) bool { return v.Cmp(av) != 0 })}
			case "AssertBool":
				o.A = []int{g.bit()}
			case "AssertCrumb":
				o.A = []int{g.pick(func(v *big.Int) bool { return v.Cmp(big.NewInt(3)) <= 0 })}
			case "AssertLE":
				a := g.any()
				av := g.vals[a]
				o.A = []int{a, g.pick(func(v *big.Int) bool { return v.Cmp(av) >= 0 })}
			case "Hint":
				n := rapid.IntRange(0, 3).Draw(t, "hin")
				for k := 0; k < n; k++ {
					o.A = append(o.A, g.any())
				}
				o.N = rapid.IntRange(1, 3).Draw(t, "hout")
			case "Println":
				n := rapid.IntRange(1, 3).Draw(t, "pn")
				for k := 0; k < n; k++ {
					o.A = append(o.A, g.any())
				}
			case "Commit":
				n := rapid.IntRange(1, 4).Draw(t, "cn")
				for k := 0; k < n; k++ {
					o.A = append(o.A, g.any())
				}
				o.N = rapid.IntRange(0, 1).Draw(t, "chain")
			case "EvalPlonk":
				o.A = []int{g.any(), g.any()}
				o.Q = drawCoefs(t, 4)
			case "AddPlonk":
				a, b := g.any(), g.any()
				o.Q = drawCoefs(t, 5)
				// bias toward a satisfied constraint: choose qO=-1 and o = value of the expression when available
				o.A = []int{a, b, g.any()}
				if rapid.IntRange(0, 99).Draw(t, "plonkfit") >= cfg.PFail {
					o.Q[2] = -1
					want := new(big.Int).Mul(g.vals[a], big.NewInt(int64(o.Q[0])))
					want.Add(want, new(big.Int).Mul(g.vals[b], big.NewInt(int64(o.Q[1]))))
					ab := new(big.Int).Mul(g.vals[a], g.vals[b])
					want.Add(want, ab.Mul(ab, big.NewInt(int64(o.Q[3]))))
					want.Add(want, big.NewInt(int64(o.Q[4])))
					want.Mod(want, cfg.Q)
					o.A[2] = g.pick(func(v *big.Int) bool { return v.Cmp(want) == 0 })
				}
			}
			g.p.Ops = append(g.p.Ops, o)
			g.refresh()
		}
		// outputs: 1..MaxOut slots, biased to late slots
		nout := rapid.IntRange(1, cfg.MaxOut).Draw(t, "nout")
		ns := len(g.vals)
		for i := 0; i < nout; i++ {
			lo := 0
			if ns > len(g.p.In) && rapid.IntRange(0, 3).Draw(t, "late") != 0 {
				lo = len(g.p.In)
			}
			g.p.Out = append(g.p.Out, rapid.IntRange(lo, ns-1).Draw(t, "out"))
		}
		return g.p
	})
}

func drawCoefs(t *rapid.T, n int) []int {
	r := make([]int, n)
	for i := range r {
		r[i] = rapid.IntRange(-3, 5).Draw(t, "coef")
	}
	return r
}

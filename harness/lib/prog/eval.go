package prog

import (
	"fmt"
	"math/big"
)

// Result of the reference interpretation of a program in one field.
type Result struct {
	OK       bool       // every assertion / implicit precondition holds
	Why      string     // first failing op when !OK
	FailAt   int        // index of the failing op (-1 when OK)
	Slots    []*big.Int // values of all slots computed before the failure
	Outs     []*big.Int // values of the Out slots (only when OK)
	Excluded string     // non-empty: (program, field) is outside the checked domain
	ZeroDiv  bool       // some Div/DivUnchecked/Inverse saw a zero divisor (used for the const-zero exclusion)
	Free     bool       // an output depends on the documented-unconstrained 0/0 quotient
}

func isBool(x *big.Int) bool { return x.Sign() == 0 || (x.IsInt64() && x.Int64() == 1) }

// Eval interprets p over F_q following the doc comments of frontend/api.go.
func Eval(p *Program, q *big.Int) Result { return eval(p, q, false) }

// EvalLenient is Eval that keeps going after the first failure (failed ops
// produce zeros); used by the generator to keep tracking values.
func EvalLenient(p *Program, q *big.Int) Result { return eval(p, q, true) }

type stop struct{}

func eval(p *Program, q *big.Int, lenient bool) (res Result) {
	res = Result{FailAt: -1}
	defer func() {
		if r := recover(); r != nil {
			if _, ok := r.(stop); !ok {
				panic(r)
			}
		}
	}()
	bitlen := q.BitLen()
	mod := func(x *big.Int) *big.Int { return x.Mod(x, q) }
	slots := make([]*big.Int, 0, p.NSlots())
	tainted := make([]bool, 0, p.NSlots()) // depends on a 0/0 quotient
	for _, in := range p.In {
		slots = append(slots, in.V.In(q))
		tainted = append(tainted, false)
	}
	failed := false
	fail := func(i int, why string) {
		if !failed {
			failed = true
			res.Why = fmt.Sprintf("op %d %s: %s", i, p.Ops[i].Op, why)
			res.FailAt = i
			// a failure that depends on the documented-unconstrained 0/0 quotient is not a
			// verdict about the constraints: a prover may pick another quotient
			for _, k := range p.Ops[i].A {
				if tainted[k] {
					res.Free = true
				}
			}
		}
		if !lenient {
			res.Slots = slots
			panic(stop{})
		}
		for k := 0; k < NRes(p.Ops[i]); k++ {
			slots = append(slots, new(big.Int))
			tainted = append(tainted, false)
		}
	}
ops:
	for i, o := range p.Ops {
		a := func(k int) *big.Int { return slots[o.A[k]] }
		t := false
		for _, k := range o.A {
			t = t || tainted[k]
		}
		push := func(x *big.Int) {
			slots = append(slots, x)
			tainted = append(tainted, t)
		}
		switch o.Op {
		case "Add":
			s := new(big.Int)
			for k := range o.A {
				s.Add(s, a(k))
			}
			push(mod(s))
		case "Sub":
			s := new(big.Int).Set(a(0))
			for k := 1; k < len(o.A); k++ {
				s.Sub(s, a(k))
			}
			push(mod(s))
		case "Mul":
			s := big.NewInt(1)
			for k := range o.A {
				s.Mul(s, a(k))
				s.Mod(s, q)
			}
			push(s)
		case "Neg":
			push(mod(new(big.Int).Neg(a(0))))
		case "MulAcc":
			s := new(big.Int).Set(a(0))
			for k := 1; k+1 < len(o.A); k += 2 {
				s.Add(s, new(big.Int).Mul(a(k), a(k+1)))
			}
			push(mod(s))
		case "Div":
			if a(1).Sign() == 0 {
				res.ZeroDiv = true
				fail(i, "division by zero")
				continue ops
			}
			inv := new(big.Int).ModInverse(a(1), q)
			push(mod(inv.Mul(inv, a(0))))
		case "DivUnchecked":
			if a(1).Sign() == 0 {
				res.ZeroDiv = true
				if a(0).Sign() != 0 {
					fail(i, "x/0 with x != 0")
					continue ops
				}
				// documented: 0/0 returns 0, unconstrained
				t = true
				push(new(big.Int))
			} else {
				inv := new(big.Int).ModInverse(a(1), q)
				push(mod(inv.Mul(inv, a(0))))
			}
		case "Inverse":
			if a(0).Sign() == 0 {
				res.ZeroDiv = true
				fail(i, "inverse of zero")
				continue ops
			}
			push(new(big.Int).ModInverse(a(0), q))
		case "ToBinary":
			n := Width(o, bitlen)
			if n < 1 || o.R > n {
				res.Excluded = "ToBinary width outside the generated domain"
				res.Slots = slots
				panic(stop{})
			}
			if a(0).BitLen() > n {
				fail(i, fmt.Sprintf("value %s does not fit %d bits", a(0), n))
				continue ops
			}
			for b := 0; b < o.R; b++ {
				push(big.NewInt(int64(a(0).Bit(b))))
			}
		case "FromBinary":
			s := new(big.Int)
			for k := range o.A {
				if !isBool(a(k)) {
					fail(i, fmt.Sprintf("bit %d = %s is not boolean", k, a(k)))
					continue ops
				}
				if a(k).Sign() != 0 {
					s.Add(s, new(big.Int).Lsh(big.NewInt(1), uint(k)))
				}
			}
			push(mod(s))
		case "Xor", "Or", "And":
			if !isBool(a(0)) || !isBool(a(1)) {
				fail(i, "operand is not boolean")
				continue ops
			}
			x, y := a(0).Int64(), a(1).Int64()
			var r int64
			switch o.Op {
			case "Xor":
				r = x ^ y
			case "Or":
				r = x | y
			case "And":
				r = x & y
			}
			push(big.NewInt(r))
		case "Select":
			if !isBool(a(0)) {
				fail(i, "condition is not boolean")
				continue ops
			}
			if a(0).Sign() != 0 {
				push(new(big.Int).Set(a(1)))
			} else {
				push(new(big.Int).Set(a(2)))
			}
		case "Lookup2":
			if !isBool(a(0)) || !isBool(a(1)) {
				fail(i, "selector bit is not boolean")
				continue ops
			}
			idx := int(a(0).Int64() + 2*a(1).Int64())
			push(new(big.Int).Set(a(2 + idx)))
		case "IsZero":
			if a(0).Sign() == 0 {
				push(big.NewInt(1))
			} else {
				push(big.NewInt(0))
			}
		case "Cmp":
			switch a(0).Cmp(a(1)) {
			case 1:
				push(big.NewInt(1))
			case 0:
				push(big.NewInt(0))
			default:
				push(new(big.Int).Sub(q, big.NewInt(1)))
			}
		case "AssertEq":
			if a(0).Cmp(a(1)) != 0 {
				fail(i, fmt.Sprintf("%s != %s", a(0), a(1)))
				continue ops
			}
		case "AssertDiff":
			if a(0).Cmp(a(1)) == 0 {
				fail(i, "operands equal")
				continue ops
			}
		case "AssertBool":
			if !isBool(a(0)) {
				fail(i, fmt.Sprintf("%s not boolean", a(0)))
				continue ops
			}
		case "AssertCrumb":
			if a(0).Cmp(big.NewInt(3)) > 0 {
				fail(i, fmt.Sprintf("%s not a crumb", a(0)))
				continue ops
			}
		case "AssertLE":
			if a(0).Cmp(a(1)) > 0 {
				fail(i, fmt.Sprintf("%s > %s", a(0), a(1)))
				continue ops
			}
		case "Println", "Commit":
			// no semantic effect on the assertions
		case "Hint":
			in := make([]*big.Int, len(o.A))
			for k := range o.A {
				in[k] = a(k)
			}
			out := make([]*big.Int, o.N)
			for k := range out {
				out[k] = new(big.Int)
			}
			_ = HintLin(q, in, out)
			for _, x := range out {
				push(x)
			}
		case "EvalPlonk":
			s := new(big.Int).Mul(a(0), big.NewInt(int64(o.Q[0])))
			s.Add(s, new(big.Int).Mul(a(1), big.NewInt(int64(o.Q[1]))))
			ab := new(big.Int).Mul(a(0), a(1))
			s.Add(s, ab.Mul(ab, big.NewInt(int64(o.Q[2]))))
			s.Add(s, big.NewInt(int64(o.Q[3])))
			push(mod(s))
		case "AddPlonk":
			s := new(big.Int).Mul(a(0), big.NewInt(int64(o.Q[0])))
			s.Add(s, new(big.Int).Mul(a(1), big.NewInt(int64(o.Q[1]))))
			s.Add(s, new(big.Int).Mul(a(2), big.NewInt(int64(o.Q[2]))))
			ab := new(big.Int).Mul(a(0), a(1))
			s.Add(s, ab.Mul(ab, big.NewInt(int64(o.Q[3]))))
			s.Add(s, big.NewInt(int64(o.Q[4])))
			if mod(s).Sign() != 0 {
				fail(i, "plonk constraint not zero")
				continue ops
			}
		default:
			panic("unknown op " + o.Op)
		}
	}
	res.OK = !failed
	res.Slots = slots
	for _, s := range p.Out {
		res.Outs = append(res.Outs, slots[s])
		if tainted[s] {
			res.Free = true
		}
	}
	// a tainted value feeding an assertion makes the verdict depend on the
	// unconstrained quotient as well; treat the whole case as "free".
	for _, o := range p.Ops {
		if NRes(o) == 0 {
			for _, k := range o.A {
				if tainted[k] {
					res.Free = true
				}
			}
		}
	}
	return res
}

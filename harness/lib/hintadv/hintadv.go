// Package hintadv is engine E4: a hint adversary. Every registered hint is
// wrapped (solver.OverrideHint) by a function that calls the genuine hint and
// then lets a Strategy rewrite chosen outputs of chosen invocations: this is
// exactly the power of a dishonest prover over hint outputs.
package hintadv

import (
	"crypto/sha256"
	"math/big"
	"strings"
	"sync"

	"github.com/consensys/gnark/constraint/solver"
)

// Call describes one hint invocation offered to a strategy.
type Call struct {
	ID      solver.HintID
	Name    string // fully qualified name of the genuine hint function
	Seq     int    // 0-based invocation index of this hint within the solve (deterministic with solver.WithNbTasks(1))
	Mod     *big.Int
	Inputs  []*big.Int
	Outputs []*big.Int // genuine outputs; the strategy may modify them in place
	Err     error      // error returned by the genuine hint (the strategy may clear it)
}

// Strategy rewrites the outputs of a call. It reports whether it changed anything.
type Strategy func(c *Call) bool

// Session holds the per-solve state of an adversary.
type Session struct {
	mu      sync.Mutex
	seq     map[solver.HintID]int
	Changed int      // number of invocations whose outputs were altered
	Seen    []string // names of hints invoked (in order, deduplicated)
}

// ShortName returns the last path element of a hint name (pkg.Func).
func ShortName(name string) string {
	if i := strings.LastIndex(name, "/"); i >= 0 {
		return name[i+1:]
	}
	return name
}

// Options returns solver options that wrap every registered hint whose name
// satisfies match with the strategy. Use together with solver.WithNbTasks(1)
// for a deterministic invocation order.
func Options(strat Strategy, match func(name string) bool) (*Session, []solver.Option) {
	s := &Session{seq: map[solver.HintID]int{}}
	var opts []solver.Option
	for _, h := range solver.GetRegisteredHints() {
		h := h
		name := solver.GetHintName(h)
		if match != nil && !match(name) {
			continue
		}
		id := solver.GetHintID(h)
		opts = append(opts, solver.OverrideHint(id, func(mod *big.Int, in, out []*big.Int) error {
			err := h(mod, in, out)
			s.mu.Lock()
			k := s.seq[id]
			s.seq[id] = k + 1
			found := false
			for _, n := range s.Seen {
				if n == name {
					found = true
				}
			}
			if !found {
				s.Seen = append(s.Seen, name)
			}
			s.mu.Unlock()
			c := &Call{ID: id, Name: name, Seq: k, Mod: mod, Inputs: in, Outputs: out, Err: err}
			if strat(c) {
				s.mu.Lock()
				s.Changed++
				s.mu.Unlock()
				for i := range out {
					out[i].Mod(out[i], mod)
				}
			}
			return c.Err
		}))
	}
	return s, opts
}

// HashCommitment returns an override of the commitment placeholder hint that
// derives the commitment value from SHA-256 of its inputs, so that a challenge
// depends on the (possibly forged) committed values as it does in a real proof.
func HashCommitment() solver.Option {
	for _, h := range solver.GetRegisteredHints() {
		if strings.HasSuffix(solver.GetHintName(h), "Bsb22CommitmentComputePlaceholder") {
			return solver.OverrideHint(solver.GetHintID(h), func(mod *big.Int, in, out []*big.Int) error {
				hh := sha256.New()
				for _, x := range in {
					b := x.Bytes()
					hh.Write([]byte{byte(len(b) >> 8), byte(len(b))})
					hh.Write(b)
				}
				d := hh.Sum(nil)
				d2 := sha256.Sum256(d)
				out[0].SetBytes(append(d, d2[:]...))
				out[0].Mod(out[0], mod)
				if out[0].Sign() == 0 {
					out[0].SetUint64(1)
				}
				return nil
			})
		}
	}
	panic("commitment placeholder hint not registered")
}

// HintNames lists the names of all registered hints.
func HintNames() []string {
	var r []string
	for _, h := range solver.GetRegisteredHints() {
		r = append(r, solver.GetHintName(h))
	}
	return r
}

package ev

import (
	"syscall"
	"time"
)

// Verdict of Bounded.
type Verdict int

const (
	Returned Verdict = iota // f returned
	Busy                    // f is still running after the process burnt cpuBound of CPU time
	Blocked                 // f is still running and the process sits idle: every goroutine of the call is blocked
	Slow                    // wall cap reached while the process was still working: INCONCLUSIVE, never a violation
)

func (v Verdict) String() string {
	return [...]string{"returned", "busy (CPU bound exceeded)", "blocked (process idle)", "slow (inconclusive)"}[v]
}

// ProcessCPU is the user+system CPU time consumed by this process so far.
func ProcessCPU() time.Duration {
	var ru syscall.Rusage
	if syscall.Getrusage(syscall.RUSAGE_SELF, &ru) != nil {
		return 0
	}
	return time.Duration(ru.Utime.Nano() + ru.Stime.Nano())
}

// Bounded runs f and decides non-termination without trusting the wall clock
// (a loaded machine stretches wall time arbitrarily but not CPU time):
//
//   - Busy: the process consumed cpuBound of CPU time since f started and f has
//     not returned. cpuBound must exceed the honest cost of f by orders of
//     magnitude (it also pays for whatever else runs in the process).
//   - Blocked: f has been running for at least 20 s and the process used less
//     than 100 ms of CPU during the last 10 s: nothing is working on it.
//   - Slow: neither happened before wallCap: inconclusive.
//
// After Busy / Blocked / Slow the goroutine running f is abandoned.
func Bounded(cpuBound, wallCap time.Duration, f func()) Verdict {
	done := make(chan struct{})
	go func() {
		defer close(done)
		f()
	}()
	start, cpu0 := time.Now(), ProcessCPU()
	winAt, winCPU := start, cpu0
	tick := time.NewTicker(time.Second) // coarse: frequent wake-ups alone cost more CPU than the idle threshold
	defer tick.Stop()
	for {
		select {
		case <-done:
			return Returned
		case <-tick.C:
		}
		now, cpu := time.Now(), ProcessCPU()
		if cpu-cpu0 >= cpuBound {
			return Busy
		}
		if now.Sub(winAt) >= 10*time.Second {
			if now.Sub(start) >= 20*time.Second && cpu-winCPU < 100*time.Millisecond {
				return Blocked
			}
			winAt, winCPU = now, cpu
		}
		if now.Sub(start) >= wallCap {
			return Slow
		}
	}
}

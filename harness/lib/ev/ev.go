// Package ev is the evidence / replay / known-findings plumbing shared by all
// property packages. One Recorder per property id per process; TestMain calls
// ev.Main which flushes every recorder to $VERIF_OUT as JSON for the driver.
package ev

import (
	"crypto/sha256"
	"encoding/hex"
	"encoding/json"
	"flag"
	"fmt"
	"os"
	"path/filepath"
	"runtime/debug"
	"sort"
	"strconv"
	"strings"
	"sync"
	"testing"
	"time"

	"pgregory.net/rapid"
)

// Outcome is what a property body reports for one generated case.
type Outcome struct {
	Violation  string   // non-empty: the property is violated on this case
	Discard    bool     // case outside the domain (counted, not evaluated)
	DiscardWhy string   // reason label for the discard counter
	NonTrivial bool     // satisfies the stated non-triviality rule
	Classes    []string // class labels for the distribution histogram
	Known      string   // non-empty: matched an open known finding with this id
}

type violation struct {
	Kind    string `json:"kind"`
	Message string `json:"message"`
	Replay  string `json:"replay"`
}

// Recorder accumulates evidence for one property.
type Recorder struct {
	ID   string
	Rule string

	mu          sync.Mutex
	evals       int
	fingerprint map[string]struct{}
	classes     map[string]int
	discards    map[string]int
	samples     []json.RawMessage
	sampleSeen  int
	violations  []violation
	known       map[string]string // finding id -> what
	notes       []string
	extra       map[string]any
	failed      bool
	assumptions []string
}

var (
	regMu     sync.Mutex
	recorders = map[string]*Recorder{}
	start     = time.Now()
)

// Get returns the recorder for a property id.
func Get(id string) *Recorder {
	regMu.Lock()
	defer regMu.Unlock()
	r, ok := recorders[id]
	if !ok {
		r = &Recorder{ID: id, fingerprint: map[string]struct{}{}, classes: map[string]int{},
			discards: map[string]int{}, known: map[string]string{}, extra: map[string]any{}}
		recorders[id] = r
	}
	return r
}

// SetRule states how cases are generated and what makes one non-trivial.
func (r *Recorder) SetRule(rule string) {
	r.mu.Lock()
	defer r.mu.Unlock()
	if r.Rule == "" {
		r.Rule = rule
	} else if !strings.Contains(r.Rule, rule) {
		r.Rule += " || " + rule
	}
}

func (r *Recorder) Assume(a string) {
	r.mu.Lock()
	defer r.mu.Unlock()
	for _, x := range r.assumptions {
		if x == a {
			return
		}
	}
	r.assumptions = append(r.assumptions, a)
}

// Note attaches a free-text observation to the evidence file.
func (r *Recorder) Note(format string, a ...any) {
	r.mu.Lock()
	defer r.mu.Unlock()
	s := fmt.Sprintf(format, a...)
	for _, x := range r.notes {
		if x == s {
			return
		}
	}
	if len(r.notes) < 50 {
		r.notes = append(r.notes, s)
	}
}

// Extra sets an additional coverage key.
func (r *Recorder) Extra(key string, v any) {
	r.mu.Lock()
	defer r.mu.Unlock()
	r.extra[key] = v
}

// AddExtra adds n to an integer coverage key.
func (r *Recorder) AddExtra(key string, n int) {
	r.mu.Lock()
	defer r.mu.Unlock()
	cur, _ := r.extra[key].(int)
	r.extra[key] = cur + n
}

func canon(c any) []byte {
	b, err := json.Marshal(c)
	if err != nil {
		return []byte(fmt.Sprintf("%#v", c))
	}
	return b
}

// Count records one evaluated case (no violation handling). Safe for concurrent use.
func (r *Recorder) Count(kind string, c any, nontrivial bool, classes ...string) {
	r.mu.Lock()
	defer r.mu.Unlock()
	if r.failed {
		return // shrinking re-executions are not evidence
	}
	r.evals++
	r.classes["kind:"+kind]++
	for _, cl := range classes {
		r.classes[cl]++
	}
	b := canon(c)
	if nontrivial {
		h := sha256.Sum256(append([]byte(kind+"|"), b...))
		r.fingerprint[hex.EncodeToString(h[:8])] = struct{}{}
		r.classes["nontrivial"]++
	}
	// samples: first 3 of each kind, then every 2^k-th case (deterministic, no RNG)
	r.sampleSeen++
	n := r.sampleSeen
	if len(r.samples) < 40 && (r.classes["kind:"+kind] <= 2 || n&(n-1) == 0) && len(b) < 6000 {
		s, _ := json.Marshal(map[string]any{"kind": kind, "nontrivial": nontrivial, "case": json.RawMessage(b)})
		r.samples = append(r.samples, s)
	}
}

// Discarded counts a generated case that is outside the property's domain.
func (r *Recorder) Discarded(why string) {
	r.mu.Lock()
	defer r.mu.Unlock()
	if r.failed {
		return
	}
	r.discards[why]++
}

// KnownFinding reports that an open known finding reproduced on this tree.
func (r *Recorder) KnownFinding(id, what string) {
	r.mu.Lock()
	defer r.mu.Unlock()
	r.known[id] = what
}

func replayDir(id string) string {
	root := os.Getenv("VERIF_ROOT")
	if root == "" {
		root = "/verif"
	}
	d := filepath.Join(root, "replay", id)
	if alt := os.Getenv("VERIF_REPLAY_ROOT"); alt != "" {
		d = filepath.Join(alt, id)
	}
	_ = os.MkdirAll(d, 0o755)
	return d
}

// SaveReplay writes a replay file for a failing case and returns its path.
func (r *Recorder) SaveReplay(kind string, c any, msg string) string {
	b := canon(c)
	h := sha256.Sum256(append([]byte(kind+"|"), b...))
	p := filepath.Join(replayDir(r.ID), kind+"-"+hex.EncodeToString(h[:6])+".json")
	doc, _ := json.MarshalIndent(map[string]any{"property": r.ID, "kind": kind, "message": msg, "case": json.RawMessage(b)}, "", " ")
	_ = os.WriteFile(p, doc, 0o644)
	return p
}

// Violate records a violation (outside rapid); the caller fails the test.
func (r *Recorder) Violate(kind string, c any, msg string) string {
	p := r.SaveReplay(kind, c, msg)
	r.mu.Lock()
	r.failed = true
	// keep only the last (most shrunk) violation per kind
	out := r.violations[:0]
	for _, v := range r.violations {
		if v.Kind != kind {
			out = append(out, v)
		}
	}
	r.violations = append(out, violation{Kind: kind, Message: trunc(msg, 2000), Replay: p})
	r.mu.Unlock()
	return p
}

func trunc(s string, n int) string {
	if len(s) > n {
		return s[:n] + "…"
	}
	return s
}

// Failer is the subset of *rapid.T / *testing.T used to stop a case.
type Failer interface {
	Fatalf(format string, args ...any)
}

// Report records the outcome of one case; on a violation it saves the replay
// file and stops the case through f.Fatalf (rapid then shrinks; the last saved
// file is the minimal one).
func (r *Recorder) Report(f Failer, kind string, c any, o Outcome) {
	End()
	if o.Known != "" {
		findingsOnce.Do(loadFindings)
		what := o.Known
		for _, kf := range findings {
			if kf.ID == o.Known {
				what = kf.What
			}
		}
		r.KnownFinding(o.Known, what)
	}
	if o.Discard {
		r.Discarded(kind + ":" + o.DiscardWhy)
		return
	}
	if o.Violation != "" {
		p := r.Violate(kind, c, o.Violation)
		f.Fatalf("VIOLATION %s kind=%s replay=%s: %s", r.ID, kind, p, trunc(o.Violation, 1500))
		return
	}
	r.Count(kind, c, o.NonTrivial, o.Classes...)
}

// Tier returns "quick" or "thorough".
func Tier() string {
	if os.Getenv("VERIF_TIER") == "thorough" {
		return "thorough"
	}
	return "quick"
}

// N picks the case count for the current tier; thorough counts are divided
// among shards by the driver via VERIF_SHARDS.
func N(quick, thorough int) int {
	if Tier() == "quick" {
		return scale(quick)
	}
	sh := envInt("VERIF_SHARDS", 1)
	n := thorough / sh
	if n < 1 {
		n = 1
	}
	return scale(n)
}

func scale(n int) int {
	// VERIF_SCALE (percent) lets development runs shrink every count.
	p := envInt("VERIF_SCALE", 100)
	n = n * p / 100
	if n < 1 {
		n = 1
	}
	return n
}

func envInt(k string, d int) int {
	if v, err := strconv.Atoi(os.Getenv(k)); err == nil {
		return v
	}
	return d
}

// Seed is the run's seed (VERIF_SEED, 0 remapped to 1) combined with the shard.
func Seed() uint64 {
	s := uint64(envInt("VERIF_SEED", 1))
	if s == 0 {
		s = 1
	}
	return s
}

func Shard() int { return envInt("VERIF_SHARD", 0) }

// Check runs a rapid property n times with the run's seed. Any failure that
// did not go through Report (an unexpected panic in the body) is recorded as a
// violation of kind with no structured case.
func (r *Recorder) Check(t *testing.T, kind string, n int, prop func(rt *rapid.T)) {
	t.Helper()
	_ = flag.Set("rapid.checks", strconv.Itoa(n))
	_ = flag.Set("rapid.seed", strconv.FormatUint(Seed()*1000003+uint64(Shard())*7919+hashStr(kind), 10))
	_ = flag.Set("rapid.nofailfile", "true")
	if os.Getenv("VERIF_SHRINKTIME") != "" {
		_ = flag.Set("rapid.shrinktime", os.Getenv("VERIF_SHRINKTIME"))
	} else {
		_ = flag.Set("rapid.shrinktime", "45s")
	}
	before := r.evalsNow()
	defer func() {
		if t.Failed() {
			r.mu.Lock()
			has := false
			for _, v := range r.violations {
				if v.Kind == kind {
					has = true
				}
			}
			r.mu.Unlock()
			if !has {
				// a failure that did not go through Report is a harness problem (or an
				// unexpected panic): the driver reports the run as inconclusive (exit 2).
				t.Logf("unstructured failure in %s (kind %s): not recorded as a violation", t.Name(), kind)
			}
			return
		}
		got := r.evalsNow() - before
		_ = got
	}()
	rapid.Check(t, prop)
}

func (r *Recorder) evalsNow() int {
	r.mu.Lock()
	defer r.mu.Unlock()
	return r.evals
}

func hashStr(s string) uint64 {
	h := sha256.Sum256([]byte(s))
	var x uint64
	for i := 0; i < 6; i++ {
		x = x<<8 | uint64(h[i])
	}
	return x % 1000000
}

// Safely runs f and converts a panic into an error string with a short stack.
func Safely(f func()) (panicMsg string) {
	defer func() {
		if p := recover(); p != nil {
			st := string(debug.Stack())
			if len(st) > 3000 {
				st = st[:3000]
			}
			panicMsg = fmt.Sprintf("panic: %v\n%s", p, st)
		}
	}()
	f()
	return ""
}

type partial struct {
	ID          string            `json:"property_id"`
	Tier        string            `json:"tier"`
	Seed        uint64            `json:"seed"`
	Shard       int               `json:"shard"`
	Rule        string            `json:"rule"`
	Evals       int               `json:"evaluations"`
	Fingerprint []string          `json:"fingerprints"`
	Classes     map[string]int    `json:"classes"`
	Discards    map[string]int    `json:"discards"`
	Samples     []json.RawMessage `json:"samples"`
	Violations  []violation       `json:"violations"`
	Known       map[string]string `json:"known"`
	Notes       []string          `json:"notes"`
	Extra       map[string]any    `json:"extra"`
	Assumptions []string          `json:"assumptions"`
	WallS       float64           `json:"wall_s"`
}

// Flush writes all recorders to $VERIF_OUT (a JSON list).
func Flush() {
	out := os.Getenv("VERIF_OUT")
	regMu.Lock()
	defer regMu.Unlock()
	var all []partial
	ids := make([]string, 0, len(recorders))
	for id := range recorders {
		ids = append(ids, id)
	}
	sort.Strings(ids)
	for _, id := range ids {
		r := recorders[id]
		r.mu.Lock()
		fp := make([]string, 0, len(r.fingerprint))
		for k := range r.fingerprint {
			fp = append(fp, k)
		}
		sort.Strings(fp)
		all = append(all, partial{ID: r.ID, Tier: Tier(), Seed: Seed(), Shard: Shard(), Rule: r.Rule, Evals: r.evals,
			Fingerprint: fp, Classes: r.classes, Discards: r.discards, Samples: r.samples, Violations: r.violations,
			Known: r.known, Notes: r.notes, Extra: r.extra, Assumptions: r.assumptions, WallS: time.Since(start).Seconds()})
		r.mu.Unlock()
	}
	b, _ := json.Marshal(all)
	if out == "" {
		return
	}
	_ = os.WriteFile(out, b, 0o644)
}

// Main is called from TestMain.
func Main(m *testing.M) {
	code := m.Run()
	Flush()
	os.Exit(code)
}

// ---- replay ----------------------------------------------------------------

var replayers = map[string]func(raw json.RawMessage) string{}

// RegisterReplay registers the body that re-runs a saved case of a kind and
// returns a violation message (empty = holds).
func RegisterReplay(kind string, fn func(raw json.RawMessage) string) {
	replayers[kind] = fn
}

// Replay re-runs the case stored in $VERIF_REPLAY; when that is a directory
// (the committed regression corpus regress/<ID>/), every *.json file in it.
func Replay(t *testing.T) {
	p := os.Getenv("VERIF_REPLAY")
	if p == "" {
		t.Skip("VERIF_REPLAY not set")
	}
	if st, err := os.Stat(p); err == nil && st.IsDir() {
		files, _ := filepath.Glob(filepath.Join(p, "*.json"))
		sort.Strings(files)
		failed := 0
		for _, f := range files {
			if !replayOne(t, f, false) {
				failed++
			}
		}
		if failed > 0 {
			t.Fatalf("%d of %d regression cases violate the property", failed, len(files))
		}
		return
	}
	replayOne(t, p, true)
}

// replayOne returns false when the case violates the property.
func replayOne(t *testing.T, p string, fatal bool) bool {
	b, err := os.ReadFile(p)
	if err != nil {
		t.Logf("cannot read replay file %s: %v", p, err)
		return true
	}
	var doc struct {
		Property string          `json:"property"`
		Kind     string          `json:"kind"`
		Case     json.RawMessage `json:"case"`
	}
	if err := json.Unmarshal(b, &doc); err != nil {
		t.Logf("bad replay file %s: %v", p, err)
		return true
	}
	fn, ok := replayers[doc.Kind]
	if !ok {
		t.Logf("no replayer for kind %q in this package (%s)", doc.Kind, p)
		return true
	}
	r := Get(doc.Property)
	if cp := crumbPath(); cp != "" {
		_ = os.WriteFile(cp, b, 0o644)
	}
	msg := fn(doc.Case)
	End()
	if msg != "" {
		r.mu.Lock()
		r.violations = append(r.violations, violation{Kind: doc.Kind, Message: trunc(msg, 2000), Replay: p})
		r.mu.Unlock()
		if fatal {
			t.Fatalf("VIOLATION %s replay=%s: %s", doc.Property, p, msg)
		}
		t.Errorf("VIOLATION %s replay=%s: %s", doc.Property, p, trunc(msg, 600))
		return false
	}
	r.mu.Lock()
	r.evals++
	r.mu.Unlock()
	return true
}

// ---- known findings ----------------------------------------------------------

type Finding struct {
	ID       string `json:"id"`
	Property string `json:"property"`
	Status   string `json:"status"` // open | fixed
	Match    string `json:"match"`  // signature the check compares against
	What     string `json:"what"`
	Commit   string `json:"commit,omitempty"`
}

var (
	findingsOnce sync.Once
	findings     []Finding
)

func loadFindings() {
	root := os.Getenv("VERIF_ROOT")
	if root == "" {
		root = "/verif"
	}
	b, err := os.ReadFile(filepath.Join(root, "known_findings.json"))
	if err != nil {
		return
	}
	var doc struct {
		Findings []Finding `json:"findings"`
	}
	if json.Unmarshal(b, &doc) == nil {
		findings = doc.Findings
	}
}

// OpenFinding returns the open finding of a property whose match signature
// equals sig, if any. Fixed entries never match (they suppress nothing).
func OpenFinding(property, sig string) (Finding, bool) {
	findingsOnce.Do(loadFindings)
	for _, f := range findings {
		if f.Property == property && f.Status == "open" && f.Match == sig {
			return f, true
		}
	}
	return Finding{}, false
}

// ---- crash breadcrumb -----------------------------------------------------------
//
// A panic in a goroutine started by the code under test (provers, parallel
// solvers) cannot be recovered: it kills the test binary before anything is
// flushed. Begin leaves the case being evaluated in $VERIF_OUT.current (Report
// removes it); when a process dies with a panic whose first non-runtime frame is
// in gnark / gnark-crypto, the driver turns the breadcrumb into a replay file
// and reports the crash as a violation of the case that was running.

func crumbPath() string {
	out := os.Getenv("VERIF_OUT")
	if out == "" {
		return ""
	}
	return out + ".current"
}

// Begin records that case c of the given kind is about to be evaluated.
func (r *Recorder) Begin(kind string, c any) {
	p := crumbPath()
	if p == "" {
		return
	}
	doc, _ := json.Marshal(map[string]any{"property": r.ID, "kind": kind, "case": json.RawMessage(canon(c))})
	_ = os.WriteFile(p, doc, 0o644)
}

// End removes the breadcrumb (Report calls it).
func End() {
	if p := crumbPath(); p != "" {
		_ = os.Remove(p)
	}
}

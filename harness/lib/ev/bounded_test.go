package ev

import (
	"testing"
	"time"
)

// Blocked first: the busy goroutine of the second test is abandoned and keeps spinning.
func TestBoundedBlocked(t *testing.T) {
	if testing.Short() {
		t.Skip()
	}
	if v := Bounded(time.Hour, 2*time.Minute, func() { select {} }); v != Blocked {
		t.Fatal(v)
	}
}

func TestBounded(t *testing.T) {
	if v := Bounded(time.Second, time.Minute, func() { time.Sleep(200 * time.Millisecond) }); v != Returned {
		t.Fatal(v)
	}
	if v := Bounded(2*time.Second, time.Minute, func() {
		for x := 0; ; x++ {
			_ = x
		}
	}); v != Busy {
		t.Fatal(v)
	}
}

// Package csp is engine E3: exhaustive satisfiability of a compiled constraint
// system over a small prime field (the 47-element test field). Given values
// for some wires it enumerates every assignment of the remaining wires that
// satisfies all rows, and reports the set of values taken by designated
// "output" wires. The search is complete: unit propagation (a row with one
// unknown wire restricts that wire to the values that satisfy the row, found by
// trying all of them) plus branching.
package csp

import (
	"fmt"
	"sort"

	"verifharness/lib/cseval"
)

type term struct {
	w int32
	c uint32
}

type row struct {
	kind       uint8 // 0 R1C, 1 gate
	l, r, o    []term
	xa, xb, xc int32
	ql, qr, qo uint32
	qm, qc     uint32
	wires      []int32 // distinct wires
}

// Problem is a compiled system prepared for search.
type Problem struct {
	P       uint32
	NbWires int
	rows    []row
	byWire  [][]int32
	IsR1CS  bool
	// Prefer lists wires to branch on first (hint outputs: the prover's free
	// choices; the other internal wires are usually determined by propagation
	// once these are fixed). Completeness does not depend on it.
	Prefer map[int32]bool
}

// New prepares a problem from an extracted system (field must be small).
func New(s *cseval.Sys) (*Problem, error) {
	if !s.Q.IsUint64() || s.Q.Uint64() > 1<<15 {
		return nil, fmt.Errorf("field too large for exhaustive search")
	}
	p := &Problem{P: uint32(s.Q.Uint64()), NbWires: s.NbPublic + s.NbSecret + s.NbIntern, IsR1CS: s.IsR1CS}
	conv := func(ts []cseval.Term) []term {
		var out []term
		for _, t := range ts {
			out = append(out, term{int32(t.Wire), uint32(t.Coeff.Uint64())})
		}
		return out
	}
	distinct := func(ws ...int32) []int32 {
		m := map[int32]bool{}
		var out []int32
		for _, w := range ws {
			if !m[w] {
				m[w] = true
				out = append(out, w)
			}
		}
		sort.Slice(out, func(i, j int) bool { return out[i] < out[j] })
		return out
	}
	for _, r := range s.Rows {
		rr := row{kind: 0, l: conv(r.L), r: conv(r.R), o: conv(r.O)}
		var ws []int32
		for _, ts := range [][]term{rr.l, rr.r, rr.o} {
			for _, t := range ts {
				if t.c != 0 {
					ws = append(ws, t.w)
				}
			}
		}
		rr.wires = distinct(ws...)
		p.rows = append(p.rows, rr)
	}
	for _, g := range s.Gates {
		if g.Commitment != 0 {
			return nil, fmt.Errorf("commitment gates are not supported by the exhaustive search")
		}
		rr := row{kind: 1, xa: int32(g.XA), xb: int32(g.XB), xc: int32(g.XC),
			ql: uint32(g.QL.Uint64()), qr: uint32(g.QR.Uint64()), qo: uint32(g.QO.Uint64()), qm: uint32(g.QM.Uint64()), qc: uint32(g.QC.Uint64())}
		var ws []int32
		if rr.ql != 0 || rr.qm != 0 {
			ws = append(ws, rr.xa)
		}
		if rr.qr != 0 || rr.qm != 0 {
			ws = append(ws, rr.xb)
		}
		if rr.qo != 0 {
			ws = append(ws, rr.xc)
		}
		rr.wires = distinct(ws...)
		p.rows = append(p.rows, rr)
	}
	p.byWire = make([][]int32, p.NbWires)
	for i, r := range p.rows {
		for _, w := range r.wires {
			p.byWire[w] = append(p.byWire[w], int32(i))
		}
	}
	return p, nil
}

// NbRows returns the number of rows.
func (p *Problem) NbRows() int { return len(p.rows) }

func at(v []int32, w int32) uint32 {
	if v[w] < 0 {
		return 0 // only reached for wires that do not matter (see effUnknowns)
	}
	return uint32(v[w])
}

func (p *Problem) holds(r *row, v []int32) bool {
	P := p.P
	if r.kind == 0 {
		var a, b, c uint32
		for _, t := range r.l {
			a += t.c * at(v, t.w)
		}
		for _, t := range r.r {
			b += t.c * at(v, t.w)
		}
		for _, t := range r.o {
			c += t.c * at(v, t.w)
		}
		return ((a%P)*(b%P))%P == c%P
	}
	a, b, c := at(v, r.xa), at(v, r.xb), at(v, r.xc)
	s := r.ql*a + r.qr*b + r.qo*c + r.qc + (r.qm*a%P)*b
	return s%P == 0
}

// effUnknowns returns the unassigned wires of r that can still influence it
// under the current partial assignment: in L*R=O the unknowns of one factor do
// not matter once the other factor is fully known and zero; in a gate the
// product term a*b vanishes once one operand is known to be zero.
func (p *Problem) effUnknowns(r *row, v []int32, buf []int32) []int32 {
	out := buf[:0]
	add := func(w int32) {
		for _, x := range out {
			if x == w {
				return
			}
		}
		out = append(out, w)
	}
	if r.kind == 0 {
		side := func(ts []term) (sum uint32, unk bool) {
			for _, t := range ts {
				if t.c == 0 {
					continue
				}
				if v[t.w] < 0 {
					unk = true
				} else {
					sum += t.c * uint32(v[t.w])
				}
			}
			return sum % p.P, unk
		}
		a, ua := side(r.l)
		b, ub := side(r.r)
		lMatters := !(!ub && b == 0)
		rMatters := !(!ua && a == 0)
		if lMatters {
			for _, t := range r.l {
				if t.c != 0 && v[t.w] < 0 {
					add(t.w)
				}
			}
		}
		if rMatters {
			for _, t := range r.r {
				if t.c != 0 && v[t.w] < 0 {
					add(t.w)
				}
			}
		}
		for _, t := range r.o {
			if t.c != 0 && v[t.w] < 0 {
				add(t.w)
			}
		}
		return out
	}
	aZero := v[r.xa] == 0
	bZero := v[r.xb] == 0
	if v[r.xa] < 0 && (r.ql != 0 || (r.qm != 0 && !bZero)) {
		add(r.xa)
	}
	if v[r.xb] < 0 && (r.qr != 0 || (r.qm != 0 && !aZero)) {
		add(r.xb)
	}
	if v[r.xc] < 0 && r.qo != 0 {
		add(r.xc)
	}
	return out
}

// Result of a query.
type Result struct {
	Outs      map[string]bool // set of output tuples (values joined by ",") that are satisfiable
	AllFree   bool            // every value of every output is satisfiable (outputs unconstrained)
	Nodes     int
	Exhausted bool // node budget hit: inconclusive
}

type search struct {
	p      *Problem
	v      []int32 // -1 = unassigned
	outs   []int32
	res    *Result
	budget int
	trail  []int32
}

func (s *search) assign(w, x int32) {
	s.v[w] = x
	s.trail = append(s.trail, w)
}

func (s *search) undo(to int) {
	for len(s.trail) > to {
		w := s.trail[len(s.trail)-1]
		s.trail = s.trail[:len(s.trail)-1]
		s.v[w] = -1
	}
}

// feasible returns the bitmask (as []bool of length P) of values of the only
// unknown wire w of row r that satisfy it.
func (s *search) feasible(r *row, w int32, buf []int32) (vals []int32) {
	vals = buf[:0]
	for x := int32(0); x < int32(s.p.P); x++ {
		s.v[w] = x
		if s.p.holds(r, s.v) {
			vals = append(vals, x)
		}
	}
	s.v[w] = -1
	return vals
}

// propagate processes the rows in queue; returns false on contradiction.
// best is the most restricted (wire, domain) found among single-unknown rows.
func (s *search) propagate(queue []int32) (ok bool, bestW int32, bestDom []int32) {
	bestW = -1
	inq := map[int32]bool{}
	for _, q := range queue {
		inq[q] = true
	}
	buf := make([]int32, 0, s.p.P)
	ebuf := make([]int32, 0, 8)
	for len(queue) > 0 {
		ri := queue[0]
		queue = queue[1:]
		delete(inq, ri)
		r := &s.p.rows[ri]
		eu := s.p.effUnknowns(r, s.v, ebuf[:0])
		n := len(eu)
		unk := int32(-1)
		if n > 0 {
			unk = eu[0]
		}
		switch n {
		case 0:
			if !s.p.holds(r, s.v) {
				return false, -1, nil
			}
		case 1:
			dom := s.feasible(r, unk, buf)
			switch {
			case len(dom) == 0:
				return false, -1, nil
			case len(dom) == 1:
				s.assign(unk, dom[0])
				if bestW == unk {
					bestW = -1
				}
				for _, nr := range s.p.byWire[unk] {
					if !inq[nr] {
						inq[nr] = true
						queue = append(queue, nr)
					}
				}
			case len(dom) < int(s.p.P):
				if bestW == -1 || len(dom) < len(bestDom) {
					bestW = unk
					bestDom = append([]int32(nil), dom...)
				}
			}
		}
	}
	if bestW >= 0 && s.v[bestW] >= 0 {
		bestW = -1
	}
	return true, bestW, bestDom
}

func (s *search) record() {
	// outputs not assigned are unconstrained by every row: all values satisfiable
	free := false
	for _, o := range s.outs {
		if s.v[o] < 0 {
			free = true
		}
	}
	if free {
		// enumerate the free outputs (few outputs, small field)
		var rec func(i int)
		rec = func(i int) {
			if i == len(s.outs) {
				s.res.Outs[s.key()] = true
				return
			}
			o := s.outs[i]
			if s.v[o] >= 0 {
				rec(i + 1)
				return
			}
			for x := int32(0); x < int32(s.p.P); x++ {
				s.v[o] = x
				rec(i + 1)
			}
			s.v[o] = -1
		}
		rec(0)
		return
	}
	s.res.Outs[s.key()] = true
}

func (s *search) key() string {
	b := make([]byte, 0, 4*len(s.outs))
	for i, o := range s.outs {
		if i > 0 {
			b = append(b, ',')
		}
		b = append(b, fmt.Sprint(s.v[o])...)
	}
	return string(b)
}

func (s *search) dfs(queue []int32) {
	if s.res.Exhausted {
		return
	}
	s.res.Nodes++
	if s.res.Nodes > s.budget {
		s.res.Exhausted = true
		return
	}
	mark := len(s.trail)
	ok, bw, bdom := s.propagate(queue)
	if !ok {
		s.undo(mark)
		return
	}
	// only the SET of output tuples matters: a subtree whose outputs are all fixed to an
	// already recorded tuple cannot add anything
	if len(s.outs) > 0 {
		all := true
		for _, o := range s.outs {
			if s.v[o] < 0 {
				all = false
				break
			}
		}
		if all && s.res.Outs[s.key()] {
			s.undo(mark)
			return
		}
	}
	// choose a branching wire: the most restricted single-unknown wire, else the
	// lowest unassigned non-output wire that still occurs in an open row
	w := bw
	dom := bdom
	if w < 0 {
		isOut := map[int32]bool{}
		for _, o := range s.outs {
			isOut[o] = true
		}
		cand, candOut, candPref := int32(-1), int32(-1), int32(-1)
		restrictedW := int32(-1)
		var restrictedDom []int32
		buf := make([]int32, 0, s.p.P)
		for ri := range s.p.rows {
			r := &s.p.rows[ri]
			eu := append([]int32(nil), s.p.effUnknowns(r, s.v, nil)...)
			nUnk := len(eu)
			if nUnk == 0 {
				continue
			}
			if nUnk == 1 {
				d := s.feasible(r, eu[0], buf)
				if len(d) == int(s.p.P) {
					// the row holds whatever its only unknown wire is: it does not constrain it
					// (e.g. the inverse hint of IsZero when the operand is zero); never branch on it
					continue
				}
				// a restricted wire found in a row that was not re-examined by the last propagation
				if restrictedW < 0 || len(d) < len(restrictedDom) {
					restrictedW = eu[0]
					restrictedDom = append([]int32(nil), d...)
				}
				continue
			}
			for _, x := range eu {
				if s.v[x] < 0 {
					switch {
					case isOut[x]:
						if candOut < 0 || x < candOut {
							candOut = x
						}
					case s.p.Prefer[x]:
						if candPref < 0 || x < candPref {
							candPref = x
						}
					default:
						if cand < 0 || x < cand {
							cand = x
						}
					}
				}
			}
		}
		if candPref >= 0 {
			cand = candPref
		}
		if restrictedW >= 0 {
			cand = restrictedW
			dom = restrictedDom
		}
		w = cand
		if w < 0 {
			w = candOut
		}
		if w < 0 {
			// every row is closed and satisfied
			s.record()
			s.undo(mark)
			return
		}
		if w != restrictedW {
			dom = nil
		}
	}
	if dom == nil {
		dom = make([]int32, s.p.P)
		for i := range dom {
			dom[i] = int32(i)
		}
	}
	for _, x := range dom {
		m2 := len(s.trail)
		s.assign(w, x)
		s.dfs(s.p.byWire[w])
		s.undo(m2)
		if s.res.Exhausted {
			break
		}
	}
	s.undo(mark)
}

// Solve enumerates the satisfiable output tuples given fixed wire values
// (fixed[w] >= 0) with a node budget.
func (p *Problem) Solve(fixed map[int]int, outs []int, budget int) *Result {
	s := &search{p: p, v: make([]int32, p.NbWires), res: &Result{Outs: map[string]bool{}}, budget: budget}
	for i := range s.v {
		s.v[i] = -1
	}
	for w, x := range fixed {
		s.v[w] = int32(x)
	}
	for _, o := range outs {
		s.outs = append(s.outs, int32(o))
	}
	all := make([]int32, len(p.rows))
	for i := range all {
		all[i] = int32(i)
	}
	s.dfs(all)
	return s.res
}

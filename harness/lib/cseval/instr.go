package cseval

import (
	"fmt"
	"math"
	"math/big"
	"reflect"

	"github.com/consensys/gnark/constraint"
	"github.com/consensys/gnark/constraint/solver"
)

// Instr is one decoded instruction of a compiled system.
type Instr struct {
	Kind string // r1c | gate | hint | lookup | other
	Row  *R1C
	Gate *Gate
	// hint
	HintID  solver.HintID
	HintIn  [][]Term
	OutFrom int // first output wire
	OutN    int // number of output wires
	// lookup
	Entries [][]Term // table entries visible to this instruction
	Queries [][]Term
	// all wires mentioned (inputs and outputs)
	Wires []int
}

// Program is the decoded instruction list plus the exported levels.
type Program struct {
	Sys    *Sys
	Instrs []Instr
	Levels [][]int
	// kinds present
	HasHint, HasLookup, HasSpecialised bool
}

// wireOf maps the constant marker (VID = MaxUint32) to wire -1.
func wireOf(vid uint32) int {
	if vid == math.MaxUint32 {
		return -1
	}
	return int(vid)
}

func addWires(dst []int, ts []Term) []int {
	for _, t := range ts {
		if t.Wire >= 0 {
			dst = append(dst, t.Wire)
		}
	}
	return dst
}

func coreSystem(cs any) (*constraint.System, error) {
	rv := reflect.ValueOf(cs)
	if rv.Kind() != reflect.Ptr {
		return nil, fmt.Errorf("system %T is not a pointer", cs)
	}
	f := rv.Elem().FieldByName("System")
	if !f.IsValid() || !f.CanAddr() {
		return nil, fmt.Errorf("system %T has no embedded constraint.System", cs)
	}
	s, ok := f.Addr().Interface().(*constraint.System)
	if !ok {
		return nil, fmt.Errorf("embedded System of %T has type %s", cs, f.Type())
	}
	return s, nil
}

// Decode reads every instruction through the exported blueprints.
func DecodeProgram(cs any) (*Program, error) {
	switch s := cs.(type) {
	case constraint.ConstraintSystemGeneric[constraint.U64]:
		return decodeProgram[constraint.U64](s)
	case constraint.ConstraintSystemGeneric[constraint.U32]:
		return decodeProgram[constraint.U32](s)
	}
	return nil, fmt.Errorf("unsupported system type %T", cs)
}

func decodeProgram[E constraint.Element](cs constraint.ConstraintSystemGeneric[E]) (*Program, error) {
	sys, err := extract[E](cs)
	if err != nil {
		return nil, err
	}
	core, err := coreSystem(cs)
	if err != nil {
		return nil, err
	}
	table := make([]*big.Int, cs.GetNbCoefficients())
	for i := range table {
		table[i] = cs.ToBigInt(cs.GetCoefficient(i))
	}
	le := func(l constraint.LinearExpression) ([]Term, error) {
		var ts []Term
		for _, t := range l {
			if int(t.CID) >= len(table) {
				return nil, fmt.Errorf("coefficient id %d outside table", t.CID)
			}
			ts = append(ts, Term{Wire: wireOf(t.VID), Coeff: table[t.CID]})
		}
		return ts, nil
	}
	// reads one encoded linear expression (n, then n x (cid, vid)) from calldata
	readLE := func(cd []uint32) ([]Term, int, error) {
		n := int(cd[0])
		var ts []Term
		for k := 0; k < n; k++ {
			cid, vid := cd[1+2*k], cd[2+2*k]
			if int(cid) >= len(table) {
				return nil, 0, fmt.Errorf("coefficient id %d outside table", cid)
			}
			ts = append(ts, Term{Wire: wireOf(vid), Coeff: table[cid]})
		}
		return ts, 1 + 2*n, nil
	}
	p := &Program{Sys: sys}
	ri, gi := 0, 0
	for i := range core.Instructions {
		pi := core.Instructions[i]
		bp := core.Blueprints[pi.BlueprintID]
		inst := pi.Unpack(core)
		var in Instr
		switch b := bp.(type) {
		case constraint.BlueprintR1C:
			if ri >= len(sys.Rows) {
				return nil, fmt.Errorf("more R1C instructions than exported rows")
			}
			in.Kind, in.Row = "r1c", &sys.Rows[ri]
			ri++
			for _, ts := range [][]Term{in.Row.L, in.Row.R, in.Row.O} {
				for _, t := range ts {
					in.Wires = append(in.Wires, t.Wire)
				}
			}
		case constraint.BlueprintSparseR1C:
			if gi >= len(sys.Gates) {
				return nil, fmt.Errorf("more sparse instructions than exported gates")
			}
			in.Kind, in.Gate = "gate", &sys.Gates[gi]
			gi++
			in.Wires = []int{in.Gate.XA, in.Gate.XB, in.Gate.XC}
			if _, generic := bp.(*constraint.BlueprintGenericSparseR1C[E]); !generic {
				p.HasSpecialised = true
			}
		case constraint.BlueprintHint:
			var hm constraint.HintMapping
			b.DecompressHint(&hm, inst)
			in.Kind, in.HintID = "hint", hm.HintID
			in.OutFrom, in.OutN = int(hm.OutputRange.Start), int(hm.OutputRange.End-hm.OutputRange.Start)
			for _, l := range hm.Inputs {
				ts, err := le(l)
				if err != nil {
					return nil, err
				}
				in.HintIn = append(in.HintIn, ts)
				in.Wires = addWires(in.Wires, ts)
			}
			for w := in.OutFrom; w < in.OutFrom+in.OutN; w++ {
				in.Wires = append(in.Wires, w)
			}
			p.HasHint = true
		case *constraint.BlueprintLookupHint[E]:
			in.Kind = "lookup"
			nbEntries, nbQ := int(inst.Calldata[1]), int(inst.Calldata[2])
			off := 0
			for k := 0; k < nbEntries; k++ {
				ts, d, err := readLE(b.EntriesCalldata[off:])
				if err != nil {
					return nil, err
				}
				off += d
				in.Entries = append(in.Entries, ts)
				in.Wires = addWires(in.Wires, ts)
			}
			off = 3
			for k := 0; k < nbQ; k++ {
				ts, d, err := readLE(inst.Calldata[off:])
				if err != nil {
					return nil, err
				}
				off += d
				in.Queries = append(in.Queries, ts)
				in.Wires = addWires(in.Wires, ts)
			}
			in.OutFrom, in.OutN = int(inst.WireOffset), nbQ
			for w := in.OutFrom; w < in.OutFrom+in.OutN; w++ {
				in.Wires = append(in.Wires, w)
			}
			p.HasLookup = true
		default:
			in.Kind = "other"
		}
		p.Instrs = append(p.Instrs, in)
	}
	for _, l := range core.Levels {
		var ll []int
		for _, x := range l {
			ll = append(ll, int(x))
		}
		p.Levels = append(p.Levels, ll)
	}
	return p, nil
}

// CheckLevels verifies that Levels is a partition of the instruction ids and
// that every wire mentioned by an instruction of level l is an input wire, is
// first mentioned (hence solved) by that very instruction, or is first
// mentioned by an instruction of a strictly lower level. The writer of a wire
// is derived from the sequential semantics (first instruction that mentions an
// internal wire; hint / lookup outputs are written by their instruction),
// independently of gnark's level builder.
func (p *Program) CheckLevels() error {
	n := len(p.Instrs)
	level := make([]int, n)
	for i := range level {
		level[i] = -1
	}
	for l, ids := range p.Levels {
		for _, id := range ids {
			if id < 0 || id >= n {
				return fmt.Errorf("level %d contains instruction id %d outside [0,%d)", l, id, n)
			}
			if level[id] != -1 {
				return fmt.Errorf("instruction %d is in levels %d and %d", id, level[id], l)
			}
			level[id] = l
		}
	}
	for id, l := range level {
		if l == -1 {
			return fmt.Errorf("instruction %d is in no level", id)
		}
	}
	nIn := p.Sys.NbPublic + p.Sys.NbSecret
	writer := map[int]int{}
	for id, in := range p.Instrs {
		if in.Kind == "hint" || in.Kind == "lookup" {
			for w := in.OutFrom; w < in.OutFrom+in.OutN; w++ {
				if _, ok := writer[w]; !ok {
					writer[w] = id
				}
			}
		}
	}
	for id, in := range p.Instrs {
		for _, w := range in.Wires {
			if w < nIn {
				continue
			}
			if _, ok := writer[w]; !ok {
				writer[w] = id
			}
		}
	}
	for id, in := range p.Instrs {
		for _, w := range in.Wires {
			if w < nIn {
				continue
			}
			wr := writer[w]
			if wr == id {
				continue
			}
			if level[wr] >= level[id] {
				return fmt.Errorf("instruction %d (level %d) reads wire %d written by instruction %d (level %d)", id, level[id], w, wr, level[wr])
			}
		}
	}
	return nil
}

// HintFn supplies hint outputs to the replay solver (the adversary hook).
type HintFn func(id solver.HintID, q *big.Int, in []*big.Int, nbOut int) ([]*big.Int, error)

// GenuineHints calls the registered hint functions.
func GenuineHints(id solver.HintID, q *big.Int, in []*big.Int, nbOut int) ([]*big.Int, error) {
	fn := solver.GetRegisteredHint(id)
	if fn == nil {
		return nil, fmt.Errorf("hint %d not registered", id)
	}
	out := make([]*big.Int, nbOut)
	for i := range out {
		out[i] = new(big.Int)
	}
	if err := fn(q, in, out); err != nil {
		return nil, err
	}
	for i := range out {
		out[i].Mod(out[i], q)
	}
	return out, nil
}

// ErrUndetermined is returned when the replay solver cannot proceed with its
// own simple rules (more than one unknown in a row, unknown on both sides of a
// product); the caller treats it as inconclusive, never as a verdict.
type ErrUndetermined struct{ Msg string }

func (e *ErrUndetermined) Error() string { return "replay undetermined: " + e.Msg }

// ErrUnsat is a violated row / failed hint found by the replay solver.
type ErrUnsat struct{ Msg string }

func (e *ErrUnsat) Error() string { return "replay unsatisfied: " + e.Msg }

// Replay executes the instruction list sequentially with the harness's own
// rules and returns the full wire vector.
func (p *Program) Replay(witness []*big.Int, hints HintFn) ([]*big.Int, error) {
	s := p.Sys
	q := s.Q
	nw := s.NbPublic + s.NbSecret + s.NbIntern
	w := make([]*big.Int, nw)
	solved := make([]bool, nw)
	if s.IsR1CS {
		if len(witness) != s.NbPublic-1+s.NbSecret {
			return nil, fmt.Errorf("witness size %d, want %d", len(witness), s.NbPublic-1+s.NbSecret)
		}
		w[0], solved[0] = big.NewInt(1), true
		for i, v := range witness {
			w[i+1], solved[i+1] = new(big.Int).Set(v), true
		}
	} else {
		if len(witness) != s.NbPublic+s.NbSecret {
			return nil, fmt.Errorf("witness size %d, want %d", len(witness), s.NbPublic+s.NbSecret)
		}
		for i, v := range witness {
			w[i], solved[i] = new(big.Int).Set(v), true
		}
	}
	evalKnown := func(ts []Term) (known *big.Int, unkWire int, unkCoeff *big.Int, nUnk int) {
		known = new(big.Int)
		unkWire = -1
		unkCoeff = new(big.Int)
		for _, t := range ts {
			if t.Wire < 0 { // constant term
				known.Add(known, t.Coeff)
				continue
			}
			if solved[t.Wire] {
				known.Add(known, new(big.Int).Mul(t.Coeff, w[t.Wire]))
				continue
			}
			if t.Coeff.Sign() == 0 {
				continue
			}
			if unkWire == -1 || unkWire == t.Wire {
				if unkWire == -1 {
					nUnk++
				}
				unkWire = t.Wire
				unkCoeff.Add(unkCoeff, t.Coeff)
			} else {
				nUnk++
			}
		}
		known.Mod(known, q)
		unkCoeff.Mod(unkCoeff, q)
		return
	}
	inv := func(x *big.Int) *big.Int { return new(big.Int).ModInverse(x, q) }
	set := func(wire int, v *big.Int) {
		w[wire] = v.Mod(v, q)
		solved[wire] = true
	}
	mulmod := func(a, b *big.Int) *big.Int { return new(big.Int).Mod(new(big.Int).Mul(a, b), q) }
	for id, in := range p.Instrs {
		switch in.Kind {
		case "r1c":
			a, wa, ca, na := evalKnown(in.Row.L)
			b, wb, cb, nb := evalKnown(in.Row.R)
			c, wc, cc, ncc := evalKnown(in.Row.O)
			tot := na + nb + ncc
			distinct := map[int]bool{}
			for _, x := range []int{wa, wb, wc} {
				if x >= 0 {
					distinct[x] = true
				}
			}
			switch {
			case tot == 0:
				if mulmod(a, b).Cmp(c) != 0 {
					return w, &ErrUnsat{fmt.Sprintf("instruction %d: %s * %s != %s", id, a, b, c)}
				}
			case len(distinct) > 1 || tot > 1:
				return w, &ErrUndetermined{fmt.Sprintf("instruction %d has %d unknown wires", id, len(distinct))}
			case ncc == 1:
				// a*b = c + cc*x
				x := new(big.Int).Sub(mulmod(a, b), c)
				if cc.Sign() == 0 {
					return w, &ErrUndetermined{"zero coefficient"}
				}
				set(wc, mulmod(x.Mod(x, q), inv(cc)))
			case na == 1:
				// (a + ca*x)*b = c
				if b.Sign() == 0 {
					if c.Sign() != 0 {
						return w, &ErrUnsat{fmt.Sprintf("instruction %d: (..)*0 != %s", id, c)}
					}
					set(wa, new(big.Int)) // unconstrained by this row
				} else {
					x := new(big.Int).Sub(mulmod(c, inv(b)), a)
					set(wa, mulmod(x.Mod(x, q), inv(ca)))
				}
			case nb == 1:
				if a.Sign() == 0 {
					if c.Sign() != 0 {
						return w, &ErrUnsat{fmt.Sprintf("instruction %d: 0*(..) != %s", id, c)}
					}
					set(wb, new(big.Int))
				} else {
					x := new(big.Int).Sub(mulmod(c, inv(a)), b)
					set(wb, mulmod(x.Mod(x, q), inv(cb)))
				}
			}
		case "gate":
			g := in.Gate
			if g.Commitment != 0 {
				continue
			}
			unk := map[int]bool{}
			for _, x := range []int{g.XA, g.XB, g.XC} {
				if !solved[x] {
					unk[x] = true
				}
			}
			if len(unk) == 0 {
				if g.GateValue(w[g.XA], w[g.XB], w[g.XC], q).Sign() != 0 {
					return w, &ErrUnsat{fmt.Sprintf("instruction %d: gate not zero", id)}
				}
				continue
			}
			if len(unk) > 1 {
				return w, &ErrUndetermined{fmt.Sprintf("instruction %d has %d unknown wires", id, len(unk))}
			}
			var x int
			for k := range unk {
				x = k
			}
			// the gate is affine in x unless x is both xa and xb with qM != 0
			if g.XA == x && g.XB == x && g.QM.Sign() != 0 {
				return w, &ErrUndetermined{"unknown wire squared"}
			}
			val := func(wire int, v *big.Int) *big.Int {
				if wire == x {
					return v
				}
				return w[wire]
			}
			at := func(v *big.Int) *big.Int {
				return g.GateValue(val(g.XA, v), val(g.XB, v), val(g.XC, v), q)
			}
			f0 := at(big.NewInt(0))
			f1 := at(big.NewInt(1))
			slope := new(big.Int).Sub(f1, f0)
			slope.Mod(slope, q)
			if slope.Sign() == 0 {
				if f0.Sign() != 0 {
					return w, &ErrUnsat{fmt.Sprintf("instruction %d: gate does not depend on its unknown wire and is not zero", id)}
				}
				set(x, new(big.Int))
			} else {
				v := new(big.Int).Neg(f0)
				set(x, mulmod(v.Mod(v, q), inv(slope)))
			}
		case "hint":
			ins := make([]*big.Int, len(in.HintIn))
			for k, ts := range in.HintIn {
				v, _, _, n := evalKnown(ts)
				if n != 0 {
					return w, &ErrUndetermined{fmt.Sprintf("instruction %d: hint input not solved", id)}
				}
				ins[k] = v
			}
			outs, err := hints(in.HintID, q, ins, in.OutN)
			if err != nil {
				return w, &ErrUnsat{fmt.Sprintf("instruction %d: hint failed: %v", id, err)}
			}
			for k, o := range outs {
				set(in.OutFrom+k, new(big.Int).Set(o))
			}
		case "lookup":
			for k, qu := range in.Queries {
				idx, _, _, n := evalKnown(qu)
				if n != 0 {
					return w, &ErrUndetermined{"lookup query not solved"}
				}
				if !idx.IsInt64() || idx.Int64() >= int64(len(in.Entries)) {
					return w, &ErrUnsat{fmt.Sprintf("instruction %d: lookup index %s outside table of %d", id, idx, len(in.Entries))}
				}
				ev, _, _, n := evalKnown(in.Entries[idx.Int64()])
				if n != 0 {
					return w, &ErrUndetermined{"lookup entry not solved"}
				}
				set(in.OutFrom+k, ev)
			}
		default:
			return w, &ErrUndetermined{fmt.Sprintf("instruction %d of unknown blueprint kind", id)}
		}
	}
	for i := range w {
		if !solved[i] {
			return w, &ErrUnsat{fmt.Sprintf("wire %d is never assigned", i)}
		}
	}
	return w, nil
}

// Package cseval is engine E2 (validity predicate): an independent evaluator of
// compiled constraint systems that reads only exported data (rows / gates,
// coefficient table) and checks a solution returned by gnark's solver against
// them with math/big arithmetic.
package cseval

import (
	"fmt"
	"math/big"
	"reflect"

	"github.com/consensys/gnark/constraint"
)

// Term is coeff * wire.
type Term struct {
	Wire  int
	Coeff *big.Int
}

// R1C row with resolved coefficients.
type R1C struct{ L, R, O []Term }

// Gate is a sparse gate qL·xa + qR·xb + qO·xc + qM·xa·xb + qC = 0 with resolved coefficients.
type Gate struct {
	XA, XB, XC         int
	QL, QR, QO, QM, QC *big.Int
	Commitment         int // 0 NOT, 1 COMMITTED, 2 COMMITMENT
}

// Sys is the exported content of a compiled system.
type Sys struct {
	Q        *big.Int
	NbPublic int // includes the ONE wire for R1CS
	NbSecret int
	NbIntern int
	IsR1CS   bool
	Rows     []R1C
	Gates    []Gate
}

type coeffer[E constraint.Element] interface {
	GetCoefficient(i int) E
	ToBigInt(E) *big.Int
	GetNbCoefficients() int
}

// Extract reads the rows or gates of a compiled system through its exported API.
func Extract(cs any) (*Sys, error) {
	switch s := cs.(type) {
	case constraint.ConstraintSystemGeneric[constraint.U64]:
		return extract[constraint.U64](s)
	case constraint.ConstraintSystemGeneric[constraint.U32]:
		return extract[constraint.U32](s)
	}
	return nil, fmt.Errorf("unsupported system type %T", cs)
}

func extract[E constraint.Element](cs constraint.ConstraintSystemGeneric[E]) (*Sys, error) {
	out := &Sys{Q: cs.Field(), NbPublic: cs.GetNbPublicVariables(), NbSecret: cs.GetNbSecretVariables(), NbIntern: cs.GetNbInternalVariables()}
	table := make([]*big.Int, cs.GetNbCoefficients())
	for i := range table {
		table[i] = cs.ToBigInt(cs.GetCoefficient(i))
	}
	co := func(id uint32) (*big.Int, error) {
		if int(id) >= len(table) {
			return nil, fmt.Errorf("coefficient id %d outside table of %d", id, len(table))
		}
		return table[id], nil
	}
	if r, ok := any(cs).(interface{ GetR1Cs() []constraint.R1C }); ok && isR1CS(cs) {
		out.IsR1CS = true
		for _, row := range r.GetR1Cs() {
			var rr R1C
			for k, le := range []constraint.LinearExpression{row.L, row.R, row.O} {
				var ts []Term
				for _, t := range le {
					c, err := co(t.CID)
					if err != nil {
						return nil, err
					}
					ts = append(ts, Term{Wire: int(t.VID), Coeff: c})
				}
				switch k {
				case 0:
					rr.L = ts
				case 1:
					rr.R = ts
				default:
					rr.O = ts
				}
			}
			out.Rows = append(out.Rows, rr)
		}
		return out, nil
	}
	g, ok := any(cs).(interface {
		GetSparseR1Cs() []constraint.SparseR1C
	})
	if !ok {
		return nil, fmt.Errorf("system %T exposes neither R1Cs nor sparse R1Cs", cs)
	}
	for _, c := range g.GetSparseR1Cs() {
		var gg Gate
		var err error
		gg.XA, gg.XB, gg.XC = int(c.XA), int(c.XB), int(c.XC)
		if gg.QL, err = co(c.QL); err != nil {
			return nil, err
		}
		if gg.QR, err = co(c.QR); err != nil {
			return nil, err
		}
		if gg.QO, err = co(c.QO); err != nil {
			return nil, err
		}
		if gg.QM, err = co(c.QM); err != nil {
			return nil, err
		}
		if gg.QC, err = co(c.QC); err != nil {
			return nil, err
		}
		gg.Commitment = int(c.Commitment)
		out.Gates = append(out.Gates, gg)
	}
	return out, nil
}

func isR1CS(cs any) bool {
	// the per-field system type embeds constraint.System whose exported Type
	// field tells R1CS from sparse R1CS
	rv := reflect.ValueOf(cs)
	if rv.Kind() == reflect.Ptr {
		rv = rv.Elem()
	}
	if rv.Kind() == reflect.Struct {
		if f := rv.FieldByName("Type"); f.IsValid() {
			return constraint.SystemType(f.Uint()) == constraint.SystemR1CS
		}
	}
	panic(fmt.Sprintf("cannot tell the system type of %T", cs))
}

// Vec converts a gnark field-element vector (fr.Vector of any field) to big integers.
func Vec(v any) []*big.Int {
	rv := reflect.ValueOf(v)
	if rv.Kind() == reflect.Ptr {
		rv = rv.Elem()
	}
	out := make([]*big.Int, rv.Len())
	for i := range out {
		e := rv.Index(i)
		if !e.CanAddr() {
			c := reflect.New(e.Type()).Elem()
			c.Set(e)
			e = c
		}
		b := new(big.Int)
		e.Addr().MethodByName("BigInt").Call([]reflect.Value{reflect.ValueOf(b)})
		out[i] = b
	}
	return out
}

// SetVec writes big integers into an addressable gnark field-element vector.
func SetVec(v reflect.Value, i int, x *big.Int) {
	v.Index(i).Addr().MethodByName("SetBigInt").Call([]reflect.Value{reflect.ValueOf(x)})
}

// Solution is a decoded solver output.
type Solution struct {
	W, A, B, C []*big.Int // R1CS
	L, R, O    []*big.Int // sparse
}

// Decode reads a *R1CSSolution or *SparseR1CSSolution of any field by reflection.
func Decode(sol any) (*Solution, error) {
	rv := reflect.ValueOf(sol)
	if rv.Kind() == reflect.Ptr {
		rv = rv.Elem()
	}
	if rv.Kind() != reflect.Struct {
		return nil, fmt.Errorf("solution is %T", sol)
	}
	out := &Solution{}
	get := func(name string) []*big.Int {
		f := rv.FieldByName(name)
		if !f.IsValid() {
			return nil
		}
		return Vec(f.Interface())
	}
	if rv.FieldByName("W").IsValid() {
		out.W, out.A, out.B, out.C = get("W"), get("A"), get("B"), get("C")
		return out, nil
	}
	if rv.FieldByName("L").IsValid() {
		out.L, out.R, out.O = get("L"), get("R"), get("O")
		return out, nil
	}
	return nil, fmt.Errorf("solution %T has neither W nor L", sol)
}

func dot(ts []Term, w []*big.Int, q *big.Int) (*big.Int, error) {
	s := new(big.Int)
	for _, t := range ts {
		if t.Wire < 0 || t.Wire >= len(w) {
			return nil, fmt.Errorf("wire %d outside solution of %d wires", t.Wire, len(w))
		}
		s.Add(s, new(big.Int).Mul(t.Coeff, w[t.Wire]))
	}
	return s.Mod(s, q), nil
}

// EvalRows returns the three inner products of every row on w.
func (s *Sys) EvalRows(w []*big.Int) (A, B, C []*big.Int, err error) {
	for _, r := range s.Rows {
		a, e := dot(r.L, w, s.Q)
		if e != nil {
			return nil, nil, nil, e
		}
		b, e := dot(r.R, w, s.Q)
		if e != nil {
			return nil, nil, nil, e
		}
		c, e := dot(r.O, w, s.Q)
		if e != nil {
			return nil, nil, nil, e
		}
		A, B, C = append(A, a), append(B, b), append(C, c)
	}
	return
}

// ViolatedRows lists the rows i with A_i*B_i != C_i on w.
func (s *Sys) ViolatedRows(w []*big.Int) ([]int, error) {
	A, B, C, err := s.EvalRows(w)
	if err != nil {
		return nil, err
	}
	var bad []int
	for i := range A {
		p := new(big.Int).Mul(A[i], B[i])
		if p.Mod(p, s.Q).Cmp(C[i]) != 0 {
			bad = append(bad, i)
		}
	}
	return bad, nil
}

// CheckR1CS verifies a solver output against the witness vector (public then
// secret values, without the ONE wire) and the exported rows.
func (s *Sys) CheckR1CS(witness []*big.Int, sol *Solution) error {
	nw := s.NbPublic + s.NbSecret + s.NbIntern
	if len(sol.W) != nw {
		return fmt.Errorf("solution has %d wires, system declares %d", len(sol.W), nw)
	}
	if sol.W[0].Cmp(big.NewInt(1)) != 0 {
		return fmt.Errorf("ONE wire has value %s", sol.W[0])
	}
	if len(witness) != s.NbPublic-1+s.NbSecret {
		return fmt.Errorf("witness has %d values, want %d", len(witness), s.NbPublic-1+s.NbSecret)
	}
	for i, v := range witness {
		if sol.W[i+1].Cmp(v) != 0 {
			return fmt.Errorf("wire %d = %s does not extend the witness value %s", i+1, sol.W[i+1], v)
		}
	}
	A, B, C, err := s.EvalRows(sol.W)
	if err != nil {
		return err
	}
	if len(sol.A) != len(A) || len(sol.B) != len(B) || len(sol.C) != len(C) {
		return fmt.Errorf("solution A,B,C have lengths %d,%d,%d, system has %d rows", len(sol.A), len(sol.B), len(sol.C), len(A))
	}
	for i := range A {
		p := new(big.Int).Mul(A[i], B[i])
		if p.Mod(p, s.Q).Cmp(C[i]) != 0 {
			return fmt.Errorf("row %d not satisfied: %s * %s != %s", i, A[i], B[i], C[i])
		}
		if sol.A[i].Cmp(A[i]) != 0 || sol.B[i].Cmp(B[i]) != 0 || sol.C[i].Cmp(C[i]) != 0 {
			return fmt.Errorf("row %d: solution (A,B,C)=(%s,%s,%s) differs from the row evaluated on W (%s,%s,%s)", i, sol.A[i], sol.B[i], sol.C[i], A[i], B[i], C[i])
		}
	}
	return nil
}

// GateValue evaluates a gate on (l, r, o).
func (g *Gate) GateValue(l, r, o, q *big.Int) *big.Int {
	s := new(big.Int).Mul(g.QL, l)
	s.Add(s, new(big.Int).Mul(g.QR, r))
	s.Add(s, new(big.Int).Mul(g.QO, o))
	lr := new(big.Int).Mul(l, r)
	s.Add(s, lr.Mul(lr, g.QM))
	s.Add(s, g.QC)
	return s.Mod(s, q)
}

// SparseReport is the result of checking a sparse solution.
type SparseReport struct {
	BadGates []int // gates (index into Gates) whose equation does not hold (commitment gates excluded)
	BadCopy  []int // wires with different values at two positions
	BadPub   []int // public placeholder rows whose L value differs from the witness
}

func (r *SparseReport) OK() bool { return len(r.BadGates)+len(r.BadCopy)+len(r.BadPub) == 0 }

// CheckSparse verifies a sparse solution: rows [0,nbPublic) carry the public
// inputs in L; row nbPublic+i is gate i; every wire has one value at all its
// positions; commitment gates (flag != 0) are not evaluated (their RHS is
// supplied by the backend) but still take part in the copy check.
func (s *Sys) CheckSparse(witness []*big.Int, sol *Solution) (*SparseReport, error) {
	np := s.NbPublic
	n := np + len(s.Gates)
	if len(sol.L) < n || len(sol.R) < n || len(sol.O) < n {
		return nil, fmt.Errorf("solution columns have %d,%d,%d rows, need at least %d", len(sol.L), len(sol.R), len(sol.O), n)
	}
	// witness: the full witness (solver outputs must extend it) or only its public part
	// (a prover is free to choose the secret values)
	if len(witness) != np+s.NbSecret && len(witness) != np {
		return nil, fmt.Errorf("witness has %d values, want %d or %d", len(witness), np+s.NbSecret, np)
	}
	rep := &SparseReport{}
	val := map[int]*big.Int{}
	see := func(w int, v *big.Int) {
		if old, ok := val[w]; ok {
			if old.Cmp(v) != 0 {
				rep.BadCopy = append(rep.BadCopy, w)
			}
			return
		}
		val[w] = v
	}
	for i := 0; i < np; i++ {
		if sol.L[i].Cmp(witness[i]) != 0 {
			rep.BadPub = append(rep.BadPub, i)
		}
		see(i, sol.L[i])
	}
	for i, g := range s.Gates {
		l, r, o := sol.L[np+i], sol.R[np+i], sol.O[np+i]
		see(g.XA, l)
		see(g.XB, r)
		see(g.XC, o)
		if g.Commitment == 0 && g.GateValue(l, r, o, s.Q).Sign() != 0 {
			rep.BadGates = append(rep.BadGates, i)
		}
	}
	// padding rows and the R / O positions of the public placeholder rows have zero
	// selectors: their values are irrelevant to the statement and are not checked here
	// witness wires that occur in gates must carry the witness values
	for w := 0; w < len(witness); w++ {
		if v, ok := val[w]; ok && v.Cmp(witness[w]) != 0 {
			rep.BadPub = append(rep.BadPub, w)
		}
	}
	return rep, nil
}

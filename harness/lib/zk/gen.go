package zk

import (
	"math/big"

	"verifharness/lib/prog"

	"pgregory.net/rapid"
)

// ProvableCfg parametrises GenProvable.
type ProvableCfg struct {
	Q          *big.Int
	MaxOps     int
	MaxCommits int
	MinPub     int
	PFail      int // percent of unbiased (likely failing) choices; default 4
	AllowConst bool
	NoSecret   bool // every input public (or constant)
}

// provableWeights keeps circuits small (tens of constraints): no Cmp / AssertLE /
// full-width decompositions.
var provableWeights = map[string]int{
	"Add": 8, "Sub": 6, "Mul": 10, "Neg": 2, "MulAcc": 4, "Div": 3, "DivUnchecked": 2, "Inverse": 2,
	"ToBinary": 2, "FromBinary": 2, "Xor": 2, "Or": 2, "And": 2, "Select": 3, "Lookup2": 1, "IsZero": 3, "Cmp": 0,
	"AssertEq": 2, "AssertDiff": 2, "AssertBool": 1, "AssertCrumb": 1, "AssertLE": 0, "Hint": 2, "Println": 0,
	"EvalPlonk": 2, "AddPlonk": 1, "Commit": 0, "Sum": 1,
}

// GenProvable draws a small program suitable for Setup/Prove/Verify: at least
// one public input, every public input bound into a multiplication constraint
// (so that its verifying-key point is not the point at infinity), optional
// Commit ops committing public, secret and mixed sets (and earlier commitments).
func GenProvable(cfg ProvableCfg) *rapid.Generator[*prog.Program] {
	if cfg.MaxOps == 0 {
		cfg.MaxOps = 8
	}
	if cfg.MinPub == 0 {
		cfg.MinPub = 1
	}
	if cfg.PFail == 0 {
		cfg.PFail = 4
	}
	kinds := []string{"p", "s", "s"}
	if cfg.AllowConst {
		kinds = []string{"p", "s", "s", "c"}
	}
	if cfg.NoSecret {
		kinds = []string{"p"}
		if cfg.AllowConst {
			kinds = []string{"p", "p", "c"}
		}
	}
	base := prog.Gen(prog.GenConfig{Q: cfg.Q, MinIn: cfg.MinPub, MaxIn: 5, MinOps: 1, MaxOps: cfg.MaxOps, MaxOut: 2,
		Kinds: kinds, Weights: provableWeights, PFail: cfg.PFail, NoHeavy: true, MinPub: cfg.MinPub})
	return rapid.Custom(func(t *rapid.T) *prog.Program {
		p := base.Draw(t, "base")
		// insert commits (they produce no slot, so slot numbering is unaffected)
		nc := 0
		if cfg.MaxCommits > 0 {
			nc = rapid.IntRange(0, cfg.MaxCommits).Draw(t, "ncommits")
		}
		for i := 0; i < nc; i++ {
			pos := rapid.IntRange(0, len(p.Ops)).Draw(t, "commitpos")
			// slots available at pos
			ns := len(p.In)
			for _, o := range p.Ops[:pos] {
				ns += prog.NRes(o)
			}
			var pub, sec []int
			for k, in := range p.In {
				if in.Kind == "p" {
					pub = append(pub, k)
				} else if in.Kind == "s" {
					sec = append(sec, k)
				}
			}
			var args []int
			switch rapid.IntRange(0, 3).Draw(t, "commitset") {
			case 0: // public only
				args = pick(t, pub, 1, 2)
			case 1: // secret only
				args = pick(t, sec, 1, 3)
			case 2: // mixed
				args = append(pick(t, pub, 1, 1), pick(t, sec, 1, 2)...)
			default: // any slots incl. derived
				n := rapid.IntRange(1, 3).Draw(t, "cn")
				for k := 0; k < n; k++ {
					args = append(args, rapid.IntRange(0, ns-1).Draw(t, "cslot"))
				}
			}
			if len(args) == 0 {
				args = []int{rapid.IntRange(0, ns-1).Draw(t, "cslot")}
			}
			op := prog.Op{Op: "Commit", A: args, N: rapid.IntRange(0, 1).Draw(t, "chain")}
			ops := append([]prog.Op{}, p.Ops[:pos]...)
			ops = append(ops, op)
			ops = append(ops, p.Ops[pos:]...)
			p.Ops = ops
		}
		BindPublics(p)
		return p
	})
}

func pick(t *rapid.T, from []int, min, max int) []int {
	if len(from) == 0 {
		return nil
	}
	n := rapid.IntRange(min, max).Draw(t, "npick")
	var r []int
	for i := 0; i < n; i++ {
		r = append(r, from[rapid.IntRange(0, len(from)-1).Draw(t, "pick")])
	}
	return r
}

// BindPublics appends, for every public input x, the product x·x, and exposes
// the sum of these products as an extra output: every public input then occurs
// in a multiplication constraint in both builders.
func BindPublics(p *prog.Program) {
	ns := p.NSlots()
	var sq []int
	for k, in := range p.In {
		if in.Kind == "p" {
			p.Ops = append(p.Ops, prog.Op{Op: "Mul", A: []int{k, k}})
			sq = append(sq, ns)
			ns++
		}
	}
	if len(sq) == 0 {
		return
	}
	if len(sq) == 1 {
		p.Out = append(p.Out, sq[0])
		return
	}
	p.Ops = append(p.Ops, prog.Op{Op: "Add", A: sq})
	p.Out = append(p.Out, ns)
}

// NbCommits counts the Commit ops of p.
func NbCommits(p *prog.Program) int {
	n := 0
	for _, o := range p.Ops {
		if o.Op == "Commit" {
			n++
		}
	}
	return n
}

// Package zk holds the curve-agnostic helpers around gnark's Groth16 and PLONK
// backends: reflection-based access to the per-curve proof / key structures
// (all curves are template instances with identical field and method names),
// group-element surgery, witnesses from big integers, and the verif hook.
package zk

import (
	"bytes"
	"fmt"
	"io"
	"math/big"
	"reflect"
	"strings"

	"github.com/consensys/gnark/backend/witness"
)

// Elem returns the addressable struct value behind a pointer (proof, key, …).
func Elem(v any) reflect.Value {
	rv := reflect.ValueOf(v)
	for rv.Kind() == reflect.Ptr || rv.Kind() == reflect.Interface {
		rv = rv.Elem()
	}
	return rv
}

// Path navigates exported fields and indices: "G1.K[2]", "BatchedProof.ClaimedValues[0]", "LRO[1]".
func Path(root reflect.Value, path string) reflect.Value {
	v := root
	for _, part := range strings.Split(path, ".") {
		name := part
		idx := -1
		if i := strings.Index(part, "["); i >= 0 {
			name = part[:i]
			fmt.Sscanf(part[i:], "[%d]", &idx)
		}
		if name != "" {
			v = v.FieldByName(name)
			if !v.IsValid() {
				panic("zk.Path: no field " + name + " in " + path)
			}
		}
		if idx >= 0 {
			v = v.Index(idx)
		}
	}
	return v
}

// DeepCopy copies a value, duplicating slices (structs of arrays are values already).
func DeepCopy(v reflect.Value) reflect.Value {
	switch v.Kind() {
	case reflect.Ptr:
		if v.IsNil() {
			return reflect.Zero(v.Type())
		}
		n := reflect.New(v.Type().Elem())
		n.Elem().Set(DeepCopy(v.Elem()))
		return n
	case reflect.Struct:
		n := reflect.New(v.Type()).Elem()
		n.Set(v) // copies unexported fields too
		for i := 0; i < v.NumField(); i++ {
			if v.Type().Field(i).PkgPath != "" {
				continue
			}
			n.Field(i).Set(DeepCopy(v.Field(i)))
		}
		return n
	case reflect.Slice:
		if v.IsNil() {
			return reflect.Zero(v.Type())
		}
		n := reflect.MakeSlice(v.Type(), v.Len(), v.Len())
		for i := 0; i < v.Len(); i++ {
			n.Index(i).Set(DeepCopy(v.Index(i)))
		}
		return n
	case reflect.Array:
		n := reflect.New(v.Type()).Elem()
		for i := 0; i < v.Len(); i++ {
			n.Index(i).Set(DeepCopy(v.Index(i)))
		}
		return n
	}
	return v
}

// Clone deep-copies a proof / key given as a pointer and returns a pointer of the same type.
func Clone[T any](p T) T {
	return DeepCopy(reflect.ValueOf(p)).Interface().(T)
}

func call(recv reflect.Value, method string, args ...reflect.Value) []reflect.Value {
	m := recv.Addr().MethodByName(method)
	if !m.IsValid() {
		panic(fmt.Sprintf("zk: %s has no method %s", recv.Type(), method))
	}
	return m.Call(args)
}

// Point operations on addressable G1Affine / G2Affine values of any curve.

func PNeg(dst, a reflect.Value)    { call(dst, "Neg", a.Addr()) }
func PAdd(dst, a, b reflect.Value) { call(dst, "Add", a.Addr(), b.Addr()) }
func PDouble(dst, a reflect.Value) { call(dst, "Double", a.Addr()) }
func PMul(dst, a reflect.Value, k *big.Int) {
	call(dst, "ScalarMultiplication", a.Addr(), reflect.ValueOf(k))
}
func PSetInfinity(dst reflect.Value)   { dst.Set(reflect.Zero(dst.Type())) }
func PIsInfinity(a reflect.Value) bool { return call(a, "IsInfinity")[0].Bool() }
func PEqual(a, b reflect.Value) bool   { return call(a, "Equal", b.Addr())[0].Bool() }

// NewLike returns a new addressable zero value of the same type.
func NewLike(a reflect.Value) reflect.Value { return reflect.New(a.Type()).Elem() }

// Field-element operations on addressable fr.Element values of any field.

func FrGet(e reflect.Value) *big.Int {
	b := new(big.Int)
	call(e, "BigInt", reflect.ValueOf(b))
	return b
}
func FrSet(e reflect.Value, x *big.Int) { call(e, "SetBigInt", reflect.ValueOf(x)) }

// BytesOf serialises with WriteTo.
func BytesOf(w io.WriterTo) ([]byte, error) {
	var b bytes.Buffer
	_, err := w.WriteTo(&b)
	return b.Bytes(), err
}

// RawBytesOf serialises with WriteRawTo when offered.
func RawBytesOf(w any) ([]byte, error) {
	r, ok := w.(interface {
		WriteRawTo(io.Writer) (int64, error)
	})
	if !ok {
		return nil, fmt.Errorf("%T has no WriteRawTo", w)
	}
	var b bytes.Buffer
	_, err := r.WriteRawTo(&b)
	return b.Bytes(), err
}

// WitnessFrom builds a witness from big integers (public values first).
func WitnessFrom(q *big.Int, public, secret []*big.Int) (witness.Witness, error) {
	w, err := witness.New(q)
	if err != nil {
		return nil, err
	}
	ch := make(chan any, len(public)+len(secret))
	for _, v := range public {
		ch <- new(big.Int).Set(v)
	}
	for _, v := range secret {
		ch <- new(big.Int).Set(v)
	}
	close(ch)
	if err := w.Fill(len(public), len(secret), ch); err != nil {
		return nil, err
	}
	return w, nil
}

// WitnessValues returns the elements of a witness as big integers.
func WitnessValues(w witness.Witness) []*big.Int {
	rv := reflect.ValueOf(w.Vector())
	out := make([]*big.Int, rv.Len())
	for i := range out {
		e := reflect.New(rv.Type().Elem()).Elem()
		e.Set(rv.Index(i))
		out[i] = FrGet(e)
	}
	return out
}

// curveB is the constant b of the short Weierstrass equation y² = x³ + b of G1.
var curveB = map[string]int64{"bn254": 3, "bls12-377": 1, "bls12-381": 4, "bls24-315": 1, "bls24-317": 4, "bw6-633": 4, "bw6-761": -1}

// TorsionG1 returns a non-trivial point T of G1's curve whose order divides the
// cofactor (T = [r]P for a curve point P outside the prime-order subgroup), in
// the G1Affine type of like. ok is false for curves with cofactor 1 (bn254).
// e(T, Q) = 1 for every Q of order r, so P+T pairs like P: only an explicit
// subgroup check tells them apart.
func TorsionG1(curveName string, r *big.Int, like reflect.Value, seed int) (t reflect.Value, ok bool) {
	b, known := curveB[curveName]
	if !known || curveName == "bn254" {
		return reflect.Value{}, false
	}
	defer func() {
		if recover() != nil {
			ok = false
		}
	}()
	p := NewLike(like)
	x, y := p.FieldByName("X"), p.FieldByName("Y")
	rhs, tmp := NewLike(x), NewLike(x)
	for k := 0; k < 200; k++ {
		call(x, "SetInt64", reflect.ValueOf(int64(1+seed%50+k)))
		call(rhs, "Square", x.Addr())
		call(rhs, "Mul", rhs.Addr(), x.Addr())
		call(tmp, "SetInt64", reflect.ValueOf(b))
		call(rhs, "Add", rhs.Addr(), tmp.Addr())
		if res := call(y, "Sqrt", rhs.Addr()); res[0].IsNil() {
			continue
		}
		if !call(p, "IsOnCurve")[0].Bool() {
			continue
		}
		tt := NewLike(like)
		PMul(tt, p, r)
		if PIsInfinity(tt) {
			continue
		}
		return tt, true
	}
	return reflect.Value{}, false
}

package zk

import (
	"fmt"
	"math/big"
	"reflect"

	"verifharness/lib/cseval"

	"github.com/consensys/gnark/constraint"
)

// Positions returns the wire id carried by every position of the 3N-long
// l||r||o vector of a sparse system with np public inputs: row i<np has wire i
// in L, gate rows their (xa, xb, xc); every other position (R and O of the
// public rows, padding rows) is a padding position, marked -1: its selectors are
// zero and the solver fills it with the value of wire 0.
func Positions(sys *cseval.Sys, N int) []int {
	pos := make([]int, 3*N)
	for i := range pos {
		pos[i] = -1
	}
	np := sys.NbPublic
	for i := 0; i < np; i++ {
		pos[i] = i
	}
	for j, g := range sys.Gates {
		pos[np+j] = g.XA
		pos[N+np+j] = g.XB
		pos[2*N+np+j] = g.XC
	}
	return pos
}

// CheckPermutation verifies that S is a permutation of [0,3N) such that
// (soundness) all real positions of one wire lie on ONE cycle, (completeness) no
// cycle joins real positions of two different wires, and padding positions are
// only joined with each other or with wire 0 (whose value they carry in an
// honest solution). Padding positions need not be tied to anything.
func CheckPermutation(S []int64, pos []int) error {
	n := len(pos)
	if len(S) != n {
		return fmt.Errorf("permutation has %d entries, want %d", len(S), n)
	}
	seen := make([]bool, n)
	for i, s := range S {
		if s < 0 || int(s) >= n {
			return fmt.Errorf("S[%d]=%d out of range", i, s)
		}
		if seen[s] {
			return fmt.Errorf("S is not a permutation: value %d twice", s)
		}
		seen[s] = true
	}
	count := map[int]int{}
	for _, w := range pos {
		if w >= 0 {
			count[w]++
		}
	}
	visited := make([]bool, n)
	cyclesOf := map[int]int{}
	for i := range S {
		if visited[i] {
			continue
		}
		wire, real, pads := -1, 0, 0
		for j := i; !visited[j]; j = int(S[j]) {
			visited[j] = true
			if pos[j] < 0 {
				pads++
				continue
			}
			if wire >= 0 && pos[j] != wire {
				return fmt.Errorf("a cycle of S joins positions of wires %d and %d: honest proofs would fail", wire, pos[j])
			}
			wire = pos[j]
			real++
		}
		if wire < 0 {
			continue // padding only
		}
		if pads > 0 && wire != 0 {
			return fmt.Errorf("a cycle of S joins %d padding positions (value of wire 0) with wire %d: honest proofs would fail", pads, wire)
		}
		cyclesOf[wire]++
		if real != count[wire] {
			return fmt.Errorf("wire %d occupies %d positions but one of its cycles covers only %d of them: a copy constraint is not enforced", wire, count[wire], real)
		}
	}
	return nil
}

// lagrangeAt returns L_j(tau) for j in [0,N) over <omega>.
func lagrangeAt(tau, omega, q *big.Int, N int) []*big.Int {
	out := make([]*big.Int, N)
	tn := new(big.Int).Exp(tau, big.NewInt(int64(N)), q)
	tn.Sub(tn, big.NewInt(1)).Mod(tn, q)
	ninv := new(big.Int).ModInverse(big.NewInt(int64(N)), q)
	tn.Mul(tn, ninv).Mod(tn, q)
	w := big.NewInt(1)
	for j := 0; j < N; j++ {
		d := new(big.Int).Sub(tau, w)
		d.Mod(d, q)
		d.ModInverse(d, q)
		v := new(big.Int).Mul(tn, w)
		v.Mul(v, d).Mod(v, q)
		out[j] = v
		w = new(big.Int).Mul(w, omega)
		w.Mod(w, q)
	}
	return out
}

func evalLagrange(col []*big.Int, lag []*big.Int, q *big.Int) *big.Int {
	s := new(big.Int)
	for j, c := range col {
		if c == nil || c.Sign() == 0 {
			continue
		}
		s.Add(s, new(big.Int).Mul(c, lag[j]))
	}
	return s.Mod(s, q)
}

// CheckPlonkKey verifies that the verifying key commits to exactly the gates,
// the wiring permutation and the commitment selectors of the compiled system:
// every digest must equal [P(tau)]G1 for the polynomial P rebuilt here from the
// exported gate list (selectors) and from the exported permutation S.
func CheckPlonkKey(vk any, tau *big.Int, sys *cseval.Sys, commits constraint.PlonkCommitments, S []int64) error {
	q := sys.Q
	root := Elem(vk)
	np := sys.NbPublic
	n := np + len(sys.Gates)
	N := 1
	for N < n {
		N <<= 1
	}
	if got := root.FieldByName("Size").Uint(); got != uint64(N) {
		return fmt.Errorf("vk.Size=%d, want next power of two of %d = %d", got, n, N)
	}
	if got := root.FieldByName("NbPublicVariables").Uint(); got != uint64(np) {
		return fmt.Errorf("vk.NbPublicVariables=%d, system has %d", got, np)
	}
	sizeInv := FrGet(root.FieldByName("SizeInv"))
	if new(big.Int).Mod(new(big.Int).Mul(sizeInv, big.NewInt(int64(N))), q).Cmp(big.NewInt(1)) != 0 {
		return fmt.Errorf("vk.SizeInv is not 1/Size")
	}
	omega := FrGet(root.FieldByName("Generator"))
	if new(big.Int).Exp(omega, big.NewInt(int64(N)), q).Cmp(big.NewInt(1)) != 0 {
		return fmt.Errorf("vk.Generator^Size != 1")
	}
	if N > 1 {
		if h := new(big.Int).Exp(omega, big.NewInt(int64(N/2)), q); h.Cmp(big.NewInt(1)) == 0 {
			return fmt.Errorf("vk.Generator is not a primitive root of order Size")
		}
	}
	u := FrGet(root.FieldByName("CosetShift"))
	uN := new(big.Int).Exp(u, big.NewInt(int64(N)), q)
	u2N := new(big.Int).Mul(uN, uN)
	u2N.Mod(u2N, q)
	if uN.Cmp(big.NewInt(1)) == 0 || u2N.Cmp(big.NewInt(1)) == 0 {
		return fmt.Errorf("vk.CosetShift does not separate the three cosets")
	}
	cci := root.FieldByName("CommitmentConstraintIndexes")
	if cci.Len() != len(commits) {
		return fmt.Errorf("vk has %d commitment constraint indexes, system has %d commitments", cci.Len(), len(commits))
	}
	for i := range commits {
		if int(cci.Index(i).Uint()) != commits[i].CommitmentIndex {
			return fmt.Errorf("vk.CommitmentConstraintIndexes[%d]=%d, system says %d", i, cci.Index(i).Uint(), commits[i].CommitmentIndex)
		}
	}
	// selector columns rebuilt from the exported gates
	col := func() []*big.Int { return make([]*big.Int, N) }
	ql, qr, qm, qo, qk := col(), col(), col(), col(), col()
	minusOne := new(big.Int).Sub(q, big.NewInt(1))
	for i := 0; i < np; i++ {
		ql[i] = minusOne
	}
	for j, g := range sys.Gates {
		ql[np+j], qr[np+j], qm[np+j], qo[np+j], qk[np+j] = g.QL, g.QR, g.QM, g.QO, g.QC
	}
	lag := lagrangeAt(tau, omega, q, N)
	g1 := root.FieldByName("Kzg").FieldByName("G1")
	checkDigest := func(name string, digest reflect.Value, colv []*big.Int) error {
		want := NewLike(g1)
		PMul(want, g1, evalLagrange(colv, lag, q))
		if !PEqual(want, digest) {
			return fmt.Errorf("vk.%s is not the commitment to the column rebuilt from the exported constraint system", name)
		}
		return nil
	}
	for _, c := range []struct {
		n string
		v []*big.Int
	}{{"Ql", ql}, {"Qr", qr}, {"Qm", qm}, {"Qo", qo}, {"Qk", qk}} {
		if err := checkDigest(c.n, root.FieldByName(c.n), c.v); err != nil {
			return err
		}
	}
	qcp := root.FieldByName("Qcp")
	if qcp.Len() != len(commits) {
		return fmt.Errorf("vk has %d Qcp digests, system has %d commitments", qcp.Len(), len(commits))
	}
	for i := range commits {
		c := col()
		for _, k := range commits[i].Committed {
			c[np+k] = big.NewInt(1)
		}
		if err := checkDigest(fmt.Sprintf("Qcp[%d]", i), qcp.Index(i), c); err != nil {
			return err
		}
	}
	// permutation
	pos := Positions(sys, N)
	if err := CheckPermutation(S, pos); err != nil {
		return fmt.Errorf("exported permutation: %w", err)
	}
	id := make([]*big.Int, 3*N)
	w := big.NewInt(1)
	u2 := new(big.Int).Mul(u, u)
	u2.Mod(u2, q)
	for j := 0; j < N; j++ {
		id[j] = new(big.Int).Set(w)
		id[N+j] = new(big.Int).Mod(new(big.Int).Mul(w, u), q)
		id[2*N+j] = new(big.Int).Mod(new(big.Int).Mul(w, u2), q)
		w = new(big.Int).Mod(new(big.Int).Mul(w, omega), q)
	}
	for k := 0; k < 3; k++ {
		c := col()
		for i := 0; i < N; i++ {
			c[i] = id[S[k*N+i]]
		}
		if err := checkDigest(fmt.Sprintf("S[%d]", k), root.FieldByName("S").Index(k), c); err != nil {
			return err
		}
	}
	return nil
}

//go:build verif

package zk

import (
	"sync"

	"github.com/consensys/gnark-crypto/ecc"
	cs_bls12377 "github.com/consensys/gnark/constraint/bls12-377"
	cs_bls12381 "github.com/consensys/gnark/constraint/bls12-381"
	cs_bls24315 "github.com/consensys/gnark/constraint/bls24-315"
	cs_bls24317 "github.com/consensys/gnark/constraint/bls24-317"
	cs_bn254 "github.com/consensys/gnark/constraint/bn254"
	cs_bw6633 "github.com/consensys/gnark/constraint/bw6-633"
	cs_bw6761 "github.com/consensys/gnark/constraint/bw6-761"
)

var hookMu sync.Mutex

func setHook(id ecc.ID, fn func(cs any, sol any)) {
	switch id {
	case ecc.BN254:
		cs_bn254.VerifPostSolve = fn
	case ecc.BLS12_377:
		cs_bls12377.VerifPostSolve = fn
	case ecc.BLS12_381:
		cs_bls12381.VerifPostSolve = fn
	case ecc.BLS24_315:
		cs_bls24315.VerifPostSolve = fn
	case ecc.BLS24_317:
		cs_bls24317.VerifPostSolve = fn
	case ecc.BW6_633:
		cs_bw6633.VerifPostSolve = fn
	case ecc.BW6_761:
		cs_bw6761.VerifPostSolve = fn
	default:
		panic("no hook for curve " + id.String())
	}
}

// WithPostSolve runs body while the verif post-solve hook of the curve calls fn
// for solves of the given constraint system (matched by identity). The hook is
// process-global: uses are serialised and the hook is cleared afterwards.
func WithPostSolve(id ecc.ID, target any, fn func(sol any), body func()) {
	hookMu.Lock()
	defer hookMu.Unlock()
	setHook(id, func(cs any, sol any) {
		if cs == target {
			fn(sol)
		}
	})
	defer setHook(id, nil)
	body()
}

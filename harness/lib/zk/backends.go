package zk

import (
	"fmt"
	"math/big"

	"verifharness/lib/prog"

	"github.com/consensys/gnark/backend"
	"github.com/consensys/gnark/backend/groth16"
	"github.com/consensys/gnark/backend/plonk"
	"github.com/consensys/gnark/backend/witness"
	"github.com/consensys/gnark/constraint"
	"github.com/consensys/gnark/frontend"
	"github.com/consensys/gnark/test/unsafekzg"

	kzg "github.com/consensys/gnark-crypto/kzg"
)

// G16 is a compiled circuit with its Groth16 keys.
type G16 struct {
	F  prog.Field
	CS constraint.ConstraintSystem
	PK groth16.ProvingKey
	VK groth16.VerifyingKey
}

// NewG16 compiles c with the R1CS builder and runs Setup.
func NewG16(f prog.Field, c frontend.Circuit, opts ...frontend.CompileOption) (*G16, error) {
	cs, err := prog.CompileU64(f, prog.R1CS, c, opts...)
	if err != nil {
		return nil, fmt.Errorf("compile: %w", err)
	}
	pk, vk, err := groth16.Setup(cs)
	if err != nil {
		return nil, fmt.Errorf("setup: %w", err)
	}
	return &G16{F: f, CS: cs, PK: pk, VK: vk}, nil
}

// Prove runs groth16.Prove converting a panic into an error prefixed PANIC.
func (g *G16) Prove(w witness.Witness, opts ...backend.ProverOption) (p groth16.Proof, err error) {
	defer func() {
		if r := recover(); r != nil {
			err = fmt.Errorf("PANIC in groth16.Prove: %v", r)
		}
	}()
	return groth16.Prove(g.CS, g.PK, w, opts...)
}

// VerifyG16 runs groth16.Verify converting a panic into an error prefixed PANIC.
func VerifyG16(p groth16.Proof, vk groth16.VerifyingKey, pub witness.Witness, opts ...backend.VerifierOption) (err error) {
	defer func() {
		if r := recover(); r != nil {
			err = fmt.Errorf("PANIC in groth16.Verify: %v", r)
		}
	}()
	return groth16.Verify(p, vk, pub, opts...)
}

// Plonk is a compiled circuit with its PLONK keys.
type Plonk struct {
	F  prog.Field
	CS constraint.ConstraintSystem
	PK plonk.ProvingKey
	VK plonk.VerifyingKey
}

// NewPlonk compiles c with the SCS builder, builds an unsafe SRS (optionally
// with a known toxic value) and runs Setup.
func NewPlonk(f prog.Field, c frontend.Circuit, tau *big.Int, opts ...frontend.CompileOption) (*Plonk, error) {
	cs, err := prog.CompileU64(f, prog.SCS, c, opts...)
	if err != nil {
		return nil, fmt.Errorf("compile: %w", err)
	}
	return NewPlonkFromCS(f, cs, tau)
}

// NewPlonkFromCS runs the SRS generation and Setup for a compiled sparse system.
func NewPlonkFromCS(f prog.Field, cs constraint.ConstraintSystem, tau *big.Int) (pl *Plonk, err error) {
	defer func() {
		if r := recover(); r != nil {
			err = fmt.Errorf("PANIC in plonk setup: %v", r)
		}
	}()
	var kopts []unsafekzg.Option
	if tau != nil {
		kopts = append(kopts, unsafekzg.WithToxicValue(tau))
	}
	// the SRS comes from gnark's TEST utility: a failure there (it panics for a
	// one-row system) is not a failure of Setup
	srs, lag, err := func() (s kzg.SRS, l kzg.SRS, e error) {
		defer func() {
			if r := recover(); r != nil {
				e = fmt.Errorf("panic in test/unsafekzg: %v", r)
			}
		}()
		return unsafekzg.NewSRS(cs, kopts...)
	}()
	if err != nil {
		return nil, fmt.Errorf("srs: %w", err)
	}
	pk, vk, err := plonk.Setup(cs, srs, lag)
	if err != nil {
		return nil, fmt.Errorf("setup: %w", err)
	}
	return &Plonk{F: f, CS: cs, PK: pk, VK: vk}, nil
}

// Prove runs plonk.Prove converting a panic into an error prefixed PANIC.
func (g *Plonk) Prove(w witness.Witness, opts ...backend.ProverOption) (p plonk.Proof, err error) {
	defer func() {
		if r := recover(); r != nil {
			err = fmt.Errorf("PANIC in plonk.Prove: %v", r)
		}
	}()
	return plonk.Prove(g.CS, g.PK, w, opts...)
}

// VerifyPlonk runs plonk.Verify converting a panic into an error prefixed PANIC.
func VerifyPlonk(p plonk.Proof, vk plonk.VerifyingKey, pub witness.Witness, opts ...backend.VerifierOption) (err error) {
	defer func() {
		if r := recover(); r != nil {
			err = fmt.Errorf("PANIC in plonk.Verify: %v", r)
		}
	}()
	return plonk.Verify(p, vk, pub, opts...)
}

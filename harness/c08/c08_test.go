// C08 — verifiers and decoders of untrusted data return errors, never crash.
// Crash oracle (no panic escaping ReadFrom / UnmarshalBinary / Verify / Public /
// Vector) + structural oracle (inconsistent lengths / headers are errors).
package c08

import (
	"bytes"
	"encoding/binary"
	"encoding/json"
	"fmt"
	"io"
	"math/big"
	"os"
	"os/exec"
	"reflect"
	"strings"
	"testing"

	"verifharness/lib/ev"
	"verifharness/lib/prog"
	"verifharness/lib/zk"

	"github.com/consensys/gnark/backend/groth16"
	"github.com/consensys/gnark/backend/plonk"
	"github.com/consensys/gnark/backend/witness"
	"github.com/consensys/gnark/logger"
	"pgregory.net/rapid"
)

const ID = "C08"

func TestMain(m *testing.M) {
	logger.Disable()
	if os.Getenv("C08_CHILD") != "" {
		childMain()
		return
	}
	ev.RegisterReplay("untrusted", func(raw json.RawMessage) string {
		var c Case
		if err := json.Unmarshal(raw, &c); err != nil {
			return ""
		}
		return run(c, ev.Get(ID)).Violation
	})
	ev.Main(m)
}

// Mut is one mutation of a genuine artifact.
type Mut struct {
	On   string `json:"on"` // proofbytes | proofobj | witbytes | witobj
	Op   string `json:"op"` // see apply*
	A    int    `json:"a"`  // generic parameters
	B    int    `json:"b"`
	Raw  bool   `json:"raw"`  // start from the raw (uncompressed) encoding
	Data []byte `json:"data"` // garbage / replacement bytes
}

type Case struct {
	Prog    *prog.Program `json:"prog"`
	Curve   string        `json:"curve"`
	Backend string        `json:"backend"`
	Muts    []Mut         `json:"muts"`
}

type env struct {
	f       prog.Field
	backend string
	g16     *zk.G16
	pl      *zk.Plonk
	proof   any // groth16.Proof or plonk.Proof
	pub     []*big.Int
	full    witness.Witness
	nc      int
}

func (e *env) decode(b []byte) (p any, n int64, err error) {
	msg := ev.Safely(func() {
		if e.backend == "groth16" {
			np := groth16.NewProof(e.f.Curve)
			n, err = np.ReadFrom(bytes.NewReader(b))
			p = np
		} else {
			np := plonk.NewProof(e.f.Curve)
			n, err = np.ReadFrom(bytes.NewReader(b))
			p = np
		}
	})
	if msg != "" {
		return nil, 0, fmt.Errorf("PANIC in Proof.ReadFrom: %s", msg)
	}
	return
}

func (e *env) verify(p any, pub witness.Witness) error {
	if e.backend == "groth16" {
		return zk.VerifyG16(p.(groth16.Proof), e.g16.VK, pub)
	}
	return zk.VerifyPlonk(p.(plonk.Proof), e.pl.VK, pub)
}

func (e *env) proofBytes(raw bool) []byte {
	var b []byte
	var err error
	if raw {
		b, err = zk.RawBytesOf(e.proof)
	} else {
		b, err = zk.BytesOf(e.proof.(io.WriterTo))
	}
	if err != nil {
		panic(err)
	}
	return b
}

func pointSize(v reflect.Value, raw bool) int {
	m := "Bytes"
	if raw {
		m = "RawBytes"
	}
	out := v.Addr().MethodByName(m).Call(nil)
	return out[0].Len()
}

// layout returns the offsets of the slot boundaries and of the length prefixes
// of a genuine proof encoding: (boundaries, prefix offsets, element size after each prefix).
func (e *env) layout(raw bool) (bounds []int, prefixes []int, elem []int) {
	root := zk.Elem(e.proof)
	off := 0
	add := func(n int) { off += n; bounds = append(bounds, off) }
	if e.backend == "groth16" {
		g1 := pointSize(root.FieldByName("Ar"), raw)
		g2 := pointSize(root.FieldByName("Bs"), raw)
		add(g1)
		add(g2)
		add(g1)
		prefixes = append(prefixes, off)
		elem = append(elem, g1)
		add(4)
		for i := 0; i < root.FieldByName("Commitments").Len(); i++ {
			add(g1)
		}
		add(g1)
		return
	}
	g1 := pointSize(root.FieldByName("Z"), raw)
	fr := (e.f.Q.BitLen() + 7) / 8
	fr = ((fr + 7) / 8) * 8
	for i := 0; i < 8; i++ {
		add(g1)
	}
	prefixes = append(prefixes, off)
	elem = append(elem, fr)
	add(4)
	for i := 0; i < root.FieldByName("BatchedProof").FieldByName("ClaimedValues").Len(); i++ {
		add(fr)
	}
	add(g1)
	add(fr)
	prefixes = append(prefixes, off)
	elem = append(elem, g1)
	add(4)
	for i := 0; i < root.FieldByName("Bsb22Commitments").Len(); i++ {
		add(g1)
	}
	return
}

func putU32(b []byte, off int, v uint32) {
	if off+4 <= len(b) {
		binary.BigEndian.PutUint32(b[off:], v)
	}
}

func mkPub(q *big.Int, vals []*big.Int) witness.Witness {
	w, err := zk.WitnessFrom(q, vals, nil)
	if err != nil {
		panic(err)
	}
	return w
}

func firstLine(s string) string {
	if i := strings.Index(s, "\n"); i >= 0 {
		s = s[:i]
	}
	if len(s) > 300 {
		s = s[:300]
	}
	return s
}

func isPanic(err error) bool { return err != nil && strings.HasPrefix(err.Error(), "PANIC") }

func run(c Case, rec *ev.Recorder) ev.Outcome {
	f := prog.FieldByName(c.Curve)
	q := f.Q
	interp := prog.Eval(c.Prog, q)
	if interp.Excluded != "" || !interp.OK {
		return ev.Outcome{Discard: true, DiscardWhy: "not a satisfying program"}
	}
	e := &env{f: f, backend: c.Backend, nc: zk.NbCommits(c.Prog)}
	var err error
	e.full, err = prog.Witness(f, prog.Assignment(c.Prog, q, interp.Outs))
	if err != nil {
		return ev.Outcome{Discard: true, DiscardWhy: "witness"}
	}
	for _, in := range c.Prog.In {
		if in.Kind == "p" {
			e.pub = append(e.pub, in.V.In(q))
		}
	}
	e.pub = append(e.pub, interp.Outs...)
	if c.Backend == "groth16" {
		if e.g16, err = zk.NewG16(f, prog.NewCircuit(c.Prog)); err != nil {
			return ev.Outcome{Discard: true, DiscardWhy: "setup failed"}
		}
		if e.proof, err = e.g16.Prove(e.full); err != nil {
			return ev.Outcome{Discard: true, DiscardWhy: "prove failed"}
		}
	} else {
		if e.pl, err = zk.NewPlonk(f, prog.NewCircuit(c.Prog), nil); err != nil {
			return ev.Outcome{Discard: true, DiscardWhy: "setup failed"}
		}
		if e.proof, err = e.pl.Prove(e.full); err != nil {
			return ev.Outcome{Discard: true, DiscardWhy: "prove failed"}
		}
	}
	classes := []string{"curve:" + c.Curve, "backend:" + c.Backend, fmt.Sprintf("commitments:%d", e.nc)}
	nontrivial := false
	for mi, m := range c.Muts {
		where := fmt.Sprintf("mutation %d %+v: ", mi, struct {
			On, Op string
			A, B   int
			Raw    bool
		}{m.On, m.Op, m.A, m.B, m.Raw})
		switch m.On {
		case "proofbytes":
			b := append([]byte(nil), e.proofBytes(m.Raw)...)
			bounds, prefixes, elem := e.layout(m.Raw)
			inconsistent := false // structure provably differs from what the key prescribes
			reachedList := true
			switch m.Op {
			case "prefix": // set a length prefix to a small value
				k := m.A % len(prefixes)
				old := binary.BigEndian.Uint32(b[prefixes[k]:])
				nv := uint32(m.B % 9)
				if m.B >= 100 {
					nv = old + 1
				} else if m.B >= 50 && old > 0 {
					nv = old - 1
				}
				// F05 exclusion: never announce more elements than payload-remaining/elemsize + 64
				if max := uint32((len(b)-prefixes[k]-4)/elem[k] + 64); nv > max {
					nv = max
					rec.Discarded("length prefix capped (open finding F05)")
				}
				putU32(b, prefixes[k], nv)
				inconsistent = nv != old
			case "truncate": // cut at a slot boundary (A even) or mid-slot (A odd)
				cut := bounds[(m.A/2)%len(bounds)]
				if m.A%2 == 1 && cut > 0 {
					cut -= 1 + m.B%7
					if cut < 0 {
						cut = 0
					}
				}
				if cut >= len(b) {
					cut = len(b) - 1
				}
				b = b[:cut]
				inconsistent = true
				reachedList = cut > prefixes[0]
			case "garbage": // trailing garbage after a complete encoding
				b = append(b, m.Data...)
			case "flip": // flip bits inside a slot, never the encoding flag bits of a point's first byte
				i := m.A % len(b)
				isFirst := i == 0
				for _, bd := range bounds {
					if i == bd {
						isFirst = true
					}
				}
				inPrefix := false
				for _, p := range prefixes {
					if i >= p && i < p+4 {
						inPrefix = true
					}
				}
				if inPrefix {
					rec.Discarded("flip inside a length prefix (covered by op prefix)")
					continue
				}
				mask := byte(1 << (m.B % 8))
				if isFirst {
					mask = byte(1 << (m.B % 5))
				}
				b[i] ^= mask
			case "zeros":
				for i := range b {
					b[i] = 0
				}
				for _, p := range prefixes {
					putU32(b, p, 0)
				}
			}
			p, n, derr := e.decode(b)
			if isPanic(derr) {
				return ev.Outcome{Violation: where + firstLine(derr.Error())}
			}
			if derr == nil && n > int64(len(b)) {
				return ev.Outcome{Violation: where + fmt.Sprintf("ReadFrom reports %d bytes read from a %d byte input", n, len(b))}
			}
			if derr != nil {
				classes = append(classes, "decode-error")
			} else {
				verr := e.verify(p, mkPub(q, e.pub))
				if isPanic(verr) {
					return ev.Outcome{Violation: where + "decoded proof makes Verify panic: " + firstLine(verr.Error())}
				}
				if inconsistent && verr == nil {
					return ev.Outcome{Violation: where + "structurally inconsistent proof (list length differs from what the key prescribes) was decoded and ACCEPTED"}
				}
				classes = append(classes, "decoded:"+m.Op)
			}
			if reachedList && m.Op != "garbage" && m.Op != "flip" {
				nontrivial = true
			}
			classes = append(classes, "proofbytes:"+m.Op)
		case "proofobj":
			p := zk.Clone(e.proof)
			root := zk.Elem(p)
			var l reflect.Value
			name := "Commitments"
			if c.Backend == "plonk" {
				name = []string{"Bsb22Commitments", "ClaimedValues"}[m.A%2]
			}
			if name == "ClaimedValues" {
				l = root.FieldByName("BatchedProof").FieldByName("ClaimedValues")
			} else {
				l = root.FieldByName(name)
			}
			n := l.Len()
			newLen := m.B % (n + 4)
			if newLen == n {
				newLen = n + 1
			}
			switch m.Op {
			case "resize":
				nl := reflect.MakeSlice(l.Type(), newLen, newLen)
				reflect.Copy(nl, l)
				l.Set(nl)
			case "nil":
				if n == 0 {
					rec.Discarded("list already empty")
					continue
				}
				l.Set(reflect.Zero(l.Type()))
			}
			verr := e.verify(p, mkPub(q, e.pub))
			if isPanic(verr) {
				return ev.Outcome{Violation: where + "Verify panicked on a proof whose " + name + fmt.Sprintf(" has %d elements instead of %d: ", l.Len(), n) + firstLine(verr.Error())}
			}
			if verr == nil {
				return ev.Outcome{Violation: where + fmt.Sprintf("Verify ACCEPTED a proof whose %s has %d elements instead of %d", name, l.Len(), n)}
			}
			nontrivial = true
			classes = append(classes, "proofobj:"+name+":"+m.Op)
		case "combo":
			// two cooperating edits that keep the TOTAL number of elements the verifier consumes:
			// k fewer (more) commitments / BSB22 commitments together with a public witness that is
			// k elements longer (shorter)
			p := zk.Clone(e.proof)
			root := zk.Elem(p)
			name := "Commitments"
			if c.Backend == "plonk" {
				name = "Bsb22Commitments"
			}
			l := root.FieldByName(name)
			n := l.Len()
			k := 1 + m.A%2
			newLen := n - k
			if m.B%2 == 1 || newLen < 0 {
				newLen = n + k
			}
			nl := reflect.MakeSlice(l.Type(), newLen, newLen)
			reflect.Copy(nl, l)
			for i := n; i < newLen; i++ { // surplus entries: copies of a valid point
				if n > 0 {
					nl.Index(i).Set(l.Index(0))
				} else {
					nl.Index(i).Set(root.FieldByName(map[string]string{"groth16": "Krs", "plonk": "Z"}[c.Backend]))
				}
			}
			l.Set(nl)
			if m.Op == "compensate-claimed" && c.Backend == "plonk" {
				// the compensating list is the claimed values of the batched opening
				// (one per BSB22 commitment plus 6 fixed ones); the public witness is genuine
				cv := zk.Path(root, "BatchedProof.ClaimedValues")
				cn := cv.Len()
				want := cn + (n - newLen)
				if want < 0 {
					want = 0
				}
				ncv := reflect.MakeSlice(cv.Type(), want, want)
				reflect.Copy(ncv, cv)
				for i := cn; i < want; i++ {
					ncv.Index(i).Set(cv.Index(i % max(cn, 1)))
				}
				cv.Set(ncv)
				verr := e.verify(p, mkPub(q, e.pub))
				if isPanic(verr) {
					return ev.Outcome{Violation: where + fmt.Sprintf("Verify panicked on a proof with %d instead of %d Bsb22Commitments and %d instead of %d claimed values: ", newLen, n, want, cn) + firstLine(verr.Error())}
				}
				if verr == nil {
					return ev.Outcome{Violation: where + fmt.Sprintf("Verify ACCEPTED a proof with %d instead of %d Bsb22Commitments and %d instead of %d claimed values", newLen, n, want, cn)}
				}
				nontrivial = true
				classes = append(classes, "combo:compensate-claimed")
				continue
			}
			pub := append([]*big.Int(nil), e.pub...)
			for len(pub) < len(e.pub)+(n-newLen) {
				pub = append(pub, big.NewInt(int64(m.B)))
			}
			if d := len(e.pub) + (n - newLen); d < len(pub) && d >= 0 {
				pub = pub[:d]
			}
			verr := e.verify(p, mkPub(q, pub))
			if isPanic(verr) {
				return ev.Outcome{Violation: where + fmt.Sprintf("Verify panicked on a proof with %d instead of %d %s and a public witness of %d instead of %d elements: ", newLen, n, name, len(pub), len(e.pub)) + firstLine(verr.Error())}
			}
			if verr == nil {
				return ev.Outcome{Violation: where + fmt.Sprintf("Verify ACCEPTED a proof with %d instead of %d %s and a public witness of %d instead of %d elements", newLen, n, name, len(pub), len(e.pub))}
			}
			nontrivial = true
			classes = append(classes, "combo:compensate")
		case "witobj":
			pub := append([]*big.Int(nil), e.pub...)
			var w witness.Witness
			switch m.Op {
			case "shorter":
				pub = pub[:m.A%len(pub)]
				w = mkPub(q, pub)
			case "longer":
				for i := 0; i <= m.A%3; i++ {
					pub = append(pub, big.NewInt(int64(m.B)))
				}
				w = mkPub(q, pub)
			case "empty":
				w = mkPub(q, nil)
			case "full": // the full witness instead of the public one
				w = e.full
			case "otherfield":
				other := prog.FieldByName("bls12-381")
				if c.Curve == "bls12-381" {
					other = prog.FieldByName("bn254")
				}
				w = mkPub(other.Q, pub)
			}
			verr := e.verify(e.proof, w)
			if isPanic(verr) {
				return ev.Outcome{Violation: where + "Verify panicked on a malformed public witness: " + firstLine(verr.Error())}
			}
			if verr == nil && m.Op != "full" {
				return ev.Outcome{Violation: where + "Verify ACCEPTED a public witness of the wrong length / field"}
			}
			nontrivial = true
			classes = append(classes, "witobj:"+m.Op)
		case "witbytes":
			if v := witnessBytesCase(e, m, rec, where, &classes); v != "" {
				return ev.Outcome{Violation: v}
			}
			nontrivial = true
		}
	}
	return ev.Outcome{NonTrivial: nontrivial, Classes: classes}
}

// witnessBytesCase edits the binary encoding of the genuine full witness:
// header (nbPublic, nbSecret), vector length prefix, truncation, garbage.
func witnessBytesCase(e *env, m Mut, rec *ev.Recorder, where string, classes *[]string) string {
	b, err := e.full.MarshalBinary()
	if err != nil {
		return "MarshalBinary: " + err.Error()
	}
	b = append([]byte(nil), b...)
	np := binary.BigEndian.Uint32(b[0:])
	ns := binary.BigEndian.Uint32(b[4:])
	nv := binary.BigEndian.Uint32(b[8:])
	elemSize := 0
	if nv > 0 {
		elemSize = (len(b) - 12) / int(nv)
	}
	inconsistent := false
	switch m.Op {
	case "header": // header disagrees with the vector
		dp, ds := uint32(m.A%4), uint32(m.B%4)
		newP, newS := np+dp-1, ns+ds-1 // each in {-1,0,+1,+2}
		if m.A >= 100 {
			newP, newS = np+ns, 0
		}
		putU32(b, 0, newP)
		putU32(b, 4, newS)
		inconsistent = uint64(newP)+uint64(newS) != uint64(nv)
	case "veclen":
		v := uint32(m.A % 9)
		if m.A >= 100 {
			v = nv + 1
		}
		if elemSize > 0 {
			if max := uint32((len(b)-12)/elemSize + 64); v > max {
				v = max
				rec.Discarded("length prefix capped (open finding F05)")
			}
		}
		putU32(b, 8, v)
		inconsistent = v != nv
	case "truncate":
		cut := m.A % len(b)
		b = b[:cut]
		inconsistent = true
	case "garbage":
		b = append(b, m.Data...)
	case "nonreduced": // an element >= modulus
		if len(b) >= 12+elemSize && elemSize > 0 {
			for i := 0; i < elemSize; i++ {
				b[12+i] = 0xff
			}
		}
		inconsistent = true
	}
	w, _ := witness.New(e.f.Q)
	var derr error
	if msg := ev.Safely(func() {
		if m.B%2 == 0 {
			derr = w.UnmarshalBinary(b)
		} else {
			_, derr = w.ReadFrom(bytes.NewReader(b))
		}
	}); msg != "" {
		return where + "witness decoding panicked: " + firstLine(msg)
	}
	*classes = append(*classes, "witbytes:"+m.Op)
	if derr != nil {
		*classes = append(*classes, "witness-decode-error")
		return ""
	}
	if inconsistent {
		return where + fmt.Sprintf("a witness whose header / length / payload are inconsistent decoded without error (header %d+%d, prefix %d)", binary.BigEndian.Uint32(b[0:]), binary.BigEndian.Uint32(b[4:]), binary.BigEndian.Uint32(b[8:]))
	}
	// a decoded witness must be usable without panic
	if msg := ev.Safely(func() {
		_ = w.Vector()
		if pw, err := w.Public(); err == nil {
			_ = e.verify(e.proof, pw)
		}
		_, _ = w.MarshalBinary()
	}); msg != "" {
		return where + "decoded witness panics when used: " + firstLine(msg)
	}
	return ""
}

var proofByteOps = []string{"prefix", "prefix", "truncate", "truncate", "garbage", "flip", "flip", "zeros"}
var witByteOps = []string{"header", "header", "veclen", "truncate", "garbage", "nonreduced"}
var witObjOps = []string{"shorter", "longer", "empty", "full", "otherfield"}

func genMut(t *rapid.T) Mut {
	m := Mut{A: rapid.IntRange(0, 120).Draw(t, "a"), B: rapid.IntRange(0, 120).Draw(t, "b"), Raw: rapid.Bool().Draw(t, "raw")}
	switch rapid.IntRange(0, 9).Draw(t, "on") {
	case 0, 1, 2, 3:
		m.On, m.Op = "proofbytes", rapid.SampledFrom(proofByteOps).Draw(t, "op")
		if m.Op == "garbage" {
			m.Data = rapid.SliceOfN(rapid.Byte(), 1, 40).Draw(t, "garbage")
		}
	case 4:
		m.On, m.Op = "proofobj", rapid.SampledFrom([]string{"resize", "resize", "nil"}).Draw(t, "op")
	case 5:
		m.On, m.Op = "combo", rapid.SampledFrom([]string{"compensate", "compensate-claimed"}).Draw(t, "op")
	case 6, 7:
		m.On, m.Op = "witbytes", rapid.SampledFrom(witByteOps).Draw(t, "op")
		if m.Op == "garbage" {
			m.Data = rapid.SliceOfN(rapid.Byte(), 1, 40).Draw(t, "garbage")
		}
	default:
		m.On, m.Op = "witobj", rapid.SampledFrom(witObjOps).Draw(t, "op")
	}
	return m
}

func genCase(curves []string) *rapid.Generator[Case] {
	return rapid.Custom(func(t *rapid.T) Case {
		cn := rapid.SampledFrom(curves).Draw(t, "curve")
		f := prog.FieldByName(cn)
		c := Case{Curve: cn, Backend: rapid.SampledFrom([]string{"groth16", "plonk"}).Draw(t, "backend")}
		c.Prog = zk.GenProvable(zk.ProvableCfg{Q: f.Q, MaxOps: 5, MaxCommits: 2, PFail: 1}).Draw(t, "prog")
		n := rapid.IntRange(6, 14).Draw(t, "nmuts")
		for i := 0; i < n; i++ {
			c.Muts = append(c.Muts, genMut(t))
		}
		return c
	})
}

const rule = "genuine (proof, key, witness) triples of rapid-generated circuits (0-2 commitments) on all curves and both backends; 6-14 drawn mutations per case: proof bytes (compressed and raw) with length prefixes set to 0..8 / true±1, truncated at every slot boundary and mid-slot, trailing garbage, bit flips, all zeros; proof objects with commitment / claimed-value lists resized or nil, and two compensating edits (commitments vs public witness, BSB22 commitments vs claimed values); public witnesses shorter / longer / empty / full / of another field; witness bytes with header or length prefix disagreeing with the payload, truncated, extended, non-reduced element. Oracle: no panic in ReadFrom / UnmarshalBinary / Verify / Public / Vector, byte counts within the input, structurally inconsistent inputs are errors (never accepted, never decoded silently). Non-trivial: a mutation that reaches a variable-length member or a malformed witness. Length prefixes are capped at payload/elemsize+64 (open finding F05, counted). Distinct: SHA-256 of the case JSON."

func curves() []string {
	all := []string{"bn254", "bls12-377", "bls12-381", "bls24-315", "bls24-317", "bw6-633", "bw6-761"}
	if ev.Tier() == "quick" {
		return append([]string{"bn254", "bn254", "bls12-381"}, all...)
	}
	return all
}

func TestUntrustedInputs(t *testing.T) {
	rec := ev.Get(ID)
	rec.SetRule(rule)
	g := genCase(curves())
	rec.Check(t, "untrusted", ev.N(900, 12000), func(rt *rapid.T) {
		c := g.Draw(rt, "case")
		rec.Begin("untrusted", c)
		rec.Report(rt, "untrusted", c, run(c, rec))
	})
}

// ---- open finding F05: probe in a memory-limited child process --------------

func childMain() {
	// a witness announcing 2^32-1 elements in 12 bytes
	w, _ := witness.New(prog.FieldByName("bn254").Q)
	b := []byte{0, 0, 0, 1, 0, 0, 0, 0, 0xff, 0xff, 0xff, 0xff}
	err := w.UnmarshalBinary(b)
	fmt.Println("CHILD-RETURNED", err)
	os.Exit(0)
}

func TestKnownFindingProbeOOM(t *testing.T) {
	rec := ev.Get(ID)
	kf, ok := ev.OpenFinding(ID, "decoder-length-prefix-oom")
	if !ok {
		t.Skip("finding not open")
	}
	bin := os.Args[0]
	// 6 GiB address-space limit: the decoder's make([]Element, 2^32-1) needs ~128 GiB
	cmd := exec.Command("sh", "-c", "ulimit -v 6291456; exec \"$0\" -test.run '^$'", bin)
	cmd.Env = append(os.Environ(), "C08_CHILD=1")
	out, err := cmd.CombinedOutput()
	s := string(out)
	switch {
	case strings.Contains(s, "out of memory") || strings.Contains(s, "cannot allocate memory"):
		rec.KnownFinding(kf.ID, "12-byte witness with length prefix 0xFFFFFFFF kills the decoding process (fatal error: out of memory) under a 6 GiB address-space limit; allocation by untrusted prefix inside gnark-crypto")
		rec.Count("probe", map[string]string{"probe": "oom"}, true, "probe:oom-reproduced")
	case strings.Contains(s, "CHILD-RETURNED"):
		rec.Note("F05 probe did not reproduce: the decoder returned %q", firstLine(s))
		rec.Count("probe", map[string]string{"probe": "oom"}, true, "probe:oom-not-reproduced")
	default:
		t.Logf("probe inconclusive: err=%v out=%s", err, firstLine(s))
	}
}

func TestReplay(t *testing.T) { ev.Replay(t) }

// FuzzUntrusted drives the same property with Go's coverage-guided fuzzer
// (thorough tier only): the fuzzer's bytes are the rapid bit stream, i.e. they
// decode into a structured case (circuit, backend, mutation list).
func FuzzUntrusted(f *testing.F) {
	rec := ev.Get(ID)
	g := genCase([]string{"bn254", "bls12-381", "bls12-377", "bw6-761"})
	f.Add([]byte{0, 1, 2, 3, 4, 5, 6, 7, 8, 9, 10, 11, 12, 13, 14, 15})
	f.Fuzz(rapid.MakeFuzz(func(rt *rapid.T) {
		c := g.Draw(rt, "case")
		if o := run(c, rec); o.Violation != "" {
			p := rec.SaveReplay("untrusted", c, o.Violation)
			rt.Fatalf("VIOLATION %s replay=%s: %s", ID, p, o.Violation)
		}
	}))
}

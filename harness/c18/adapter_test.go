package c18

// The mpcsetup API is per curve and typed (Phase1, Phase2, SrsCommons,
// VerifyPhase1, VerifyPhase2 live in backend/groth16/<curve>/mpcsetup). The
// scenario logic is written once against this small adapter; the typed
// instances are adapter_<curve>_test.go (bn254 written by hand, the other six
// produced from it by gen_adapters.sh — pure textual substitution of the
// import paths; the output is committed, nothing is generated at run time).

import (
	"bytes"
	"fmt"
	"io"
	"math/big"
	"sort"

	"github.com/consensys/gnark/backend/groth16"
	"github.com/consensys/gnark/constraint"
)

// contribution is what *mpcsetup.Phase1 and *mpcsetup.Phase2 have in common.
type contribution interface {
	Contribute()
	io.WriterTo
	io.ReaderFrom
}

type commonsIO interface {
	io.WriterTo
	io.ReaderFrom
}

type adapter struct {
	name           string
	g1Size, g2Size int // compressed point sizes (what curve.NewEncoder writes)

	newPhase1   func(N uint64) contribution // mpcsetup.NewPhase1
	emptyPhase1 func() contribution         // new(mpcsetup.Phase1), for ReadFrom
	emptyPhase2 func() contribution         // new(mpcsetup.Phase2), for ReadFrom
	newCommons  func() commonsIO            // new(mpcsetup.SrsCommons), for ReadFrom

	// initPhase2 runs (*Phase2).Initialize(r1cs, commons); commons is the value returned by verifyPhase1 / readCommons
	initPhase2 func(ccs constraint.ConstraintSystem, commons commonsIO) contribution
	// verifyPhase1 is mpcsetup.VerifyPhase1; the result is a *SrsCommons
	verifyPhase1 func(N uint64, beacon []byte, c []contribution) (commonsIO, error)
	// verifyPhase2 is mpcsetup.VerifyPhase2
	verifyPhase2 func(ccs constraint.ConstraintSystem, commons commonsIO, beacon []byte, c []contribution) (groth16.ProvingKey, groth16.VerifyingKey, error)
	// step1 / step2 are (*Phase1).Verify / (*Phase2).Verify
	step1 func(prev, next contribution) error
	step2 func(prev, next contribution) error

	// group arithmetic on compressed encodings
	g1Mul func(b []byte, k *big.Int) ([]byte, error)
	g2Mul func(b []byte, k *big.Int) ([]byte, error)
	g1Inf func() []byte
	g2Inf func() []byte
}

var adapters = map[string]*adapter{}

func register(a *adapter) { adapters[a.name] = a }

func adapterNames() []string {
	var r []string
	for k := range adapters {
		r = append(r, k)
	}
	sort.Strings(r)
	return r
}

// guard converts a panic escaping gnark into an error prefixed PANIC.
func guard(where string, f func() error) (err error) {
	defer func() {
		if r := recover(); r != nil {
			err = fmt.Errorf("PANIC in %s: %v", where, r)
		}
	}()
	return f()
}

func encode(w io.WriterTo) []byte {
	var b bytes.Buffer
	if _, err := w.WriteTo(&b); err != nil {
		panic(fmt.Sprintf("WriteTo failed: %v", err))
	}
	return append([]byte{}, b.Bytes()...)
}

// decode reads b into a fresh object; a panic in the decoder is returned as an error prefixed PANIC.
func decode(fresh func() contribution, b []byte) (c contribution, err error) {
	c = fresh()
	err = guard("ReadFrom", func() error {
		_, e := c.ReadFrom(bytes.NewReader(b))
		return e
	})
	return c, err
}

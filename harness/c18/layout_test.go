package c18

// Byte layout of serialized contributions, derived from marshal.go:
//
// Phase1.WriteTo  = proofs.Tau | proofs.Alpha | proofs.Beta | parameters | short(Challenge)
//   UpdateProof   = contributionCommitment (G1) | contributionPok (G2)
//   SrsCommons    = N (uint64 BE) | [β]₂ | [τⁱ]₁ i=1..2N-2 | [τⁱ]₂ i=1..N-1 | [βτⁱ]₁ i=0..N-1 | [ατⁱ]₁ i=0..N-1
//                   (every point encoded on its own: compressed, no length prefixes)
// Phase2.WriteTo  = nbCommitments (uint16 BE) | δ₁ | PKK (uint32 len + points) | Z (uint32 len + points) | δ₂ |
//                   SigmaCKK[i] (uint32 len + points) for each i | σ[i] (G2) for each i |
//                   Delta proof | Sigmas[i] proofs | short(Challenge)
//   short(x)      = uint8 len | bytes
//
// The layout is validated against the decoded objects (reflection over the
// unexported fields) in checkLayout, which TestLayout runs on every curve.

import (
	"bytes"
	"encoding/binary"
	"fmt"
	"reflect"
	"unsafe"
)

type slot struct {
	Kind  string // e.g. p1.tau1
	Idx   int    // index inside the vector as stored in the object (τ vectors: power; sigmaCKK: flattened)
	Sub   int    // sigmaCKK / sigma / proofSigma: commitment number
	Off   int
	Len   int
	Group int // 1, 2; 0 for headers and the challenge
}

type layout struct {
	Phase int
	Slots []slot
	N     int // phase 1: domain size
	NbCom int // phase 2
	ChOff int // offset of the challenge length byte
}

// kinds that hold group elements, in reporting order
var p1Kinds = []string{"p1.proofTau.commit", "p1.proofTau.pok", "p1.proofAlpha.commit", "p1.proofAlpha.pok", "p1.proofBeta.commit", "p1.proofBeta.pok",
	"p1.beta2", "p1.tau1", "p1.tau2", "p1.betaTau", "p1.alphaTau"}
var p2Kinds = []string{"p2.delta1", "p2.pkk", "p2.z", "p2.delta2", "p2.sigmaCKK", "p2.sigma",
	"p2.proofDelta.commit", "p2.proofDelta.pok", "p2.proofSigma.commit", "p2.proofSigma.pok"}

type cursor struct {
	b   []byte
	off int
	out []slot
	err error
}

func (c *cursor) take(kind string, idx, sub, n, group int) {
	if c.err != nil {
		return
	}
	if c.off+n > len(c.b) {
		c.err = fmt.Errorf("layout: %s[%d] at %d+%d exceeds %d bytes", kind, idx, c.off, n, len(c.b))
		return
	}
	c.out = append(c.out, slot{Kind: kind, Idx: idx, Sub: sub, Off: c.off, Len: n, Group: group})
	c.off += n
}

func (c *cursor) u(n int) uint64 {
	if c.err != nil {
		return 0
	}
	if c.off+n > len(c.b) {
		c.err = fmt.Errorf("layout: integer at %d exceeds %d bytes", c.off, len(c.b))
		return 0
	}
	var v uint64
	for _, x := range c.b[c.off : c.off+n] {
		v = v<<8 | uint64(x)
	}
	return v
}

func (c *cursor) challenge(kind string) int {
	off := c.off
	l := int(c.u(1))
	c.take(kind+".len", 0, 0, 1, 0)
	c.take(kind, 0, 0, l, 0)
	if c.err == nil && c.off != len(c.b) {
		c.err = fmt.Errorf("layout: %d trailing bytes", len(c.b)-c.off)
	}
	return off
}

func layoutP1(a *adapter, b []byte) (*layout, error) {
	c := &cursor{b: b}
	for _, pr := range []string{"Tau", "Alpha", "Beta"} {
		c.take("p1.proof"+pr+".commit", 0, 0, a.g1Size, 1)
		c.take("p1.proof"+pr+".pok", 0, 0, a.g2Size, 2)
	}
	N := int(c.u(8))
	c.take("p1.N", 0, 0, 8, 0)
	if N < 1 || N > 1<<20 {
		return nil, fmt.Errorf("layout: implausible N=%d", N)
	}
	c.take("p1.beta2", 0, 0, a.g2Size, 2)
	for i := 1; i <= 2*N-2; i++ {
		c.take("p1.tau1", i, 0, a.g1Size, 1)
	}
	for i := 1; i <= N-1; i++ {
		c.take("p1.tau2", i, 0, a.g2Size, 2)
	}
	for i := 0; i < N; i++ {
		c.take("p1.betaTau", i, 0, a.g1Size, 1)
	}
	for i := 0; i < N; i++ {
		c.take("p1.alphaTau", i, 0, a.g1Size, 1)
	}
	ch := c.challenge("p1.challenge")
	if c.err != nil {
		return nil, c.err
	}
	return &layout{Phase: 1, Slots: c.out, N: N, ChOff: ch}, nil
}

func layoutP2(a *adapter, b []byte) (*layout, error) {
	c := &cursor{b: b}
	nc := int(c.u(2))
	c.take("p2.nbCommitments", 0, 0, 2, 0)
	vec := func(kind string, sub int, base int) int {
		n := int(c.u(4))
		c.take(kind+".len", sub, sub, 4, 0)
		if n > 1<<20 {
			c.err = fmt.Errorf("layout: implausible length %d", n)
			return 0
		}
		for i := 0; i < n; i++ {
			c.take(kind, base+i, sub, a.g1Size, 1)
		}
		return n
	}
	c.take("p2.delta1", 0, 0, a.g1Size, 1)
	vec("p2.pkk", 0, 0)
	vec("p2.z", 0, 0)
	c.take("p2.delta2", 0, 0, a.g2Size, 2)
	base := 0
	for i := 0; i < nc; i++ {
		base += vec("p2.sigmaCKK", i, base)
	}
	for i := 0; i < nc; i++ {
		c.take("p2.sigma", i, i, a.g2Size, 2)
	}
	c.take("p2.proofDelta.commit", 0, 0, a.g1Size, 1)
	c.take("p2.proofDelta.pok", 0, 0, a.g2Size, 2)
	for i := 0; i < nc; i++ {
		c.take("p2.proofSigma.commit", i, i, a.g1Size, 1)
		c.take("p2.proofSigma.pok", i, i, a.g2Size, 2)
	}
	ch := c.challenge("p2.challenge")
	if c.err != nil {
		return nil, c.err
	}
	return &layout{Phase: 2, Slots: c.out, NbCom: nc, ChOff: ch}, nil
}

func (l *layout) ofKind(kind string) []slot {
	var r []slot
	for _, s := range l.Slots {
		if s.Kind == kind {
			r = append(r, s)
		}
	}
	return r
}

func (l *layout) ofGroup(g int) []slot {
	var r []slot
	for _, s := range l.Slots {
		if s.Group == g {
			r = append(r, s)
		}
	}
	return r
}

func (l *layout) challengeBytes(b []byte) []byte {
	n := int(b[l.ChOff])
	return b[l.ChOff+1 : l.ChOff+1+n]
}

// withChallenge returns b with the challenge replaced (length byte adjusted).
func (l *layout) withChallenge(b, ch []byte) []byte {
	r := append([]byte{}, b[:l.ChOff]...)
	r = append(r, byte(len(ch)))
	return append(r, ch...)
}

func withSlot(b []byte, s slot, v []byte) []byte {
	if len(v) != s.Len {
		panic("withSlot: size mismatch")
	}
	r := append([]byte{}, b...)
	copy(r[s.Off:], v)
	return r
}

// ---------------------------------------------------------------------------
// validation against the decoded object

// uf returns field name of struct v, usable even when unexported.
func uf(v reflect.Value, name string) reflect.Value {
	f := v.FieldByName(name)
	if !f.IsValid() {
		panic("no field " + name + " in " + v.Type().String())
	}
	return reflect.NewAt(f.Type(), unsafe.Pointer(f.UnsafeAddr())).Elem()
}

func pointBytes(p reflect.Value) []byte {
	m := p.Addr().MethodByName("Bytes")
	arr := m.Call(nil)[0]
	cp := reflect.New(arr.Type()).Elem()
	cp.Set(arr)
	return cp.Slice(0, cp.Len()).Bytes()
}

// objectSlot returns the compressed encoding of the element of the decoded
// object that slot s is claimed to hold.
func objectSlot(obj any, s slot) []byte {
	root := reflect.ValueOf(obj).Elem()
	proof := func(p reflect.Value, member string) []byte {
		if member == "commit" {
			return pointBytes(uf(p, "contributionCommitment"))
		}
		return pointBytes(uf(p, "contributionPok"))
	}
	switch s.Kind {
	case "p1.proofTau.commit", "p1.proofTau.pok", "p1.proofAlpha.commit", "p1.proofAlpha.pok", "p1.proofBeta.commit", "p1.proofBeta.pok":
		var name, member string
		switch s.Kind[len("p1.proof")] {
		case 'T':
			name = "Tau"
		case 'A':
			name = "Alpha"
		default:
			name = "Beta"
		}
		member = s.Kind[len("p1.proof")+len(name)+1:]
		return proof(uf(uf(root, "proofs"), name), member)
	case "p1.beta2":
		return pointBytes(uf(uf(uf(root, "parameters"), "G2"), "Beta"))
	case "p1.tau1":
		return pointBytes(uf(uf(uf(root, "parameters"), "G1"), "Tau").Index(s.Idx))
	case "p1.tau2":
		return pointBytes(uf(uf(uf(root, "parameters"), "G2"), "Tau").Index(s.Idx))
	case "p1.betaTau":
		return pointBytes(uf(uf(uf(root, "parameters"), "G1"), "BetaTau").Index(s.Idx))
	case "p1.alphaTau":
		return pointBytes(uf(uf(uf(root, "parameters"), "G1"), "AlphaTau").Index(s.Idx))
	case "p2.delta1":
		return pointBytes(uf(uf(uf(root, "Parameters"), "G1"), "Delta"))
	case "p2.delta2":
		return pointBytes(uf(uf(uf(root, "Parameters"), "G2"), "Delta"))
	case "p2.pkk":
		return pointBytes(uf(uf(uf(root, "Parameters"), "G1"), "PKK").Index(s.Idx))
	case "p2.z":
		return pointBytes(uf(uf(uf(root, "Parameters"), "G1"), "Z").Index(s.Idx))
	case "p2.sigmaCKK":
		v := uf(uf(uf(root, "Parameters"), "G1"), "SigmaCKK")
		k := s.Idx
		for i := 0; i < s.Sub; i++ {
			k -= v.Index(i).Len()
		}
		return pointBytes(v.Index(s.Sub).Index(k))
	case "p2.sigma":
		return pointBytes(uf(uf(uf(root, "Parameters"), "G2"), "Sigma").Index(s.Idx))
	case "p2.proofDelta.commit":
		return proof(uf(root, "Delta"), "commit")
	case "p2.proofDelta.pok":
		return proof(uf(root, "Delta"), "pok")
	case "p2.proofSigma.commit":
		return proof(uf(root, "Sigmas").Index(s.Sub), "commit")
	case "p2.proofSigma.pok":
		return proof(uf(root, "Sigmas").Index(s.Sub), "pok")
	case "p1.challenge", "p2.challenge":
		return uf(root, "Challenge").Bytes()
	}
	return nil
}

// checkLayout decodes b, verifies that re-encoding gives b back and that every
// group-element slot of the layout holds exactly the element of the decoded
// object it is named after. Returns the number of slots compared.
func checkLayout(a *adapter, phase int, b []byte) (int, error) {
	var l *layout
	var err error
	fresh := a.emptyPhase1
	if phase == 1 {
		l, err = layoutP1(a, b)
	} else {
		l, err = layoutP2(a, b)
		fresh = a.emptyPhase2
	}
	if err != nil {
		return 0, err
	}
	obj, err := decode(fresh, b)
	if err != nil {
		return 0, fmt.Errorf("decode: %w", err)
	}
	if !bytes.Equal(encode(obj), b) {
		return 0, fmt.Errorf("re-encoding the decoded object gives different bytes")
	}
	n := 0
	for _, s := range l.Slots {
		want := objectSlot(obj, s)
		if want == nil {
			continue
		}
		if !bytes.Equal(want, b[s.Off:s.Off+s.Len]) {
			return n, fmt.Errorf("slot %s[%d] at %d does not hold the object's element", s.Kind, s.Idx, s.Off)
		}
		n++
	}
	// headers
	if phase == 1 {
		if got := binary.BigEndian.Uint64(b[l.ofKind("p1.N")[0].Off:]); int(got) != l.N {
			return n, fmt.Errorf("N header")
		}
	}
	return n, nil
}

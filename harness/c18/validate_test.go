package c18

import (
	"fmt"
	"testing"
	"time"

	"verifharness/lib/ev"
	"verifharness/lib/prog"
)

// fixedProg: 2 public, 2 secret inputs, two commitments (one private-only, one mixed and chained).
func fixedProg() *prog.Program {
	n := func(v int64) prog.Val { return prog.Val{B: "n", O: v} }
	return &prog.Program{
		In: []prog.Input{{Kind: "p", V: n(3)}, {Kind: "s", V: n(5)}, {Kind: "s", V: n(7)}, {Kind: "p", V: n(2)}},
		Ops: []prog.Op{
			{Op: "Mul", A: []int{0, 1}},             // slot 4
			{Op: "Commit", A: []int{1, 2}},          //
			{Op: "Add", A: []int{4, 2}},             // slot 5
			{Op: "Commit", A: []int{0, 2, 5}, N: 1}, //
			{Op: "Mul", A: []int{5, 3}},             // slot 6
			{Op: "Mul", A: []int{0, 0}},             // slot 7
			{Op: "Mul", A: []int{3, 3}},             // slot 8
		},
		Out: []int{6},
	}
}

// TestLayout validates the slot layout used for byte-level tampering against the
// decoded objects, on every curve, for initial objects and contributions.
func TestLayout(t *testing.T) {
	rec := ev.Get(ID)
	for _, name := range adapterNames() {
		a := adapters[name]
		c := Case{Curve: name, Prog: fixedProg(), LogN: 3, CoefK: 3, N1: 2, N2: 2, M1: 1, M2: 1, Beacon1: "b1", Beacon2: "b2"}
		s := &session{c: c, a: a, rec: rec, f: prog.FieldByName(name), bad: -1}
		var err error
		if s.ccs, err = compile(s.f, c.Prog, c.CoefK, 2); err != nil {
			t.Fatalf("%s: compile: %v", name, err)
		}
		s.N = 16
		start := time.Now()
		if v := s.honest(prog.Eval(c.Prog, s.f.Q)); v != "" {
			p := rec.Violate("mpc", c, v)
			t.Fatalf("VIOLATION %s kind=mpc replay=%s: %s", ID, p, v)
		}
		total := 0
		kinds := map[string]bool{}
		for ph, ch := range []*chain{&s.p1, &s.p2} {
			for i, b := range append([][]byte{ch.init}, ch.b...) {
				n, err := checkLayout(a, ph+1, b)
				if err != nil {
					t.Fatalf("%s phase %d object %d: %v", name, ph+1, i, err)
				}
				total += n
				l, _ := s.layoutOf(ph+1, b)
				for _, sl := range l.Slots {
					kinds[sl.Kind] = true
				}
			}
		}
		for _, k := range append(append([]string{}, p1Kinds...), p2Kinds...) {
			if !kinds[k] {
				t.Fatalf("%s: slot kind %s not present in the fixed ceremony", name, k)
			}
		}
		rec.Count("layout", name, false, "layout-validated:"+name)
		rec.AddExtra("layout_slots_compared_with_decoded_objects", total)
		t.Log(fmt.Sprintf("%s: %d slots validated, ceremony %.2fs", name, total, time.Since(start).Seconds()))
	}
}

// C18 — Groth16 multi-party setup accepts only valid contribution chains and
// yields working keys.
//
// Metamorphic: a ceremony is run exactly like a real one (every contributor
// reads the previous contribution from bytes, contributes, writes bytes; the
// coordinator reads everything back and calls VerifyPhase1 / VerifyPhase2).
// Honest chains (and their prefixes) must verify and the sealed keys must
// prove and verify the circuit and reject a wrong public input. Then the
// transcript is tampered with (one serialized group element replaced, the
// challenge altered, contributions reordered / dropped / duplicated / spliced
// from an independent chain, phase 2 verified against other phase-1 output or
// another circuit) and verification must return an error.
package c18

import (
	"bytes"
	"encoding/json"
	"fmt"
	"math/big"
	"strings"
	"testing"
	"time"

	"verifharness/lib/ev"
	"verifharness/lib/prog"
	"verifharness/lib/zk"

	"github.com/consensys/gnark-crypto/ecc"
	"github.com/consensys/gnark/backend"
	"github.com/consensys/gnark/backend/groth16"
	"github.com/consensys/gnark/constraint"
	"github.com/consensys/gnark/constraint/solver"
	"github.com/consensys/gnark/frontend"
	"github.com/consensys/gnark/logger"
	"pgregory.net/rapid"
)

const ID = "C18"

func TestMain(m *testing.M) {
	logger.Disable()
	ev.RegisterReplay("mpc", func(raw json.RawMessage) string {
		var c Case
		if err := json.Unmarshal(raw, &c); err != nil {
			return ""
		}
		return run(c, ev.Get(ID)).Violation
	})
	ev.Main(m)
}

// Tamper is one edit of the honest transcript.
type Tamper struct {
	Phase  int    `json:"phase"`            // 1 | 2
	Class  string `json:"class"`            // elem | chal | chain | env | header
	Op     string `json:"op"`               // see the op lists below
	At     int    `json:"at"`               // contribution index (taken modulo the chain length)
	At2    int    `json:"at2,omitempty"`    // second index (swap partner, splice source, challenge source)
	Kind   string `json:"kind,omitempty"`   // elem: slot kind (layout_test.go)
	Idx    int    `json:"idx,omitempty"`    // elem: index within the kind (modulo the count)
	Src    int    `json:"src,omitempty"`    // elem: source slot selector (modulo the candidates)
	K      int64  `json:"k,omitempty"`      // elem mul: multiplier
	Bit    int    `json:"bit,omitempty"`    // flip: bit (modulo the size)
	Direct bool   `json:"direct,omitempty"` // elem/chal/header: prev.Verify(next) instead of VerifyPhaseN on the chain cut after the edited contribution
	Strip  bool   `json:"strip,omitempty"`  // env: additionally empty every challenge (the verifier then fills them in)
}

// Case fully determines a ceremony up to gnark's own randomness.
type Case struct {
	Curve   string        `json:"curve"`
	Prog    *prog.Program `json:"prog"`
	LogN    int           `json:"log_n"`  // the circuit is padded with squarings until its domain is at least 2^LogN
	Over    int           `json:"over"`   // phase 1 is run for 2^Over times the minimal domain size
	CoefK   int64         `json:"coef_k"` // coefficient on an internal wire (the circuit variant uses CoefK+1)
	N1      int           `json:"n1"`     // phase-1 contributions
	N2      int           `json:"n2"`     // phase-2 contributions
	M1      int           `json:"m1"`     // length of the independent phase-1 chain (built when a tamper needs it)
	M2      int           `json:"m2"`     // length of the independent phase-2 chain
	Beacon1 string        `json:"beacon1"`
	Beacon2 string        `json:"beacon2"`
	Rerun   bool          `json:"rerun"` // verify the honest transcript a second time: the sealed output must be byte-identical
	Tampers []Tamper      `json:"tampers"`
}

// ---------------------------------------------------------------------------
// circuit

func hook(k int64, pad int) func(api frontend.API, slots []frontend.Variable) {
	return func(api frontend.API, slots []frontend.Variable) {
		x := api.Mul(slots[0], slots[0]) // internal wire
		y := api.Mul(api.Mul(x, k), x)   // coefficient k on the internal wire x
		for i := 0; i < pad; i++ {
			y = api.Mul(y, y)
		}
	}
}

// compile compiles the program; k == 0: no extra constraints at all (tiny circuits, domain 2 and 4).
func compile(f prog.Field, p *prog.Program, k int64, pad int) (constraint.ConstraintSystem, error) {
	c := prog.NewCircuit(p)
	if k != 0 {
		c.Hook = hook(k, pad)
	}
	return prog.CompileU64(f, prog.R1CS, c)
}

// ---------------------------------------------------------------------------
// ceremony

type chain struct {
	phase int
	init  []byte   // serialized initial object (what contribution 0 extends)
	b     [][]byte // serialized contributions
}

// contributeChain runs n contributors, each through ReadFrom / Contribute / WriteTo.
func contributeChain(fresh func() contribution, first contribution, n int) [][]byte {
	var out [][]byte
	cur := first
	for i := 0; i < n; i++ {
		if i > 0 {
			var err error
			if cur, err = decode(fresh, out[i-1]); err != nil {
				panic(fmt.Sprintf("honest contribution %d does not decode: %v", i-1, err))
			}
		}
		cur.Contribute()
		out = append(out, encode(cur))
	}
	return out
}

type ref struct {
	B bool // taken from the independent chain
	I int
}

// isPrefix: the sequence is contributions 0..l-1 of one chain, in order.
func isPrefix(s []ref) bool {
	for i, r := range s {
		if r.I != i || r.B != s[0].B {
			return false
		}
	}
	return true
}

type session struct {
	c    Case
	a    *adapter
	rec  *ev.Recorder
	f    prog.Field
	ccs  constraint.ConstraintSystem
	pad  int
	N    uint64
	p1   chain
	p1B  *chain
	com  commonsIO // phase-1 output the phase-2 chain was built on
	p2   chain
	p2B  *chain
	cls  []string
	bad  int // index of the tamper that produced the violation (-1: none / honest part)
	nt   int // tampers that decoded and were rejected by a consistency check
	note string
}

func (s *session) fresh(phase int) func() contribution {
	if phase == 1 {
		return s.a.emptyPhase1
	}
	return s.a.emptyPhase2
}

func (s *session) decodeAll(phase int, bs [][]byte) ([]contribution, error) {
	out := make([]contribution, len(bs))
	for i, b := range bs {
		c, err := decode(s.fresh(phase), b)
		if err != nil {
			return nil, fmt.Errorf("contribution %d: %w", i, err)
		}
		out[i] = c
	}
	return out, nil
}

type decodeError struct{ err error }

func (d decodeError) Error() string { return "decode: " + d.err.Error() }

// verify1 is the coordinator's phase-1 verification of serialized contributions.
func (s *session) verify1(beacon string, bs [][]byte) (commonsIO, error) {
	return s.verify1N(s.N, beacon, bs)
}

func (s *session) verify1N(N uint64, beacon string, bs [][]byte) (commonsIO, error) {
	cs, err := s.decodeAll(1, bs)
	if err != nil {
		return nil, decodeError{err}
	}
	var com commonsIO
	err = guard("VerifyPhase1", func() error {
		var e error
		com, e = s.a.verifyPhase1(N, []byte(beacon), cs)
		return e
	})
	if err != nil {
		return nil, err
	}
	// the coordinator publishes the commons; consumers read them back
	rt := s.a.newCommons()
	if _, err := rt.ReadFrom(bytes.NewReader(encode(com))); err != nil {
		return nil, fmt.Errorf("SrsCommons do not round-trip: %w", err)
	}
	return rt, nil
}

func (s *session) verify2(ccs constraint.ConstraintSystem, com commonsIO, beacon string, bs [][]byte) (pk groth16.ProvingKey, vk groth16.VerifyingKey, err error) {
	cs, err := s.decodeAll(2, bs)
	if err != nil {
		return nil, nil, decodeError{err}
	}
	err = guard("VerifyPhase2", func() error {
		var e error
		pk, vk, e = s.a.verifyPhase2(ccs, com, []byte(beacon), cs)
		return e
	})
	return
}

// verifySeq verifies a sequence of serialized contributions of the phase with the session's honest environment.
func (s *session) verifySeq(phase int, bs [][]byte) error {
	if phase == 1 {
		_, err := s.verify1(s.c.Beacon1, bs)
		return err
	}
	_, _, err := s.verify2(s.ccs, s.com, s.c.Beacon2, bs)
	return err
}

// verifyStep is prev.Verify(next) on freshly decoded objects.
func (s *session) verifyStep(phase int, prev, next []byte) error {
	p, err := decode(s.fresh(phase), prev)
	if err != nil {
		return fmt.Errorf("honest predecessor does not decode: %w", err)
	}
	n, err := decode(s.fresh(phase), next)
	if err != nil {
		return decodeError{err}
	}
	step := s.a.step1
	if phase == 2 {
		step = s.a.step2
	}
	return guard("Verify", func() error { return step(p, n) })
}

func (s *session) chainOf(phase int) *chain {
	if phase == 1 {
		return &s.p1
	}
	return &s.p2
}

// other returns the independent chain of the phase (same initial object), building it on first use.
func (s *session) other(phase int) *chain {
	if phase == 1 {
		if s.p1B == nil {
			s.p1B = &chain{phase: 1, init: s.p1.init, b: contributeChain(s.a.emptyPhase1, s.a.newPhase1(s.N), s.c.M1)}
		}
		return s.p1B
	}
	if s.p2B == nil {
		first, err := decode(s.a.emptyPhase2, s.p2.init)
		if err != nil {
			panic("initial phase-2 object does not decode: " + err.Error())
		}
		s.p2B = &chain{phase: 2, init: s.p2.init, b: contributeChain(s.a.emptyPhase2, first, s.c.M2)}
	}
	return s.p2B
}

func (s *session) layoutOf(phase int, b []byte) (*layout, error) {
	if phase == 1 {
		return layoutP1(s.a, b)
	}
	return layoutP2(s.a, b)
}

func pubValues(p *prog.Program, q *big.Int, outs []*big.Int) []*big.Int {
	var r []*big.Int
	for _, in := range p.In {
		if in.Kind == "p" {
			r = append(r, in.V.In(q))
		}
	}
	return append(r, outs...)
}

func firstLine(s string) string {
	if i := strings.Index(s, "\n"); i >= 0 {
		s = s[:i]
	}
	if len(s) > 160 {
		s = s[:160]
	}
	return s
}

func log2(n uint64) int {
	k := 0
	for n > 1 {
		n >>= 1
		k++
	}
	return k
}

// run executes the case; a violation caused by one tamper of several is re-run with that tamper
// alone (minimise), so that the replay file holds the smallest transcript edit.
func run(c Case, rec *ev.Recorder) ev.Outcome {
	o, _ := runMin(c, rec)
	return o
}

func runMin(c Case, rec *ev.Recorder) (ev.Outcome, Case) {
	o, bad := runOnce(c, rec)
	if o.Violation != "" && bad >= 0 && len(c.Tampers) > 1 {
		c2 := c
		c2.Tampers = []Tamper{c.Tampers[bad]}
		if o2, _ := runOnce(c2, rec); o2.Violation != "" {
			return o2, c2
		}
	}
	return o, c
}

func runOnce(c Case, rec *ev.Recorder) (ev.Outcome, int) {
	o, s := runSession(c, rec)
	if s == nil {
		return o, -1
	}
	return o, s.bad
}

func runSession(c Case, rec *ev.Recorder) (ev.Outcome, *session) {
	a := adapters[c.Curve]
	if a == nil {
		return ev.Outcome{Discard: true, DiscardWhy: "no adapter for " + c.Curve}, nil
	}
	f := prog.FieldByName(c.Curve)
	q := f.Q
	interp := prog.Eval(c.Prog, q)
	if interp.Excluded != "" {
		return ev.Outcome{Discard: true, DiscardWhy: interp.Excluded}, nil
	}
	s := &session{c: c, a: a, rec: rec, f: f, bad: -1}

	// ---- circuit: compile once to count, then pad to the requested domain size
	base, err := compile(f, c.Prog, c.CoefK, 0)
	if err != nil {
		switch {
		case strings.Contains(err.Error(), "by constant(0)"):
			return ev.Outcome{Discard: true, DiscardWhy: "constant zero divisor"}, nil
		case strings.Contains(err.Error(), "must commit to at least one variable"):
			return ev.Outcome{Discard: true, DiscardWhy: "commit of constants only"}, nil
		}
		return ev.Outcome{Discard: true, DiscardWhy: "compile failed (C04 covers this): " + firstLine(err.Error())}, nil
	}
	s.ccs = base
	if want := 1<<uint(c.LogN-1) + 1; c.CoefK != 0 && c.LogN >= 1 && base.GetNbConstraints() < want {
		s.pad = want - base.GetNbConstraints()
		if s.ccs, err = compile(f, c.Prog, c.CoefK, s.pad); err != nil {
			return ev.Outcome{Violation: "padded circuit does not compile: " + err.Error()}, s
		}
	}
	s.N = ecc.NextPowerOfTwo(uint64(s.ccs.GetNbConstraints())) << uint(c.Over)
	if s.N < 2 {
		s.N = 2
	}
	nbCom := len(s.ccs.GetCommitments().CommitmentIndexes())
	s.cls = []string{"curve:" + c.Curve, fmt.Sprintf("domain:2^%d", log2(s.N)), fmt.Sprintf("n1:%d", c.N1), fmt.Sprintf("n2:%d", c.N2),
		fmt.Sprintf("commitments:%d", nbCom), fmt.Sprintf("oversized-domain:%v", c.Over > 0)}

	// ---- honest phase 1
	var hv string
	t0 := time.Now()
	if p := ev.Safely(func() { hv = s.honest(interp) }); p != "" {
		return ev.Outcome{Violation: "honest ceremony panicked: " + p}, s
	}
	if hv != "" {
		return ev.Outcome{Violation: hv}, s
	}
	rec.AddExtra("ms_spent_in_honest_ceremonies", int(time.Since(t0).Milliseconds()))
	t0 = time.Now()
	defer func() { rec.AddExtra("ms_spent_in_tampered_verifications", int(time.Since(t0).Milliseconds())) }()

	// ---- tampered transcripts
	for ti, t := range c.Tampers {
		var v string
		if p := ev.Safely(func() { v = s.tamper(t) }); p != "" {
			s.bad = ti
			return ev.Outcome{Violation: fmt.Sprintf("tamper %d %+v: harness or gnark panicked outside the guarded calls: %s", ti, t, p)}, s
		}
		if v != "" {
			s.bad = ti
			return ev.Outcome{Violation: fmt.Sprintf("tamper %d %+v on %s domain %d (%d+%d contributions, %d commitments): %s", ti, t, c.Curve, s.N, c.N1, c.N2, nbCom, v)}, s
		}
	}
	return ev.Outcome{NonTrivial: s.nt > 0, Classes: s.cls}, s
}

// honest runs the ceremony and the positive oracles. Returns a violation message or "".
func (s *session) honest(interp prog.Result) string {
	c, a := s.c, s.a
	first := a.newPhase1(s.N)
	s.p1 = chain{phase: 1, init: encode(first)}
	s.p1.b = contributeChain(a.emptyPhase1, first, c.N1)
	for i, b := range s.p1.b {
		if _, err := layoutP1(a, b); err != nil {
			return fmt.Sprintf("phase-1 contribution %d: %v", i, err)
		}
	}
	com, err := s.verify1(c.Beacon1, s.p1.b)
	if err != nil {
		return fmt.Sprintf("honest phase-1 chain of %d contributions (domain %d) rejected: %v", c.N1, s.N, err)
	}
	s.com = com
	if c.Rerun {
		com2, err := s.verify1(c.Beacon1, s.p1.b)
		if err != nil {
			return fmt.Sprintf("honest phase-1 chain rejected when verified a second time: %v", err)
		}
		if !bytes.Equal(encode(com), encode(com2)) {
			return "VerifyPhase1 run twice on the same transcript and beacon sealed different SrsCommons (Seal is documented as reproducible by any verifier)"
		}
	}

	// ---- honest phase 2
	var init contribution
	if err := guard("Phase2.Initialize", func() error { init = a.initPhase2(s.ccs, com); return nil }); err != nil {
		return fmt.Sprintf("Phase2.Initialize on the verified commons (domain %d, %d constraints): %v", s.N, s.ccs.GetNbConstraints(), err)
	}
	s.p2 = chain{phase: 2, init: encode(init)}
	s.p2.b = contributeChain(a.emptyPhase2, init, c.N2)
	for i, b := range s.p2.b {
		if _, err := layoutP2(a, b); err != nil {
			return fmt.Sprintf("phase-2 contribution %d: %v", i, err)
		}
	}
	pk, vk, err := s.verify2(s.ccs, com, c.Beacon2, s.p2.b)
	if err != nil {
		return fmt.Sprintf("honest phase-2 chain of %d contributions rejected: %v", c.N2, err)
	}

	if c.Rerun {
		pk2, vk2, err := s.verify2(s.ccs, com, c.Beacon2, s.p2.b)
		if err != nil {
			return fmt.Sprintf("honest phase-2 chain rejected when verified a second time: %v", err)
		}
		if !bytes.Equal(encode(vk), encode(vk2)) || !bytes.Equal(encode(pk), encode(pk2)) {
			return "VerifyPhase2 run twice on the same transcript and beacon sealed different keys (Seal is documented as reproducible by any verifier)"
		}
		s.cls = append(s.cls, "rerun:identical-output")
	}

	// ---- the sealed keys prove and verify the circuit
	if !interp.OK {
		s.rec.Discarded("keys: assignment does not satisfy the program: " + firstLine(interp.Why))
		s.cls = append(s.cls, "keys:no-satisfying-assignment")
		return ""
	}
	q := s.f.Q
	w, err := prog.Witness(s.f, prog.Assignment(c.Prog, q, interp.Outs))
	if err != nil {
		return "witness: " + err.Error()
	}
	var proof groth16.Proof
	if err := guard("groth16.Prove", func() error {
		var e error
		// sequential solver: with the parallel solver, independent commitments of one solver level run the
		// prover's commitment hint concurrently on ONE shared hash object (backend/groth16/<curve>/prove.go,
		// opt.HashToFieldFn) and ~1 % of the proofs of such circuits are invalid with ANY keys, also those of
		// groth16.Setup. That is a prover defect outside C18; the key oracle must not depend on it.
		proof, e = groth16.Prove(s.ccs, pk, w, backend.WithSolverOptions(solver.WithNbTasks(1)))
		return e
	}); err != nil {
		return fmt.Sprintf("the keys sealed from the honest ceremony do not prove the circuit (domain %d, %d constraints): %v", s.N, s.ccs.GetNbConstraints(), err)
	}
	pub := pubValues(c.Prog, q, interp.Outs)
	pw, err := zk.WitnessFrom(q, pub, nil)
	if err != nil {
		return "public witness: " + err.Error()
	}
	if err := zk.VerifyG16(proof, vk, pw); err != nil {
		return fmt.Sprintf("the proof made with the sealed proving key is rejected by the sealed verifying key (domain %d, %d constraints): %v", s.N, s.ccs.GetNbConstraints(), err)
	}
	for i := range pub {
		bad := make([]*big.Int, len(pub))
		copy(bad, pub)
		bad[i] = new(big.Int).Add(pub[i], big.NewInt(1))
		bad[i].Mod(bad[i], q)
		bw, _ := zk.WitnessFrom(q, bad, nil)
		if err := zk.VerifyG16(proof, vk, bw); err == nil {
			return fmt.Sprintf("the sealed verifying key accepts the proof for a wrong public input (position %d)", i)
		}
	}
	s.cls = append(s.cls, "keys:prove+verify+reject-wrong-public")
	return ""
}

func (s *session) skip(t Tamper, why string) string {
	s.rec.Discarded(fmt.Sprintf("tamper:p%d:%s:%s: %s", t.Phase, t.Class, t.Op, why))
	return ""
}

// judge classifies the verifier's answer to a transcript that must be rejected.
func (s *session) judge(t Tamper, label string, err error) string {
	tag := fmt.Sprintf("T:p%d:%s:%s", t.Phase, t.Class, t.Op)
	if err == nil {
		return "verification ACCEPTED the tampered transcript (" + label + ")"
	}
	if de, ok := err.(decodeError); ok {
		r := "decode-reject"
		if strings.Contains(de.Error(), "PANIC") {
			r = "decode-panicked"
			s.rec.AddExtra("decoder_panics_on_tampered_bytes(C08 territory)", 1)
			s.rec.Note("decoder panic on tampered bytes: %s: %s", label, firstLine(de.Error()))
		}
		s.cls = append(s.cls, tag+":"+r)
		if t.Class == "elem" {
			s.cls = append(s.cls, "slot:"+t.Kind+":"+r)
		}
		return ""
	}
	r := "relation-reject"
	if strings.HasPrefix(err.Error(), "PANIC") {
		r = "verify-panicked"
		s.rec.AddExtra("verifier_panics_on_tampered_transcript(C08 territory)", 1)
		s.rec.Note("verifier panic on a tampered transcript: %s: %s", label, firstLine(err.Error()))
	}
	s.nt++
	s.cls = append(s.cls, tag+":"+r)
	if t.Class == "elem" {
		s.cls = append(s.cls, "slot:"+t.Kind+":"+r, "reason:"+reason(err))
	}
	if t.Class == "rescale" {
		s.cls = append(s.cls, "rescale:"+t.Op+":"+reason(err))
	}
	if t.Class == "hybrid" && t.Kind != "" {
		s.cls = append(s.cls, "vector:"+t.Kind+":"+r)
	}
	return ""
}

// reason buckets the verifier's error text (diagnostic only, never asserted).
func reason(err error) string {
	m := err.Error()
	for _, k := range []string{"challenge does not match", "domain size mismatch", "contribution size mismatch", "proof of knowledge", "g1 update inconsistent",
		"g2 update inconsistent", "pairing mismatch", "subgroup check", "zero contribution", "length mismatch", "PANIC"} {
		if strings.Contains(m, k) {
			return k
		}
	}
	return "other"
}

func (s *session) tamper(t Tamper) string {
	ch := s.chainOf(t.Phase)
	m := len(ch.b)
	switch t.Class {
	case "elem", "chal", "header", "hybrid", "rescale":
		k := t.At % m
		b := ch.b[k]
		l, err := s.layoutOf(t.Phase, b)
		if err != nil {
			return "harness: " + err.Error()
		}
		prev := ch.init
		if k > 0 {
			prev = ch.b[k-1]
		}
		var tb []byte
		label := ""
		switch t.Class {
		case "elem":
			slots := l.ofKind(t.Kind)
			if len(slots) == 0 {
				return s.skip(t, "no slot of kind "+t.Kind)
			}
			sl := slots[len(slots)-1]
			if t.Idx >= 0 {
				sl = slots[t.Idx%len(slots)]
			}
			old := b[sl.Off : sl.Off+sl.Len]
			var nv []byte
			pickFrom := func(cands []slot) []byte {
				var cc []slot
				for _, x := range cands {
					if x.Off != sl.Off {
						cc = append(cc, x)
					}
				}
				if len(cc) == 0 {
					return nil
				}
				x := cc[t.Src%len(cc)]
				return b[x.Off : x.Off+x.Len]
			}
			sameSlotOf := func(ob []byte) []byte {
				ol, err := s.layoutOf(t.Phase, ob)
				if err != nil {
					return nil
				}
				for _, x := range ol.Slots {
					if x.Kind == sl.Kind && x.Idx == sl.Idx && x.Len == sl.Len {
						return ob[x.Off : x.Off+x.Len]
					}
				}
				return nil
			}
			switch t.Op {
			case "kind":
				if nv = pickFrom(slots); nv == nil {
					nv = pickFrom(l.ofGroup(sl.Group))
				}
			case "group":
				nv = pickFrom(l.ofGroup(sl.Group))
			case "prev":
				nv = sameSlotOf(prev)
			case "other":
				o := s.other(t.Phase)
				j := k
				if j >= len(o.b) {
					j = len(o.b) - 1
				}
				nv = sameSlotOf(o.b[j])
			case "mul":
				mul := s.a.g1Mul
				if sl.Group == 2 {
					mul = s.a.g2Mul
				}
				if nv, err = mul(old, big.NewInt(t.K)); err != nil {
					return "harness: honest slot does not decode as a point: " + err.Error()
				}
			case "gen":
				// the group generator: [τ¹]₁ / [τ¹]₂ of the initial phase-1 object
				il, err := layoutP1(s.a, s.p1.init)
				if err != nil {
					return "harness: " + err.Error()
				}
				g := il.ofKind("p1.tau1")[0]
				if sl.Group == 2 {
					g = il.ofKind("p1.tau2")[0]
				}
				nv = s.p1.init[g.Off : g.Off+g.Len]
			case "inf":
				nv = s.a.g1Inf()
				if sl.Group == 2 {
					nv = s.a.g2Inf()
				}
			case "flip":
				nv = append([]byte{}, old...)
				bit := t.Bit % (8 * len(nv))
				nv[bit/8] ^= 1 << uint(bit%8)
			default:
				return "harness: unknown elem op " + t.Op
			}
			if nv == nil {
				return s.skip(t, "no source element")
			}
			if bytes.Equal(nv, old) {
				return s.skip(t, "identity edit")
			}
			tb = withSlot(b, sl, nv)
			label = fmt.Sprintf("contribution %d, %s[%d] at byte %d replaced (%s)", k, sl.Kind, sl.Idx, sl.Off, t.Op)
		case "chal":
			old := l.challengeBytes(b)
			var nc []byte
			switch t.Op {
			case "flip":
				nc = append([]byte{}, old...)
				bit := t.Bit % (8 * len(nc))
				nc[bit/8] ^= 1 << uint(bit%8)
			case "other":
				src := ch.b[t.At2%m]
				if t.At2%m == k {
					src = ch.init // the initial object carries no challenge: falls to "empty", skipped below
				}
				ol, err := s.layoutOf(t.Phase, src)
				if err != nil {
					return "harness: " + err.Error()
				}
				nc = ol.challengeBytes(src)
				if len(nc) == 0 {
					return s.skip(t, "source challenge is empty")
				}
			case "trunc":
				nc = old[:len(old)-1]
			case "extend":
				nc = append(append([]byte{}, old...), byte(t.Bit))
			case "zero":
				nc = make([]byte, len(old))
			case "empty":
				// documented: an empty challenge is filled in by the verifier. Nothing is asserted.
				tb = l.withChallenge(b, nil)
				var err error
				if t.Direct {
					err = s.verifyStep(t.Phase, prev, tb)
				} else {
					err = s.verifySeq(t.Phase, append(append([][]byte{}, ch.b[:k]...), tb))
				}
				if err == nil {
					s.cls = append(s.cls, fmt.Sprintf("T:p%d:chal:empty:accepted(documented, not asserted)", t.Phase))
				} else {
					s.cls = append(s.cls, fmt.Sprintf("T:p%d:chal:empty:rejected(not asserted)", t.Phase))
				}
				return ""
			default:
				return "harness: unknown chal op " + t.Op
			}
			if bytes.Equal(nc, old) {
				return s.skip(t, "identity edit")
			}
			tb = l.withChallenge(b, nc)
			label = fmt.Sprintf("contribution %d, challenge %s", k, t.Op)
		case "rescale":
			// The contribution is made to carry an extra factor K on one secret, applied consistently to
			// every vector (all same-ratio / cross-vector relations keep holding), while the update
			// proofs stay those of the honest contributor: nobody proved knowledge of the extra factor.
			r := s.f.Q // group order
			K := new(big.Int).Mod(big.NewInt(t.K), r)
			Kinv := new(big.Int).ModInverse(K, r)
			pow := func(i int) *big.Int { return new(big.Int).Exp(K, big.NewInt(int64(i)), r) }
			sub := 0
			if t.Phase == 2 && l.NbCom > 0 {
				sub = t.Idx % l.NbCom
				if t.Idx < 0 {
					sub = l.NbCom - 1
				}
			}
			tb = append([]byte{}, b...)
			n := 0
			for _, x := range l.Slots {
				var f *big.Int
				switch t.Op + "|" + x.Kind {
				case "tau|p1.tau1", "tau|p1.tau2", "tau|p1.alphaTau", "tau|p1.betaTau":
					f = pow(x.Idx)
				case "alpha|p1.alphaTau", "beta|p1.betaTau", "beta|p1.beta2", "delta|p2.delta1", "delta|p2.delta2":
					f = K
				case "delta|p2.z", "delta|p2.pkk":
					f = Kinv
				case "sigma|p2.sigmaCKK", "sigma|p2.sigma":
					if x.Sub == sub {
						f = K
					}
				}
				if f == nil {
					continue
				}
				mul := s.a.g1Mul
				if x.Group == 2 {
					mul = s.a.g2Mul
				}
				nv, err := mul(b[x.Off:x.Off+x.Len], f)
				if err != nil {
					return "harness: honest slot does not decode as a point: " + err.Error()
				}
				copy(tb[x.Off:], nv)
				n++
			}
			if n == 0 {
				return s.skip(t, "no slot to rescale")
			}
			if bytes.Equal(tb, b) {
				return s.skip(t, "identity edit")
			}
			label = fmt.Sprintf("contribution %d, secret %s carries an extra factor %d on %d slots (update proofs unchanged)", k, t.Op, t.K, n)
		case "hybrid":
			// whole groups of slots taken from the same position of the independent chain, or left stale
			var src []byte
			switch t.Op {
			case "params-other", "proofs-other", "kind-other":
				o := s.other(t.Phase)
				j := k
				if j >= len(o.b) {
					j = len(o.b) - 1
				}
				src = o.b[j]
			case "params-prev", "kind-prev":
				src = prev
			default:
				return "harness: unknown hybrid op " + t.Op
			}
			sl, err := s.layoutOf(t.Phase, src)
			if err != nil {
				return "harness: " + err.Error()
			}
			if len(sl.Slots) != len(l.Slots) {
				return "harness: independent chain has another layout"
			}
			tb = append([]byte{}, b...)
			n := 0
			for i, x := range l.Slots {
				y := sl.Slots[i]
				if x.Group == 0 || x.Kind != y.Kind || x.Len != y.Len {
					continue
				}
				isProof := strings.Contains(x.Kind, ".proof")
				take := false
				switch t.Op {
				case "params-other", "params-prev":
					take = !isProof
				case "proofs-other":
					take = isProof
				default:
					take = x.Kind == t.Kind
				}
				if take {
					copy(tb[x.Off:x.Off+x.Len], src[y.Off:y.Off+y.Len])
					n++
				}
			}
			if n == 0 {
				return s.skip(t, "no slot of kind "+t.Kind)
			}
			if bytes.Equal(tb, b) {
				return s.skip(t, "identity edit")
			}
			label = fmt.Sprintf("contribution %d, %d slots (%s %s) replaced", k, n, t.Op, t.Kind)
		case "header":
			if t.Phase != 1 {
				return s.skip(t, "header edits are phase-1 only")
			}
			sl := l.ofKind("p1.N")[0]
			n := uint64(l.N)
			switch t.Op {
			case "N-half":
				n /= 2
			case "N-double":
				n *= 2
			default:
				return "harness: unknown header op " + t.Op
			}
			nv := make([]byte, 8)
			for i := 0; i < 8; i++ {
				nv[7-i] = byte(n >> (8 * uint(i)))
			}
			tb = withSlot(b, sl, nv)
			label = fmt.Sprintf("contribution %d, domain size header %s", k, t.Op)
		}
		// an edit whose bytes differ but which decodes to the very same object (a non-canonical
		// encoding accepted by the decoder) is an identity edit too
		if o, err := decode(s.fresh(t.Phase), tb); err == nil && t.Class != "chal" {
			var re []byte
			if p := ev.Safely(func() { re = encode(o) }); p == "" && bytes.Equal(re, b) {
				s.cls = append(s.cls, "non-canonical-encoding-of-the-same-contribution(skipped)")
				return s.skip(t, "decodes to the identical contribution")
			}
		}
		var verr error
		if t.Direct {
			verr = s.verifyStep(t.Phase, prev, tb)
			label += " [prev.Verify(next)]"
		} else {
			verr = s.verifySeq(t.Phase, append(append([][]byte{}, ch.b[:k]...), tb))
			label += fmt.Sprintf(" [VerifyPhase%d on contributions 0..%d]", t.Phase, k)
		}
		return s.judge(t, label, verr)

	case "chain":
		seq := make([]ref, m)
		for i := range seq {
			seq[i] = ref{I: i}
		}
		ins := func(at int, r ref) {
			seq = append(seq, ref{})
			copy(seq[at+1:], seq[at:])
			seq[at] = r
		}
		i, j := t.At%m, t.At2%m
		switch t.Op {
		case "drop-last":
			seq = seq[:m-1]
		case "drop":
			if m < 2 {
				return s.skip(t, "chain too short")
			}
			i = t.At % (m - 1) // a non-final one
			seq = append(seq[:i], seq[i+1:]...)
		case "swap":
			if m < 2 {
				return s.skip(t, "chain too short")
			}
			if i == j {
				j = (i + 1) % m
			}
			seq[i], seq[j] = seq[j], seq[i]
		case "reverse":
			if m < 2 {
				return s.skip(t, "chain too short")
			}
			for x, y := 0, m-1; x < y; x, y = x+1, y-1 {
				seq[x], seq[y] = seq[y], seq[x]
			}
		case "dup":
			ins(i+1, ref{I: i})
		case "dup-end":
			ins(m, ref{I: i})
		case "splice-replace":
			o := s.other(t.Phase)
			seq[i] = ref{B: true, I: t.At2 % len(o.b)}
		case "splice-insert":
			o := s.other(t.Phase)
			ins(t.At%(m+1), ref{B: true, I: t.At2 % len(o.b)})
		default:
			return "harness: unknown chain op " + t.Op
		}
		var bs [][]byte
		desc := ""
		for _, r := range seq {
			if r.B {
				bs = append(bs, s.other(t.Phase).b[r.I])
				desc += fmt.Sprintf(" B%d", r.I)
			} else {
				bs = append(bs, ch.b[r.I])
				desc += fmt.Sprintf(" A%d", r.I)
			}
		}
		err := s.verifySeq(t.Phase, bs)
		if isPrefix(seq) {
			// still a valid (shorter / other) honest chain: must be accepted
			if err != nil {
				return fmt.Sprintf("the sequence [%s ] is an honest chain (prefix) but was rejected: %v", desc, err)
			}
			s.cls = append(s.cls, fmt.Sprintf("T:p%d:chain:%s:valid-chain-accepted", t.Phase, t.Op))
			return ""
		}
		return s.judge(t, "sequence ["+desc+" ]", err)

	case "env":
		if t.Phase == 1 {
			// the coordinator verifies the honest chain for another domain size
			N := s.N * 2
			if t.Op == "verifier-N-half" {
				N = s.N / 2
			}
			_, err := s.verify1N(N, s.c.Beacon1, ch.b)
			return s.judge(t, fmt.Sprintf("honest phase-1 chain for domain %d verified with VerifyPhase1(N=%d)", s.N, N), err)
		}
		ccs, com := s.ccs, s.com
		var err error
		switch t.Op {
		case "commons-other":
			o := s.other(1)
			if com, err = s.verify1(s.c.Beacon1, o.b); err != nil {
				return "honest independent phase-1 chain rejected: " + err.Error()
			}
		case "commons-beacon":
			if com, err = s.verify1(s.c.Beacon1+"'", s.p1.b); err != nil {
				return "honest phase-1 chain rejected under another beacon: " + err.Error()
			}
		case "commons-prefix":
			if com, err = s.verify1(s.c.Beacon1, s.p1.b[:len(s.p1.b)-1]); err != nil {
				return "prefix of the honest phase-1 chain rejected: " + err.Error()
			}
		case "circuit-coef":
			if s.c.CoefK == 0 {
				return s.skip(t, "tiny circuit without the coefficient hook")
			}
			if ccs, err = compile(s.f, s.c.Prog, s.c.CoefK+1, s.pad); err != nil {
				return "harness: variant circuit does not compile: " + err.Error()
			}
		default:
			return "harness: unknown env op " + t.Op
		}
		var init2 contribution
		if err := guard("Phase2.Initialize", func() error { init2 = s.a.initPhase2(ccs, com); return nil }); err != nil {
			return "Phase2.Initialize in the altered environment: " + err.Error()
		}
		if bytes.Equal(encode(init2), s.p2.init) {
			return s.skip(t, "altered environment has the same initial phase-2 parameters")
		}
		bs := ch.b
		if t.Strip {
			bs = nil
			for _, b := range ch.b {
				l, err := layoutP2(s.a, b)
				if err != nil {
					return "harness: " + err.Error()
				}
				bs = append(bs, l.withChallenge(b, nil))
			}
		}
		_, _, verr := s.verify2(ccs, com, s.c.Beacon2, bs)
		return s.judge(t, fmt.Sprintf("honest phase-2 chain verified in another environment (%s, challenges stripped: %v)", t.Op, t.Strip), verr)
	}
	return "harness: unknown tamper class " + t.Class
}

// ---------------------------------------------------------------------------
// generators

var elemOps = []string{"kind", "kind", "group", "prev", "prev", "other", "other", "mul", "mul", "inf", "gen", "flip"}
var chalOps = []string{"flip", "flip", "other", "trunc", "extend", "zero", "empty"}
var chainOps = []string{"drop-last", "drop", "swap", "reverse", "dup", "dup-end", "splice-replace", "splice-insert"}
var envOps = []string{"commons-other", "commons-beacon", "commons-prefix", "circuit-coef", "circuit-coef"}
var headerOps = []string{"N-half", "N-double"}
var rescaleOps = map[int][]string{1: {"tau", "tau", "alpha", "beta"}, 2: {"delta", "delta", "sigma"}}
var hybridOps = []string{"params-other", "proofs-other", "params-prev", "kind-other", "kind-other", "kind-prev", "kind-prev"}
var muls = []int64{-1, -1, 2, 3, 5, -2, 7, 1 << 20}

// mix is a splitmix64 stream. rapid's primitive generators are biased toward
// small values (the first entries of a SampledFrom list dominate short runs);
// every choice that only selects a variant is therefore derived from one drawn
// 64-bit seed through this mixer, so that the operator / slot-kind table is
// covered evenly. The Case stores the concrete choices, not the seed.
type mix struct{ s uint64 }

func (m *mix) next() uint64 {
	m.s += 0x9e3779b97f4a7c15
	z := m.s
	z = (z ^ (z >> 30)) * 0xbf58476d1ce4e5b9
	z = (z ^ (z >> 27)) * 0x94d049bb133111eb
	return z ^ (z >> 31)
}
func (m *mix) intn(n int) int      { return int(m.next() % uint64(n)) }
func pick[T any](m *mix, xs []T) T { return xs[m.intn(len(xs))] }

// genTamper derives tamper number i of a case; kindOff rotates the slot kinds so that
// consecutive element tampers of one ceremony walk through the whole layout.
func genTamper(r *mix, i, kindOff int) Tamper {
	tm := Tamper{Phase: 1 + r.intn(2)}
	tm.At = r.intn(4)
	tm.At2 = r.intn(4)
	kinds := p1Kinds
	if tm.Phase == 2 {
		kinds = p2Kinds
	}
	x := r.intn(100)
	switch {
	case x < 58:
		tm.Class = "elem"
		tm.Kind = kinds[(kindOff+i)%len(kinds)]
		tm.Op = pick(r, elemOps)
		tm.Idx = r.intn(200)
		switch r.intn(6) { // bias toward the boundary elements of a vector
		case 0:
			tm.Idx = 0
		case 1:
			tm.Idx = -1 // last element of the vector
		}
		tm.Src = r.intn(200)
		switch tm.Op {
		case "mul":
			tm.K = pick(r, muls)
		case "flip":
			tm.Bit = r.intn(8 * 200)
			if r.intn(3) == 0 {
				tm.Bit = 5 + r.intn(3) // the flag bits of the first byte
			}
		}
		tm.Direct = r.intn(10) < 6
	case x < 70:
		tm.Class = "hybrid"
		tm.Op = pick(r, hybridOps)
		if strings.HasPrefix(tm.Op, "kind-") {
			tm.Kind = kinds[(kindOff+i)%len(kinds)]
		}
		tm.Direct = r.intn(10) < 6
	case x < 76:
		tm.Class = "rescale"
		tm.Op = pick(r, rescaleOps[tm.Phase])
		tm.K = pick(r, []int64{-1, 2, 3, 5})
		tm.Idx = r.intn(4)
		tm.Direct = r.intn(10) < 6
	case x < 84:
		tm.Class = "chal"
		tm.Op = pick(r, chalOps)
		tm.Bit = r.intn(256)
		tm.Direct = r.intn(2) == 0
	case x < 93:
		tm.Class = "chain"
		tm.Op = pick(r, chainOps)
	case x < 97:
		tm.Class = "env"
		tm.Phase = 2
		tm.Op = pick(r, envOps)
		tm.Strip = r.intn(2) == 0
		if r.intn(6) == 0 {
			tm.Phase, tm.Strip = 1, false
			tm.Op = pick(r, []string{"verifier-N-half", "verifier-N-double"})
		}
	default:
		tm.Class = "header"
		tm.Phase = 1
		tm.Op = pick(r, headerOps)
		tm.Direct = r.intn(2) == 0
	}
	return tm
}

// tinyProgs are hand-written circuits of 2-6 constraints (no padding hook).
func tinyProgs() []*prog.Program {
	n := func(v int64) prog.Val { return prog.Val{B: "n", O: v} }
	return []*prog.Program{
		// x·y = out: 2 constraints
		{In: []prog.Input{{Kind: "p", V: n(3)}, {Kind: "s", V: n(5)}}, Ops: []prog.Op{{Op: "Mul", A: []int{0, 1}}}, Out: []int{2}},
		// x·x = out, no secret input at all
		{In: []prog.Input{{Kind: "p", V: n(4)}}, Ops: []prog.Op{{Op: "Mul", A: []int{0, 0}}}, Out: []int{1}},
		// x·y = out with a commitment to the secret
		{In: []prog.Input{{Kind: "p", V: n(3)}, {Kind: "s", V: n(5)}}, Ops: []prog.Op{{Op: "Mul", A: []int{0, 1}}, {Op: "Commit", A: []int{1}}}, Out: []int{2}},
		// two commitments: private-only, then public + derived, chained
		{In: []prog.Input{{Kind: "p", V: n(3)}, {Kind: "s", V: n(5)}, {Kind: "s", V: n(7)}},
			Ops: []prog.Op{{Op: "Mul", A: []int{0, 1}}, {Op: "Commit", A: []int{1, 2}}, {Op: "Mul", A: []int{3, 2}}, {Op: "Commit", A: []int{0, 4}, N: 1}}, Out: []int{4}},
		// a commitment to a public value only (empty private basis)
		{In: []prog.Input{{Kind: "p", V: n(2)}, {Kind: "s", V: n(9)}}, Ops: []prog.Op{{Op: "Mul", A: []int{0, 1}}, {Op: "Commit", A: []int{0}}}, Out: []int{2}},
	}
}

type curveCfg struct {
	name    string
	maxLogN int
}

func genCase(curves []curveCfg, minT, maxT int) *rapid.Generator[Case] {
	return rapid.Custom(func(t *rapid.T) Case {
		r := &mix{s: rapid.Uint64().Draw(t, "seed")}
		cc := pick(r, curves)
		f := prog.FieldByName(cc.name)
		c := Case{Curve: cc.name}
		if r.intn(5) == 0 {
			// hand-written tiny circuits: the only way to reach domain sizes 2 and 4
			c.Prog = tinyProgs()[r.intn(len(tinyProgs()))]
		} else {
			c.Prog = zk.GenProvable(zk.ProvableCfg{Q: f.Q, MaxOps: 6, MaxCommits: 3, PFail: 1}).
				Filter(func(p *prog.Program) bool { e := prog.Eval(p, f.Q); return e.OK && e.Excluded == "" }).Draw(t, "prog")
			c.LogN = pick(r, []int{1, 2, 2, 3, 3, 3, 4, 4, 5, 6})
			if c.LogN > cc.maxLogN {
				c.LogN = cc.maxLogN
			}
			c.CoefK = int64(1 + r.intn(1000))
		}
		if r.intn(8) == 0 && c.LogN < cc.maxLogN {
			c.Over = 1
		}
		c.N1 = 1 + r.intn(4)
		c.N2 = 1 + r.intn(4)
		c.M1 = 1 + r.intn(3)
		c.M2 = 1 + r.intn(3)
		c.Beacon1 = rapid.StringMatching(`[a-z0-9]{0,12}`).Draw(t, "beacon1")
		c.Beacon2 = rapid.StringMatching(`[a-z0-9]{0,12}`).Draw(t, "beacon2")
		c.Rerun = r.intn(4) == 0
		n := minT + r.intn(maxT-minT+1)
		off := r.intn(64)
		for i := 0; i < n; i++ {
			c.Tampers = append(c.Tampers, genTamper(r, i, off))
		}
		return c
	})
}

const rule = "rapid-generated ceremonies: provable program (0-3 commitments; lib/zk.GenProvable, satisfying assignments only) padded with squarings to a drawn domain size 8..64, or one of 5 hand-written 2-6 constraint circuits (domain 2..8) (optionally phase 1 run for twice the minimal domain), 1-4 phase-1 and 1-4 phase-2 contributions each passed through WriteTo/ReadFrom, on a drawn curve; positive oracles: VerifyPhase1/VerifyPhase2 accept, SrsCommons round-trip, the sealed keys prove+verify and reject every public input +1. Then 10-16 drawn tamperings: one serialized group element (kind drawn uniformly over the 21 slot kinds of the marshal layout) replaced by another slot of the same kind / same group, by the same slot of the previous contribution (stale) or of an independent chain, by a multiple of itself, by infinity, by the group generator, or with one bit flipped; whole vectors / all parameters / all proofs taken from the independent chain or left stale; one secret (tau, alpha, beta, delta, sigma_j) rescaled consistently across every vector while the update proofs are kept; the challenge flipped / replaced / truncated / extended / zeroed (emptied: documented fill-in, nothing asserted); chain edits (swap, reverse, drop non-final, duplicate, splice from an independent chain; oracle: accepted iff the resulting sequence is a prefix of one honest chain); phase 2 verified against other commons (independent chain, other beacon, shorter phase-1 prefix) or a circuit with one coefficient changed on an internal wire (optionally with all challenges emptied); the phase-1 domain-size header halved/doubled. Oracle: an error from ReadFrom or Verify. Non-trivial: the honest ceremony passed all positive oracles AND at least one tampered contribution decoded and was rejected by a verifier consistency check (decode rejections are counted apart). Distinct: SHA-256 of the case JSON."

func quickCurves() []curveCfg {
	return []curveCfg{{"bn254", 6}, {"bn254", 6}, {"bn254", 6}, {"bls12-381", 6}, {"bls12-381", 5}, {"bls12-377", 5}, {"bw6-633", 3}, {"bw6-761", 3}, {"bls24-315", 3}, {"bls24-317", 3}}
}

func thoroughCurves() []curveCfg {
	return []curveCfg{{"bn254", 6}, {"bn254", 6}, {"bls12-377", 6}, {"bls12-381", 6}, {"bls24-315", 5}, {"bls24-317", 5}, {"bw6-633", 5}, {"bw6-761", 5}}
}

func TestCeremony(t *testing.T) {
	rec := ev.Get(ID)
	rec.SetRule(rule)
	rec.Assume("a group element replaced by a different element of the subgroup satisfies a pairing relation it did not satisfy before only with negligible probability")
	rec.Assume("an empty Challenge in a contribution is filled in by the verifier (documented in Verify); emptied challenges are executed but nothing is asserted about them")
	rec.Assume("the sealed keys are exercised with solver.WithNbTasks(1): with the parallel solver groth16.Prove races on the shared commitment hasher for circuits with independent commitments (about 1 % invalid proofs with any keys, groth16.Setup included) - a prover defect outside this property")
	rec.Assume("length prefixes and the commitment count of serialized contributions are not edited (decoder robustness is C08)")
	curves := quickCurves()
	if ev.Tier() == "thorough" {
		curves = thoroughCurves()
	}
	g := genCase(curves, 10, 16)
	rec.Check(t, "mpc", ev.N(48, 1600), func(rt *rapid.T) {
		c := g.Draw(rt, "case")
		rec.Begin("mpc", c)
		o, c := runMin(c, rec)
		rec.Report(rt, "mpc", c, o)
	})
}

func TestReplay(t *testing.T) { ev.Replay(t) }

package c18

// Typed adapter for bn254. adapter_<other curve>_test.go are generated from
// this file by gen_adapters.sh (sed s/bn254/<curve>/g): keep every curve
// dependence inside import paths and the name string, and declare no
// package-level identifier other than init.

import (
	"math/big"

	curve "github.com/consensys/gnark-crypto/ecc/bn254"
	"github.com/consensys/gnark/backend/groth16"
	"github.com/consensys/gnark/backend/groth16/bn254/mpcsetup"
	"github.com/consensys/gnark/constraint"
	cs "github.com/consensys/gnark/constraint/bn254"
)

func init() {
	p1s := func(c []contribution) []*mpcsetup.Phase1 {
		r := make([]*mpcsetup.Phase1, len(c))
		for i := range c {
			r[i] = c[i].(*mpcsetup.Phase1)
		}
		return r
	}
	p2s := func(c []contribution) []*mpcsetup.Phase2 {
		r := make([]*mpcsetup.Phase2, len(c))
		for i := range c {
			r[i] = c[i].(*mpcsetup.Phase2)
		}
		return r
	}
	abs := func(k *big.Int) (*big.Int, bool) {
		return new(big.Int).Abs(k), k.Sign() < 0
	}
	register(&adapter{
		name:        "bn254",
		g1Size:      curve.SizeOfG1AffineCompressed,
		g2Size:      curve.SizeOfG2AffineCompressed,
		newPhase1:   func(N uint64) contribution { return mpcsetup.NewPhase1(N) },
		emptyPhase1: func() contribution { return new(mpcsetup.Phase1) },
		emptyPhase2: func() contribution { return new(mpcsetup.Phase2) },
		newCommons:  func() commonsIO { return new(mpcsetup.SrsCommons) },
		initPhase2: func(ccs constraint.ConstraintSystem, commons commonsIO) contribution {
			p := new(mpcsetup.Phase2)
			p.Initialize(ccs.(*cs.R1CS), commons.(*mpcsetup.SrsCommons))
			return p
		},
		verifyPhase1: func(N uint64, beacon []byte, c []contribution) (commonsIO, error) {
			commons, err := mpcsetup.VerifyPhase1(N, beacon, p1s(c)...)
			if err != nil {
				return nil, err
			}
			return &commons, nil
		},
		verifyPhase2: func(ccs constraint.ConstraintSystem, commons commonsIO, beacon []byte, c []contribution) (groth16.ProvingKey, groth16.VerifyingKey, error) {
			return mpcsetup.VerifyPhase2(ccs.(*cs.R1CS), commons.(*mpcsetup.SrsCommons), beacon, p2s(c)...)
		},
		step1: func(prev, next contribution) error {
			return prev.(*mpcsetup.Phase1).Verify(next.(*mpcsetup.Phase1))
		},
		step2: func(prev, next contribution) error {
			return prev.(*mpcsetup.Phase2).Verify(next.(*mpcsetup.Phase2))
		},
		g1Mul: func(b []byte, k *big.Int) ([]byte, error) {
			var p curve.G1Affine
			if _, err := p.SetBytes(b); err != nil {
				return nil, err
			}
			s, neg := abs(k)
			p.ScalarMultiplication(&p, s)
			if neg {
				p.Neg(&p)
			}
			r := p.Bytes()
			return r[:], nil
		},
		g2Mul: func(b []byte, k *big.Int) ([]byte, error) {
			var p curve.G2Affine
			if _, err := p.SetBytes(b); err != nil {
				return nil, err
			}
			s, neg := abs(k)
			p.ScalarMultiplication(&p, s)
			if neg {
				p.Neg(&p)
			}
			r := p.Bytes()
			return r[:], nil
		},
		g1Inf: func() []byte {
			var p curve.G1Affine
			r := p.Bytes()
			return r[:]
		},
		g2Inf: func() []byte {
			var p curve.G2Affine
			r := p.Bytes()
			return r[:]
		},
	})
}

// C05 — the constraints emitted for API operations admit no spec-violating
// assignment. Exhaustive small scope: over the 47-element field, for every
// input tuple the complete search of lib/csp enumerates the set of outputs for
// which the exported rows are satisfiable by ANY choice of internal wires and
// hint outputs, and compares it with the documented relation (reference
// interpreter). Adversarial hint substitution over curve fields.
package c05

import (
	"encoding/json"
	"fmt"
	"math/big"
	"os"
	"sort"
	"strings"
	"sync"
	"testing"

	"verifharness/lib/cseval"
	"verifharness/lib/csp"
	"verifharness/lib/ev"
	"verifharness/lib/hintadv"
	"verifharness/lib/prog"

	"github.com/consensys/gnark/constraint/solver"
	"github.com/consensys/gnark/frontend"
	"github.com/consensys/gnark/logger"
	"pgregory.net/rapid"
)

const ID = "C05"

func TestMain(m *testing.M) {
	logger.Disable()
	ev.RegisterReplay("csp", func(raw json.RawMessage) string {
		var c Case
		if err := json.Unmarshal(raw, &c); err != nil {
			return ""
		}
		return runCase(c, nil).Violation
	})
	ev.RegisterReplay("adv", func(raw json.RawMessage) string {
		var c AdvCase
		if err := json.Unmarshal(raw, &c); err != nil {
			return ""
		}
		return runAdv(c).Violation
	})
	ev.Main(m)
}

// Case: a program whose variable inputs are all public, one builder, one input tuple.
type Case struct {
	Prog    *prog.Program `json:"prog"`
	Builder string        `json:"builder"`
}

var f47 = prog.F47()

const nodeBudget = 300000

type compiled struct {
	pb   *csp.Problem
	nPub int // number of "p" inputs
	nOut int
	r1cs bool
	err  error
}

var (
	cacheMu sync.Mutex
	cache   = map[string]*compiled{}
)

// shapeKey identifies the circuit (ops, kinds, constant values) independently of the variable input values.
func shapeKey(p *prog.Program, builder string) string {
	q := *p
	q.In = append([]prog.Input(nil), p.In...)
	for i := range q.In {
		if q.In[i].Kind != "c" {
			q.In[i].V = prog.Val{B: "n"}
		}
	}
	b, _ := json.Marshal(q)
	return builder + "|" + string(b)
}

func getCompiled(p *prog.Program, builder string) *compiled {
	k := shapeKey(p, builder)
	cacheMu.Lock()
	c, ok := cache[k]
	cacheMu.Unlock()
	if ok {
		return c
	}
	c = &compiled{r1cs: builder == prog.R1CS, nOut: len(p.Out)}
	for _, in := range p.In {
		if in.Kind == "p" {
			c.nPub++
		}
	}
	sys, err := prog.Compile(f47, builder, prog.NewCircuit(p), frontend.IgnoreUnconstrainedInputs())
	if err != nil {
		c.err = err
	} else if ex, err := cseval.Extract(sys); err != nil {
		c.err = err
	} else if c.pb, err = csp.New(ex); err != nil {
		c.err = err
	} else if pg, err := cseval.DecodeProgram(sys); err == nil {
		c.pb.Prefer = map[int32]bool{}
		for _, in := range pg.Instrs {
			if in.Kind == "hint" {
				for w := in.OutFrom; w < in.OutFrom+in.OutN; w++ {
					c.pb.Prefer[int32(w)] = true
				}
			}
		}
	}
	cacheMu.Lock()
	if len(cache) > 20000 {
		cache = map[string]*compiled{}
	}
	cache[k] = c
	cacheMu.Unlock()
	return c
}

func key(vals []*big.Int) string {
	s := make([]string, len(vals))
	for i, v := range vals {
		s[i] = v.String()
	}
	return strings.Join(s, ",")
}

// runCase decides one (program, builder, input tuple).
func runCase(c Case, rec *ev.Recorder) ev.Outcome {
	q := f47.Q
	for _, in := range c.Prog.In {
		if in.Kind == "s" {
			return ev.Outcome{Discard: true, DiscardWhy: "secret input (C05 cases use public inputs only)"}
		}
	}
	interp := prog.Eval(c.Prog, q)
	if interp.Excluded != "" {
		return ev.Outcome{Discard: true, DiscardWhy: interp.Excluded}
	}
	cc := getCompiled(c.Prog, c.Builder)
	if cc.err != nil {
		msg := cc.err.Error()
		if strings.HasPrefix(msg, "PANIC") {
			return ev.Outcome{Violation: msg}
		}
		// compile-time rejection: fine when the spec says the assertion fails for this (constant-folded) tuple,
		// or a documented constant-zero divisor
		if !interp.OK || (interp.ZeroDiv && strings.Contains(msg, "by constant(0)")) {
			return ev.Outcome{Classes: []string{"compile-reject"}}
		}
		// a circuit whose shape depends on constants only: the same error for every input tuple
		return ev.Outcome{Discard: true, DiscardWhy: "compile error on a satisfiable tuple (C04 covers compile semantics): " + firstLine(msg)}
	}
	fixed := map[int]int{}
	base := 0
	if cc.r1cs {
		fixed[0] = 1
		base = 1
	}
	k := 0
	for _, in := range c.Prog.In {
		if in.Kind == "p" {
			fixed[base+k] = int(in.V.In(q).Int64())
			k++
		}
	}
	var outs []int
	for i := 0; i < cc.nOut; i++ {
		outs = append(outs, base+cc.nPub+i)
	}
	res := cc.pb.Solve(fixed, outs, nodeBudget)
	if res.Exhausted {
		ops := ""
		for _, o := range c.Prog.Ops {
			ops += o.Op + " "
		}
		return ev.Outcome{Discard: true, DiscardWhy: "node budget exhausted (inconclusive): " + c.Builder + " " + strings.TrimSpace(ops)}
	}
	got := make([]string, 0, len(res.Outs))
	for o := range res.Outs {
		got = append(got, o)
	}
	sort.Strings(got)
	classes := []string{"builder:" + c.Builder}
	nontrivial := cc.pb.NbRows() > len(c.Prog.Out) // more than the output-binding rows
	switch {
	case !interp.OK && interp.Free:
		// the failing operation consumes a 0/0 quotient, which the documentation leaves
		// unconstrained: with another quotient the program may well be satisfiable
		return ev.Outcome{Discard: true, DiscardWhy: "verdict depends on the documented-unconstrained 0/0 quotient"}
	case !interp.OK:
		classes = append(classes, "spec:unsat")
		if len(got) != 0 {
			return ev.Outcome{Violation: fmt.Sprintf("documented relation: no output is valid (%s), but the emitted constraints are satisfiable for outputs %v", interp.Why, trunc(got))}
		}
	case interp.Free:
		// the documented exception: the 0/0 quotient is unconstrained; outputs depending on it are not compared
		classes = append(classes, "spec:free-0/0")
		if len(got) == 0 {
			return ev.Outcome{Violation: "documented: 0/0 is allowed with an unconstrained quotient, but the constraints are unsatisfiable"}
		}
	default:
		classes = append(classes, "spec:unique")
		want := key(interp.Outs)
		if len(got) != 1 || got[0] != want {
			return ev.Outcome{Violation: fmt.Sprintf("documented relation: the only valid output tuple is (%s), but the emitted constraints are satisfiable exactly for %v", want, trunc(got))}
		}
	}
	return ev.Outcome{NonTrivial: nontrivial, Classes: classes}
}

func trunc(s []string) []string {
	if len(s) > 12 {
		return append(append([]string{}, s[:12]...), fmt.Sprintf("… (%d in total)", len(s)))
	}
	return s
}

func firstLine(s string) string {
	if i := strings.Index(s, "\n"); i >= 0 {
		s = s[:i]
	}
	if len(s) > 160 {
		s = s[:160]
	}
	return s
}

func val(x int) prog.Val { return prog.Val{B: "n", O: int64(x)} }

// opSpec describes a single API operation for the exhaustive sweep.
type opSpec struct {
	op    prog.Op
	arity int
	heavy bool // thousands of search nodes per tuple: sampled in the quick tier
}

func specs() []opSpec {
	var s []opSpec
	bin := func(name string, heavy bool) {
		s = append(s, opSpec{op: prog.Op{Op: name, A: []int{0, 1}}, arity: 2, heavy: heavy})
	}
	un := func(name string) { s = append(s, opSpec{op: prog.Op{Op: name, A: []int{0}}, arity: 1}) }
	for _, n := range []string{"Add", "Sub", "Mul", "Div", "DivUnchecked", "Xor", "Or", "And", "AssertEq", "AssertDiff"} {
		bin(n, false)
	}
	bin("Cmp", true)
	bin("AssertLE", true)
	for _, n := range []string{"Neg", "Inverse", "IsZero", "AssertBool", "AssertCrumb"} {
		un(n)
	}
	for n := 1; n <= 8; n++ {
		r := n
		if r > 4 {
			r = 4
		}
		s = append(s, opSpec{op: prog.Op{Op: "ToBinary", A: []int{0}, N: n, R: r}, arity: 1, heavy: n >= 6})
	}
	// repeated operand (x op x)
	for _, n := range []string{"Add", "Sub", "Mul", "Div", "DivUnchecked", "Xor", "AssertDiff", "AssertLE"} {
		s = append(s, opSpec{op: prog.Op{Op: n, A: []int{0, 0}}, arity: 1, heavy: n == "AssertLE"})
	}
	return s
}

func oneOp(sp opSpec, kinds []string, vals []int) *prog.Program {
	p := &prog.Program{}
	for i := 0; i < sp.arity; i++ {
		p.In = append(p.In, prog.Input{Kind: kinds[i], V: val(vals[i])})
	}
	p.Ops = []prog.Op{sp.op}
	for r := 0; r < prog.NRes(sp.op); r++ {
		p.Out = append(p.Out, sp.arity+r)
	}
	if len(p.Out) == 0 {
		// assertion ops have no output: expose the first input so that the circuit has a public output row
		p.Out = []int{0}
	}
	return p
}

const ruleA = "exhaustive over F47: every unary / binary frontend.API operation (incl. x op x and ToBinary widths 1..8 - width 6 = bitlen(47) is where the alias a+47 < 64 is reachable) x every operand-kind pattern (variable / compile-time constant, every constant value) x both builders x every input tuple; one complete CSP search per tuple enumerates the set of outputs satisfiable under ANY internal-wire / hint-output assignment and compares it with the documented relation (exactly the interpreter's output, none when an assertion fails, anything for the documented 0/0 quotient). Heavy operations (Cmp, AssertIsLessOrEqual, ToBinary >= 6) are sampled in the quick tier and exhaustive in the thorough tier. Non-trivial: the system has rows beyond the output-binding rows. Distinct: SHA-256 of (program, builder)."

func TestExhaustiveOneOp(t *testing.T) {
	rec := ev.Get(ID)
	rec.SetRule(ruleA)
	rec.Assume("node-budget exhaustion is inconclusive (counted), never a verdict")
	type job struct{ c Case }
	var jobs []job
	shard, shards := ev.Shard(), 1
	if ev.Tier() == "thorough" {
		shards = 8
		if v := strings.TrimSpace(getenv("VERIF_SHARDS")); v != "" {
			fmt.Sscan(v, &shards)
		}
	}
	seed := int(ev.Seed())
	n := 0
	for _, sp := range specs() {
		var patterns [][]string
		if sp.arity == 1 {
			patterns = [][]string{{"p"}, {"c"}}
		} else {
			patterns = [][]string{{"p", "p"}, {"p", "c"}, {"c", "p"}, {"c", "c"}}
		}
		for _, kinds := range patterns {
			for _, b := range []string{prog.R1CS, prog.SCS} {
				tuples := 47
				if sp.arity == 2 {
					tuples = 47 * 47
				}
				for tu := 0; tu < tuples; tu++ {
					vals := []int{tu % 47, tu / 47}
					if ev.Tier() == "quick" {
						boundary := vals[0] <= 2 || vals[0] >= 45 || vals[0] == 23 || vals[0] == 24 || vals[0] == 16 || vals[0] == 17
						if sp.arity == 2 {
							b1 := vals[1] <= 2 || vals[1] >= 45 || vals[1] == 23 || vals[1] == 16 || vals[1] == 17
							boundary = boundary && b1 || vals[0] == vals[1]
						}
						if sp.heavy && !boundary && (tu*7+seed)%12 != 0 {
							continue
						}
						if !sp.heavy && sp.arity == 2 && !boundary && (tu*5+seed)%3 != 0 {
							continue
						}
					}
					n++
					if n%shards != shard%shards {
						continue
					}
					jobs = append(jobs, job{Case{Prog: oneOp(sp, kinds, vals), Builder: b}})
				}
			}
		}
	}
	var wg sync.WaitGroup
	ch := make(chan job, 256)
	var mu sync.Mutex
	var firstViolation string
	for w := 0; w < 16; w++ {
		wg.Add(1)
		go func() {
			defer wg.Done()
			for j := range ch {
				o := runCase(j.c, rec)
				if o.Violation != "" {
					mu.Lock()
					if firstViolation == "" {
						firstViolation = rec.Violate("csp", j.c, o.Violation)
						t.Errorf("VIOLATION %s replay=%s: %s", ID, firstViolation, o.Violation)
					}
					mu.Unlock()
					continue
				}
				if o.Discard {
					rec.Discarded("csp:" + o.DiscardWhy)
					continue
				}
				rec.Count("csp", j.c, o.NonTrivial, append(o.Classes, "op:"+j.c.Prog.Ops[0].Op)...)
			}
		}()
	}
	for _, j := range jobs {
		ch <- j
	}
	close(ch)
	wg.Wait()
	if ev.Tier() == "thorough" {
		rec.Extra("exhaustive", true)
	}
}

func getenv(k string) string { return os.Getenv(k) }

// ---- compositions and 3+ operand ops (sampled)

const ruleB = "sampled over F47: rapid-generated programs of 1-3 operations (all API ops incl. Select, Lookup2, MulAcc, FromBinary, hints; variable and constant operands; boundary-biased values) decided by the same complete search - this covers the boolean-marking elision (an operand marked boolean by an earlier op is not constrained again)."

func TestSampledPrograms(t *testing.T) {
	rec := ev.Get(ID)
	rec.SetRule(ruleB)
	w := map[string]int{"Commit": 0, "Println": 0, "Hint": 0, "Cmp": 1, "AssertLE": 1, "Sum": 0, "Select": 12, "Lookup2": 8, "FromBinary": 8, "MulAcc": 8, "Xor": 8, "And": 8, "Or": 8, "IsZero": 8}
	g := prog.Gen(prog.GenConfig{Q: f47.Q, MinIn: 1, MaxIn: 4, MinOps: 1, MaxOps: 3, MaxOut: 2, Kinds: []string{"p", "p", "c"}, Weights: w, PFail: 35})
	rec.Check(t, "csp", ev.N(5000, 100000), func(rt *rapid.T) {
		p := g.Draw(rt, "prog")
		c := Case{Prog: p, Builder: rapid.SampledFrom([]string{prog.R1CS, prog.SCS}).Draw(rt, "builder")}
		rec.Begin("csp", c)
		o := runCase(c, rec)
		o.Classes = append(o.Classes, "sampled-program")
		rec.Report(rt, "csp", c, o)
	})
}

// ---- adversarial hint substitution over curve fields

// AdvCase: a one-op program on a curve field, a claimed output, a hint strategy.
type AdvCase struct {
	Prog     *prog.Program `json:"prog"`
	Field    string        `json:"field"`
	Builder  string        `json:"builder"`
	WrongOut int           `json:"wrong_out"` // -1: claim the true outputs; k: output k claimed +Delta
	Delta    int64         `json:"delta"`
	Strat    string        `json:"strat"` // alias | flipbit | nonbool | inv0 | inv1 | invrand | none
	Which    int           `json:"which"`
}

func runAdv(c AdvCase) ev.Outcome {
	f := prog.FieldByName(c.Field)
	q := f.Q
	interp := prog.Eval(c.Prog, q)
	if interp.Excluded != "" {
		return ev.Outcome{Discard: true, DiscardWhy: interp.Excluded}
	}
	lenient := prog.EvalLenient(c.Prog, q)
	outs := make([]*big.Int, len(c.Prog.Out))
	for i, s := range c.Prog.Out {
		outs[i] = new(big.Int).Set(lenient.Slots[s])
	}
	claimTrue := interp.OK
	if c.WrongOut >= 0 && len(outs) > 0 {
		k := c.WrongOut % len(outs)
		outs[k].Add(outs[k], big.NewInt(c.Delta+1)).Mod(outs[k], q)
		claimTrue = false
	}
	if interp.Free {
		return ev.Outcome{Discard: true, DiscardWhy: "documented free quotient"}
	}
	sys, err := prog.Compile(f, c.Builder, prog.NewCircuit(c.Prog), frontend.IgnoreUnconstrainedInputs())
	if err != nil {
		return ev.Outcome{Discard: true, DiscardWhy: "compile-time rejection"}
	}
	w, err := prog.Witness(f, prog.Assignment(c.Prog, q, outs))
	if err != nil {
		return ev.Outcome{Discard: true, DiscardWhy: "witness"}
	}
	bitlen := q.BitLen()
	strat := func(call *hintadv.Call) bool {
		name := hintadv.ShortName(call.Name)
		switch {
		case strings.HasSuffix(name, "nBits") || strings.HasSuffix(name, "NBits"):
			switch c.Strat {
			case "alias": // bits of a+p when that still fits the requested width
				a := new(big.Int).Add(call.Inputs[0], q)
				if a.BitLen() > len(call.Outputs) {
					return false
				}
				for i := range call.Outputs {
					call.Outputs[i].SetUint64(uint64(a.Bit(i)))
				}
				return true
			case "flipbit":
				i := c.Which % len(call.Outputs)
				call.Outputs[i].SetUint64(1 - call.Outputs[i].Uint64())
				return true
			case "nonbool": // 2 at bit i, compensated by -... at bit i+1 (2*2^i = 2^(i+1))
				if len(call.Outputs) < 2 {
					return false
				}
				i := c.Which % (len(call.Outputs) - 1)
				if call.Outputs[i].Sign() == 0 && call.Outputs[i+1].Sign() != 0 {
					call.Outputs[i].SetUint64(2)
					call.Outputs[i+1].SetUint64(0)
					return true
				}
				return false
			}
		case strings.Contains(name, "InvZero"):
			switch c.Strat {
			case "inv0":
				call.Outputs[0].SetUint64(0)
				return true
			case "inv1":
				call.Outputs[0].SetUint64(1)
				return true
			case "invrand":
				call.Outputs[0].SetInt64(int64(c.Which)*7919 + 3)
				return true
			}
		}
		return false
	}
	_ = bitlen
	sess, opts := hintadv.Options(strat, nil)
	opts = append(opts, solver.WithNbTasks(1))
	_, serr := prog.Solve(sys, w, opts...)
	if serr != nil && strings.HasPrefix(serr.Error(), "PANIC") {
		return ev.Outcome{Violation: serr.Error()}
	}
	classes := []string{"adv:field:" + c.Field, "adv:strat:" + c.Strat, "adv:op:" + c.Prog.Ops[0].Op, fmt.Sprintf("adv:hint-altered:%v", sess.Changed > 0)}
	if !claimTrue && serr == nil {
		return ev.Outcome{Violation: fmt.Sprintf("a claim that violates the documented relation (%s; claimed outputs %v) is satisfiable with hint strategy %q (%d hint invocations altered)", interp.Why, outs, c.Strat, sess.Changed)}
	}
	if claimTrue && sess.Changed == 0 && serr != nil {
		return ev.Outcome{Violation: "a true claim with genuine hints was rejected: " + firstLine(serr.Error())}
	}
	return ev.Outcome{NonTrivial: !claimTrue && sess.Changed > 0, Classes: classes}
}

const ruleC = "adversarial over curve fields (bn254, bls12-377, bw6-761, bls12-381): one-op programs for ToBinary (incl. full width, where a+p < 2^bitlen aliasing is reachable), IsZero, Cmp, AssertIsLessOrEqual, Div, Xor/And/Or/Select on hinted bits, with a wrong or right claimed output and a strategy rewriting the nBits / InvZero hint outputs (bits of a+p, flipped bit, non-boolean digit compensated in the next one, 0 / 1 / arbitrary inverse). A claim violating the documented relation must stay unsatisfiable. Non-trivial: wrong claim AND a hint output actually altered."

func TestAdversarialHints(t *testing.T) {
	rec := ev.Get(ID)
	rec.SetRule(ruleC)
	fields := []string{"bn254", "bls12-377", "bw6-761", "bls12-381"}
	rec.Check(t, "adv", ev.N(1000, 20000), func(rt *rapid.T) {
		fn := rapid.SampledFrom(fields).Draw(rt, "field")
		f := prog.FieldByName(fn)
		bitlen := f.Q.BitLen()
		var op prog.Op
		arity := 1
		switch rapid.IntRange(0, 7).Draw(rt, "op") {
		case 0, 1:
			op = prog.Op{Op: "ToBinary", A: []int{0}, Rel: true, N: rapid.IntRange(-1, 1).Draw(rt, "delta"), R: 3}
		case 2:
			op = prog.Op{Op: "ToBinary", A: []int{0}, N: rapid.IntRange(2, 9).Draw(rt, "n"), R: 2}
		case 3:
			op = prog.Op{Op: "IsZero", A: []int{0}}
		case 4:
			op, arity = prog.Op{Op: "Cmp", A: []int{0, 1}}, 2
		case 5:
			op, arity = prog.Op{Op: "AssertLE", A: []int{0, 1}}, 2
		case 6:
			op, arity = prog.Op{Op: "Div", A: []int{0, 1}}, 2
		default:
			op = prog.Op{Op: "Inverse", A: []int{0}}
		}
		_ = bitlen
		p := &prog.Program{}
		for i := 0; i < arity; i++ {
			k := "p"
			if rapid.IntRange(0, 4).Draw(rt, "const") == 0 {
				k = "c"
			}
			p.In = append(p.In, prog.Input{Kind: k, V: prog.GenVal(rt, "v")})
		}
		p.Ops = []prog.Op{op}
		for r := 0; r < prog.NRes(op); r++ {
			p.Out = append(p.Out, arity+r)
		}
		if len(p.Out) == 0 {
			p.Out = []int{0}
		}
		c := AdvCase{Prog: p, Field: fn, Builder: rapid.SampledFrom([]string{prog.R1CS, prog.SCS}).Draw(rt, "builder"),
			WrongOut: rapid.SampledFrom([]int{-1, 0, 0, 1, 2}).Draw(rt, "wrong"), Delta: int64(rapid.IntRange(0, 3).Draw(rt, "delta2")),
			Strat: rapid.SampledFrom([]string{"alias", "alias", "flipbit", "nonbool", "inv0", "inv1", "invrand", "none"}).Draw(rt, "strat"),
			Which: rapid.IntRange(0, 300).Draw(rt, "which")}
		rec.Begin("adv", c)
		rec.Report(rt, "adv", c, runAdv(c))
	})
}

func TestReplay(t *testing.T) { ev.Replay(t) }

// C07 — witness values bind to the circuit variables they were assigned to.
// Reference model: the generator's own plan of the struct shape (declared
// depth-first order, visibility rules written from frontend/schema/tags.go).
package c07

import (
	"bytes"
	"encoding/json"
	"fmt"
	"math/big"
	"reflect"
	"strings"
	"testing"

	"verifharness/lib/ev"
	"verifharness/lib/prog"
	"verifharness/lib/zk"

	"github.com/consensys/gnark/backend/witness"
	"github.com/consensys/gnark/frontend"
	"github.com/consensys/gnark/frontend/schema"
	"github.com/consensys/gnark/logger"
	"pgregory.net/rapid"
)

const ID = "C07"

func TestMain(m *testing.M) {
	logger.Disable()
	ev.RegisterReplay("shape", func(raw json.RawMessage) string {
		var c Case
		if err := json.Unmarshal(raw, &c); err != nil {
			return ""
		}
		return run(c).Violation
	})
	ev.Main(m)
}

// Node is a circuit-struct shape.
type Node struct {
	Kind   string  `json:"kind"` // leaf | struct | array | slice | ptr
	Fields []Field `json:"fields,omitempty"`
	N      int     `json:"n,omitempty"`
	Elem   *Node   `json:"elem,omitempty"`
}

type Field struct {
	Name     string `json:"name"`
	Tag      string `json:"tag"` // content of the gnark tag; "" = no tag
	Node     *Node  `json:"node"`
	Embedded bool   `json:"embedded,omitempty"` // anonymous (embedded) struct field
}

// Value is how one leaf is assigned.
type Value struct {
	Repr string   `json:"repr"` // int | uint | bigptr | big | dec | hex | bytes | negint | over
	V    prog.Val `json:"v"`
}

type Case struct {
	Shape  *Node   `json:"shape"`
	Field  string  `json:"field"`
	Values []Value `json:"values"` // per leaf in declared order (cycled)
	SwapA  int     `json:"swap_a"`
	SwapB  int     `json:"swap_b"`
}

var tVariable = reflect.TypeOf((*frontend.Variable)(nil)).Elem()

// goType materialises the shape as a Go type.
func goType(n *Node) reflect.Type {
	switch n.Kind {
	case "leaf":
		return tVariable
	case "struct":
		var fs []reflect.StructField
		for _, f := range n.Fields {
			sf := reflect.StructField{Name: f.Name, Type: goType(f.Node), Anonymous: f.Embedded}
			if f.Tag != "" {
				sf.Tag = reflect.StructTag(`gnark:"` + f.Tag + `"`)
			}
			fs = append(fs, sf)
		}
		return reflect.StructOf(fs)
	case "array":
		return reflect.ArrayOf(n.N, goType(n.Elem))
	case "slice":
		return reflect.SliceOf(goType(n.Elem))
	case "ptr":
		return reflect.PointerTo(goType(n.Elem))
	}
	panic("bad node kind " + n.Kind)
}

// alloc allocates slices / pointers of a value of the shape.
func alloc(n *Node, v reflect.Value) {
	switch n.Kind {
	case "struct":
		for i, f := range n.Fields {
			alloc(f.Node, v.Field(i))
		}
	case "array":
		for i := 0; i < n.N; i++ {
			alloc(n.Elem, v.Index(i))
		}
	case "slice":
		v.Set(reflect.MakeSlice(v.Type(), n.N, n.N))
		for i := 0; i < n.N; i++ {
			alloc(n.Elem, v.Index(i))
		}
	case "ptr":
		v.Set(reflect.New(v.Type().Elem()))
		alloc(n.Elem, v.Elem())
	}
}

// Leaf of the plan.
type Leaf struct {
	Path   []int // field / element indices from the body root (ptr = -1)
	Public bool
	Name   string
}

const (
	visUnset = iota
	visSecret
	visPublic
)

// tagVisibility implements the documented tag rules.
func tagVisibility(tag string) (vis int, omit bool) {
	if tag == "-" {
		return visUnset, true
	}
	if i := strings.Index(tag, ","); i >= 0 {
		opts := strings.Split(tag[i+1:], ",")
		for _, o := range opts {
			switch strings.TrimSpace(o) {
			case "secret":
				return visSecret, false
			}
		}
		for _, o := range opts {
			if strings.TrimSpace(o) == "public" {
				return visPublic, false
			}
		}
	}
	return visUnset, false
}

// plan lists the leaves in declared depth-first order; conflict reports a
// child whose explicit visibility differs from an already fixed parent one.
func plan(n *Node, vis int, path []int, name string, out *[]Leaf, conflict *bool) {
	switch n.Kind {
	case "leaf":
		p := append([]int(nil), path...)
		*out = append(*out, Leaf{Path: p, Public: vis == visPublic, Name: name})
	case "struct":
		for i, f := range n.Fields {
			tv, omit := tagVisibility(f.Tag)
			if omit {
				continue
			}
			v := vis
			if tv != visUnset {
				if vis != visUnset && vis != tv {
					*conflict = true
				}
				v = tv
			}
			plan(f.Node, v, append(path, i), name+"_"+f.Name, out, conflict)
		}
	case "array", "slice":
		for i := 0; i < n.N; i++ {
			plan(n.Elem, vis, append(path, i), fmt.Sprintf("%s_%d", name, i), out, conflict)
		}
	case "ptr":
		plan(n.Elem, vis, append(path, -1), name, out, conflict)
	}
}

func at(root reflect.Value, path []int) reflect.Value {
	v := root
	for _, i := range path {
		switch {
		case i == -1:
			v = v.Elem()
		case v.Kind() == reflect.Struct:
			v = v.Field(i)
		default:
			v = v.Index(i)
		}
	}
	return v
}

// Shell is the fixed top-level circuit; Define traverses by the plan.
type Shell struct {
	Body any
	plan []Leaf
	pins []*big.Int
}

func (s *Shell) Define(api frontend.API) error {
	root := reflect.ValueOf(s.Body).Elem()
	for i, l := range s.plan {
		v := at(root, l.Path).Interface()
		api.AssertIsEqual(v, s.pins[i])
	}
	return nil
}

func newShell(shape *Node) (*Shell, reflect.Value) {
	t := goType(shape)
	body := reflect.New(t)
	alloc(shape, body.Elem())
	return &Shell{Body: body.Interface()}, body.Elem()
}

func repr(v Value, q *big.Int) (any, *big.Int) {
	x := v.V.In(q)
	switch v.Repr {
	case "int":
		if x.IsInt64() {
			return int(x.Int64()), x
		}
		return new(big.Int).Set(x), x
	case "uint":
		if x.IsUint64() {
			return x.Uint64(), x
		}
		return new(big.Int).Set(x), x
	case "negint": // -k represents q-k
		k := new(big.Int).Sub(q, x)
		if k.IsInt64() && k.Sign() > 0 {
			return int(-k.Int64()), x
		}
		return new(big.Int).Set(x), x
	case "bigptr":
		return new(big.Int).Set(x), x
	case "big":
		return *new(big.Int).Set(x), x
	case "dec":
		return x.String(), x
	case "hex":
		return "0x" + x.Text(16), x
	case "bytes":
		return x.Bytes(), x
	case "over": // value + q: must be reduced
		return new(big.Int).Add(x, q), x
	case "neg": // value - q as a negative big integer
		return new(big.Int).Sub(x, q), x
	}
	return new(big.Int).Set(x), x
}

func eq(a, b []*big.Int) bool {
	if len(a) != len(b) {
		return false
	}
	for i := range a {
		if a[i].Cmp(b[i]) != 0 {
			return false
		}
	}
	return true
}

func depth(n *Node) int {
	d := 0
	switch n.Kind {
	case "struct":
		for _, f := range n.Fields {
			if x := depth(f.Node); x > d {
				d = x
			}
		}
		return d + 1
	case "array", "slice", "ptr":
		return depth(n.Elem)
	}
	return 0
}

func features(n *Node, fs map[string]bool) {
	switch n.Kind {
	case "struct":
		for _, f := range n.Fields {
			if f.Tag == "-" {
				fs["omitted-field"] = true
			}
			if strings.Contains(f.Tag, "inherit") {
				fs["inherit-tag"] = true
			}
			if f.Embedded {
				fs["embedded-struct"] = true
			}
			features(f.Node, fs)
		}
	case "array", "slice":
		fs[n.Kind] = true
		if n.Elem.Kind == "struct" {
			fs["array-of-structs"] = true
		}
		if n.Kind == "slice" && n.N == 0 {
			fs["empty-slice"] = true
		}
		if e := n.Elem; (e.Kind == "array" || e.Kind == "slice") && n.N > 0 && e.N > 0 && nbLeaves(e) > 0 {
			fs["nested-array"] = true
			if e.N != n.N {
				fs["nested-array-nonsquare"] = true
				if e.Elem.Kind == "struct" || e.Elem.Kind == "ptr" {
					fs["nested-array-nonsquare-of-structs"] = true
				}
			}
		}
		if n.Elem.Kind == "struct" && n.N > 0 && structHasArray(n.Elem) {
			fs["array-of-structs-with-arrays"] = true
		}
		features(n.Elem, fs)
	case "ptr":
		fs["pointer"] = true
		features(n.Elem, fs)
	}
}

// nbLeaves counts the variables below a node (omitted fields excluded).
func nbLeaves(n *Node) int {
	switch n.Kind {
	case "leaf":
		return 1
	case "struct":
		c := 0
		for _, f := range n.Fields {
			if f.Tag != "-" {
				c += nbLeaves(f.Node)
			}
		}
		return c
	case "array", "slice":
		return n.N * nbLeaves(n.Elem)
	case "ptr":
		return nbLeaves(n.Elem)
	}
	return 0
}

// liveNonSquare: an array of arrays with unequal dimensions that holds variables
// and is not below an omitted field (so it reaches the schema and the JSON).
func liveNonSquare(n *Node) bool {
	switch n.Kind {
	case "struct":
		for _, f := range n.Fields {
			if f.Tag != "-" && liveNonSquare(f.Node) {
				return true
			}
		}
	case "array", "slice":
		if e := n.Elem; (e.Kind == "array" || e.Kind == "slice") && n.N > 0 && e.N > 0 && e.N != n.N && nbLeaves(e) > 0 {
			return true
		}
		return n.N > 0 && liveNonSquare(n.Elem)
	case "ptr":
		return liveNonSquare(n.Elem)
	}
	return false
}

func structHasArray(n *Node) bool {
	for _, f := range n.Fields {
		if f.Tag == "-" {
			continue
		}
		k := f.Node
		if k.Kind == "ptr" {
			k = k.Elem
		}
		if (k.Kind == "array" || k.Kind == "slice") && nbLeaves(k) > 0 {
			return true
		}
	}
	return false
}

// jsonKey is the documented JSON name of a field: the name part of the gnark
// tag when there is one, the Go field name otherwise.
func jsonKey(f Field) string {
	name := f.Tag
	if i := strings.Index(name, ","); i >= 0 {
		name = name[:i]
	}
	if name != "" && name != "-" {
		return name
	}
	return f.Name
}

// jsonDoc writes the JSON document of an assignment by following the plan:
// objects keyed by field names for structs, arrays in declared index order for
// arrays and slices, pointers are transparent, leaves are decimal strings taken
// from vals in declared depth-first order. Parts without any variable do not
// appear (ok == false).
func jsonDoc(n *Node, vals []*big.Int, next *int) (doc any, ok bool) {
	switch n.Kind {
	case "leaf":
		v := vals[*next]
		*next++
		return v.String(), true
	case "struct":
		m := map[string]any{}
		for _, f := range n.Fields {
			if f.Tag == "-" {
				continue
			}
			if sub, ok := jsonDoc(f.Node, vals, next); ok {
				m[jsonKey(f)] = sub
			}
		}
		return m, len(m) > 0
	case "array", "slice":
		arr := []any{}
		for i := 0; i < n.N; i++ {
			if sub, ok := jsonDoc(n.Elem, vals, next); ok {
				arr = append(arr, sub)
			}
		}
		return arr, len(arr) > 0
	case "ptr":
		return jsonDoc(n.Elem, vals, next)
	}
	panic("bad node kind " + n.Kind)
}

// jsonDiff compares a decoded JSON document with the one written from the plan;
// numbers are compared modulo q (small negative representatives are allowed).
func jsonDiff(path string, got, want any, q *big.Int) string {
	switch w := want.(type) {
	case map[string]any:
		g, ok := got.(map[string]any)
		if !ok {
			return fmt.Sprintf("%s: want an object, found %v", path, got)
		}
		for k := range g {
			if _, ok := w[k]; !ok {
				return fmt.Sprintf("%s: unexpected key %q", path, k)
			}
		}
		for k, wv := range w {
			gv, ok := g[k]
			if !ok {
				return fmt.Sprintf("%s: key %q is missing", path, k)
			}
			if d := jsonDiff(path+"."+k, gv, wv, q); d != "" {
				return d
			}
		}
		return ""
	case []any:
		g, ok := got.([]any)
		if !ok {
			return fmt.Sprintf("%s: want an array of length %d, found %v", path, len(w), got)
		}
		if len(g) != len(w) {
			return fmt.Sprintf("%s: array of length %d, declared length is %d", path, len(g), len(w))
		}
		for i := range w {
			if d := jsonDiff(fmt.Sprintf("%s[%d]", path, i), g[i], w[i], q); d != "" {
				return d
			}
		}
		return ""
	case string:
		var txt string
		switch g := got.(type) {
		case json.Number:
			txt = g.String()
		case string:
			txt = g
		default:
			return fmt.Sprintf("%s: want the number %s, found %v", path, w, got)
		}
		x, ok := new(big.Int).SetString(txt, 10)
		if !ok {
			return fmt.Sprintf("%s: %q is not a decimal number", path, txt)
		}
		x.Mod(x, q)
		if x.String() != w {
			return fmt.Sprintf("%s: holds %s, the value assigned to that variable is %s", path, x, w)
		}
		return ""
	}
	return path + ": unexpected node in the expected document"
}

func run(c Case) ev.Outcome {
	f := prog.FieldByName(c.Field)
	q := f.Q
	var leaves []Leaf
	conflict := false
	plan(c.Shape, visUnset, nil, "Body", &leaves, &conflict)
	fs := map[string]bool{}
	features(c.Shape, fs)
	classes := []string{"field:" + c.Field}
	for k := range fs {
		classes = append(classes, k)
	}
	// ---- circuit side
	circuit, _ := newShell(c.Shape)
	circuit.plan = leaves
	for i := range leaves {
		circuit.pins = append(circuit.pins, big.NewInt(int64(1000+i)))
	}
	var cerr error
	var sysR, sysS prog.System
	if msg := ev.Safely(func() {
		sysR, cerr = prog.Compile(f, prog.R1CS, circuit)
		if cerr == nil {
			sysS, cerr = prog.Compile(f, prog.SCS, circuit)
		}
	}); msg != "" {
		return ev.Outcome{Violation: "Compile panicked: " + msg}
	}
	// ---- assignment side
	assign, abody := newShell(c.Shape)
	var want []*big.Int
	var pubWant, secWant []*big.Int
	var declWant []*big.Int // values in declared order
	for i, l := range leaves {
		var val any
		var x *big.Int
		if len(c.Values) > 0 {
			val, x = repr(c.Values[i%len(c.Values)], q)
		} else {
			x = big.NewInt(int64(i))
			val = x
		}
		at(abody, l.Path).Set(reflect.ValueOf(val))
		declWant = append(declWant, x)
		if l.Public {
			pubWant = append(pubWant, x)
		} else {
			secWant = append(secWant, x)
		}
	}
	want = append(append(want, pubWant...), secWant...)
	var w witness.Witness
	var werr error
	if msg := ev.Safely(func() { w, werr = frontend.NewWitness(assign, q) }); msg != "" {
		return ev.Outcome{Violation: "NewWitness panicked: " + msg}
	}
	if conflict {
		classes = append(classes, "visibility-conflict")
		if cerr == nil || werr == nil {
			return ev.Outcome{Violation: fmt.Sprintf("conflicting visibility tags must be an error for both Compile (err=%v) and NewWitness (err=%v), never a silent binding", cerr, werr)}
		}
		return ev.Outcome{Classes: classes}
	}
	if len(leaves) == 0 {
		// a circuit without any variable: nothing to bind
		return ev.Outcome{Discard: true, DiscardWhy: "no leaf"}
	}
	if cerr != nil {
		return ev.Outcome{Violation: "Compile failed on a valid shape: " + cerr.Error()}
	}
	if werr != nil {
		return ev.Outcome{Violation: "NewWitness failed on a valid assignment: " + werr.Error()}
	}
	// (i) vector = [public in order | secret in order] reduced mod p
	got := zk.WitnessValues(w)
	if !eq(got, want) {
		return ev.Outcome{Violation: fmt.Sprintf("witness vector %v, plan says %v (public first, declared order)", got, want)}
	}
	// (ii) public-only witness == Witness.Public() == public prefix
	wp, err := frontend.NewWitness(assign, q, frontend.PublicOnly())
	if err != nil {
		return ev.Outcome{Violation: "public-only NewWitness failed: " + err.Error()}
	}
	wpub, err := w.Public()
	if err != nil {
		return ev.Outcome{Violation: "Witness.Public failed: " + err.Error()}
	}
	if !eq(zk.WitnessValues(wp), pubWant) || !eq(zk.WitnessValues(wpub), pubWant) {
		return ev.Outcome{Violation: fmt.Sprintf("public-only witness %v / Public() %v, want public prefix %v", zk.WitnessValues(wp), zk.WitnessValues(wpub), pubWant)}
	}
	// counts of the compiled systems
	for _, s := range []prog.System{sysR, sysS} {
		np := s.GetNbPublicVariables()
		if s == sysR {
			np-- // ONE wire
		}
		if np != len(pubWant) || s.GetNbSecretVariables() != len(secWant) {
			return ev.Outcome{Violation: fmt.Sprintf("compiled system has %d public / %d secret inputs, plan has %d / %d", np, s.GetNbSecretVariables(), len(pubWant), len(secWant))}
		}
	}
	// (iii) inside Define, leaf i carries the value assigned to field i
	pinned, pbody := newShell(c.Shape)
	for i, l := range leaves {
		at(pbody, l.Path).Set(reflect.ValueOf(big.NewInt(int64(1000 + i))))
	}
	wpin, err := frontend.NewWitness(pinned, q)
	if err != nil {
		return ev.Outcome{Violation: "NewWitness(pinned) failed: " + err.Error()}
	}
	for _, s := range []prog.System{sysR, sysS} {
		if _, err := prog.Solve(s, wpin); err != nil {
			return ev.Outcome{Violation: "variables do not carry the values assigned to their fields: Define pins leaf i to 1000+i, assignment sets leaf i := 1000+i, Solve failed: " + err.Error()}
		}
	}
	// swapping the values of two leaves of the same visibility must be noticed
	swapped := false
	if len(leaves) >= 2 {
		a, b := c.SwapA%len(leaves), c.SwapB%len(leaves)
		if a != b && leaves[a].Public == leaves[b].Public {
			sw, sbody := newShell(c.Shape)
			for i, l := range leaves {
				j := i
				if i == a {
					j = b
				} else if i == b {
					j = a
				}
				at(sbody, l.Path).Set(reflect.ValueOf(big.NewInt(int64(1000 + j))))
			}
			wsw, err := frontend.NewWitness(sw, q)
			if err != nil {
				return ev.Outcome{Violation: "NewWitness(swapped) failed: " + err.Error()}
			}
			for _, s := range []prog.System{sysR, sysS} {
				if _, err := prog.Solve(s, wsw); err == nil {
					return ev.Outcome{Violation: fmt.Sprintf("exchanging the values of leaves %d and %d went unnoticed by Solve", a, b)}
				}
			}
			swapped = true
		}
	}
	// (iv) binary and JSON round trips
	bin, err := w.MarshalBinary()
	if err != nil {
		return ev.Outcome{Violation: "MarshalBinary: " + err.Error()}
	}
	w2, _ := witness.New(q)
	if err := w2.UnmarshalBinary(bin); err != nil {
		return ev.Outcome{Violation: "UnmarshalBinary: " + err.Error()}
	}
	if !eq(zk.WitnessValues(w2), want) {
		return ev.Outcome{Violation: "binary round trip changed the vector"}
	}
	bin2, _ := w2.MarshalBinary()
	if !bytes.Equal(bin, bin2) {
		return ev.Outcome{Violation: "binary re-encoding differs"}
	}
	if pw2, err := w2.Public(); err != nil || !eq(zk.WitnessValues(pw2), pubWant) {
		return ev.Outcome{Violation: "decoded witness: Public() differs from the public prefix"}
	}
	// JSON: schema.New does not descend through the interface-typed holder of Shell, so
	// the schema is built on a dynamically typed wrapper struct{ Body <shape> } of the
	// same layout (the root fields of the shape stay one level below the top, as in Shell)
	wrapT := reflect.StructOf([]reflect.StructField{{Name: "Body", Type: goType(c.Shape)}})
	wrap := reflect.New(wrapT)
	alloc(c.Shape, wrap.Elem().Field(0))
	sch, err := schema.New(wrap.Interface(), tVariable)
	if err != nil {
		return ev.Outcome{Violation: "schema.New failed on a valid shape: " + err.Error()}
	}
	if sch.NbPublic != len(pubWant) || sch.NbSecret != len(secWant) {
		return ev.Outcome{Violation: fmt.Sprintf("schema counts %d/%d, plan %d/%d (the two schema walks disagree)", sch.NbPublic, sch.NbSecret, len(pubWant), len(secWant))}
	}
	js, err := w.ToJSON(sch)
	if err != nil {
		return ev.Outcome{Violation: "ToJSON: " + err.Error()}
	}
	w3, _ := witness.New(q)
	if err := w3.FromJSON(sch, js); err != nil {
		return ev.Outcome{Violation: "FromJSON: " + err.Error() + " json=" + string(js)}
	}
	if !eq(zk.WitnessValues(w3), want) {
		return ev.Outcome{Violation: fmt.Sprintf("JSON round trip changed the vector: %v -> %v (json %s)", want, zk.WitnessValues(w3), js)}
	}
	// (v) the JSON document itself follows the circuit structure: every variable is found
	// at its own path (field names, indices in declared order, declared array lengths)
	next := 0
	body, _ := jsonDoc(c.Shape, declWant, &next)
	if next != len(declWant) {
		panic("jsonDoc and plan disagree")
	}
	wantDoc := map[string]any{"Body": body}
	dec := json.NewDecoder(bytes.NewReader(js))
	dec.UseNumber()
	var gotDoc any
	if err := dec.Decode(&gotDoc); err != nil {
		return ev.Outcome{Violation: "ToJSON output is not JSON: " + err.Error() + " json=" + string(js)}
	}
	if d := jsonDiff("$", gotDoc, wantDoc, q); d != "" {
		return ev.Outcome{Violation: fmt.Sprintf("ToJSON document does not follow the circuit structure: %s (json %s)", d, js)}
	}
	// (vi) a document written by hand from the circuit declaration is read back to the same vector
	hand, err := json.Marshal(wantDoc)
	if err != nil {
		panic(err)
	}
	sch2, err := schema.New(wrap.Interface(), tVariable) // FromJSON may modify the schema counts
	if err != nil {
		return ev.Outcome{Violation: "schema.New failed on a valid shape: " + err.Error()}
	}
	w4, _ := witness.New(q)
	var ferr error
	if msg := ev.Safely(func() { ferr = w4.FromJSON(sch2, hand) }); msg != "" {
		return ev.Outcome{Violation: "FromJSON panicked on a document written from the circuit declaration: " + msg + " json=" + string(hand)}
	}
	if ferr != nil {
		return ev.Outcome{Violation: "FromJSON rejects a document written from the circuit declaration: " + ferr.Error() + " json=" + string(hand)}
	}
	if !eq(zk.WitnessValues(w4), want) {
		return ev.Outcome{Violation: fmt.Sprintf("FromJSON of a document written from the circuit declaration gives %v, want %v (json %s)", zk.WitnessValues(w4), want, hand)}
	}
	if liveNonSquare(c.Shape) {
		classes = append(classes, "json-structure-checked-nonsquare")
	}
	if swapped {
		classes = append(classes, "swap-checked")
	}
	nontrivial := len(pubWant) >= 2 && len(secWant) >= 2 &&
		(depth(c.Shape) >= 2 || fs["array-of-structs"] || fs["omitted-field"] || fs["inherit-tag"])
	return ev.Outcome{NonTrivial: nontrivial, Classes: classes}
}

// ---- generators

var tags = []string{"", "", "", "nm", ",public", ",public", ",secret", ",secret", "nm,public", "x_1,secret", ",inherit", ",inherit", "-"}
var reprs = []string{"int", "uint", "negint", "bigptr", "big", "dec", "hex", "bytes", "over", "neg"}

// uniq makes tag names unique within a struct (two fields with one name are a
// user error: the JSON object would have a duplicate key).
func uniq(tag string, i int) string {
	if tag == "" || tag == "-" || strings.HasPrefix(tag, ",") {
		return tag
	}
	if k := strings.Index(tag, ","); k >= 0 {
		return fmt.Sprintf("%s%d%s", tag[:k], i, tag[k:])
	}
	return fmt.Sprintf("%s%d", tag, i)
}

func genNode(t *rapid.T, d int) *Node {
	k := rapid.IntRange(0, 9).Draw(t, "nodekind")
	if d <= 0 || k <= 3 {
		return &Node{Kind: "leaf"}
	}
	switch {
	case k <= 6:
		n := &Node{Kind: "struct"}
		nf := rapid.IntRange(1, 4).Draw(t, "nfields")
		for i := 0; i < nf; i++ {
			fl := Field{Name: fmt.Sprintf("F%d", i), Tag: uniq(rapid.SampledFrom(tags).Draw(t, "tag"), i), Node: genNode(t, d-1)}
			if fl.Node.Kind == "struct" && rapid.IntRange(0, 2).Draw(t, "embed") == 0 {
				// embedded struct: promoted fields, no tag of its own
				fl.Embedded, fl.Tag, fl.Name = true, "", fmt.Sprintf("E%d", i)
			}
			n.Fields = append(n.Fields, fl)
		}
		return n
	case k == 7 || k == 8:
		kinds := []string{"array", "slice"}
		n := &Node{Kind: kinds[k-7], N: rapid.IntRange(8-k, 3).Draw(t, "alen")}
		if rapid.IntRange(0, 2).Draw(t, "nest") == 0 {
			// array of arrays; the dimensions differ more often than not
			in := &Node{Kind: rapid.SampledFrom(kinds).Draw(t, "inkind"), N: rapid.IntRange(1, 4).Draw(t, "inlen")}
			if rapid.IntRange(0, 3).Draw(t, "nest3") == 0 {
				in.Elem = &Node{Kind: rapid.SampledFrom(kinds).Draw(t, "inkind3"), N: rapid.IntRange(1, 3).Draw(t, "inlen3"), Elem: genNode(t, d-2)}
			} else {
				in.Elem = genNode(t, d-1)
			}
			n.Elem = in
			return n
		}
		n.Elem = genNode(t, d-1)
		return n
	default:
		e := genNode(t, d-1)
		if e.Kind != "struct" {
			return e
		}
		return &Node{Kind: "ptr", Elem: e}
	}
}

func genCase(fields []string) *rapid.Generator[Case] {
	return rapid.Custom(func(t *rapid.T) Case {
		root := &Node{Kind: "struct"}
		nf := rapid.IntRange(1, 5).Draw(t, "nfields")
		for i := 0; i < nf; i++ {
			fl := Field{Name: fmt.Sprintf("R%d", i), Tag: uniq(rapid.SampledFrom(tags).Draw(t, "tag"), i), Node: genNode(t, 3)}
			if fl.Node.Kind == "struct" && rapid.IntRange(0, 3).Draw(t, "embed") == 0 {
				fl.Embedded, fl.Tag, fl.Name = true, "", fmt.Sprintf("E%d", i)
			}
			root.Fields = append(root.Fields, fl)
		}
		c := Case{Shape: root, Field: rapid.SampledFrom(fields).Draw(t, "field")}
		nv := rapid.IntRange(1, 6).Draw(t, "nvals")
		for i := 0; i < nv; i++ {
			c.Values = append(c.Values, Value{Repr: rapid.SampledFrom(reprs).Draw(t, "repr"), V: prog.GenVal(t, "val")})
		}
		c.SwapA = rapid.IntRange(0, 30).Draw(t, "swapa")
		c.SwapB = rapid.IntRange(0, 30).Draw(t, "swapb")
		return c
	})
}

const rule = "circuit struct shapes built with reflect.StructOf/ArrayOf/SliceOf/PointerTo (nesting depth <= 4, arrays, slices incl. empty, pointers to structs, tags none/name/public/secret/name+visibility/inherit/omit, visibility conflicts in a labelled minority) x assignment value types (int, uint64, negative int, *big.Int, big.Int, decimal / hex string, []byte, over-modulus and negative big integers) x F47 and curve fields. Oracle: the generator's plan (declared depth-first order, documented visibility rules): witness vector, public-only witness, Witness.Public(), input counts of both compiled systems, Define pinning leaf i to constant i (solves; fails when two same-visibility leaves are exchanged), binary and JSON round trips; the ToJSON document decoded generically must hold every assigned value at the path of its variable (field / tag names, indices in declared order, declared lengths at every nesting level of arrays of arrays with unequal dimensions), and a JSON document written from the plan must be read by FromJSON into the expected vector. Non-trivial: >=2 public and >=2 secret leaves and (depth >= 2, array of structs, omitted field or inherit tag). Distinct: SHA-256 of the case JSON."

func TestWitnessBinding(t *testing.T) {
	rec := ev.Get(ID)
	rec.SetRule(rule)
	rec.Assume("the dynamic struct hangs under a fixed `Shell{Body any}` holder, which only prefixes names with Body_")
	fields := []string{"f47", "f47", "bn254", "bls12-377", "bls12-381", "bw6-761", "bls24-315", "bls24-317", "bw6-633", "babybear", "koalabear"}
	g := genCase(fields)
	rec.Check(t, "shape", ev.N(40000, 300000), func(rt *rapid.T) {
		c := g.Draw(rt, "case")
		rec.Begin("shape", c)
		rec.Report(rt, "shape", c, run(c))
	})
}

func TestReplay(t *testing.T) { ev.Replay(t) }

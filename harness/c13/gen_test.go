package c13

import (
	"fmt"
	"math/big"
	"testing"

	"verifharness/lib/ev"
	"verifharness/lib/prog"

	"pgregory.net/rapid"
)

var curveNames = []string{"bn254", "bls12-377", "bls12-381", "bls24-315", "bls24-317", "bw6-633", "bw6-761"}

func pow2(n int) *big.Int { return new(big.Int).Lsh(big.NewInt(1), uint(n)) }

// drawBig draws a uniform-ish integer in [0, bound).
func drawBig(t *rapid.T, bound *big.Int, label string) *big.Int {
	if bound.Sign() <= 0 {
		return new(big.Int)
	}
	n := (bound.BitLen() + 7) / 8
	b := rapid.SliceOfN(rapid.Byte(), n+1, n+1).Draw(t, label)
	x := new(big.Int).SetBytes(b)
	return x.Mod(x, bound)
}

func genWidth(t *rapid.T, B int) int {
	pick := func(lo, hi int) int {
		if hi < lo {
			hi = lo
		}
		if lo < 1 {
			lo = 1
		}
		if hi > B+2 {
			hi = B + 2
		}
		if lo > hi {
			lo = hi
		}
		return rapid.IntRange(lo, hi).Draw(t, "width")
	}
	switch rapid.IntRange(0, 11).Draw(t, "width-class") {
	case 0:
		return 1
	case 1:
		return pick(2, 3)
	case 2, 3:
		return pick(3, 16)
	case 4:
		return pick(17, 63)
	case 5:
		return pick(64, 64)
	case 6, 7:
		return pick(65, B-2)
	case 8:
		return pick(B-1, B-1)
	case 9:
		return pick(B, B)
	case 10:
		return pick(B+1, B+2)
	default:
		return pick(1, B+2)
	}
}

// fracVal returns t * c^{-1} mod q (nil when c is not invertible).
func fracVal(q *big.Int, t, c *big.Int) *big.Int {
	inv := new(big.Int).ModInverse(new(big.Int).Mod(c, q), q)
	if inv == nil {
		return nil
	}
	inv.Mul(inv, t)
	return inv.Mod(inv, q)
}

// genFracVal draws a field element that is a small multiple of the inverse of
// a small power of two, v = k * 2^(-s) mod q (or t * c^(-1) for small t, c):
// huge as an integer, but v * 2^s is small - exactly what an aligning
// multiplication by 2^(limb-width) maps into the table. shifts are exponents
// worth trying first (width, width-1, limb width - width, ...).
func genFracVal(t *rapid.T, q *big.Int, n int, prio, shifts []int) *big.Int {
	if len(prio) > 0 && rapid.IntRange(0, 2).Draw(t, "frac-prio") != 0 {
		// s = limb width - width, k below the table size: v*2^(limb-width) is a table entry
		s := rapid.SampledFrom(prio).Draw(t, "frac-s-prio")
		k := drawBig(t, pow2(n+s), "frac-k-prio")
		if rapid.Bool().Draw(t, "frac-k-prio-odd") {
			k.SetBit(k, 0, 1)
		}
		if v := fracVal(q, k, pow2(s)); v != nil {
			return v
		}
	}
	if rapid.IntRange(0, 5).Draw(t, "frac-general") == 0 {
		c := big.NewInt(int64(rapid.IntRange(2, 40).Draw(t, "frac-c")))
		k := big.NewInt(int64(rapid.IntRange(1, 40).Draw(t, "frac-t")))
		if v := fracVal(q, k, c); v != nil {
			return v
		}
	}
	var s int
	cand := []int{}
	for _, x := range shifts {
		if x >= 1 && x <= 40 {
			cand = append(cand, x)
		}
	}
	if len(cand) > 0 && rapid.IntRange(0, 2).Draw(t, "frac-hinted") != 0 {
		s = rapid.SampledFrom(cand).Draw(t, "frac-s-hint")
	} else {
		s = rapid.IntRange(1, 19).Draw(t, "frac-s")
	}
	var k *big.Int
	switch rapid.IntRange(0, 4).Draw(t, "frac-k-class") {
	case 0:
		k = big.NewInt(1)
	case 1:
		k = big.NewInt(int64(2*rapid.IntRange(0, 7).Draw(t, "frac-k-odd") + 1))
	case 2:
		k = big.NewInt(int64(rapid.IntRange(1, 40).Draw(t, "frac-k-small")))
	default:
		// any k below 2^(n+s) (capped): v*2^s stays below 2^(width+s)
		e := n + s
		if e > 20 {
			e = 20
		}
		k = drawBig(t, pow2(e), "frac-k")
		k.SetBit(k, 0, 1) // odd: not a multiple of 2^s
	}
	v := fracVal(q, k, pow2(s))
	if v == nil {
		return new(big.Int).Set(q).Sub(q, big.NewInt(1))
	}
	return v
}

// genVal draws a value for a width-n check; in tells whether it must satisfy v < 2^n.
// The second result is false when no out-of-range value exists (2^n >= q).
// shifts: exponents s for the class v = k*2^(-s) (see genFracVal).
func genVal(t *rapid.T, q *big.Int, n int, in bool, shifts ...int) (*big.Int, bool) {
	// the first two shifts are (limb width - width) for the two builders
	var prio []int
	for i, x := range shifts {
		if i < 2 && x >= 1 {
			prio = append(prio, x)
		}
	}
	lim := pow2(n)
	one := big.NewInt(1)
	if lim.Cmp(q) >= 0 {
		lim = new(big.Int).Set(q)
		if !in {
			in = true
		}
		if rapid.IntRange(0, 3).Draw(t, "vin-top") == 0 {
			return new(big.Int).Sub(q, one), true
		}
	}
	if in {
		switch rapid.IntRange(0, 6).Draw(t, "vin") {
		case 0:
			return new(big.Int), true
		case 1:
			return new(big.Int).Sub(lim, one), true
		case 2:
			return new(big.Int).Rsh(lim, 1), true
		case 3:
			if lim.Cmp(one) > 0 {
				return big.NewInt(1), true
			}
			return new(big.Int), true
		default:
			return drawBig(t, lim, "vin-rand"), true
		}
	}
	cap := func(x *big.Int) *big.Int {
		if x.Cmp(q) >= 0 || x.Cmp(lim) < 0 {
			return new(big.Int).Set(lim)
		}
		return x
	}
	top := 13
	if len(prio) > 0 {
		top = 19 // width below the limb width: favour the aliasing class
	}
	switch rapid.IntRange(0, top).Draw(t, "vout") {
	case 0, 1:
		return new(big.Int).Set(lim), false // 2^n
	case 2:
		return cap(new(big.Int).Add(lim, one)), false
	case 3:
		return cap(new(big.Int).Sub(pow2(n+1), one)), false
	case 4, 5:
		// within a few bits above the width: inside the limb decomposition's slack
		k := rapid.IntRange(1, 17).Draw(t, "slack")
		return cap(new(big.Int).Add(lim, drawBig(t, new(big.Int).Sub(pow2(n+k), lim), "vout-slack"))), false
	case 6:
		return cap(new(big.Int).Sub(q, one)), false
	case 7:
		return cap(new(big.Int).Sub(q, big.NewInt(int64(rapid.IntRange(2, 300).Draw(t, "below-q"))))), false
	case 8:
		// a multiple of 2^n: all low limbs zero
		return cap(new(big.Int).Mul(lim, big.NewInt(int64(rapid.IntRange(2, 1000).Draw(t, "mult"))))), false
	case 9:
		return cap(new(big.Int).Add(lim, drawBig(t, new(big.Int).Sub(q, lim), "vout-rand"))), false
	default:
		// small multiples of inverses of small powers of two
		return cap(genFracVal(t, q, n, prio, append([]int{n, n - 1, n + 1}, shifts...))), false
	}
}

// genRCs draws minN..maxN range checks, nBad of them out of range.
func genRCs(t *rapid.T, q *big.Int, minN, maxN int, nBad int, allowConst bool) []RC {
	B := q.BitLen()
	var n int
	switch rapid.IntRange(0, 9).Draw(t, "nrc-class") {
	case 0, 1, 2:
		n = 1
	case 3, 4, 5, 6:
		n = rapid.IntRange(2, 5).Draw(t, "nrc")
	case 7, 8:
		n = rapid.IntRange(6, 15).Draw(t, "nrc")
	default:
		n = rapid.IntRange(16, 30).Draw(t, "nrc")
	}
	if n < minN {
		n = minN
	}
	if n > maxN {
		n = maxN
	}
	// 0,1,2 mixed; 3 one width; 4 wide only; 5,6 a few narrow widths next to many wide ones
	// (the narrow widths then lie strictly below the chosen limb width)
	profile := rapid.IntRange(0, 6).Draw(t, "width-profile")
	if profile == 4 && maxN >= 16 && rapid.Bool().Draw(t, "many-wide") {
		// many wide variables: pushes the chosen limb width to its maximum
		n = rapid.IntRange(maxN*2/3, maxN).Draw(t, "nrc-many")
	}
	narrow := map[int]bool{}
	if profile >= 5 {
		if maxN < 4 {
			profile = 0
		} else {
			lo := 6
			if lo > maxN {
				lo = maxN
			}
			if n < lo {
				n = rapid.IntRange(lo, maxN).Draw(t, "nrc-narrow-mix")
			}
			for k := rapid.IntRange(1, 3).Draw(t, "n-narrow"); k > 0; k-- {
				narrow[rapid.IntRange(0, n-1).Draw(t, "narrow-at")] = true
			}
		}
	}
	same := genWidth(t, B)
	wideKind := rapid.IntRange(0, 2).Draw(t, "wide-kind") // profile 5,6: 0 all 64, 1 all 8 (bytes), 2 wide random
	badAt := map[int]bool{}
	for i := 0; i < nBad && i < n; i++ {
		if len(narrow) > 0 && rapid.IntRange(0, 3).Draw(t, "bad-narrow") != 0 {
			// put the out-of-range value on a narrow variable
			var ks []int
			for k := 0; k < n; k++ {
				if narrow[k] {
					ks = append(ks, k)
				}
			}
			badAt[rapid.SampledFrom(ks).Draw(t, "bad-at-narrow")] = true
			continue
		}
		badAt[rapid.IntRange(0, n-1).Draw(t, "bad-at")] = true
	}
	// first pass: widths and kinds
	rcs := make([]RC, n)
	for i := 0; i < n; i++ {
		w := same
		switch profile {
		case 0, 1, 2:
			w = genWidth(t, B)
		case 4:
			w = rapid.IntRange(B/2, B-1).Draw(t, "wide")
		case 5, 6:
			switch {
			case narrow[i]:
				w = rapid.IntRange(1, 7).Draw(t, "narrow-width")
			case wideKind == 0:
				w = 64
			case wideKind == 1:
				w = 8
			default:
				w = rapid.IntRange(B/2, B-1).Draw(t, "wide")
			}
			if w > B-1 {
				w = B - 1
			}
		}
		if badAt[i] && pow2(w).Cmp(q) >= 0 {
			// no out-of-range value exists for this width: take a narrower one
			w = rapid.IntRange(1, B-1).Draw(t, "narrower")
		}
		kind := "s"
		switch rapid.IntRange(0, 11).Draw(t, "rc-kind") {
		case 0, 1:
			kind = "p"
		case 2:
			if allowConst {
				kind = "c"
			}
		case 3, 4:
			kind = "e"
		case 5:
			if i > 0 && !badAt[i] && !narrow[i] {
				kind = "r"
			}
		}
		rcs[i] = RC{Bits: w, Kind: kind}
		if kind == "e" {
			rcs[i].Off = int64(rapid.IntRange(1, 1000).Draw(t, "off"))
		}
	}
	// the limb widths the two builders will choose for this mix
	b1, b2 := replicaWidth(prog.R1CS, rcs), replicaWidth(prog.SCS, rcs)
	// second pass: values
	for i := range rcs {
		if rcs[i].Kind == "r" {
			// the same variable under another width: in range iff the value fits
			rcs[i].Val = rcs[i-1].Val
			continue
		}
		w := rcs[i].Bits
		v, _ := genVal(t, q, w, !badAt[i], b1-w, b2-w, b1, b2)
		rcs[i].Val = v.String()
	}
	return rcs
}

func genEntryVal(t *rapid.T, q *big.Int) *big.Int {
	switch rapid.IntRange(0, 5).Draw(t, "entry-val") {
	case 0:
		return new(big.Int)
	case 1:
		return new(big.Int).Sub(q, big.NewInt(1))
	case 2, 3:
		return big.NewInt(int64(rapid.IntRange(0, 50).Draw(t, "small")))
	default:
		return drawBig(t, q, "entry-rand")
	}
}

// genTbl draws one table. nBadQ queries get an out-of-range index. maxQ bounds the queries; zero queries are possible.
func genTbl(t *rapid.T, q *big.Int, nBadQ int, allowEarly bool, minQ int) Tbl {
	var size int
	switch rapid.IntRange(0, 6).Draw(t, "size-class") {
	case 0:
		size = 1
	case 1, 2:
		size = rapid.IntRange(2, 5).Draw(t, "size")
	case 3, 4:
		size = rapid.IntRange(6, 20).Draw(t, "size")
	default:
		size = rapid.IntRange(21, 40).Draw(t, "size")
	}
	var nq int
	switch rapid.IntRange(0, 7).Draw(t, "nq-class") {
	case 0:
		nq = 0
	case 1:
		nq = 1
	case 2, 3:
		nq = rapid.IntRange(2, 5).Draw(t, "nq")
	case 4, 5:
		nq = rapid.IntRange(6, 20).Draw(t, "nq")
	default:
		nq = rapid.IntRange(21, 40).Draw(t, "nq")
	}
	if nq < minQ {
		nq = minQ
	}
	if nBadQ > 0 && nq == 0 {
		nq = 1
	}
	tb := Tbl{}
	prof := rapid.IntRange(0, 3).Draw(t, "tbl-profile") // 0 const, 1 variable, 2,3 mixed
	for i := 0; i < size; i++ {
		kind := "c"
		switch prof {
		case 1:
			kind = rapid.SampledFrom([]string{"s", "s", "s", "p"}).Draw(t, "ekind")
		case 2, 3:
			kind = rapid.SampledFrom([]string{"c", "s", "s", "p"}).Draw(t, "ekind")
		}
		tb.Entries = append(tb.Entries, Entry{Val: genEntryVal(t, q).String(), Kind: kind})
	}
	badAt := map[int]bool{}
	for i := 0; i < nBadQ; i++ {
		badAt[rapid.IntRange(0, nq-1).Draw(t, "badq-at")] = true
	}
	for j := 0; j < nq; j++ {
		var ix *big.Int
		if badAt[j] {
			switch rapid.IntRange(0, 6).Draw(t, "badidx") {
			case 0, 1:
				ix = big.NewInt(int64(size))
			case 2:
				ix = big.NewInt(int64(size + 1))
			case 3:
				ix = new(big.Int).Sub(q, big.NewInt(1))
			case 4:
				ix = new(big.Int).Add(pow2(32), big.NewInt(int64(rapid.IntRange(0, size-1).Draw(t, "wrap32"))))
			case 5:
				ix = new(big.Int).Add(pow2(64), big.NewInt(int64(rapid.IntRange(0, size-1).Draw(t, "wrap64"))))
			default:
				ix = new(big.Int).Add(big.NewInt(int64(size)), drawBig(t, new(big.Int).Sub(q, big.NewInt(int64(size))), "idx-rand"))
			}
		} else {
			switch rapid.IntRange(0, 5).Draw(t, "idx") {
			case 0:
				ix = new(big.Int)
			case 1:
				ix = big.NewInt(int64(size - 1))
			case 2:
				if j > 0 {
					ix = bigOf(tb.Queries[rapid.IntRange(0, j-1).Draw(t, "repeat")].Idx)
					if !ix.IsInt64() || ix.Int64() >= int64(size) {
						ix = new(big.Int)
					}
				} else {
					ix = new(big.Int)
				}
			default:
				ix = big.NewInt(int64(rapid.IntRange(0, size-1).Draw(t, "idx-valid")))
			}
		}
		kind := rapid.SampledFrom([]string{"s", "s", "s", "s", "p", "c", "e", "e"}).Draw(t, "qkind")
		qq := Query{Idx: ix.String(), Kind: kind}
		if kind == "e" {
			qq.Off = int64(rapid.IntRange(1, 5).Draw(t, "qoff"))
		}
		tb.Queries = append(tb.Queries, qq)
	}
	tb.Batch = rapid.SampledFrom([]int{0, 0, 1, 2, 7}).Draw(t, "batch")
	if allowEarly && size >= 2 && nq >= 1 && rapid.IntRange(0, 3).Draw(t, "early") == 0 {
		tb.EarlyN = rapid.IntRange(1, size-1).Draw(t, "early-n")
		tb.EarlyQ = rapid.IntRange(1, nq).Draw(t, "early-q")
	}
	return tb
}

// genHonest draws a case for the honest direction.
func genHonest(fields []string, builders []string) *rapid.Generator[Case] {
	return rapid.Custom(func(t *rapid.T) Case {
		c := Case{Field: rapid.SampledFrom(fields).Draw(t, "field"), Builder: rapid.SampledFrom(builders).Draw(t, "builder")}
		f := fieldOf(c.Field)
		shape := rapid.IntRange(0, 9).Draw(t, "shape") // 0-3 rc only, 4-5 tables only, 6-9 both
		if f.Small {
			shape = 0
			c.Plain = true
		}
		plan := rapid.IntRange(0, 19).Draw(t, "plan") // 0-8 all fine, 9-15 bad value(s), 16-18 bad index, 19 both
		nBadRC, nBadQ := 0, 0
		switch {
		case plan >= 9 && plan <= 13:
			nBadRC = 1
		case plan >= 14 && plan <= 15:
			nBadRC = rapid.IntRange(2, 4).Draw(t, "nbad")
		case plan >= 16 && plan <= 18:
			nBadQ = 1
		case plan == 19:
			nBadRC, nBadQ = 1, 1
		}
		if shape <= 3 {
			if !f.Small {
				c.Plain = rapid.IntRange(0, 3).Draw(t, "plain") == 0
			}
			c.RCs = genRCs(t, f.Q, 1, 30, nBadRC, true)
		}
		if shape >= 6 {
			c.RCs = genRCs(t, f.Q, 1, 12, nBadRC, true)
		}
		if shape >= 4 {
			nt := rapid.SampledFrom([]int{1, 1, 1, 2, 3}).Draw(t, "ntables")
			badT := rapid.IntRange(0, nt-1).Draw(t, "bad-table")
			for i := 0; i < nt; i++ {
				nb := 0
				if i == badT {
					nb = nBadQ
				}
				c.Tables = append(c.Tables, genTbl(t, f.Q, nb, true, 0))
			}
			c.TablesFirst = rapid.Bool().Draw(t, "tables-first")
		}
		c.BadOut = rapid.IntRange(0, 39).Draw(t, "bad-out")
		return c
	})
}

var (
	limbStrategies  = []string{"none", "top", "top", "vplusp", "vplusp", "carry", "carry"}
	countStrategies = []string{"none", "lenient", "lenient", "zero", "ones", "plus", "plus", "minus", "shift", "solve", "solve"}
)

// genAdv draws a case for the adversarial direction (compiled, commit path, curve field).
func genAdv() *rapid.Generator[Case] {
	return rapid.Custom(func(t *rapid.T) Case {
		c := Case{Field: rapid.SampledFrom(curveNames).Draw(t, "field"), Builder: rapid.SampledFrom([]string{prog.R1CS, prog.SCS}).Draw(t, "builder")}
		f := fieldOf(c.Field)
		nBad := rapid.SampledFrom([]int{0, 1, 1, 1, 1, 1, 1, 2, 3}).Draw(t, "nbad")
		withTable := rapid.IntRange(0, 3).Draw(t, "with-table") == 0
		maxN := 30
		if withTable {
			maxN = 10
		}
		c.RCs = genRCs(t, f.Q, 1, maxN, nBad, false)
		if withTable {
			c.Tables = []Tbl{genTbl(t, f.Q, 0, false, 0)}
			c.TablesFirst = rapid.Bool().Draw(t, "tables-first")
		}
		c.Adv = &Adv{
			Limb:  rapid.SampledFrom(limbStrategies).Draw(t, "limb-strategy"),
			Count: rapid.SampledFrom(countStrategies).Draw(t, "count-strategy"),
			J:     rapid.IntRange(0, 40).Draw(t, "j"),
		}
		return c
	})
}

func genEmuVal(t *rapid.T) *big.Int {
	switch rapid.IntRange(0, 4).Draw(t, "emu-val") {
	case 0:
		return big.NewInt(int64(rapid.IntRange(0, 3).Draw(t, "emu-small")))
	case 1:
		return new(big.Int).Sub(emuModulus, big.NewInt(int64(rapid.IntRange(1, 3).Draw(t, "emu-top"))))
	default:
		return drawBig(t, emuModulus, "emu-rand")
	}
}

// genShared draws a satisfiable multi-gadget case plus one change of a committed value.
func genShared() *rapid.Generator[Case] {
	return rapid.Custom(func(t *rapid.T) Case {
		c := Case{Field: rapid.SampledFrom(curveNames).Draw(t, "field"), Builder: rapid.SampledFrom([]string{prog.R1CS, prog.SCS}).Draw(t, "builder")}
		f := fieldOf(c.Field)
		shape := rapid.IntRange(0, 9).Draw(t, "shape") // 0: rc only, 1: tables only, else both
		if shape != 1 {
			c.RCs = genRCs(t, f.Q, 1, 8, 0, true)
		}
		if shape != 0 {
			nt := rapid.SampledFrom([]int{1, 1, 2, 3}).Draw(t, "ntables")
			if shape == 1 && nt == 1 {
				nt = 2
			}
			for i := 0; i < nt; i++ {
				c.Tables = append(c.Tables, genTbl(t, f.Q, 0, false, 1))
			}
			c.TablesFirst = rapid.Bool().Draw(t, "tables-first")
		}
		if rapid.IntRange(0, 3).Draw(t, "emu") == 0 {
			c.Emu = &Emu{A: genEmuVal(t).String(), B: genEmuVal(t).String()}
		}
		// one change
		m := &Mut{}
		opts := []string{}
		if c.Emu != nil {
			opts = append(opts, "emu", "emu")
		}
		if len(c.RCs) > 0 {
			opts = append(opts, "rc", "rc")
		}
		if len(c.Tables) > 0 {
			opts = append(opts, "idx", "entry")
		}
		m.What = rapid.SampledFrom(opts).Draw(t, "mut")
		switch m.What {
		case "emu":
			m.Val = genEmuVal(t).String()
		case "rc":
			var el []int
			for i, r := range c.RCs {
				if r.Kind != "c" && r.Kind != "r" && (i+1 == len(c.RCs) || c.RCs[i+1].Kind != "r") {
					el = append(el, i)
				}
			}
			if len(el) == 0 {
				el = []int{0}
			}
			m.I = rapid.SampledFrom(el).Draw(t, "mut-i")
			v, _ := genVal(t, f.Q, c.RCs[m.I].Bits, true)
			if v.String() == c.RCs[m.I].Val {
				v.Xor(v, big.NewInt(1)) // flip the lowest bit: still below 2^n
				if v.Cmp(f.Q) >= 0 {
					v.SetInt64(0)
				}
			}
			m.Val = v.String()
		case "idx":
			m.T = rapid.IntRange(0, len(c.Tables)-1).Draw(t, "mut-t")
			m.I = rapid.IntRange(0, len(c.Tables[m.T].Queries)-1).Draw(t, "mut-i")
			m.Val = fmt.Sprint(rapid.IntRange(0, len(c.Tables[m.T].Entries)-1).Draw(t, "mut-idx"))
		case "entry":
			m.T = rapid.IntRange(0, len(c.Tables)-1).Draw(t, "mut-t")
			m.I = rapid.IntRange(0, len(c.Tables[m.T].Entries)-1).Draw(t, "mut-i")
			m.Val = genEntryVal(t, f.Q).String()
		}
		c.Mut = m
		return c
	})
}

// ---- tests ----------------------------------------------------------------------

const rule = "honest: rapid-generated circuits with 0-30 range checks of widths 1..bitlen+2 (values at 0, 2^n-1, 2^n, 2^n+slack, q-1, random; inputs, constants, expressions, one variable under two widths) and 0-3 logderivlookup tables (1-40 constant/variable entries, 0-40 queries incl. repeated, 0, last, size, size+1, q-1, 2^32+i, queries issued before later inserts), on R1CS / SCS / test engine, commit path or bit-decomposition path (API wrapper hiding Committer): accepted <=> all values < 2^n and all indices < size, and a +1 claimed lookup result is rejected. " +
	"adv: compiled systems over curve fields with >=1 out-of-range value, DecomposeHint / countHint outputs rewritten (limbs of v with unreduced top limb, of v+p, carry moved between limbs; multiplicities lenient/zero/ones/+1/-1/shifted/solved-for in a second pass), commitment = SHA-256 of its inputs: must stay unsatisfiable. " +
	"shared: satisfiable circuits with range checks and tables: one commitment whose inputs contain every limb, multiplicity, lookup (index,result) and variable table entry; changing one committed value changes the commitment input. " +
	"Non-trivial: (honest) commit path with a width that is not a multiple of the observed limb width, or a repeated query, or (plain path) a value at bit length n or n+1; (adv) forged limbs satisfy the recomposition equality and the count hint's refusal is overridden so that only a constraint rejects; (shared) >= 2 gadgets. Distinct: SHA-256 of the case JSON."

func setup() *ev.Recorder {
	rec := ev.Get(ID)
	rec.SetRule(rule)
	rec.Assume("over a curve scalar field the log-derivative argument's completeness and soundness error (<= (table+queries)/q) never materialises; fields with fewer than 2^200 elements are used on the bit-decomposition path only")
	rec.Assume("lookup results are outputs of a solver instruction (BlueprintLookupHint), not of a hint: forging them needs a replay solver and is not attempted here; wrong results are only claimed through the witness")
	return rec
}

func TestHonestCompiled(t *testing.T) {
	rec := setup()
	g := genHonest(curveNames, []string{prog.R1CS, prog.SCS})
	rec.Check(t, "honest", ev.N(3000, 240000), func(rt *rapid.T) {
		c := g.Draw(rt, "case")
		rec.Begin("honest", c)
		rec.Report(rt, "honest", c, run(c))
	})
}

func TestHonestEngine(t *testing.T) {
	rec := setup()
	g := genHonest(curveNames, []string{"engine"})
	rec.Check(t, "honest", ev.N(1500, 100000), func(rt *rapid.T) {
		c := g.Draw(rt, "case")
		rec.Begin("honest", c)
		rec.Report(rt, "honest", c, run(c))
	})
}

func TestHonestPlainF47(t *testing.T) {
	rec := setup()
	g := genHonest([]string{"f47"}, []string{prog.R1CS, prog.SCS, "engine"})
	rec.Check(t, "honest", ev.N(400, 60000), func(rt *rapid.T) {
		c := g.Draw(rt, "case")
		rec.Begin("honest", c)
		rec.Report(rt, "honest", c, run(c))
	})
}

// TestPlainF47Exhaustive enumerates every (width, value) over the 47-element
// field on the bit-decomposition path, for the three execution engines.
func TestPlainF47Exhaustive(t *testing.T) {
	rec := setup()
	n := 0
	for _, b := range []string{prog.R1CS, prog.SCS, "engine"} {
		for w := 1; w <= 8; w++ {
			for v := 0; v < 47; v++ {
				for _, kind := range []string{"s", "p"} {
					c := Case{Field: "f47", Builder: b, Plain: true, RCs: []RC{{Bits: w, Val: fmt.Sprint(v), Kind: kind}}}
					o := run(c)
					if o.Violation != "" {
						p := rec.Violate("f47", c, o.Violation)
						t.Fatalf("VIOLATION %s kind=f47 replay=%s: %s", ID, p, o.Violation)
					}
					if o.Discard {
						t.Fatalf("unexpected discard: %s", o.DiscardWhy)
					}
					rec.Count("f47", c, o.NonTrivial, o.Classes...)
					n++
				}
			}
		}
	}
	rec.Extra("exhaustive_f47_plain_cases", n)
	rec.Extra("exhaustive", true)
}

// TestZeroQueryTable: a table that is never queried constrains nothing.
func TestZeroQueryTable(t *testing.T) {
	rec := setup()
	for _, b := range []string{prog.R1CS, prog.SCS, "engine"} {
		for _, size := range []int{1, 3} {
			for _, ekind := range []string{"c", "s"} {
				for _, rc := range []int{-1, 5, 300} { // no range check / in range / out of range (8 bits)
					for _, other := range []bool{false, true} {
						c := Case{Field: "bn254", Builder: b}
						tb := Tbl{}
						for i := 0; i < size; i++ {
							tb.Entries = append(tb.Entries, Entry{Val: fmt.Sprint(10 + i), Kind: ekind})
						}
						c.Tables = append(c.Tables, tb)
						if other {
							c.Tables = append(c.Tables, Tbl{Entries: []Entry{{Val: "7", Kind: "c"}, {Val: "9", Kind: "s"}}, Queries: []Query{{Idx: "1", Kind: "s"}}})
						}
						if rc >= 0 {
							c.RCs = []RC{{Bits: 8, Val: fmt.Sprint(rc), Kind: "s"}}
						}
						if c.valid() != "" {
							continue
						}
						o := run(c)
						if o.Violation != "" {
							p := rec.Violate("zeroq", c, o.Violation)
							t.Fatalf("VIOLATION %s kind=zeroq replay=%s: %s", ID, p, o.Violation)
						}
						rec.Count("zeroq", c, true, append(o.Classes, "tbl:never-queried")...)
					}
				}
			}
		}
	}
}

func TestAdversary(t *testing.T) {
	rec := setup()
	g := genAdv()
	rec.Check(t, "adv", ev.N(2500, 160000), func(rt *rapid.T) {
		c := g.Draw(rt, "case")
		rec.Begin("adv", c)
		rec.Report(rt, "adv", c, runAdv(c))
	})
}

func TestSharedCommitment(t *testing.T) {
	rec := setup()
	g := genShared()
	rec.Check(t, "shared", ev.N(1000, 60000), func(rt *rapid.T) {
		c := g.Draw(rt, "case")
		rec.Begin("shared", c)
		rec.Report(rt, "shared", c, runShared(c))
	})
}

package c13

import (
	"fmt"
	"math/big"
	"strings"

	"verifharness/lib/ev"
	"verifharness/lib/prog"

	"github.com/consensys/gnark/frontend"
	"github.com/consensys/gnark/std/math/emulated"
)

var emuModulus = emulated.Secp256k1Fp{}.Modulus()

// circuitEmu is circuit plus one emulated multiplication (a third kind of
// gadget that range-checks through the shared checker and registers its own
// callback with multicommit).
type circuitEmu struct {
	circuit
	EA, EB emulated.Element[emulated.Secp256k1Fp]
	EC     emulated.Element[emulated.Secp256k1Fp] `gnark:",public"`
}

func (ci *circuitEmu) Define(api frontend.API) error {
	emu := func() error {
		f, err := emulated.NewField[emulated.Secp256k1Fp](api)
		if err != nil {
			return err
		}
		f.AssertIsEqual(f.Mul(&ci.EA, &ci.EB), &ci.EC)
		return nil
	}
	if ci.C.TablesFirst {
		if err := emu(); err != nil {
			return err
		}
		return ci.circuit.Define(api)
	}
	if err := ci.circuit.Define(api); err != nil {
		return err
	}
	return emu()
}

func mkCircuit(c *Case) frontend.Circuit {
	if c.Emu == nil {
		return newCircuit(c)
	}
	return &circuitEmu{circuit: *newCircuit(c)}
}

func mkAssignment(c *Case, q *big.Int, x []*big.Int) frontend.Circuit {
	if c.Emu == nil {
		return assignment(c, q, x)
	}
	a, b := bigOf(c.Emu.A), bigOf(c.Emu.B)
	p := new(big.Int).Mul(a, b)
	p.Mod(p, emuModulus)
	return &circuitEmu{circuit: *assignment(c, q, x),
		EA: emulated.ValueOf[emulated.Secp256k1Fp](a), EB: emulated.ValueOf[emulated.Secp256k1Fp](b), EC: emulated.ValueOf[emulated.Secp256k1Fp](p)}
}

// emuLimbs are the four 64-bit limbs of an operand.
func emuLimbs(x *big.Int) []*big.Int {
	mask := new(big.Int).Sub(pow2(64), big.NewInt(1))
	var r []*big.Int
	t := new(big.Int).Set(x)
	for i := 0; i < 4; i++ {
		r = append(r, new(big.Int).And(t, mask))
		t.Rsh(t, 64)
	}
	return r
}

// expectedCommitted lists the values that must reach the single commitment of
// the circuit: the data every gadget hands to multicommit.WithCommitment
// (limbs, shifted most-significant limbs, multiplicities, lookup (index, result)
// pairs, entries of non-constant tables). What "reaches" means depends on the
// builder: the sparse-R1CS builder commits to the value of every (non-constant)
// expression, the R1CS builder to the wires occurring in them.
func expectedCommitted(c *Case, v verdict, hl *hintLog, q *big.Int) (vals []*big.Int, labels []string) {
	add := func(x *big.Int, l string) {
		vals = append(vals, new(big.Int).Mod(x, q))
		labels = append(labels, l)
	}
	for i, d := range hl.Decomp {
		for j, o := range d.Out {
			add(o, fmt.Sprintf("limb %d of range check call %d", j, i))
		}
		if shift := len(d.Out)*d.Limb - d.Bits; shift > 0 && c.Builder == prog.SCS {
			add(new(big.Int).Lsh(d.Out[len(d.Out)-1], uint(shift)), fmt.Sprintf("shifted most-significant limb of range check call %d", i))
		}
	}
	for i, cc := range hl.Count {
		for j, o := range cc.Out {
			add(o, fmt.Sprintf("multiplicity %d of argument %d", j, i))
		}
	}
	if c.Emu != nil {
		// the first multiplication hint call is the one of f.Mul(EA, EB) (the later
		// one belongs to the zero check of AssertIsEqual, whose remainder is the
		// constant 0 and is not committed): quotient, remainder and carries are committed
		if len(hl.EmuOut) > 0 {
			for j, o := range hl.EmuOut[0] {
				add(o, fmt.Sprintf("output %d of the emulated multiplication hint", j))
			}
		}
		for j, l := range emuLimbs(bigOf(c.Emu.A)) {
			add(l, fmt.Sprintf("limb %d of the emulated operand A", j))
		}
		for j, l := range emuLimbs(bigOf(c.Emu.B)) {
			add(l, fmt.Sprintf("limb %d of the emulated operand B", j))
		}
	}
	pos := 0
	for t, tb := range c.Tables {
		allConst := true
		for _, e := range tb.Entries {
			if e.Kind != "c" {
				allConst = false
			}
		}
		if len(tb.Queries) > 0 && !allConst {
			for j, e := range tb.Entries {
				if e.Kind != "c" {
					add(bigOf(e.Val), fmt.Sprintf("entry %d of table %d", j, t))
				}
			}
		}
		for j, qq := range tb.Queries {
			add(v.exp[pos], fmt.Sprintf("result of query %d of table %d", j, t))
			pos++
			switch qq.Kind {
			case "s", "p":
				add(bigOf(qq.Idx), fmt.Sprintf("index of query %d of table %d", j, t))
			case "e":
				if c.Builder == prog.SCS {
					add(bigOf(qq.Idx), fmt.Sprintf("index of query %d of table %d", j, t))
				} else {
					add(new(big.Int).Sub(bigOf(qq.Idx), big.NewInt(qq.Off)), fmt.Sprintf("wire under the index of query %d of table %d", j, t))
				}
			}
		}
	}
	return
}

func applyMut(c *Case, q *big.Int) (*Case, string) {
	m := c.Mut
	d := *c
	d.RCs = append([]RC(nil), c.RCs...)
	d.Tables = make([]Tbl, len(c.Tables))
	for i, t := range c.Tables {
		d.Tables[i] = t
		d.Tables[i].Entries = append([]Entry(nil), t.Entries...)
		d.Tables[i].Queries = append([]Query(nil), t.Queries...)
	}
	if c.Emu != nil {
		e := *c.Emu
		d.Emu = &e
	}
	switch m.What {
	case "emu":
		if d.Emu == nil || d.Emu.A == m.Val || bigOf(m.Val).Cmp(emuModulus) >= 0 {
			return nil, "mutation does not apply"
		}
		d.Emu.A = m.Val
	case "rc":
		if m.I < 0 || m.I >= len(d.RCs) || d.RCs[m.I].Kind == "c" || d.RCs[m.I].Kind == "r" || d.RCs[m.I].Val == m.Val {
			return nil, "mutation does not apply"
		}
		if m.I+1 < len(d.RCs) && d.RCs[m.I+1].Kind == "r" {
			return nil, "mutation does not apply"
		}
		d.RCs[m.I].Val = m.Val
	case "idx":
		if m.T < 0 || m.T >= len(d.Tables) || m.I < 0 || m.I >= len(d.Tables[m.T].Queries) {
			return nil, "mutation does not apply"
		}
		qq := &d.Tables[m.T].Queries[m.I]
		if qq.Kind == "c" || qq.Idx == m.Val {
			return nil, "mutation does not apply"
		}
		qq.Idx = m.Val
	case "entry":
		if m.T < 0 || m.T >= len(d.Tables) || m.I < 0 || m.I >= len(d.Tables[m.T].Entries) {
			return nil, "mutation does not apply"
		}
		e := &d.Tables[m.T].Entries[m.I]
		if e.Kind == "c" || e.Val == m.Val || len(d.Tables[m.T].Queries) == 0 {
			return nil, "mutation does not apply"
		}
		e.Val = m.Val
	default:
		return nil, "mutation does not apply"
	}
	if why := d.valid(); why != "" {
		return nil, why
	}
	v := judge(&d, q)
	if !v.wantAcc {
		return nil, "mutated case is not satisfiable"
	}
	return &d, ""
}

func sameInts(a, b []*big.Int) bool {
	if len(a) != len(b) {
		return false
	}
	for i := range a {
		if a[i].Cmp(b[i]) != 0 {
			return false
		}
	}
	return true
}

// runShared checks the shared-commitment clause on a satisfiable circuit with
// several gadgets: there is exactly one commitment, it receives the committed
// data of every gadget, and changing one gadget's committed value changes the
// commitment input (and therefore, the commitment being binding, the challenge
// of every gadget).
func runShared(cc Case) ev.Outcome {
	c := &cc
	if why := c.valid(); why != "" {
		return ev.Outcome{Discard: true, DiscardWhy: why}
	}
	f := *fieldOf(c.Field)
	if c.Plain || c.Builder == "engine" || f.Small {
		return ev.Outcome{Discard: true, DiscardWhy: "shared-commitment check needs a compiled commit-path system over a curve field"}
	}
	v := judge(c, f.Q)
	if !v.wantAcc {
		return ev.Outcome{Discard: true, DiscardWhy: "shared-commitment cases are satisfiable"}
	}
	arguments := 0 // log-derivative arguments: one shared range checker (the emulated field registers its limbs with it) + every queried table
	if len(c.RCs) > 0 || c.Emu != nil {
		arguments++
	}
	for _, t := range c.Tables {
		if len(t.Queries) > 0 {
			arguments++
		}
	}
	gadgets := arguments
	classes := shapeClasses(c, v, f.Q.BitLen())
	if c.Emu != nil {
		gadgets++ // the deferred multiplication check has its own multicommit callback (no log-derivative argument)
		classes = append(classes, "gadget:emulated-mul")
	}
	where := fmt.Sprintf("[field=%s builder=%s gadgets=%d]", c.Field, c.Builder, gadgets)
	classes = append(classes, fmt.Sprintf("gadgets:%d", gadgets))
	k, err := compileCase(c)
	if err != nil {
		return ev.Outcome{Violation: fmt.Sprintf("%s satisfiable case, but Compile failed: %s", where, short(err))}
	}
	err, hl, cl, _ := advPass(k, c, v.exp, nil, nil)
	if err != nil {
		if strings.HasPrefix(err.Error(), "HARNESS") {
			return ev.Outcome{Discard: true, DiscardWhy: "harness: " + short(err)}
		}
		return ev.Outcome{Violation: fmt.Sprintf("%s satisfiable case rejected under the hash commitment: %s", where, short(err))}
	}
	if gadgets == 0 {
		return ev.Outcome{Discard: true, DiscardWhy: "no gadget"}
	}
	if len(cl.In) != 1 {
		return ev.Outcome{Violation: fmt.Sprintf("%s %d gadgets but the commitment hint ran %d times (expected one shared commitment)", where, gadgets, len(cl.In))}
	}
	if len(hl.Count) != arguments {
		return ev.Outcome{Violation: fmt.Sprintf("%s %d log-derivative gadgets but %d arguments were built", where, arguments, len(hl.Count))}
	}
	got := map[string]int{}
	for _, x := range cl.In[0][1:] { // [0] is the commitment depth
		got[x.String()]++
	}
	vals, labels := expectedCommitted(c, v, hl, f.Q)
	want := map[string]int{}
	for _, x := range vals {
		want[x.String()]++
	}
	for i, x := range vals {
		if k := x.String(); got[k] < want[k] {
			var who []string
			for j := range vals {
				if vals[j].String() == k && len(who) < 6 {
					who = append(who, labels[j])
				}
			}
			return ev.Outcome{Violation: fmt.Sprintf("%s value %s is committed data of %d items (%s) but occurs only %d times among the %d inputs of the commitment (first: %s)",
				where, x, want[k], strings.Join(who, "; "), got[k], len(cl.In[0])-1, labels[i])}
		}
	}
	classes = append(classes, sizeClass("committed", len(vals)))
	nt := gadgets >= 2
	if c.Mut != nil {
		d, why := applyMut(c, f.Q)
		if d == nil {
			classes = append(classes, "mut:skipped:"+why)
		} else {
			vd := judge(d, f.Q)
			err2, _, cl2, _ := advPass(k, d, vd.exp, nil, nil)
			if err2 != nil {
				return ev.Outcome{Violation: fmt.Sprintf("%s satisfiable case (after changing %s) rejected under the hash commitment: %s", where, c.Mut.What, short(err2))}
			}
			if len(cl2.In) != 1 || sameInts(cl.In[0], cl2.In[0]) {
				return ev.Outcome{Violation: fmt.Sprintf("%s changing %s #%d (table %d) to %s left the commitment input unchanged", where, c.Mut.What, c.Mut.I, c.Mut.T, c.Mut.Val)}
			}
			if cl.Out[0].Cmp(cl2.Out[0]) == 0 {
				return ev.Outcome{Violation: fmt.Sprintf("%s harness: hash commitment unchanged although its input changed", where)}
			}
			classes = append(classes, "mut:"+c.Mut.What)
		}
	}
	return ev.Outcome{Classes: classes, NonTrivial: nt}
}

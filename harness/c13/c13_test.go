// C13 — range checks (std/rangecheck) and lookup tables (std/lookup/logderivlookup,
// std/internal/logderivarg, std/multicommit) accept only in-range values and true
// table entries, whichever strategy is chosen and whatever a dishonest prover
// supplies as limbs / multiplicities; gadgets sharing one circuit share one
// commitment that covers the data of all of them.
//
// Oracles: the integer predicate 0 <= v < 2^n; table[index]; adversarial hint
// substitution (lib/hintadv) with a hash commitment.
package c13

import (
	"encoding/json"
	"fmt"
	"math/big"
	"strings"
	"testing"

	"verifharness/lib/ev"
	"verifharness/lib/hintadv"
	"verifharness/lib/prog"

	"github.com/consensys/gnark/constraint/solver"
	"github.com/consensys/gnark/frontend"
	"github.com/consensys/gnark/logger"
	"github.com/consensys/gnark/std"
	"github.com/consensys/gnark/std/lookup/logderivlookup"
	"github.com/consensys/gnark/std/rangecheck"
	"github.com/consensys/gnark/test"
)

const ID = "C13"

func TestMain(m *testing.M) {
	logger.Disable()
	std.RegisterHints()
	reg := func(kind string, fn func(Case) ev.Outcome) {
		ev.RegisterReplay(kind, func(raw json.RawMessage) string {
			var c Case
			if err := json.Unmarshal(raw, &c); err != nil {
				return ""
			}
			return fn(c).Violation
		})
	}
	reg("honest", run)
	reg("f47", run)
	reg("zeroq", run)
	reg("adv", runAdv)
	reg("shared", runShared)
	ev.Main(m)
}

// ---- case ---------------------------------------------------------------------

// RC is one range-checked variable: rangecheck.New(api).Check(variable, Bits).
type RC struct {
	Bits int    `json:"bits"`
	Val  string `json:"val"`           // value of the checked variable (canonical residue, decimal)
	Kind string `json:"kind"`          // s secret input | p public input | c constant | e secret input + Off | r the same variable as the previous RC
	Off  int64  `json:"off,omitempty"` // kind e
}

// Entry is one inserted table entry.
type Entry struct {
	Val  string `json:"val"`
	Kind string `json:"kind"` // c constant | s secret input | p public input
}

// Query is one looked-up index.
type Query struct {
	Idx  string `json:"idx"`
	Kind string `json:"kind"` // s | p | c | e (secret input + Off)
	Off  int64  `json:"off,omitempty"`
}

// Tbl is one logderivlookup table.
type Tbl struct {
	Entries []Entry `json:"entries"`
	Queries []Query `json:"queries"`
	Batch   int     `json:"batch"`             // queries per Lookup call (0: all in one call)
	EarlyN  int     `json:"early_n,omitempty"` // 0 < EarlyN < len(Entries): the first EarlyQ queries are issued when only EarlyN entries are inserted
	EarlyQ  int     `json:"early_q,omitempty"`
}

// Adv selects the dishonest prover's strategy.
type Adv struct {
	Limb  string `json:"limb"`  // none | top | vplusp | carry
	Count string `json:"count"` // none | lenient | zero | ones | plus | minus | shift | solve
	J     int    `json:"j"`     // position used by carry
}

// Mut is the change applied by the shared-commitment check.
type Mut struct {
	What string `json:"what"` // rc | idx | entry
	T    int    `json:"t"`    // table number (idx, entry)
	I    int    `json:"i"`    // RC / query / entry number
	Val  string `json:"val"`  // new value
}

// Case fully determines one execution.
type Case struct {
	Field       string `json:"field"`
	Builder     string `json:"builder"` // r1cs | scs | engine
	Plain       bool   `json:"plain"`   // hide frontend.Committer / frontend.Rangechecker from rangecheck.New
	TablesFirst bool   `json:"tables_first"`
	RCs         []RC   `json:"rcs"`
	Tables      []Tbl  `json:"tables"`
	BadOut      int    `json:"bad_out"` // which answered query gets a wrong claimed result in the negative control
	Adv         *Adv   `json:"adv,omitempty"`
	Mut         *Mut   `json:"mut,omitempty"`
	Emu         *Emu   `json:"emu,omitempty"` // shared kind: an emulated (secp256k1 base field) multiplication as a further gadget
}

// Emu is an emulated multiplication EA*EB == EC over the secp256k1 base field.
type Emu struct {
	A string `json:"a"`
	B string `json:"b"`
}

func bigOf(s string) *big.Int {
	b, ok := new(big.Int).SetString(s, 10)
	if !ok {
		return new(big.Int)
	}
	return b
}

// ---- circuit ------------------------------------------------------------------

type circuit struct {
	P []frontend.Variable `gnark:",public"`
	S []frontend.Variable
	X []frontend.Variable // claimed lookup results, one per query
	C *Case               `gnark:"-"`
}

// hidden exposes only the frontend.API method set: type assertions to
// frontend.Committer / frontend.Rangechecker fail, so rangecheck.New falls back
// to bit decomposition.
type hidden struct{ frontend.API }

func (ci *circuit) Define(api frontend.API) error {
	c := ci.C
	ip, is := 0, 0
	next := func(kind string) frontend.Variable {
		if kind == "p" {
			v := ci.P[ip]
			ip++
			return v
		}
		v := ci.S[is]
		is++
		return v
	}
	rcv := make([]frontend.Variable, len(c.RCs))
	for i, r := range c.RCs {
		switch r.Kind {
		case "c":
			rcv[i] = bigOf(r.Val)
		case "e":
			rcv[i] = api.Add(next("s"), r.Off)
		case "r":
			rcv[i] = rcv[i-1]
		default:
			rcv[i] = next(r.Kind)
		}
	}
	ent := make([][]frontend.Variable, len(c.Tables))
	idx := make([][]frontend.Variable, len(c.Tables))
	for t, tb := range c.Tables {
		for _, e := range tb.Entries {
			if e.Kind == "c" {
				ent[t] = append(ent[t], bigOf(e.Val))
			} else {
				ent[t] = append(ent[t], next(e.Kind))
			}
		}
		for _, q := range tb.Queries {
			switch q.Kind {
			case "c":
				idx[t] = append(idx[t], bigOf(q.Idx))
			case "e":
				idx[t] = append(idx[t], api.Add(next("s"), q.Off))
			default:
				idx[t] = append(idx[t], next(q.Kind))
			}
		}
	}
	doRC := func() {
		if len(rcv) == 0 {
			return
		}
		a := api
		if c.Plain {
			a = hidden{api}
		}
		rc := rangecheck.New(a)
		for i := range rcv {
			rc.Check(rcv[i], c.RCs[i].Bits)
		}
	}
	doTables := func() {
		xk := 0
		for t, tb := range c.Tables {
			tab := logderivlookup.New(api)
			lookup := func(ix []frontend.Variable) []frontend.Variable {
				if tb.Batch <= 0 {
					return tab.Lookup(ix...)
				}
				var r []frontend.Variable
				for len(ix) > 0 {
					n := tb.Batch
					if n > len(ix) {
						n = len(ix)
					}
					r = append(r, tab.Lookup(ix[:n]...)...)
					ix = ix[n:]
				}
				return r
			}
			n0, q0 := earlySplit(tb)
			for _, e := range ent[t][:n0] {
				tab.Insert(e)
			}
			res := lookup(idx[t][:q0])
			for _, e := range ent[t][n0:] {
				tab.Insert(e)
			}
			res = append(res, lookup(idx[t][q0:])...)
			for _, r := range res {
				api.AssertIsEqual(r, ci.X[xk])
				xk++
			}
		}
	}
	if c.TablesFirst {
		doTables()
		doRC()
	} else {
		doRC()
		doTables()
	}
	return nil
}

// earlySplit returns the number of entries inserted before the first q0 queries.
func earlySplit(tb Tbl) (n0, q0 int) {
	if tb.EarlyN > 0 && tb.EarlyN < len(tb.Entries) && tb.EarlyQ > 0 {
		q0 = tb.EarlyQ
		if q0 > len(tb.Queries) {
			q0 = len(tb.Queries)
		}
		return tb.EarlyN, q0
	}
	return len(tb.Entries), 0
}

func nbQueries(c *Case) int {
	n := 0
	for _, t := range c.Tables {
		n += len(t.Queries)
	}
	return n
}

func newCircuit(c *Case) *circuit {
	np, ns := 0, 0
	cnt := func(kind string) {
		switch kind {
		case "p":
			np++
		case "s", "e":
			ns++
		}
	}
	for _, r := range c.RCs {
		cnt(r.Kind)
	}
	for _, t := range c.Tables {
		for _, e := range t.Entries {
			cnt(e.Kind)
		}
		for _, q := range t.Queries {
			cnt(q.Kind)
		}
	}
	return &circuit{C: c, P: make([]frontend.Variable, np), S: make([]frontend.Variable, ns), X: make([]frontend.Variable, nbQueries(c))}
}

// assignment builds the witness for c with claimed lookup results x.
func assignment(c *Case, q *big.Int, x []*big.Int) *circuit {
	a := newCircuit(c)
	ip, is := 0, 0
	put := func(kind string, v *big.Int, off int64) {
		switch kind {
		case "p":
			a.P[ip] = new(big.Int).Set(v)
			ip++
		case "s":
			a.S[is] = new(big.Int).Set(v)
			is++
		case "e":
			w := new(big.Int).Sub(v, big.NewInt(off))
			a.S[is] = w.Mod(w, q)
			is++
		}
	}
	for _, r := range c.RCs {
		put(r.Kind, bigOf(r.Val), r.Off)
	}
	for _, t := range c.Tables {
		for _, e := range t.Entries {
			put(e.Kind, bigOf(e.Val), 0)
		}
		for _, qq := range t.Queries {
			put(qq.Kind, bigOf(qq.Idx), qq.Off)
		}
	}
	for i := range a.X {
		a.X[i] = new(big.Int).Set(x[i])
	}
	return a
}

// ---- oracle -------------------------------------------------------------------

const (
	qOK      = 0 // index < number of entries inserted when the query is issued
	qLenient = 1 // index addresses an entry inserted only after the query (append-only table: not specified; unsatisfiable or correct)
	qBad     = 2 // index >= final table size
)

type verdict struct {
	rcOK      []bool
	nRCBad    int
	qStatus   []int      // flattened over tables
	exp       []*big.Int // table[index] (0 for bad indices)
	nBad      int
	nLenient  int
	answered  []int // flattened positions of queries with status qOK
	repeated  bool  // some table is queried twice at the same index
	wantAcc   bool
	undecided bool // lenient queries present and nothing else wrong
}

func judge(c *Case, q *big.Int) verdict {
	var v verdict
	for _, r := range c.RCs {
		ok := bigOf(r.Val).BitLen() <= r.Bits
		v.rcOK = append(v.rcOK, ok)
		if !ok {
			v.nRCBad++
		}
	}
	for _, t := range c.Tables {
		n0, q0 := earlySplit(t)
		seen := map[string]bool{}
		for j, qq := range t.Queries {
			visible := len(t.Entries)
			if j < q0 {
				visible = n0
			}
			ix := bigOf(qq.Idx)
			st := qBad
			e := new(big.Int)
			if ix.IsInt64() && ix.Int64() < int64(len(t.Entries)) {
				e = bigOf(t.Entries[ix.Int64()].Val)
				st = qLenient
				if ix.Int64() < int64(visible) {
					st = qOK
				}
				if seen[qq.Idx] {
					v.repeated = true
				}
				seen[qq.Idx] = true
			}
			switch st {
			case qOK:
				v.answered = append(v.answered, len(v.qStatus))
			case qLenient:
				v.nLenient++
			case qBad:
				v.nBad++
			}
			v.qStatus = append(v.qStatus, st)
			v.exp = append(v.exp, e)
		}
	}
	v.wantAcc = v.nRCBad == 0 && v.nBad == 0 && v.nLenient == 0
	v.undecided = v.nRCBad == 0 && v.nBad == 0 && v.nLenient > 0
	return v
}

// replicaWidth mirrors rangecheck's limb-width choice; used only to label
// cases whose real choice cannot be observed (test engine).
func replicaWidth(builder string, rcs []RC) int {
	best, bestW := int64(-1), 0
	for w := 2; w < 18; w++ {
		nd := 0
		for _, r := range rcs {
			l := (r.Bits + w - 1) / w
			if l*w > r.Bits {
				l++
			}
			nd += l
		}
		var cost int64
		if builder == prog.SCS {
			cost = int64(3*(1<<w) + 3*nd + nd + 1)
		} else {
			cost = int64((1 << w) + nd + len(rcs) + 1)
		}
		if best < 0 || cost < best {
			best, bestW = cost, w
		}
	}
	return bestW
}

// valid returns why a case is outside the domain ("" = inside).
func (c *Case) valid() string {
	f := fieldOf(c.Field)
	if f == nil {
		return "unknown field"
	}
	if len(c.RCs) == 0 && len(c.Tables) == 0 {
		return "empty"
	}
	if c.Emu != nil && (c.Plain || f.Small || bigOf(c.Emu.A).Cmp(emuModulus) >= 0 || bigOf(c.Emu.B).Cmp(emuModulus) >= 0) {
		return "emulated multiplication needs the commit path over a curve field and reduced operands"
	}
	if c.Plain && len(c.Tables) > 0 {
		return "lookup tables need a committer"
	}
	if f.Small && !(c.Plain && len(c.Tables) == 0) {
		return "log-derivative argument over a tiny field (completeness/soundness error 1/p)"
	}
	B := f.Q.BitLen()
	inputs := 0
	for i, r := range c.RCs {
		if r.Bits < 1 || r.Bits > B+2 {
			return "width outside 1..bitlen+2"
		}
		if bigOf(r.Val).Cmp(f.Q) >= 0 || bigOf(r.Val).Sign() < 0 {
			return "non-canonical value"
		}
		switch r.Kind {
		case "s", "p", "e":
			inputs++
		case "c":
		case "r":
			if i == 0 || c.RCs[i-1].Val != r.Val {
				return "kind r without matching predecessor"
			}
		default:
			return "bad rc kind"
		}
	}
	for _, t := range c.Tables {
		if len(t.Entries) == 0 {
			return "empty table"
		}
		for _, e := range t.Entries {
			if e.Kind != "c" {
				inputs++
			}
			if bigOf(e.Val).Cmp(f.Q) >= 0 {
				return "non-canonical value"
			}
		}
		for _, q := range t.Queries {
			if q.Kind != "c" {
				inputs++
			}
			if bigOf(q.Idx).Cmp(f.Q) >= 0 {
				return "non-canonical value"
			}
		}
	}
	inputs += nbQueries(c)
	if inputs == 0 {
		return "circuit without inputs"
	}
	return ""
}

func fieldOf(name string) *prog.Field {
	for _, f := range append(prog.Curves(), prog.SmallFields()...) {
		if f.Name == name {
			f := f
			return &f
		}
	}
	return nil
}

// ---- hint plumbing --------------------------------------------------------------

const (
	decompSuffix = "rangecheck.DecomposeHint"
	countSuffix  = "logderivarg.countHint"
	emuMulSuffix = "emulated.mulHint"
)

func matchGadgetHints(name string) bool {
	return strings.HasSuffix(name, decompSuffix) || strings.HasSuffix(name, countSuffix) || strings.HasSuffix(name, emuMulSuffix)
}

// commitLog records what the commitment hint received and returned.
type commitLog struct {
	In  [][]*big.Int
	Out []*big.Int
}

// recordingCommitment is hintadv.HashCommitment() wrapped by a recorder.
func recordingCommitment(l *commitLog) solver.Option {
	inner := hintadv.HashCommitment()
	id := placeholderID()
	return func(cfg *solver.Config) error {
		if err := inner(cfg); err != nil {
			return err
		}
		h := cfg.HintFunctions[id]
		cfg.HintFunctions[id] = func(mod *big.Int, in, out []*big.Int) error {
			err := h(mod, in, out)
			cp := make([]*big.Int, len(in))
			for i := range in {
				cp[i] = new(big.Int).Set(in[i])
			}
			l.In = append(l.In, cp)
			l.Out = append(l.Out, new(big.Int).Set(out[0]))
			return err
		}
		return nil
	}
}

func placeholderID() solver.HintID {
	for _, h := range solver.GetRegisteredHints() {
		if strings.HasSuffix(solver.GetHintName(h), "Bsb22CommitmentComputePlaceholder") {
			return solver.GetHintID(h)
		}
	}
	panic("commitment placeholder hint not registered")
}

func errClass(err error) string {
	if err == nil {
		return "accepted"
	}
	s := err.Error()
	switch {
	case strings.HasPrefix(s, "PANIC"):
		return "rej:panic"
	case strings.Contains(s, "lookup query too large"):
		return "rej:lookup-index"
	case strings.Contains(s, "not in table"):
		return "rej:count-hint-error"
	case strings.Contains(s, "is not satisfied"):
		return "rej:constraint"
	}
	return "rej:other"
}

func short(err error) string {
	if err == nil {
		return "<nil>"
	}
	s := err.Error()
	if len(s) > 300 {
		s = s[:300] + "…"
	}
	return s
}

// ---- honest direction -----------------------------------------------------------

// solveOnce compiles (or uses the test engine) and solves c with claimed results x.
// compileErr is set when the circuit did not compile.
type compiled struct {
	sys prog.System
	f   prog.Field
}

func compileCase(c *Case) (*compiled, error) {
	f := *fieldOf(c.Field)
	sys, err := prog.Compile(f, c.Builder, mkCircuit(c), frontend.IgnoreUnconstrainedInputs())
	if err != nil {
		return nil, err
	}
	return &compiled{sys: sys, f: f}, nil
}

func (k *compiled) solve(c *Case, x []*big.Int, opts ...solver.Option) error {
	w, err := prog.Witness(k.f, mkAssignment(c, k.f.Q, x))
	if err != nil {
		return fmt.Errorf("HARNESS witness: %w", err)
	}
	_, err = prog.Solve(k.sys, w, opts...)
	return err
}

func engineSolve(c *Case, x []*big.Int) error {
	f := *fieldOf(c.Field)
	return test.IsSolved(mkCircuit(c), mkAssignment(c, f.Q, x), f.Q)
}

func widthClass(n, B int) string {
	switch {
	case n == 1:
		return "w:1"
	case n <= 8:
		return "w:2-8"
	case n < 64:
		return "w:9-63"
	case n == 64:
		return "w:64"
	case n < B-1:
		return "w:65..bitlen-2"
	case n == B-1:
		return "w:bitlen-1"
	case n == B:
		return "w:bitlen"
	default:
		return "w:>bitlen"
	}
}

func sizeClass(prefix string, n int) string {
	switch {
	case n == 0:
		return prefix + ":0"
	case n == 1:
		return prefix + ":1"
	case n <= 5:
		return prefix + ":2-5"
	case n <= 20:
		return prefix + ":6-20"
	default:
		return prefix + ":21+"
	}
}

// isInvPow2Multiple tells whether v = k * 2^(-s) mod q for some s in 1..40 and k < 2^24
// (a huge integer that a multiplication by a small power of two makes small).
func isInvPow2Multiple(v, q *big.Int) bool {
	x := new(big.Int).Set(v)
	for s := 1; s <= 40; s++ {
		x.Lsh(x, 1)
		x.Mod(x, q)
		if x.BitLen() <= 24 {
			return true
		}
	}
	return false
}

// shapeClasses labels the static shape of a case.
func shapeClasses(c *Case, v verdict, B int) []string {
	set := map[string]bool{"field:" + c.Field: true, "builder:" + c.Builder: true}
	if len(c.RCs) > 0 {
		if c.Plain {
			set["path:plain"] = true
		} else {
			set["path:commit"] = true
		}
		set[sizeClass("nrc", len(c.RCs))] = true
	}
	for i, r := range c.RCs {
		set[widthClass(r.Bits, B)] = true
		set["rckind:"+r.Kind] = true
		val := bigOf(r.Val)
		if !v.rcOK[i] {
			set["rc:out-of-range"] = true
			if B > 64 && isInvPow2Multiple(val, fieldOf(c.Field).Q) {
				set["rcval:k*2^-s"] = true
			}
			if val.BitLen() == r.Bits+1 && val.TrailingZeroBits() == uint(r.Bits) {
				set["rcval:2^n"] = true
			}
		} else if val.BitLen() == r.Bits && new(big.Int).Add(val, big.NewInt(1)).BitLen() == r.Bits+1 {
			set["rcval:2^n-1"] = true
		}
	}
	for _, t := range c.Tables {
		set[sizeClass("tblsize", len(t.Entries))] = true
		set[sizeClass("nqueries", len(t.Queries))] = true
		nc := 0
		for _, e := range t.Entries {
			if e.Kind == "c" {
				nc++
			}
		}
		switch {
		case nc == len(t.Entries):
			set["tbl:const"] = true
		case nc == 0:
			set["tbl:variable"] = true
		default:
			set["tbl:mixed"] = true
		}
		if n0, q0 := earlySplit(t); q0 > 0 && n0 < len(t.Entries) {
			set["tbl:query-before-last-insert"] = true
		}
		for _, q := range t.Queries {
			set["qkind:"+q.Kind] = true
			ix := bigOf(q.Idx)
			switch {
			case ix.Sign() == 0:
				set["q:index0"] = true
			case ix.IsInt64() && ix.Int64() == int64(len(t.Entries))-1:
				set["q:last"] = true
			case ix.IsInt64() && ix.Int64() == int64(len(t.Entries)):
				set["q:size"] = true
			case ix.IsInt64() && ix.Int64() == int64(len(t.Entries))+1:
				set["q:size+1"] = true
			case ix.BitLen() >= B-1:
				set["q:huge"] = true
			}
		}
	}
	if v.repeated {
		set["q:repeated"] = true
	}
	if v.nBad > 0 {
		set["q:out-of-range"] = true
	}
	if v.nLenient > 0 {
		set["q:not-yet-inserted"] = true
	}
	if len(c.RCs) > 0 && len(c.Tables) > 0 {
		set["gadgets:rc+lookup"] = true
	}
	var r []string
	for k := range set {
		r = append(r, k)
	}
	return r
}

// run is the honest direction: accepted <=> every checked value is in range and
// every index addresses an inserted entry, and a wrong claimed lookup result is
// rejected.
func run(cc Case) ev.Outcome {
	c := &cc
	if why := c.valid(); why != "" {
		return ev.Outcome{Discard: true, DiscardWhy: why}
	}
	f := *fieldOf(c.Field)
	B := f.Q.BitLen()
	v := judge(c, f.Q)
	classes := shapeClasses(c, v, B)
	where := fmt.Sprintf("[field=%s builder=%s plain=%v]", c.Field, c.Builder, c.Plain)

	// observed limb width (compiled systems only)
	obsWidth := 0
	var sopts []solver.Option
	var k *compiled
	var err error
	if c.Builder != "engine" {
		k, err = compileCase(c)
		if err != nil {
			if v.wantAcc || v.undecided {
				return ev.Outcome{Violation: fmt.Sprintf("%s all values in range and all indices valid, but Compile failed: %s", where, short(err))}
			}
			classes = append(classes, "rej:compile")
			return ev.Outcome{Classes: classes, NonTrivial: false}
		}
		if !f.Small {
			sopts = append(sopts, hintadv.HashCommitment())
		}
		sopts = append(sopts, solver.OverrideHint(solver.GetHintID(rangecheck.DecomposeHint), func(m *big.Int, in, out []*big.Int) error {
			if len(in) == 3 && in[1].IsInt64() {
				obsWidth = int(in[1].Int64())
			}
			return rangecheck.DecomposeHint(m, in, out)
		}), solver.WithNbTasks(1))
	}
	solve := func(x []*big.Int) error {
		if c.Builder == "engine" {
			return engineSolve(c, x)
		}
		return k.solve(c, x, sopts...)
	}
	err = solve(v.exp)
	if err != nil && strings.HasPrefix(err.Error(), "HARNESS") {
		return ev.Outcome{Discard: true, DiscardWhy: "harness: " + short(err)}
	}
	acc := err == nil
	what := fmt.Sprintf("%d/%d checked values out of range, %d bad indices, %d not-yet-inserted indices", v.nRCBad, len(c.RCs), v.nBad, v.nLenient)
	switch {
	case v.wantAcc && !acc:
		return ev.Outcome{Violation: fmt.Sprintf("%s %s, yet rejected: %s", where, what, short(err))}
	case !v.wantAcc && !v.undecided && acc:
		return ev.Outcome{Violation: fmt.Sprintf("%s %s, yet accepted", where, what)}
	}
	if acc {
		classes = append(classes, "accepted")
	} else if c.Builder == "engine" {
		classes = append(classes, "rejected")
	} else {
		classes = append(classes, errClass(err))
	}
	// negative control: a wrong claimed result for an answered query must be rejected
	if acc && len(v.answered) > 0 {
		pos := v.answered[((c.BadOut%len(v.answered))+len(v.answered))%len(v.answered)]
		bad := make([]*big.Int, len(v.exp))
		copy(bad, v.exp)
		bad[pos] = new(big.Int).Add(v.exp[pos], big.NewInt(1))
		bad[pos].Mod(bad[pos], f.Q)
		if e := solve(bad); e == nil {
			return ev.Outcome{Violation: fmt.Sprintf("%s lookup #%d accepted with claimed result %s instead of %s", where, pos, bad[pos], v.exp[pos])}
		}
		classes = append(classes, "wrong-result-rejected")
	}
	// non-trivial: commit path with a width that is not a multiple of the chosen limb size, or a repeated query
	w := obsWidth
	if c.Builder == "engine" && !c.Plain && len(c.RCs) > 0 {
		w = replicaWidth(prog.R1CS, c.RCs)
	}
	nt := v.repeated
	if w > 0 && !c.Plain {
		classes = append(classes, fmt.Sprintf("limbwidth:%d", w))
		for _, r := range c.RCs {
			if r.Bits%w != 0 {
				nt = true
				classes = append(classes, "width-not-multiple-of-limb")
				break
			}
		}
		for i, r := range c.RCs {
			if r.Bits >= w {
				continue
			}
			classes = append(classes, "width<limbwidth")
			// the value an aligning multiplication by 2^(limb-width) would send into the table
			if al := new(big.Int).Lsh(bigOf(r.Val), uint(w-r.Bits)); !v.rcOK[i] && al.Mod(al, f.Q).BitLen() <= w {
				classes = append(classes, "width<limbwidth:value*2^(limb-width)-in-table")
			}
		}
		if c.Builder != "engine" && obsWidth != replicaWidth(c.Builder, c.RCs) {
			classes = append(classes, "limbwidth-differs-from-replica")
		}
	}
	if c.Plain {
		// plain path: boundary values are what matters
		for i, r := range c.RCs {
			bl := bigOf(r.Val).BitLen()
			if bl == r.Bits || bl == r.Bits+1 || !v.rcOK[i] {
				nt = true
			}
		}
	}
	return ev.Outcome{Classes: classes, NonTrivial: nt}
}

func TestReplay(t *testing.T) { ev.Replay(t) }

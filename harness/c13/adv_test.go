package c13

import (
	"fmt"
	"math/big"
	"strings"

	"verifharness/lib/ev"
	"verifharness/lib/hintadv"

	"github.com/consensys/gnark/constraint/solver"
)

// decompCall / countCall are the recorded invocations of the two gadget hints.
type decompCall struct {
	Bits, Limb int
	Val        *big.Int
	Out        []*big.Int // as returned to the solver (after forging)
	Forged     bool
}

type countCall struct {
	NbTable, NbRow int
	Table, Queries [][]*big.Int
	Out            []*big.Int
	GenuineErr     bool
	Cleared        bool
}

type hintLog struct {
	Decomp []decompCall
	Count  []countCall
	EmuOut [][]*big.Int // outputs of the emulated multiplication hint (quotient, remainder, carries)
}

func cloneInts(in []*big.Int) []*big.Int {
	r := make([]*big.Int, len(in))
	for i := range in {
		r[i] = new(big.Int).Set(in[i])
	}
	return r
}

func rowKey(row []*big.Int) string {
	var sb strings.Builder
	for _, x := range row {
		sb.WriteString(x.String())
		sb.WriteByte(',')
	}
	return sb.String()
}

// forgeLimbs overwrites the outputs of a DecomposeHint call for an out-of-range
// value so that the recomposition equality sum limb_j 2^(b j) == v holds in the field.
func forgeLimbs(adv *Adv, mod *big.Int, b int, v *big.Int, out []*big.Int) {
	L := len(out)
	V := new(big.Int).Set(v)
	if adv.Limb == "vplusp" {
		V.Add(V, mod)
	}
	base := new(big.Int).Lsh(big.NewInt(1), uint(b))
	for i := 0; i < L-1; i++ {
		out[i].Mod(V, base)
		V.Rsh(V, uint(b))
	}
	out[L-1].Set(V) // the most significant limb takes the rest
	if adv.Limb == "carry" && L >= 2 {
		j := ((adv.J % (L - 1)) + (L - 1)) % (L - 1)
		out[j].Add(out[j], base)
		out[j+1].Sub(out[j+1], big.NewInt(1))
	}
}

// forgeCounts overwrites the multiplicities of a countHint call whose genuine
// run failed because a query is not in the table.
func forgeCounts(adv *Adv, mod *big.Int, cc *countCall, out []*big.Int, root *big.Int) {
	pos := map[string]int{}
	for i, r := range cc.Table {
		pos[rowKey(r)] = i
	}
	h := make([]*big.Int, cc.NbTable)
	for i := range h {
		h[i] = new(big.Int)
	}
	var absent [][]*big.Int
	one := big.NewInt(1)
	for _, q := range cc.Queries {
		if i, ok := pos[rowKey(q)]; ok {
			h[i].Add(h[i], one)
		} else {
			absent = append(absent, q)
		}
	}
	switch adv.Count {
	case "zero":
		for i := range h {
			h[i].SetInt64(0)
		}
	case "ones":
		for i := range h {
			h[i].SetInt64(1)
		}
	case "plus":
		// attribute every absent query to the entry with the same residue
		for _, q := range absent {
			k := new(big.Int).Mod(q[0], big.NewInt(int64(cc.NbTable))).Int64()
			h[k].Add(h[k], one)
		}
	case "minus":
		for i := range h {
			if h[i].Sign() > 0 {
				h[i].Sub(h[i], one)
				break
			}
		}
	case "shift":
		last := h[len(h)-1]
		copy(h[1:], h[:len(h)-1])
		h[0] = last
	case "solve":
		// second pass of the two-pass attack: with the challenge x learnt in the
		// first pass, choose m_0 so that sum_f m_f/(x-f) == sum_s 1/(x-s). This
		// succeeds iff x does not depend on the multiplicities.
		if root != nil && cc.NbRow == 1 {
			x := root
			sum := new(big.Int)
			ok := true
			for _, q := range absent {
				d := new(big.Int).Sub(x, q[0])
				d.Mod(d, mod)
				if d.Sign() == 0 {
					ok = false
					break
				}
				sum.Add(sum, d.ModInverse(d, mod))
			}
			if ok {
				d0 := new(big.Int).Sub(x, cc.Table[0][0])
				sum.Mul(sum, d0)
				h[0].Add(h[0], sum)
				h[0].Mod(h[0], mod)
			}
		}
	}
	for i := range out {
		out[i].Set(h[i])
	}
}

// advPass solves once under the adversary. root is the commitment learnt in a
// previous pass (strategy "solve").
func advPass(k *compiled, c *Case, x []*big.Int, adv *Adv, root *big.Int) (error, *hintLog, *commitLog, *hintadv.Session) {
	hl := &hintLog{}
	cl := &commitLog{}
	strat := func(call *hintadv.Call) bool {
		switch {
		case strings.HasSuffix(call.Name, decompSuffix):
			if len(call.Inputs) != 3 {
				return false
			}
			dc := decompCall{Bits: int(call.Inputs[0].Int64()), Limb: int(call.Inputs[1].Int64()), Val: new(big.Int).Set(call.Inputs[2])}
			if call.Err == nil && adv != nil && adv.Limb != "none" && adv.Limb != "" && dc.Val.BitLen() > dc.Bits {
				forgeLimbs(adv, call.Mod, dc.Limb, dc.Val, call.Outputs)
				dc.Forged = true
			}
			for _, o := range call.Outputs {
				dc.Out = append(dc.Out, new(big.Int).Mod(o, call.Mod))
			}
			hl.Decomp = append(hl.Decomp, dc)
			return dc.Forged
		case strings.HasSuffix(call.Name, emuMulSuffix):
			hl.EmuOut = append(hl.EmuOut, cloneInts(call.Outputs))
			return false
		case strings.HasSuffix(call.Name, countSuffix):
			in := call.Inputs
			if len(in) < 2 || !in[0].IsInt64() || !in[1].IsInt64() {
				return false
			}
			cc := countCall{NbTable: int(in[0].Int64()), NbRow: int(in[1].Int64()), GenuineErr: call.Err != nil}
			rest := in[2:]
			if cc.NbRow <= 0 || len(rest) < cc.NbTable*cc.NbRow || len(rest)%cc.NbRow != 0 {
				return false
			}
			for i := 0; i+cc.NbRow <= len(rest); i += cc.NbRow {
				row := cloneInts(rest[i : i+cc.NbRow])
				if i/cc.NbRow < cc.NbTable {
					cc.Table = append(cc.Table, row)
				} else {
					cc.Queries = append(cc.Queries, row)
				}
			}
			if cc.GenuineErr && adv != nil && adv.Count != "none" && adv.Count != "" && len(call.Outputs) == cc.NbTable {
				forgeCounts(adv, call.Mod, &cc, call.Outputs, root)
				call.Err = nil
				cc.Cleared = true
			}
			for _, o := range call.Outputs {
				cc.Out = append(cc.Out, new(big.Int).Mod(o, call.Mod))
			}
			hl.Count = append(hl.Count, cc)
			return cc.Cleared
		}
		return false
	}
	sess, opts := hintadv.Options(strat, matchGadgetHints)
	opts = append(opts, solver.WithNbTasks(1), recordingCommitment(cl))
	err := k.solve(c, x, opts...)
	return err, hl, cl, sess
}

// runAdv is the adversarial direction: with a value out of range, no choice of
// limbs and multiplicities makes the compiled system satisfiable.
func runAdv(cc Case) ev.Outcome {
	c := &cc
	if why := c.valid(); why != "" {
		return ev.Outcome{Discard: true, DiscardWhy: why}
	}
	f := *fieldOf(c.Field)
	if c.Adv == nil || c.Plain || c.Builder == "engine" || f.Small || len(c.RCs) == 0 {
		return ev.Outcome{Discard: true, DiscardWhy: "adversary needs a compiled commit-path system over a curve field"}
	}
	v := judge(c, f.Q)
	if v.nBad > 0 || v.nLenient > 0 {
		return ev.Outcome{Discard: true, DiscardWhy: "adversarial cases keep lookup indices valid"}
	}
	where := fmt.Sprintf("[field=%s builder=%s limb=%s count=%s]", c.Field, c.Builder, c.Adv.Limb, c.Adv.Count)
	classes := append(shapeClasses(c, v, f.Q.BitLen()), "adv-limb:"+c.Adv.Limb, "adv-count:"+c.Adv.Count)
	k, err := compileCase(c)
	if err != nil {
		if v.nRCBad == 0 {
			return ev.Outcome{Violation: fmt.Sprintf("%s all values in range, but Compile failed: %s", where, short(err))}
		}
		return ev.Outcome{Classes: append(classes, "rej:compile")}
	}
	adv := *c.Adv
	var root *big.Int
	if adv.Count == "solve" {
		// first pass: same forged limbs, multiplicities of the in-table queries; learn the commitment
		first := adv
		first.Count = "lenient"
		e1, _, cl1, _ := advPass(k, c, v.exp, &first, nil)
		if e1 == nil && v.nRCBad > 0 {
			return ev.Outcome{Violation: fmt.Sprintf("%s %d/%d checked values out of range, yet accepted (first pass of the two-pass attack)", where, v.nRCBad, len(c.RCs))}
		}
		if len(cl1.Out) > 0 {
			root = cl1.Out[0]
		}
	}
	err, hl, cl, sess := advPass(k, c, v.exp, &adv, root)
	if err != nil && strings.HasPrefix(err.Error(), "HARNESS") {
		return ev.Outcome{Discard: true, DiscardWhy: "harness: " + short(err)}
	}
	forged, cleared := 0, 0
	for _, d := range hl.Decomp {
		if d.Forged {
			forged++
		}
	}
	for _, cc := range hl.Count {
		if cc.Cleared {
			cleared++
		}
	}
	if v.nRCBad == 0 {
		// control: nothing to forge, the hash commitment alone must not break honest runs
		if sess.Changed != 0 {
			return ev.Outcome{Discard: true, DiscardWhy: "harness: strategy acted on an all-in-range case"}
		}
		if err != nil {
			return ev.Outcome{Violation: fmt.Sprintf("%s all values in range and unmodified hints, yet rejected: %s", where, short(err))}
		}
		return ev.Outcome{Classes: append(classes, "adv:control-accepted")}
	}
	if err == nil {
		return ev.Outcome{Violation: fmt.Sprintf("%s %d/%d checked values out of range, yet accepted with %d forged decompositions and %d forged multiplicity vectors (commitment inputs %d)",
			where, v.nRCBad, len(c.RCs), forged, cleared, len(cl.In))}
	}
	classes = append(classes, errClass(err))
	if len(hl.Decomp) > 0 {
		classes = append(classes, fmt.Sprintf("limbwidth:%d", hl.Decomp[0].Limb))
	}
	// non-trivial: forged limbs pass the recomposition equality and the count hint's own
	// refusal is overridden, so only the multiset argument is left to reject
	nt := forged > 0 && cleared > 0 && errClass(err) == "rej:constraint"
	if nt {
		classes = append(classes, "only-argument-rejects")
	}
	if adv.Count == "solve" && root != nil && cleared > 0 {
		classes = append(classes, "two-pass-attack-run")
	}
	return ev.Outcome{Classes: classes, NonTrivial: nt}
}

package c12

// Variable-modulus operations (custommod.go): ModMul, ModAdd, ModExp, ModAssertIsEqual with the modulus given
// as a witness element, over the ring parameter sets Mod1e256 / Mod1e512. The model tracks every element's
// residue modulo the variable modulus M; results only have to be congruent modulo M.

import (
	"encoding/json"
	"fmt"
	"math/big"
	"strings"
	"testing"

	"verifharness/lib/ev"
	"verifharness/lib/hintadv"
	"verifharness/lib/prog"

	"github.com/consensys/gnark/constraint/solver"
	"github.com/consensys/gnark/frontend"
	"github.com/consensys/gnark/std/math/emulated"
	"github.com/consensys/gnark/std/math/emulated/emparams"
	"github.com/consensys/gnark/test"
	"pgregory.net/rapid"
)

// VCase is a case of the variable-modulus check.
type VCase struct {
	Params  string    `json:"params"` // mod1e256 | mod1e512
	Native  string    `json:"native"`
	Mode    string    `json:"mode"` // vengine | vcompiled | vadv
	Builder string    `json:"builder,omitempty"`
	M       string    `json:"m"`  // the variable modulus (witness)
	In      []string  `json:"in"` // witness values, decimal
	Ops     []Op      `json:"ops"`
	Adv     [][]Strat `json:"adv,omitempty"`
}

type vparams struct {
	Name    string
	ps      *paramSet // W, N, Q of the ring type
	engine  func(c *VCase, pr *probe, native *big.Int) error
	circuit func(c *VCase, pr *probe) frontend.Circuit
	assign  func(c *VCase) frontend.Circuit
}

type vcircuit[T emulated.FieldParams] struct {
	Mod emulated.Element[T]
	In  []emulated.Element[T]

	c  *VCase `gnark:"-"`
	pr *probe `gnark:"-"`
}

func vOps(c *VCase) (opnds [][]int, opElem []int, skip []bool) {
	n := len(c.In)
	for _, o := range c.Ops {
		ok := n > 0 && len(o.A) >= 2
		var a []int
		if ok {
			for _, x := range o.A[:2] {
				if x < 0 {
					x = -x
				}
				a = append(a, x%n)
			}
		}
		switch o.Op {
		case "ModMul", "ModAdd":
		case "ModExp":
			ok = ok && a[1] < len(c.In) // the exponent must have a documented bit representation: an input
		case "ModAssertIsEqual":
		default:
			ok = false
		}
		skip = append(skip, !ok)
		opnds = append(opnds, a)
		if ok && o.Op != "ModAssertIsEqual" {
			opElem = append(opElem, n)
			n++
		} else {
			opElem = append(opElem, -1)
		}
	}
	return
}

func (ci *vcircuit[T]) Define(api frontend.API) error {
	f, err := emulated.NewField[T](api)
	if err != nil {
		return err
	}
	c, pr := ci.c, ci.pr
	pr.resetMeta()
	opnds, opElem, skip := vOps(c)
	var pool []*emulated.Element[T]
	for i := range ci.In {
		pool = append(pool, &ci.In[i])
		pr.observeElem(api, i, ci.In[i].Limbs, &ci.In[i])
	}
	for i, o := range c.Ops {
		if skip[i] {
			continue
		}
		a, b := pool[opnds[i][0]], pool[opnds[i][1]]
		var res *emulated.Element[T]
		switch o.Op {
		case "ModMul":
			res = f.ModMul(a, b, &ci.Mod)
		case "ModAdd":
			res = f.ModAdd(a, b, &ci.Mod)
		case "ModExp":
			res = f.ModExp(a, b, &ci.Mod)
		case "ModAssertIsEqual":
			f.ModAssertIsEqual(a, b, &ci.Mod)
		}
		if opElem[i] >= 0 {
			pool = append(pool, res)
			pr.observeElem(api, opElem[i], res.Limbs, res)
		}
	}
	return nil
}

func mkVParams[T emulated.FieldParams](name string) *vparams {
	ps := mkParams[T](name)
	vp := &vparams{Name: name, ps: ps}
	vp.circuit = func(c *VCase, pr *probe) frontend.Circuit {
		return &vcircuit[T]{In: make([]emulated.Element[T], len(c.In)), c: c, pr: pr}
	}
	vp.assign = func(c *VCase) frontend.Circuit {
		a := &vcircuit[T]{Mod: emulated.Element[T]{Limbs: toVars(limbsOfBig(bigOf(c.M), ps))}}
		for _, v := range c.In {
			a.In = append(a.In, emulated.Element[T]{Limbs: toVars(limbsOfBig(bigOf(v), ps))})
		}
		return a
	}
	vp.engine = func(c *VCase, pr *probe, native *big.Int) error {
		return test.IsSolved(vp.circuit(c, pr), vp.assign(c), native)
	}
	return vp
}

func limbsOfBig(v *big.Int, ps *paramSet) []*big.Int {
	l := make([]*big.Int, ps.N)
	t := new(big.Int).Set(v)
	mask := new(big.Int).Sub(pow2(ps.W), big.NewInt(1))
	for i := range l {
		l[i] = new(big.Int).And(t, mask)
		t.Rsh(t, ps.W)
	}
	return l
}

func toVars(l []*big.Int) []frontend.Variable {
	r := make([]frontend.Variable, len(l))
	for i := range l {
		r[i] = l[i]
	}
	return r
}

var allVParams = []*vparams{mkVParams[emparams.Mod1e256]("mod1e256"), mkVParams[emparams.Mod1e512]("mod1e512")}

func vparamsByName(n string) *vparams {
	for _, p := range allVParams {
		if p.Name == n {
			return p
		}
	}
	return nil
}

// vModel: residues modulo M; failAt = first ModAssertIsEqual on incongruent operands.
func vModel(c *VCase) (pool []*big.Int, failAt int) {
	M := bigOf(c.M)
	failAt = -1
	for _, v := range c.In {
		pool = append(pool, new(big.Int).Mod(bigOf(v), M))
	}
	opnds, opElem, skip := vOps(c)
	for i, o := range c.Ops {
		if skip[i] {
			continue
		}
		a, b := pool[opnds[i][0]], pool[opnds[i][1]]
		var r *big.Int
		switch o.Op {
		case "ModMul":
			r = new(big.Int).Mul(a, b)
		case "ModAdd":
			r = new(big.Int).Add(a, b)
		case "ModExp":
			// the exponent is the integer carried by the input element, not its residue
			r = new(big.Int).Exp(a, bigOf(c.In[opnds[i][1]]), M)
		case "ModAssertIsEqual":
			if a.Cmp(b) != 0 && failAt < 0 {
				failAt = i
			}
		}
		if opElem[i] >= 0 {
			pool = append(pool, r.Mod(r, M))
		}
	}
	return
}

func vCheckObs(c *VCase, vp *vparams, pool []*big.Int, pr *probe) string {
	pr.mu.Lock()
	defer pr.mu.Unlock()
	M := bigOf(c.M)
	_, opElem, _ := vOps(c)
	for idx := range pool {
		limbs, ok := pr.vals[idx]
		if !ok {
			return fmt.Sprintf("harness: no observation for pool %d", idx)
		}
		val := recompose(limbs, vp.ps.W)
		what := fmt.Sprintf("input %d", idx)
		for i, e := range opElem {
			if e == idx {
				what = fmt.Sprintf("result of op %d (%s)", i, c.Ops[i].Op)
			}
		}
		if new(big.Int).Mod(val, M).Cmp(pool[idx]) != 0 {
			return fmt.Sprintf("%s: limbs %v recompose to %s, not congruent to the model value %s modulo the variable modulus %s", what, limbs, val, pool[idx], M)
		}
		if mt := pr.meta[idx]; mt.OK {
			for j, l := range limbs {
				if l.BitLen() > int(vp.ps.W)+int(mt.Of) {
					return fmt.Sprintf("%s: limb %d = %s has %d bits > BitsPerLimb %d + tracked overflow %d (bookkeeping invariant)", what, j, l, l.BitLen(), vp.ps.W, mt.Of)
				}
			}
		}
	}
	return ""
}

// subPadding strategies: the padding must be a multiple of the modulus and dominate every limb.
func applySubPadding(c *hintadv.Call, s Strat) (changed bool) {
	in := c.Inputs
	if len(in) < 4 || c.Err != nil {
		return false
	}
	n := int(in[0].Int64())
	w := uint(in[1].Uint64())
	of := uint(in[2].Uint64())
	if len(in) < 4+n {
		return false
	}
	p := recompose(in[4:4+n], w)
	out := c.Outputs
	switch s.Kind {
	case "pad+1":
		d := int64(s.D)
		if d == 0 {
			d = 1
		}
		out[0].Add(out[0], big.NewInt(d))
		return true
	case "pad-mod":
		// still a multiple of the modulus, but the low limb drops below the bound
		out[0].Sub(out[0], p)
		return true
	case "pad-zero":
		for i := range out {
			out[i].SetUint64(0)
		}
		return true
	case "pad-short":
		// the padding computed for one bit of overflow less: a multiple of the modulus whose limbs are too small
		if of+w == 0 || p.Sign() == 0 {
			return false
		}
		nl := make([]*big.Int, len(out))
		for i := range nl {
			nl[i] = pow2(of + w - 1)
		}
		t := recompose(nl, w)
		t.Mod(t, p)
		t.Sub(p, t)
		dec := make([]*big.Int, len(out))
		for i := range dec {
			dec[i] = new(big.Int)
		}
		if !decomposeInto(t, w, dec) {
			return false
		}
		for i := range out {
			out[i].Add(dec[i], nl[i])
		}
		return true
	}
	return false
}

func vStrategy(strats []Strat, counts map[string]int, ps *paramSet, au *advAudit) hintadv.Strategy {
	base := strategy(strats, counts, ps, au)
	return func(c *hintadv.Call) bool {
		changed := base(c)
		if hintShort(c.Name) == "subPaddingHint" {
			for _, s := range strats {
				n := counts["subPaddingHint"]
				if s.Hint != "subPaddingHint" || n <= 0 {
					continue
				}
				if seqTarget(s.Seq, n) != c.Seq {
					continue
				}
				if applySubPadding(c, s) {
					au.applied = append(au.applied, "subPaddingHint:"+s.Kind)
					au.nonMulChange = true
					changed = true
				}
			}
		}
		return changed
	}
}

func vrun(c VCase, rec *ev.Recorder) ev.Outcome {
	vp := vparamsByName(c.Params)
	nf, ok := nativeField(c.Native)
	M := bigOf(c.M)
	if vp == nil || !ok || len(c.In) == 0 || M.Cmp(big.NewInt(2)) < 0 || M.BitLen() > int(vp.ps.N*vp.ps.W) {
		return ev.Outcome{Discard: true, DiscardWhy: "malformed case"}
	}
	for _, v := range c.In {
		if bigOf(v).BitLen() > int(vp.ps.N*vp.ps.W) || bigOf(v).Sign() < 0 {
			return ev.Outcome{Discard: true, DiscardWhy: "malformed case"}
		}
	}
	pool, failAt := vModel(&c)
	classes := map[string]bool{"params:" + c.Params: true, "native:" + c.Native: true, "mode:" + c.Mode: true}
	for _, o := range c.Ops {
		classes["op:"+o.Op] = true
	}
	if failAt >= 0 {
		classes["expected-fail"] = true
	}
	switch {
	case M.Cmp(vp.ps.Q) == 0:
		classes["modulus:ring-max"] = true
	case M.BitLen() <= 64:
		classes["modulus:one-limb"] = true
	case M.Bit(0) == 0:
		classes["modulus:even"] = true
	default:
		classes["modulus:multi-limb-odd"] = true
	}
	list := func() []string {
		var l []string
		for k := range classes {
			l = append(l, k)
		}
		return l
	}
	judge := func(where string, err error, pr *probe) string {
		if isHarnessErr(err) {
			panic(err)
		}
		if err == nil {
			if failAt >= 0 {
				return fmt.Sprintf("%s accepted although op %d (ModAssertIsEqual) compares values that differ modulo %s", where, failAt, c.M)
			}
			msg := vCheckObs(&c, vp, pool, pr)
			if strings.HasPrefix(msg, "harness:") {
				panic(msg)
			}
			if msg != "" {
				return where + " " + msg
			}
			return ""
		}
		if failAt >= 0 {
			classes["rejected-as-documented"] = true
			return ""
		}
		return fmt.Sprintf("%s: the model satisfies all assertions but the honest execution failed: %s", where, trunc(err.Error(), 600))
	}
	nontrivial := len(c.Ops) >= 2
	switch c.Mode {
	case "vengine":
		pr := newProbe()
		defer pr.release()
		if v := judge("[test engine]", vp.engine(&c, pr, nf.Q), pr); v != "" {
			return ev.Outcome{Violation: v}
		}
	case "vcompiled", "vadv":
		builders := []string{prog.R1CS, prog.SCS}
		if c.Mode == "vadv" {
			builders = []string{c.Builder}
			if c.Builder != prog.SCS {
				builders = []string{prog.R1CS}
			}
		}
		for _, b := range builders {
			pr := newProbe()
			defer pr.release()
			where := fmt.Sprintf("[%s %s/%s]", c.Mode, b, c.Native)
			sys, err := prog.Compile(nf, b, vp.circuit(&c, pr), frontend.IgnoreUnconstrainedInputs())
			if isHarnessErr(err) {
				panic(err)
			}
			if err != nil {
				return ev.Outcome{Violation: fmt.Sprintf("%s Compile failed: %s", where, trunc(err.Error(), 600))}
			}
			w, err := prog.Witness(nf, vp.assign(&c))
			if err != nil {
				panic("harness: witness: " + err.Error())
			}
			au0 := &advAudit{counts: map[string]int{}}
			_, opts := hintadv.Options(vStrategy(nil, nil, vp.ps, au0), isEmulatedHint)
			opts = append(opts, solver.WithNbTasks(1), hintadv.HashCommitment())
			_, serr := prog.Solve(sys, w, opts...)
			if v := judge(where+" honest hints", serr, pr); v != "" {
				return ev.Outcome{Violation: v}
			}
			if c.Mode != "vadv" {
				continue
			}
			for si, set := range c.Adv {
				pr.resetValues()
				au := &advAudit{}
				_, opts := hintadv.Options(vStrategy(set, au0.counts, vp.ps, au), isEmulatedHint)
				opts = append(opts, solver.WithNbTasks(1), hintadv.HashCommitment())
				_, serr := prog.Solve(sys, w, opts...)
				if rec != nil {
					rec.AddExtra("adversarial_solves", 1)
				}
				label := "none"
				if len(set) > 0 {
					label = set[0].Hint + ":" + set[0].Kind
				}
				if len(au.applied) == 0 {
					classes["vadv:"+label+":not-applied"] = true
					continue
				}
				nontrivial = true
				if serr != nil {
					if strings.HasPrefix(serr.Error(), "PANIC") {
						return ev.Outcome{Violation: fmt.Sprintf("%s strategies %v: %s", where, set, trunc(serr.Error(), 500))}
					}
					classes["vadv:"+label+":rejected"] = true
					continue
				}
				bad := ""
				if failAt >= 0 {
					bad = fmt.Sprintf("op %d (ModAssertIsEqual) compares values that differ modulo %s, but the circuit is satisfiable", failAt, c.M)
				} else if msg := vCheckObs(&c, vp, pool, pr); msg != "" {
					if strings.HasPrefix(msg, "harness:") {
						panic(msg)
					}
					bad = msg
				}
				if bad == "" {
					classes["vadv:"+label+":accepted-congruent"] = true
					continue
				}
				full := fmt.Sprintf("%s solve %d with rewritten hint outputs %v (applied %v) is accepted: %s", where, si, set, au.applied, bad)
				if au.intFalse && !au.outOfRange && !au.nonMulChange {
					if kf, ok := ev.OpenFinding(ID, sigCarries); ok {
						if rec != nil {
							rec.Note("known finding %s reproduced (variable modulus): %s", kf.ID, trunc(full, 700))
						}
						return ev.Outcome{Known: kf.ID, Discard: true, DiscardWhy: "known finding " + kf.ID + " (unchecked carries)"}
					}
					return ev.Outcome{Violation: full + " [signature " + sigCarries + "]"}
				}
				return ev.Outcome{Violation: full}
			}
		}
	default:
		return ev.Outcome{Discard: true, DiscardWhy: "unknown mode"}
	}
	return ev.Outcome{NonTrivial: nontrivial, Classes: list()}
}

func genVCase(mode string, natives []string) *rapid.Generator[VCase] {
	return rapid.Custom(func(t *rapid.T) VCase {
		vp := vparamsByName(rapid.SampledFrom([]string{"mod1e256", "mod1e256", "mod1e512"}).Draw(t, "params"))
		c := VCase{Params: vp.Name, Native: rapid.SampledFrom(natives).Draw(t, "native"), Mode: mode}
		bits := int(vp.ps.N * vp.ps.W)
		// modulus classes: small prime, one limb, 2^k, multi-limb odd, even, the ring maximum
		var M *big.Int
		switch rapid.IntRange(0, 6).Draw(t, "mclass") {
		case 0:
			M = big.NewInt(4294967311)
		case 1:
			M = drawBig(t, 64, "m")
		case 2:
			M = pow2(uint(rapid.IntRange(1, bits-1).Draw(t, "mk")))
		case 3, 4:
			M = drawBig(t, rapid.IntRange(65, bits/2).Draw(t, "mbits"), "m")
			M.SetBit(M, 0, 1)
		case 5:
			M = drawBig(t, bits/2, "m")
			M.SetBit(M, 0, 0)
		case 6:
			M = new(big.Int).Set(vp.ps.Q)
		}
		if M.Cmp(big.NewInt(2)) < 0 {
			M = big.NewInt(2)
		}
		c.M = M.String()
		nIn := rapid.IntRange(2, 4).Draw(t, "nin")
		for i := 0; i < nIn; i++ {
			var v *big.Int
			switch rapid.IntRange(0, 6).Draw(t, "vclass") {
			case 0:
				v = new(big.Int)
			case 1:
				v = big.NewInt(1)
			case 2:
				v = new(big.Int).Sub(M, big.NewInt(1))
			case 3:
				v = new(big.Int).Set(M)
			case 4:
				v = new(big.Int).Sub(pow2(uint(bits/2)), big.NewInt(1)) // maximal low limbs
			case 5:
				v = drawBig(t, bits/2, "v") // inputs and modulus must fit: keep a*b within the ring width
			default:
				v = drawBig(t, M.BitLen()+8, "v")
				v.Mod(v, M)
			}
			c.In = append(c.In, v.String())
		}
		nOps := rapid.IntRange(1, 10).Draw(t, "nops")
		allowFail := rapid.IntRange(0, 5).Draw(t, "allow-fail") == 0
		exp := false
		for len(c.Ops) < nOps {
			pool, _ := vModel(&c)
			n := len(pool)
			name := rapid.SampledFrom([]string{"ModMul", "ModMul", "ModMul", "ModMul", "ModAdd", "ModAdd", "ModAdd", "ModAdd", "ModAdd",
				"ModAssertIsEqual", "ModAssertIsEqual", "ModExp"}).Draw(t, "op")
			a, b := pick(t, n, "a"), pick(t, n, "b")
			switch name {
			case "ModExp":
				if exp || vp.Name != "mod1e256" || rapid.IntRange(0, 3).Draw(t, "exp-rare") != 0 {
					continue
				}
				exp = true
				b = rapid.IntRange(0, len(c.In)-1).Draw(t, "e")
			case "ModAssertIsEqual":
				var same []int
				for i := range pool {
					if i != a && pool[i].Cmp(pool[a]) == 0 {
						same = append(same, i)
					}
				}
				if len(same) > 0 {
					b = rapid.SampledFrom(same).Draw(t, "same")
				} else if !allowFail {
					b = a
				} else if rapid.Bool().Draw(t, "off-by-one") {
					// differ by exactly one: x against ModAdd(x, 1), the difference a padding rewrite of +-1 would hide
					c.In = append(c.In[:len(c.In):len(c.In)], "1")
					// appending an input shifts the pool: rebuild operands on the new numbering
					for i := range c.Ops {
						for j := range c.Ops[i].A {
							if c.Ops[i].A[j] >= len(c.In)-1 {
								c.Ops[i].A[j]++
							}
						}
					}
					if a >= len(c.In)-1 {
						a++
					}
					pool2, _ := vModel(&c)
					c.Ops = append(c.Ops, Op{Op: "ModAdd", A: []int{a, len(c.In) - 1}})
					b = len(pool2)
				}
			}
			c.Ops = append(c.Ops, Op{Op: name, A: []int{a, b}})
			if _, failAt := vModel(&c); failAt >= 0 {
				break
			}
		}
		if mode == "vadv" {
			c.Builder = rapid.SampledFrom([]string{"r1cs", "scs"}).Draw(t, "builder")
			// make sure the padding hint is exercised
			pool, failAt := vModel(&c)
			offByOne := false
			if failAt < 0 {
				if rapid.IntRange(0, 2).Draw(t, "off-by-one-tail") == 0 && bigOf(c.M).Cmp(big.NewInt(2)) > 0 {
					// x against x+1: must stay unsatisfiable; a padding that is off by one would hide the difference
					c.In = append(c.In[:len(c.In):len(c.In)], "1")
					for i := range c.Ops {
						for j := range c.Ops[i].A {
							if c.Ops[i].A[j] >= len(c.In)-1 {
								c.Ops[i].A[j]++
							}
						}
					}
					n := len(pool) + 1
					x := n - 1
					c.Ops = append(c.Ops, Op{Op: "ModAdd", A: []int{x, len(c.In) - 1}})
					if rapid.Bool().Draw(t, "obo-order") {
						c.Ops = append(c.Ops, Op{Op: "ModAssertIsEqual", A: []int{x, n}})
					} else {
						c.Ops = append(c.Ops, Op{Op: "ModAssertIsEqual", A: []int{n, x}})
					}
					offByOne = true
				} else {
					c.Ops = append(c.Ops, Op{Op: "ModAssertIsEqual", A: []int{len(pool) - 1, len(pool) - 1}})
				}
			}
			if offByOne {
				c.Adv = append(c.Adv, []Strat{{Hint: "subPaddingHint", Seq: -1, Kind: "pad+1", D: 1}},
					[]Strat{{Hint: "subPaddingHint", Seq: -1, Kind: "pad+1", D: -1}})
			}
			nSolves := rapid.IntRange(3, 6).Draw(t, "nsolves")
			for s := 0; s < nSolves; s++ {
				h := rapid.SampledFrom([]string{"mulHint", "mulHint", "subPaddingHint"}).Draw(t, "hint")
				var kind string
				if h == "mulHint" {
					kind = rapid.SampledFrom([]string{"r+d", "r+p", "wrap", "wrap0", "stuff", "kshift", "carry", "recarry", "rwide"}).Draw(t, "kind")
				} else {
					kind = rapid.SampledFrom([]string{"pad+1", "pad-mod", "pad-zero", "pad-short"}).Draw(t, "kind")
				}
				c.Adv = append(c.Adv, []Strat{{Hint: h, Seq: rapid.IntRange(0, 31).Draw(t, "seq"), Kind: kind,
					D: rapid.SampledFrom([]int{1, -1, 2}).Draw(t, "d")}})
			}
		}
		return c
	})
}

const vrule = "variable-modulus sequences (ModMul/ModAdd/ModExp/ModAssertIsEqual over Mod1e256/Mod1e512, modulus and operands as witnesses): model = residues modulo the variable modulus; adversarial cases rewrite mulHint and subPaddingHint outputs. Non-trivial: >= 2 ops or a rewrite applied."

func registerVReplay() {
	for _, k := range []string{"vengine", "vcompiled", "vadv"} {
		ev.RegisterReplay(k, func(raw json.RawMessage) string {
			var c VCase
			if err := json.Unmarshal(raw, &c); err != nil {
				return ""
			}
			return vrun(c, nil).Violation
		})
	}
}

func TestVariableModulus(t *testing.T) {
	rec := ev.Get(ID)
	rec.SetRule(vrule)
	for _, m := range []struct {
		mode string
		n    int
	}{{"vengine", ev.N(120, 6000)}, {"vcompiled", ev.N(20, 800)}, {"vadv", ev.N(30, 1500)}} {
		g := genVCase(m.mode, tierNatives())
		mode := m.mode
		rec.Check(t, mode, m.n, func(rt *rapid.T) {
			c := g.Draw(rt, "case")
			rec.Begin(mode, c)
			rec.Report(rt, mode, c, vrun(c, rec))
		})
	}
}

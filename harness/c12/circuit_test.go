package c12

import (
	"fmt"
	"math/big"
	"reflect"
	"sync"

	"github.com/consensys/gnark/frontend"
	"github.com/consensys/gnark/std/math/emulated"
)

// ---- observation plumbing ----------------------------------------------------

// elemMeta is what reflection sees on an Element when it is produced.
type elemMeta struct {
	Of uint // tracked overflow (unexported field, read only)
	NL int  // number of limbs
	OK bool // reflection worked
}

// probe collects, for one circuit, the static bookkeeping (at definition time)
// and the concrete limb values (at solving time, through logHint).
type probe struct {
	mu    sync.Mutex
	token int64
	meta  map[int]elemMeta
	vals  map[int][]*big.Int // pool index -> limb values (native field representatives)
	nat   map[int][]*big.Int // op index -> native outputs (bits, booleans)
	// reflectBroken is set when the unexported field could not be read
	reflectBroken bool
	defineErr     string
}

var (
	probesMu  sync.Mutex
	probes    = map[int64]*probe{}
	nextToken int64
)

func newProbe() *probe {
	probesMu.Lock()
	defer probesMu.Unlock()
	nextToken++
	p := &probe{token: nextToken, meta: map[int]elemMeta{}, vals: map[int][]*big.Int{}, nat: map[int][]*big.Int{}}
	probes[p.token] = p
	return p
}

func (p *probe) release() {
	probesMu.Lock()
	delete(probes, p.token)
	probesMu.Unlock()
}

// resetValues forgets the solving-time observations (a compiled system is solved several times).
func (p *probe) resetValues() {
	p.mu.Lock()
	p.vals = map[int][]*big.Int{}
	p.nat = map[int][]*big.Int{}
	p.mu.Unlock()
}

func (p *probe) resetMeta() {
	p.mu.Lock()
	p.meta = map[int]elemMeta{}
	p.mu.Unlock()
}

// logHint records its inputs: [token, kind, id, values...]. kind 0: limbs of pool element id; 1: native outputs of op id.
func logHint(_ *big.Int, in, out []*big.Int) error {
	for i := range out {
		out[i].SetUint64(0)
	}
	if len(in) < 3 {
		return nil
	}
	probesMu.Lock()
	p := probes[in[0].Int64()]
	probesMu.Unlock()
	if p == nil {
		return nil
	}
	vals := make([]*big.Int, len(in)-3)
	for i := range vals {
		vals[i] = new(big.Int).Set(in[3+i])
	}
	p.mu.Lock()
	if in[1].Int64() == 0 {
		p.vals[int(in[2].Int64())] = vals
	} else {
		p.nat[int(in[2].Int64())] = vals
	}
	p.mu.Unlock()
	return nil
}

func readMeta(e any) elemMeta {
	defer func() { _ = recover() }()
	v := reflect.ValueOf(e)
	if v.Kind() == reflect.Ptr {
		v = v.Elem()
	}
	of := v.FieldByName("overflow")
	lm := v.FieldByName("Limbs")
	if !of.IsValid() || !lm.IsValid() || of.Kind() != reflect.Uint {
		return elemMeta{}
	}
	return elemMeta{Of: uint(of.Uint()), NL: lm.Len(), OK: true}
}

func (p *probe) observeElem(api frontend.API, id int, limbs []frontend.Variable, e any) {
	m := readMeta(e)
	for i, l := range limbs {
		if l == nil {
			p.mu.Lock()
			p.meta[id] = m
			p.mu.Unlock()
			panic(fmt.Sprintf("gnark returned an element (pool %d) whose limb %d of %d is nil", id, i, len(limbs)))
		}
	}
	p.mu.Lock()
	if !m.OK {
		p.reflectBroken = true
		m.NL = len(limbs)
	}
	p.meta[id] = m
	p.mu.Unlock()
	in := []frontend.Variable{p.token, 0, id}
	in = append(in, limbs...)
	if _, err := api.Compiler().NewHint(logHint, 1, in...); err != nil {
		panic("harness: log hint: " + err.Error())
	}
}

func (p *probe) observeNative(api frontend.API, op int, vars []frontend.Variable) {
	in := []frontend.Variable{p.token, 1, op}
	in = append(in, vars...)
	if _, err := api.Compiler().NewHint(logHint, 1, in...); err != nil {
		panic("harness: log hint: " + err.Error())
	}
}

// ---- the circuit -------------------------------------------------------------

type circuit[T emulated.FieldParams] struct {
	In  []emulated.Element[T]
	Sel []frontend.Variable
	Out []emulated.Element[T] `gnark:",public"`

	c  *Case     `gnark:"-"`
	pr *probe    `gnark:"-"`
	ps *paramSet `gnark:"-"`
}

func countShape(c *Case, st *static) (nW, nSel int) {
	for _, in := range c.In {
		if in.Kind == "w" {
			nW++
		}
	}
	for i, o := range c.Ops {
		if st.skip[i] {
			continue
		}
		switch o.Op {
		case "Select", "Mux":
			nSel++
		case "Lookup2":
			nSel += 2
		case "FromBits":
			nSel += len(o.S)
		}
	}
	return
}

func newCircuit[T emulated.FieldParams](c *Case, pr *probe, ps *paramSet) *circuit[T] {
	st := c.analyse()
	nW, nSel := countShape(c, st)
	return &circuit[T]{In: make([]emulated.Element[T], nW), Sel: make([]frontend.Variable, nSel),
		Out: make([]emulated.Element[T], len(c.Export)), c: c, pr: pr, ps: ps}
}

func newAssignment[T emulated.FieldParams](c *Case, ps *paramSet, claims []*big.Int) *circuit[T] {
	st := c.analyse()
	a := &circuit[T]{}
	for _, in := range c.In {
		if in.Kind != "w" {
			continue
		}
		ls := make([]frontend.Variable, len(in.Limbs))
		for j := range ls {
			ls[j] = bigOf(in.Limbs[j])
		}
		a.In = append(a.In, emulated.Element[T]{Limbs: ls})
	}
	for i, o := range c.Ops {
		if st.skip[i] {
			continue
		}
		switch o.Op {
		case "Select", "Mux":
			a.Sel = append(a.Sel, o.S[0])
		case "Lookup2":
			a.Sel = append(a.Sel, o.S[0]&1, o.S[1]&1)
		case "FromBits":
			for _, b := range o.S {
				a.Sel = append(a.Sel, b&1)
			}
		}
	}
	for j := range c.Export {
		var v *big.Int
		if j < len(claims) && claims[j] != nil {
			v = claims[j]
		} else {
			v = new(big.Int)
		}
		a.Out = append(a.Out, emulated.ValueOf[T](v))
	}
	return a
}

func (ci *circuit[T]) Define(api frontend.API) error {
	f, err := emulated.NewField[T](api)
	if err != nil {
		return err
	}
	c, pr := ci.c, ci.pr
	st := c.analyse()
	pr.resetMeta()
	var pool []*emulated.Element[T]
	wi := 0
	for i, in := range c.In {
		var e *emulated.Element[T]
		switch in.Kind {
		case "w":
			e = &ci.In[wi]
			wi++
		case "c":
			e = f.NewElement(bigOf(in.Val))
		case "zero":
			e = f.Zero()
		case "one":
			e = f.One()
		case "mod":
			e = f.Modulus()
		default:
			return fmt.Errorf("harness: unknown input kind %q", in.Kind)
		}
		pool = append(pool, e)
		pr.observeElem(api, i, e.Limbs, e)
	}
	si := 0
	sel := func() frontend.Variable { v := ci.Sel[si]; si++; return v }
	for i, o := range c.Ops {
		if st.skip[i] {
			continue
		}
		a := st.opnds[i]
		P := func(k int) *emulated.Element[T] { return pool[a[k]] }
		var res *emulated.Element[T]
		var nat []frontend.Variable
		switch o.Op {
		case "Add":
			res = f.Add(P(0), P(1))
		case "Sub":
			res = f.Sub(P(0), P(1))
		case "Neg":
			res = f.Neg(P(0))
		case "Mul":
			res = f.Mul(P(0), P(1))
		case "MulMod":
			res = f.MulMod(P(0), P(1))
		case "MulNoReduce":
			res = f.MulNoReduce(P(0), P(1))
		case "MulConst":
			res = f.MulConst(P(0), bigOf(o.K))
		case "Sum":
			in := make([]*emulated.Element[T], len(a))
			for k := range a {
				in[k] = P(k)
			}
			res = f.Sum(in...)
		case "Div":
			res = f.Div(P(0), P(1))
		case "Inverse":
			res = f.Inverse(P(0))
		case "Sqrt":
			res = f.Sqrt(P(0))
		case "Exp":
			res = f.Exp(P(0), P(1))
		case "Eval":
			red := map[int]*emulated.Element[T]{}
			for _, x := range a {
				if _, ok := red[x]; !ok {
					red[x] = f.Reduce(pool[x])
				}
			}
			at := make([][]*emulated.Element[T], len(o.T))
			for ti, t := range o.T {
				for _, x := range t {
					at[ti] = append(at[ti], red[a[x]])
				}
			}
			res = f.Eval(at, o.C)
		case "Reduce":
			res = f.Reduce(P(0))
		case "ReduceStrict":
			res = f.ReduceStrict(P(0))
		case "Select":
			res = f.Select(sel(), P(0), P(1))
		case "Lookup2":
			b0 := sel()
			b1 := sel()
			res = f.Lookup2(b0, b1, P(0), P(1), P(2), P(3))
		case "Mux":
			in := make([]*emulated.Element[T], len(a))
			for k := range a {
				in[k] = P(k)
			}
			res = f.Mux(sel(), in...)
		case "FromBits":
			bs := make([]frontend.Variable, len(o.S))
			for k := range bs {
				bs[k] = sel()
			}
			res = f.FromBits(bs...)
		case "BitsRoundTrip":
			// on the reduced operand: FromBits is only used with at most NbLimbs*BitsPerLimb bits
			res = f.FromBits(f.ToBits(f.Reduce(P(0)))...)
		case "ToBits":
			nat = f.ToBits(P(0))
		case "ToBitsCanonical":
			nat = f.ToBitsCanonical(P(0))
		case "IsZero":
			nat = []frontend.Variable{f.IsZero(P(0))}
		case "AssertIsEqual":
			f.AssertIsEqual(P(0), P(1))
		case "AssertIsDifferent":
			f.AssertIsDifferent(P(0), P(1))
		case "AssertIsInRange":
			f.AssertIsInRange(P(0))
		case "AssertIsLessOrEqual":
			f.AssertIsLessOrEqual(P(0), P(1))
		default:
			return fmt.Errorf("harness: unknown op %q", o.Op)
		}
		if st.opElem[i] >= 0 {
			if res == nil {
				return fmt.Errorf("harness: op %d (%s) returned nil", i, o.Op)
			}
			if len(pool) != st.opElem[i] {
				return fmt.Errorf("harness: pool bookkeeping mismatch")
			}
			pool = append(pool, res)
			pr.observeElem(api, st.opElem[i], res.Limbs, res)
		}
		if nat != nil {
			pr.observeNative(api, i, nat)
		}
	}
	for j, x := range c.Export {
		if x < 0 {
			x = -x
		}
		f.AssertIsEqual(pool[x%len(pool)], &ci.Out[j])
	}
	return nil
}

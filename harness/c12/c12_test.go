// C12 — emulated field arithmetic (std/math/emulated) is correct and cannot be cheated.
//
// A case is an op sequence over a pool of emulated elements. Oracle: a big-integer
// model modulo the emulated modulus written from the doc comments of the package.
//   - honest direction: every element returned by the API recomposes (from its limbs,
//     observed through a logging hint) to a value congruent to the model, canonical
//     where documented; every limb respects BitsPerLimb + tracked overflow (read by
//     reflection); documented-to-fail ops make the circuit unsatisfiable.
//   - adversarial direction (compiled systems): hint outputs are rewritten; if the
//     solver still accepts, every returned element must still be congruent to the model.
package c12

import (
	"encoding/json"
	"fmt"
	"math/big"
	"sort"
	"strings"
	"testing"

	"verifharness/lib/ev"
	"verifharness/lib/hintadv"
	"verifharness/lib/prog"

	"github.com/consensys/gnark/backend"
	"github.com/consensys/gnark/backend/groth16"
	"github.com/consensys/gnark/backend/witness"
	"github.com/consensys/gnark/constraint"
	"github.com/consensys/gnark/constraint/solver"
	"github.com/consensys/gnark/frontend"
	"github.com/consensys/gnark/logger"
	"github.com/consensys/gnark/std"
	"pgregory.net/rapid"
)

const ID = "C12"

// signatures of known findings (known_findings.json)
const sigCarries = "emulated-mul-carries-unchecked"

func TestMain(m *testing.M) {
	logger.Disable()
	std.RegisterHints()
	solver.RegisterHint(logHint)
	registerVReplay()
	for _, k := range []string{"engine", "compiled", "adv", "f11probe"} {
		ev.RegisterReplay(k, func(raw json.RawMessage) string {
			var c Case
			if err := json.Unmarshal(raw, &c); err != nil {
				return ""
			}
			return run(c, nil).Violation
		})
	}
	ev.Main(m)
}

// result accumulates classes while a case runs.
type result struct {
	classes map[string]bool
	maxOf   uint
	// measured for the non-triviality rule
	mulType, consumedOverflow, autoReduce bool
	// blameOp: op index the first mismatch found by checkObs belongs to (-1: none / an input)
	blameOp int
	pr      *probe
	st      *static
	ps      *paramSet
}

// violationOrKnown: every failure outside the adversarial unchecked-carries path is a violation (the robustness
// defects found while building this check are fixed in the tree; their directed cases are asserted as is).
func violationOrKnown(c *Case, res *result, rec *ev.Recorder, msg string) ev.Outcome {
	return ev.Outcome{Violation: msg}
}

func (r *result) class(s string) { r.classes[s] = true }

func (r *result) list() []string {
	var l []string
	for k := range r.classes {
		l = append(l, k)
	}
	sort.Strings(l)
	return l
}

func isHarnessErr(err error) bool {
	return err != nil && strings.Contains(err.Error(), "harness:")
}

// checkObs compares what was observed in an accepted execution with the model.
func checkObs(c *Case, ps *paramSet, st *static, m *model, pr *probe, nativeQ *big.Int, res *result) string {
	pr.mu.Lock()
	defer pr.mu.Unlock()
	res.blameOp = -1
	opOf := func(idx int) int {
		for i, e := range st.opElem {
			if e == idx {
				return i
			}
		}
		return -1
	}
	desc := func(idx int) string {
		if idx < len(c.In) {
			return fmt.Sprintf("input %d (%s)", idx, c.In[idx].Kind)
		}
		for i, e := range st.opElem {
			if e == idx {
				return fmt.Sprintf("result of op %d (%s)", i, c.Ops[i].Op)
			}
		}
		return fmt.Sprintf("pool %d", idx)
	}
	used := map[int]bool{}
	for i := range c.Ops {
		if !st.skip[i] {
			for _, x := range st.opnds[i] {
				used[x] = true
			}
		}
	}
	for _, x := range c.Export {
		if x < 0 {
			x = -x
		}
		used[x%len(m.pool)] = true
	}
	for idx := range m.pool {
		if idx < len(c.In) && !used[idx] {
			continue // a witness nobody consumes is not constrained at all
		}
		limbs, ok := pr.vals[idx]
		meta := pr.meta[idx]
		if !ok {
			if meta.NL == 0 {
				limbs = nil // element on zero limbs: not logged
			} else {
				return fmt.Sprintf("harness: no observation for %s", desc(idx))
			}
		}
		val := recompose(limbs, ps.W)
		res.blameOp = opOf(idx)
		if new(big.Int).Mod(val, ps.Q).Cmp(m.pool[idx].v) != 0 {
			return fmt.Sprintf("%s: limbs %v recompose to %s which is not congruent to the model value %s modulo %s (tracked overflow %d)",
				desc(idx), limbs, val, m.pool[idx].v, ps.Q, meta.Of)
		}
		if ex := m.pool[idx].exact; ex != nil && val.Cmp(ex) != 0 {
			return fmt.Sprintf("%s: documented representative is %s, limbs %v recompose to %s", desc(idx), ex, limbs, val)
		}
		if meta.OK && !m.wideIn[idx] && !m.either {
			for j, l := range limbs {
				if l.BitLen() > int(ps.W)+int(meta.Of) {
					return fmt.Sprintf("%s: limb %d = %s has %d bits > BitsPerLimb %d + tracked overflow %d (bookkeeping invariant)",
						desc(idx), j, l, l.BitLen(), ps.W, meta.Of)
				}
			}
		}
	}
	for i := range c.Ops {
		if st.skip[i] || (m.expInt[i] == nil && m.congNative[i] < 0) {
			continue
		}
		res.blameOp = i
		vals, ok := pr.nat[i]
		if !ok {
			return fmt.Sprintf("harness: no native observation for op %d (%s)", i, c.Ops[i].Op)
		}
		got := new(big.Int)
		for j := len(vals) - 1; j >= 0; j-- {
			if vals[j].Sign() != 0 && vals[j].Cmp(big.NewInt(1)) != 0 {
				return fmt.Sprintf("op %d (%s): output %d = %s is not boolean", i, c.Ops[i].Op, j, vals[j])
			}
			got.Lsh(got, 1)
			got.Add(got, vals[j])
		}
		if m.expLen[i] >= 0 && len(vals) != m.expLen[i] {
			return fmt.Sprintf("op %d (%s): %d outputs, documented %d", i, c.Ops[i].Op, len(vals), m.expLen[i])
		}
		if m.expInt[i] != nil {
			if got.Cmp(m.expInt[i]) != 0 {
				return fmt.Sprintf("op %d (%s): outputs recompose to %s, documented value %s", i, c.Ops[i].Op, got, m.expInt[i])
			}
		} else if x := m.congNative[i]; x >= 0 {
			if new(big.Int).Mod(got, ps.Q).Cmp(m.pool[x].v) != 0 {
				return fmt.Sprintf("op %d (%s): bits recompose to %s, not congruent to the model value %s", i, c.Ops[i].Op, got, m.pool[x].v)
			}
		}
	}
	res.blameOp = -1
	return ""
}

// measure fills the coverage classes and the non-triviality facts from the static bookkeeping.
func measure(c *Case, ps *paramSet, st *static, pr *probe, res *result) {
	pr.mu.Lock()
	defer pr.mu.Unlock()
	if pr.reflectBroken {
		res.class("reflection-broken")
	}
	top := uint(0)
	for i, o := range c.Ops {
		if st.skip[i] {
			res.class("op-skipped")
			continue
		}
		res.class("op:" + o.Op)
		switch o.Op {
		case "Mul", "MulMod", "MulNoReduce", "Div", "Inverse", "Sqrt", "Exp", "Eval", "ReduceStrict", "AssertIsEqual",
			"AssertIsDifferent", "IsZero", "ToBitsCanonical":
			res.mulType = true
		}
		var ofs []uint
		for _, x := range st.opnds[i] {
			mt, ok := pr.meta[x]
			if !ok {
				continue
			}
			ofs = append(ofs, mt.Of)
			if mt.Of > 0 {
				res.consumedOverflow = true
				if o.Op == "Reduce" {
					res.mulType = true
				}
			}
		}
		if e := st.opElem[i]; e >= 0 {
			if mt, ok := pr.meta[e]; ok && mt.OK {
				if mt.Of > top {
					top = mt.Of
				}
				if len(ofs) == 2 {
					mx := ofs[0]
					if ofs[1] > mx {
						mx = ofs[1]
					}
					switch o.Op {
					case "Add":
						if mt.Of < mx+1 {
							res.autoReduce = true
						}
					case "Sub":
						if mt.Of < ofs[1]+2 || mt.Of < ofs[0]+1 {
							res.autoReduce = true
						}
					case "Mul", "MulMod", "Div":
						if ps.W+ofs[0]+ofs[1]+1 > res.maxOf {
							res.autoReduce = true
						}
					}
				}
				if o.Op == "MulConst" && len(ofs) == 1 {
					k := bigOf(o.K)
					if k.Sign() > 0 && mt.Of < ofs[0]+uint(k.BitLen()) {
						res.autoReduce = true
					}
				}
			}
		}
	}
	switch {
	case top == 0:
		res.class("overflow:0")
	case top <= 8:
		res.class("overflow:1-8")
	case top <= 64:
		res.class("overflow:9-64")
	default:
		res.class("overflow:>64")
	}
	if res.maxOf > 0 && top+2 >= res.maxOf {
		res.class("overflow:near-max")
	}
	if res.autoReduce {
		res.class("auto-reduce")
	}
	if res.consumedOverflow {
		res.class("consumed-overflow")
	}
	for _, in := range c.In {
		switch in.Kind {
		case "w":
			v := new(big.Int)
			for j := len(in.Limbs) - 1; j >= 0; j-- {
				v.Lsh(v, ps.W)
				v.Add(v, bigOf(in.Limbs[j]))
			}
			switch {
			case v.Cmp(ps.Q) == 0:
				res.class("in:witness=q")
			case v.Cmp(ps.Q) > 0:
				res.class("in:witness>q")
			case v.Sign() == 0:
				res.class("in:witness=0")
			case new(big.Int).Add(v, big.NewInt(1)).Cmp(ps.Q) == 0:
				res.class("in:witness=q-1")
			}
		default:
			res.class("in:const")
		}
	}
}

// noteZeroLimbs records which pool elements are on zero limbs (known once the circuit was defined).
func noteZeroLimbs(st *static, pr *probe) {
	pr.mu.Lock()
	defer pr.mu.Unlock()
	st.zeroLimb = map[int]bool{}
	for idx, mt := range pr.meta {
		if mt.NL == 0 {
			st.zeroLimb[idx] = true
		}
	}
}

func rootsFrom(c *Case, ps *paramSet, st *static, pr *probe) map[int]*big.Int {
	pr.mu.Lock()
	defer pr.mu.Unlock()
	r := map[int]*big.Int{}
	for i, o := range c.Ops {
		if o.Op == "Sqrt" && !st.skip[i] && st.opElem[i] >= 0 {
			if l, ok := pr.vals[st.opElem[i]]; ok {
				r[i] = recompose(l, ps.W)
			}
		}
	}
	return r
}

func claimsOf(c *Case, ps *paramSet, m *model) (claims []*big.Int, wrong, tainted bool) {
	for j, x := range c.Export {
		if x < 0 {
			x = -x
		}
		mv := m.pool[x%len(m.pool)]
		v := new(big.Int).Set(mv.v)
		if j < len(c.ClaimD) && c.ClaimD[j] != 0 {
			v.Add(v, big.NewInt(int64(c.ClaimD[j])))
			v.Mod(v, ps.Q)
			if v.Cmp(mv.v) != 0 {
				wrong = true
			}
		}
		tainted = tainted || mv.tainted
		claims = append(claims, v)
	}
	return
}

// judgeHonest decides an honest execution: err is the engine / solver verdict.
func judgeHonest(c *Case, ps *paramSet, st *static, m0 *model, pr *probe, nf prog.Field, engine bool, err error, where string, wrongClaim, taintedClaim bool, res *result) (violation, discard string) {
	noteZeroLimbs(st, pr)
	m0 = evalModel(c, ps, st, engine, nil)
	if err == nil {
		m := evalModel(c, ps, st, engine, rootsFrom(c, ps, st, pr))
		if m.failAt >= 0 {
			return fmt.Sprintf("%s accepted although op %d (%s) is documented to fail: %s", where, m.failAt, c.Ops[m.failAt].Op, m.failWhy), ""
		}
		if wrongClaim {
			return fmt.Sprintf("%s accepted a claimed result that is not congruent to the model", where), ""
		}
		if msg := checkObs(c, ps, st, m, pr, nf.Q, res); msg != "" {
			if strings.HasPrefix(msg, "harness:") {
				panic(msg)
			}
			return where + " " + msg, ""
		}
		return "", ""
	}
	if m0.failAt >= 0 || wrongClaim {
		res.class("rejected-as-documented")
		return "", ""
	}
	if m0.either {
		return "", ""
	}
	if why := benign(c, st, err); why != "" {
		return "", why
	}
	if m0.taintedAssert || taintedClaim {
		return "", "honest prover's square root is not the one the sequence needs"
	}
	// locate the first element that went wrong, if the execution got far enough to be observed
	first := ""
	if ev.Safely(func() {
		m := evalModel(c, ps, st, engine, rootsFrom(c, ps, st, pr))
		// only what was defined before the failure can be compared
		pr.mu.Lock()
		n := 0
		for n < len(m.pool) {
			if _, ok := pr.meta[n]; !ok {
				break
			}
			n++
		}
		for i := range c.Ops {
			if _, ok := pr.nat[i]; !ok {
				m.expInt[i], m.congNative[i] = nil, -1
			}
		}
		pr.mu.Unlock()
		m.pool = m.pool[:n]
		if n == 0 {
			return
		}
		first = checkObs(c, ps, st, m, pr, nf.Q, res)
	}) == "" && first != "" && !strings.HasPrefix(first, "harness:") {
		where += " (first divergence: " + trunc(first, 500) + ")"
	}
	return fmt.Sprintf("%s: every op is within its documented domain and the model satisfies all assertions, but the honest execution failed: %s",
		where, trunc(err.Error(), 700)), ""
}

// benign recognises failures that are outside what the documentation promises.
func benign(c *Case, st *static, err error) string {
	if err != nil && strings.Contains(err.Error(), "hint function must return at least one output") {
		// Eval is documented as experimental; it cannot size its hint when an operand is the constant on zero limbs
		for i, o := range c.Ops {
			if o.Op == "Eval" && !st.skip[i] {
				for _, x := range st.opnds[i] {
					if st.zeroLimb[x] {
						return "Eval (experimental API) with an operand on zero limbs"
					}
				}
			}
		}
	}
	return ""
}

func trunc(s string, n int) string {
	if len(s) > n {
		return s[:n] + "…"
	}
	return s
}

// run executes one case. rec may be nil (replay).
func run(c Case, rec *ev.Recorder) (out ev.Outcome) {
	ps := paramsByName(c.Params)
	nf, ok := nativeField(c.Native)
	if ps == nil || !ok || len(c.In) == 0 {
		return ev.Outcome{Discard: true, DiscardWhy: "malformed case"}
	}
	st := c.analyse()
	engine := c.Mode == "engine"
	m0 := evalModel(&c, ps, st, engine, nil)
	if m0.undef != "" {
		return ev.Outcome{Discard: true, DiscardWhy: "undocumented: " + m0.undef}
	}
	res := &result{classes: map[string]bool{}, blameOp: -1, st: st, ps: ps}
	if nf.Q.BitLen()-2 > int(ps.W) {
		res.maxOf = uint(nf.Q.BitLen()-2) - ps.W
	}
	res.class("params:" + ps.Name)
	res.class("native:" + c.Native)
	res.class("mode:" + c.Mode)
	if m0.failAt >= 0 {
		res.class("expected-fail")
		res.class("fail:" + strings.SplitN(m0.failWhy, " ", 3)[0] + " " + c.Ops[m0.failAt].Op)
	}
	claims, wrongClaim, taintedClaim := claimsOf(&c, ps, m0)
	if len(c.Export) > 0 {
		res.class("has-export")
	}

	finish := func(viol, disc string, pr *probe) ev.Outcome {
		if viol != "" {
			return violationOrKnown(&c, res, rec, viol)
		}
		if disc != "" {
			return ev.Outcome{Discard: true, DiscardWhy: disc}
		}
		nt := res.mulType && (res.consumedOverflow || res.autoReduce)
		if c.Mode == "adv" || c.Mode == "f11probe" {
			nt = nt || res.classes["adv-applied"]
		}
		return ev.Outcome{NonTrivial: nt, Classes: res.list()}
	}

	switch c.Mode {
	case "engine":
		pr := newProbe()
		defer pr.release()
		res.pr = pr
		err := ps.engine(&c, pr, nf.Q, claims)
		if isHarnessErr(err) {
			panic(err)
		}
		measure(&c, ps, st, pr, res)
		v, d := judgeHonest(&c, ps, st, m0, pr, nf, true, err, "[test engine]", wrongClaim, taintedClaim, res)
		return finish(v, d, pr)

	case "compiled":
		var last *probe
		for _, b := range []string{prog.R1CS, prog.SCS} {
			pr := newProbe()
			defer pr.release()
			last = pr
			res.pr = pr
			where := fmt.Sprintf("[compiled %s/%s]", b, c.Native)
			sys, err := prog.Compile(nf, b, ps.circuit(&c, pr), frontend.IgnoreUnconstrainedInputs())
			if isHarnessErr(err) {
				panic(err)
			}
			if err != nil {
				noteZeroLimbs(st, pr)
				if why := benign(&c, st, err); why != "" {
					return ev.Outcome{Discard: true, DiscardWhy: why}
				}
				if m0.failAt >= 0 {
					res.class("compile-reject")
					continue
				}
				return violationOrKnown(&c, res, rec, fmt.Sprintf("%s Compile failed on a sequence within the documented domain: %s", where, trunc(err.Error(), 700)))
			}
			measure(&c, ps, st, pr, res)
			w, err := prog.Witness(nf, ps.assign(&c, claims))
			if err != nil {
				panic("harness: witness: " + err.Error())
			}
			_, serr := prog.Solve(sys, w)
			v, d := judgeHonest(&c, ps, st, m0, pr, nf, false, serr, where, wrongClaim, taintedClaim, res)
			if v != "" || d != "" {
				return finish(v, d, pr)
			}
			if serr == nil {
				res.class("solved")
				// negative control: a wrong claimed result must be rejected
				if len(c.Export) > 0 {
					bad := make([]*big.Int, len(claims))
					copy(bad, claims)
					bad[0] = new(big.Int).Add(claims[0], big.NewInt(1))
					bad[0].Mod(bad[0], ps.Q)
					wb, _ := prog.Witness(nf, ps.assign(&c, bad))
					pr.resetValues()
					if _, e := prog.Solve(sys, wb); e == nil {
						return ev.Outcome{Violation: where + " honest solver accepted claim+1 for export 0"}
					}
					res.class("wrong-claim-rejected")
				}
			}
		}
		return finish("", "", last)

	case "adv", "f11probe":
		b := c.Builder
		if b != prog.SCS {
			b = prog.R1CS
		}
		pr := newProbe()
		defer pr.release()
		res.pr = pr
		where := fmt.Sprintf("[adversarial %s/%s]", b, c.Native)
		sys, err := prog.Compile(nf, b, ps.circuit(&c, pr), frontend.IgnoreUnconstrainedInputs())
		if isHarnessErr(err) {
			panic(err)
		}
		if err != nil {
			noteZeroLimbs(st, pr)
			if why := benign(&c, st, err); why != "" {
				return ev.Outcome{Discard: true, DiscardWhy: why}
			}
			if m0.failAt >= 0 {
				res.class("compile-reject")
				return finish("", "", pr)
			}
			return violationOrKnown(&c, res, rec, fmt.Sprintf("%s Compile failed on a sequence within the documented domain: %s", where, trunc(err.Error(), 700)))
		}
		measure(&c, ps, st, pr, res)
		w, err := prog.Witness(nf, ps.assign(&c, claims))
		if err != nil {
			panic("harness: witness: " + err.Error())
		}
		// honest pass: counts the hint invocations and is itself checked
		au0 := &advAudit{counts: map[string]int{}}
		_, opts := hintadv.Options(strategy(nil, nil, ps, au0), isEmulatedHint)
		opts = append(opts, solver.WithNbTasks(1), hintadv.HashCommitment())
		_, serr := prog.Solve(sys, w, opts...)
		v, d := judgeHonest(&c, ps, st, m0, pr, nf, false, serr, where+" honest hints", wrongClaim, taintedClaim, res)
		if v != "" || d != "" {
			return finish(v, d, pr)
		}
		if au0.intFalse && serr == nil {
			return ev.Outcome{Violation: where + " harness self-check: an honest multiplication hint output does not satisfy lhs = rem + quo*p over the integers"}
		}
		for si, set := range c.Adv {
			pr.resetValues()
			au := &advAudit{}
			_, opts := hintadv.Options(strategy(set, au0.counts, ps, au), isEmulatedHint)
			opts = append(opts, solver.WithNbTasks(1), hintadv.HashCommitment())
			_, serr := prog.Solve(sys, w, opts...)
			if rec != nil {
				rec.AddExtra("adversarial_solves", 1)
			}
			label := "none"
			if len(set) > 0 {
				label = set[0].Hint + ":" + set[0].Kind
			}
			if len(au.applied) == 0 {
				if len(au.infeasible) > 0 {
					res.class("adv:" + label + ":infeasible")
				} else {
					res.class("adv:" + label + ":not-applicable")
				}
				continue
			}
			res.class("adv-applied")
			if serr != nil {
				if strings.HasPrefix(serr.Error(), "PANIC") {
					return ev.Outcome{Violation: fmt.Sprintf("%s strategies %v: %s", where, set, trunc(serr.Error(), 500))}
				}
				res.class("adv:" + label + ":rejected")
				continue
			}
			// accepted: everything returned by the API must still be congruent to the model
			noteZeroLimbs(st, pr)
			m := evalModel(&c, ps, st, false, rootsFrom(&c, ps, st, pr))
			bad := ""
			if m.failAt >= 0 {
				bad = fmt.Sprintf("op %d (%s) is documented to fail (%s) but the circuit is satisfiable", m.failAt, c.Ops[m.failAt].Op, m.failWhy)
			} else if wrongClaim {
				bad = "a claimed result not congruent to the model is accepted"
			} else if msg := checkObs(&c, ps, st, m, pr, nf.Q, res); msg != "" {
				if strings.HasPrefix(msg, "harness:") {
					panic(msg)
				}
				bad = msg
			}
			if bad == "" {
				res.class("adv:" + label + ":accepted-congruent")
				continue
			}
			full := fmt.Sprintf("%s solve %d with rewritten hint outputs %v (applied %v) is accepted: %s", where, si, set, au.applied, bad)
			if au.intFalse && !au.outOfRange {
				// quotient and remainder limbs respect their range checks but lhs = rem + quo*p is false over the
				// integers: the identity can only hold modulo the native field, through carry limbs that no honest
				// (range-checked) carry sequence can take: the known unchecked-carries defect
				if c.Groth16 {
					full += " | " + groth16Confirm(sys, w, set, au0.counts, ps)
				}
				if kf, ok := ev.OpenFinding(ID, sigCarries); ok {
					if rec != nil {
						rec.Note("known finding %s reproduced: %s", kf.ID, trunc(full, 900))
					}
					return ev.Outcome{Known: kf.ID, Discard: true, DiscardWhy: "known finding " + kf.ID + " (unchecked carries)"}
				}
				return ev.Outcome{Violation: full + " [signature " + sigCarries + "]"}
			}
			return ev.Outcome{Violation: full}
		}
		return finish("", "", pr)
	}
	return ev.Outcome{Discard: true, DiscardWhy: "unknown mode"}
}

// groth16Confirm proves and verifies with the forged hints (R1CS systems on pairing curves).
func groth16Confirm(sys prog.System, w witness.Witness, set []Strat, counts map[string]int, ps *paramSet) (msg string) {
	ccs, ok := sys.(constraint.ConstraintSystem)
	if !ok {
		return "groth16 confirmation: not applicable"
	}
	if p := ev.Safely(func() {
		pk, vk, err := groth16.Setup(ccs)
		if err != nil {
			msg = "groth16 confirmation: setup: " + err.Error()
			return
		}
		au := &advAudit{}
		_, opts := hintadv.Options(strategy(set, counts, ps, au), isEmulatedHint)
		opts = append(opts, solver.WithNbTasks(1))
		proof, err := groth16.Prove(ccs, pk, w, backend.WithSolverOptions(opts...))
		if err != nil {
			msg = "groth16 confirmation: prove failed: " + trunc(err.Error(), 200)
			return
		}
		pw, err := w.Public()
		if err != nil {
			msg = "groth16 confirmation: " + err.Error()
			return
		}
		if err := groth16.Verify(proof, vk, pw); err != nil {
			msg = "groth16 confirmation: the proof does not verify: " + trunc(err.Error(), 200)
			return
		}
		msg = "groth16 confirmation: a Groth16 proof produced with the forged hint outputs VERIFIES against the wrong public claim"
	}); p != "" {
		return "groth16 confirmation: " + trunc(p, 300)
	}
	return msg
}

const rule = "rapid-generated op sequences (1-30 steps quick, 1-60 thorough) over a pool of emulated elements (witnesses given limb by limb incl. non-canonical ones, constants, 0/1/q), per parameter set and native field; model = math/big modulo the emulated modulus. Non-trivial: the sequence contains a multiplication-type op (one that creates a deferred mul check) and an operand whose tracked overflow (reflection) is > 0 when consumed or an automatic reduction was forced; adversarial cases also count when a hint rewrite was applied. Distinct: SHA-256 of the case JSON."

func quickParams() []string {
	return []string{"goldilocks", "secp256k1fp", "bn254fr", "bls12381fp", "small3x11", "odd5x13", "babybear"}
}

func tierParams() []string {
	if ev.Tier() == "thorough" {
		return append(quickParams(), "p384fp", "bw6761fp")
	}
	return quickParams()
}

func tierNatives() []string {
	if ev.Tier() == "thorough" {
		return []string{"bn254", "bls12-377", "bw6-761", "bls12-381"}
	}
	return []string{"bn254", "bls12-377"}
}

func maxOps() int {
	if ev.Tier() == "thorough" {
		return 60
	}
	return 30
}

func TestEngineSequences(t *testing.T) {
	rec := ev.Get(ID)
	rec.SetRule(rule)
	rec.Assume("the big-integer model encodes the documented meaning of std/math/emulated (doc.go and method comments)")
	g := genCase(genConfig{Mode: "engine", Params: tierParams(), Natives: tierNatives(), MaxOps: maxOps()})
	rec.Check(t, "engine", ev.N(1500, 40000), func(rt *rapid.T) {
		c := g.Draw(rt, "case")
		rec.Begin("engine", c)
		rec.Report(rt, "engine", c, run(c, rec))
	})
}

func TestCompiledSequences(t *testing.T) {
	rec := ev.Get(ID)
	rec.SetRule(rule)
	g := genCase(genConfig{Mode: "compiled", Params: tierParams(), Natives: tierNatives(), MaxOps: maxOps() / 2})
	rec.Check(t, "compiled", ev.N(250, 4000), func(rt *rapid.T) {
		c := g.Draw(rt, "case")
		rec.Begin("compiled", c)
		rec.Report(rt, "compiled", c, run(c, rec))
	})
}

func TestAdversarialHints(t *testing.T) {
	rec := ev.Get(ID)
	rec.SetRule(rule)
	g := genCase(genConfig{Mode: "adv", Params: tierParams(), Natives: tierNatives(), MaxOps: maxOps() / 3})
	rec.Check(t, "adv", ev.N(300, 5000), func(rt *rapid.T) {
		c := g.Draw(rt, "case")
		rec.Begin("adv", c)
		rec.Report(rt, "adv", c, run(c, rec))
	})
}

// f11Probe is the fixed exploit of finding F11 (carry limbs of the multiplication hint are not range
// checked): r = Mul(a, b) is asserted equal to the public claim a*b+1; the first mulHint call is rewritten
// to r+1, k - p^-1 mod N, carries recomputed in the native field.
func f11Probe(params, native, builder string, g16 bool) Case {
	ps := paramsByName(params)
	a := new(big.Int).Exp(big.NewInt(123456789), big.NewInt(41), ps.Q)
	b := new(big.Int).Exp(big.NewInt(987654321), big.NewInt(43), ps.Q)
	return Case{Params: params, Native: native, Mode: "f11probe", Builder: builder,
		In:     []Input{{Kind: "w", Limbs: limbsOf(a, ps)}, {Kind: "w", Limbs: limbsOf(b, ps)}},
		Ops:    []Op{{Op: "Mul", A: []int{0, 1}}},
		Export: []int{2}, ClaimD: []int{1},
		Adv:     [][]Strat{{{Hint: "mulHint", Seq: 0, Kind: "wrap", D: 1}}},
		Groth16: g16}
}

// TestKnownFindingProbe runs the exact exploit on every run, so that the KNOWN-FINDING line is printed
// iff it still reproduces; on parameter sets whose quotient range is below the native modulus the same
// rewrite must be infeasible or rejected.
func TestKnownFindingProbe(t *testing.T) {
	rec := ev.Get(ID)
	rec.SetRule(rule)
	for _, c := range []Case{
		f11Probe("secp256k1fp", "bn254", "r1cs", true),
		f11Probe("bn254fr", "bn254", "scs", false),
		f11Probe("bls12381fp", "bls12-377", "r1cs", false),
		f11Probe("goldilocks", "bn254", "r1cs", false),
		f11Probe("small3x11", "bls12-377", "scs", false),
	} {
		rec.Begin("f11probe", c)
		rec.Report(t, "f11probe", c, run(c, rec))
	}
}

func TestReplay(t *testing.T) { ev.Replay(t) }

package c12

import (
	"fmt"
	"math/big"
	"strings"
	"testing"

	"verifharness/lib/hintadv"
	"verifharness/lib/prog"

	"github.com/consensys/gnark/backend"
	"github.com/consensys/gnark/backend/groth16"
	"github.com/consensys/gnark/constraint"
	"github.com/consensys/gnark/constraint/solver"
	"github.com/consensys/gnark/frontend"
	"github.com/consensys/gnark/std"
	"github.com/consensys/gnark/std/math/emulated"
)

type probeCircuit struct {
	A, B emulated.Element[emulated.Secp256k1Fp]
	C    emulated.Element[emulated.Secp256k1Fp] `gnark:",public"`
}

func (c *probeCircuit) Define(api frontend.API) error {
	f, err := emulated.NewField[emulated.Secp256k1Fp](api)
	if err != nil {
		return err
	}
	r := f.Mul(&c.A, &c.B)
	f.AssertIsEqual(r, &c.C)
	return nil
}

func TestProbe(t *testing.T) {
	std.RegisterHints()
	fld := prog.FieldByName("bn254")
	N := fld.Q
	p := emulated.Secp256k1Fp{}.Modulus()
	sys, err := prog.Compile(fld, prog.R1CS, &probeCircuit{})
	if err != nil {
		t.Fatal(err)
	}
	a := big.NewInt(123456789)
	a.Lsh(a, 200)
	b := big.NewInt(987654321)
	b.Lsh(b, 190)
	good := new(big.Int).Mul(a, b)
	good.Mod(good, p)
	bad := new(big.Int).Add(good, big.NewInt(1))
	for _, claim := range []*big.Int{good, bad} {
		w, err := prog.Witness(fld, &probeCircuit{A: emulated.ValueOf[emulated.Secp256k1Fp](a), B: emulated.ValueOf[emulated.Secp256k1Fp](b), C: emulated.ValueOf[emulated.Secp256k1Fp](claim)})
		if err != nil {
			t.Fatal(err)
		}
		strat := func(c *hintadv.Call) bool {
			if !strings.HasSuffix(c.Name, "mulHint") || c.Seq != 0 || claim == good {
				return false
			}
			in := c.Inputs
			nbBits := uint(in[0].Int64())
			nbLimbs := int(in[1].Int64())
			nbA := int(in[2].Int64())
			nbQ := int(in[3].Int64())
			pl := in[4 : 4+nbLimbs]
			al := in[4+nbLimbs : 4+nbLimbs+nbA]
			bl := in[4+nbLimbs+nbA:]
			quo := c.Outputs[:nbQ]
			rem := c.Outputs[nbQ : nbQ+nbLimbs]
			car := c.Outputs[nbQ+nbLimbs:]
			recompose := func(l []*big.Int) *big.Int {
				r := new(big.Int)
				for i := len(l) - 1; i >= 0; i-- {
					r.Lsh(r, nbBits)
					r.Add(r, l[i])
				}
				return r
			}
			decompose := func(v *big.Int, l []*big.Int) {
				v = new(big.Int).Set(v)
				mask := new(big.Int).Lsh(big.NewInt(1), nbBits)
				mask.Sub(mask, big.NewInt(1))
				for i := range l {
					l[i].And(v, mask)
					v.Rsh(v, nbBits)
				}
				if v.Sign() != 0 {
					panic("does not fit")
				}
			}
			r := recompose(rem)
			k := recompose(quo)
			r.Add(r, big.NewInt(1))
			pinv := new(big.Int).ModInverse(p, N)
			k.Sub(k, pinv)
			k.Mod(k, N)
			decompose(r, rem)
			decompose(k, quo)
			// carries in the field
			mul := func(x, y []*big.Int) []*big.Int {
				res := make([]*big.Int, len(x)+len(y)-1)
				for i := range res {
					res[i] = new(big.Int)
				}
				for i := range x {
					for j := range y {
						res[i+j].Add(res[i+j], new(big.Int).Mul(x[i], y[j]))
					}
				}
				return res
			}
			lhs := mul(al, bl)
			rhs := mul(quo, pl)
			for i := range rem {
				rhs[i].Add(rhs[i], rem[i])
			}
			inv2w := new(big.Int).ModInverse(new(big.Int).Lsh(big.NewInt(1), nbBits), N)
			carry := new(big.Int)
			for i := range car {
				if i < len(lhs) {
					carry.Add(carry, lhs[i])
				}
				if i < len(rhs) {
					carry.Sub(carry, rhs[i])
				}
				carry.Mul(carry, inv2w)
				carry.Mod(carry, N)
				car[i].Set(carry)
			}
			return true
		}
		sess, opts := hintadv.Options(strat, nil)
		opts = append(opts, solver.WithNbTasks(1), hintadv.HashCommitment())
		_, err = prog.Solve(sys, w, opts...)
		fmt.Printf("claim good=%v changed=%d err=%v\n", claim == good, sess.Changed, err)
		// real proof
		ccs := sys.(constraint.ConstraintSystem)
		pk, vk, err := groth16.Setup(ccs)
		if err != nil {
			t.Fatal(err)
		}
		_, opts2 := hintadv.Options(strat, func(n string) bool { return strings.HasSuffix(n, "mulHint") })
		opts2 = append(opts2, solver.WithNbTasks(1))
		proof, err := groth16.Prove(ccs, pk, w, backend.WithSolverOptions(opts2...))
		if err != nil {
			fmt.Println("prove err", err)
			continue
		}
		pw, _ := w.Public()
		fmt.Printf("groth16 verify of claim good=%v: err=%v\n", claim == good, groth16.Verify(proof, vk, pw))
	}
}
